(* KV.C15.Proofs *)
From Coq Require Import List NArith Bool Lia.
Import ListNotations.
Require Import KV.C15.Model.
Open Scope N_scope.
Arguments N.add : simpl never.
Arguments N.ltb : simpl never.
Arguments N.leb : simpl never.
Arguments N.eqb : simpl never.

(* ------------------------------------------------------------------ basics *)
Lemma memN_In x l : memN x l = true <-> In x l.
Proof.
  unfold memN. rewrite existsb_exists. split.
  - intros (y & Hy & E). apply N.eqb_eq in E. subst. exact Hy.
  - intros H. exists x. split; [exact H | apply N.eqb_refl].
Qed.

Lemma memN_nIn x l : memN x l = false <-> ~ In x l.
Proof.
  rewrite <- memN_In. destruct (memN x l); split; intros H.
  - discriminate.
  - exfalso. apply H. reflexivity.
  - intros H'. discriminate.
  - reflexivity.
Qed.

Lemma isnil_filter {A} (p : A -> bool) l : isnil (filter p l) = forallb (fun x => negb (p x)) l.
Proof. induction l as [|a l IH]; cbn; [reflexivity|]. destruct (p a); cbn; [reflexivity | exact IH]. Qed.

Lemma isnil_filter_neg {A} (p : A -> bool) l : isnil (filter (fun x => negb (p x)) l) = forallb p l.
Proof. induction l as [|a l IH]; cbn; [reflexivity|]. destruct (p a); cbn; [exact IH | reflexivity]. Qed.

Lemma isnil_true {A} (l : list A) : isnil l = true <-> l = [].
Proof. destruct l; cbn; split; intros H; try reflexivity; discriminate. Qed.

Lemma first_err_none {A} (f : A -> res) l :
  is_none (first_err f l) = forallb (fun x => is_none (f x)) l.
Proof. induction l as [|a l IH]; cbn; [reflexivity|]. destruct (f a); cbn; [reflexivity | exact IH]. Qed.

Lemma forallb_eq {A} (f g : A -> bool) l : (forall x, f x = g x) -> forallb f l = forallb g l.
Proof. intros H. induction l as [|a l IH]; cbn; [reflexivity|]. rewrite H, IH. reflexivity. Qed.

Lemma is_none_true {A} (o : option A) : is_none o = true <-> o = None.
Proof. destruct o; cbn; split; intros H; try reflexivity; discriminate. Qed.

Lemma alookup_In {A} k (l : list (N * A)) v : alookup k l = Some v -> In (k, v) l.
Proof.
  induction l as [|[k' v'] l IH]; cbn; [discriminate|].
  destruct (N.eqb_spec k k') as [->|Hne].
  - intros E. injection E as ->. left. reflexivity.
  - intros E. right. apply IH. exact E.
Qed.

Lemma alookup_aset_same {A} k (v : A) l : alookup k (aset k v l) = Some v.
Proof.
  induction l as [|[k' v'] l IH]; cbn.
  - rewrite N.eqb_refl. reflexivity.
  - destruct (N.eqb_spec k k') as [->|Hne]; cbn.
    + rewrite N.eqb_refl. reflexivity.
    + destruct (N.eqb_spec k k'); [contradiction | exact IH].
Qed.

Lemma alookup_aset_other {A} k k' (v : A) l : k' <> k -> alookup k' (aset k v l) = alookup k' l.
Proof.
  intros Hne. induction l as [|[k2 v2] l IH]; cbn.
  - destruct (N.eqb_spec k' k); [contradiction | reflexivity].
  - destruct (N.eqb_spec k k2) as [->|Hne2]; cbn.
    + destruct (N.eqb_spec k' k2); [contradiction | reflexivity].
    + destruct (N.eqb_spec k' k2); [reflexivity | exact IH].
Qed.

Lemma In_aset {A} k (v : A) l p : In p (aset k v l) -> p = (k, v) \/ In p l.
Proof.
  induction l as [|[k2 v2] l IH]; cbn.
  - intros [H|[]]. left. symmetry. exact H.
  - destruct (N.eqb_spec k k2) as [->|Hne]; cbn.
    + intros [H|H]; [left; symmetry; exact H | right; right; exact H].
    + intros [H|H]; [right; left; exact H|]. destruct (IH H) as [H'|H']; [left; exact H' | right; right; exact H'].
Qed.

Lemma In_upsert ws : forall d p, In p (upsert ws d) -> In p ws \/ In p d.
Proof.
  induction ws as [|[u e] ws IH]; intros d p; cbn; [intros H; right; exact H|].
  intros H. destruct (IH _ _ H) as [H'|H']; [left; right; exact H'|].
  destruct (In_aset _ _ _ _ H') as [->|H'']; [left; left; reflexivity | right; exact H''].
Qed.

Lemma In_adel {A} k (l : list (N * A)) p : In p (adel k l) -> In p l.
Proof. unfold adel. rewrite filter_In. intros [H _]. exact H. Qed.

Lemma alookup_app_some {A} k (l l' : list (N * A)) v : alookup k l = Some v -> alookup k (l ++ l') = Some v.
Proof.
  induction l as [|[k' v'] l IH]; cbn; [discriminate|].
  destruct (k =? k'); [intros H; exact H | exact IH].
Qed.

Lemma list_eqb_eq l : forall l', list_eqb l l' = true -> l = l'.
Proof.
  induction l as [|x l IH]; intros [|y l']; cbn; try discriminate; [reflexivity|].
  rewrite andb_true_iff, N.eqb_eq. intros [-> H]. f_equal. apply IH. exact H.
Qed.

Lemma list_eqb_refl l : list_eqb l l = true.
Proof. induction l as [|x l IH]; cbn; [reflexivity|]. rewrite N.eqb_refl. exact IH. Qed.

Lemma inclb_incl l l' : inclb l l' = true -> incl l l'.
Proof.
  induction l as [|x l IH]; cbn; [intros _ y []|].
  rewrite andb_true_iff, memN_In. intros [Hx H] y [<-|Hy]; [exact Hx | apply IH; assumption].
Qed.

(* ------------------------------------------------------------------ validate = executable spec *)
Lemma validate_ava_ok a d vs :
  is_none (validate_ava a d vs) = (a_multi d || (v_len vs <=? 1)) && (a_syn d =? v_syn vs) && v_ok vs.
Proof.
  unfold validate_ava. rewrite (N.leb_antisym 1 (v_len vs)).
  destruct (a_multi d), (1 <? v_len vs), (a_syn d =? v_syn vs), (v_ok vs); reflexivity.
Qed.

Lemma check_ext_ok sch p :
  is_none (check_ext sch p) = attr_ok sch (fun d _ => negb (a_phantom d)) p.
Proof.
  unfold check_ext, attr_ok. destruct (alookup (fst p) (s_attrs sch)) as [d|]; [|reflexivity].
  destruct (a_phantom d); cbn [negb andb is_none]; [reflexivity|].
  rewrite validate_ava_ok. reflexivity.
Qed.

Lemma check_may_ok sch mays p :
  is_none (check_may sch mays p) = attr_ok sch (fun _ a => memN a mays) p.
Proof.
  unfold check_may, attr_ok. destruct (alookup (fst p) (s_attrs sch)) as [d|].
  - destruct (memN (fst p) mays); cbn [andb is_none]; [|reflexivity]. rewrite validate_ava_ok. reflexivity.
  - destruct (memN (fst p) mays); reflexivity.
Qed.

Lemma validate_body_sat sch e ec : is_none (validate_body sch e ec) = sat_body sch e ec.
Proof.
  unfold validate_body, sat_body.
  rewrite isnil_filter_neg.
  destruct (forallb (known_class sch) ec); cbn [negb andb is_none]; [|reflexivity].
  destruct (isnil (flat_map sup_list (cdefs sch ec))); cbn [negb andb orb is_none].
  2: destruct (existsb (fun s => memN s ec) (flat_map sup_list (cdefs sch ec))); cbn [negb andb is_none]; [|reflexivity].
  all: rewrite isnil_filter.
  all: destruct (forallb (fun x => negb (memN x ec)) (flat_map exc_list (cdefs sch ec))); cbn [negb andb is_none]; [|reflexivity].
  all: destruct (forallb (defined sch) (flat_map must_list (cdefs sch ec))); cbn [negb andb is_none]; [|reflexivity].
  all: rewrite isnil_filter_neg.
  all: destruct (memN C_RECYCLED ec); cbn [negb andb orb is_none].
  all: try (destruct (forallb (present e) (flat_map must_list (cdefs sch ec))); cbn [negb andb is_none]; [|reflexivity]).
  all: try rewrite andb_false_r.
  all: destruct (memN C_EXTENSIBLE ec).
  all: try (rewrite first_err_none; apply forallb_eq; intros x; apply check_ext_ok).
  all: destruct (forallb (defined sch) (flat_map allowed_list (cdefs sch ec))); cbn [negb andb is_none]; try reflexivity.
  all: rewrite first_err_none; apply forallb_eq; intros x; apply check_may_ok.
Qed.

Lemma validate_sat sch e : is_none (validate sch e) = sat_b sch e.
Proof.
  unfold validate, sat_b. destruct (alookup A_CLASS e) as [cvs|]; [|reflexivity].
  destruct (memN C_CONFLICT (vals_of cvs)); cbn [orb is_none]; [reflexivity|].
  destruct (v_syn cvs =? SYN_IUTF8); cbn [negb andb is_none]; [|reflexivity].
  apply validate_body_sat.
Qed.

Lemma validate_invalid_sat sch e : is_none (validate_invalid sch e) = uuid_ok e && sat_b sch e.
Proof. unfold validate_invalid. destruct (uuid_ok e); cbn [andb is_none]; [apply validate_sat | reflexivity]. Qed.

Lemma validate_invalid_valid sch e : validate_invalid sch e = None -> validate sch e = None.
Proof. unfold validate_invalid. destruct (uuid_ok e); [intros H; exact H | discriminate]. Qed.

(* ------------------------------------------------------------------ declarative specification *)
(* [d] is the definition of one of the entry's classes *)
Definition class_of (sch : schema) (ec : list N) (d : cdef) : Prop :=
  exists c, In c ec /\ alookup c (s_classes sch) = Some d.

(* one attribute-value set of the entry is acceptable *)
Definition attr_conf (sch : schema) (ec : list N) (p : N * vset) : Prop :=
  exists ad, alookup (fst p) (s_attrs sch) = Some ad
    (* bullet 1: the attribute is allowed: named by one of the entry's classes, or, for an
       extensible object, any real (non-phantom) attribute of the schema *)
    /\ (In C_EXTENSIBLE ec -> a_phantom ad = false)
    /\ (~ In C_EXTENSIBLE ec -> exists d, class_of sch ec d /\ In (fst p) (allowed_list d))
    (* bullet 3: single-valued attributes hold at most one value *)
    /\ (a_multi ad = false -> v_len (snd p) <= 1)
    (* bullet 4: the values have the attribute's syntax and are valid for it *)
    /\ a_syn ad = v_syn (snd p) /\ v_ok (snd p) = true.

Definition Conforms (sch : schema) (e : entry) (ec : list N) : Prop :=
  (* every class is defined *)
  (forall c, In c ec -> exists d, alookup c (s_classes sch) = Some d)
  (* if the classes ask for supplementing classes, one of them is present *)
  /\ ((exists d s, class_of sch ec d /\ In s (sup_list d)) ->
      exists d s, class_of sch ec d /\ In s (sup_list d) /\ In s ec)
  (* no excluded class is present *)
  /\ (forall d x, class_of sch ec d -> In x (exc_list d) -> ~ In x ec)
  (* the schema itself is sane for these classes *)
  /\ (forall d a, class_of sch ec d -> In a (must_list d) -> exists ad, alookup a (s_attrs sch) = Some ad)
  (* bullet 2: every required attribute is present (not enforced in the recycle bin) *)
  /\ (~ In C_RECYCLED ec -> forall d a, class_of sch ec d -> In a (must_list d) -> exists vs, alookup a e = Some vs)
  /\ (~ In C_EXTENSIBLE ec -> forall d a, class_of sch ec d -> In a (allowed_list d) ->
      exists ad, alookup a (s_attrs sch) = Some ad)
  (* bullets 1, 3, 4 for every attribute of the entry *)
  /\ (forall p, In p e -> attr_conf sch ec p).

(* an entry satisfies the schema: it has a class attribute and either is a replication
   conflict (exempt by design) or conforms *)
Definition Satisfies (sch : schema) (e : entry) : Prop :=
  exists cvs, alookup A_CLASS e = Some cvs /\
    (In C_CONFLICT (vals_of cvs) \/ (v_syn cvs = SYN_IUTF8 /\ Conforms sch e (v_vals cvs))).

Lemma in_cdefs sch ec d : In d (cdefs sch ec) <-> class_of sch ec d.
Proof.
  unfold cdefs, class_of. rewrite in_flat_map. split.
  - intros (c & Hc & Hd). destruct (alookup c (s_classes sch)) as [d'|] eqn:E; [|destruct Hd].
    destruct Hd as [->|[]]. exists c. split; [exact Hc | exact E].
  - intros (c & Hc & E). exists c. rewrite E. split; [exact Hc | left; reflexivity].
Qed.

Lemma in_flat_cdefs (f : cdef -> list N) sch ec x :
  In x (flat_map f (cdefs sch ec)) <-> exists d, class_of sch ec d /\ In x (f d).
Proof.
  rewrite in_flat_map. split; intros (d & Hd & Hx); exists d; (split; [apply in_cdefs; exact Hd | exact Hx]).
Qed.

Lemma known_class_true sch c : known_class sch c = true <-> exists d, alookup c (s_classes sch) = Some d.
Proof.
  unfold known_class. destruct (alookup c (s_classes sch)) as [d|]; split; intros H; try reflexivity; try discriminate.
  - exists d. reflexivity.
  - destruct H as [d H]. discriminate.
Qed.

Lemma defined_true sch a : defined sch a = true <-> exists d, alookup a (s_attrs sch) = Some d.
Proof.
  unfold defined. destruct (alookup a (s_attrs sch)) as [d|]; split; intros H; try reflexivity; try discriminate.
  - exists d. reflexivity.
  - destruct H as [d H]. discriminate.
Qed.

Lemma present_true e a : present e a = true <-> exists vs, alookup a e = Some vs.
Proof.
  unfold present. destruct (alookup a e) as [d|]; split; intros H; try reflexivity; try discriminate.
  - exists d. reflexivity.
  - destruct H as [d H]. discriminate.
Qed.

Lemma attr_ok_ext_conf sch ec p : In C_EXTENSIBLE ec ->
  attr_ok sch (fun d _ => negb (a_phantom d)) p = true <-> attr_conf sch ec p.
Proof.
  intros Hext. unfold attr_ok, attr_conf. destruct (alookup (fst p) (s_attrs sch)) as [ad|].
  - rewrite !andb_true_iff, negb_true_iff, orb_true_iff, N.leb_le, N.eqb_eq. split.
    + intros [[[Hp Hm] Hs] Hv]. exists ad.
      split; [reflexivity|]. split; [intros _; exact Hp|]. split; [intros H; contradiction|].
      split; [|split; assumption].
      intros Hf. destruct Hm as [Hm|Hm]; [rewrite Hm in Hf; discriminate | exact Hm].
    + intros (ad' & E & Hp & _ & Hm & Hs & Hv). injection E as <-.
      split; [split; [split|]|]; try assumption.
      * apply Hp. exact Hext.
      * destruct (a_multi ad); [left; reflexivity | right; apply Hm; reflexivity].
  - split; [discriminate | intros (ad' & E & _); discriminate].
Qed.

Lemma attr_ok_may_conf sch ec p : ~ In C_EXTENSIBLE ec ->
  attr_ok sch (fun _ a => memN a (flat_map allowed_list (cdefs sch ec))) p = true <-> attr_conf sch ec p.
Proof.
  intros Hext. unfold attr_ok, attr_conf. destruct (alookup (fst p) (s_attrs sch)) as [ad|].
  - rewrite !andb_true_iff, memN_In, in_flat_cdefs, orb_true_iff, N.leb_le, N.eqb_eq. split.
    + intros [[[Hp Hm] Hs] Hv]. exists ad.
      split; [reflexivity|]. split; [intros H; contradiction|]. split; [intros _; exact Hp|].
      split; [|split; assumption].
      intros Hf. destruct Hm as [Hm|Hm]; [rewrite Hm in Hf; discriminate | exact Hm].
    + intros (ad' & E & _ & Hp & Hm & Hs & Hv). injection E as <-.
      split; [split; [split|]|]; try assumption.
      * apply Hp. exact Hext.
      * destruct (a_multi ad); [left; reflexivity | right; apply Hm; reflexivity].
  - split; [discriminate | intros (ad' & E & _); discriminate].
Qed.

Lemma sat_body_conforms sch e ec : sat_body sch e ec = true <-> Conforms sch e ec.
Proof.
  unfold sat_body, Conforms. rewrite !andb_true_iff.
  assert (H1 : forallb (known_class sch) ec = true <->
               (forall c, In c ec -> exists d, alookup c (s_classes sch) = Some d)).
  { rewrite forallb_forall. split; intros H c Hc; apply known_class_true, H, Hc. }
  assert (H2 : isnil (flat_map sup_list (cdefs sch ec)) || existsb (fun s => memN s ec) (flat_map sup_list (cdefs sch ec)) = true <->
               ((exists d s, class_of sch ec d /\ In s (sup_list d)) ->
                exists d s, class_of sch ec d /\ In s (sup_list d) /\ In s ec)).
  { rewrite orb_true_iff, isnil_true, existsb_exists. split.
    - intros [Hn|(s & Hs & Hm)].
      + intros (d & s & Hd & Hs). exfalso.
        assert (Hin : In s (flat_map sup_list (cdefs sch ec))) by (apply in_flat_cdefs; exists d; split; assumption).
        rewrite Hn in Hin. destruct Hin.
      + intros _. apply in_flat_cdefs in Hs. destruct Hs as (d & Hd & Hs).
        exists d, s. repeat split; try assumption. apply memN_In. exact Hm.
    - intros H. destruct (flat_map sup_list (cdefs sch ec)) as [|s l] eqn:E; [left; reflexivity|].
      right. assert (Hin : In s (flat_map sup_list (cdefs sch ec))) by (rewrite E; left; reflexivity).
      apply in_flat_cdefs in Hin. destruct Hin as (d & Hd & Hs).
      destruct (H (ex_intro _ d (ex_intro _ s (conj Hd Hs)))) as (d' & s' & Hd' & Hs' & Hm').
      exists s'. split; [|apply memN_In; exact Hm'].
      rewrite <- E. apply in_flat_cdefs. exists d'. split; assumption. }
  assert (H3 : forallb (fun x => negb (memN x ec)) (flat_map exc_list (cdefs sch ec)) = true <->
               (forall d x, class_of sch ec d -> In x (exc_list d) -> ~ In x ec)).
  { rewrite forallb_forall. split.
    - intros H d x Hd Hx. apply memN_nIn, negb_true_iff, H, in_flat_cdefs. exists d. split; assumption.
    - intros H x Hx. apply in_flat_cdefs in Hx. destruct Hx as (d & Hd & Hx).
      apply negb_true_iff, memN_nIn. exact (H d x Hd Hx). }
  assert (H4 : forallb (defined sch) (flat_map must_list (cdefs sch ec)) = true <->
               (forall d a, class_of sch ec d -> In a (must_list d) -> exists ad, alookup a (s_attrs sch) = Some ad)).
  { rewrite forallb_forall. split.
    - intros H d a Hd Ha. apply defined_true, H, in_flat_cdefs. exists d. split; assumption.
    - intros H a Ha. apply in_flat_cdefs in Ha. destruct Ha as (d & Hd & Ha). apply defined_true. exact (H d a Hd Ha). }
  assert (H5 : memN C_RECYCLED ec || forallb (present e) (flat_map must_list (cdefs sch ec)) = true <->
               (~ In C_RECYCLED ec -> forall d a, class_of sch ec d -> In a (must_list d) -> exists vs, alookup a e = Some vs)).
  { rewrite orb_true_iff, memN_In, forallb_forall. split.
    - intros [Hr|H] Hnr d a Hd Ha; [contradiction|]. apply present_true, H, in_flat_cdefs. exists d. split; assumption.
    - intros H. destruct (memN C_RECYCLED ec) eqn:Er; [left; apply memN_In; exact Er|].
      right. intros a Ha. apply in_flat_cdefs in Ha. destruct Ha as (d & Hd & Ha).
      apply present_true. apply memN_nIn in Er. exact (H Er d a Hd Ha). }
  rewrite H1, H2, H3, H4, H5. clear H1 H2 H3 H4 H5.
  destruct (memN C_EXTENSIBLE ec) eqn:Ex.
  - apply memN_In in Ex.
    assert (H7 : forallb (attr_ok sch (fun d _ => negb (a_phantom d))) e = true <-> (forall p, In p e -> attr_conf sch ec p)).
    { rewrite forallb_forall. split; intros H p Hp; apply (attr_ok_ext_conf sch ec p Ex), H, Hp. }
    rewrite H7. split.
    + intros (((((A & B) & C) & D) & E) & F). repeat split; try assumption. intros Hn. contradiction.
    + intros (A & B & C & D & E & _ & F). repeat split; assumption.
  - apply memN_nIn in Ex. rewrite andb_true_iff.
    assert (H6 : forallb (defined sch) (flat_map allowed_list (cdefs sch ec)) = true <->
                 (forall d a, class_of sch ec d -> In a (allowed_list d) -> exists ad, alookup a (s_attrs sch) = Some ad)).
    { rewrite forallb_forall. split.
      - intros H d a Hd Ha. apply defined_true, H, in_flat_cdefs. exists d. split; assumption.
      - intros H a Ha. apply in_flat_cdefs in Ha. destruct Ha as (d & Hd & Ha). apply defined_true. exact (H d a Hd Ha). }
    assert (H7 : forallb (attr_ok sch (fun _ a => memN a (flat_map allowed_list (cdefs sch ec)))) e = true <->
                 (forall p, In p e -> attr_conf sch ec p)).
    { rewrite forallb_forall. split; intros H p Hp; apply (attr_ok_may_conf sch ec p Ex), H, Hp. }
    rewrite H6, H7. split.
    + intros (((((A & B) & C) & D) & E) & (F & G)). repeat split; try assumption. intros _. exact F.
    + intros (A & B & C & D & E & F & G). repeat split; try assumption. apply F. exact Ex.
Qed.

Lemma sat_b_satisfies sch e : sat_b sch e = true <-> Satisfies sch e.
Proof.
  unfold sat_b, Satisfies. destruct (alookup A_CLASS e) as [cvs|].
  - rewrite orb_true_iff, andb_true_iff, memN_In, N.eqb_eq, sat_body_conforms. split.
    + intros H. exists cvs. split; [reflexivity | exact H].
    + intros (cvs' & E & H). injection E as <-. exact H.
  - split; [discriminate | intros (cvs' & E & _); discriminate].
Qed.

Lemma validate_spec sch e : validate sch e = None <-> Satisfies sch e.
Proof. rewrite <- sat_b_satisfies, <- validate_sat. symmetry. apply is_none_true. Qed.

(* ------------------------------------------------------------------ schema extension *)
(* the only change to an existing class: more optional attributes *)
Definition cdef_ext (d d' : cdef) : Prop :=
  c_sysmust d = c_sysmust d' /\ c_must d = c_must d' /\
  c_syssup d = c_syssup d' /\ c_sup d = c_sup d' /\
  c_sysexc d = c_sysexc d' /\ c_exc d = c_exc d' /\
  incl (c_sysmay d) (c_sysmay d') /\ incl (c_may d) (c_may d').
(* sch' adds attributes, classes and optional attributes to sch and changes nothing else *)
Definition sch_ext (sch sch' : schema) : Prop :=
  (forall a d, alookup a (s_attrs sch) = Some d -> alookup a (s_attrs sch') = Some d) /\
  (forall c d, alookup c (s_classes sch) = Some d ->
     exists d', alookup c (s_classes sch') = Some d' /\ cdef_ext d d').
(* what SchemaTransaction::validate demands of a schema before it goes in force *)
Definition sch_wf (sch : schema) : Prop :=
  forall c d a, alookup c (s_classes sch) = Some d -> In a (allowed_list d) ->
    exists ad, alookup a (s_attrs sch) = Some ad /\ a_phantom ad = false.

Lemma cdef_ext_refl d : cdef_ext d d.
Proof. unfold cdef_ext. repeat split; try reflexivity; apply incl_refl. Qed.

Lemma cdef_ext_lists d d' : cdef_ext d d' ->
  sup_list d = sup_list d' /\ exc_list d = exc_list d' /\ must_list d = must_list d' /\
  incl (allowed_list d) (allowed_list d').
Proof.
  intros (A & B & C & D & E & F & G & H). unfold sup_list, exc_list, must_list, allowed_list.
  rewrite A, B, C, D, E, F. repeat split; try reflexivity.
  intros x Hx. rewrite !in_app_iff in *. destruct Hx as [Hx|[Hx|[Hx|Hx]]]; auto.
Qed.

Lemma adef_eqb_eq d d' : adef_eqb d d' = true -> d = d'.
Proof.
  destruct d as [m p s], d' as [m' p' s']. unfold adef_eqb; cbn.
  rewrite !andb_true_iff, N.eqb_eq. intros [[Hm Hp] Hs].
  apply eqb_prop in Hm. apply eqb_prop in Hp. subst. reflexivity.
Qed.

Lemma cdef_ext_b_ext d d' : cdef_ext_b d d' = true -> cdef_ext d d'.
Proof.
  unfold cdef_ext_b, cdef_ext. rewrite !andb_true_iff.
  intros [[[[[[[A B] C] D] E] F] G] H].
  repeat split; try (apply list_eqb_eq; assumption); apply inclb_incl; assumption.
Qed.

Lemma ext_b_ext sch sch' : ext_b sch sch' = true -> sch_ext sch sch'.
Proof.
  unfold ext_b, sch_ext. rewrite andb_true_iff, !forallb_forall. intros [HA HC]. split.
  - intros a d E. specialize (HA (a, d) (alookup_In _ _ _ E)). cbn in HA.
    destruct (alookup a (s_attrs sch')) as [d'|]; [|discriminate].
    apply adef_eqb_eq in HA. subst. reflexivity.
  - intros c d E. specialize (HC (c, d) (alookup_In _ _ _ E)). cbn in HC.
    destruct (alookup c (s_classes sch')) as [d'|]; [|discriminate].
    exists d'. split; [reflexivity | apply cdef_ext_b_ext; exact HC].
Qed.

Lemma wf_b_wf sch : wf_b sch = true -> sch_wf sch.
Proof.
  unfold wf_b, sch_wf. rewrite forallb_forall. intros H c d a E Ha.
  specialize (H (c, d) (alookup_In _ _ _ E)). cbn in H. rewrite forallb_forall in H.
  specialize (H a Ha). unfold wf_attr in H.
  destruct (alookup a (s_attrs sch)) as [ad|]; [|discriminate].
  exists ad. split; [reflexivity | apply negb_true_iff; exact H].
Qed.

Lemma class_of_fwd sch sch' ec d : sch_ext sch sch' -> class_of sch ec d ->
  exists d', class_of sch' ec d' /\ cdef_ext d d'.
Proof.
  intros [_ HC] (c & Hc & E). destruct (HC c d E) as (d' & E' & Hx).
  exists d'. split; [exists c; split; assumption | exact Hx].
Qed.

Lemma class_of_bwd sch sch' ec d' : sch_ext sch sch' ->
  (forall c, In c ec -> exists d, alookup c (s_classes sch) = Some d) ->
  class_of sch' ec d' -> exists d, class_of sch ec d /\ cdef_ext d d'.
Proof.
  intros [_ HC] Hk (c & Hc & E'). destruct (Hk c Hc) as (d & E).
  destruct (HC c d E) as (d2 & E2 & Hx). rewrite E' in E2. injection E2 as <-.
  exists d. split; [exists c; split; assumption | exact Hx].
Qed.

Lemma conforms_mono sch sch' e ec :
  sch_ext sch sch' -> sch_wf sch' -> Conforms sch e ec -> Conforms sch' e ec.
Proof.
  intros Hext Hwf (K & S & X & MD & M & YD & AT).
  pose proof Hext as [HA HC].
  split; [|split; [|split; [|split; [|split; [|split]]]]].
  - intros c Hc. destruct (K c Hc) as (d & E). destruct (HC c d E) as (d' & E' & _). exists d'. exact E'.
  - intros (d' & s & Hd' & Hs).
    destruct (class_of_bwd _ _ _ _ Hext K Hd') as (d & Hd & Hx).
    destruct (cdef_ext_lists _ _ Hx) as (L1 & _ & _ & _). rewrite <- L1 in Hs.
    destruct (S (ex_intro _ d (ex_intro _ s (conj Hd Hs)))) as (d1 & s1 & Hd1 & Hs1 & Hm1).
    destruct (class_of_fwd _ _ _ _ Hext Hd1) as (d1' & Hd1' & Hx1).
    destruct (cdef_ext_lists _ _ Hx1) as (L1' & _ & _ & _). rewrite L1' in Hs1.
    exists d1', s1. repeat split; assumption.
  - intros d' x Hd' Hx'.
    destruct (class_of_bwd _ _ _ _ Hext K Hd') as (d & Hd & Hx).
    destruct (cdef_ext_lists _ _ Hx) as (_ & L2 & _ & _). rewrite <- L2 in Hx'.
    exact (X d x Hd Hx').
  - intros d' a Hd' Ha'.
    destruct (class_of_bwd _ _ _ _ Hext K Hd') as (d & Hd & Hx).
    destruct (cdef_ext_lists _ _ Hx) as (_ & _ & L3 & _). rewrite <- L3 in Ha'.
    destruct (MD d a Hd Ha') as (ad & E). exists ad. apply HA. exact E.
  - intros Hr d' a Hd' Ha'.
    destruct (class_of_bwd _ _ _ _ Hext K Hd') as (d & Hd & Hx).
    destruct (cdef_ext_lists _ _ Hx) as (_ & _ & L3 & _). rewrite <- L3 in Ha'.
    exact (M Hr d a Hd Ha').
  - intros _ d' a (c & Hc & E') Ha'.
    destruct (Hwf c d' a E' Ha') as (ad & E & _). exists ad. exact E.
  - intros p Hp. destruct (AT p Hp) as (ad & E & P1 & P2 & P3 & P4 & P5).
    exists ad. split; [apply HA; exact E|]. split; [exact P1|]. split; [|split; [exact P3 | split; assumption]].
    intros Hne. destruct (P2 Hne) as (d & Hd & Ha).
    destruct (class_of_fwd _ _ _ _ Hext Hd) as (d' & Hd' & Hx).
    destruct (cdef_ext_lists _ _ Hx) as (_ & _ & _ & L4).
    exists d'. split; [exact Hd' | apply L4; exact Ha].
Qed.

Lemma validate_mono sch sch' e :
  sch_ext sch sch' -> sch_wf sch' -> validate sch e = None -> validate sch' e = None.
Proof.
  intros Hext Hwf. rewrite !validate_spec. intros (cvs & E & H). exists cvs. split; [exact E|].
  destruct H as [H|[Hs H]]; [left; exact H | right; split; [exact Hs|]].
  eapply conforms_mono; eassumption.
Qed.

(* the three kinds of addition named by the property are extensions *)
Lemma apply_sop_ext sch o : sch_ext sch (apply_sop sch o).
Proof.
  assert (Hrefl : sch_ext sch sch).
  { split; [intros a d E; exact E | intros c d E; exists d; split; [exact E | apply cdef_ext_refl]]. }
  destruct o as [a d|c d|c a]; cbn [apply_sop].
  - destruct (defined sch a); [exact Hrefl|]. split; cbn [s_attrs s_classes].
    + intros a' d' E. apply alookup_app_some. exact E.
    + intros c' d' E. exists d'. split; [exact E | apply cdef_ext_refl].
  - destruct (known_class sch c); [exact Hrefl|]. split; cbn [s_attrs s_classes].
    + intros a' d' E. exact E.
    + intros c' d' E. exists d'. split; [apply alookup_app_some; exact E | apply cdef_ext_refl].
  - destruct (alookup c (s_classes sch)) as [d|] eqn:Ec; [|exact Hrefl]. split; cbn [s_attrs s_classes].
    + intros a' d' E. exact E.
    + intros c' d' E. destruct (N.eq_dec c' c) as [->|Hne].
      * rewrite Ec in E. injection E as <-. eexists. split; [apply alookup_aset_same|].
        unfold cdef_ext; cbn. repeat split; try reflexivity; try apply incl_refl.
        intros x Hx. apply in_app_iff. left. exact Hx.
      * exists d'. split; [rewrite alookup_aset_other by exact Hne; exact E | apply cdef_ext_refl].
Qed.

(* ------------------------------------------------------------------ validate_repl *)
Lemma add_class_spec c e : cls_wf e = true ->
  exists vs, alookup A_CLASS (add_class c e) = Some vs /\ v_syn vs = SYN_IUTF8 /\ In c (v_vals vs).
Proof.
  unfold cls_wf, add_class. destruct (alookup A_CLASS e) as [vs|] eqn:E.
  - intros Hs. rewrite Hs. destruct (memN c (v_vals vs)) eqn:Em.
    + exists vs. split; [exact E|]. split; [apply N.eqb_eq; exact Hs | apply memN_In; exact Em].
    + eexists. split; [apply alookup_aset_same|]. cbn. split; [reflexivity|].
      apply in_app_iff. right. left. reflexivity.
  - intros _. eexists. split; [apply alookup_aset_same|]. cbn. split; [reflexivity | left; reflexivity].
Qed.

Lemma to_conflict_valid sch e : cls_wf e = true -> validate sch (to_conflict e) = None.
Proof.
  intros Hwf. unfold to_conflict.
  destruct (add_class_spec C_RECYCLED e Hwf) as (vs1 & E1 & S1 & _).
  assert (Hwf1 : cls_wf (add_class C_RECYCLED e) = true).
  { unfold cls_wf. rewrite E1. apply N.eqb_eq. exact S1. }
  destruct (add_class_spec C_CONFLICT _ Hwf1) as (vs2 & E2 & S2 & I2).
  set (e2 := add_class C_CONFLICT (add_class C_RECYCLED e)) in *.
  assert (E3 : alookup A_CLASS (add_source e2) = Some vs2).
  { unfold add_source. destruct (alookup A_SOURCE_UUID e2); [exact E2|].
    rewrite alookup_aset_other; [exact E2 | discriminate]. }
  unfold validate. rewrite E3. unfold vals_of. rewrite S2. cbn [N.eqb].
  replace (SYN_IUTF8 =? SYN_IUTF8) with true by reflexivity.
  apply memN_In in I2. rewrite I2. reflexivity.
Qed.

Lemma validate_repl_valid sch e : cls_wf e = true -> validate sch (validate_repl sch e) = None.
Proof.
  intros Hwf. unfold validate_repl. destruct (validate sch e) eqn:E; [apply to_conflict_valid; exact Hwf | exact E].
Qed.

Lemma validate_repl_id sch e : validate sch e = None -> validate_repl sch e = e.
Proof. unfold validate_repl. intros ->. reflexivity. Qed.

(* ------------------------------------------------------------------ the invariant *)
Definition AllValid (s : srv) : Prop := forall u e, In (u, e) (snd s) -> validate (fst s) e = None.
(* replicated states carry a well-typed class attribute (they come from stored entries) *)
Definition op_ok (o : op) : Prop :=
  match o with ORepl ms => forall m, In m ms -> cls_wf (snd m) = true | _ => True end.

Lemma all_valid_AllValid s : all_valid s = true <-> AllValid s.
Proof.
  unfold all_valid, AllValid. rewrite forallb_forall. split.
  - intros H u e Hin. apply is_none_true. exact (H (u, e) Hin).
  - intros H [u e] Hin. apply is_none_true. exact (H u e Hin).
Qed.

Lemma step_preserves s o s' : AllValid s -> op_ok o -> step s o = Some s' -> AllValid s'.
Proof.
  intros Hinv Hok. destruct s as [sch d]. destruct o as [ws sch'|ms|u]; cbn [step fst snd].
  - destruct (forallb (fun w => is_none (validate_invalid sch (snd w))) ws && ext_b sch sch' && wf_b sch') eqn:C; [|discriminate].
    intros E. injection E as <-. rewrite !andb_true_iff in C. destruct C as [[Cw Ce] Cf].
    apply ext_b_ext in Ce. apply wf_b_wf in Cf. rewrite forallb_forall in Cw.
    intros u e Hin. cbn [fst snd] in *. apply (validate_mono sch sch' e Ce Cf).
    destruct (In_upsert _ _ _ Hin) as [Hw|Hd].
    + apply validate_invalid_valid. apply is_none_true. exact (Cw (u, e) Hw).
    + exact (Hinv u e Hd).
  - intros E. injection E as <-. intros u e Hin. cbn [fst snd] in *.
    destruct (In_upsert _ _ _ Hin) as [Hw|Hd]; [|exact (Hinv u e Hd)].
    apply in_map_iff in Hw. destruct Hw as (m & Em & Hm). injection Em as <- <-.
    apply validate_repl_valid. exact (Hok m Hm).
  - intros E. injection E as <-. intros u' e Hin. cbn [fst snd] in *.
    apply In_adel in Hin. exact (Hinv u' e Hin).
Qed.

Lemma exec_preserves s o : AllValid s -> op_ok o -> AllValid (exec s o).
Proof.
  intros Hinv Hok. unfold exec. destruct (step s o) as [s'|] eqn:E; [|exact Hinv].
  eapply step_preserves; eassumption.
Qed.

Lemma reachable ops : forall s, AllValid s -> Forall op_ok ops -> AllValid (fold_left exec ops s).
Proof.
  induction ops as [|o ops IH]; intros s Hinv Hok; cbn; [exact Hinv|].
  inversion Hok as [|o' ops' Ho Hops]; subst. apply IH; [apply exec_preserves; assumption | exact Hops].
Qed.

(* a refused write transaction: which conditions refuse, and that nothing is left behind *)
Lemma txn_refused s ws sch' :
  (exists w, In w ws /\ validate_invalid (fst s) (snd w) <> None) \/ ext_b (fst s) sch' = false \/ wf_b sch' = false ->
  step s (OTxn ws sch') = None /\ exec s (OTxn ws sch') = s.
Proof.
  intros H. assert (E : step s (OTxn ws sch') = None).
  { cbn [step]. destruct H as [(w & Hw & Hv)|[H|H]].
    - assert (F : forallb (fun w => is_none (validate_invalid (fst s) (snd w))) ws = false).
      { apply not_true_is_false. intros F. rewrite forallb_forall in F. apply Hv, is_none_true, F, Hw. }
      rewrite F. reflexivity.
    - rewrite H, andb_false_r. reflexivity.
    - rewrite H, andb_false_r. reflexivity. }
  split; [exact E | unfold exec; rewrite E; reflexivity].
Qed.

(* ------------------------------------------------------------------ run-time tie *)
Lemma res_eqb_none a b : res_eqb a b = true -> is_none a = is_none b.
Proof. destruct a, b; cbn; try reflexivity; discriminate. Qed.

Lemma all_sat_of_valid s : AllValid s -> all_sat s = true.
Proof.
  intros H. unfold all_sat. apply forallb_forall. intros [u e] Hin. cbn.
  rewrite <- validate_sat. apply is_none_true. exact (H u e Hin).
Qed.

Lemma purge_all_eq us : forall (sch : schema) (d : db),
  purge_all us (sch, d) = (sch, fold_left (fun d u => adel u d) us d).
Proof. induction us as [|u us IH]; intros sch d; cbn; [reflexivity|]. apply IH. Qed.

Lemma In_fold_adel us : forall (d : db) p, In p (fold_left (fun d u => adel u d) us d) -> In p d.
Proof.
  induction us as [|u us IH]; intros d p; cbn; [intros H; exact H|].
  intros H. apply IH in H. apply In_adel in H. exact H.
Qed.

Lemma apply_delta_nil sch : apply_delta sch [] [] = sch.
Proof. destruct sch; reflexivity. Qed.

Lemma setS_getS st b : setS st b (getS st b) = st.
Proof. destruct st as [a c], b; reflexivity. Qed.

Lemma getS_setS st b s : getS (setS st b s) b = s.
Proof. destruct st as [a c], b; reflexivity. Qed.

Definition Inv (st : srv * srv) : Prop := AllValid (fst st) /\ AllValid (snd st).

Lemma Inv_getS st b : Inv st -> AllValid (getS st b).
Proof. intros [A B]. destruct b; assumption. Qed.

Lemma Inv_setS st b s : Inv st -> AllValid s -> Inv (setS st b s).
Proof. intros [A B] H. destruct st as [x y], b; cbn in *; split; assumption. Qed.

Lemma map_validate_repl_id sch (ms : list (N * entry)) :
  forallb (fun w => is_none (validate sch (snd w))) ms = true ->
  map (fun m => (fst m, validate_repl sch (snd m))) ms = ms.
Proof.
  induction ms as [|[u e] ms IH]; cbn; [reflexivity|].
  rewrite andb_true_iff. intros [H1 H2]. apply is_none_true in H1.
  rewrite (validate_repl_id _ _ H1), (IH H2). reflexivity.
Qed.

Lemma In_somes ch u e : In (u, e) (somes ch) -> In (u, Some e) ch.
Proof.
  induction ch as [|[u' [e'|]] ch IH]; cbn; [intros []| |].
  - intros [H|H]; [left; injection H as -> ->; reflexivity | right; apply IH; exact H].
  - intros H. right. apply IH. exact H.
Qed.

Lemma obs_step_spec st h st' : Inv st -> obs_step st h = Some st' ->
  st' = track st h /\ Inv st' /\ step_ok st h = true.
Proof.
  intros HI. destruct h as [b cand r sa sc ch|b ch]; cbn [obs_step].
  - destruct (negb match cand with Some c => verdict_matches (validate_invalid (fst (getS st b)) c) r | None => true end); [discriminate|].
    pose proof (Inv_getS st b HI) as Hs. destruct (getS st b) as [sch d] eqn:Eg. cbn [fst snd] in *.
    destruct r as [|er|].
    + destruct (step (sch, d) (OTxn (somes ch) (apply_delta sch sa sc))) as [s'|] eqn:Es; [|discriminate].
      intros E. injection E as <-.
      assert (Hv' : AllValid s') by (exact (step_preserves _ (OTxn (somes ch) (apply_delta sch sa sc)) _ Hs I Es)).
      cbn [step fst snd] in Es.
      destruct (forallb _ (somes ch) && ext_b sch (apply_delta sch sa sc) && wf_b (apply_delta sch sa sc)); [|discriminate].
      injection Es as <-. rewrite purge_all_eq.
      assert (Hv2 : AllValid (apply_delta sch sa sc, fold_left (fun d u => adel u d) (nones ch) (upsert (somes ch) d))).
      { intros u e Hin. cbn [fst snd] in *. apply In_fold_adel in Hin. exact (Hv' u e Hin). }
      split; [cbn [track]; rewrite Eg; reflexivity|]. split; [apply Inv_setS; assumption|].
      cbn [step_ok track]. rewrite Eg. cbn [fst snd]. rewrite getS_setS, andb_true_r.
      apply all_sat_of_valid. exact Hv2.
    + destruct (isnil sa && isnil sc && isnil ch) eqn:En; [|discriminate].
      intros E. injection E as <-. rewrite !andb_true_iff, !isnil_true in En. destruct En as [[-> ->] ->].
      assert (Et : track st (HWrite b cand (RSchema er) [] [] []) = st).
      { cbn [track somes nones upsert fold_left]. rewrite Eg. cbn [fst snd]. rewrite apply_delta_nil. etransitivity; [|apply (setS_getS st b)]. f_equal. symmetry. exact Eg. }
      split; [symmetry; exact Et|]. split; [exact HI|].
      cbn [step_ok]. rewrite Et, Eg. cbn [isnil andb]. rewrite andb_true_r. apply all_sat_of_valid. exact Hs.
    + destruct (isnil sa && isnil sc && isnil ch) eqn:En; [|discriminate].
      intros E. injection E as <-. rewrite !andb_true_iff, !isnil_true in En. destruct En as [[-> ->] ->].
      assert (Et : track st (HWrite b cand ROther [] [] []) = st).
      { cbn [track somes nones upsert fold_left]. rewrite Eg. cbn [fst snd]. rewrite apply_delta_nil. etransitivity; [|apply (setS_getS st b)]. f_equal. symmetry. exact Eg. }
      split; [symmetry; exact Et|]. split; [exact HI|].
      cbn [step_ok]. rewrite Et, Eg. cbn [isnil andb]. rewrite andb_true_r. apply all_sat_of_valid. exact Hs.
  - pose proof (Inv_getS st b HI) as Hs. destruct (getS st b) as [sch d] eqn:Eg. cbn [fst snd] in *.
    destruct (forallb (fun w => is_none (validate sch (snd w))) (somes ch)) eqn:Ev; [|discriminate].
    cbn [step fst snd]. rewrite (map_validate_repl_id _ _ Ev), purge_all_eq.
    intros E. injection E as <-.
    assert (Hv2 : AllValid (sch, fold_left (fun d u => adel u d) (nones ch) (upsert (somes ch) d))).
    { intros u e Hin. cbn [fst snd] in *. apply In_fold_adel in Hin.
      destruct (In_upsert _ _ _ Hin) as [Hw|Hd]; [|exact (Hs u e Hd)].
      rewrite forallb_forall in Ev. apply is_none_true. exact (Ev (u, e) Hw). }
    split; [cbn [track]; rewrite Eg; reflexivity|]. split; [apply Inv_setS; assumption|].
    cbn [step_ok track]. rewrite Eg. cbn [fst snd]. rewrite getS_setS. apply all_sat_of_valid. exact Hv2.
Qed.

Lemma hist_agree_ok hs : forall st, Inv st -> hist_agree st hs = true -> hist_ok st hs = true.
Proof.
  induction hs as [|h hs IH]; intros st HI; cbn [hist_agree hist_ok]; [reflexivity|].
  destruct (obs_step st h) as [st'|] eqn:E; [|discriminate].
  destruct (obs_step_spec st h st' HI E) as (-> & HI' & Hok).
  intros H. rewrite Hok. cbn [andb]. apply IH; assumption.
Qed.

Lemma agree_pcheck c : agree c = true -> pcheck c = true.
Proof.
  destruct c as [sch e r|sch e out|a0 b0 hs]; cbn [agree pcheck].
  - intros H. apply res_eqb_none in H. rewrite <- H, validate_invalid_sat. apply eqb_reflx.
  - rewrite andb_true_iff. intros [_ H]. rewrite <- validate_sat. exact H.
  - rewrite !andb_true_iff. intros [[Ha Hb] Hh].
    apply all_valid_AllValid in Ha. apply all_valid_AllValid in Hb.
    repeat split; try (apply all_sat_of_valid; assumption).
    apply hist_agree_ok; [split; assumption | exact Hh].
Qed.
