(* KV.C15.Witness — non-vacuity: concrete schemas / entries / histories meeting the hypotheses. *)
From Coq Require Import List NArith Bool.
Import ListNotations.
Require Import KV.C15.Model KV.C15.Proofs.
Open Scope N_scope.

(* attrs: 0 class, 1 uuid, 2 source_uuid, 3 name (single utf8), 4 mail (multi utf8), 5 gid (single uint32)
   classes: 3 object(must class,uuid) 4 person(must name; may mail) 5 posix(must gid) excludes 6 *)
Definition wsch : schema := mksch
  [(0, mkadef true false 1); (1, mkadef false false 2); (2, mkadef true false 2);
   (3, mkadef false false 0); (4, mkadef true false 0); (5, mkadef false false 12)]
  [(0, mkcdef [2] [] [] [] [1] [] [] []); (1, mkcdef [] [] [] [] [] [] [] []);
   (2, mkcdef [] [] [] [] [] [] [] []);
   (3, mkcdef [0; 1] [] [] [] [] [] [] []); (4, mkcdef [3] [] [4] [] [] [] [] []);
   (5, mkcdef [5] [] [] [] [] [] [6] [])].
Definition went : entry :=
  [(0, mkvs 1 2 true [3; 4]); (1, mkvs 2 1 true []); (3, mkvs 0 1 true []); (4, mkvs 0 2 true [])].

(* a valid live entry: hypotheses of C15_live_entry_bullets / C15_validate_mono_ext *)
Example C15_witness_valid : validate wsch went = None /\ uuid_ok went = true /\ sat_b wsch went = true.
Proof. vm_compute. repeat split. Qed.

(* each bullet can fail: extra attribute, missing required, too many values, wrong syntax, invalid value *)
Example C15_witness_rejects :
  validate wsch (went ++ [(5, mkvs 12 1 true [])]) = Some (ENotValidForClass 5) /\
  validate wsch [(0, mkvs 1 2 true [3; 4]); (1, mkvs 2 1 true [])] = Some (EMissingMust [3]) /\
  validate wsch [(0, mkvs 1 2 true [3; 4]); (1, mkvs 2 1 true []); (3, mkvs 0 2 true [])] = Some (EInvalidSyntax 3) /\
  validate wsch [(0, mkvs 1 2 true [3; 4]); (1, mkvs 2 1 true []); (3, mkvs 1 1 true [])] = Some (EInvalidSyntax 3) /\
  validate wsch [(0, mkvs 1 2 true [3; 4]); (1, mkvs 2 1 true []); (3, mkvs 0 1 false [])] = Some (EInvalidSyntax 3).
Proof. vm_compute. repeat split. Qed.

(* a genuine extension: new attribute 6, new class 6, attribute 6 added as optional to person;
   an entry using the additions becomes valid only afterwards *)
Definition wsch' : schema :=
  apply_sop (apply_sop (apply_sop wsch (SAddAttr 6 (mkadef false false 0)))
                       (SAddClass 6 (mkcdef [] [] [] [6] [] [] [] []))) (SAddMay 4 6).
Example C15_witness_extension :
  ext_b wsch wsch' = true /\ wf_b wsch' = true /\
  validate wsch (went ++ [(6, mkvs 0 1 true [])]) = Some (ENotValidForClass 6) /\
  validate wsch' (went ++ [(6, mkvs 0 1 true [])]) = None /\ validate wsch' went = None.
Proof. vm_compute. repeat split. Qed.
(* narrowing is not an extension (the excluded schema edits): making name multi -> single elsewhere,
   or adding a required attribute *)
Example C15_witness_not_extension :
  ext_b wsch (mksch (s_attrs wsch) (aset 4 (mkcdef [3; 4] [] [] [] [] [] [] []) (s_classes wsch))) = false.
Proof. vm_compute. reflexivity. Qed.

(* replicated merge of two individually valid edits (posix removed on one side, gid set on the
   other) is invalid and becomes a conflict entry, which validates *)
Definition wmerged : entry :=
  [(0, mkvs 1 2 true [3; 4]); (1, mkvs 2 1 true []); (3, mkvs 0 1 true []); (5, mkvs 12 1 true [])].
Example C15_witness_repl :
  cls_wf wmerged = true /\ validate wsch wmerged = Some (ENotValidForClass 5) /\
  validate wsch (validate_repl wsch wmerged) = None /\
  alookup A_CLASS (validate_repl wsch wmerged) = Some (mkvs 1 4 true [3; 4; 1; 0]).
Proof. vm_compute. repeat split. Qed.

(* a history meeting the hypotheses of C15_reachable with accepted and refused operations *)
Definition wops : list op :=
  [OTxn [(10, went)] wsch;                                        (* accepted *)
   OTxn [(11, went ++ [(5, mkvs 12 1 true [])])] wsch;            (* refused: attribute not allowed *)
   OTxn [] wsch';                                                 (* schema additions *)
   OTxn [(12, went ++ [(6, mkvs 0 1 true [])])] wsch';            (* accepted under the new schema *)
   ORepl [(10, wmerged)];                                         (* merge -> conflict *)
   OPurge 12].
Example C15_witness_history :
  all_valid (wsch, []) = true /\ forallb (fun o => match o with ORepl ms => forallb (fun m => cls_wf (snd m)) ms | _ => true end) wops = true /\
  map fst (snd (fold_left exec wops (wsch, []))) = [10] /\
  all_valid (fold_left exec wops (wsch, [])) = true /\
  step (wsch, [(10, went)]) (OTxn [(11, went ++ [(5, mkvs 12 1 true [])])] wsch) = None.
Proof. vm_compute. repeat split. Qed.

(* the run-time tie accepts a small observed history and rejects a forged one in which an
   invalid entry was stored *)
Example C15_witness_agree :
  agree (CHist (wsch, []) (mksch [] [], [])
     [HWrite false (Some went) ROk [] [] [(10, Some went)];
      HWrite false (Some (went ++ [(5, mkvs 12 1 true [])])) (RSchema (ENotValidForClass 5)) [] [] [];
      HRepl false [(10, Some (validate_repl wsch wmerged))]]) = true /\
  pcheck (CHist (wsch, []) (mksch [] [], [])
     [HWrite false None ROk [] [] [(11, Some (went ++ [(5, mkvs 12 1 true [])]))]]) = false.
Proof. vm_compute. repeat split. Qed.
