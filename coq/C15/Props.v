(* KV.C15.Props — property theorems only.
   C15: every stored entry satisfies the schema, after any sequence of accepted operations
   (writes, schema additions, replicated merges); refused operations leave nothing behind. *)
From Coq Require Import List NArith Bool.
Import ListNotations.
Require Import KV.C15.Model KV.C15.Proofs.
Open Scope N_scope.

(* The transcription of Entry::validate accepts an entry exactly when the entry satisfies the
   schema in the declarative sense (Satisfies / Conforms / attr_conf in Proofs.v): it has a class
   attribute and is a replication conflict (exempt by design) or: all classes are defined, asked-for
   supplements present, no excluded class, every required attribute present (softened in the recycle
   bin), and every attribute is allowed, within its multiplicity, of the right syntax and valid. *)
Theorem C15_validate_spec : forall sch e, validate sch e = None <-> Satisfies sch e.
Proof. exact validate_spec. Qed.

(* The property's four bullets, verbatim, for a live entry (neither conflict nor recycled) that
   is not an extensible object: only allowed attributes, every required attribute present,
   single-valued attributes with one value, every value valid for its syntax. *)
Theorem C15_live_entry_bullets : forall sch e cvs,
  validate sch e = None -> alookup A_CLASS e = Some cvs ->
  ~ In C_CONFLICT (vals_of cvs) -> ~ In C_RECYCLED (v_vals cvs) -> ~ In C_EXTENSIBLE (v_vals cvs) ->
  (forall a vs, In (a, vs) e ->
     exists ad, alookup a (s_attrs sch) = Some ad
       /\ (exists d, class_of sch (v_vals cvs) d /\ In a (allowed_list d))
       /\ (a_multi ad = false -> v_len vs <= 1)
       /\ a_syn ad = v_syn vs /\ v_ok vs = true)
  /\ (forall d a, class_of sch (v_vals cvs) d -> In a (must_list d) -> exists vs, alookup a e = Some vs).
Proof.
  intros sch e cvs Hv Hc Hnc Hnr Hne. apply validate_spec in Hv.
  destruct Hv as (cvs' & Hc' & H). rewrite Hc in Hc'. injection Hc' as <-.
  destruct H as [H|[_ H]]; [contradiction|].
  destruct H as (_ & _ & _ & _ & M & _ & AT). split.
  - intros a vs Hin. destruct (AT (a, vs) Hin) as (ad & E & _ & P2 & P3 & P4 & P5).
    exists ad. repeat split; try assumption. exact (P2 Hne).
  - exact (M Hnr).
Qed.

(* The executable predicate used on the implementation's dumps means the same. *)
Theorem C15_pcheck_sound : forall sch e, sat_b sch e = true <-> Satisfies sch e.
Proof. exact sat_b_satisfies. Qed.

(* Schema additions never invalidate stored data: if sch' only adds attributes, classes and
   optional attributes to sch (the property's stated exclusion is exactly the hypothesis sch_ext)
   and sch' passes the server's schema self-check, every entry valid under sch is valid under sch'. *)
Theorem C15_validate_mono_ext : forall sch sch' e,
  sch_ext sch sch' -> sch_wf sch' -> validate sch e = None -> validate sch' e = None.
Proof. exact validate_mono. Qed.

(* Adding an attribute, adding a class, adding an optional attribute to a class are such extensions. *)
Theorem C15_additions_are_extensions : forall sch o, sch_ext sch (apply_sop sch o).
Proof. exact apply_sop_ext. Qed.

(* The replication path never stores an invalid entry: validate_repl turns whatever fails the
   schema into a conflict entry, which is exempt. (Premise: the class attribute, if present, is
   a string set - true of every stored entry, since validate demands it.) *)
Theorem C15_validate_repl_valid : forall sch e,
  cls_wf e = true -> validate sch (validate_repl sch e) = None.
Proof. exact validate_repl_valid. Qed.

(* One accepted operation (write transaction with candidate entries and a proposed schema,
   replicated merge, purge) keeps every stored entry valid under the schema then in force. *)
Theorem C15_step_inv : forall s o s',
  AllValid s -> op_ok o -> step s o = Some s' -> AllValid s'.
Proof. exact step_preserves. Qed.

(* After ANY sequence of operations (accepted ones applied, refused ones skipped), starting from
   any state whose entries are all valid, every stored entry satisfies the schema in force. *)
Theorem C15_reachable : forall ops s,
  AllValid s -> Forall op_ok ops ->
  forall u e, In (u, e) (snd (fold_left exec ops s)) -> Satisfies (fst (fold_left exec ops s)) e.
Proof.
  intros ops s Hs Hok u e Hin. apply validate_spec.
  exact (reachable ops s Hs Hok u e Hin).
Qed.

(* A write transaction with an invalid candidate, or whose schema proposal is not a pure
   addition or fails the schema self-check, is refused as a whole and leaves the state unchanged. *)
Theorem C15_reject_leaves_nothing : forall s ws sch',
  (exists w, In w ws /\ validate_invalid (fst s) (snd w) <> None)
  \/ ext_b (fst s) sch' = false \/ wf_b sch' = false ->
  step s (OTxn ws sch') = None /\ exec s (OTxn ws sch') = s.
Proof. exact txn_refused. Qed.

(* Soundness of the run-time tie: whenever the implementation's observations agree with the model
   (validate verdicts and error payloads, validate_repl outputs, and every observed transition of
   the histories being one the model allows), the property's own predicate holds of every entry the
   implementation stored, after every operation. *)
Theorem C15_agree_implies_property : forall c : case, agree c = true -> pcheck c = true.
Proof. exact agree_pcheck. Qed.
