(* KV.C15.Model — schema validation of stored entries (executable definitions only).
   Transcribes: Entry<EntryValid,_>::validate (server/lib/src/entry.rs:2018),
   Entry<EntryInvalid,_>::validate (entry.rs:1112), SchemaAttribute::validate_ava
   (schema.rs:371), Entry<EntryIncremental,_>::validate_repl (entry.rs:1079), and the
   accept/reject structure of create (server/create.rs:63), modify_pre_apply
   (server/modify.rs:142), reload_schema's SchemaTransaction::validate (schema.rs:539) and
   consumer_incremental_apply_entries (repl/consumer.rs:162).

   Names are interned by the harness: attribute names and class names are small N ids
   (two separate tables whose first ids are fixed below); syntaxes are SyntaxType's
   repr(u16) numbers. A value set is abstracted to (syntax, number of values,
   ValueSet::validate() verdict, for the class attribute: the class ids it holds). *)
From Coq Require Import List NArith Bool.
Import ListNotations.
Open Scope N_scope.

Definition A_CLASS : N := 0.
Definition A_UUID : N := 1.
Definition A_SOURCE_UUID : N := 2.
Definition C_CONFLICT : N := 0.
Definition C_RECYCLED : N := 1.
Definition C_EXTENSIBLE : N := 2.
Definition SYN_IUTF8 : N := 1.       (* SyntaxType::Utf8StringInsensitive *)
Definition SYN_UUID : N := 2.        (* SyntaxType::Uuid *)

Record adef := mkadef { a_multi : bool; a_phantom : bool; a_syn : N }.
Record cdef := mkcdef { c_sysmust : list N; c_must : list N; c_sysmay : list N; c_may : list N;
                        c_syssup : list N; c_sup : list N; c_sysexc : list N; c_exc : list N }.
Record schema := mksch { s_attrs : list (N * adef); s_classes : list (N * cdef) }.
Record vset := mkvs { v_syn : N; v_len : N; v_ok : bool; v_vals : list N }.
(* Eattrs = BTreeMap<Attribute, ValueSet>, in iteration order *)
Definition entry := list (N * vset).

Fixpoint alookup {A} (k : N) (l : list (N * A)) : option A :=
  match l with
  | [] => None
  | (k', v) :: r => if k =? k' then Some v else alookup k r
  end.
Fixpoint aset {A} (k : N) (v : A) (l : list (N * A)) : list (N * A) :=
  match l with
  | [] => [(k, v)]
  | (k', v') :: r => if k =? k' then (k, v) :: r else (k', v') :: aset k v r
  end.
Definition adel {A} (k : N) (l : list (N * A)) : list (N * A) :=
  filter (fun p => negb (k =? fst p)) l.

Definition memN (x : N) (l : list N) : bool := existsb (N.eqb x) l.
Definition isnil {A} (l : list A) : bool := match l with [] => true | _ => false end.

Inductive serr :=
| ENoClass
| EInvalidClass (l : list N)
| ESupplements (l : list N)
| EExcludes (l : list N)
| ECorrupted
| EMissingMust (l : list N)
| EPhantom (a : N)
| EInvalidAttr (a : N)
| ENotValidForClass (a : N)
| EInvalidSyntax (a : N).
Definition res := option serr.        (* None = Ok(()) *)

(* ------------------------------------------------------------------ validate *)
Definition known_class (sch : schema) (c : N) : bool :=
  match alookup c (s_classes sch) with Some _ => true | None => false end.
Definition defined (sch : schema) (a : N) : bool :=
  match alookup a (s_attrs sch) with Some _ => true | None => false end.
Definition present (e : entry) (a : N) : bool :=
  match alookup a e with Some _ => true | None => false end.
Definition cdefs (sch : schema) (ec : list N) : list cdef :=
  flat_map (fun c => match alookup c (s_classes sch) with Some d => [d] | None => [] end) ec.
Definition sup_list (d : cdef) := c_syssup d ++ c_sup d.
Definition exc_list (d : cdef) := c_sysexc d ++ c_exc d.
Definition must_list (d : cdef) := c_sysmust d ++ c_must d.
Definition allowed_list (d : cdef) := c_sysmust d ++ c_must d ++ c_sysmay d ++ c_may d.

(* as_iutf8_set() contents; any other value-set type contains no Iutf8 partial value *)
Definition vals_of (vs : vset) : list N := if v_syn vs =? SYN_IUTF8 then v_vals vs else [].

(* SchemaAttribute::validate_ava *)
Definition validate_ava (a : N) (d : adef) (vs : vset) : res :=
  if negb (a_multi d) && (1 <? v_len vs) then Some (EInvalidSyntax a)
  else if (a_syn d =? v_syn vs) && v_ok vs then None
  else Some (EInvalidSyntax a).

Fixpoint first_err {A} (f : A -> res) (l : list A) : res :=
  match l with
  | [] => None
  | x :: r => match f x with Some e => Some e | None => first_err f r end
  end.

Definition check_ext (sch : schema) (p : N * vset) : res :=
  match alookup (fst p) (s_attrs sch) with
  | Some d => if a_phantom d then Some (EPhantom (fst p)) else validate_ava (fst p) d (snd p)
  | None => Some (EInvalidAttr (fst p))
  end.
Definition check_may (sch : schema) (mays : list N) (p : N * vset) : res :=
  if memN (fst p) mays then
    match alookup (fst p) (s_attrs sch) with
    | Some d => validate_ava (fst p) d (snd p)
    | None => Some ECorrupted
    end
  else Some (ENotValidForClass (fst p)).

(* the part of Entry::validate after the class set [ec] has been read *)
Definition validate_body (sch : schema) (e : entry) (ec : list N) : res :=
  let inv := filter (fun c => negb (known_class sch c)) ec in
  if negb (isnil inv) then Some (EInvalidClass inv) else
  let cls := cdefs sch ec in
  let sups := flat_map sup_list cls in
  if negb (isnil sups) && negb (existsb (fun s => memN s ec) sups) then Some (ESupplements sups) else
  let bad := filter (fun x => memN x ec) (flat_map exc_list cls) in
  if negb (isnil bad) then Some (EExcludes bad) else
  let musts := flat_map must_list cls in
  if negb (forallb (defined sch) musts) then Some ECorrupted else
  let missing := filter (fun a => negb (present e a)) musts in
  if negb (isnil missing) && negb (memN C_RECYCLED ec) then Some (EMissingMust missing) else
  if memN C_EXTENSIBLE ec then first_err (check_ext sch) e
  else
    let mays := flat_map allowed_list cls in
    if negb (forallb (defined sch) mays) then Some ECorrupted
    else first_err (check_may sch mays) e.

(* Entry<EntryValid, STATE>::validate *)
Definition validate (sch : schema) (e : entry) : res :=
  match alookup A_CLASS e with
  | None => Some ENoClass
  | Some cvs =>
      if memN C_CONFLICT (vals_of cvs) then None
      else if negb (v_syn cvs =? SYN_IUTF8) then Some ENoClass
      else validate_body sch e (v_vals cvs)
  end.

(* uuid must be a single Uuid value: Entry<EntryInvalid, STATE>::validate *)
Definition uuid_ok (e : entry) : bool :=
  match alookup A_UUID e with
  | Some vs => (v_syn vs =? SYN_UUID) && (v_len vs =? 1)
  | None => false
  end.
Definition validate_invalid (sch : schema) (e : entry) : res :=
  if uuid_ok e then validate sch e else Some (EMissingMust [A_UUID]).

(* ------------------------------------------------------------------ executable specification
   (the property's four bullets, without error ordering; used by pcheck) *)
Definition attr_ok (sch : schema) (allowed : adef -> N -> bool) (p : N * vset) : bool :=
  match alookup (fst p) (s_attrs sch) with
  | None => false
  | Some d => allowed d (fst p)
              && (a_multi d || (v_len (snd p) <=? 1))
              && (a_syn d =? v_syn (snd p)) && v_ok (snd p)
  end.
Definition sat_body (sch : schema) (e : entry) (ec : list N) : bool :=
  let cls := cdefs sch ec in
  let sups := flat_map sup_list cls in
  let musts := flat_map must_list cls in
  let mays := flat_map allowed_list cls in
  forallb (known_class sch) ec
  && (isnil sups || existsb (fun s => memN s ec) sups)
  && forallb (fun x => negb (memN x ec)) (flat_map exc_list cls)
  && forallb (defined sch) musts
  && (memN C_RECYCLED ec || forallb (present e) musts)
  && (if memN C_EXTENSIBLE ec
      then forallb (attr_ok sch (fun d _ => negb (a_phantom d))) e
      else forallb (defined sch) mays && forallb (attr_ok sch (fun _ a => memN a mays)) e).
Definition sat_b (sch : schema) (e : entry) : bool :=
  match alookup A_CLASS e with
  | None => false
  | Some cvs => memN C_CONFLICT (vals_of cvs) || ((v_syn cvs =? SYN_IUTF8) && sat_body sch e (v_vals cvs))
  end.

(* ------------------------------------------------------------------ validate_repl *)
Definition add_class (c : N) (e : entry) : entry :=
  match alookup A_CLASS e with
  | Some vs =>
      if v_syn vs =? SYN_IUTF8 then
        if memN c (v_vals vs) then e
        else aset A_CLASS (mkvs SYN_IUTF8 (v_len vs + 1) (v_ok vs) (v_vals vs ++ [c])) e
      else e                       (* insert_checked refuses a wrongly typed value *)
  | None => aset A_CLASS (mkvs SYN_IUTF8 1 true [c]) e
  end.
Definition add_source (e : entry) : entry :=
  match alookup A_SOURCE_UUID e with
  | Some _ => e                    (* not exercised: merged entries carry no source_uuid *)
  | None => aset A_SOURCE_UUID (mkvs SYN_UUID 1 true []) e
  end.
Definition to_conflict (e : entry) : entry := add_source (add_class C_CONFLICT (add_class C_RECYCLED e)).
Definition validate_repl (sch : schema) (e : entry) : entry :=
  match validate sch e with None => e | Some _ => to_conflict e end.

(* ------------------------------------------------------------------ schema extension *)
Fixpoint inclb (l l' : list N) : bool :=
  match l with [] => true | x :: r => memN x l' && inclb r l' end.
Fixpoint list_eqb (l l' : list N) : bool :=
  match l, l' with
  | [], [] => true
  | x :: r, y :: r' => (x =? y) && list_eqb r r'
  | _, _ => false
  end.
Definition adef_eqb (d d' : adef) : bool :=
  Bool.eqb (a_multi d) (a_multi d') && Bool.eqb (a_phantom d) (a_phantom d') && (a_syn d =? a_syn d').
(* the only change allowed to an existing class: more optional attributes *)
Definition cdef_ext_b (d d' : cdef) : bool :=
  list_eqb (c_sysmust d) (c_sysmust d') && list_eqb (c_must d) (c_must d')
  && list_eqb (c_syssup d) (c_syssup d') && list_eqb (c_sup d) (c_sup d')
  && list_eqb (c_sysexc d) (c_sysexc d') && list_eqb (c_exc d) (c_exc d')
  && inclb (c_sysmay d) (c_sysmay d') && inclb (c_may d) (c_may d').
Definition ext_b (sch sch' : schema) : bool :=
  forallb (fun p => match alookup (fst p) (s_attrs sch') with
                    | Some d' => adef_eqb (snd p) d' | None => false end) (s_attrs sch)
  && forallb (fun p => match alookup (fst p) (s_classes sch') with
                       | Some d' => cdef_ext_b (snd p) d' | None => false end) (s_classes sch).
(* SchemaTransaction::validate: every attribute a class names exists and is not a phantom *)
Definition wf_attr (sch : schema) (a : N) : bool :=
  match alookup a (s_attrs sch) with Some d => negb (a_phantom d) | None => false end.
Definition wf_b (sch : schema) : bool :=
  forallb (fun p => forallb (wf_attr sch) (allowed_list (snd p))) (s_classes sch).

(* the three kinds of schema addition named by the property *)
Inductive sop := SAddAttr (a : N) (d : adef) | SAddClass (c : N) (d : cdef) | SAddMay (c a : N).
Definition apply_sop (sch : schema) (o : sop) : schema :=
  match o with
  | SAddAttr a d => if defined sch a then sch else mksch (s_attrs sch ++ [(a, d)]) (s_classes sch)
  | SAddClass c d => if known_class sch c then sch else mksch (s_attrs sch) (s_classes sch ++ [(c, d)])
  | SAddMay c a =>
      match alookup c (s_classes sch) with
      | Some d => mksch (s_attrs sch)
                    (aset c (mkcdef (c_sysmust d) (c_must d) (c_sysmay d) (c_may d ++ [a])
                                    (c_syssup d) (c_sup d) (c_sysexc d) (c_exc d)) (s_classes sch))
      | None => sch
      end
  end.

(* ------------------------------------------------------------------ server state and operations *)
Definition db := list (N * entry).            (* uuid id -> stored entry *)
Definition srv := (schema * db)%type.

Inductive op :=
(* a write transaction: candidate entries as they reach schema validation (after the
   pre-transform plugins), and the schema the transaction leaves in force *)
| OTxn (writes : list (N * entry)) (sch' : schema)
(* incremental replication: merged entry states, each passed through validate_repl *)
| ORepl (merged : list (N * entry))
(* tombstone reaping *)
| OPurge (u : N).

Fixpoint upsert (ws : list (N * entry)) (d : db) : db :=
  match ws with [] => d | (u, e) :: r => upsert r (aset u e d) end.
Definition is_none {A} (o : option A) : bool := match o with None => true | Some _ => false end.

(* None = the operation is refused as a whole *)
Definition step (s : srv) (o : op) : option srv :=
  match o with
  | OTxn ws sch' =>
      if forallb (fun w => is_none (validate_invalid (fst s) (snd w))) ws
         && ext_b (fst s) sch' && wf_b sch'
      then Some (sch', upsert ws (snd s)) else None
  | ORepl ms => Some (fst s, upsert (map (fun m => (fst m, validate_repl (fst s) (snd m))) ms) (snd s))
  | OPurge u => Some (fst s, adel u (snd s))
  end.
Definition exec (s : srv) (o : op) : srv := match step s o with Some s' => s' | None => s end.
Definition all_valid (s : srv) : bool := forallb (fun p => is_none (validate (fst s) (snd p))) (snd s).
Definition cls_wf (e : entry) : bool :=
  match alookup A_CLASS e with Some vs => v_syn vs =? SYN_IUTF8 | None => true end.

(* ------------------------------------------------------------------ correspondence *)
Definition serr_eqb (a b : serr) : bool :=
  match a, b with
  | ENoClass, ENoClass | ECorrupted, ECorrupted => true
  | EInvalidClass x, EInvalidClass y | ESupplements x, ESupplements y
  | EExcludes x, EExcludes y | EMissingMust x, EMissingMust y => list_eqb x y
  | EPhantom x, EPhantom y | EInvalidAttr x, EInvalidAttr y
  | ENotValidForClass x, ENotValidForClass y | EInvalidSyntax x, EInvalidSyntax y => x =? y
  | _, _ => false
  end.
Definition res_eqb (a b : res) : bool :=
  match a, b with
  | None, None => true
  | Some x, Some y => serr_eqb x y
  | _, _ => false
  end.

(* value sets / entries compared as sets / maps (BTree orders are by string, ids are not) *)
Definition vset_eqb (a b : vset) : bool :=
  (v_syn a =? v_syn b) && (v_len a =? v_len b) && Bool.eqb (v_ok a) (v_ok b)
  && inclb (v_vals a) (v_vals b) && inclb (v_vals b) (v_vals a).
Definition entry_sub (a b : entry) : bool :=
  forallb (fun p => match alookup (fst p) b with Some vs => vset_eqb (snd p) vs | None => false end) a.
Definition entry_eqb (a b : entry) : bool :=
  entry_sub a b && entry_sub b a && (N.of_nat (length a) =? N.of_nat (length b)).

(* result of a server operation *)
Inductive ores := ROk | RSchema (e : serr) | ROther.
Definition verdict_matches (m : res) (r : ores) : bool :=
  match m, r with
  | None, ROk => true
  | Some x, RSchema y => serr_eqb x y
  | _, _ => false
  end.

(* what the harness observed for one operation on server [b] (false = A, true = B):
   [cand]   the candidate entry when the request is plugin-inert (then the server's verdict
            must be exactly validate_invalid of it),
   [r]      the operation's result,
   [sa,sc]  attribute / class definitions that differ in the schema in force afterwards,
   [ch]     stored entries that differ afterwards (None = no longer stored) *)
Inductive hstep :=
| HWrite (b : bool) (cand : option entry) (r : ores)
         (sa : list (N * adef)) (sc : list (N * cdef)) (ch : list (N * option entry))
| HRepl (b : bool) (ch : list (N * option entry)).

Inductive case :=
| CValidate (sch : schema) (e : entry) (r : res)
| CRepl (sch : schema) (e : entry) (out : entry)
| CHist (a0 b0 : srv) (steps : list hstep).

Fixpoint aset_all {A} (ups : list (N * A)) (l : list (N * A)) : list (N * A) :=
  match ups with [] => l | (k, v) :: r => aset_all r (aset k v l) end.
Definition apply_delta (sch : schema) (sa : list (N * adef)) (sc : list (N * cdef)) : schema :=
  mksch (aset_all sa (s_attrs sch)) (aset_all sc (s_classes sch)).
Fixpoint somes (ch : list (N * option entry)) : list (N * entry) :=
  match ch with
  | [] => []
  | (u, Some e) :: r => (u, e) :: somes r
  | (_, None) :: r => somes r
  end.
Fixpoint nones (ch : list (N * option entry)) : list N :=
  match ch with
  | [] => []
  | (u, None) :: r => u :: nones r
  | (_, Some _) :: r => nones r
  end.
Definition purge_all (us : list N) (s : srv) : srv := fold_left (fun s u => exec s (OPurge u)) us s.

Definition getS (st : srv * srv) (b : bool) : srv := if b then snd st else fst st.
Definition setS (st : srv * srv) (b : bool) (s : srv) : srv * srv :=
  if b then (fst st, s) else (s, snd st).

(* the model's transition for one observed operation; None = the model does not allow
   what the implementation did *)
Definition obs_step (st : srv * srv) (h : hstep) : option (srv * srv) :=
  match h with
  | HWrite b cand r sa sc ch =>
      let s := getS st b in
      let vok := match cand with
                 | Some c => verdict_matches (validate_invalid (fst s) c) r
                 | None => true end in
      if negb vok then None else
      match r with
      | ROk => match step s (OTxn (somes ch) (apply_delta (fst s) sa sc)) with
               | Some s' => Some (setS st b (purge_all (nones ch) s'))
               | None => None
               end
      | _ => if isnil sa && isnil sc && isnil ch then Some st else None
      end
  | HRepl b ch =>
      let s := getS st b in
      if forallb (fun w => is_none (validate (fst s) (snd w))) (somes ch)
      then match step s (ORepl (somes ch)) with
           | Some s' => Some (setS st b (purge_all (nones ch) s'))
           | None => None
           end
      else None
  end.
Fixpoint hist_agree (st : srv * srv) (hs : list hstep) : bool :=
  match hs with
  | [] => true
  | h :: r => match obs_step st h with Some st' => hist_agree st' r | None => false end
  end.

Definition agree (c : case) : bool :=
  match c with
  | CValidate sch e r => res_eqb (validate_invalid sch e) r
  | CRepl sch e out => entry_eqb (validate_repl sch e) out && is_none (validate sch out)
  | CHist a0 b0 hs => all_valid a0 && all_valid b0 && hist_agree (a0, b0) hs
  end.

(* ---- the property on the implementation's own observations.
   State tracking below only replays the implementation's dumps (no validation). *)
Definition track (st : srv * srv) (h : hstep) : srv * srv :=
  match h with
  | HWrite b _ _ sa sc ch =>
      let s := getS st b in
      setS st b (apply_delta (fst s) sa sc, fold_left (fun d u => adel u d) (nones ch) (upsert (somes ch) (snd s)))
  | HRepl b ch =>
      let s := getS st b in
      setS st b (fst s, fold_left (fun d u => adel u d) (nones ch) (upsert (somes ch) (snd s)))
  end.
Definition all_sat (s : srv) : bool := forallb (fun p => sat_b (fst s) (snd p)) (snd s).
(* after each operation every stored entry of the touched server satisfies the schema now in
   force; a refused operation leaves no trace *)
Definition step_ok (st : srv * srv) (h : hstep) : bool :=
  match h with
  | HWrite b _ r sa sc ch =>
      all_sat (getS (track st h) b)
      && match r with ROk => true | _ => isnil sa && isnil sc && isnil ch end
  | HRepl b _ => all_sat (getS (track st h) b)
  end.
Fixpoint hist_ok (st : srv * srv) (hs : list hstep) : bool :=
  match hs with
  | [] => true
  | h :: r => step_ok st h && hist_ok (track st h) r
  end.

Definition pcheck (c : case) : bool :=
  match c with
  | CValidate sch e r => Bool.eqb (is_none r) (uuid_ok e && sat_b sch e)
  | CRepl sch e out => sat_b sch out
  | CHist a0 b0 hs => all_sat a0 && all_sat b0 && hist_ok (a0, b0) hs
  end.

Definition known (_ : case) : bool := false.
