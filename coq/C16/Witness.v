(* KV.C16.Witness — non-vacuity: concrete non-trivial values meet the hypotheses of each implication
   theorem, and the refutation witnesses. *)
From Coq Require Import List NArith Bool.
Import ListNotations.
Require Import KV.C16.Model KV.C16.Proofs KV.C16.Props.
Open Scope N_scope.

(* a population with every kind of reference: person u0, u1 (recycled, stash names g3), groups g2 < g3
   (g3 lists g2, u0, d4), dependent d4 -> u0, client c5 with scope maps -> g2 g3, entry managers *)
Definition ws : state :=
  [ mkent 0 0 Live [(1, [3])] None;
    mkent 1 0 Rec [(5, [3])] None;
    mkent 2 1 Live [(0, [0])] None;
    mkent 3 1 Live [(0, [0; 2; 4]); (1, [2])] None;
    mkent 4 2 Live [(2, [0])] None;
    mkent 5 3 Live [(3, [2; 3]); (4, [3])] None;
    mkent 6 1 Gone [] None ].

(* Inv holds of it (hypothesis of C16_inv_step / C16_reachable / C16_no_dangling / C16_repl_clean) *)
Example C16_witness_inv : invb ws = true /\ mo ws 0 = [2; 3] /\ dmo ws 4 = [3].
Proof. vm_compute. repeat split; reflexivity. Qed.

(* a history exercising every op; the invariant is kept and the cascade / strip / restore happen *)
Example C16_witness_history :
  let ops := [ ODelete 0; ORevive 0; OCreate [(6, [(0, [1; 4])])]; OModify 3 [MAdd 0 6; MDel 0 2];
               ODelete 3; OPurgeRec; OPurgeTomb ] in
  invb (run true ws ops) = true
  /\ snd (step true ws (ODelete 0)) = 0
  /\ del_set ws 0 = [0; 4]                                        (* cascade to the dependent *)
  /\ map est (fst (step true ws (ODelete 0))) = [Rec; Rec; Live; Live; Rec; Live; Gone]
  /\ getr 0 (erefs (nth 3 (fst (step true ws (ODelete 0))) (mkent 9 9 Gone [] None))) = [2]
  /\ snd (step true ws (OCreate [(6, [(0, [1; 4])])])) = 3.       (* u1 is recycled: refused *)
Proof. vm_compute. repeat split; reflexivity. Qed.

(* hypothesis of C16_write_refused: a write that would dangle (and is refused by the repaired tree) *)
Example C16_witness_would_dangle :
  would_dangle ws (OModify 2 [MAdd 0 1]) = true /\ step true ws (OModify 2 [MAdd 0 1]) = (ws, 3)
  /\ would_dangle ws (OModify 2 [MAdd 0 0; MAdd 0 1]) = true
  /\ snd (step true ws (OModify 2 [MAdd 0 0; MAdd 0 1])) = 3.
Proof. vm_compute. repeat split; reflexivity. Qed.

(* hypothesis of C16_delete_cleans *)
Example C16_witness_delete : snd (step false ws (ODelete 3)) = 0 /\ live_id ws 3 = true.
Proof. vm_compute. split; reflexivity. Qed.

(* documentation (tree before bbee457): the same mixed write was COMMITTED there *)
Example C16_witness_prefix_refuted :
  mixed ws (OModify 4 [MSet 1 1; MSet 2 0]) = false
  /\ mixed ws (OModify 2 [MAdd 0 4; MAdd 0 1]) = true
  /\ snd (step false ws (OModify 2 [MAdd 0 4; MAdd 0 1])) = 0
  /\ invb (fst (step false ws (OModify 2 [MAdd 0 4; MAdd 0 1]))) = false
  /\ snd (step false ws (OModify 2 [MAdd 0 1])) = 3.              (* alone it is refused *)
Proof. vm_compute. repeat split; reflexivity. Qed.

(* hypotheses of the _prefix partial theorems: a history outside the former class *)
Example C16_witness_prefix_clean_run :
  clean_run ws [ODelete 0; ORevive 0; OModify 3 [MAdd 0 5]; ODelete 3; OPurgeRec] = true.
Proof. vm_compute. reflexivity. Qed.

(* hypothesis of C16_repl_clean: the other replica deleted u0 (cascade d4) while this replica's g2
   gained d4; merged state [wm]: u0, d4 recycled, g2 lists d4, g3 still lists them *)
Definition wm : state :=
  [ mkent 0 0 Rec [(5, [2; 3])] None;
    mkent 1 0 Rec [(5, [3])] None;
    mkent 2 1 Live [(0, [0; 4])] None;
    mkent 3 1 Live [(0, [0; 2; 4]); (1, [2])] None;
    mkent 4 2 Rec [] (Some 0);
    mkent 5 3 Live [(3, [2; 3]); (4, [3])] None;
    mkent 6 1 Gone [] None ].
Lemma wm_aligned : aligned ws wm [0; 2; 4].
Proof. unfold aligned, ws, wm. repeat constructor; cbn; intros; try reflexivity; discriminate. Qed.
Example C16_witness_repl :
  invb wm = false /\ invb (repl_clean true ws wm [0; 2; 4] []) = true
  /\ getr 0 (erefs (nth 3 (repl_clean true ws wm [0; 2; 4] []) (mkent 9 9 Gone [] None))) = [2].
Proof. vm_compute. repeat split; reflexivity. Qed.

(* the correspondence functions on a concrete observed history *)
Example C16_witness_agree :
  let c := CHist (absS ws)
             [OStep (ODelete 0) 0 (absS (fst (step false ws (ODelete 0)))) 0;
              OStep (OModify 2 [MAdd 0 1]) 3 (absS (fst (step false ws (ODelete 0)))) 0] in
  agree c = true /\ agree_gen false c = true /\ pcheck c = true /\ known c = false /\ prefix_class c = false.
Proof. vm_compute. repeat split; reflexivity. Qed.

(* claim maps: client c5 maps group g3 under the claim names ca and cc (attributes 10 and 12) and g2
   under cb; deleting g3 takes it out of EVERY claim name, g2 stays *)
Example C16_witness_claim_map :
  let s := fst (step true ws (OModify 5 [MAdd 10 3; MAdd 12 3; MAdd 11 2])) in
  snd (step true ws (OModify 5 [MAdd 10 3; MAdd 12 3; MAdd 11 2])) = 0
  /\ invb s = true
  /\ erefs (nth 5 (fst (step true s (ODelete 3))) (mkent 9 9 Gone [] None))
     = [(11, [2]); (12, []); (10, []); (3, [2]); (4, [])]
  /\ invb (fst (step true s (ODelete 3))) = true.
Proof. vm_compute. repeat split; reflexivity. Qed.
