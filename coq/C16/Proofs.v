(* KV.C16.Proofs — lemmas and proofs for the referential-integrity model. *)
From Coq Require Import List NArith Bool Lia.
Import ListNotations.
Require Import KV.C16.Model.
Open Scope N_scope.

(* ------------------------------------------------------------------ basics *)
Lemma memN_In : forall x l, memN x l = true <-> In x l.
Proof.
  intros x l. unfold memN. rewrite existsb_exists. split.
  - intros [y [Hy He]]. apply N.eqb_eq in He. subst. exact Hy.
  - intros H. exists x. split; [exact H | apply N.eqb_refl].
Qed.
Lemma memN_false : forall x l, memN x l = false <-> ~ In x l.
Proof.
  intros x l. rewrite <- memN_In. destruct (memN x l); split; intros H; try discriminate; auto.
  exfalso. apply H. reflexivity.
Qed.

Lemma live_id_spec : forall s t,
  live_id s t = true <-> exists e, In e s /\ eid e = t /\ est e = Live.
Proof.
  intros s t. unfold live_id. rewrite existsb_exists. split.
  - intros [e [Hi Hb]]. apply andb_true_iff in Hb. destruct Hb as [H1 H2].
    apply N.eqb_eq in H1. exists e. repeat split; auto. destruct (est e); try discriminate; reflexivity.
  - intros [e [Hi [H1 H2]]]. exists e. split; auto. rewrite H1, H2, N.eqb_refl. reflexivity.
Qed.

Lemma In_ins : forall t x l, In t (ins x l) -> t = x \/ In t l.
Proof.
  intros t x l. induction l as [|y r IH]; cbn [ins]; intros H.
  - destruct H as [H|[]]; auto.
  - destruct (x <? y).
    + destruct H as [H|H]; auto.
    + destruct (x =? y).
      * auto.
      * destruct H as [H|H]; [right; left; exact H|].
        destruct (IH H) as [H'|H']; auto. right. right. exact H'.
Qed.
Lemma In_uni : forall t l acc, In t (uni l acc) -> In t l \/ In t acc.
Proof.
  intros t l acc. unfold uni. induction l as [|y r IH]; cbn [fold_right]; intros H; auto.
  apply In_ins in H. destruct H as [H|H]; [left; left; auto|].
  destruct (IH H); auto. left. right. assumption.
Qed.
Lemma In_rm : forall t ds l, In t (rm ds l) -> In t l /\ memN t ds = false.
Proof.
  intros t ds l H. unfold rm in H. apply filter_In in H. destruct H as [H1 H2].
  split; auto. apply negb_true_iff in H2. exact H2.
Qed.

Lemma In_targets : forall t r, In t (targets r) <-> exists p, In p r /\ In t (snd p).
Proof. intros t r. unfold targets. rewrite in_flat_map. reflexivity. Qed.
Lemma In_getr : forall t a r, In t (getr a r) -> In t (targets r).
Proof.
  intros t a r H. unfold getr in H. destruct (find (fun p => fst p =? a) r) as [p|] eqn:E.
  - apply find_some in E. apply In_targets. exists p. tauto.
  - destruct H.
Qed.
Lemma In_targets_setr : forall t a l r, In t (targets (setr a l r)) -> In t l \/ In t (targets r).
Proof.
  intros t a l r H. unfold setr in H. apply In_targets in H. destruct H as [p [Hp Ht]].
  destruct Hp as [Hp|Hp].
  - subst p. left. exact Ht.
  - apply filter_In in Hp. right. apply In_targets. exists p. tauto.
Qed.
Lemma In_targets_strip : forall t ds r,
  In t (targets (strip ds r)) -> In t (targets r) /\ memN t ds = false.
Proof.
  intros t ds r H. apply In_targets in H. destruct H as [p [Hp Ht]].
  unfold strip in Hp. apply in_map_iff in Hp. destruct Hp as [q [Hq Hi]]. subst p.
  cbn [snd] in Ht. apply In_rm in Ht. split; [|tauto]. apply In_targets. exists q. tauto.
Qed.

Lemma In_fresh_of : forall t pre post, In t post -> memN t pre = true \/ In t (fresh_of pre post).
Proof.
  intros t pre post H. destruct (memN t pre) eqn:E; auto. right.
  unfold fresh_of. apply filter_In. rewrite E. auto.
Qed.

Lemma dmo_live : forall s y g, In g (dmo s y) -> live_id s g = true.
Proof.
  intros s y g H. unfold dmo in H. apply in_map_iff in H. destruct H as [e [He Hi]].
  apply filter_In in Hi. destruct Hi as [Hi Hl]. unfold lists in Hl.
  apply andb_true_iff in Hl. destruct Hl as [Hl _]. apply andb_true_iff in Hl. destruct Hl as [Hl _].
  apply live_id_spec. exists e. repeat split; auto. destruct (est e); try discriminate; reflexivity.
Qed.
Lemma mo_fuel_live : forall f s y g, In g (mo_fuel f s y) -> live_id s g = true.
Proof.
  induction f as [|f IH]; intros s y g H; cbn [mo_fuel] in H; [destruct H|].
  apply In_uni in H. destruct H as [H|H]; [eapply dmo_live; eauto|].
  assert (G : forall d, In g (fold_right (fun g0 acc => uni (mo_fuel f s g0) acc) [] d) -> live_id s g = true).
  { induction d as [|a d IHd]; cbn [fold_right]; intros Hd; [destruct Hd|].
    apply In_uni in Hd. destruct Hd as [Hd|Hd]; [eapply IH; eauto | auto]. }
  eapply G; eauto.
Qed.
Lemma mo_live : forall s y g, In g (mo s y) -> live_id s g = true.
Proof. intros s y g. unfold mo. apply mo_fuel_live. Qed.

(* ------------------------------------------------------------------ the invariant *)
(* every stored reference of every stored entry points at a live entry *)
Definition Inv (s : state) : Prop :=
  forall e t, In e s -> In t (targets (erefs e)) -> live_id s t = true.

Lemma invb_Inv : forall s, invb s = true <-> Inv s.
Proof.
  intros s. unfold invb, Inv. rewrite forallb_forall. split.
  - intros H e t He Ht. specialize (H e He). rewrite forallb_forall in H. auto.
  - intros H e He. apply forallb_forall. intros t Ht. eauto.
Qed.

(* what a live entry shows: stored references and the memberof attributes *)
Definition NoDangling (s : state) : Prop :=
  forall e t, In e s -> est e = Live ->
    In t (targets (erefs e) ++ dmo s (eid e) ++ mo s (eid e)) -> live_id s t = true.

Lemma inv_nodangling : forall s, Inv s -> NoDangling s.
Proof.
  intros s H e t He _ Ht. apply in_app_or in Ht. destruct Ht as [Ht|Ht]; [eauto|].
  apply in_app_or in Ht. destruct Ht as [Ht|Ht]; [eapply dmo_live | eapply mo_live]; eauto.
Qed.

(* liveness through entry-wise updates *)
Lemma live_map_mono : forall (f : ent -> ent) s t,
  (forall e, In e s -> est e = Live -> eid (f e) = eid e /\ est (f e) = Live) ->
  live_id s t = true -> live_id (map f s) t = true.
Proof.
  intros f s t Hf H. apply live_id_spec in H. destruct H as [e [He [H1 H2]]].
  apply live_id_spec. exists (f e). split; [apply in_map; exact He|].
  destruct (Hf e He H2) as [A B]. rewrite A, B. auto.
Qed.

(* ------------------------------------------------------------------ refint *)
Lemma refint_sound : forall fx ext s new,
  refint_ok fx ext s new = true ->
  fx = true \/ ((ext || existsb (live_id s) new) && existsb (fun t => negb (live_id s t)) new) = false ->
  forall t, In t new -> live_id s t = true.
Proof.
  intros fx ext s new H Hc t Ht. unfold refint_ok in H. destruct fx.
  - rewrite forallb_forall in H. auto.
  - destruct Hc as [Hc|Hc]; [discriminate|].
    destruct new as [|n0 new']; [destruct Ht|].
    apply andb_true_iff in H. destruct H as [_ H]. rewrite H in Hc. cbn [andb] in Hc.
    destruct (live_id s t) eqn:E; auto.
    assert (X : existsb (fun t0 => negb (live_id s t0)) (n0 :: new') = true).
    { apply existsb_exists. exists t. rewrite E. auto. }
    rewrite X in Hc. discriminate.
Qed.

Definition clean (fx : bool) (s : state) (o : op) : Prop := fx = true \/ mixed s o = false.

(* ------------------------------------------------------------------ create *)
Lemma lookup_In : forall x l r, lookup x l = Some r -> In (x, r) l.
Proof.
  intros x l r H. unfold lookup in H. destruct (find (fun p => fst p =? x) l) as [p|] eqn:E; [|discriminate].
  apply find_some in E. destruct E as [E1 E2]. apply N.eqb_eq in E2. inversion H. subst.
  destruct p; cbn in *. exact E1.
Qed.
Lemma create_upd_live : forall l e, est e = Live -> create_upd l e = e.
Proof. intros l e H. unfold create_upd. destruct (lookup (eid e) l); auto. rewrite H. reflexivity. Qed.

Lemma inv_create : forall fx s l s',
  Inv s -> clean fx s (OCreate l) -> do_create fx s l = inl s' -> Inv s'.
Proof.
  intros fx s l s' HI Hc H. unfold do_create in H.
  destruct (negb (nodupb (map fst l)) || negb (forallb (fun p => gone_id s (fst p)) l)); [discriminate|].
  destruct (negb (forallb (fun p => sch_ok (kind_of s (fst p)) (snd p)) l)); [discriminate|].
  destruct (refint_ok fx (cr_ext s l) (cr_state s l) (cr_new l)) eqn:R; cbn [negb] in H; [|discriminate].
  destruct (negb (refers_ok (cr_state s l) (flat_map (fun p => getr 2 (snd p)) l))); [discriminate|].
  inversion H. subst s'. clear H.
  assert (RS := refint_sound _ _ _ _ R).
  assert (RS' : forall t, In t (cr_new l) -> live_id (cr_state s l) t = true).
  { apply RS. destruct Hc as [Hc|Hc]; [left; exact Hc|right].
    unfold mixed, write_new in Hc. exact Hc. }
  intros e1 t He1 Ht. unfold cr_state in He1. apply in_map_iff in He1. destruct He1 as [e [E He]].
  subst e1. unfold create_upd in Ht.
  assert (Mono : live_id s t = true -> live_id (cr_state s l) t = true).
  { apply live_map_mono. intros e0 _ L. rewrite create_upd_live; auto. }
  destruct (lookup (eid e) l) as [r|] eqn:Lk.
  - destruct (is_gone (est e)).
    + cbn [erefs] in Ht. apply RS'. unfold cr_new. apply in_flat_map.
      exists (eid e, r). split; [apply lookup_In; exact Lk | exact Ht].
    + apply Mono. eauto.
  - apply Mono. eauto.
Qed.

(* ------------------------------------------------------------------ modify *)
Lemma live_same : forall (f : ent -> ent) s t,
  (forall e, eid (f e) = eid e /\ est (f e) = est e) -> live_id (map f s) t = live_id s t.
Proof.
  intros f s t Hf. unfold live_id. induction s as [|e r IH]; cbn [map existsb]; auto.
  destruct (Hf e) as [A B]. rewrite A, B, IH. reflexivity.
Qed.
Lemma mod_upd_same : forall x ms e, eid (mod_upd x ms e) = eid e /\ est (mod_upd x ms e) = est e.
Proof. intros x ms e. unfold mod_upd. destruct (is_target x e); auto. Qed.

Lemma inv_modify : forall fx s x ms s',
  Inv s -> clean fx s (OModify x ms) -> do_modify fx s x ms = inl s' -> Inv s'.
Proof.
  intros fx s x ms s' HI Hc H. unfold do_modify in H.
  destruct (negb (live_id s x)); [inversion H; subst; exact HI|].
  destruct (negb (forallb (fun e => implb (is_target x e) (sch_ok (ekind e) (erefs e))) (mod_state s x ms)));
    [discriminate|].
  destruct (refint_ok fx false (mod_state s x ms) (mod_new s x ms)) eqn:R; cbn [negb] in H; [|discriminate].
  destruct (negb (refers_ok (mod_state s x ms) _)); [discriminate|].
  inversion H. subst s'. clear H.
  assert (RS' : forall t, In t (mod_new s x ms) -> live_id (mod_state s x ms) t = true).
  { apply (refint_sound _ _ _ _ R). destruct Hc as [Hc|Hc]; [left; exact Hc|right].
    unfold mixed, write_new in Hc. exact Hc. }
  assert (LS : forall t, live_id (mod_state s x ms) t = live_id s t).
  { intros t. apply live_same. apply mod_upd_same. }
  intros e1 t He1 Ht. unfold mod_state in He1. apply in_map_iff in He1. destruct He1 as [e [E He]].
  subst e1. destruct (is_target x e) eqn:T.
  - assert (P : In t (mod_post s x ms)).
    { unfold mod_post. apply in_flat_map. exists e. split; auto. rewrite T. exact Ht. }
    destruct (In_fresh_of t (mod_pre s x) _ P) as [Q|Q].
    + rewrite LS. apply memN_In in Q. unfold mod_pre in Q. apply in_flat_map in Q.
      destruct Q as [e' [He' Q]]. destruct (is_target x e'); [|destruct Q].
      apply in_app_or in Q. destruct Q as [Q|Q]; [eauto | eapply dmo_live; eauto].
    + apply RS'. exact Q.
  - unfold mod_upd in Ht. rewrite T in Ht. rewrite LS. eauto.
Qed.

(* ------------------------------------------------------------------ delete *)
Lemma del_image_live : forall s x e,
  In e s -> est e = Live -> in_dels x e = false ->
  live_id (del_state s x) (eid e) = true.
Proof.
  intros s x e He L D. apply live_id_spec.
  exists (strip_ent (del_set s x) e). split.
  - unfold del_state. apply in_map_iff. exists e. rewrite D. auto.
  - cbn. auto.
Qed.
Lemma in_dels_set : forall s x e, In e s -> in_dels x e = true -> In (eid e) (del_set s x).
Proof. intros s x e He D. unfold del_set. apply in_map. apply filter_In. auto. Qed.

Lemma del_keeps_live : forall s x t,
  live_id s t = true -> memN t (del_set s x) = false -> live_id (del_state s x) t = true.
Proof.
  intros s x t L M. apply live_id_spec in L. destruct L as [e [He [E1 E2]]]. subst t.
  destruct (in_dels x e) eqn:D.
  - apply memN_false in M. exfalso. apply M. apply in_dels_set; auto.
  - apply del_image_live; auto.
Qed.

Lemma inv_delete : forall s x s', Inv s -> do_delete s x = inl s' -> Inv s'.
Proof.
  intros s x s' HI H. unfold do_delete in H. destruct (live_id s x); [|discriminate].
  inversion H. subst s'. clear H.
  intros e1 t He1 Ht. unfold del_state in He1. apply in_map_iff in He1. destruct He1 as [e [E He]].
  subst e1. cbn [strip_ent set_refs erefs] in Ht. apply In_targets_strip in Ht. destruct Ht as [Ht M].
  apply del_keeps_live; auto.
  destruct (in_dels x e).
  - cbn [recycle erefs] in Ht. apply In_targets_setr in Ht. destruct Ht as [Ht|Ht];
      [eapply dmo_live; eauto | eauto].
  - eauto.
Qed.

(* deleting removes every reference to the deleted entries, from live and recycled holders alike *)
Lemma delete_cleans : forall s x s' e d,
  do_delete s x = inl s' -> In e s' -> In d (del_set s x) -> ~ In d (targets (erefs e)).
Proof.
  intros s x s' e d H He Hd Ht. unfold do_delete in H. destruct (live_id s x); [|discriminate].
  inversion H. subst s'. clear H. unfold del_state in He. apply in_map_iff in He.
  destruct He as [e0 [E He]]. subst e. cbn [strip_ent set_refs erefs] in Ht.
  apply In_targets_strip in Ht. destruct Ht as [_ M]. apply memN_false in M. auto.
Qed.
Lemma delete_target_in_set : forall s x, live_id s x = true -> In x (del_set s x).
Proof.
  intros s x L. apply live_id_spec in L. destruct L as [e [He [E1 E2]]]. subst x.
  apply in_dels_set; auto. unfold in_dels. rewrite E2, N.eqb_refl. reflexivity.
Qed.
Lemma delete_not_live : forall s x s', do_delete s x = inl s' -> live_id s' x = false.
Proof.
  intros s x s' H. unfold do_delete in H. destruct (live_id s x); [|discriminate].
  inversion H. subst s'. clear H. destruct (live_id (del_state s x) x) eqn:L; auto. exfalso.
  apply live_id_spec in L. destruct L as [e1 [He1 [E1 E2]]]. unfold del_state in He1.
  apply in_map_iff in He1. destruct He1 as [e [E He]]. subst e1.
  destruct (in_dels x e) eqn:D.
  - cbn in E2. discriminate.
  - cbn in E1, E2. unfold in_dels in D. rewrite E2, E1, N.eqb_refl in D. cbn in D. discriminate.
Qed.

(* ------------------------------------------------------------------ revive *)
Lemma rev_upd_live : forall s x t, live_id s t = true -> live_id (rev_state s x) t = true.
Proof.
  intros s x t. unfold rev_state. apply live_map_mono. intros e _ L.
  unfold in_revs. rewrite L. cbn. auto.
Qed.
Lemma add_members_same : forall s x e,
  eid (add_members s x e) = eid e /\ est (add_members s x e) = est e.
Proof.
  intros s x e. unfold add_members. destruct (is_live (est e)); auto.
  destruct (adds s x (eid e)); auto.
Qed.
Lemma revived_is_live : forall s x r, In r s -> in_revs x r = true -> live_id (rev_state s x) (eid r) = true.
Proof.
  intros s x r Hr R. apply live_id_spec. exists (revived r). split.
  - unfold rev_state. apply in_map_iff. exists r. rewrite R. auto.
  - cbn. auto.
Qed.

Lemma inv_revive : forall fx s x s',
  Inv s -> clean fx s (ORevive x) -> do_revive fx s x = inl s' -> Inv s'.
Proof.
  intros fx s x s' HI Hc H. unfold do_revive in H.
  destruct (negb (rec_id s x)); [discriminate|].
  destruct (negb (forallb (fun e => implb (in_revs x e) (sch_ok (ekind e) (erefs (revived e)))) s));
    [discriminate|].
  destruct (refint_ok fx false (rev_state s x) (rev_new s x)) eqn:R; cbn [negb] in H; [|discriminate].
  destruct (negb (refers_ok (rev_state s x) _)); [discriminate|].
  destruct (negb (forallb _ s)); [discriminate|].
  inversion H. subst s'. clear H.
  assert (RS' : forall t, In t (rev_new s x) -> live_id (rev_state s x) t = true).
  { apply (refint_sound _ _ _ _ R). destruct Hc as [Hc|Hc]; [left; exact Hc|right].
    unfold mixed, write_new in Hc. exact Hc. }
  assert (LS : forall t, live_id (map (add_members s x) (rev_state s x)) t = live_id (rev_state s x) t).
  { intros t. apply live_same. apply add_members_same. }
  (* references of the intermediate state are live in it *)
  assert (I1 : forall e1 t, In e1 (rev_state s x) -> In t (targets (erefs e1)) ->
                            live_id (rev_state s x) t = true).
  { intros e1 t He1 Ht. unfold rev_state in He1. apply in_map_iff in He1. destruct He1 as [e [E He]].
    subst e1. destruct (in_revs x e) eqn:T.
    - assert (P : In t (rev_post s x)).
      { unfold rev_post. apply in_flat_map. exists e. split; auto. rewrite T. exact Ht. }
      destruct (In_fresh_of t (rev_pre s x) _ P) as [Q|Q].
      + apply rev_upd_live. apply memN_In in Q. unfold rev_pre in Q. apply in_flat_map in Q.
        destruct Q as [e' [He' Q]]. destruct (in_revs x e'); [|destruct Q]. eauto.
      + apply RS'. exact Q.
    - apply rev_upd_live. eauto. }
  intros e2 t He2 Ht. rewrite LS. apply in_map_iff in He2. destruct He2 as [e1 [E He1]]. subst e2.
  unfold add_members in Ht. destruct (is_live (est e1)); [|eauto].
  destruct (adds s x (eid e1)) as [|a l] eqn:A; [eauto|].
  cbn [set_refs erefs] in Ht. apply In_targets_setr in Ht. destruct Ht as [Ht|Ht]; [|eauto].
  apply In_uni in Ht. destruct Ht as [Ht|Ht]; [|apply (I1 e1); auto; eapply In_getr; eauto].
  rewrite <- A in Ht. unfold adds in Ht. apply in_map_iff in Ht. destruct Ht as [r [Er Hr]].
  apply filter_In in Hr. destruct Hr as [Hr Hb]. apply andb_true_iff in Hb. destruct Hb as [Hb _].
  subst t. apply revived_is_live; auto.
Qed.

(* ------------------------------------------------------------------ purges *)
Lemma inv_purge_rec : forall s, Inv s -> Inv (map purge_rec_upd s).
Proof.
  intros s HI e1 t He1 Ht. apply in_map_iff in He1. destruct He1 as [e [E He]]. subst e1.
  assert (M : live_id s t = true -> live_id (map purge_rec_upd s) t = true).
  { apply live_map_mono. intros e0 _ L. unfold purge_rec_upd. rewrite L. cbn. auto. }
  unfold purge_rec_upd in Ht. destruct (is_rec (est e)); [destruct Ht | eauto].
Qed.
Lemma inv_purge_tomb : forall s, Inv s -> Inv (map purge_tomb_upd s).
Proof.
  intros s HI e1 t He1 Ht. apply in_map_iff in He1. destruct He1 as [e [E He]]. subst e1.
  assert (M : live_id s t = true -> live_id (map purge_tomb_upd s) t = true).
  { apply live_map_mono. intros e0 _ L. unfold purge_tomb_upd. rewrite L. auto. }
  unfold purge_tomb_upd in Ht. destruct (est e); try (apply M; eauto); try (destruct Ht).
Qed.

(* ------------------------------------------------------------------ one step, histories *)
Lemma inv_step_gen : forall fx s o, Inv s -> clean fx s o -> Inv (fst (step fx s o)).
Proof.
  intros fx s o HI Hc. destruct o as [l|x ms|x|x| |]; cbn [step].
  - destruct (do_create fx s l) eqn:E; cbn [ret fst]; auto. eapply inv_create; eauto.
  - destruct (do_modify fx s x ms) eqn:E; cbn [ret fst]; auto. eapply inv_modify; eauto.
  - destruct (do_delete s x) eqn:E; cbn [ret fst]; auto. eapply inv_delete; eauto.
  - destruct (do_revive fx s x) eqn:E; cbn [ret fst]; auto. eapply inv_revive; eauto.
  - cbn [fst]. apply inv_purge_rec. exact HI.
  - cbn [fst]. apply inv_purge_tomb. exact HI.
Qed.

Lemma inv_run_fixed : forall ops s, Inv s -> Inv (run true s ops).
Proof.
  induction ops as [|o r IH]; intros s HI; cbn [run]; auto.
  apply IH. apply inv_step_gen; auto. left. reflexivity.
Qed.

(* no write of the history falls in the known class *)
Fixpoint clean_run (s : state) (ops : list op) : bool :=
  match ops with
  | [] => true
  | o :: r => negb (mixed s o) && clean_run (fst (step false s o)) r
  end.
Lemma inv_run_partial : forall ops s, Inv s -> clean_run s ops = true -> Inv (run false s ops).
Proof.
  induction ops as [|o r IH]; intros s HI HC; cbn [run]; auto.
  cbn [clean_run] in HC. apply andb_true_iff in HC. destruct HC as [H1 H2].
  apply IH; auto. apply inv_step_gen; auto. right. apply negb_true_iff in H1. exact H1.
Qed.

(* a refused transaction changes nothing *)
Lemma refused_unchanged : forall fx s o, snd (step fx s o) <> 0 -> fst (step fx s o) = s.
Proof.
  intros fx s o H. destruct o as [l|x ms|x|x| |]; cbn [step] in *;
    try (match goal with |- fst (ret _ ?d) = _ => destruct d; cbn [ret fst snd] in *; congruence end);
    cbn [snd] in H; congruence.
Qed.

(* ------------------------------------------------------------------ a dangling write is refused *)
Lemma refint_refuses : forall fx ext s new,
  existsb (fun t => negb (live_id s t)) new = true ->
  fx = true \/ ((ext || existsb (live_id s) new) && existsb (fun t => negb (live_id s t)) new) = false ->
  refint_ok fx ext s new = false.
Proof.
  intros fx ext s new H Hc. destruct (refint_ok fx ext s new) eqn:R; auto. exfalso.
  apply existsb_exists in H. destruct H as [t [Ht Hl]].
  rewrite (refint_sound _ _ _ _ R Hc t Ht) in Hl. discriminate.
Qed.

Lemma write_refused_gen : forall fx s o,
  would_dangle s o = true -> clean fx s o ->
  snd (step fx s o) <> 0 /\ fst (step fx s o) = s.
Proof.
  intros fx s o W Hc.
  assert (G : snd (step fx s o) <> 0); [|split; [exact G | apply refused_unchanged; exact G]].
  destruct o as [l|x ms|x|x| |]; cbn [step]; unfold would_dangle, write_new in W; try (cbn in W; discriminate).
  - assert (R : refint_ok fx (cr_ext s l) (cr_state s l) (cr_new l) = false).
    { apply refint_refuses; [exact W | destruct Hc as [Hc|Hc]; [left; exact Hc | right; exact Hc]]. }
    unfold do_create.
    destruct (negb (nodupb (map fst l)) || negb (forallb (fun p => gone_id s (fst p)) l)); cbn; [discriminate|].
    destruct (negb (forallb (fun p => sch_ok (kind_of s (fst p)) (snd p)) l)); cbn; [discriminate|].
    rewrite R. cbn. discriminate.
  - assert (R : refint_ok fx false (mod_state s x ms) (mod_new s x ms) = false).
    { apply refint_refuses; [exact W | destruct Hc as [Hc|Hc]; [left; exact Hc | right; exact Hc]]. }
    unfold do_modify. destruct (live_id s x) eqn:L; cbn [negb].
    + destruct (negb (forallb _ (mod_state s x ms))); cbn; [discriminate|]. rewrite R. cbn. discriminate.
    + (* no live target: nothing is modified, so nothing new can dangle *)
      exfalso. apply existsb_exists in W. destruct W as [t [Ht _]].
      unfold mod_new, fresh_of in Ht. apply filter_In in Ht. destruct Ht as [Ht _].
      unfold mod_post in Ht. apply in_flat_map in Ht. destruct Ht as [e [He Ht]].
      destruct (is_target x e) eqn:T; [|destruct Ht].
      unfold is_target in T. apply andb_true_iff in T. destruct T as [T1 T2].
      assert (live_id s x = true).
      { apply live_id_spec. exists e. apply N.eqb_eq in T1. repeat split; auto.
        destruct (est e); try discriminate; reflexivity. }
      congruence.
  - assert (R : refint_ok fx false (rev_state s x) (rev_new s x) = false).
    { apply refint_refuses; [exact W | destruct Hc as [Hc|Hc]; [left; exact Hc | right; exact Hc]]. }
    unfold do_revive. destruct (negb (rec_id s x)); cbn; [discriminate|].
    destruct (negb (forallb _ s)); cbn; [discriminate|]. rewrite R. cbn. discriminate.
Qed.

(* ------------------------------------------------------------------ replication *)
(* [pre] and [m] list the same entries in the same order; outside [cands] nothing changed *)
Definition aligned (pre m : state) (cands : list N) : Prop :=
  Forall2 (fun a b => eid a = eid b /\ (memN (eid a) cands = false -> a = b)) pre m.

Lemma aligned_in : forall pre m cands e,
  aligned pre m cands -> In e m -> memN (eid e) cands = false -> In e pre.
Proof.
  intros pre m cands e A. induction A as [|a b pre' m' [H1 H2] A IH]; intros He M; [destruct He|].
  destruct He as [He|He].
  - subst b. left. apply H2. rewrite H1. exact M.
  - right. auto.
Qed.
Lemma aligned_live_lost : forall pre m cands t,
  aligned pre m cands -> live_id pre t = true -> live_id m t = false -> memN t cands = true.
Proof.
  intros pre m cands t A. induction A as [|a b pre' m' [H1 H2] A IH]; intros L1 L2; [discriminate|].
  cbn [live_id existsb] in L1, L2. fold (live_id pre' t) in L1. fold (live_id m' t) in L2.
  apply orb_false_iff in L2. destruct L2 as [L2 L2'].
  apply orb_true_iff in L1. destruct L1 as [L1|L1]; [|auto].
  destruct (memN t cands) eqn:M; auto. exfalso.
  apply andb_true_iff in L1. destruct L1 as [E1 E2]. apply N.eqb_eq in E1.
  assert (a = b) by (apply H2; rewrite E1; exact M). subst b. rewrite E1 in L2.
  rewrite N.eqb_refl, E2 in L2. discriminate.
Qed.

Lemma conflict_live : forall conf m t,
  live_id m t = true -> memN t (snd (repl_conflict conf m)) = false ->
  live_id (fst (repl_conflict conf m)) t = true.
Proof.
  intros conf m t L M. cbn [repl_conflict fst snd] in *. apply live_id_spec in L.
  destruct L as [e [He [E1 E2]]]. apply live_id_spec.
  destruct (conf_hit conf e) eqn:C.
  - exfalso. apply memN_false in M. apply M. apply in_or_app. right. subst t.
    apply in_map. apply filter_In. auto.
  - exists e. split; auto. apply in_map_iff. exists e. rewrite C. auto.
Qed.
Lemma conflict_live_back : forall conf m t,
  live_id (fst (repl_conflict conf m)) t = true -> live_id m t = true.
Proof.
  intros conf m t L. cbn [repl_conflict fst] in L. apply live_id_spec in L.
  destruct L as [e1 [He1 [E1 E2]]]. apply in_map_iff in He1. destruct He1 as [e [E He]].
  apply live_id_spec. exists e. destruct (conf_hit conf e); subst e1; cbn in *; [discriminate|auto].
Qed.

Lemma inv_repl_clean : forall fx pre m cands conf,
  Inv pre -> aligned pre m cands ->
  fx = true \/ repl_mixed pre m cands conf = false ->
  Inv (repl_clean fx pre m cands conf).
Proof.
  intros fx pre m cands conf HI A Hc. unfold repl_clean.
  destruct (repl_conflict conf m) as [m1 conf1] eqn:RC.
  assert (F1 : m1 = fst (repl_conflict conf m)) by (rewrite RC; reflexivity).
  assert (F2 : conf1 = snd (repl_conflict conf m)) by (rewrite RC; reflexivity).
  set (new := fresh_of (cand_targets pre cands) (cand_targets m cands)).
  set (missing := if refint_ok fx false m1 new then [] else filter (fun t => negb (live_id m1 t)) new).
  set (inactive := filter (fun c => live_id pre c && negb (live_id m c)) cands).
  set (ds := missing ++ conf1 ++ inactive).
  assert (LS : forall t, live_id (map (strip_ent ds) m1) t = live_id m1 t).
  { intros t. apply live_same. intros e. cbn. auto. }
  (* a target that was live before, and is not removed, is still live *)
  assert (K : forall t, live_id pre t = true -> memN t ds = false -> live_id m1 t = true).
  { intros t L M. apply memN_false in M.
    destruct (live_id m t) eqn:Lm.
    - rewrite F1. apply conflict_live; auto. rewrite <- F2. apply memN_false. intros X. apply M.
      unfold ds. apply in_or_app. right. apply in_or_app. left. exact X.
    - exfalso. apply M. unfold ds. apply in_or_app. right. apply in_or_app. right.
      unfold inactive. apply filter_In. split.
      + apply memN_In. eapply aligned_live_lost; eauto.
      + rewrite L, Lm. reflexivity. }
  (* new references that are not removed are live *)
  assert (N1 : forall t, In t new -> memN t ds = false -> live_id m1 t = true).
  { intros t Ht M. unfold missing in ds. destruct (refint_ok fx false m1 new) eqn:R.
    - apply (refint_sound _ _ _ _ R); auto. destruct Hc as [Hc|Hc]; [left; auto|right].
      unfold repl_mixed in Hc. rewrite <- F1 in Hc. cbn [orb]. exact Hc.
    - destruct (live_id m1 t) eqn:L; auto. exfalso. apply memN_false in M. apply M.
      unfold ds. apply in_or_app. left. apply filter_In. rewrite L. auto. }
  intros e2 t He2 Ht. rewrite LS. apply in_map_iff in He2. destruct He2 as [e1 [E He1]]. subst e2.
  cbn [strip_ent set_refs erefs] in Ht. apply In_targets_strip in Ht. destruct Ht as [Ht M].
  (* e1 comes from an entry e of m with the same references *)
  assert (X : exists e, In e m /\ eid e = eid e1 /\ erefs e = erefs e1).
  { rewrite F1 in He1. cbn [repl_conflict fst] in He1. apply in_map_iff in He1.
    destruct He1 as [e [E He]]. exists e. destruct (conf_hit conf e); subst e1; cbn; auto. }
  destruct X as [e [He [Ei Er]]]. rewrite <- Er in Ht.
  destruct (memN (eid e) cands) eqn:C.
  - assert (P : In t (cand_targets m cands)).
    { unfold cand_targets. apply in_flat_map. exists e. rewrite C. auto. }
    destruct (In_fresh_of t (cand_targets pre cands) _ P) as [Q|Q].
    + apply K; auto. apply memN_In in Q. unfold cand_targets in Q. apply in_flat_map in Q.
      destruct Q as [e' [He' Q]]. destruct (memN (eid e') cands); [|destruct Q]. eauto.
    + apply N1; auto.
  - apply K; auto. apply (HI e); auto. eapply aligned_in; eauto.
Qed.

(* ------------------------------------------------------------------ executable equalities *)
Lemma listN_eqb_eq : forall a b, listN_eqb a b = true -> a = b.
Proof.
  induction a as [|x r IH]; destruct b as [|y q]; cbn; intros H; try discriminate; auto.
  apply andb_true_iff in H. destruct H as [H1 H2]. apply N.eqb_eq in H1. f_equal; auto.
Qed.
Lemma listN_eqb_refl : forall a, listN_eqb a a = true.
Proof. induction a as [|x r IH]; cbn; auto. rewrite N.eqb_refl. exact IH. Qed.
Lemma refs_eqb_eq : forall a b, refs_eqb a b = true -> a = b.
Proof.
  induction a as [|x r IH]; destruct b as [|y q]; cbn; intros H; try discriminate; auto.
  apply andb_true_iff in H. destruct H as [H H3]. apply andb_true_iff in H. destruct H as [H1 H2].
  apply N.eqb_eq in H1. apply listN_eqb_eq in H2. destruct x, y; cbn in *. subst. f_equal; auto.
Qed.
Lemma refs_eqb_refl : forall a, refs_eqb a a = true.
Proof. induction a as [|x r IH]; cbn; auto. rewrite N.eqb_refl, listN_eqb_refl. exact IH. Qed.
Lemma oent_eqb_eq : forall a b, oent_eqb a b = true -> a = b.
Proof.
  intros [i1 k1 s1 r1 c1 x1] [i2 k2 s2 r2 c2 x2] H. unfold oent_eqb in H. cbn in H.
  repeat (apply andb_true_iff in H; destruct H as [H ?]).
  apply N.eqb_eq in H. apply N.eqb_eq in H0. apply N.eqb_eq in H4. apply refs_eqb_eq in H2.
  assert (s1 = s2) by (destruct s1, s2; cbn in H3; try discriminate; reflexivity).
  assert (c1 = c2).
  { destruct c1, c2; cbn in H1; try discriminate; auto. apply N.eqb_eq in H1. subst. auto. }
  subst. reflexivity.
Qed.
Lemma oent_eqb_refl : forall a, oent_eqb a a = true.
Proof.
  intros a. unfold oent_eqb. rewrite !N.eqb_refl, refs_eqb_refl.
  destruct (ost a); destruct (ocasc a); cbn; rewrite ?N.eqb_refl; reflexivity.
Qed.
Lemma oents_eqb_eq : forall a b, oents_eqb a b = true -> a = b.
Proof.
  induction a as [|x r IH]; destruct b as [|y q]; cbn; intros H; try discriminate; auto.
  apply andb_true_iff in H. destruct H as [H1 H2]. apply oent_eqb_eq in H1. f_equal; auto.
Qed.
Lemma oents_eqb_refl : forall a, oents_eqb a a = true.
Proof. induction a as [|x r IH]; cbn; auto. rewrite oent_eqb_refl. exact IH. Qed.

(* ------------------------------------------------------------------ the bridge *)
Lemma olive_abs : forall s t, olive (absS s) t = live_id s t.
Proof.
  intros s t. unfold olive, live_id, absS.
  generalize s at 1. intros s0. induction s as [|e r IH]; cbn [map existsb]; auto.
  rewrite IH. reflexivity.
Qed.

Lemma canon_targets : forall s e t,
  In t (targets (canon s e)) ->
  In t (targets (erefs e)) \/ (est e = Live /\ In t (dmo s (eid e) ++ mo s (eid e))).
Proof.
  intros s e t H. apply In_targets in H. destruct H as [p [Hp Ht]].
  unfold canon in Hp. apply filter_In in Hp. destruct Hp as [Hp _].
  apply in_app_or in Hp. destruct Hp as [Hp|Hp];
    [|apply in_app_or in Hp; destruct Hp as [Hp|Hp]].
  - left. apply in_map_iff in Hp. destruct Hp as [a [E _]]. subst p. cbn [snd] in Ht.
    eapply In_getr; eauto.
  - right. destruct (est e) eqn:L; cbn [is_live] in Hp; [| destruct Hp | destruct Hp | destruct Hp].
    split; auto. apply in_or_app. destruct Hp as [Hp|[Hp|[]]]; subst p; cbn [snd] in Ht; auto.
  - left. apply in_map_iff in Hp. destruct Hp as [a [E _]]. subst p. cbn [snd] in Ht.
    eapply In_getr; eauto.
Qed.

Lemma nd_dump_abs : forall s, Inv s -> nd_dump (absS s) = true.
Proof.
  intros s HI. unfold nd_dump. apply forallb_forall. intros o Ho.
  unfold absS in Ho. apply in_map_iff in Ho. destruct Ho as [e [E He]]. subst o.
  cbn [abs ost orefs oext]. destruct (is_live (est e)) eqn:L; cbn [implb]; auto.
  rewrite N.eqb_refl, andb_true_r. apply forallb_forall. intros t Ht. rewrite olive_abs.
  apply canon_targets in Ht. destruct Ht as [Ht|[_ Ht]]; [eauto|].
  apply in_app_or in Ht. destruct Ht as [Ht|Ht]; [eapply dmo_live | eapply mo_live]; eauto.
Qed.

Lemma del_ok_abs : forall fx s x,
  snd (step fx s (ODelete x)) = 0 ->
  del_ok (ODelete x) 0 (absS (fst (step fx s (ODelete x)))) = true.
Proof.
  intros fx s x H. cbn [step] in *. destruct (do_delete s x) as [s'|c] eqn:D; cbn [ret fst snd] in *.
  2:{ unfold do_delete in D. destruct (live_id s x); [discriminate|]. inversion D. subst. discriminate. }
  cbn [del_ok]. rewrite N.eqb_refl. cbn [implb]. rewrite olive_abs.
  rewrite (delete_not_live _ _ _ D). cbn [negb andb].
  apply forallb_forall. intros o Ho. unfold absS in Ho. apply in_map_iff in Ho.
  destruct Ho as [e [E He]]. subst o. cbn [abs orefs]. apply negb_true_iff. apply memN_false.
  intros Ht. apply canon_targets in Ht. destruct Ht as [Ht|[_ Ht]].
  - assert (L : live_id s x = true).
    { unfold do_delete in D. destruct (live_id s x); [reflexivity|discriminate]. }
    eapply delete_cleans; eauto. apply delete_target_in_set. exact L.
  - assert (live_id s' x = true).
    { apply in_app_or in Ht. destruct Ht as [Ht|Ht]; [eapply dmo_live | eapply mo_live]; eauto. }
    rewrite (delete_not_live _ _ _ D) in H0. discriminate.
Qed.

(* the parts of pcheck that the model predicts: everything except the whole-database count *)
Fixpoint trace_core (pre : list oent) (steps : list ostep) : bool :=
  match steps with
  | [] => true
  | OStep o code post _ :: r =>
      nd_dump post && implb (negb (code =? 0)) (oents_eqb pre post) && del_ok o code post
      && trace_core post r
  end.
Fixpoint dbd_zero (steps : list ostep) : bool :=
  match steps with
  | [] => true
  | OStep _ _ _ dbd :: r => (dbd =? 0) && dbd_zero r
  end.
Lemma trace_ok_split : forall steps pre, trace_ok pre steps = trace_core pre steps && dbd_zero steps.
Proof.
  induction steps as [|[o code post dbd] r IH]; intros pre; cbn [trace_ok trace_core dbd_zero]; auto.
  rewrite IH. destruct (nd_dump post), (dbd =? 0), (implb (negb (code =? 0)) (oents_eqb pre post)),
    (del_ok o code post), (trace_core post r), (dbd_zero r); reflexivity.
Qed.

Lemma run_agree_core : forall fx steps s,
  Inv s -> run_agree fx s steps = true ->
  fx = true \/ prefix_class_run s steps = false ->
  trace_core (absS s) steps = true.
Proof.
  intros fx. induction steps as [|[o code post dbd] r IH]; intros s HI HA HK; cbn [trace_core]; auto.
  cbn [run_agree] in HA. destruct (step fx s o) as [s' c] eqn:S.
  apply andb_true_iff in HA. destruct HA as [HA HR]. apply andb_true_iff in HA. destruct HA as [HA _].
  apply andb_true_iff in HA. destruct HA as [HC HE].
  apply N.eqb_eq in HC. apply oents_eqb_eq in HE. subst code post.
  assert (S1 : fst (step fx s o) = s') by (rewrite S; reflexivity).
  assert (S2 : snd (step fx s o) = c) by (rewrite S; reflexivity).
  (* the step is outside the known class, or the tree is fixed, or it was refused *)
  assert (CL : Inv s' /\ (fx = true \/ prefix_class_run s' r = false)).
  { destruct HK as [HK|HK].
    - split; [|left; exact HK]. rewrite <- S1. apply inv_step_gen; auto. left. exact HK.
    - destruct fx.
      + split; [|left; reflexivity]. rewrite <- S1. apply inv_step_gen; auto. left. reflexivity.
      + cbn [prefix_class_run] in HK. rewrite S in HK. apply orb_false_iff in HK. destruct HK as [K1 K2].
        split; [|right; exact K2].
        destruct (c =? 0) eqn:C0.
        * cbn [andb] in K1. unfold prefix_class_step in K1.
          rewrite <- S1. apply inv_step_gen; auto. right. exact K1.
        * assert (s' = s).
          { rewrite <- S1. apply refused_unchanged. rewrite S2. apply N.eqb_neq. exact C0. }
          rewrite H. exact HI. }
  destruct CL as [HI' KR].
  rewrite (nd_dump_abs _ HI'). cbn [andb].
  rewrite (IH _ HI' HR KR), andb_true_r.
  apply andb_true_iff. split.
  - destruct (c =? 0) eqn:C0; cbn [negb implb]; auto.
    assert (X : fst (step fx s o) = s).
    { apply refused_unchanged. rewrite S2. apply N.eqb_neq. exact C0. }
    replace s' with s by congruence. apply oents_eqb_refl.
  - destruct o; cbn [del_ok]; auto. destruct (c =? 0) eqn:C0; cbn [implb]; auto.
    apply N.eqb_eq in C0. rewrite C0 in S2.
    pose proof (del_ok_abs fx s x S2) as D. cbn [del_ok] in D. rewrite N.eqb_refl in D.
    rewrite S1 in D. exact D.
Qed.

Lemma agree_core : forall fx init steps,
  agree_gen fx (CHist init steps) = true ->
  fx = true \/ prefix_class (CHist init steps) = false ->
  nd_dump init && trace_core init steps = true.
Proof.
  intros fx init steps HA HK. cbn [agree_gen] in HA.
  apply andb_true_iff in HA. destruct HA as [HA HR]. apply andb_true_iff in HA. destruct HA as [HE HI].
  apply oents_eqb_eq in HE. apply invb_Inv in HI. cbn [prefix_class] in HK.
  rewrite <- HE. rewrite (nd_dump_abs _ HI). cbn [andb].
  eapply run_agree_core; eauto.
Qed.

Lemma run_agree_dbd : forall steps s, run_agree true s steps = true -> dbd_zero steps = true.
Proof.
  induction steps as [|[o code post dbd] r IH]; intros s HA; cbn [dbd_zero]; auto.
  cbn [run_agree] in HA. destruct (step true s o) as [s' c].
  apply andb_true_iff in HA. destruct HA as [HA HR]. apply andb_true_iff in HA. destruct HA as [_ HD].
  cbn [implb] in HD. rewrite HD. cbn [andb]. eauto.
Qed.

(* the repaired tree: agreement implies the whole executable predicate *)
Lemma agree_pcheck : forall init steps,
  agree_gen true (CHist init steps) = true -> pcheck (CHist init steps) = true.
Proof.
  intros init steps HA. cbn [pcheck]. rewrite trace_ok_split.
  pose proof (agree_core true init steps HA (or_introl eq_refl)) as C.
  apply andb_true_iff in C. destruct C as [C1 C2]. rewrite C1, C2. cbn [andb].
  cbn [agree_gen] in HA. apply andb_true_iff in HA. destruct HA as [_ HR].
  eapply run_agree_dbd; eauto.
Qed.

(* ------------------------------------------------------------------ the tree before bbee457: witnesses *)
Definition w_state : state :=
  [ mkent 0 0 Live [] None; mkent 1 0 Tomb [] None; mkent 2 1 Live [] None ].
Definition w_op : op := OModify 2 [MAdd 0 0; MAdd 0 1].
Lemma w_inv : Inv w_state.
Proof. apply invb_Inv. vm_compute. reflexivity. Qed.
Lemma w_breaks : ~ Inv (fst (step false w_state w_op)).
Proof.
  intros H. apply invb_Inv in H. vm_compute in H. discriminate.
Qed.
Lemma w_accepted : snd (step false w_state w_op) = 0 /\ would_dangle w_state w_op = true.
Proof. split; vm_compute; reflexivity. Qed.
