(* KV.C16.Model — referential integrity (executable definitions only).
   Transcribes, for a closed universe of tracked entries (persons, groups, ClientCertificate
   dependents, OAuth2 clients):
     plugins/refint.rs   check_uuids_exist_fast (+ be/mod.rs filter2idl Inclusion, which it relies on),
                         cand_references_to_uuid_filter / update_reference_set, post_modify_inner
                         (post_create, post_modify), check_refers_to_target_loop_fast,
                         remove_references (post_delete), post_repl_incremental_conflict,
                         post_repl_incremental
     server/delete.rs    delete: live-only target, Refers cascade + CascadeDeleted stash,
                         memberof::pre_delete DirectMemberOf -> RecycledDirectMemberOf, to_recycled
     server/recycle.rs   revive_recycled (CascadeDeleted dependents, Refers restored, to_revived,
                         schema + refint of modify_apply, Member re-added to stashed groups),
                         purge_recycled, purge_tombstones
     schema.rs           which attributes are reference typed (ref_cache), single-value / MUST / MAY
   Reference attributes are numbered: 0 Member, 1 EntryManagedBy, 2 Refers, 3 OAuth2RsScopeMap,
   4 OAuth2RsSupScopeMap, 5 RecycledDirectMemberOf (stored); 6 DirectMemberOf, 7 MemberOf (maintained
   by the memberof plugin, derived here from the group graph); 9 any other reference type;
   10, 11, 12 OAuth2RsClaimMap under the claim names ca, cb, cc (the value set is a map
   claim name -> group uuid -> values; its references are the union over the claim names, and
   ValueSetOauthClaimMap::remove(Refer u) must take u out of EVERY claim name).
   Retention windows are not modelled (they are C26's subject): the harness runs every purge 8 days
   after the previous transaction, so a purge takes every recycled entry / every tombstone. *)
From Coq Require Import List NArith Bool.
Import ListNotations.
Open Scope N_scope.

(* Which tree the run-time correspondence is held against:
   true  = /repo HEAD since commit bbee457 ("referential integrity must check every new reference,
           not just one"): every new reference must be live;
   false = the tree BEFORE that commit (check_uuids_exist_fast accepted a set of new references as soon
           as ONE of them was live and the others still existed recycled or tombstoned).  Kept only as
           documentation of the defect this check found (the `_prefix` theorems in Props.v). *)
Definition tree_fixed : bool := true.

Inductive status := Live | Rec | Tomb | Gone.
Definition refs := list (N * list N).

(* ekind: 0 person, 1 group, 2 dependent (ClientCertificate, Refers is MUST), 3 OAuth2 client *)
Record ent := mkent { eid : N; ekind : N; est : status; erefs : refs; ecasc : option N }.
Definition state := list ent.

Definition is_live (s : status) : bool := match s with Live => true | _ => false end.
Definition is_rec (s : status) : bool := match s with Rec => true | _ => false end.
Definition is_gone (s : status) : bool := match s with Gone => true | _ => false end.
Definition memN (x : N) (l : list N) : bool := existsb (N.eqb x) l.
Definition isnil (l : list N) : bool := match l with [] => true | _ => false end.
Fixpoint nodupb (l : list N) : bool :=
  match l with
  | [] => true
  | x :: r => negb (memN x r) && nodupb r
  end.
Definition opt_is (o : option N) (x : N) : bool := match o with Some y => y =? x | None => false end.

(* sorted duplicate-free insertion (reference sets are BTreeSets) *)
Fixpoint ins (x : N) (l : list N) : list N :=
  match l with
  | [] => [x]
  | y :: r => if x <? y then x :: l else if x =? y then l else y :: ins x r
  end.
Definition uni (l acc : list N) : list N := fold_right ins acc l.
Definition rm (ds l : list N) : list N := filter (fun y => negb (memN y ds)) l.

(* attribute maps *)
Definition getr (a : N) (r : refs) : list N :=
  match find (fun p => fst p =? a) r with Some p => snd p | None => [] end.
Definition setr (a : N) (l : list N) (r : refs) : refs :=
  (a, l) :: filter (fun p => negb (fst p =? a)) r.
Definition targets (r : refs) : list N := flat_map snd r.
(* ValueSet::remove_avas on every reference attribute *)
Definition strip (ds : list N) (r : refs) : refs := map (fun p => (fst p, rm ds (snd p))) r.

Definition set_refs (r : refs) (e : ent) : ent := mkent (eid e) (ekind e) (est e) r (ecasc e).
Definition set_status (st : status) (e : ent) : ent := mkent (eid e) (ekind e) st (erefs e) (ecasc e).

(* search visibility: filter! (live only), filter_all! (anything still stored) *)
Definition live_id (s : state) (t : N) : bool := existsb (fun e => (eid e =? t) && is_live (est e)) s.
Definition rec_id (s : state) (t : N) : bool := existsb (fun e => (eid e =? t) && is_rec (est e)) s.
Definition gone_id (s : state) (t : N) : bool := existsb (fun e => (eid e =? t) && is_gone (est e)) s.
Definition present_id (s : state) (t : N) : bool :=
  existsb (fun e => (eid e =? t) && negb (is_gone (est e))) s.
Definition kind_of (s : state) (t : N) : N :=
  match find (fun e => eid e =? t) s with Some e => ekind e | None => 0 end.

(* ------------------------------------------------------------------ memberof (derived) *)
(* g is a live GROUP listing y as a member *)
Definition lists (g : ent) (y : N) : bool :=
  is_live (est g) && (ekind g =? 1) && memN y (getr 0 (erefs g)).
Definition dmo (s : state) (y : N) : list N := map eid (filter (fun g => lists g y) s).
(* MemberOf = DirectMemberOf plus the MemberOf of those groups (exact on acyclic group graphs) *)
Fixpoint mo_fuel (fuel : nat) (s : state) (y : N) : list N :=
  match fuel with
  | O => []
  | S f => let d := dmo s y in uni d (fold_right (fun g acc => uni (mo_fuel f s g) acc) [] d)
  end.
Definition mo (s : state) (y : N) : list N := mo_fuel (length s) s y.

(* ------------------------------------------------------------------ schema *)
(* EntryManagedBy is MAY on class object; Member on group; Refers on clientcertificate; scope maps on
   oauth2resourceserver *)
Definition attr_ok (k a : N) : bool :=
  (a =? 1) || ((a =? 0) && (k =? 1)) || ((a =? 2) && (k =? 2))
  || (((a =? 3) || (a =? 4) || (a =? 10) || (a =? 11) || (a =? 12)) && (k =? 3)).
Definition sch_ok (k : N) (r : refs) : bool :=
  forallb (fun a => isnil (getr a r) || attr_ok k a) (map fst r)
  && Nat.leb (length (getr 1 r)) 1 && Nat.leb (length (getr 2 r)) 1
  && implb (k =? 2) (negb (isnil (getr 2 r))).

(* ------------------------------------------------------------------ refint *)
(* check_uuids_exist_fast: internal_exists(filter!(f_inc([uuid = u, ...]))).
   be::filter2idl Inclusion: every term must have a non-empty INDEX set (recycled entries and
   tombstones are indexed), the sets are united; the filter! wrapper then removes what is not live.
   So on the pinned tree the answer is: all of them are stored in some state AND one of them is live.
   [ext]: the new references also contain a live uuid OUTSIDE the tracked universe — a created OAuth2
   client is given a KeyProvider reference (keyobject plugin) to the built-in key provider. *)
Definition refint_ok (fx ext : bool) (s : state) (new : list N) : bool :=
  if fx then forallb (live_id s) new
  else match new with
       | [] => true
       | _ => forallb (present_id s) new && (ext || existsb (live_id s) new)
       end.
(* check_refers_to_target_loop_fast: filter!(f_inc([uuid = t AND NOT pres(refers), ...])) *)
Definition norefers_id (s : state) (t : N) : bool :=
  existsb (fun e => (eid e =? t) && negb (is_gone (est e)) && isnil (getr 2 (erefs e))) s.
Definition refers_ok (s : state) (ts : list N) : bool :=
  match ts with
  | [] => true
  | _ => forallb (norefers_id s) ts && existsb (live_id s) ts
  end.
(* the references the operation introduces: reference_set.difference(previous_reference_set) *)
Definition fresh_of (pre post : list N) : list N := filter (fun t => negb (memN t pre)) post.

(* ------------------------------------------------------------------ create *)
Definition lookup (x : N) (l : list (N * refs)) : option refs :=
  match find (fun p => fst p =? x) l with Some p => Some (snd p) | None => None end.
Definition create_upd (l : list (N * refs)) (e : ent) : ent :=
  match lookup (eid e) l with
  | Some r => if is_gone (est e) then mkent (eid e) (ekind e) Live r None else e
  | None => e
  end.
Definition cr_state (s : state) (l : list (N * refs)) : state := map (create_upd l) s.
Definition cr_new (l : list (N * refs)) : list N := flat_map (fun p => targets (snd p)) l.
Definition cr_ext (s : state) (l : list (N * refs)) : bool := existsb (fun p => kind_of s (fst p) =? 3) l.

(* result codes: 0 committed; 1 NoMatchingEntries; 2 SchemaViolation; 3 Plugin(ReferentialIntegrity);
   5 Plugin(Base) duplicate uuid; 6 ReferenceLoop.  Any non-zero code: the transaction is dropped. *)
Definition do_create (fx : bool) (s : state) (l : list (N * refs)) : state + N :=
  if negb (nodupb (map fst l)) || negb (forallb (fun p => gone_id s (fst p)) l) then inr 5
  else if negb (forallb (fun p => sch_ok (kind_of s (fst p)) (snd p)) l) then inr 2
  else
    let s1 := cr_state s l in
    if negb (refint_ok fx (cr_ext s l) s1 (cr_new l)) then inr 3
    else if negb (refers_ok s1 (flat_map (fun p => getr 2 (snd p)) l)) then inr 6
    else inl s1.

(* ------------------------------------------------------------------ modify *)
Inductive rmod := MAdd (a t : N) | MDel (a t : N) | MSet (a t : N) | MPurge (a : N).
Definition apply_mod (r : refs) (m : rmod) : refs :=
  match m with
  | MAdd a t => setr a (ins t (getr a r)) r
  | MDel a t => setr a (rm [t] (getr a r)) r
  | MSet a t => setr a [t] r
  | MPurge a => setr a [] r
  end.
Definition is_target (x : N) (e : ent) : bool := (eid e =? x) && is_live (est e).
Definition mod_upd (x : N) (ms : list rmod) (e : ent) : ent :=
  if is_target x e then set_refs (fold_left apply_mod ms (erefs e)) e else e.
Definition mod_state (s : state) (x : N) (ms : list rmod) : state := map (mod_upd x ms) s.
(* update_reference_set reads every reference attribute except MemberOf: the stored ones and
   DirectMemberOf (which the modify itself does not touch) *)
Definition mod_pre (s : state) (x : N) : list N :=
  flat_map (fun e => if is_target x e then targets (erefs e) ++ dmo s x else []) s.
Definition mod_post (s : state) (x : N) (ms : list rmod) : list N :=
  flat_map (fun e => if is_target x e then targets (erefs (mod_upd x ms e)) else []) s.
Definition mod_new (s : state) (x : N) (ms : list rmod) : list N :=
  fresh_of (mod_pre s x) (mod_post s x ms).

Definition do_modify (fx : bool) (s : state) (x : N) (ms : list rmod) : state + N :=
  (* internal identity: no live candidate -> Ok(()), nothing happens (server/modify.rs:64) *)
  if negb (live_id s x) then inl s
  else
    let s1 := mod_state s x ms in
    if negb (forallb (fun e => implb (is_target x e) (sch_ok (ekind e) (erefs e))) s1) then inr 2
    else if negb (refint_ok fx false s1 (mod_new s x ms)) then inr 3
    else if negb (refers_ok s1 (flat_map (fun e => if is_target x e then getr 2 (erefs e) else []) s1))
    then inr 6
    else inl s1.

(* ------------------------------------------------------------------ delete *)
Definition in_dels (x : N) (e : ent) : bool :=
  is_live (est e) && ((eid e =? x) || memN x (getr 2 (erefs e))).
(* memberof::pre_delete stashes DirectMemberOf; delete stashes the cascade trigger; to_recycled *)
Definition recycle (s : state) (x : N) (e : ent) : ent :=
  mkent (eid e) (ekind e) Rec (setr 5 (dmo s (eid e)) (erefs e))
        (if memN x (getr 2 (erefs e)) then Some x else ecasc e).
Definition strip_ent (ds : list N) (e : ent) : ent := set_refs (strip ds (erefs e)) e.
Definition del_set (s : state) (x : N) : list N := map eid (filter (in_dels x) s).
Definition del_state (s : state) (x : N) : state :=
  map (fun e => strip_ent (del_set s x) (if in_dels x e then recycle s x e else e)) s.
Definition do_delete (s : state) (x : N) : state + N :=
  if live_id s x then inl (del_state s x) else inr 1.

(* ------------------------------------------------------------------ revive *)
Definition in_revs (x : N) (e : ent) : bool :=
  is_rec (est e) && ((eid e =? x) || opt_is (ecasc e) x).
Definition revived (e : ent) : ent :=
  mkent (eid e) (ekind e) Live
        (setr 5 [] (match ecasc e with Some u => setr 2 [u] (erefs e) | None => erefs e end)) None.
Definition rev_state (s : state) (x : N) : state := map (fun e => if in_revs x e then revived e else e) s.
Definition rev_pre (s : state) (x : N) : list N :=
  flat_map (fun e => if in_revs x e then targets (erefs e) else []) s.
Definition rev_post (s : state) (x : N) : list N :=
  flat_map (fun e => if in_revs x e then targets (erefs (revived e)) else []) s.
Definition rev_new (s : state) (x : N) : list N := fresh_of (rev_pre s x) (rev_post s x).
(* revived entries whose stash names group g get Member re-added (one internal_modify per group) *)
Definition adds (s : state) (x g : N) : list N :=
  map eid (filter (fun r => in_revs x r && memN g (getr 5 (erefs r))) s).
Definition add_members (s : state) (x : N) (e : ent) : ent :=
  if is_live (est e) then
    match adds s x (eid e) with
    | [] => e
    | l => set_refs (setr 0 (uni l (getr 0 (erefs e))) (erefs e)) e
    end
  else e.
Definition do_revive (fx : bool) (s : state) (x : N) : state + N :=
  if negb (rec_id s x) then inr 1
  else if negb (forallb (fun e => implb (in_revs x e) (sch_ok (ekind e) (erefs (revived e)))) s) then inr 2
  else
    let s1 := rev_state s x in
    if negb (refint_ok fx false s1 (rev_new s x)) then inr 3
    else if negb (refers_ok s1 (flat_map (fun e => if in_revs x e then getr 2 (erefs (revived e)) else []) s))
    then inr 6
    else if negb (forallb (fun e => implb (in_revs x e) (forallb (live_id s1) (getr 5 (erefs e)))) s)
    then inr 7   (* a stashed group that is not live: unreachable from consistent states *)
    else inl (map (add_members s x) s1).

(* ------------------------------------------------------------------ purges *)
Definition purge_rec_upd (e : ent) : ent :=
  if is_rec (est e) then mkent (eid e) (ekind e) Tomb [] None else e.
Definition purge_tomb_upd (e : ent) : ent :=
  match est e with Tomb => mkent (eid e) (ekind e) Gone [] None | _ => e end.

(* ------------------------------------------------------------------ one write transaction *)
Inductive op :=
| OCreate (l : list (N * refs)) | OModify (x : N) (ms : list rmod)
| ODelete (x : N) | ORevive (x : N) | OPurgeRec | OPurgeTomb.

Definition ret (s : state) (r : state + N) : state * N :=
  match r with inl s' => (s', 0) | inr c => (s, c) end.
Definition step (fx : bool) (s : state) (o : op) : state * N :=
  match o with
  | OCreate l => ret s (do_create fx s l)
  | OModify x ms => ret s (do_modify fx s x ms)
  | ODelete x => ret s (do_delete s x)
  | ORevive x => ret s (do_revive fx s x)
  | OPurgeRec => (map purge_rec_upd s, 0)
  | OPurgeTomb => (map purge_tomb_upd s, 0)
  end.
Fixpoint run (fx : bool) (s : state) (l : list op) : state :=
  match l with
  | [] => s
  | o :: r => run fx (fst (step fx s o)) r
  end.

(* The references a write introduces, judged in the state the write leaves behind
   (state, new tracked references, "a live outside reference is among them"). *)
Definition write_new (s : state) (o : op) : state * list N * bool :=
  match o with
  | OCreate l => (cr_state s l, cr_new l, cr_ext s l)
  | OModify x ms => (mod_state s x ms, mod_new s x ms, false)
  | ORevive x => (rev_state s x, rev_new s x, false)
  | _ => (s, [], false)
  end.
(* the write would leave a reference to something that is not live *)
Definition would_dangle (s : state) (o : op) : bool :=
  let '(s1, new, _) := write_new s o in existsb (fun t => negb (live_id s1 t)) new.
(* KNOWN CLASS "mixed-new-references": the new references of one write mix at least one live target
   with at least one target that is not live *)
Definition mixed (s : state) (o : op) : bool :=
  let '(s1, new, ext) := write_new s o in
  (ext || existsb (live_id s1) new) && existsb (fun t => negb (live_id s1 t)) new.

(* ------------------------------------------------------------------ replication (consumer side) *)
(* refint::post_repl_incremental_conflict: live entries whose Refers points at a conflicted uuid are
   themselves turned into conflicts (recycled) and join the conflict set *)
Definition conf_hit (conf : list N) (e : ent) : bool :=
  is_live (est e) && existsb (fun c => memN c conf) (getr 2 (erefs e)).
Definition repl_conflict (conf : list N) (m : state) : state * list N :=
  (map (fun e => if conf_hit conf e then set_status Rec e else e) m,
   conf ++ map eid (filter (conf_hit conf) m)).
(* refint::post_repl_incremental: [pre] the consumer before, [m] after the entry merge (arbitrary),
   [cands] the uuids in the update, [conf] the conflicting uuids *)
Definition cand_targets (s : state) (cands : list N) : list N :=
  flat_map (fun e => if memN (eid e) cands then targets (erefs e) else []) s.
Definition repl_clean (fx : bool) (pre m : state) (cands conf : list N) : state :=
  let '(m1, conf1) := repl_conflict conf m in
  let new := fresh_of (cand_targets pre cands) (cand_targets m cands) in
  let missing := if refint_ok fx false m1 new then [] else filter (fun t => negb (live_id m1 t)) new in
  let inactive := filter (fun c => live_id pre c && negb (live_id m c)) cands in
  map (strip_ent (missing ++ conf1 ++ inactive)) m1.
Definition repl_mixed (pre m : state) (cands conf : list N) : bool :=
  let m1 := fst (repl_conflict conf m) in
  let new := fresh_of (cand_targets pre cands) (cand_targets m cands) in
  existsb (live_id m1) new && existsb (fun t => negb (live_id m1 t)) new.

(* ------------------------------------------------------------------ correspondence *)
(* what the harness reads back for one tracked entry: life-cycle state, every reference-typed attribute
   (targets inside the universe, sorted; attributes in code order, empty ones omitted), the
   CascadeDeleted stash, and the number of references to uuids OUTSIDE the universe that are not live *)
Record oent := mkoent {
  oid : N; okind : N; ost : status; orefs : refs; ocasc : option N; oext : N }.

Definition nonempty (p : N * list N) : bool := negb (isnil (snd p)).
Definition canon (s : state) (e : ent) : refs :=
  filter nonempty
    (map (fun a => (a, getr a (erefs e))) [0; 1; 2; 3; 4; 5]
     ++ (if is_live (est e) then [(6, dmo s (eid e)); (7, mo s (eid e))] else [])
     ++ map (fun a => (a, getr a (erefs e))) [10; 11; 12]).
Definition abs (s : state) (e : ent) : oent :=
  mkoent (eid e) (ekind e) (est e) (canon s e) (ecasc e) 0.
Definition absS (s : state) : list oent := map (abs s) s.
Definition stored (p : N * list N) : bool := negb ((fst p =? 6) || (fst p =? 7)).
Definition of_obs (o : oent) : ent :=
  mkent (oid o) (okind o) (ost o) (filter stored (orefs o)) (ocasc o).

Inductive ostep := OStep (o : op) (code : N) (post : list oent) (dbd : N).
Inductive rstep :=
| RLocal (onB : bool) (o : op) (code : N) (post : list oent) (dbd : N)
| RRepl (toB : bool) (ok : bool) (post : list oent) (dbd : N).
Inductive case :=
| CHist (init : list oent) (steps : list ostep)
| CRepl (initA initB : list oent) (steps : list rstep).

Definition status_eqb (a b : status) : bool :=
  match a, b with
  | Live, Live | Rec, Rec | Tomb, Tomb | Gone, Gone => true
  | _, _ => false
  end.
Fixpoint listN_eqb (a b : list N) : bool :=
  match a, b with
  | [], [] => true
  | x :: r, y :: q => (x =? y) && listN_eqb r q
  | _, _ => false
  end.
Fixpoint refs_eqb (a b : refs) : bool :=
  match a, b with
  | [], [] => true
  | x :: r, y :: q => (fst x =? fst y) && listN_eqb (snd x) (snd y) && refs_eqb r q
  | _, _ => false
  end.
Definition optN_eqb (a b : option N) : bool :=
  match a, b with
  | None, None => true
  | Some x, Some y => x =? y
  | _, _ => false
  end.
Definition oent_eqb (a b : oent) : bool :=
  (oid a =? oid b) && (okind a =? okind b) && status_eqb (ost a) (ost b)
  && refs_eqb (orefs a) (orefs b) && optN_eqb (ocasc a) (ocasc b) && (oext a =? oext b).
Fixpoint oents_eqb (a b : list oent) : bool :=
  match a, b with
  | [] , [] => true
  | x :: r, y :: q => oent_eqb x y && oents_eqb r q
  | _, _ => false
  end.

(* executable form of the invariant: every stored reference of every entry points at a live entry *)
Definition invb (s : state) : bool :=
  forallb (fun e => forallb (live_id s) (targets (erefs e))) s.

Fixpoint run_agree (fx : bool) (s : state) (steps : list ostep) : bool :=
  match steps with
  | [] => true
  | OStep o code post dbd :: r =>
      let '(s', c) := step fx s o in
      (* on the repaired tree the model also predicts that the whole-database scan finds nothing *)
      (c =? code) && oents_eqb (absS s') post && implb fx (dbd =? 0) && run_agree fx s' r
  end.

(* two replicas: a local op is replayed from that replica's own previous dump; what incremental
   replication does to a replica is NOT predicted (the merged entry state is not observable) — the
   model state is re-read from the dump *)
Fixpoint repl_agree (fx : bool) (a b : list oent) (steps : list rstep) : bool :=
  match steps with
  | [] => true
  | RLocal onB o code post _ :: r =>
      let pre := if onB then b else a in
      let '(s', c) := step fx (map of_obs pre) o in
      (* only from dumps whose DirectMemberOf / MemberOf are exact: after a uuid conflict the
         consumer strips the conflicting uuid from memberof of third entries (C17's subject) *)
      implb (oents_eqb (absS (map of_obs pre)) pre) ((c =? code) && oents_eqb (absS s') post)
      && (if onB then repl_agree fx a post r else repl_agree fx post b r)
  | RRepl toB _ post _ :: r =>
      if toB then repl_agree fx a post r else repl_agree fx post b r
  end.

Definition agree_gen (fx : bool) (c : case) : bool :=
  match c with
  | CHist init steps =>
      let s0 := map of_obs init in
      oents_eqb (absS s0) init && invb s0 && run_agree fx s0 steps
  | CRepl a b steps => repl_agree fx a b steps
  end.
Definition agree : case -> bool := agree_gen tree_fixed.

(* ------------------------------------------------------------------ the property on observations *)
(* Stated on the implementation's own dumps only. *)
Definition olive (d : list oent) (t : N) : bool := existsb (fun e => (oid e =? t) && is_live (ost e)) d.
(* scan of every reference-typed value of every live entry against the live uuids *)
Definition nd_dump (d : list oent) : bool :=
  forallb (fun e => implb (is_live (ost e)) (forallb (olive d) (targets (orefs e)) && (oext e =? 0))) d.
(* a committed delete leaves no reference to the deleted entry anywhere, and it is not live *)
Definition del_ok (o : op) (code : N) (post : list oent) : bool :=
  match o with
  | ODelete x => implb (code =? 0)
                   (negb (olive post x) && forallb (fun e => negb (memN x (targets (orefs e)))) post)
  | _ => true
  end.
Fixpoint trace_ok (pre : list oent) (steps : list ostep) : bool :=
  match steps with
  | [] => true
  | OStep o code post dbd :: r =>
      nd_dump post && (dbd =? 0)
      && implb (negb (code =? 0)) (oents_eqb pre post)     (* a refused write changes nothing *)
      && del_ok o code post && trace_ok post r
  end.
Fixpoint rtrace_ok (steps : list rstep) : bool :=
  match steps with
  | [] => true
  | RLocal _ o code post dbd :: r => nd_dump post && (dbd =? 0) && del_ok o code post && rtrace_ok r
  | RRepl _ _ post dbd :: r => nd_dump post && (dbd =? 0) && rtrace_ok r
  end.
Definition pcheck (c : case) : bool :=
  match c with
  | CHist init steps => nd_dump init && trace_ok init steps
  | CRepl a b steps => nd_dump a && nd_dump b && rtrace_ok steps
  end.

(* ------------------------------------------------------------------ known classes *)
(* None: both defects this check found are repaired in /repo —
     bbee457  refint::check_uuids_exist_fast accepted new references that mix a live target with
              recycled / tombstoned ones (also through post_repl_incremental);
     bca7876 + 239e98c  dynamic groups listed RECYCLED accounts as DynMember (after the revive of an
              account; after a replication that delivers a recycled or conflicting account). *)
Definition known (_ : case) : bool := false.

(* DOCUMENTATION ONLY (tree before bbee457): recogniser of the former class "mixed-new-references" —
   some committed write of the history introduces references that mix a live target with a target
   that is not live.  Used by the `_prefix` theorems; not used by `known`. *)
Definition prefix_class_step (s : state) (o : op) : bool := mixed s o.
Fixpoint prefix_class_run (s : state) (steps : list ostep) : bool :=
  match steps with
  | [] => false
  | OStep o _ _ _ :: r =>
      let '(s', c) := step false s o in
      ((c =? 0) && prefix_class_step s o) || prefix_class_run s' r
  end.
Definition prefix_class (c : case) : bool :=
  match c with
  | CHist init steps => prefix_class_run (map of_obs init) steps
  | CRepl _ _ _ => false
  end.
