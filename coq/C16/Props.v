(* KV.C16.Props — property theorems only.
   Inv s       : every stored reference (Member, EntryManagedBy, Refers, scope maps,
                 RecycledDirectMemberOf) of every stored entry — live or recycled — points at a LIVE entry.
   NoDangling s: what a live entry shows (stored references, DirectMemberOf, MemberOf) points at live entries.
   step fx     : one write transaction; fx = true is /repo HEAD (since fix commit bbee457), which the
                 run-time correspondence is held against (Model.tree_fixed = true); fx = false is the tree
                 BEFORE that commit and appears only in the `_prefix` theorems at the end, which document
                 the defect this check found. *)
From Coq Require Import List NArith Bool.
Import ListNotations.
Require Import KV.C16.Model KV.C16.Proofs.
Open Scope N_scope.

(* ---------------------------------------------------------------- the full statement (current tree) *)

(* Every operation (create batch, reference edit, delete with cascade, revive with cascade and
   membership restore, purge of the recycle bin, purge of tombstones) preserves the invariant,
   whatever its arguments and whether it is accepted or refused. *)
Theorem C16_inv_step : forall (s : state) (o : op), Inv s -> Inv (fst (step true s o)).
Proof. intros s o H. apply inv_step_gen; [exact H | left; reflexivity]. Qed.

(* ... hence after ANY history from a consistent state (no bound on its length) ... *)
Theorem C16_reachable : forall (ops : list op) (s : state), Inv s -> Inv (run true s ops).
Proof. exact inv_run_fixed. Qed.

(* ... no reference-valued attribute of a live entry points at an entry that is not live. *)
Theorem C16_no_dangling : forall (ops : list op) (s : state), Inv s -> NoDangling (run true s ops).
Proof. intros ops s H. apply inv_nodangling. apply inv_run_fixed. exact H. Qed.

(* A write (create, reference edit, revive) whose result would hold a new reference to something
   that is not live is refused, and a refused transaction changes nothing. *)
Theorem C16_write_refused : forall (s : state) (o : op),
  would_dangle s o = true -> snd (step true s o) <> 0 /\ fst (step true s o) = s.
Proof. intros s o H. apply write_refused_gen; [exact H | left; reflexivity]. Qed.

Theorem C16_refused_unchanged : forall (fx : bool) (s : state) (o : op),
  snd (step fx s o) <> 0 -> fst (step fx s o) = s.
Proof. exact refused_unchanged. Qed.

(* A committed delete of x leaves x not live and removes every reference to x and to every entry
   deleted with it by cascade — from live AND from recycled holders (both trees, any state). *)
Theorem C16_delete_cleans : forall (fx : bool) (s s' : state) (x : N),
  step fx s (ODelete x) = (s', 0) ->
  live_id s' x = false /\
  forall e d, In e s' -> In d (del_set s x) -> ~ In d (targets (erefs e)).
Proof.
  intros fx s s' x H. cbn [step] in H. destruct (do_delete s x) as [s1|c] eqn:D; cbn [ret] in H.
  - inversion H. subst s1. split.
    + eapply delete_not_live; eauto.
    + intros e d He Hd. eapply delete_cleans; eauto.
  - unfold do_delete in D. destruct (live_id s x); [discriminate|]. inversion D. subst c.
    inversion H.
Qed.
(* x itself is among the deleted *)
Theorem C16_delete_cleans_target : forall (s : state) (x : N),
  live_id s x = true -> In x (del_set s x).
Proof. exact delete_target_in_set. Qed.

(* Incremental replication, consumer side (refint::post_repl_incremental_conflict +
   post_repl_incremental): whatever the merged entry states [m] are — entries deleted, revived,
   created, conflicted, references added on the other replica — provided entries outside the update
   set are unchanged, the clean-up restores the invariant. *)
Theorem C16_repl_clean : forall (pre m : state) (cands conf : list N),
  Inv pre -> aligned pre m cands -> Inv (repl_clean true pre m cands conf).
Proof. intros pre m cands conf H A. apply inv_repl_clean; auto. Qed.

(* ---------------------------------------------------------------- the run-time tie *)

(* Single-server histories: whenever the implementation's observations agree with the model, the WHOLE
   executable predicate of the property holds on those observations: no dangling reference in any
   dump, the whole-database scan finds nothing, a refused write changed nothing, a delete left no
   reference behind.  (Two-replica cases: local ops are replayed by the model, the effect of a
   replication step is not predicted — there pcheck is evaluated on the dumps directly and
   C16_repl_clean is the model-level statement.) *)
Theorem C16_agree_implies_property : forall (init : list oent) (steps : list ostep),
  agree (CHist init steps) = true -> pcheck (CHist init steps) = true.
Proof. exact agree_pcheck. Qed.
Theorem C16_pcheck_split : forall (init : list oent) (steps : list ostep),
  pcheck (CHist init steps) = nd_dump init && (trace_core init steps && dbd_zero steps).
Proof. intros init steps. cbn [pcheck]. rewrite trace_ok_split. reflexivity. Qed.

(* ---------------------------------------------------------------- DOCUMENTATION: the tree before bbee457 *)
(* Nothing below is about the current tree.  `step false` transcribes refint as it was before fix
   commit bbee457: check_uuids_exist_fast accepted a set of new references as soon as ONE of them was
   live and the others still existed recycled or tombstoned. *)

(* The full statement for that tree ... *)
Definition C16_prefix_full_statement : Prop :=
  forall (s : state) (o : op), Inv s -> Inv (fst (step false s o)).

(* ... was FALSE: with u0 live and u1 a tombstone, `g2.member += [u0, u1]` was committed.  Confirmed on
   the real server at the time (`c16 --probe`; on the current tree the probe shows the refusal). *)
Theorem C16_prefix_refuted : ~ C16_prefix_full_statement.
Proof. intros H. apply w_breaks. apply H. exact w_inv. Qed.
Theorem C16_prefix_write_refused_refuted :
  ~ (forall s o, would_dangle s o = true -> snd (step false s o) <> 0).
Proof. intros H. destruct w_accepted as [A B]. apply (H _ _ B). exact A. Qed.

(* Outside the class (the new references of one write mix a live target with one that is not live)
   that tree satisfied the statement too. *)
Theorem C16_prefix_inv_step_partial : forall (s : state) (o : op),
  Inv s -> mixed s o = false -> Inv (fst (step false s o)).
Proof. intros s o H M. apply inv_step_gen; [exact H | right; exact M]. Qed.
Theorem C16_prefix_reachable_partial : forall (ops : list op) (s : state),
  Inv s -> clean_run s ops = true -> NoDangling (run false s ops).
Proof. intros ops s H C. apply inv_nodangling. apply inv_run_partial; auto. Qed.
Theorem C16_prefix_write_refused_partial : forall (s : state) (o : op),
  would_dangle s o = true -> mixed s o = false ->
  snd (step false s o) <> 0 /\ fst (step false s o) = s.
Proof. intros s o H M. apply write_refused_gen; [exact H | right; exact M]. Qed.
Theorem C16_prefix_repl_clean_partial : forall (pre m : state) (cands conf : list N),
  Inv pre -> aligned pre m cands -> repl_mixed pre m cands conf = false ->
  Inv (repl_clean false pre m cands conf).
Proof. intros pre m cands conf H A M. apply inv_repl_clean; auto. Qed.
(* the tie for either tree, outside the former class (everything but the whole-database count) *)
Theorem C16_prefix_agree_implies_core : forall (fx : bool) (init : list oent) (steps : list ostep),
  agree_gen fx (CHist init steps) = true ->
  fx = true \/ prefix_class (CHist init steps) = false ->
  nd_dump init && trace_core init steps = true.
Proof. exact agree_core. Qed.
