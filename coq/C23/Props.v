(* KV.C23.Props — property theorems only.
   Vocabulary: a READER is a user identity whose session scope is read-only or read-write
   (`reader i = Some u`). `may_read u acps e a` is the declarative grant rule: some loaded
   profile whose receiver matches (u, e) and whose target matches e lists attribute a, or a
   built-in visibility rule (OAuth2 client / application / sync account) covers a.
   All statements hold for ANY set of profiles, ANY entries, ANY filters and ANY leaf truth. *)
From Coq Require Import List NArith Bool.
Import ListNotations.
Require Import KV.Base.Filter KV.C23.Model KV.C23.Proofs.
Open Scope N_scope.

(* --- the pipeline of the code IS the declarative rule ------------------------------------ *)

(* search: a reader is shown exactly the entries that match the processed filter and on which
   EVERY attribute named in the original filter is readable (and nothing when the filter names
   no attribute). *)
Theorem C23_search_is_spec : forall i u acps m f es, reader i = Some u ->
  search i acps m f es = filter (spec_reveals u acps m f) es.
Proof. exact search_spec. Qed.

(* search_ext: for each such entry exactly the attributes that are present, requested and
   readable are released; trimming the profiles by the requested attributes changes nothing. *)
Theorem C23_search_ext_is_spec : forall i u acps m f req es, reader i = Some u ->
  search_ext i acps m f req es
  = Some (map (spec_release u acps req) (filter (spec_reveals u acps m f) es)).
Proof. exact search_ext_spec. Qed.

(* exists: true exactly when some entry would be shown by the corresponding search. *)
Theorem C23_exists_is_spec : forall i u acps m f es, reader i = Some u ->
  exists_ i acps m f es = existsb (spec_reveals u acps m f) es.
Proof. exact exists_spec. Qed.
Theorem C23_exists_agrees : forall i acps m f es, (forall r, i_origin i <> OInternal r) ->
  exists_ i acps m f es = negb (is_nil (search i acps m f es)).
Proof.
  intros i acps m f es H. unfold exists_, search.
  destruct (i_origin i) as [u| |r]; [reflexivity | reflexivity | exfalso; apply (H r); reflexivity].
Qed.

(* --- consequences, in the words of the property ------------------------------------------ *)

(* Every released (entry, attribute) is covered by a read grant, was requested, and is an
   attribute of that entry. *)
Theorem C23_attrs_sound : forall i u acps m f req es l id attrs a,
  reader i = Some u -> search_ext i acps m f req es = Some l ->
  In (id, attrs) l -> In a attrs ->
  exists e, In e es /\ e_id e = id /\ In a (e_attrs e) /\ requested req a = true
            /\ may_read u acps e a = true.
Proof.
  intros i u acps m f req es l id attrs a Hr Hs Hin Ha.
  destruct (search_ext_elem i u acps m f req es l id attrs Hr Hs Hin) as [e [He [Hid [_ ->]]]].
  apply filter_In in Ha as [Ha1 Ha2]. apply andb_true_iff in Ha2 as [Hq Hm].
  exists e. repeat split; assumption.
Qed.

(* ... and nothing readable is withheld: a revealed entry carries EXACTLY its present,
   requested, readable attributes (so the model is not vacuously safe). *)
Theorem C23_attrs_complete : forall i u acps m f req es l e,
  reader i = Some u -> search_ext i acps m f req es = Some l ->
  In e (search i acps m f es) ->
  exists attrs, In (e_id e, attrs) l /\
    forall a, In a attrs <-> (In a (e_attrs e) /\ requested req a = true /\ may_read u acps e a = true).
Proof.
  intros i u acps m f req es l e Hr Hs Hin.
  rewrite (search_ext_spec i u acps m f req es Hr) in Hs. injection Hs as <-.
  rewrite (search_spec i u acps m f es Hr) in Hin.
  exists (snd (spec_release u acps req e)). split.
  - apply in_map_iff. exists e. split; [reflexivity | exact Hin].
  - intros a. unfold spec_release. cbn [snd]. rewrite filter_In, andb_true_iff. tauto.
Qed.

(* An entry is revealed only if it matches the filter AND every attribute the caller named in
   the filter is readable on it: no probing through unreadable attributes. *)
Theorem C23_entry_needs_filter_attrs : forall i u acps m f req es l id attrs,
  reader i = Some u -> search_ext i acps m f req es = Some l -> In (id, attrs) l ->
  exists e, In e es /\ e_id e = id /\ ematches e (fst (wrap m f)) = true
            /\ forall a, In a (fattrs (snd (wrap m f))) -> may_read u acps e a = true.
Proof.
  intros i u acps m f req es l id attrs Hr Hs Hin.
  destruct (search_ext_elem i u acps m f req es l id attrs Hr Hs Hin) as [e [He [Hid [Hsp _]]]].
  destruct (spec_reveals_inv u acps m f e Hsp) as [H2 H3].
  exists e. repeat split; assumption.
Qed.
(* the same for the entry list of `search` and for `exists` *)
Theorem C23_search_needs_filter_attrs : forall i u acps m f es e,
  reader i = Some u -> In e (search i acps m f es) ->
  In e es /\ ematches e (fst (wrap m f)) = true
  /\ forall a, In a (fattrs (snd (wrap m f))) -> may_read u acps e a = true.
Proof. exact search_reader. Qed.
Theorem C23_search_complete : forall i u acps m f es e, reader i = Some u ->
  fattrs (snd (wrap m f)) <> [] -> In e es -> ematches e (fst (wrap m f)) = true ->
  (forall a, In a (fattrs (snd (wrap m f))) -> may_read u acps e a = true) ->
  In e (search i acps m f es).
Proof. exact search_reader_rev. Qed.
Theorem C23_exists_sound : forall i u acps m f es,
  reader i = Some u -> exists_ i acps m f es = true ->
  exists e, In e es /\ ematches e (fst (wrap m f)) = true
            /\ forall a, In a (fattrs (snd (wrap m f))) -> may_read u acps e a = true.
Proof.
  intros i u acps m f es Hr H. rewrite (exists_spec i u acps m f es Hr) in H.
  apply existsb_exists in H as [e [Hin Hs]]. unfold spec_reveals in Hs.
  apply andb_true_iff in Hs as [Hs H3]. apply andb_true_iff in Hs as [_ H2].
  exists e. repeat split; try assumption. apply forallb_forall. exact H3.
Qed.

(* Deleted (tombstone) and recycled entries never appear in a search whose processed filter is
   the ignore-hidden wrapping — whoever asks, internal callers included; a recycle-bin search
   returns recycled entries only. (wf_entry: the truth of the two class leaves is what the
   entry's class list says; `agree` checks it on every observed case.) *)
Theorem C23_no_hidden : forall i acps f es e, wf_entry e = true ->
  In e (search i acps MHidden f es) -> is_hidden e = false.
Proof. exact search_hidden. Qed.
Theorem C23_recycle_bin_only_recycled : forall i acps f es e, wf_entry e = true ->
  In e (search i acps MRecycle f es) -> memN C_RECYCLED (e_class e) = true.
Proof. exact search_recycle. Qed.
Theorem C23_no_hidden_ext : forall i acps f req es l id attrs,
  (forall e, In e es -> wf_entry e = true) ->
  search_ext i acps MHidden f req es = Some l -> In (id, attrs) l ->
  exists e, In e es /\ e_id e = id /\ is_hidden e = false.
Proof.
  intros i acps f req es l id attrs Hwf Hs Hin. unfold search_ext in Hs.
  destruct (i_origin i) as [u| |r]; try discriminate. injection Hs as <-.
  apply In_fmap in Hin as [e [He Hred]]. unfold reduce_entry in Hred.
  destruct (apply_search_access _ _ e); try discriminate. injection Hred as <- _.
  assert (Hin : In e es) by (apply search_In in He; tauto).
  exists e. repeat split; [exact Hin|]. apply (search_hidden _ acps f es e (Hwf e Hin) He).
Qed.

(* Callers that may not search: sync identities and user sessions with the synchronise scope
   see nothing; the external interface (attribute release) is for user identities only. *)
Theorem C23_denied_callers : forall i acps m f es,
  reader i = None -> (forall r, i_origin i <> OInternal r) -> search i acps m f es = [].
Proof. exact search_denied. Qed.
Theorem C23_external_interface_users_only : forall i acps m f req es,
  (forall u, i_origin i <> OUser u) -> search_ext i acps m f req es = None.
Proof. exact search_ext_nonuser. Qed.
(* internal roles: System sees all, AccountRequest only accounts, Migration only entries
   whose classes are migration classes, MessageQueue nothing. *)
Theorem C23_internal_roles : forall i r acps m f es e, i_origin i = OInternal r ->
  In e (search i acps m f es) -> In e es /\ role_may_see r e = true.
Proof. exact search_internal. Qed.

(* LDAP search = search_ext on And[client filter; rdn of the base; not(schema/profile classes)]
   under the ignore-hidden wrapper: a result entry is live, matches the client filter, and
   the caller can read `class` (the wrapper names it) and every attribute of the client filter
   on it; released attributes obey C23_attrs_sound (ldap_search is search_ext by definition). *)
Theorem C23_ldap_search_sound : forall i u acps f ext req es l id attrs,
  reader i = Some u -> (forall e, In e es -> wf_entry e = true) ->
  ldap_search i acps f ext req es = Some l -> In (id, attrs) l ->
  exists e, In e es /\ e_id e = id /\ is_hidden e = false /\ ematches e f = true
            /\ may_read u acps e A_CLASS = true
            /\ (forall a, In a (fattrs f) -> may_read u acps e a = true)
            /\ (forall a, In a attrs -> may_read u acps e a = true /\ requested req a = true).
Proof.
  intros i u acps f ext req es l id attrs Hr Hwf Hs Hin. unfold ldap_search in Hs.
  destruct (search_ext_elem i u acps MHidden _ req es l id attrs Hr Hs Hin) as [e [He [Hid [Hsp ->]]]].
  destruct (spec_reveals_inv u acps MHidden _ e Hsp) as [Hm Ha]. cbn [wrap fst snd] in Hm, Ha.
  destruct (ignore_hidden_match e _ (Hwf e He) Hm) as [Hh Hm'].
  exists e. repeat split; try assumption.
  - apply (ldap_filter_match e f ext Hm').
  - apply Ha. apply ldap_filter_names_class.
  - intros a Hin'. apply Ha. apply ldap_filter_attrs. exact Hin'.
  - apply filter_In in H as [_ H]. apply andb_true_iff in H as [_ H]. exact H.
  - apply filter_In in H as [_ H]. apply andb_true_iff in H as [H _]. exact H.
Qed.

(* LDAP compare answers compareTrue only if some live entry named by the dn carries the
   asserted value AND the caller can read `class`, the rdn attribute and the asserted attribute
   on it; compareFalse only if such an entry exists and `class` and the rdn attribute are
   readable. Otherwise noSuchObject: an unreadable entry is indistinguishable from none. *)
Theorem C23_ldap_compare_sound : forall i u acps dn ava es,
  reader i = Some u -> (forall e, In e es -> wf_entry e = true) ->
  (ldap_compare i acps dn ava es = 0 ->
     exists e, In e es /\ is_hidden e = false /\ ematches e dn = true /\ ematches e ava = true
               /\ may_read u acps e A_CLASS = true
               /\ forall a, In a (fattrs dn ++ fattrs ava) -> may_read u acps e a = true)
  /\ (ldap_compare i acps dn ava es = 1 ->
     exists e, In e es /\ is_hidden e = false /\ ematches e dn = true
               /\ may_read u acps e A_CLASS = true
               /\ forall a, In a (fattrs dn) -> may_read u acps e a = true).
Proof.
  intros i u acps dn ava es Hr Hwf. unfold ldap_compare.
  destruct (exists_ i acps MHidden (FAnd [dn; ava; ldap_excl] None) es) eqn:E1.
  - split; [intros _ | discriminate].
    destruct (C23_exists_sound i u acps MHidden _ es Hr E1) as [e [He [Hm Ha]]]. cbn [wrap fst snd] in Hm, Ha.
    destruct (ignore_hidden_match e _ (Hwf e He) Hm) as [Hh Hm'].
    exists e. repeat split; try assumption.
    + apply (ematch_and_in e _ None dn Hm'). left. reflexivity.
    + apply (ematch_and_in e _ None ava Hm'). right. left. reflexivity.
    + apply Ha. cbn [fattrs flat_map ldap_excl leaf_class]. rewrite !in_app_iff. cbn [In]. tauto.
    + intros a Hin. apply Ha. cbn [fattrs flat_map]. rewrite app_assoc. apply in_app_iff. left. exact Hin.
  - destruct (exists_ i acps MHidden (FAnd [dn; ldap_excl] None) es) eqn:E2.
    + split; [discriminate | intros _].
      destruct (C23_exists_sound i u acps MHidden _ es Hr E2) as [e [He [Hm Ha]]]. cbn [wrap fst snd] in Hm, Ha.
      destruct (ignore_hidden_match e _ (Hwf e He) Hm) as [Hh Hm'].
      exists e. repeat split; try assumption.
      * apply (ematch_and_in e _ None dn Hm'). left. reflexivity.
      * apply Ha. cbn [fattrs flat_map ldap_excl leaf_class]. rewrite !in_app_iff. cbn [In]. tauto.
      * intros a Hin. apply Ha. cbn [fattrs flat_map]. apply in_app_iff. left. exact Hin.
    + split; discriminate.
Qed.

(* Soundness of the run-time tie: whenever the implementation's answers agree with the model
   on a case (and the case data is coherent), every answer of the IMPLEMENTATION satisfies the
   property's executable predicate `pcheck`, which is stated from may_read only. *)
Theorem C23_agree_implies_property : forall c : case, agree c = true -> pcheck c = true.
Proof. exact agree_pcheck. Qed.
