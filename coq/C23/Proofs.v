(* KV.C23.Proofs — lemmas about the search access pipeline. *)
From Coq Require Import List NArith Bool Lia.
Import ListNotations.
Require Import KV.Base.Filter KV.C23.Model.
Open Scope N_scope.

(* ------------------------------------------------------------------ list sets *)
Lemma memN_In : forall a l, memN a l = true <-> In a l.
Proof.
  intros a l. unfold memN. rewrite existsb_exists. split.
  - intros [x [Hin He]]. apply N.eqb_eq in He. subst. exact Hin.
  - intros Hin. exists a. split; [exact Hin | apply N.eqb_refl].
Qed.
Lemma memN_false : forall a l, memN a l = false <-> ~ In a l.
Proof.
  intros a l. rewrite <- memN_In. destruct (memN a l); split; intros H.
  - discriminate.
  - exfalso. apply H. reflexivity.
  - intros H'. discriminate.
  - reflexivity.
Qed.
Lemma inter_nonempty_spec : forall a b, inter_nonempty a b = true <-> exists x, In x a /\ In x b.
Proof.
  intros a b. unfold inter_nonempty. rewrite existsb_exists. split.
  - intros [x [Hx Hm]]. exists x. split; [exact Hx | apply memN_In; exact Hm].
  - intros [x [Hx Hm]]. exists x. split; [exact Hx | apply memN_In; exact Hm].
Qed.
Lemma inter_nonempty_nil_r : forall a, inter_nonempty a [] = false.
Proof. induction a as [|x a IH]; [reflexivity | exact IH]. Qed.
Lemma subsetN_spec : forall a b, subsetN a b = true <-> forall x, In x a -> In x b.
Proof.
  intros a b. unfold subsetN. rewrite forallb_forall. split.
  - intros H x Hx. apply memN_In. apply H. exact Hx.
  - intros H x Hx. apply memN_In. apply H. exact Hx.
Qed.
Lemma In_fmap : forall {A B} (f : A -> option B) l y,
  In y (fmap f l) <-> exists x, In x l /\ f x = Some y.
Proof.
  intros A B f l y. induction l as [|x l IH]; cbn [fmap].
  - split; [intros [] | intros [x [[] _]]].
  - destruct (f x) as [z|] eqn:E.
    + cbn [In]. rewrite IH. split.
      * intros [-> | [x' [Hin Hf]]]; [exists x; split; [left; reflexivity | exact E] | exists x'; split; [right; exact Hin | exact Hf]].
      * intros [x' [[<- | Hin] Hf]]; [left; congruence | right; exists x'; split; assumption].
    + rewrite IH. split.
      * intros [x' [Hin Hf]]. exists x'. split; [right; exact Hin | exact Hf].
      * intros [x' [[<- | Hin] Hf]]; [congruence | exists x'; split; assumption].
Qed.
Lemma is_nil_false : forall {A} (l : list A), is_nil l = false <-> exists x, In x l.
Proof.
  intros A [|x l]; cbn; split; try discriminate.
  - intros [x []].
  - intros _. exists x. left. reflexivity.
  - reflexivity.
Qed.
Lemma listN_eqb_eq : forall a b, listN_eqb a b = true -> a = b.
Proof.
  induction a as [|x a IH]; intros [|y b]; cbn [listN_eqb]; try discriminate; [reflexivity|].
  intros H. apply andb_true_iff in H as [H1 H2]. apply N.eqb_eq in H1. subst. f_equal. apply IH. exact H2.
Qed.
Lemma ext_eqb_eq : forall a b, ext_eqb a b = true -> a = b.
Proof.
  induction a as [|[x l] a IH]; intros [|[y l'] b]; cbn [ext_eqb]; try discriminate; [reflexivity|].
  intros H. apply andb_true_iff in H as [H H3]. apply andb_true_iff in H as [H1 H2].
  apply N.eqb_eq in H1. apply listN_eqb_eq in H2. subst. f_equal. apply IH. exact H3.
Qed.
Lemma outcome_eqb_eq : forall a b, outcome_eqb a b = true -> a = b.
Proof.
  intros [|x|x|x|x] [|y|y|y|y]; cbn [outcome_eqb]; try discriminate; intros H; try reflexivity.
  - f_equal. apply listN_eqb_eq. exact H.
  - f_equal. apply ext_eqb_eq. exact H.
  - f_equal. apply eqb_prop. exact H.
  - f_equal. apply N.eqb_eq. exact H.
Qed.

(* ------------------------------------------------------------------ callers *)
Lemma reader_inv : forall i u, reader i = Some u -> i_origin i = OUser u /\ i_scope i <> ScSync.
Proof.
  intros [o s] u. unfold reader. cbn [i_origin i_scope].
  destruct o as [u'| |r]; destruct s; try discriminate; intros [= ->]; split; try reflexivity; discriminate.
Qed.
Lemma reader_none : forall i, reader i = None -> (forall r, i_origin i <> OInternal r) ->
  i_origin i = OSynch \/ (exists u, i_origin i = OUser u /\ i_scope i = ScSync).
Proof.
  intros [o s] H Hn. unfold reader in H. cbn [i_origin i_scope] in *.
  destruct o as [u| |r]; [right | left; reflexivity | exfalso; apply (Hn r); reflexivity].
  destruct s; try discriminate. exists u. split; reflexivity.
Qed.

(* ------------------------------------------------------------------ the built-in modules *)
Lemma o2_not_final : forall i e,
  is_deny (search_oauth2_filter_entry i e) = false /\ is_grant (search_oauth2_filter_entry i e) = false.
Proof.
  intros i e. unfold search_oauth2_filter_entry. destruct (i_origin i); [|split; reflexivity..].
  destruct (_ =? _); [split; reflexivity|]. destruct (_ && _); split; reflexivity.
Qed.
Lemma app_not_final : forall i e,
  is_deny (search_applications_filter_entry i e) = false /\ is_grant (search_applications_filter_entry i e) = false.
Proof.
  intros i e. unfold search_applications_filter_entry. destruct (i_origin i); [|split; reflexivity..].
  destruct (_ =? _); [split; reflexivity|]. destruct (_ && _); split; reflexivity.
Qed.
Lemma sync_not_final : forall i e,
  is_deny (search_sync_account_filter_entry i e) = false /\ is_grant (search_sync_account_filter_entry i e) = false.
Proof.
  intros i e. unfold search_sync_account_filter_entry. destruct (i_origin i); [|split; reflexivity..].
  destruct (_ && _); [|split; reflexivity]. destruct (memN _ _); [|split; reflexivity].
  destruct (match u_syncparent u with Some _ => _ | None => _ end); split; reflexivity.
Qed.
Lemma nonuser_modules_ignore : forall i e, (forall u, i_origin i <> OUser u) ->
  search_oauth2_filter_entry i e = SIgnore /\ search_applications_filter_entry i e = SIgnore
  /\ search_sync_account_filter_entry i e = SIgnore.
Proof.
  intros i e H. unfold search_oauth2_filter_entry, search_applications_filter_entry, search_sync_account_filter_entry.
  destruct (i_origin i) as [u| |r]; [exfalso; apply (H u); reflexivity | repeat split..].
Qed.

Definition builtin_allow (i : ident) (e : entry) : list N :=
  allow_of (search_oauth2_filter_entry i e) ++ allow_of (search_applications_filter_entry i e)
  ++ allow_of (search_sync_account_filter_entry i e) ++ [].

Lemma apply_shape : forall i rel e,
  apply_search_access i rel e =
  match search_filter_entry i rel e with
  | SDeny => FDeny
  | SGrant => FGrant
  | SIgnore => FAllow (builtin_allow i e)
  | SAllow l => FAllow (l ++ builtin_allow i e)
  end.
Proof.
  intros i rel e. unfold apply_search_access, combine, builtin_allow.
  destruct (o2_not_final i e) as [D1 G1]. destruct (app_not_final i e) as [D2 G2].
  destruct (sync_not_final i e) as [D3 G3].
  cbn [existsb flat_map]. rewrite D1, D2, D3, G1, G2, G3.
  destruct (search_filter_entry i rel e); reflexivity.
Qed.

Lemma o2_char : forall i u e a, i_origin i = OUser u ->
  (In a (allow_of (search_oauth2_filter_entry i e)) <-> rule_oauth2 u e && memN a O2_ATTRS = true).
Proof.
  intros i u e a Ho. unfold search_oauth2_filter_entry, rule_oauth2. rewrite Ho.
  destruct (u_uuid u =? UUID_ANON); cbn [negb andb allow_of In]; [split; [intros [] | discriminate]|].
  destruct (memN C_OAUTH2_RS (e_class e) && existsb (fun k => mo_contains (u_mo u) k) (e_o2 e));
    cbn [andb allow_of]; [symmetry; apply memN_In | split; [intros [] | discriminate]].
Qed.
Lemma app_char : forall i u e a, i_origin i = OUser u ->
  (In a (allow_of (search_applications_filter_entry i e)) <-> rule_application u e && memN a APP_ATTRS = true).
Proof.
  intros i u e a Ho. unfold search_applications_filter_entry, rule_application. rewrite Ho.
  destruct (u_uuid u =? UUID_ANON); cbn [negb andb allow_of In]; [split; [intros [] | discriminate]|].
  destruct (memN C_APPLICATION (e_class e) && match e_linked e with Some g => mo_contains (u_mo u) g | None => false end);
    cbn [andb allow_of]; [symmetry; apply memN_In | split; [intros [] | discriminate]].
Qed.
Lemma sync_char : forall i u e a, i_origin i = OUser u ->
  (In a (allow_of (search_sync_account_filter_entry i e)) <-> rule_sync u e && memN a SYNC_ATTRS = true).
Proof.
  intros i u e a Ho. unfold search_sync_account_filter_entry, rule_sync. rewrite Ho.
  destruct (memN C_SYNC_OBJECT (u_class u) && memN C_ACCOUNT (u_class u)); cbn [andb allow_of In];
    [|split; [intros [] | discriminate]].
  destruct (memN C_SYNC_ACCOUNT (e_class e)); cbn [andb allow_of In]; [|split; [intros [] | discriminate]].
  destruct (match u_syncparent u with Some p => p =? e_id e | None => false end);
    cbn [andb allow_of]; [symmetry; apply memN_In | split; [intros [] | discriminate]].
Qed.
Lemma builtin_char : forall i u e a, i_origin i = OUser u ->
  (In a (builtin_allow i e) <-> builtin_read u e a = true).
Proof.
  intros i u e a Ho. unfold builtin_allow, builtin_read.
  rewrite !in_app_iff, !orb_true_iff, (o2_char i u e a Ho), (app_char i u e a Ho), (sync_char i u e a Ho).
  cbn [In]. tauto.
Qed.

(* ------------------------------------------------------------------ profiles *)
Lemma related_char : forall i acps req r,
  In r (related i acps req) <->
  exists p, In p acps /\ resolve_acp i p = Some r /\
            match req with Some q => inter_nonempty (r_attrs r) q = true | None => True end.
Proof.
  intros i acps req r. unfold related. destruct req as [q|].
  - rewrite filter_In, In_fmap. split.
    + intros [[p [Hp Hr]] Hq]. exists p. repeat split; assumption.
    + intros [p [Hp [Hr Hq]]]. split; [exists p; split; assumption | exact Hq].
  - rewrite In_fmap. split.
    + intros [p [Hp Hr]]. exists p. repeat split; assumption.
    + intros [p [Hp [Hr _]]]. exists p. split; assumption.
Qed.

Lemma resolve_sound : forall i u p r e, i_origin i = OUser u -> resolve_acp i p = Some r ->
  r_attrs r = a_attrs p /\
  (acp_applies u e r = true <-> receiver_ok u e p = true /\ target_ok e p = true).
Proof.
  intros i u p r e Ho. unfold resolve_acp, ident_memberof, acp_applies, receiver_ok, target_ok. rewrite Ho.
  destruct (a_recv p) as [gs| |].
  - destruct (mo_intersects (u_mo u) gs) eqn:Em; [|discriminate].
    destruct (a_target p) as [f|]; [|discriminate]. intros [= <-]. cbn [r_attrs r_cond r_target].
    split; [reflexivity|]. cbn [andb]. tauto.
  - destruct (a_target p) as [f|]; [|discriminate]. intros [= <-]. cbn [r_attrs r_cond r_target].
    split; [reflexivity|]. rewrite andb_true_iff.
    destruct (e_mgr e) as [|m0 ms] eqn:Eg.
    + unfold mo_intersects. destruct (u_mo u); [rewrite inter_nonempty_nil_r|]; cbn; intuition discriminate.
    + tauto.
  - discriminate.
Qed.
Lemma resolve_complete : forall i u p e, i_origin i = OUser u ->
  receiver_ok u e p = true -> target_ok e p = true -> exists r, resolve_acp i p = Some r.
Proof.
  intros i u p e Ho. unfold resolve_acp, ident_memberof, receiver_ok, target_ok. rewrite Ho.
  destruct (a_recv p) as [gs| |]; destruct (a_target p) as [f|]; try discriminate; intros Hr Ht.
  - rewrite Hr. eexists. reflexivity.
  - eexists. reflexivity.
Qed.

Definition user_allow (u : user) (rel : list racp) (e : entry) : list N :=
  flat_map (fun a => if acp_applies u e a then r_attrs a else []) rel.

Lemma user_allow_char : forall i u acps req e a, i_origin i = OUser u ->
  (In a (user_allow u (related i acps req) e) <->
   exists p, In p acps /\ acp_grants u e a p = true /\
             match req with Some q => inter_nonempty (a_attrs p) q = true | None => True end).
Proof.
  intros i u acps req e a Ho. unfold user_allow. rewrite in_flat_map. split.
  - intros [r [Hr Ha]]. apply related_char in Hr as [p [Hp [Hres Hq]]].
    destruct (resolve_sound i u p r e Ho Hres) as [Hat Happ].
    destruct (acp_applies u e r) eqn:Ea; [|destruct Ha].
    exists p. split; [exact Hp|]. split.
    + unfold acp_grants. destruct Happ as [Happ _]. destruct (Happ eq_refl) as [H1 H2].
      rewrite H1, H2. cbn [andb]. apply memN_In. rewrite <- Hat. exact Ha.
    + rewrite <- Hat. exact Hq.
  - intros [p [Hp [Hg Hq]]]. unfold acp_grants in Hg.
    apply andb_true_iff in Hg as [Hg Hm]. apply andb_true_iff in Hg as [H1 H2].
    destruct (resolve_complete i u p e Ho H1 H2) as [r Hres].
    destruct (resolve_sound i u p r e Ho Hres) as [Hat Happ].
    exists r. split.
    + apply related_char. exists p. split; [exact Hp|]. split; [exact Hres|]. rewrite Hat. exact Hq.
    + destruct Happ as [_ Happ]. rewrite (Happ (conj H1 H2)). rewrite Hat. apply memN_In. exact Hm.
Qed.

(* the allow set a reader gets for entry e, under request req *)
Definition allow_set (i : ident) (u : user) (acps : list acp) (req : option (list N)) (e : entry) : list N :=
  user_allow u (related i acps req) e ++ builtin_allow i e.

Lemma apply_reader : forall i u acps req e, reader i = Some u ->
  apply_search_access i (related i acps req) e = FAllow (allow_set i u acps req e).
Proof.
  intros i u acps req e Hr. destruct (reader_inv i u Hr) as [Ho Hs].
  rewrite apply_shape. unfold search_filter_entry. rewrite Ho.
  destruct (i_scope i); [reflexivity | reflexivity | exfalso; apply Hs; reflexivity].
Qed.

Lemma allow_set_sound : forall i u acps req e a, reader i = Some u ->
  In a (allow_set i u acps req e) -> may_read u acps e a = true.
Proof.
  intros i u acps req e a Hr Hin. destruct (reader_inv i u Hr) as [Ho _].
  unfold allow_set in Hin. apply in_app_iff in Hin as [Hin | Hin]; unfold may_read; apply orb_true_iff.
  - left. apply (user_allow_char i u acps req e a Ho) in Hin as [p [Hp [Hg _]]].
    apply existsb_exists. exists p. split; assumption.
  - right. apply (builtin_char i u e a Ho). exact Hin.
Qed.
Lemma allow_set_complete : forall i u acps req e a, reader i = Some u ->
  may_read u acps e a = true -> requested req a = true -> In a (allow_set i u acps req e).
Proof.
  intros i u acps req e a Hr Hm Hq. destruct (reader_inv i u Hr) as [Ho _].
  unfold allow_set. apply in_app_iff. unfold may_read in Hm. apply orb_true_iff in Hm as [Hm | Hm].
  - left. apply (user_allow_char i u acps req e a Ho). apply existsb_exists in Hm as [p [Hp Hg]].
    exists p. split; [exact Hp|]. split; [exact Hg|].
    destruct req as [q|]; [|exact I]. apply inter_nonempty_spec. exists a. split.
    + unfold acp_grants in Hg. apply andb_true_iff in Hg as [_ Hg]. apply memN_In. exact Hg.
    + apply memN_In. exact Hq.
  - right. apply (builtin_char i u e a Ho). exact Hm.
Qed.
Lemma allow_set_none : forall i u acps e a, reader i = Some u ->
  (In a (allow_set i u acps None e) <-> may_read u acps e a = true).
Proof.
  intros i u acps e a Hr. split; [apply allow_set_sound; exact Hr|].
  intros Hm. apply allow_set_complete; [exact Hr | exact Hm | reflexivity].
Qed.

(* ------------------------------------------------------------------ filter_entries / search *)
Lemma entry_allowed_reader : forall i u acps q e, reader i = Some u ->
  (entry_allowed i (related i acps None) q e = true <-> forall a, In a q -> may_read u acps e a = true).
Proof.
  intros i u acps q e Hr. unfold entry_allowed. rewrite (apply_reader i u acps None e Hr).
  rewrite subsetN_spec. split; intros H a Ha.
  - apply (allow_set_none i u acps e a Hr). apply H. exact Ha.
  - apply (allow_set_none i u acps e a Hr). apply H. exact Ha.
Qed.

Lemma filter_entries_In : forall i acps forig es e,
  In e (filter_entries i acps forig es) ->
  In e es /\ entry_allowed i (related i acps None) (fattrs forig) e = true.
Proof.
  intros i acps forig es e. unfold filter_entries. destruct (fattrs forig) as [|a q] eqn:Ef; [intros []|].
  rewrite filter_In. tauto.
Qed.
Lemma filter_entries_In_rev : forall i acps forig es e, fattrs forig <> [] ->
  In e es -> entry_allowed i (related i acps None) (fattrs forig) e = true ->
  In e (filter_entries i acps forig es).
Proof.
  intros i acps forig es e Hne Hin Ha. unfold filter_entries.
  destruct (fattrs forig) as [|a q] eqn:Ef; [exfalso; apply Hne; reflexivity|].
  apply filter_In. split; assumption.
Qed.

Lemma search_In : forall i acps m f es e, In e (search i acps m f es) ->
  In e es /\ ematches e (fst (wrap m f)) = true
  /\ entry_allowed i (related i acps None) (fattrs (snd (wrap m f))) e = true.
Proof.
  intros i acps m f es e H. unfold search in H. apply filter_entries_In in H as [Hin Ha].
  unfold be_search in Hin. apply filter_In in Hin as [Hin Hm]. repeat split; assumption.
Qed.

Lemma search_reader : forall i u acps m f es e, reader i = Some u ->
  In e (search i acps m f es) ->
  In e es /\ ematches e (fst (wrap m f)) = true
  /\ forall a, In a (fattrs (snd (wrap m f))) -> may_read u acps e a = true.
Proof.
  intros i u acps m f es e Hr H. apply search_In in H as [Hin [Hm Ha]].
  repeat split; try assumption. apply (entry_allowed_reader i u acps _ e Hr). exact Ha.
Qed.
Lemma search_reader_rev : forall i u acps m f es e, reader i = Some u ->
  fattrs (snd (wrap m f)) <> [] ->
  In e es -> ematches e (fst (wrap m f)) = true ->
  (forall a, In a (fattrs (snd (wrap m f))) -> may_read u acps e a = true) ->
  In e (search i acps m f es).
Proof.
  intros i u acps m f es e Hr Hne Hin Hm Ha. unfold search. apply filter_entries_In_rev; [exact Hne | |].
  - unfold be_search. apply filter_In. split; assumption.
  - apply (entry_allowed_reader i u acps _ e Hr). exact Ha.
Qed.

(* callers that may not search at all *)
Lemma search_denied : forall i acps m f es, reader i = None -> (forall r, i_origin i <> OInternal r) ->
  search i acps m f es = [].
Proof.
  intros i acps m f es Hr Hn.
  assert (Hd : forall rel q e, entry_allowed i rel q e = false).
  { intros rel q e. unfold entry_allowed. rewrite apply_shape. unfold search_filter_entry.
    destruct (reader_none i Hr Hn) as [Ho | [u [Ho Hs]]]; rewrite Ho; [reflexivity | rewrite Hs; reflexivity]. }
  unfold search, filter_entries. destruct (fattrs (snd (wrap m f))) as [|a0 q0]; [reflexivity|].
  induction (be_search (fst (wrap m f)) es) as [|e l0 IH]; [reflexivity|].
  cbn [filter]. rewrite Hd. exact IH.
Qed.

(* internal roles *)
Lemma search_internal : forall i r acps m f es e, i_origin i = OInternal r ->
  In e (search i acps m f es) -> In e es /\ role_may_see r e = true.
Proof.
  intros i r acps m f es e Ho H. apply search_In in H as [Hin [_ Ha]]. split; [exact Hin|].
  unfold entry_allowed in Ha. rewrite apply_shape in Ha. unfold search_filter_entry in Ha. rewrite Ho in Ha.
  destruct r; cbn [role_may_see].
  - reflexivity.
  - destruct (negb (is_nil (e_class e)) && forallb _ (e_class e)) eqn:E; [|discriminate].
    apply andb_true_iff in E as [_ E]. exact E.
  - destruct (memN C_ACCOUNT (e_class e)); [reflexivity | discriminate].
  - discriminate.
Qed.

(* ------------------------------------------------------------------ hidden entries *)
Lemma ignore_hidden_match : forall e f, wf_entry e = true ->
  ematches e (ignore_hidden f) = true -> is_hidden e = false /\ ematches e f = true.
Proof.
  intros e f Hwf. unfold wf_entry in Hwf. apply andb_true_iff in Hwf as [W1 W2].
  apply eqb_prop in W1. apply eqb_prop in W2.
  unfold ematches, ignore_hidden, leaf_class. cbn [ematch forallb existsb].
  rewrite W1, W2. unfold is_hidden. rewrite !orb_false_r, andb_true_r.
  intros H. apply andb_true_iff in H as [H1 H2]. split; [|exact H2].
  apply negb_true_iff in H1. rewrite orb_comm. exact H1.
Qed.
Lemma recycled_match : forall e f, wf_entry e = true ->
  ematches e (recycled f) = true -> memN C_RECYCLED (e_class e) = true /\ ematches e f = true.
Proof.
  intros e f Hwf. unfold wf_entry in Hwf. apply andb_true_iff in Hwf as [W1 _]. apply eqb_prop in W1.
  unfold ematches, recycled, leaf_class. cbn [ematch forallb]. rewrite W1, andb_true_r.
  intros H. apply andb_true_iff in H. exact H.
Qed.
Lemma mode_ok_of_match : forall m e f, wf_entry e = true ->
  ematches e (fst (wrap m f)) = true -> mode_ok m e = true.
Proof.
  intros [] e f Hwf; cbn [wrap fst mode_ok]; intros H.
  - apply (ignore_hidden_match e f Hwf) in H as [H _]. rewrite H. reflexivity.
  - apply (recycled_match e f Hwf) in H as [H _]. exact H.
  - reflexivity.
Qed.

(* ------------------------------------------------------------------ search_ext *)
Lemma reduce_reader : forall i u acps req e, reader i = Some u ->
  reduce_entry i acps req e =
  Some (e_id e, filter (fun a => requested req a && memN a (allow_set i u acps req e)) (e_attrs e)).
Proof. intros i u acps req e Hr. unfold reduce_entry. rewrite (apply_reader i u acps req e Hr). reflexivity. Qed.

Lemma reduced_attr_char : forall i u acps req e a, reader i = Some u ->
  (In a (filter (fun a => requested req a && memN a (allow_set i u acps req e)) (e_attrs e)) <->
   In a (e_attrs e) /\ requested req a = true /\ may_read u acps e a = true).
Proof.
  intros i u acps req e a Hr. rewrite filter_In, andb_true_iff, memN_In. split.
  - intros [H1 [H2 H3]]. repeat split; try assumption. apply (allow_set_sound i u acps req e a Hr H3).
  - intros [H1 [H2 H3]]. repeat split; try assumption. apply (allow_set_complete i u acps req e a Hr H3 H2).
Qed.

Lemma search_ext_reader : forall i u acps m f req es, reader i = Some u ->
  search_ext i acps m f req es =
  Some (map (fun e => (e_id e, filter (fun a => requested req a && memN a (allow_set i u acps req e)) (e_attrs e)))
            (search i acps m f es)).
Proof.
  intros i u acps m f req es Hr. destruct (reader_inv i u Hr) as [Ho _].
  unfold search_ext. rewrite Ho. f_equal.
  induction (search i acps m f es) as [|e l IH]; [reflexivity|].
  cbn [fmap map]. rewrite (reduce_reader i u acps req e Hr). f_equal. exact IH.
Qed.

(* ------------------------------------------------------------------ may_reveal *)
Lemma may_reveal_of_search : forall i u acps m f es e, reader i = Some u -> wf_entry e = true ->
  In e (search i acps m f es) -> may_reveal u acps m f e = true.
Proof.
  intros i u acps m f es e Hr Hwf H. apply (search_reader i u acps m f es e Hr) in H as [_ [Hm Ha]].
  unfold may_reveal. rewrite (mode_ok_of_match m e f Hwf Hm), Hm. cbn [andb].
  apply forallb_forall. exact Ha.
Qed.

(* ------------------------------------------------------------------ the bridge *)
Lemma in_world_self : forall es e p, In e es -> p e = true -> in_world es (e_id e) p = true.
Proof.
  intros es e p Hin Hp. unfold in_world. apply existsb_exists. exists e. split; [exact Hin|].
  rewrite N.eqb_refl, Hp. reflexivity.
Qed.

Lemma ids_ok_run : forall es acps i m f, (forall e, In e es -> wf_entry e = true) ->
  ids_ok es acps i m f (map e_id (search i acps m f es)) = true.
Proof.
  intros es acps i m f Hwf. unfold ids_ok.
  destruct (i_origin i) as [u| |r] eqn:Ho.
  - destruct (reader i) as [u'|] eqn:Hr.
    + apply forallb_forall. intros id Hid. apply in_map_iff in Hid as [e [<- He]].
      assert (Hin : In e es) by (apply search_In in He; tauto).
      apply in_world_self; [exact Hin|]. apply (may_reveal_of_search i u' acps m f es e Hr (Hwf e Hin) He).
    + rewrite (search_denied i acps m f es Hr); [reflexivity|]. intros r. rewrite Ho. discriminate.
  - assert (Hr : reader i = None) by (unfold reader; rewrite Ho; reflexivity).
    rewrite Hr. rewrite (search_denied i acps m f es Hr); [reflexivity|]. intros r. rewrite Ho. discriminate.
  - apply forallb_forall. intros id Hid. apply in_map_iff in Hid as [e [<- He]].
    apply (search_internal i r acps m f es e Ho) in He as [Hin Hs]. apply in_world_self; assumption.
Qed.

Lemma ext_ok_run : forall es acps i m f req l, (forall e, In e es -> wf_entry e = true) ->
  search_ext i acps m f req es = Some l -> ext_ok es acps i m f req l = true.
Proof.
  intros es acps i m f req l Hwf Hs. unfold ext_ok. destruct (reader i) as [u|] eqn:Hr.
  - rewrite (search_ext_reader i u acps m f req es Hr) in Hs. injection Hs as <-.
    apply forallb_forall. intros r Hin. apply in_map_iff in Hin as [e [<- He]]. cbn [fst snd].
    assert (Hin : In e es) by (apply search_In in He; tauto).
    apply in_world_self; [exact Hin|].
    rewrite (may_reveal_of_search i u acps m f es e Hr (Hwf e Hin) He). cbn [andb].
    apply forallb_forall. intros a Ha. apply (reduced_attr_char i u acps req e a Hr) in Ha as [H1 [H2 H3]].
    rewrite H3, H2. apply memN_In in H1. rewrite H1. reflexivity.
  - unfold search_ext in Hs. destruct (i_origin i) as [u| |r] eqn:Ho; try discriminate.
    injection Hs as <-. rewrite (search_denied i acps m f es Hr); [reflexivity|].
    intros r. rewrite Ho. discriminate.
Qed.

Lemma bool_ok_run : forall es acps i m f, (forall e, In e es -> wf_entry e = true) ->
  bool_ok es acps i m f (exists_ i acps m f es) = true.
Proof.
  intros es acps i m f Hwf. unfold bool_ok, exists_.
  destruct (i_origin i) as [u| |r] eqn:Ho; [| |reflexivity].
  - destruct (reader i) as [u'|] eqn:Hr.
    + change (filter_entries i acps (snd (wrap m f)) (be_search (fst (wrap m f)) es)) with (search i acps m f es).
      destruct (is_nil (search i acps m f es)) eqn:En; [reflexivity|]. cbn [negb implb].
      apply is_nil_false in En as [e He]. apply existsb_exists. exists e.
      assert (Hin : In e es) by (apply search_In in He; tauto). split; [exact Hin|].
      apply (may_reveal_of_search i u' acps m f es e Hr (Hwf e Hin) He).
    + change (filter_entries i acps (snd (wrap m f)) (be_search (fst (wrap m f)) es)) with (search i acps m f es).
      rewrite (search_denied i acps m f es Hr); [reflexivity|]. intros r. rewrite Ho. discriminate.
  - assert (Hr : reader i = None) by (unfold reader; rewrite Ho; reflexivity). rewrite Hr.
    change (filter_entries i acps (snd (wrap m f)) (be_search (fst (wrap m f)) es)) with (search i acps m f es).
    rewrite (search_denied i acps m f es Hr); [reflexivity|]. intros r. rewrite Ho. discriminate.
Qed.
Lemma bool_ok_true_of_exists : forall es acps i m f, (forall e, In e es -> wf_entry e = true) ->
  exists_ i acps m f es = true -> bool_ok es acps i m f true = true.
Proof. intros es acps i m f Hwf H. pose proof (bool_ok_run es acps i m f Hwf) as P. rewrite H in P. exact P. Qed.

Lemma pcheck_q_run : forall es acps i k f, (forall e, In e es -> wf_entry e = true) ->
  pcheck_q es acps i (mkQ k f (run es acps i k f)) = true.
Proof.
  intros es acps i k f Hwf. unfold pcheck_q. cbn [q_kind q_f q_out]. destruct k as [m|m req|m outside|ext req|ava]; cbn [run].
  - apply ids_ok_run. exact Hwf.
  - destruct (search_ext i acps m f req es) as [l|] eqn:E; [|reflexivity]. apply (ext_ok_run es acps i m f req l Hwf E).
  - destruct outside; [reflexivity|]. rewrite orb_false_r. cbn [orb]. apply bool_ok_run. exact Hwf.
  - unfold ldap_search. destruct (search_ext i acps MHidden (ldap_search_filter f ext) req es) as [l|] eqn:E; [|reflexivity].
    apply (ext_ok_run es acps i MHidden _ req l Hwf E).
  - unfold ldap_compare.
    destruct (exists_ i acps MHidden (FAnd [f; ava; ldap_excl] None) es) eqn:E1.
    + cbn. apply bool_ok_true_of_exists; assumption.
    + destruct (exists_ i acps MHidden (FAnd [f; ldap_excl] None) es) eqn:E2.
      * cbn. apply bool_ok_true_of_exists; assumption.
      * reflexivity.
Qed.

Lemma agree_pcheck : forall c, agree c = true -> pcheck c = true.
Proof.
  intros [es acps i qs]. cbn [agree pcheck]. intros H. apply andb_true_iff in H as [Hwf Hq].
  assert (Hwf' : forall e, In e es -> wf_entry e = true) by (apply forallb_forall; exact Hwf).
  apply forallb_forall. intros [k f o] Hin.
  assert (Ho := proj1 (forallb_forall _ _) Hq _ Hin). cbn [q_kind q_f q_out] in Ho.
  apply outcome_eqb_eq in Ho. rewrite <- Ho. apply pcheck_q_run. exact Hwf'.
Qed.

(* ================================================================== refinement to the declarative rules *)
Lemma bool_iff_eq : forall a b : bool, (a = true <-> b = true) -> a = b.
Proof. intros [] [] [H1 H2]; try reflexivity; [symmetry; apply H1; reflexivity | apply H2; reflexivity]. Qed.
Lemma filter_filter : forall {A} (p q : A -> bool) l,
  filter p (filter q l) = filter (fun x => q x && p x) l.
Proof.
  intros A p q l. induction l as [|x l IH]; [reflexivity|]. cbn [filter].
  destruct (q x); cbn [andb filter]; [destruct (p x); rewrite IH; reflexivity | exact IH].
Qed.
Lemma filter_false : forall {A} (l : list A), filter (fun _ => false) l = [].
Proof. induction l as [|x l IH]; [reflexivity | exact IH]. Qed.
Lemma filter_pointwise : forall {A} (p q : A -> bool) l, (forall x, p x = q x) -> filter p l = filter q l.
Proof.
  intros A p q l H. induction l as [|x l IH]; [reflexivity|]. cbn [filter]. rewrite H, IH. reflexivity.
Qed.

(* what a reader is shown, stated from the grant rules only *)
Definition spec_reveals (u : user) (acps : list acp) (m : mode) (f : filt) (e : entry) : bool :=
  negb (is_nil (fattrs (snd (wrap m f))))
  && ematches e (fst (wrap m f))
  && forallb (may_read u acps e) (fattrs (snd (wrap m f))).
Definition spec_release (u : user) (acps : list acp) (req : option (list N)) (e : entry) : N * list N :=
  (e_id e, filter (fun a => requested req a && may_read u acps e a) (e_attrs e)).

Lemma entry_allowed_spec : forall i u acps q e, reader i = Some u ->
  entry_allowed i (related i acps None) q e = forallb (may_read u acps e) q.
Proof.
  intros i u acps q e Hr. apply bool_iff_eq. rewrite (entry_allowed_reader i u acps q e Hr), forallb_forall. tauto.
Qed.

Lemma search_spec : forall i u acps m f es, reader i = Some u ->
  search i acps m f es = filter (spec_reveals u acps m f) es.
Proof.
  intros i u acps m f es Hr. unfold search, filter_entries, spec_reveals, be_search.
  destruct (fattrs (snd (wrap m f))) as [|a q] eqn:Ef.
  - cbn [is_nil negb andb]. rewrite filter_false. reflexivity.
  - rewrite filter_filter. apply filter_pointwise. intros e. cbn [is_nil negb andb].
    rewrite (entry_allowed_spec i u acps (a :: q) e Hr). reflexivity.
Qed.

Lemma release_spec : forall i u acps req e, reader i = Some u ->
  filter (fun a => requested req a && memN a (allow_set i u acps req e)) (e_attrs e)
  = filter (fun a => requested req a && may_read u acps e a) (e_attrs e).
Proof.
  intros i u acps req e Hr. apply filter_pointwise. intros a.
  destruct (requested req a) eqn:Eq; cbn [andb]; [|reflexivity].
  apply bool_iff_eq. rewrite memN_In. split.
  - apply allow_set_sound. exact Hr.
  - intros Hm. apply allow_set_complete; assumption.
Qed.

Lemma search_ext_spec : forall i u acps m f req es, reader i = Some u ->
  search_ext i acps m f req es
  = Some (map (spec_release u acps req) (filter (spec_reveals u acps m f) es)).
Proof.
  intros i u acps m f req es Hr. rewrite (search_ext_reader i u acps m f req es Hr).
  rewrite (search_spec i u acps m f es Hr). f_equal. apply map_ext. intros e.
  unfold spec_release. rewrite (release_spec i u acps req e Hr). reflexivity.
Qed.

Lemma exists_spec : forall i u acps m f es, reader i = Some u ->
  exists_ i acps m f es = existsb (spec_reveals u acps m f) es.
Proof.
  intros i u acps m f es Hr. destruct (reader_inv i u Hr) as [Ho _]. unfold exists_. rewrite Ho.
  change (filter_entries i acps (snd (wrap m f)) (be_search (fst (wrap m f)) es)) with (search i acps m f es).
  rewrite (search_spec i u acps m f es Hr). apply bool_iff_eq. rewrite negb_true_iff, is_nil_false, existsb_exists.
  split; intros [e H]; exists e; [apply filter_In in H | apply filter_In]; exact H.
Qed.

Lemma search_ext_nonuser : forall i acps m f req es, (forall u, i_origin i <> OUser u) ->
  search_ext i acps m f req es = None.
Proof.
  intros i acps m f req es H. unfold search_ext. destruct (i_origin i) as [u| |r]; [exfalso; apply (H u); reflexivity | reflexivity..].
Qed.

Lemma search_hidden : forall i acps f es e, wf_entry e = true ->
  In e (search i acps MHidden f es) -> is_hidden e = false.
Proof.
  intros i acps f es e Hwf H. apply search_In in H as [_ [Hm _]]. cbn [wrap fst] in Hm.
  apply (ignore_hidden_match e f Hwf) in Hm as [Hh _]. exact Hh.
Qed.
Lemma search_recycle : forall i acps f es e, wf_entry e = true ->
  In e (search i acps MRecycle f es) -> memN C_RECYCLED (e_class e) = true.
Proof.
  intros i acps f es e Hwf H. apply search_In in H as [_ [Hm _]]. cbn [wrap fst] in Hm.
  apply (recycled_match e f Hwf) in Hm as [Hh _]. exact Hh.
Qed.

(* fattrs of the LDAP wrappers always name `class` *)
Lemma ldap_filter_names_class : forall f ext, In A_CLASS (fattrs (ldap_search_filter f ext)).
Proof.
  intros f ext. unfold ldap_search_filter. destruct ext as [x|]; cbn [fattrs flat_map ldap_excl leaf_class];
    rewrite ?in_app_iff; cbn [In]; tauto.
Qed.
Lemma ematch_and_in : forall e l s g, ematches e (FAnd l s) = true -> In g l -> ematches e g = true.
Proof.
  intros e l s g H Hin. unfold ematches in *. cbn [ematch] in H.
  apply (proj1 (forallb_forall _ _) H g Hin).
Qed.

Lemma search_ext_elem : forall i u acps m f req es l id attrs,
  reader i = Some u -> search_ext i acps m f req es = Some l -> In (id, attrs) l ->
  exists e, In e es /\ e_id e = id /\ spec_reveals u acps m f e = true
            /\ attrs = filter (fun a => requested req a && may_read u acps e a) (e_attrs e).
Proof.
  intros i u acps m f req es l id attrs Hr Hs Hin.
  rewrite (search_ext_spec i u acps m f req es Hr) in Hs. injection Hs as <-.
  apply in_map_iff in Hin as [e [He Hin]]. unfold spec_release in He. injection He as <- <-.
  apply filter_In in Hin as [Hin Hs]. exists e. repeat split; assumption.
Qed.
Lemma spec_reveals_inv : forall u acps m f e, spec_reveals u acps m f e = true ->
  ematches e (fst (wrap m f)) = true
  /\ forall a, In a (fattrs (snd (wrap m f))) -> may_read u acps e a = true.
Proof.
  intros u acps m f e Hs. unfold spec_reveals in Hs.
  apply andb_true_iff in Hs as [Hs H3]. apply andb_true_iff in Hs as [_ H2].
  split; [exact H2 | apply forallb_forall; exact H3].
Qed.
Lemma ldap_filter_match : forall e f ext, ematches e (ldap_search_filter f ext) = true -> ematches e f = true.
Proof.
  intros e f ext H. unfold ldap_search_filter in H.
  destruct ext as [x|]; apply (ematch_and_in e _ None f H); left; reflexivity.
Qed.
Lemma ldap_filter_attrs : forall f ext a, In a (fattrs f) -> In a (fattrs (ldap_search_filter f ext)).
Proof.
  intros f ext a H. unfold ldap_search_filter. destruct ext; cbn [fattrs flat_map]; apply in_app_iff; left; exact H.
Qed.
