(* KV.C23.Witness — non-vacuity: concrete non-trivial values meet the hypotheses of the
   implication theorems, and the model really withholds things. *)
From Coq Require Import List NArith Bool.
Import ListNotations.
Require Import KV.Base.Filter KV.C23.Model KV.C23.Proofs.
Open Scope N_scope.

(* leaves: class=person(7), class=group(9), class=recycled(24), name=alice (value 100), displayname=x (101) *)
Definition L_person : leaf := (KEq, A_CLASS, 7).
Definition L_group : leaf := (KEq, A_CLASS, 9).
Definition L_rec : leaf := (KEq, A_CLASS, C_RECYCLED).
Definition L_alice : leaf := (KEq, A_NAME, 100).
Definition L_dn : leaf := (KEq, A_DISPLAYNAME, 101).
(* alice (uuid 1): live person; bob (uuid 2): recycled person; grp (uuid 3): group managed by alice *)
Definition alice := mkE 1 [0; 6; 7] [0; 1; 2; 3] [] [] None [L_person; L_alice; L_dn].
Definition bob := mkE 2 [0; 6; 7; 24] [0; 1; 2; 3] [] [] None [L_person; L_rec; L_dn].
Definition grp := mkE 3 [0; 9] [0; 1; 2; 50] [1] [] None [L_group].
Definition world := [alice; bob; grp].
(* profile 1: members of group 10 may read class and name of persons;
   profile 2: the entry manager may read class, name and attribute 50 of groups;
   profile 3: no receiver (does nothing) *)
Definition acps :=
  [mkA (RGroup [10]) (Some (FLeaf KEq A_CLASS 7 None)) [A_CLASS; A_NAME];
   mkA RMgr (Some (FLeaf KEq A_CLASS 9 None)) [A_CLASS; A_NAME; 50];
   mkA RNone (Some (FLeaf KEq A_CLASS 7 None)) [A_DISPLAYNAME]].
Definition u_alice := mkU 1 (Some [10]) [0; 6; 7] None.
Definition i_alice := mkI (OUser u_alice) ScRO.
Definition f_person := FLeaf KEq A_CLASS 7 None.
Definition f_dn := FLeaf KEq A_DISPLAYNAME 101 None.

(* hypotheses of every `reader` theorem and of the wf premises *)
Example C23_witness_reader : reader i_alice = Some u_alice /\ forallb wf_entry world = true.
Proof. vm_compute. split; reflexivity. Qed.

(* C23_attrs_sound / _complete / _entry_needs_filter_attrs: a search that releases a strict
   subset of an entry's attributes, hides the recycled entry, and shows nothing for a filter
   on an unreadable attribute although entries match it *)
Example C23_witness_search_ext :
  search_ext i_alice acps MHidden f_person None world = Some [(1, [A_CLASS; A_NAME])]
  /\ search_ext i_alice acps MHidden f_dn None world = Some []
  /\ be_search (ignore_hidden f_dn) world = [alice]
  /\ search_ext i_alice acps MRecycle f_person None world = Some [(2, [A_CLASS; A_NAME])]
  /\ search_ext i_alice acps MHidden (FLeaf KEq A_CLASS 9 None) (Some [A_NAME; 50; A_UUID]) world
     = Some [(3, [A_NAME; 50])].
Proof. vm_compute. repeat split; reflexivity. Qed.
Example C23_witness_may_read :
  may_read u_alice acps alice A_NAME = true /\ may_read u_alice acps alice A_DISPLAYNAME = false
  /\ may_read u_alice acps grp 50 = true /\ may_read u_alice acps bob A_NAME = true.
Proof. vm_compute. repeat split; reflexivity. Qed.
(* C23_exists_sound / C23_search_complete *)
Example C23_witness_exists :
  exists_ i_alice acps MHidden f_person world = true /\ exists_ i_alice acps MHidden f_dn world = false
  /\ fattrs (snd (wrap MHidden f_person)) <> [].
Proof. vm_compute. repeat split; try reflexivity. discriminate. Qed.
(* C23_denied_callers, C23_external_interface_users_only, C23_internal_roles *)
Example C23_witness_callers :
  reader (mkI (OUser u_alice) ScSync) = None /\ reader (mkI OSynch ScSync) = None
  /\ search (mkI (OInternal RSystem) ScRW) acps MRaw f_person world = [alice; bob]
  /\ search (mkI (OInternal RAccountRequest) ScRO) acps MRaw (FLeaf KPres A_CLASS 0 None) world = []
  /\ search (mkI (OInternal RMessageQueue) ScRW) acps MRaw f_person world = [].
Proof. vm_compute. repeat split; reflexivity. Qed.
(* built-in rule: an OAuth2 client is visible to members of a group in its scope map, not to anonymous *)
Definition o2 := mkE 4 [0; 3; 6] [0; 1; 2; 3; 4; 60] [] [10] None [(KEq, A_CLASS, C_OAUTH2_RS)].
Example C23_witness_oauth2 :
  search_ext i_alice [] MHidden (leaf_class C_OAUTH2_RS) None [o2] = Some [(4, [0; 1; 2; 3; 4])]
  /\ search_ext (mkI (OUser (mkU UUID_ANON (Some [10]) [0; 6] None)) ScRO) [] MHidden (leaf_class C_OAUTH2_RS) None [o2]
     = Some [].
Proof. vm_compute. split; reflexivity. Qed.
(* C23_ldap_search_sound / C23_ldap_compare_sound: all three compare answers occur *)
Example C23_witness_ldap :
  ldap_search i_alice acps f_person None (Some [A_NAME]) world = Some [(1, [A_NAME])]
  /\ ldap_compare i_alice acps (FLeaf KEq A_NAME 100 None) f_person world = 0
  /\ ldap_compare i_alice acps (FLeaf KEq A_NAME 100 None) (FLeaf KEq A_CLASS 9 None) world = 1
  (* alice HAS this display name, but may not read the attribute: the answer is compareFalse *)
  /\ ldap_compare i_alice acps (FLeaf KEq A_NAME 100 None) f_dn world = 1
  /\ ldap_compare i_alice acps (FLeaf KEq A_NAME 200 None) f_person world = 2.
Proof. vm_compute. repeat split; reflexivity. Qed.
(* C23_agree_implies_property: a case with all five query kinds on which agree holds, and a
   forged answer (bob's display name released) that pcheck rejects *)
Definition good_case := CWorld world acps i_alice
  [mkQ (QSearch MHidden) f_person (OIds [1]);
   mkQ (QSearchExt MHidden None) f_person (OExt [(1, [A_CLASS; A_NAME])]);
   mkQ (QExists MHidden false) f_dn (OBool false);
   mkQ (QLdapSearch None (Some [A_NAME])) f_person (OExt [(1, [A_NAME])]);
   mkQ (QLdapCompare f_person) (FLeaf KEq A_NAME 100 None) (OCode 0)].
Definition forged_case := CWorld world acps i_alice
  [mkQ (QSearchExt MHidden None) f_person (OExt [(1, [A_CLASS; A_NAME; A_DISPLAYNAME])])].
Definition forged_hidden := CWorld world acps i_alice [mkQ (QSearch MHidden) f_person (OIds [1; 2])].
Example C23_witness_agree :
  agree good_case = true /\ pcheck good_case = true
  /\ pcheck forged_case = false /\ pcheck forged_hidden = false.
Proof. vm_compute. repeat split; reflexivity. Qed.
