(* KV.C23.Model — what a search, an existence check, an LDAP search and an LDAP compare disclose
   (executable definitions only). Transcribes

     resolve_access_conditions / search_related_acp      server/lib/src/server/access/mod.rs:168,223
     filter_entries                                      server/lib/src/server/access/mod.rs:310
     search_filter_entry_attributes                      server/lib/src/server/access/mod.rs:380
     apply_search_access, search_filter_entry,
       search_oauth2_filter_entry,
       search_applications_filter_entry,
       search_sync_account_filter_entry                  server/lib/src/server/access/search.rs
     QueryServerTransaction::search / search_ext / exists server/lib/src/server/mod.rs:334,356,413
     Filter::into_ignore_hidden / into_recycled,
       FilterComp::get_attr_set                          server/lib/src/filter.rs:601,614,623,847
     Entry::reduce_attributes                            server/lib/src/entry.rs:1938
     LdapServer::do_search / do_compare (filter wrapping) server/lib/src/idm/ldap.rs:170,493

   Universe. Attributes, classes, uuids and filter values are interned small numbers (the
   harness fixes the ids of the well-known ones, see the constants below). What a filter LEAF
   means for an entry is data of the case: every entry carries the list [e_true] of the leaves
   that are true of it, observed from the real `entry_match_no_index` (so the model is
   independent of value syntaxes and matching rules; KV.Base.Filter.ematch gives the tree
   semantics). The backend search is modelled as "exactly the entries matching the resolved
   filter" (that is property C01); resolution replaces SelfUuid by Eq(uuid, caller), which the
   harness does when it prints a filter, for the caller of that case.
   Access control profiles are given as the server LOADED them (dump of AccessControls), with
   the target filter resolved for the caller (None = no target, or it does not resolve). *)
From Coq Require Import List NArith Bool.
Import ListNotations.
Require Import KV.Base.Filter.
Open Scope N_scope.

(* ------------------------------------------------------------------ fixed ids *)
(* attributes *)
Definition A_CLASS := 0.
Definition A_UUID := 1.
Definition A_NAME := 2.
Definition A_DISPLAYNAME := 3.
Definition A_O2_LANDING := 4.        (* oauth2_rs_origin_landing *)
Definition A_IMAGE := 5.
Definition A_LINKED_GROUP := 6.
Definition A_SYNC_PORTAL := 7.       (* sync_credential_portal *)
(* classes; ids 0..13 = MIGRATION_ENTRY_CLASSES, 14..20 = MIGRATION_IGNORE_CLASSES (access/migration.rs) *)
Definition C_OAUTH2_RS := 3.
Definition C_ACCOUNT := 6.
Definition C_APPLICATION := 21.
Definition C_SYNC_ACCOUNT := 22.
Definition C_SYNC_OBJECT := 23.
Definition C_RECYCLED := 24.
Definition C_TOMBSTONE := 25.
Definition C_CLASSTYPE := 26.
Definition C_ATTRIBUTETYPE := 27.
Definition C_ACP := 28.              (* access_control_profile *)
Definition migr_entry_class (c : N) : bool := c <=? 13.
Definition migr_ignore_class (c : N) : bool := (14 <=? c) && (c <=? 20).
(* uuids *)
Definition UUID_ANON := 0.

(* ------------------------------------------------------------------ finite sets as lists *)
Definition memN (a : N) (l : list N) : bool := existsb (N.eqb a) l.
Definition inter_nonempty (a b : list N) : bool := existsb (fun x => memN x b) a.
Definition subsetN (a b : list N) : bool := forallb (fun x => memN x b) a.
Fixpoint fmap {A B} (f : A -> option B) (l : list A) : list B :=
  match l with
  | [] => []
  | x :: r => match f x with Some y => y :: fmap f r | None => fmap f r end
  end.
Definition is_nil {A} (l : list A) : bool := match l with [] => true | _ => false end.

(* ------------------------------------------------------------------ entries, leaves *)
Definition leaf := (leafkind * N * N)%type.
Definition leaf_eqb (x y : leaf) : bool :=
  match x, y with (k, a, v), (k', a', v') => leafkind_eqb k k' && (a =? a') && (v =? v') end.

Record entry := mkE {
  e_id : N;                 (* uuid *)
  e_class : list N;         (* values of `class` *)
  e_attrs : list N;         (* attributes present on the entry (ascending) *)
  e_mgr : list N;           (* entry_managed_by; [] = attribute absent *)
  e_o2 : list N;            (* group keys of oauth2_rs_scope_map; [] = absent *)
  e_linked : option N;      (* linked_group *)
  e_true : list leaf }.     (* the leaves that are true of this entry *)

Definition sem (e : entry) : leafsem := fun k a v => existsb (leaf_eqb (k, a, v)) (e_true e).
Definition ematches (e : entry) (f : filt) : bool := ematch (sem e) f.

(* FilterComp::get_attr_set (SelfUuid is printed as Eq(uuid, caller): attribute uuid) *)
Fixpoint fattrs (f : filt) : list N :=
  match f with
  | FLeaf _ a _ _ => [a]
  | FOr l _ => flat_map fattrs l
  | FAnd l _ => flat_map fattrs l
  | FInvalid a => [a]
  | FInclusion l _ => flat_map fattrs l
  | FAndNot g _ => fattrs g
  end.

(* ------------------------------------------------------------------ identities *)
Inductive role := RSystem | RMigration | RAccountRequest | RMessageQueue.
Inductive scope := ScRO | ScRW | ScSync.
Record user := mkU {
  u_uuid : N;
  u_mo : option (list N);       (* memberof of the identity's entry; None = attribute absent *)
  u_class : list N;
  u_syncparent : option N }.    (* sync_parent_uuid *)
Inductive origin := OUser (u : user) | OSynch | OInternal (r : role).
Record ident := mkI { i_origin : origin; i_scope : scope }.

Definition ident_memberof (i : ident) : option (list N) :=
  match i_origin i with OUser u => u_mo u | _ => None end.
Definition mo_intersects (mo : option (list N)) (gs : list N) : bool :=
  match mo with Some m => inter_nonempty m gs | None => false end.
Definition mo_contains (mo : option (list N)) (g : N) : bool :=
  match mo with Some m => memN g m | None => false end.

(* ------------------------------------------------------------------ access control profiles *)
Inductive receiver := RGroup (gs : list N) | RMgr | RNone.
Record acp := mkA { a_recv : receiver; a_target : option filt; a_attrs : list N }.

Inductive rcond := GroupChecked | EntryManager.
Record racp := mkR { r_cond : rcond; r_target : filt; r_attrs : list N }.

(* resolve_access_conditions *)
Definition resolve_acp (i : ident) (a : acp) : option racp :=
  match a_recv a with
  | RGroup gs =>
      if mo_intersects (ident_memberof i) gs then
        match a_target a with Some f => Some (mkR GroupChecked f (a_attrs a)) | None => None end
      else None
  | RMgr => match a_target a with Some f => Some (mkR EntryManager f (a_attrs a)) | None => None end
  | RNone => None
  end.

(* search_related_acp: resolve, then trim the profiles that share no attribute with the request *)
Definition related (i : ident) (acps : list acp) (req : option (list N)) : list racp :=
  let rel := fmap (resolve_acp i) acps in
  match req with
  | Some r => filter (fun a => inter_nonempty (r_attrs a) r) rel
  | None => rel
  end.

(* ------------------------------------------------------------------ the four access modules *)
Inductive sres := SDeny | SGrant | SIgnore | SAllow (attrs : list N).

(* the closure of search_filter_entry's filter_map: does this resolved profile apply to e? *)
Definition acp_applies (u : user) (e : entry) (a : racp) : bool :=
  (match r_cond a with
   | GroupChecked => true
   | EntryManager =>
       match e_mgr e with
       | [] => false
       | m => mo_intersects (u_mo u) m || memN (u_uuid u) m
       end
   end) && ematches e (r_target a).

Definition search_filter_entry (i : ident) (rel : list racp) (e : entry) : sres :=
  match i_origin i with
  | OInternal RSystem => SGrant
  | OInternal RAccountRequest => if memN C_ACCOUNT (e_class e) then SGrant else SDeny
  | OInternal RMigration =>
      if negb (is_nil (e_class e))
         && forallb (fun c => migr_ignore_class c || migr_entry_class c) (e_class e)
      then SGrant else SDeny
  | OInternal RMessageQueue => SDeny
  | OSynch => SDeny
  | OUser u =>
      match i_scope i with
      | ScSync => SDeny
      | _ => SAllow (flat_map (fun a => if acp_applies u e a then r_attrs a else []) rel)
      end
  end.

Definition O2_ATTRS := [A_CLASS; A_DISPLAYNAME; A_UUID; A_NAME; A_O2_LANDING; A_IMAGE].
Definition APP_ATTRS := [A_CLASS; A_DISPLAYNAME; A_UUID; A_NAME; A_LINKED_GROUP].
Definition SYNC_ATTRS := [A_CLASS; A_UUID; A_SYNC_PORTAL].

Definition search_oauth2_filter_entry (i : ident) (e : entry) : sres :=
  match i_origin i with
  | OUser u =>
      if u_uuid u =? UUID_ANON then SIgnore
      else if memN C_OAUTH2_RS (e_class e)
              && existsb (fun k => mo_contains (u_mo u) k) (e_o2 e)
           then SAllow O2_ATTRS else SIgnore
  | _ => SIgnore
  end.

Definition search_applications_filter_entry (i : ident) (e : entry) : sres :=
  match i_origin i with
  | OUser u =>
      if u_uuid u =? UUID_ANON then SIgnore
      else if memN C_APPLICATION (e_class e)
              && (match e_linked e with Some g => mo_contains (u_mo u) g | None => false end)
           then SAllow APP_ATTRS else SIgnore
  | _ => SIgnore
  end.

Definition search_sync_account_filter_entry (i : ident) (e : entry) : sres :=
  match i_origin i with
  | OUser u =>
      if memN C_SYNC_OBJECT (u_class u) && memN C_ACCOUNT (u_class u) then
        if memN C_SYNC_ACCOUNT (e_class e) then
          if (match u_syncparent u with Some p => p =? e_id e | None => false end)
          then SAllow SYNC_ATTRS else SIgnore
        else SIgnore
      else SIgnore
  | _ => SIgnore
  end.

(* apply_search_access: deny > grant > union of the allows *)
Inductive fres := FDeny | FGrant | FAllow (attrs : list N).
Definition is_deny (r : sres) : bool := match r with SDeny => true | _ => false end.
Definition is_grant (r : sres) : bool := match r with SGrant => true | _ => false end.
Definition allow_of (r : sres) : list N := match r with SAllow l => l | _ => [] end.
Definition combine (rs : list sres) : fres :=
  if existsb is_deny rs then FDeny
  else if existsb is_grant rs then FGrant
  else FAllow (flat_map allow_of rs).
Definition apply_search_access (i : ident) (rel : list racp) (e : entry) : fres :=
  combine [search_filter_entry i rel e; search_oauth2_filter_entry i e;
           search_applications_filter_entry i e; search_sync_account_filter_entry i e].

(* ------------------------------------------------------------------ filter_entries *)
Definition entry_allowed (i : ident) (rel : list racp) (req : list N) (e : entry) : bool :=
  match apply_search_access i rel e with
  | FDeny => false
  | FGrant => true
  | FAllow al => subsetN req al
  end.
Definition filter_entries (i : ident) (acps : list acp) (forig : filt) (es : list entry) : list entry :=
  match fattrs forig with
  | [] => []
  | req => filter (entry_allowed i (related i acps None) req) es
  end.

(* ------------------------------------------------------------------ the event wrappers *)
Inductive mode :=
| MHidden      (* filter = into_ignore_hidden(filter_orig): from_message, from_internal_message, LDAP *)
| MRecycle     (* filter = filter_orig = into_recycled(f): from_internal_recycle_message *)
| MRaw.        (* filter = filter_orig = f (impersonation with an unwrapped filter) *)
Definition leaf_class (c : N) : filt := FLeaf KEq A_CLASS c None.
Definition ignore_hidden (f : filt) : filt :=
  FAnd [FAndNot (FOr [leaf_class C_TOMBSTONE; leaf_class C_RECYCLED] None) None; f] None.
Definition recycled (f : filt) : filt := FAnd [leaf_class C_RECYCLED; f] None.
(* (filter, filter_orig) *)
Definition wrap (m : mode) (f : filt) : filt * filt :=
  match m with
  | MHidden => (ignore_hidden f, f)
  | MRecycle => (recycled f, recycled f)
  | MRaw => (f, f)
  end.

(* ------------------------------------------------------------------ search / search_ext / exists *)
Definition be_search (f : filt) (es : list entry) : list entry := filter (fun e => ematches e f) es.

Definition search (i : ident) (acps : list acp) (m : mode) (f : filt) (es : list entry) : list entry :=
  filter_entries i acps (snd (wrap m f)) (be_search (fst (wrap m f)) es).

(* one entry of search_filter_entry_attributes *)
Definition requested (req : option (list N)) (a : N) : bool :=
  match req with Some r => memN a r | None => true end.
Definition reduce_entry (i : ident) (acps : list acp) (req : option (list N)) (e : entry)
  : option (N * list N) :=
  match apply_search_access i (related i acps req) e with
  | FAllow al => Some (e_id e, filter (fun a => requested req a && memN a al) (e_attrs e))
  | _ => None
  end.
(* None = Err(InvalidState): internal and sync identities may not use the external interface *)
Definition search_ext (i : ident) (acps : list acp) (m : mode) (f : filt) (req : option (list N))
  (es : list entry) : option (list (N * list N)) :=
  match i_origin i with
  | OUser _ => Some (fmap (reduce_entry i acps req) (search i acps m f es))
  | _ => None
  end.

Definition exists_ (i : ident) (acps : list acp) (m : mode) (f : filt) (es : list entry) : bool :=
  match i_origin i with
  | OInternal _ => existsb (fun e => ematches e (fst (wrap m f))) es
  | _ => negb (is_nil (filter_entries i acps (snd (wrap m f)) (be_search (fst (wrap m f)) es)))
  end.

(* ------------------------------------------------------------------ LDAP *)
Definition ldap_excl : filt :=
  FAndNot (FOr [leaf_class C_CLASSTYPE; leaf_class C_ATTRIBUTETYPE; leaf_class C_ACP] None) None.
(* do_search: And[client filter; (rdn of the base); exclusion] *)
Definition ldap_search_filter (f : filt) (ext : option filt) : filt :=
  match ext with
  | Some x => FAnd [f; x; ldap_excl] None
  | None => FAnd [f; ldap_excl] None
  end.
Definition ldap_search (i : ident) (acps : list acp) (f : filt) (ext : option filt)
  (req : option (list N)) (es : list entry) : option (list (N * list N)) :=
  search_ext i acps MHidden (ldap_search_filter f ext) req es.
(* do_compare: 0 = compareTrue, 1 = compareFalse, 2 = noSuchObject *)
Definition ldap_compare (i : ident) (acps : list acp) (dn ava : filt) (es : list entry) : N :=
  if exists_ i acps MHidden (FAnd [dn; ava; ldap_excl] None) es then 0
  else if exists_ i acps MHidden (FAnd [dn; ldap_excl] None) es then 1
  else 2.

(* ================================================================== declarative specification *)
(* The grant rules, stated per (caller, entry, attribute) without the pipeline of the code. *)
Definition receiver_ok (u : user) (e : entry) (a : acp) : bool :=
  match a_recv a with
  | RGroup gs => mo_intersects (u_mo u) gs
  | RMgr => mo_intersects (u_mo u) (e_mgr e) || memN (u_uuid u) (e_mgr e)
  | RNone => false
  end.
Definition target_ok (e : entry) (a : acp) : bool :=
  match a_target a with Some f => ematches e f | None => false end.
Definition acp_grants (u : user) (e : entry) (at_ : N) (a : acp) : bool :=
  receiver_ok u e a && target_ok e a && memN at_ (a_attrs a).

Definition rule_oauth2 (u : user) (e : entry) : bool :=
  negb (u_uuid u =? UUID_ANON) && memN C_OAUTH2_RS (e_class e)
  && existsb (fun k => mo_contains (u_mo u) k) (e_o2 e).
Definition rule_application (u : user) (e : entry) : bool :=
  negb (u_uuid u =? UUID_ANON) && memN C_APPLICATION (e_class e)
  && match e_linked e with Some g => mo_contains (u_mo u) g | None => false end.
Definition rule_sync (u : user) (e : entry) : bool :=
  memN C_SYNC_OBJECT (u_class u) && memN C_ACCOUNT (u_class u) && memN C_SYNC_ACCOUNT (e_class e)
  && match u_syncparent u with Some p => p =? e_id e | None => false end.
Definition builtin_read (u : user) (e : entry) (at_ : N) : bool :=
  (rule_oauth2 u e && memN at_ O2_ATTRS)
  || (rule_application u e && memN at_ APP_ATTRS)
  || (rule_sync u e && memN at_ SYNC_ATTRS).

Definition may_read (u : user) (acps : list acp) (e : entry) (at_ : N) : bool :=
  existsb (acp_grants u e at_) acps || builtin_read u e at_.

(* hidden entries *)
Definition is_hidden (e : entry) : bool := memN C_RECYCLED (e_class e) || memN C_TOMBSTONE (e_class e).
Definition mode_ok (m : mode) (e : entry) : bool :=
  match m with
  | MHidden => negb (is_hidden e)
  | MRecycle => memN C_RECYCLED (e_class e)
  | MRaw => true
  end.
(* the case data is coherent: the truth of the two `class` leaves the wrappers use is what the
   entry's class list says (both are observed from the real entry, independently) *)
Definition wf_entry (e : entry) : bool :=
  eqb (sem e KEq A_CLASS C_RECYCLED) (memN C_RECYCLED (e_class e))
  && eqb (sem e KEq A_CLASS C_TOMBSTONE) (memN C_TOMBSTONE (e_class e)).

(* a user caller whose session scope lets it search at all *)
Definition reader (i : ident) : option user :=
  match i_origin i, i_scope i with
  | OUser u, ScRO | OUser u, ScRW => Some u
  | _, _ => None
  end.

(* entry e may be REVEALED to u by a query (filter, filter_orig): it matches the filter and
   every attribute the caller named in filter_orig is readable on e *)
Definition may_reveal (u : user) (acps : list acp) (m : mode) (f : filt) (e : entry) : bool :=
  mode_ok m e && ematches e (fst (wrap m f))
  && forallb (may_read u acps e) (fattrs (snd (wrap m f))).
(* what an internal role may see through `search` *)
Definition role_may_see (r : role) (e : entry) : bool :=
  match r with
  | RSystem => true
  | RAccountRequest => memN C_ACCOUNT (e_class e)
  | RMigration => forallb (fun c => migr_ignore_class c || migr_entry_class c) (e_class e)
  | RMessageQueue => false
  end.

(* ================================================================== cases *)
Inductive qkind :=
| QSearch (m : mode)                                 (* QueryServerTransaction::search: entry uuids *)
| QSearchExt (m : mode) (req : option (list N))      (* search_ext: (uuid, attribute names) *)
| QExists (m : mode) (outside : bool)                (* exists; outside = the same caller's search also
                                                        returns an entry that is not in the case's universe *)
| QLdapSearch (ext : option filt) (req : option (list N))
| QLdapCompare (ava : filt).                         (* q_f = the rdn term of the compared dn *)
Inductive outcome :=
| OErr | OIds (l : list N) | OExt (l : list (N * list N)) | OBool (b : bool) | OCode (n : N).
Record query := mkQ { q_kind : qkind; q_f : filt; q_out : outcome }.
(* a universe of entries, the loaded profiles resolved for the caller, the caller, its queries *)
Inductive case := CWorld (es : list entry) (acps : list acp) (i : ident) (qs : list query).

Definition run (es : list entry) (acps : list acp) (i : ident) (k : qkind) (f : filt) : outcome :=
  match k with
  | QSearch m => OIds (map e_id (search i acps m f es))
  | QSearchExt m req =>
      match search_ext i acps m f req es with Some l => OExt l | None => OErr end
  | QExists m outside => OBool (exists_ i acps m f es || outside)
  | QLdapSearch ext req =>
      match ldap_search i acps f ext req es with Some l => OExt l | None => OErr end
  | QLdapCompare ava => OCode (ldap_compare i acps f ava es)
  end.

Fixpoint listN_eqb (a b : list N) : bool :=
  match a, b with
  | [], [] => true
  | x :: a', y :: b' => (x =? y) && listN_eqb a' b'
  | _, _ => false
  end.
Fixpoint ext_eqb (a b : list (N * list N)) : bool :=
  match a, b with
  | [], [] => true
  | (x, l) :: a', (y, l') :: b' => (x =? y) && listN_eqb l l' && ext_eqb a' b'
  | _, _ => false
  end.
Definition outcome_eqb (a b : outcome) : bool :=
  match a, b with
  | OErr, OErr => true
  | OIds x, OIds y => listN_eqb x y
  | OExt x, OExt y => ext_eqb x y
  | OBool x, OBool y => eqb x y
  | OCode x, OCode y => x =? y
  | _, _ => false
  end.

Definition agree (c : case) : bool :=
  match c with
  | CWorld es acps i qs =>
      forallb wf_entry es
      && forallb (fun q => outcome_eqb (run es acps i (q_kind q) (q_f q)) (q_out q)) qs
  end.

(* ------------------------------------------------------------------ the property on the
   IMPLEMENTATION's outputs, from the declarative grant rules only *)
Definition in_world (es : list entry) (id : N) (p : entry -> bool) : bool :=
  existsb (fun e => (e_id e =? id) && p e) es.

Definition ids_ok (es : list entry) (acps : list acp) (i : ident) (m : mode) (f : filt) (l : list N) : bool :=
  match i_origin i with
  | OInternal r => forallb (fun id => in_world es id (role_may_see r)) l
  | _ =>
      match reader i with
      | Some u => forallb (fun id => in_world es id (may_reveal u acps m f)) l
      | None => is_nil l
      end
  end.
Definition ext_ok (es : list entry) (acps : list acp) (i : ident) (m : mode) (f : filt)
  (req : option (list N)) (l : list (N * list N)) : bool :=
  match reader i with
  | Some u =>
      forallb (fun r =>
        in_world es (fst r) (fun e =>
          may_reveal u acps m f e
          && forallb (fun a => may_read u acps e a && memN a (e_attrs e) && requested req a) (snd r))) l
  | None => is_nil l
  end.
Definition bool_ok (es : list entry) (acps : list acp) (i : ident) (m : mode) (f : filt) (b : bool) : bool :=
  match i_origin i with
  | OInternal _ => true       (* internal callers are not access controlled (by design) *)
  | _ =>
      match reader i with
      | Some u => implb b (existsb (may_reveal u acps m f) es)
      | None => negb b
      end
  end.

Definition pcheck_q (es : list entry) (acps : list acp) (i : ident) (q : query) : bool :=
  match q_kind q, q_out q with
  | _, OErr => true                                   (* an error discloses nothing *)
  | QSearch m, OIds l => ids_ok es acps i m (q_f q) l
  | QSearchExt m req, OExt l => ext_ok es acps i m (q_f q) req l
  | QExists m outside, OBool b => outside || bool_ok es acps i m (q_f q) b
  | QLdapSearch ext req, OExt l => ext_ok es acps i MHidden (ldap_search_filter (q_f q) ext) req l
  | QLdapCompare ava, OCode n =>
      if n =? 0 then bool_ok es acps i MHidden (FAnd [q_f q; ava; ldap_excl] None) true
      else if n =? 1 then bool_ok es acps i MHidden (FAnd [q_f q; ldap_excl] None) true
      else true
  | _, _ => false                                     (* wrong shape of answer *)
  end.

Definition pcheck (c : case) : bool :=
  match c with
  | CWorld es acps i qs => forallb (pcheck_q es acps i) qs
  end.

Definition known (_ : case) : bool := false.
