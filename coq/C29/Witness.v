(* KV.C29.Witness — non-vacuity and refutation witnesses (vm_compute). *)
From Coq Require Import String List Arith NArith Bool.
Import ListNotations.
Require Import KV.C29.Hash KV.C29.Model.
Open Scope N_scope.

(* RFC 6238 Appendix B, time 59 and 1111111109, 8 digits, the three algorithms with their
   20/32/64-byte ASCII secrets: the reference used by pcheck reproduces the RFC's table *)
Example C29_witness_rfc6238_vectors :
  rfc_totp Sha1 D8 (str "12345678901234567890") 30 59 = 94287082 /\
  rfc_totp Sha256 D8 (str "12345678901234567890123456789012") 30 59 = 46119246 /\
  rfc_totp Sha512 D8 (str "1234567890123456789012345678901234567890123456789012345678901234") 30 59 = 90693936 /\
  rfc_totp Sha1 D8 (str "12345678901234567890") 30 1111111109 = 7081804 /\
  rfc_totp Sha256 D8 (str "12345678901234567890123456789012") 30 1111111109 = 68084774 /\
  rfc_totp Sha512 D8 (str "1234567890123456789012345678901234567890123456789012345678901234") 30 1111111109 = 25091201.
Proof. vm_compute. repeat split; reflexivity. Qed.

(* kanidm's own unit-test values (totp.rs hotp_basic) *)
Example C29_witness_kanidm_hotp_basic :
  digest_gen false Sha1 D6 [0] 0 = DOk 328482 /\
  digest_gen false Sha256 D6 [0] 0 = DOk 356306 /\
  digest_gen false Sha512 D6 [0] 0 = DOk 674061.
Proof. vm_compute. repeat split; reflexivity. Qed.

(* hypotheses of C29_full / C29_verify_is_spec / C29_prefix_exact_short_secret are met
   non-trivially: a 32-byte secret, t >= step;
   the current code and the previous step's code are accepted, the next step's and the one two
   steps back are not, and current <> previous *)
Example C29_witness_exact :
  let key := hex "000102030405060708090a0b0c0d0e0f101112131415161718191a1b1c1d1e1f" in
  let t := 1700000019 in
  key_ok Sha256 key = true /\ 0 < 30 /\ 30 <= t /\
  verify true Sha256 D6 key 30 (rfc_totp Sha256 D6 key 30 t) t = OBool true /\
  verify true Sha256 D6 key 30 (rfc_totp Sha256 D6 key 30 (t - 30)) t = OBool true /\
  verify true Sha256 D6 key 30 (rfc_totp Sha256 D6 key 30 (t + 30)) t = OBool false /\
  verify true Sha256 D6 key 30 (rfc_totp Sha256 D6 key 30 (t - 60)) t = OBool false /\
  rfc_totp Sha256 D6 key 30 t <> rfc_totp Sha256 D6 key 30 (t - 30).
Proof. vm_compute. repeat split; try reflexivity; discriminate. Qed.

(* the refuting input of C29_prefix_refuted / a non-vacuous instance of
   C29_prefix_long_secret_refused and C29_fix_is_conservative: 65-byte SHA-1 secret, its own
   current code, refused by the code before the fix, accepted by the current code *)
Example C29_witness_prefix_refuted :
  let key := repeat 7 65%nat in
  key_ok Sha1 key = false /\ 0 < 30 /\ 30 <= 59 /\
  verify_gen false true Sha1 D6 key 30 (rfc_totp Sha1 D6 key 30 59) 59 = OBool false /\
  verify true Sha1 D6 key 30 (rfc_totp Sha1 D6 key 30 59) 59 = OBool true.
Proof. vm_compute. repeat split; try reflexivity; discriminate. Qed.

(* boundary behaviour outside the property's hypotheses that the model also transcribes:
   step 0 panics; before the first step the subtraction overflows (panic in a checked build) unless
   the current code already matched *)
Example C29_witness_boundaries :
  verify true Sha1 D6 [1; 2; 3] 0 5 100 = OPanic /\
  verify true Sha1 D6 [1; 2; 3] 30 5 29 = OPanic /\
  verify true Sha1 D6 [1; 2; 3] 30 (rfc_totp Sha1 D6 [1; 2; 3] 30 29) 29 = OBool true /\
  verify false Sha1 D6 [1; 2; 3] 30 5 29 = OBool false.
Proof. vm_compute. repeat split; reflexivity. Qed.

(* agree / pcheck / known on concrete cases: an agreeing case with accepted and refused codes, and
   a long secret (accepted = agrees and satisfies the property; refused, as before the fix =
   flagged by both) *)
Example C29_witness_case :
  let key := hex "000102030405060708090a0b0c0d0e0f101112131415161718191a1b1c1d1e1f" in
  let t := 1700000019 in
  let c := CV true Sha256 D6 key 30 t 5
             [(rfc_totp Sha256 D6 key 30 t, OBool true); (rfc_totp Sha256 D6 key 30 (t - 30), OBool true);
              (rfc_totp Sha256 D6 key 30 (t + 30), OBool false); (1000000 + rfc_totp Sha256 D6 key 30 t, OBool false)] in
  agree c = true /\ known c = false /\ pcheck c = true.
Proof. vm_compute. repeat split; reflexivity. Qed.
Example C29_witness_long_secret_case :
  let key := repeat 7 65%nat in
  let c := CV true Sha1 D6 key 30 59 0 [(rfc_totp Sha1 D6 key 30 59, OBool true)] in
  let c' := CV true Sha1 D6 key 30 59 0 [(rfc_totp Sha1 D6 key 30 59, OBool false)] in
  agree c = true /\ known c = false /\ pcheck c = true /\ agree c' = false /\ pcheck c' = false.
Proof. vm_compute. repeat split; reflexivity. Qed.
