(* KV.C29.Props — property theorems only. *)
From Coq Require Import String List Arith NArith Bool Lia.
Import ListNotations.
Require Import KV.C29.Hash KV.C29.Model KV.C29.Proofs.
Open Scope N_scope.

(* THE PROPERTY, for a verify function [v] (first argument: build with overflow checks or not):
   for every positive step and every time at least one step after the epoch, the call returns
   (no panic) and accepts exactly when the code is the RFC 6238 code — for the token's secret of
   ANY length, algorithm and digit count — of the step containing the time or of the step
   immediately before it (the step containing t - step). *)
Definition C29_statement_for
  (v : bool -> algo -> digits -> list N -> N -> N -> N -> outcome) : Prop :=
  forall ovf a d key step chal t,
    0 < step -> step <= t ->
    exists b, v ovf a d key step chal t = OBool b /\
      (b = true <-> chal = rfc_totp a d key step t \/ chal = rfc_totp a d key step (t - step)).

(* the full statement about the tree under check (Model.verify = the current code) *)
Definition C29_full_statement : Prop := C29_statement_for verify.

(* It holds: unbounded secret (length and contents), step, time and candidate code; all three
   algorithms, both digit counts; with or without overflow checks. *)
Theorem C29_full : C29_full_statement.
Proof.
  intros ovf a d key step chal t Hs Ht. exists (accept_spec a d key step chal t). split.
  - unfold verify. apply verify_exact; [left; reflexivity | exact Hs | exact Ht].
  - apply accept_spec_iff.
Qed.

(* Same fact as one equation: under the hypotheses verify IS the declarative acceptance test. *)
Theorem C29_verify_is_spec : forall ovf a d key step chal t,
  0 < step -> step <= t ->
  verify ovf a d key step chal t = OBool (accept_spec a d key step chal t).
Proof.
  intros ovf a d key step chal t Hs Ht. unfold verify.
  apply verify_exact; [left; reflexivity | exact Hs | exact Ht].
Qed.

(* Totp::digest never fails and never slices out of range: every HMAC tag has >= 20 bytes and
   offset <= 15; its value is the RFC 4226 dynamic truncation, below 10^digits. *)
Theorem C29_trunc_in_bounds : forall a d key ctr,
  digest_gen tree_fixed a d key ctr = DOk (rfc_hotp a d key ctr) /\
  rfc_hotp a d key ctr < digits_mod d.
Proof.
  intros a d key ctr. split; [apply digest_ok; left; reflexivity | apply rfc_hotp_lt].
Qed.

(* the two counters tried, c = floor(t/step) and c-1, are the step that contains t and the step
   immediately before it (which contains t - step) *)
Theorem C29_window : forall step t,
  0 < step -> step <= t ->
  let c := t / step in
  1 <= c /\ c * step <= t < (c + 1) * step /\
  (t - step) / step = c - 1 /\ (c - 1) * step <= t - step < c * step.
Proof.
  intros step t Hs Ht c.
  pose proof (counter_pos step t Hs Ht) as H1.
  pose proof (counter_window step t Hs) as H2.
  pose proof (prev_counter step t Hs Ht) as H3.
  pose proof (counter_window step (t - step) Hs) as H4.
  rewrite H3 in H4. fold c in H1, H2, H3, H4.
  replace (c - 1 + 1) with c in H4 by (clearbody c; lia).
  repeat split; try tauto.
Qed.

(* Bridge: every case (one token, one time, any list of candidate codes with the implementation's
   answers) on which the model and the implementation agree satisfies the property's executable
   predicate. *)
Theorem C29_agree_implies_property : forall c, agree c = true -> pcheck c = true.
Proof.
  intros [ovf a d key step secs nanos obs] Ha.
  destruct (N.ltb_spec 0 step) as [Hs|Hs];
    [|cbn [pcheck]; apply N.ltb_ge in Hs; rewrite Hs; reflexivity].
  destruct (N.leb_spec step secs) as [Ht|Ht];
    [|cbn [pcheck]; apply N.leb_gt in Ht; rewrite Ht, andb_false_r; reflexivity].
  apply pcheck_iff; [exact Hs | exact Ht |].
  intros chal out Hin. rewrite <- (proj1 (agree_iff _ _ _ _ _ _ _ _) Ha chal out Hin).
  apply C29_verify_is_spec; assumption.
Qed.

(* what a passing pcheck says about the implementation's recorded answers *)
Theorem C29_pcheck_sound : forall ovf a d key step secs nanos obs chal out,
  pcheck (CV ovf a d key step secs nanos obs) = true ->
  0 < step -> step <= secs -> In (chal, out) obs ->
  exists b, out = OBool b /\
    (b = true <-> chal = rfc_totp a d key step secs \/ chal = rfc_totp a d key step (secs - step)).
Proof.
  intros ovf a d key step secs nanos obs chal out Hp Hs Ht Hin.
  exists (accept_spec a d key step chal secs). split.
  - exact (proj1 (pcheck_iff _ _ _ _ _ _ _ _ Hs Ht) Hp chal out Hin).
  - apply accept_spec_iff.
Qed.

(* ------------------------------------------------------------------ the code BEFORE the fix
   (verify_gen false), kept as the record of the defect this check found. *)

(* The statement was FALSE for it: a 65-byte SHA-1 secret (one byte longer than the HMAC block,
   which RFC 2104 hashes first) never verified, not even its own current RFC 6238 code. *)
Theorem C29_prefix_refuted : ~ C29_statement_for (verify_gen false).
Proof.
  intros H.
  destruct (H true Sha1 D6 (repeat 7 65%nat) 30 (rfc_totp Sha1 D6 (repeat 7 65%nat) 30 59) 59
              ltac:(reflexivity) ltac:(discriminate)) as [b [Hv [_ Hb]]].
  assert (Hb' : b = true) by (apply Hb; left; reflexivity).
  subst b. vm_compute in Hv. discriminate.
Qed.

(* It was exact for every secret that fits the block (64 bytes SHA-1/SHA-256, 128 SHA-512): there
   the zeroed fixed-size key buffer is RFC 2104's zero padding ... *)
Theorem C29_prefix_exact_short_secret : forall ovf a d key step chal t,
  key_ok a key = true ->
  0 < step -> step <= t ->
  verify_gen false ovf a d key step chal t = OBool (accept_spec a d key step chal t).
Proof.
  intros ovf a d key step chal t Hk Hs Ht.
  apply verify_exact; [right; exact Hk | exact Hs | exact Ht].
Qed.

(* ... and refused every code for a longer secret (unusable token; nothing wrong accepted). *)
Theorem C29_prefix_long_secret_refused : forall ovf a d key step chal t,
  key_ok a key = false -> 0 < step -> step <= t ->
  verify_gen false ovf a d key step chal t = OBool false.
Proof. exact verify_long. Qed.

(* Hence the fix changes the answer only for codes of long-secret tokens that the RFC accepts. *)
Theorem C29_fix_is_conservative : forall ovf a d key step chal t,
  0 < step -> step <= t ->
  verify_gen false ovf a d key step chal t <> verify_gen true ovf a d key step chal t ->
  key_ok a key = false /\ accept_spec a d key step chal t = true.
Proof.
  intros ovf a d key step chal t Hs Ht Hne.
  rewrite (verify_exact true) in Hne by (auto; left; reflexivity).
  destruct (key_ok a key) eqn:Hk.
  - exfalso. apply Hne. apply verify_exact; [right; exact Hk | exact Hs | exact Ht].
  - split; [reflexivity|]. rewrite verify_long in Hne by assumption.
    destruct (accept_spec a d key step chal t); [reflexivity | congruence].
Qed.
