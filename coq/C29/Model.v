(* KV.C29.Model — server/lib/src/credential/totp.rs: TotpAlgo::digest (l.63), Totp::digest (l.200),
   Totp::verify (l.244), transcribed; plus an independent RFC 6238 / RFC 4226 reference.
   Executable definitions only.  Hash functions: KV.C29.Hash. *)
From Coq Require Import String List Arith NArith Bool.
Import ListNotations.
Require Import KV.C29.Hash.
Open Scope N_scope.

Inductive algo := Sha1 | Sha256 | Sha512.
Inductive digits := D6 | D8.

Definition hash_of (a : algo) : list N -> list N :=
  match a with Sha1 => sha1 | Sha256 => sha256 | Sha512 => sha512 end.
(* HMAC block size = size of the fixed key buffer `Key<Hmac<H>>` (HmacSha1Key etc.) *)
Definition block (a : algo) : nat :=
  match a with Sha1 => 64 | Sha256 => 64 | Sha512 => 128 end%nat.
(* RFC 2104 HMAC with a key of any length *)
Definition hmac_rfc (a : algo) (key msg : list N) : list N := hmac (hash_of a) (block a) key msg.
(* `TotpDigits as u32` *)
Definition digits_mod (d : digits) : N := match d with D6 => 1000000 | D8 => 100000000 end.

(* ------------------------------------------------------------------ transcription *)

(* TotpAlgo::digest.  [fx] = true (the current code): `Hmac::new_from_slice(key_bytes)` — HMAC of
   the 8-byte big-endian counter under the secret, whatever its length.
   [fx] = false (the code before the fix): a secret longer than the fixed key buffer is
   InvalidKeyError (None); otherwise it is copied into the zeroed buffer and HMAC'd. *)
Definition algo_digest_gen (fx : bool) (a : algo) (key : list N) (ctr : N) : option (list N) :=
  if fx then Some (hmac_rfc a key (be_bytes 8 ctr))
  else if (block a <? length key)%nat then None
  else Some (hmac_rfc a (key ++ repeat 0 (block a - length key)) (be_bytes 8 ctr)).

(* Result<u32, TotpError>, plus the slice-index panic the code comments argue away *)
Inductive dres := DOk (v : N) | DErr | DPanic.

(* Totp::digest *)
Definition digest_gen (fx : bool) (a : algo) (d : digits) (key : list N) (ctr : N) : dres :=
  match algo_digest_gen fx a key ctr with
  | None => DErr                                        (* `?` on InvalidKeyError *)
  | Some mac =>
      match mac with
      | [] => DErr                                      (* hmac.last() = None -> HmacError *)
      | _ =>
          let off := N.to_nat (N.land (last mac 0) 15) in
          if (length mac <? off + 4)%nat then DPanic    (* hmac[offset..offset + 4] out of range *)
          else
            let otp := be_word (firstn 4 (skipn off mac)) in       (* u32::from_be_bytes *)
            DOk (N.land otp 0x7fffffff mod digits_mod d)
      end
  end.

(* what a call of Totp::verify does *)
Inductive outcome := OBool (b : bool) | OPanic.

Definition u64_max : N := 18446744073709551615.

(* Totp::verify.  [ovf] = the crate is built with overflow checks (dev profile): `counter - 1`
   panics at counter 0; otherwise it wraps.  `secs / self.step` panics for step 0.
   The right operand of `||` is only evaluated when the left one is false; Totp::digest is pure and
   total, so the model may compute both digests up front ([d1] for counter, [d2] for the second
   counter) and keep only the decision logic here — this lets one case share the two HMACs among
   all its candidate codes. *)
Definition second_counter (counter : N) : N := if counter =? 0 then u64_max else counter - 1.

Definition verify_core (ovf : bool) (step counter : N) (d1 d2 : dres) (chal : N) : outcome :=
  if step =? 0 then OPanic else
  let second : outcome :=
    if (counter =? 0) && ovf then OPanic else
    match d2 with
    | DOk v2 => OBool (v2 =? chal)
    | DErr => OBool false
    | DPanic => OPanic
    end in
  match d1 with
  | DOk v1 => if v1 =? chal then OBool true else second
  | DErr => second
  | DPanic => OPanic
  end.

Definition verify_gen (fx ovf : bool) (a : algo) (d : digits) (key : list N)
           (step chal secs : N) : outcome :=
  let counter := secs / step in
  verify_core ovf step counter
    (digest_gen fx a d key counter) (digest_gen fx a d key (second_counter counter)) chal.

(* The tree under check: /repo carries the fix "TOTP secrets longer than the HMAC block must be
   hashed, not refused" (fixes/C29.patch), so the secret goes to HMAC whatever its length.
   [verify_gen false] is the code before that fix, kept for the recorded refutation. *)
Definition tree_fixed : bool := true.
Definition verify := verify_gen tree_fixed.

(* ------------------------------------------------------------------ reference (the property's own words) *)

(* RFC 4226 §5.3 HOTP with the RFC 6238 choice of HMAC, written as in the RFC's reference code:
   offset = low nibble of the last byte; P = 31 bits starting at that byte *)
Definition rfc_hotp (a : algo) (d : digits) (key : list N) (ctr : N) : N :=
  let mac := hmac_rfc a key (be_bytes 8 ctr) in
  let o := N.to_nat (N.land (last mac 0) 15) in
  (N.land (nth o mac 0) 127 * 16777216 + nth (o + 1) mac 0 * 65536
   + nth (o + 2) mac 0 * 256 + nth (o + 3) mac 0) mod digits_mod d.
(* RFC 6238: T = floor(time / step), T0 = 0 *)
Definition rfc_totp (a : algo) (d : digits) (key : list N) (step t : N) : N :=
  rfc_hotp a d key (t / step).
(* the code of the step containing [t], or of the step immediately before it (= the step
   containing t - step) *)
Definition accept_spec (a : algo) (d : digits) (key : list N) (step chal t : N) : bool :=
  (chal =? rfc_totp a d key step t) || (chal =? rfc_totp a d key step (t - step)).

(* the class on which the code before the fix failed: secret longer than the HMAC block *)
Definition key_ok (a : algo) (key : list N) : bool := (length key <=? block a)%nat.

(* ------------------------------------------------------------------ correspondence *)
Definition outcome_eqb (x y : outcome) : bool :=
  match x, y with
  | OBool b1, OBool b2 => Bool.eqb b1 b2
  | OPanic, OPanic => true
  | _, _ => false
  end.

(* one token Totp::new(key, step, algo, digits) at one time Duration::new(secs, nanos), and for
   each candidate code [chal] what the call verify(chal, time) did: [obs] = list of (chal, outcome).
   [ovf] records the build (cfg!(debug_assertions) of the harness profile). *)
Inductive case :=
  CV (ovf : bool) (a : algo) (d : digits) (key : list N) (step secs nanos : N)
     (obs : list (N * outcome)).

(* = forall (chal, out) in obs, verify ovf a d key step chal secs = out  (Proofs.agree_iff) *)
Definition agree (c : case) : bool :=
  match c with CV ovf a d key step secs _ obs =>
    let counter := secs / step in
    let d1 := digest_gen tree_fixed a d key counter in
    let d2 := digest_gen tree_fixed a d key (second_counter counter) in
    forallb (fun co => outcome_eqb (verify_core ovf step counter d1 d2 (fst co)) (snd co)) obs
  end.

(* the property, on the implementation's answers: for a positive step and a time at least one
   step after the epoch, a code is accepted exactly when it is the RFC 6238 code of the current or
   of the previous step (= forall (chal, out) in obs, out = OBool (accept_spec .. chal secs),
   Proofs.pcheck_iff).  Outside those hypotheses the property says nothing. *)
Definition pcheck (c : case) : bool :=
  match c with CV _ a d key step secs _ obs =>
    if (0 <? step) && (step <=? secs)
    then
      let c1 := rfc_totp a d key step secs in
      let c2 := rfc_totp a d key step (secs - step) in
      forallb (fun co => outcome_eqb (snd co) (OBool ((fst co =? c1) || (fst co =? c2)))) obs
    else true end.

(* no recorded finding: the long-secret defect is fixed in /repo *)
Definition known (_ : case) : bool := false.
