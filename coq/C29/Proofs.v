(* KV.C29.Proofs — lemmas about the TOTP model. *)
From Coq Require Import String List Arith NArith Bool Lia.
Import ListNotations.
Require Import KV.C29.Hash KV.C29.Model.
Open Scope N_scope.

Arguments N.add : simpl never.
Arguments N.sub : simpl never.
Arguments N.mul : simpl never.
Arguments N.div : simpl never.
Arguments N.modulo : simpl never.
Arguments N.ltb : simpl never.
Arguments N.leb : simpl never.
Arguments N.eqb : simpl never.
Arguments N.land : simpl never.
Arguments sha1 : simpl never.
Arguments sha256 : simpl never.
Arguments sha512 : simpl never.
Arguments hmac : simpl never.

(* ------------------------------------------------------------------ the MAC: length and byte range *)
Definition mac_len (a : algo) : nat := match a with Sha1 => 20 | Sha256 => 32 | Sha512 => 64 end%nat.

Lemma hash_of_length : forall a m, length (hash_of a m) = mac_len a.
Proof.
  intros [] m; cbn [hash_of mac_len];
    [apply sha1_length | apply sha256_length | apply sha512_length].
Qed.
Lemma hash_of_bytes : forall a m, Forall (fun b => b < 256) (hash_of a m).
Proof.
  intros [] m; cbn [hash_of]; [apply sha1_bytes | apply sha2_bytes | apply sha2_bytes].
Qed.
Lemma hmac_rfc_length : forall a key msg, length (hmac_rfc a key msg) = mac_len a.
Proof.
  intros a key msg. unfold hmac_rfc. destruct (hmac_is_hash (hash_of a) (block a) key msg) as [m ->].
  apply hash_of_length.
Qed.
Lemma hmac_rfc_bytes : forall a key msg, Forall (fun b => b < 256) (hmac_rfc a key msg).
Proof.
  intros a key msg. unfold hmac_rfc. destruct (hmac_is_hash (hash_of a) (block a) key msg) as [m ->].
  apply hash_of_bytes.
Qed.
Lemma mac_len_ge20 : forall a, (20 <= mac_len a)%nat.
Proof. intros []; cbn [mac_len]; lia. Qed.

(* ------------------------------------------------------------------ dynamic truncation *)
Lemma offset_le15 : forall x, (N.to_nat (N.land x 15) <= 15)%nat.
Proof.
  intros x. change 15 with (N.ones 4). rewrite N.land_ones.
  assert (H : x mod 2 ^ 4 < 2 ^ 4) by (apply N.mod_lt; discriminate).
  change (2 ^ 4) with 16 in *. lia.
Qed.

Lemma slice4 : forall (l : list N) (o : nat),
  (o + 4 <= length l)%nat ->
  firstn 4 (skipn o l) = [nth o l 0; nth (o + 1) l 0; nth (o + 2) l 0; nth (o + 3) l 0].
Proof.
  intros l o; revert l. induction o as [|o IH]; intros l Hl.
  - destruct l as [|x0 [|x1 [|x2 [|x3 r]]]]; cbn [length] in Hl; try lia. reflexivity.
  - destruct l as [|x0 r]; cbn [length] in Hl; [lia|].
    cbn [skipn Nat.add nth]. apply IH. lia.
Qed.

(* the code's `u32::from_be_bytes(..) & 0x7fff_ffff` is the RFC's `(b0 & 0x7f) << 24 | b1 << 16 | b2 << 8 | b3` *)
Lemma trunc_word : forall b0 b1 b2 b3,
  b0 < 256 -> b1 < 256 -> b2 < 256 -> b3 < 256 ->
  N.land (be_word [b0; b1; b2; b3]) 0x7fffffff
  = N.land b0 127 * 16777216 + b1 * 65536 + b2 * 256 + b3.
Proof.
  intros b0 b1 b2 b3 H0 H1 H2 H3.
  unfold be_word. cbn [fold_left].
  change 0x7fffffff with (N.ones 31). change 127 with (N.ones 7). rewrite !N.land_ones.
  change (2 ^ 31) with 2147483648. change (2 ^ 7) with 128.
  pose proof (N.div_mod b0 128 ltac:(discriminate)) as Hdm.
  pose proof (N.mod_lt b0 128 ltac:(discriminate)) as Hm.
  symmetry. apply (N.mod_unique _ _ (b0 / 128)); lia.
Qed.

(* the body of Totp::digest after the HMAC *)
Definition trunc (d : digits) (mac : list N) : dres :=
  match mac with
  | [] => DErr
  | _ =>
      let off := N.to_nat (N.land (last mac 0) 15) in
      if (length mac <? off + 4)%nat then DPanic
      else DOk (N.land (be_word (firstn 4 (skipn off mac))) 0x7fffffff mod digits_mod d)
  end.
Definition rfc_trunc (d : digits) (mac : list N) : N :=
  let o := N.to_nat (N.land (last mac 0) 15) in
  (N.land (nth o mac 0) 127 * 16777216 + nth (o + 1) mac 0 * 65536
   + nth (o + 2) mac 0 * 256 + nth (o + 3) mac 0) mod digits_mod d.

Lemma digest_gen_trunc : forall fx a d key ctr,
  digest_gen fx a d key ctr =
  match algo_digest_gen fx a key ctr with None => DErr | Some mac => trunc d mac end.
Proof. reflexivity. Qed.
Lemma rfc_hotp_trunc : forall a d key ctr,
  rfc_hotp a d key ctr = rfc_trunc d (hmac_rfc a key (be_bytes 8 ctr)).
Proof. reflexivity. Qed.

(* offset + 4 never leaves a MAC of >= 20 bytes: no HmacError, no slice panic, and the
   value is the RFC's *)
Lemma trunc_in_bounds : forall d mac,
  (20 <= length mac)%nat -> Forall (fun b => b < 256) mac ->
  trunc d mac = DOk (rfc_trunc d mac).
Proof.
  intros d mac Hlen Hb. unfold trunc, rfc_trunc.
  destruct mac as [|m0 mr] eqn:Em; [cbn [length] in Hlen; lia|]. rewrite <- Em in *. clear Em m0 mr.
  set (o := N.to_nat (N.land (last mac 0) 15)).
  assert (Ho : (o <= 15)%nat) by apply offset_le15.
  destruct (Nat.ltb_spec (length mac) (o + 4)) as [Hbad|_]; [lia|].
  rewrite slice4 by lia.
  pose proof (proj1 (Forall_nth _ mac) Hb) as Hn.
  rewrite trunc_word; [reflexivity | apply Hn; lia ..].
Qed.

Lemma rfc_trunc_lt : forall d mac, rfc_trunc d mac < digits_mod d.
Proof. intros d mac. unfold rfc_trunc. apply N.mod_lt. destruct d; discriminate. Qed.

(* ------------------------------------------------------------------ Totp::digest *)
Lemma key_ok_le : forall a key, key_ok a key = true -> (length key <= block a)%nat.
Proof. intros a key H. unfold key_ok in H. now apply Nat.leb_le in H. Qed.

Lemma algo_digest_ok : forall fx a key ctr,
  fx = true \/ key_ok a key = true ->
  algo_digest_gen fx a key ctr = Some (hmac_rfc a key (be_bytes 8 ctr)).
Proof.
  intros fx a key ctr [-> | Hk]; unfold algo_digest_gen; [reflexivity|].
  apply key_ok_le in Hk.
  destruct fx; [reflexivity|].
  destruct (Nat.ltb_spec (block a) (length key)) as [Hbad|_]; [lia|].
  unfold hmac_rfc. now rewrite hmac_zero_pad.
Qed.

Lemma algo_digest_long : forall a key ctr,
  key_ok a key = false -> algo_digest_gen false a key ctr = None.
Proof.
  intros a key ctr Hk. unfold algo_digest_gen, key_ok in *. apply Nat.leb_gt in Hk.
  destruct (Nat.ltb_spec (block a) (length key)) as [_|Hbad]; [reflexivity | lia].
Qed.

Lemma digest_ok : forall fx a d key ctr,
  fx = true \/ key_ok a key = true ->
  digest_gen fx a d key ctr = DOk (rfc_hotp a d key ctr).
Proof.
  intros fx a d key ctr H. rewrite digest_gen_trunc, (algo_digest_ok _ _ _ _ H), rfc_hotp_trunc.
  apply trunc_in_bounds.
  - rewrite hmac_rfc_length. apply mac_len_ge20.
  - apply hmac_rfc_bytes.
Qed.

Lemma digest_long : forall a d key ctr,
  key_ok a key = false -> digest_gen false a d key ctr = DErr.
Proof. intros a d key ctr Hk. rewrite digest_gen_trunc, algo_digest_long by exact Hk. reflexivity. Qed.

Lemma rfc_hotp_lt : forall a d key ctr, rfc_hotp a d key ctr < digits_mod d.
Proof. intros. rewrite rfc_hotp_trunc. apply rfc_trunc_lt. Qed.

(* ------------------------------------------------------------------ the window *)
Lemma prev_counter : forall step t, 0 < step -> step <= t -> (t - step) / step = t / step - 1.
Proof.
  intros step t Hs Ht.
  assert (H : t / step = 1 + (t - step) / step).
  { rewrite <- N.div_add_l by lia. f_equal. lia. }
  rewrite H. generalize ((t - step) / step). intros q. lia.
Qed.
Lemma counter_pos : forall step t, 0 < step -> step <= t -> 1 <= t / step.
Proof.
  intros step t Hs Ht.
  assert (H : t / step = 1 + (t - step) / step).
  { rewrite <- N.div_add_l by lia. f_equal. lia. }
  rewrite H. generalize ((t - step) / step). intros q. lia.
Qed.
Lemma counter_window : forall step t, 0 < step -> t / step * step <= t < (t / step + 1) * step.
Proof.
  intros step t Hs.
  pose proof (N.div_mod t step ltac:(lia)) as Hdm.
  pose proof (N.mod_lt t step ltac:(lia)) as Hm.
  revert Hdm Hm. generalize (t / step) (t mod step). intros q r Hdm Hm. nia.
Qed.

(* ------------------------------------------------------------------ Totp::verify *)
Lemma verify_exact : forall fx ovf a d key step chal t,
  fx = true \/ key_ok a key = true ->
  0 < step -> step <= t ->
  verify_gen fx ovf a d key step chal t = OBool (accept_spec a d key step chal t).
Proof.
  intros fx ovf a d key step chal t Hk Hs Ht.
  unfold verify_gen, verify_core, second_counter, accept_spec, rfc_totp.
  destruct (N.eqb_spec step 0) as [E|_]; [lia|].
  pose proof (counter_pos step t Hs Ht) as Hc.
  destruct (N.eqb_spec (t / step) 0) as [E|_]; [lia|]. cbn [andb].
  rewrite !(digest_ok _ _ _ _ _ Hk), (prev_counter step t Hs Ht).
  rewrite (N.eqb_sym chal (rfc_hotp a d key (t / step))),
          (N.eqb_sym chal (rfc_hotp a d key (t / step - 1))).
  destruct (rfc_hotp a d key (t / step) =? chal); reflexivity.
Qed.

(* the code before the fix with a secret longer than the block: nothing is ever accepted *)
Lemma verify_long : forall ovf a d key step chal t,
  key_ok a key = false -> 0 < step -> step <= t ->
  verify_gen false ovf a d key step chal t = OBool false.
Proof.
  intros ovf a d key step chal t Hk Hs Ht. unfold verify_gen, verify_core, second_counter.
  destruct (N.eqb_spec step 0) as [E|_]; [lia|].
  pose proof (counter_pos step t Hs Ht) as Hc.
  destruct (N.eqb_spec (t / step) 0) as [E|_]; [lia|]. cbn [andb].
  rewrite !(digest_long _ _ _ _ Hk). reflexivity.
Qed.

Lemma accept_spec_iff : forall a d key step chal t,
  accept_spec a d key step chal t = true <->
  chal = rfc_totp a d key step t \/ chal = rfc_totp a d key step (t - step).
Proof.
  intros. unfold accept_spec. rewrite orb_true_iff, !N.eqb_eq. reflexivity.
Qed.

Lemma outcome_eqb_eq : forall x y, outcome_eqb x y = true -> x = y.
Proof.
  intros [b1|] [b2|]; cbn [outcome_eqb]; intros H; try discriminate; [|reflexivity].
  apply Bool.eqb_prop in H. now subst.
Qed.
Lemma outcome_eqb_refl : forall x, outcome_eqb x x = true.
Proof. intros [[]|]; reflexivity. Qed.

(* ------------------------------------------------------------------ what agree / pcheck mean *)
Lemma agree_iff : forall ovf a d key step secs nanos obs,
  agree (CV ovf a d key step secs nanos obs) = true <->
  forall chal out, In (chal, out) obs -> verify ovf a d key step chal secs = out.
Proof.
  intros ovf a d key step secs nanos obs. cbn [agree]. cbv zeta. rewrite forallb_forall. split.
  - intros H chal out Hin. specialize (H _ Hin). cbn [fst snd] in H.
    apply outcome_eqb_eq in H. exact H.
  - intros H [chal out] Hin. cbn [fst snd]. specialize (H _ _ Hin).
    unfold verify, verify_gen in H. rewrite H. apply outcome_eqb_refl.
Qed.

Lemma pcheck_iff : forall ovf a d key step secs nanos obs,
  0 < step -> step <= secs ->
  (pcheck (CV ovf a d key step secs nanos obs) = true <->
   forall chal out, In (chal, out) obs -> out = OBool (accept_spec a d key step chal secs)).
Proof.
  intros ovf a d key step secs nanos obs Hs Ht. cbn [pcheck].
  apply N.ltb_lt in Hs. apply N.leb_le in Ht. rewrite Hs, Ht. cbn [andb]. cbv zeta.
  rewrite forallb_forall. split.
  - intros H chal out Hin. specialize (H _ Hin). cbn [fst snd] in H.
    apply outcome_eqb_eq in H. exact H.
  - intros H [chal out] Hin. cbn [fst snd]. rewrite (H _ _ Hin). apply outcome_eqb_refl.
Qed.
