(* KV.C29.Hash — SHA-1, SHA-256, SHA-512 (FIPS 180-4) and HMAC (RFC 2104) over byte lists
   (`list N`, every element meant to be < 256), written for vm_compute: all word arithmetic is
   binary `N` with bit operations; `nat` only counts list positions.

   Self-contained (standard library only).  These are an INDEPENDENT implementation validated by
   the standard test vectors at the end of the file (FIPS 180 examples, RFC 2202, RFC 4231 and
   padding-boundary messages, expected values from the RFCs / Python hashlib); they are not
   proved against FIPS 180.  The only facts proved here are structural: output lengths, bytes
   < 256, and that zero-padding a short HMAC key to the block size does not change the MAC. *)
From Coq Require Import String Ascii List Arith NArith Bool Lia.
Import ListNotations.
Open Scope N_scope.

(* ------------------------------------------------------------------ bytes and words *)

(* the [n] low bytes of [x], most significant first *)
Fixpoint be_bytes (n : nat) (x : N) : list N :=
  match n with
  | O => []
  | S n' => N.land (N.shiftr x (8 * N.of_nat n')) 255 :: be_bytes n' x
  end.

(* big-endian value of a byte string *)
Definition be_word (bs : list N) : N := fold_left (fun acc b => acc * 256 + b) bs 0.

Fixpoint chunks_fuel (fuel k : nat) (l : list N) : list (list N) :=
  match fuel with
  | O => []
  | S f => match l with [] => [] | _ => firstn k l :: chunks_fuel f k (skipn k l) end
  end.
(* consecutive [k]-byte pieces (k > 0) *)
Definition chunks (k : nat) (l : list N) : list (list N) := chunks_fuel (length l) k l.

(* Merkle–Damgård padding: 0x80, zeros, bit length in [lenbytes] bytes; total multiple of [blk] *)
Definition md_pad (blk lenbytes : nat) (msg : list N) : list N :=
  let len := N.of_nat (length msg) in
  let b := N.of_nat blk in
  let used := (len + 1 + N.of_nat lenbytes) mod b in
  let z := (b - used) mod b in
  msg ++ 128 :: repeat 0 (N.to_nat z) ++ be_bytes lenbytes (8 * len).

(* ------------------------------------------------------------------ 32-bit words *)
Definition m32 : N := 0xffffffff.
Definition rotl32 (n x : N) : N := N.land (N.lor (N.shiftl x n) (N.shiftr x (32 - n))) m32.
Definition rotr32 (n x : N) : N := N.land (N.lor (N.shiftr x n) (N.shiftl x (32 - n))) m32.
Definition not32 (x : N) : N := N.lxor x m32.

(* ------------------------------------------------------------------ SHA-1 *)
Definition sha1_f (t b c d : N) : N :=
  if t <? 20 then N.lor (N.land b c) (N.land (not32 b) d)
  else if t <? 40 then N.lxor (N.lxor b c) d
  else if t <? 60 then N.lor (N.lor (N.land b c) (N.land b d)) (N.land c d)
  else N.lxor (N.lxor b c) d.
Definition sha1_k (t : N) : N :=
  if t <? 20 then 0x5a827999 else if t <? 40 then 0x6ed9eba1
  else if t <? 60 then 0x8f1bbcdc else 0xca62c1d6.

Definition st5 := (N * N * N * N * N)%type.

(* [w] is the sliding window W[t-16..t-1] shifted so that its head is W[t] *)
Fixpoint sha1_rounds (n : nat) (t : N) (w : list N) (s : st5) : st5 :=
  match n with
  | O => s
  | S n' =>
      let '(a, b, c, d, e) := s in
      let wt := nth 0 w 0 in
      let tmp := N.land (rotl32 5 a + sha1_f t b c d + e + sha1_k t + wt) m32 in
      let nw := rotl32 1 (N.lxor (N.lxor (nth 13 w 0) (nth 8 w 0)) (N.lxor (nth 2 w 0) wt)) in
      sha1_rounds n' (t + 1) (tl w ++ [nw]) (tmp, a, rotl32 30 b, c, d)
  end.

Definition sha1_block (s : st5) (blk : list N) : st5 :=
  let '(a, b, c, d, e) := s in
  let '(a', b', c', d', e') := sha1_rounds 80 0 (map be_word (chunks 4 blk)) s in
  (N.land (a + a') m32, N.land (b + b') m32, N.land (c + c') m32,
   N.land (d + d') m32, N.land (e + e') m32).

Definition sha1_init : st5 := (0x67452301, 0xefcdab89, 0x98badcfe, 0x10325476, 0xc3d2e1f0).

Definition sha1 (msg : list N) : list N :=
  let '(a, b, c, d, e) := fold_left sha1_block (chunks 64 (md_pad 64 8 msg)) sha1_init in
  be_bytes 4 a ++ be_bytes 4 b ++ be_bytes 4 c ++ be_bytes 4 d ++ be_bytes 4 e.

(* ------------------------------------------------------------------ SHA-2 (generic in the word size) *)
Record sha2_params := {
  p_bits : N;            (* 32 | 64 *)
  p_S0 : N * N * N;      (* rotations of big sigma 0 *)
  p_S1 : N * N * N;
  p_s0 : N * N * N;      (* small sigma 0: rotr, rotr, shr *)
  p_s1 : N * N * N;
  p_K : list N
}.

Section SHA2.
  Variable P : sha2_params.
  Let bits := p_bits P.
  Let mask := N.ones bits.
  Definition rotr (n x : N) : N := N.land (N.lor (N.shiftr x n) (N.shiftl x (bits - n))) mask.
  Definition bigsig (r : N * N * N) (x : N) : N :=
    let '(a, b, c) := r in N.lxor (N.lxor (rotr a x) (rotr b x)) (rotr c x).
  Definition smallsig (r : N * N * N) (x : N) : N :=
    let '(a, b, c) := r in N.lxor (N.lxor (rotr a x) (rotr b x)) (N.shiftr x c).
  Definition ch (x y z : N) : N := N.lxor (N.land x y) (N.land (N.lxor x mask) z).
  Definition maj (x y z : N) : N := N.lxor (N.lxor (N.land x y) (N.land x z)) (N.land y z).

  Definition st8 := (N * N * N * N * N * N * N * N)%type.

  (* one round per constant of K; [w] as in sha1_rounds *)
  Fixpoint sha2_rounds (ks : list N) (w : list N) (s : st8) : st8 :=
    match ks with
    | [] => s
    | k :: ks' =>
        let '(a, b, c, d, e, f, g, h) := s in
        let wt := nth 0 w 0 in
        let t1 := h + bigsig (p_S1 P) e + ch e f g + k + wt in
        let t2 := bigsig (p_S0 P) a + maj a b c in
        let nw := N.land (smallsig (p_s1 P) (nth 14 w 0) + nth 9 w 0
                          + smallsig (p_s0 P) (nth 1 w 0) + wt) mask in
        sha2_rounds ks' (tl w ++ [nw])
          (N.land (t1 + t2) mask, a, b, c, N.land (d + t1) mask, e, f, g)
    end.

  Definition sha2_block (wbytes : nat) (s : st8) (blk : list N) : st8 :=
    let '(a, b, c, d, e, f, g, h) := s in
    let '(a', b', c', d', e', f', g', h') :=
      sha2_rounds (p_K P) (map be_word (chunks wbytes blk)) s in
    (N.land (a + a') mask, N.land (b + b') mask, N.land (c + c') mask, N.land (d + d') mask,
     N.land (e + e') mask, N.land (f + f') mask, N.land (g + g') mask, N.land (h + h') mask).

  (* [wbytes] = bytes per word (4 | 8); block = 16 words; length field = 2 words *)
  Definition sha2 (wbytes : nat) (init : st8) (msg : list N) : list N :=
    let '(a, b, c, d, e, f, g, h) :=
      fold_left (sha2_block wbytes) (chunks (16 * wbytes) (md_pad (16 * wbytes) (2 * wbytes) msg)) init in
    be_bytes wbytes a ++ be_bytes wbytes b ++ be_bytes wbytes c ++ be_bytes wbytes d ++
    be_bytes wbytes e ++ be_bytes wbytes f ++ be_bytes wbytes g ++ be_bytes wbytes h.
End SHA2.

Definition sha256_K : list N := [
   0x428a2f98; 0x71374491; 0xb5c0fbcf; 0xe9b5dba5;
   0x3956c25b; 0x59f111f1; 0x923f82a4; 0xab1c5ed5;
   0xd807aa98; 0x12835b01; 0x243185be; 0x550c7dc3;
   0x72be5d74; 0x80deb1fe; 0x9bdc06a7; 0xc19bf174;
   0xe49b69c1; 0xefbe4786; 0x0fc19dc6; 0x240ca1cc;
   0x2de92c6f; 0x4a7484aa; 0x5cb0a9dc; 0x76f988da;
   0x983e5152; 0xa831c66d; 0xb00327c8; 0xbf597fc7;
   0xc6e00bf3; 0xd5a79147; 0x06ca6351; 0x14292967;
   0x27b70a85; 0x2e1b2138; 0x4d2c6dfc; 0x53380d13;
   0x650a7354; 0x766a0abb; 0x81c2c92e; 0x92722c85;
   0xa2bfe8a1; 0xa81a664b; 0xc24b8b70; 0xc76c51a3;
   0xd192e819; 0xd6990624; 0xf40e3585; 0x106aa070;
   0x19a4c116; 0x1e376c08; 0x2748774c; 0x34b0bcb5;
   0x391c0cb3; 0x4ed8aa4a; 0x5b9cca4f; 0x682e6ff3;
   0x748f82ee; 0x78a5636f; 0x84c87814; 0x8cc70208;
   0x90befffa; 0xa4506ceb; 0xbef9a3f7; 0xc67178f2
].
Definition sha256_init : st8 :=
  (0x6a09e667, 0xbb67ae85, 0x3c6ef372, 0xa54ff53a,
   0x510e527f, 0x9b05688c, 0x1f83d9ab, 0x5be0cd19).
Definition sha256_params : sha2_params :=
  {| p_bits := 32; p_S0 := (2, 13, 22); p_S1 := (6, 11, 25); p_s0 := (7, 18, 3); p_s1 := (17, 19, 10);
     p_K := sha256_K |}.
Definition sha256 (msg : list N) : list N := sha2 sha256_params 4 sha256_init msg.

Definition sha512_K : list N := [
   0x428a2f98d728ae22; 0x7137449123ef65cd;
   0xb5c0fbcfec4d3b2f; 0xe9b5dba58189dbbc;
   0x3956c25bf348b538; 0x59f111f1b605d019;
   0x923f82a4af194f9b; 0xab1c5ed5da6d8118;
   0xd807aa98a3030242; 0x12835b0145706fbe;
   0x243185be4ee4b28c; 0x550c7dc3d5ffb4e2;
   0x72be5d74f27b896f; 0x80deb1fe3b1696b1;
   0x9bdc06a725c71235; 0xc19bf174cf692694;
   0xe49b69c19ef14ad2; 0xefbe4786384f25e3;
   0x0fc19dc68b8cd5b5; 0x240ca1cc77ac9c65;
   0x2de92c6f592b0275; 0x4a7484aa6ea6e483;
   0x5cb0a9dcbd41fbd4; 0x76f988da831153b5;
   0x983e5152ee66dfab; 0xa831c66d2db43210;
   0xb00327c898fb213f; 0xbf597fc7beef0ee4;
   0xc6e00bf33da88fc2; 0xd5a79147930aa725;
   0x06ca6351e003826f; 0x142929670a0e6e70;
   0x27b70a8546d22ffc; 0x2e1b21385c26c926;
   0x4d2c6dfc5ac42aed; 0x53380d139d95b3df;
   0x650a73548baf63de; 0x766a0abb3c77b2a8;
   0x81c2c92e47edaee6; 0x92722c851482353b;
   0xa2bfe8a14cf10364; 0xa81a664bbc423001;
   0xc24b8b70d0f89791; 0xc76c51a30654be30;
   0xd192e819d6ef5218; 0xd69906245565a910;
   0xf40e35855771202a; 0x106aa07032bbd1b8;
   0x19a4c116b8d2d0c8; 0x1e376c085141ab53;
   0x2748774cdf8eeb99; 0x34b0bcb5e19b48a8;
   0x391c0cb3c5c95a63; 0x4ed8aa4ae3418acb;
   0x5b9cca4f7763e373; 0x682e6ff3d6b2b8a3;
   0x748f82ee5defb2fc; 0x78a5636f43172f60;
   0x84c87814a1f0ab72; 0x8cc702081a6439ec;
   0x90befffa23631e28; 0xa4506cebde82bde9;
   0xbef9a3f7b2c67915; 0xc67178f2e372532b;
   0xca273eceea26619c; 0xd186b8c721c0c207;
   0xeada7dd6cde0eb1e; 0xf57d4f7fee6ed178;
   0x06f067aa72176fba; 0x0a637dc5a2c898a6;
   0x113f9804bef90dae; 0x1b710b35131c471b;
   0x28db77f523047d84; 0x32caab7b40c72493;
   0x3c9ebe0a15c9bebc; 0x431d67c49c100d4c;
   0x4cc5d4becb3e42b6; 0x597f299cfc657e2a;
   0x5fcb6fab3ad6faec; 0x6c44198c4a475817
].
Definition sha512_init : st8 :=
  (0x6a09e667f3bcc908, 0xbb67ae8584caa73b,
   0x3c6ef372fe94f82b, 0xa54ff53a5f1d36f1,
   0x510e527fade682d1, 0x9b05688c2b3e6c1f,
   0x1f83d9abfb41bd6b, 0x5be0cd19137e2179).
Definition sha512_params : sha2_params :=
  {| p_bits := 64; p_S0 := (28, 34, 39); p_S1 := (14, 18, 41); p_s0 := (1, 8, 7); p_s1 := (19, 61, 6);
     p_K := sha512_K |}.
Definition sha512 (msg : list N) : list N := sha2 sha512_params 8 sha512_init msg.

(* ------------------------------------------------------------------ HMAC (RFC 2104) *)
(* [H] hash, [B] its block size in bytes.  Keys longer than B are hashed first; the key is
   then zero-padded to B bytes. *)
Definition hmac_key (H : list N -> list N) (B : nat) (key : list N) : list N :=
  let k0 := if (B <? length key)%nat then H key else key in
  k0 ++ repeat 0 (B - length k0).
Definition hmac (H : list N -> list N) (B : nat) (key msg : list N) : list N :=
  let k := hmac_key H B key in
  H (map (N.lxor 0x5c) k ++ H (map (N.lxor 0x36) k ++ msg)).

Definition hmac_sha1 := hmac sha1 64.
Definition hmac_sha256 := hmac sha256 64.
Definition hmac_sha512 := hmac sha512 128.

(* ------------------------------------------------------------------ literals for tests and case files *)
Definition str (s : string) : list N := map N_of_ascii (list_ascii_of_string s).
Definition hexval (c : ascii) : N :=
  let n := N_of_ascii c in
  if (48 <=? n) && (n <=? 57) then n - 48
  else if (97 <=? n) && (n <=? 102) then n - 87
  else if (65 <=? n) && (n <=? 70) then n - 55 else 0.
Fixpoint hex (s : string) : list N :=
  match s with
  | String a (String b r) => (16 * hexval a + hexval b) :: hex r
  | _ => []
  end.

(* ------------------------------------------------------------------ structural facts *)
Lemma be_bytes_length : forall n x, length (be_bytes n x) = n.
Proof. induction n as [|n IH]; intros x; cbn [be_bytes length]; [reflexivity | now rewrite IH]. Qed.

Lemma be_bytes_lt : forall n x, Forall (fun b => b < 256) (be_bytes n x).
Proof.
  induction n as [|n IH]; intros x; cbn [be_bytes]; constructor; [|apply IH].
  change 255 with (N.ones 8). rewrite N.land_ones. apply N.mod_lt. discriminate.
Qed.

Lemma sha1_length : forall msg, length (sha1 msg) = 20%nat.
Proof.
  intros msg. unfold sha1.
  destruct (fold_left sha1_block _ sha1_init) as [[[[a b] c] d] e].
  rewrite !app_length, !be_bytes_length. reflexivity.
Qed.
Lemma sha2_length : forall P wb init msg, length (sha2 P wb init msg) = (8 * wb)%nat.
Proof.
  intros P wb init msg. unfold sha2.
  destruct (fold_left _ _ init) as [[[[[[[a b] c] d] e] f] g] h].
  rewrite !app_length, !be_bytes_length. lia.
Qed.
Lemma sha256_length : forall msg, length (sha256 msg) = 32%nat.
Proof. intros msg. unfold sha256. now rewrite sha2_length. Qed.
Lemma sha512_length : forall msg, length (sha512 msg) = 64%nat.
Proof. intros msg. unfold sha512. now rewrite sha2_length. Qed.

Lemma sha1_bytes : forall msg, Forall (fun b => b < 256) (sha1 msg).
Proof.
  intros msg. unfold sha1.
  destruct (fold_left sha1_block _ sha1_init) as [[[[a b] c] d] e].
  repeat (apply Forall_app; split); apply be_bytes_lt.
Qed.
Lemma sha2_bytes : forall P wb init msg, Forall (fun b => b < 256) (sha2 P wb init msg).
Proof.
  intros P wb init msg. unfold sha2.
  destruct (fold_left _ _ init) as [[[[[[[a b] c] d] e] f] g] h].
  repeat (apply Forall_app; split); apply be_bytes_lt.
Qed.

(* HMAC output is an output of H *)
Lemma hmac_is_hash : forall H B key msg, exists m, hmac H B key msg = H m.
Proof. intros H B key msg. unfold hmac. eexists. reflexivity. Qed.

(* a key of at most B bytes may be zero-padded to exactly B bytes without changing the MAC
   (this is what a fixed-size key buffer does) *)
Lemma hmac_key_zero_pad : forall H B key,
  (length key <= B)%nat ->
  hmac_key H B (key ++ repeat 0 (B - length key)) = hmac_key H B key.
Proof.
  intros H B key Hle. unfold hmac_key.
  assert (Hl : length (key ++ repeat 0 (B - length key)) = B)
    by (rewrite app_length, repeat_length; lia).
  rewrite Hl.
  destruct (Nat.ltb_spec B B) as [Hbb|_]; [lia|].
  destruct (Nat.ltb_spec B (length key)) as [Hbk|_]; [lia|].
  rewrite Hl, Nat.sub_diag. cbn [repeat]. now rewrite app_nil_r.
Qed.
Lemma hmac_zero_pad : forall H B key msg,
  (length key <= B)%nat ->
  hmac H B (key ++ repeat 0 (B - length key)) msg = hmac H B key msg.
Proof. intros H B key msg Hle. unfold hmac. now rewrite hmac_key_zero_pad. Qed.

(* ------------------------------------------------------------------ TESTS (standard vectors) *)
Example test_sha1_empty : sha1 [] = hex "da39a3ee5e6b4b0d3255bfef95601890afd80709".
Proof. vm_compute. reflexivity. Qed.

Example test_sha1_abc : sha1 (str "abc") = hex "a9993e364706816aba3e25717850c26c9cd0d89d".
Proof. vm_compute. reflexivity. Qed.

Example test_sha1_448 : sha1 (str "abcdbcdecdefdefgefghfghighijhijkijkljklmklmnlmnomnopnopq") = hex "84983e441c3bd26ebaae4aa1f95129e5e54670f1".
Proof. vm_compute. reflexivity. Qed.

Example test_sha1_896 : sha1 (str "abcdefghbcdefghicdefghijdefghijkefghijklfghijklmghijklmnhijklmnoijklmnopjklmnopqklmnopqrlmnopqrsmnopqrstnopqrstu") = hex "a49b2446a02c645bf419f995b67091253a04a259".
Proof. vm_compute. reflexivity. Qed.

Example test_sha1_a1000 : sha1 (repeat 97 1000%nat) = hex "291e9a6c66994949b57ba5e650361e98fc36b1ba".
Proof. vm_compute. reflexivity. Qed.

Example test_sha1_len55 : sha1 (map N.of_nat (seq 0%nat 55%nat)) = hex "8ae2d46729cfe68ff927af5eec9c7d1b66d65ac2".
Proof. vm_compute. reflexivity. Qed.

Example test_sha1_len56 : sha1 (map N.of_nat (seq 0%nat 56%nat)) = hex "636e2ec698dac903498e648bd2f3af641d3c88cb".
Proof. vm_compute. reflexivity. Qed.

Example test_sha1_len63 : sha1 (map N.of_nat (seq 0%nat 63%nat)) = hex "6d942da0c4392b123528f2905c713a3ce28364bd".
Proof. vm_compute. reflexivity. Qed.

Example test_sha1_len64 : sha1 (map N.of_nat (seq 0%nat 64%nat)) = hex "c6138d514ffa2135bfce0ed0b8fac65669917ec7".
Proof. vm_compute. reflexivity. Qed.

Example test_sha1_len111 : sha1 (map N.of_nat (seq 0%nat 111%nat)) = hex "bc544e24573d592290fdaff8ecf3f7f2b00cd483".
Proof. vm_compute. reflexivity. Qed.

Example test_sha1_len112 : sha1 (map N.of_nat (seq 0%nat 112%nat)) = hex "e4ce142d09a84a8645338dd6535cbfaaf800d320".
Proof. vm_compute. reflexivity. Qed.

Example test_sha1_len128 : sha1 (map N.of_nat (seq 0%nat 128%nat)) = hex "e6434bc401f98603d7eda504790c98c67385d535".
Proof. vm_compute. reflexivity. Qed.

Example test_sha256_empty : sha256 [] = hex "e3b0c44298fc1c149afbf4c8996fb92427ae41e4649b934ca495991b7852b855".
Proof. vm_compute. reflexivity. Qed.

Example test_sha256_abc : sha256 (str "abc") = hex "ba7816bf8f01cfea414140de5dae2223b00361a396177a9cb410ff61f20015ad".
Proof. vm_compute. reflexivity. Qed.

Example test_sha256_448 : sha256 (str "abcdbcdecdefdefgefghfghighijhijkijkljklmklmnlmnomnopnopq") = hex "248d6a61d20638b8e5c026930c3e6039a33ce45964ff2167f6ecedd419db06c1".
Proof. vm_compute. reflexivity. Qed.

Example test_sha256_896 : sha256 (str "abcdefghbcdefghicdefghijdefghijkefghijklfghijklmghijklmnhijklmnoijklmnopjklmnopqklmnopqrlmnopqrsmnopqrstnopqrstu") = hex "cf5b16a778af8380036ce59e7b0492370b249b11e8f07a51afac45037afee9d1".
Proof. vm_compute. reflexivity. Qed.

Example test_sha256_a1000 : sha256 (repeat 97 1000%nat) = hex "41edece42d63e8d9bf515a9ba6932e1c20cbc9f5a5d134645adb5db1b9737ea3".
Proof. vm_compute. reflexivity. Qed.

Example test_sha256_len55 : sha256 (map N.of_nat (seq 0%nat 55%nat)) = hex "463eb28e72f82e0a96c0a4cc53690c571281131f672aa229e0d45ae59b598b59".
Proof. vm_compute. reflexivity. Qed.

Example test_sha256_len56 : sha256 (map N.of_nat (seq 0%nat 56%nat)) = hex "da2ae4d6b36748f2a318f23e7ab1dfdf45acdc9d049bd80e59de82a60895f562".
Proof. vm_compute. reflexivity. Qed.

Example test_sha256_len63 : sha256 (map N.of_nat (seq 0%nat 63%nat)) = hex "29af2686fd53374a36b0846694cc342177e428d1647515f078784d69cdb9e488".
Proof. vm_compute. reflexivity. Qed.

Example test_sha256_len64 : sha256 (map N.of_nat (seq 0%nat 64%nat)) = hex "fdeab9acf3710362bd2658cdc9a29e8f9c757fcf9811603a8c447cd1d9151108".
Proof. vm_compute. reflexivity. Qed.

Example test_sha256_len111 : sha256 (map N.of_nat (seq 0%nat 111%nat)) = hex "60780e9451bdc43cf4530ffc95cbb0c4eb24dae2c39f55f334d679e076c08065".
Proof. vm_compute. reflexivity. Qed.

Example test_sha256_len112 : sha256 (map N.of_nat (seq 0%nat 112%nat)) = hex "09373f127d34e61dbbaa8bc4499c87074f2ddb10e1b465f506d7d70a15011979".
Proof. vm_compute. reflexivity. Qed.

Example test_sha256_len128 : sha256 (map N.of_nat (seq 0%nat 128%nat)) = hex "471fb943aa23c511f6f72f8d1652d9c880cfa392ad80503120547703e56a2be5".
Proof. vm_compute. reflexivity. Qed.

Example test_sha512_empty : sha512 [] = hex "cf83e1357eefb8bdf1542850d66d8007d620e4050b5715dc83f4a921d36ce9ce47d0d13c5d85f2b0ff8318d2877eec2f63b931bd47417a81a538327af927da3e".
Proof. vm_compute. reflexivity. Qed.

Example test_sha512_abc : sha512 (str "abc") = hex "ddaf35a193617abacc417349ae20413112e6fa4e89a97ea20a9eeee64b55d39a2192992a274fc1a836ba3c23a3feebbd454d4423643ce80e2a9ac94fa54ca49f".
Proof. vm_compute. reflexivity. Qed.

Example test_sha512_448 : sha512 (str "abcdbcdecdefdefgefghfghighijhijkijkljklmklmnlmnomnopnopq") = hex "204a8fc6dda82f0a0ced7beb8e08a41657c16ef468b228a8279be331a703c33596fd15c13b1b07f9aa1d3bea57789ca031ad85c7a71dd70354ec631238ca3445".
Proof. vm_compute. reflexivity. Qed.

Example test_sha512_896 : sha512 (str "abcdefghbcdefghicdefghijdefghijkefghijklfghijklmghijklmnhijklmnoijklmnopjklmnopqklmnopqrlmnopqrsmnopqrstnopqrstu") = hex "8e959b75dae313da8cf4f72814fc143f8f7779c6eb9f7fa17299aeadb6889018501d289e4900f7e4331b99dec4b5433ac7d329eeb6dd26545e96e55b874be909".
Proof. vm_compute. reflexivity. Qed.

Example test_sha512_a1000 : sha512 (repeat 97 1000%nat) = hex "67ba5535a46e3f86dbfbed8cbbaf0125c76ed549ff8b0b9e03e0c88cf90fa634fa7b12b47d77b694de488ace8d9a65967dc96df599727d3292a8d9d447709c97".
Proof. vm_compute. reflexivity. Qed.

Example test_sha512_len55 : sha512 (map N.of_nat (seq 0%nat 55%nat)) = hex "6856647f269c2ee3d8128f0b25427659d880641ef343300dd3cd4679168f58d6527fda70b4ebc854e2065e172b7d58c1536992c0810599259ba84a2b40c65414".
Proof. vm_compute. reflexivity. Qed.

Example test_sha512_len56 : sha512 (map N.of_nat (seq 0%nat 56%nat)) = hex "8b12b2f6fe400a51d29656e2b8c42a1bbfe6fcf3e425da430db05d1a2dda14790dee20fa8b22d8762afffe4988a5c98a4430d22a17e41e23d90fa61ab75671a9".
Proof. vm_compute. reflexivity. Qed.

Example test_sha512_len63 : sha512 (map N.of_nat (seq 0%nat 63%nat)) = hex "9dc9c5598e55dc42955695320839788e353f1d7f6ba74df74c80a8a52f463c0697f57f68835d1418f4ce9b6530cd79bd0f4c6f7e13c93feb1218c0b65c2c0561".
Proof. vm_compute. reflexivity. Qed.

Example test_sha512_len64 : sha512 (map N.of_nat (seq 0%nat 64%nat)) = hex "ee4320ebaf3fdb4f2c832b137200c08e235e0fa7bbd0eb1740c7063ba8a0d151da77e003398e1714a955d475b05e3e950b639503b452ec185de4229bc4873949".
Proof. vm_compute. reflexivity. Qed.

Example test_sha512_len111 : sha512 (map N.of_nat (seq 0%nat 111%nat)) = hex "a1a111449b198d9b1f538bad7f3fc1022b3a5b1a5e90a0bc860de8512746cbc31599e6c834de3a3235327af0b51ff57bf7acf1974a73014d9c3953812edc7c8d".
Proof. vm_compute. reflexivity. Qed.

Example test_sha512_len112 : sha512 (map N.of_nat (seq 0%nat 112%nat)) = hex "c5fbd731d19d2ae1180f001be72c2c1aaba1d7b094b3748880e24593b8e117a750e11c1bd867cc2f96dace8c8b74abd2d5c4f236be444e77d30d1916174070b9".
Proof. vm_compute. reflexivity. Qed.

Example test_sha512_len128 : sha512 (map N.of_nat (seq 0%nat 128%nat)) = hex "1dffd5e3adb71d45d2245939665521ae001a317a03720a45732ba1900ca3b8351fc5c9b4ca513eba6f80bc7b1d1fdad4abd13491cb824d61b08d8c0e1561b3f7".
Proof. vm_compute. reflexivity. Qed.

Example test_hmac_sha1_rfc2202_1 : hmac_sha1 (repeat 0x0b 20%nat) (str "Hi There") = hex "b617318655057264e28bc0b6fb378c8ef146be00".
Proof. vm_compute. reflexivity. Qed.

Example test_hmac_sha1_rfc2202_2 : hmac_sha1 (str "Jefe") (str "what do ya want for nothing?") = hex "effcdf6ae5eb2fa2d27416d5f184df9c259a7c79".
Proof. vm_compute. reflexivity. Qed.

Example test_hmac_sha1_rfc2202_3 : hmac_sha1 (repeat 0xaa 20%nat) (repeat 0xdd 50%nat) = hex "125d7342b9ac11cd91a39af48aa17b4f63f175d3".
Proof. vm_compute. reflexivity. Qed.

Example test_hmac_sha1_rfc2202_6 : hmac_sha1 (repeat 0xaa 80%nat) (str "Test Using Larger Than Block-Size Key - Hash Key First") = hex "aa4ae5e15272d00e95705637ce8a3b55ed402112".
Proof. vm_compute. reflexivity. Qed.

Example test_hmac_sha1_rfc2202_7 : hmac_sha1 (repeat 0xaa 80%nat) (str "Test Using Larger Than Block-Size Key and Larger Than One Block-Size Data") = hex "e8e99d0f45237d786d6bbaa7965c7808bbff1a91".
Proof. vm_compute. reflexivity. Qed.

Example test_hmac_sha256_rfc4231_1 : hmac_sha256 (repeat 0x0b 20%nat) (str "Hi There") = hex "b0344c61d8db38535ca8afceaf0bf12b881dc200c9833da726e9376c2e32cff7".
Proof. vm_compute. reflexivity. Qed.

Example test_hmac_sha256_rfc4231_2 : hmac_sha256 (str "Jefe") (str "what do ya want for nothing?") = hex "5bdcc146bf60754e6a042426089575c75a003f089d2739839dec58b964ec3843".
Proof. vm_compute. reflexivity. Qed.

Example test_hmac_sha256_rfc4231_3 : hmac_sha256 (repeat 0xaa 20%nat) (repeat 0xdd 50%nat) = hex "773ea91e36800e46854db8ebd09181a72959098b3ef8c122d9635514ced565fe".
Proof. vm_compute. reflexivity. Qed.

Example test_hmac_sha256_rfc4231_6 : hmac_sha256 (repeat 0xaa 131%nat) (str "Test Using Larger Than Block-Size Key - Hash Key First") = hex "60e431591ee0b67f0d8a26aacbf5b77f8e0bc6213728c5140546040f0ee37f54".
Proof. vm_compute. reflexivity. Qed.

Example test_hmac_sha256_rfc4231_7 : hmac_sha256 (repeat 0xaa 131%nat) (str "This is a test using a larger than block-size key and a larger than block-size data. The key needs to be hashed before being used by the HMAC algorithm.") = hex "9b09ffa71b942fcb27635fbcd5b0e944bfdc63644f0713938a7f51535c3a35e2".
Proof. vm_compute. reflexivity. Qed.

Example test_hmac_sha256_blockkey : hmac_sha256 (map N.of_nat (seq 0%nat 64%nat)) (str "x") = hex "b8dc75d4220cfd86a5bf7c4301b3698f142a66fd7c004627df558626edb480cd".
Proof. vm_compute. reflexivity. Qed.

Example test_hmac_sha256_blockkey1 : hmac_sha256 (map N.of_nat (seq 0%nat 65%nat)) (str "x") = hex "839c2a8225cd27fb5d7ed3f6dc9a67cc7210572d15a39a276bf53b59d64033f0".
Proof. vm_compute. reflexivity. Qed.

Example test_hmac_sha512_rfc4231_1 : hmac_sha512 (repeat 0x0b 20%nat) (str "Hi There") = hex "87aa7cdea5ef619d4ff0b4241a1d6cb02379f4e2ce4ec2787ad0b30545e17cdedaa833b7d6b8a702038b274eaea3f4e4be9d914eeb61f1702e696c203a126854".
Proof. vm_compute. reflexivity. Qed.

Example test_hmac_sha512_rfc4231_2 : hmac_sha512 (str "Jefe") (str "what do ya want for nothing?") = hex "164b7a7bfcf819e2e395fbe73b56e0a387bd64222e831fd610270cd7ea2505549758bf75c05a994a6d034f65f8f0e6fdcaeab1a34d4a6b4b636e070a38bce737".
Proof. vm_compute. reflexivity. Qed.

Example test_hmac_sha512_rfc4231_3 : hmac_sha512 (repeat 0xaa 20%nat) (repeat 0xdd 50%nat) = hex "fa73b0089d56a284efb0f0756c890be9b1b5dbdd8ee81a3655f83e33b2279d39bf3e848279a722c806b485a47e67c807b946a337bee8942674278859e13292fb".
Proof. vm_compute. reflexivity. Qed.

Example test_hmac_sha512_rfc4231_6 : hmac_sha512 (repeat 0xaa 131%nat) (str "Test Using Larger Than Block-Size Key - Hash Key First") = hex "80b24263c7c1a3ebb71493c1dd7be8b49b46d1f41b4aeec1121b013783f8f3526b56d037e05f2598bd0fd2215d6a1e5295e64f73f63f0aec8b915a985d786598".
Proof. vm_compute. reflexivity. Qed.

Example test_hmac_sha512_rfc4231_7 : hmac_sha512 (repeat 0xaa 131%nat) (str "This is a test using a larger than block-size key and a larger than block-size data. The key needs to be hashed before being used by the HMAC algorithm.") = hex "e37b6a775dc87dbaa4dfa9f96e5e3ffddebd71f8867289865df5a32d20cdc944b6022cac3c4982b10d5eeb55c3e4de15134676fb6de0446065c97440fa8c6a58".
Proof. vm_compute. reflexivity. Qed.

Example test_hmac_sha512_blockkey : hmac_sha512 (map N.of_nat (seq 0%nat 128%nat)) (str "x") = hex "df0d02dfb105a623db2ca1ac8108103706a65c7aea41d702c8d26f285f1174be2bd9f094e3ce6a3ffdd76633236ee61e64a60ed80e9aa19fdd7eef2dfb5575c9".
Proof. vm_compute. reflexivity. Qed.

Example test_hmac_sha512_blockkey1 : hmac_sha512 (map N.of_nat (seq 0%nat 129%nat)) (str "x") = hex "9dba57b5465e2012dda23b46b0a9daa6f5a6ec4481ffd253414032bcb6af21b0acf5a2416c8081aedb6da04b399c6ee24dd703c5be5f03ae234aa4383865881e".
Proof. vm_compute. reflexivity. Qed.
