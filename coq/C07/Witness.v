(* KV.C07.Witness — non-vacuity: concrete states/histories meeting the hypotheses. *)
From Coq Require Import List NArith Bool Sorted.
Import ListNotations.
Require Import KV.C07.Model.
Open Scope N_scope.

(* a clock that goes backwards across a restart, with an abort in between *)
Example C07_witness_regressing_clock :
  run (mkst 100 (Some 90)) [MCommit 50; MAbort 10; MRestart 5 2; MCommit 5; MCommit 7]
  = [101; 103; 104; 105; 106] /\ dbv (mkst 100 (Some 90)) <= mem (mkst 100 (Some 90)).
Proof. vm_compute. split; [reflexivity | discriminate]. Qed.

Example C07_witness_agree :
  agree (CHist 10 11 13 13 [OCommit 3 14 14; OAbort 99 99; ORestart 1 15 16 16; OCommit 1 17 17]) = true.
Proof. vm_compute. reflexivity. Qed.
