(* KV.C07.Model — change identifiers (executable definitions only).
   Transcribes: Cid::new_lamport (server/lib/src/repl/cid.rs),
   QueryServer::new / QueryServer::write / QueryServerWriteTransaction::commit
   (server/lib/src/server/mod.rs): cid_max CowCell, db_ts_max in the database. *)
From Coq Require Import List NArith Bool.
Import ListNotations.
Open Scope N_scope.

(* Cid::new_lamport: `if ts > max_ts { ts } else { max_ts + 1ns }` *)
Definition lamport (ct mx : N) : N := if mx <? ct then ct else mx + 1.

(* server state: published cid_max (memory) and persisted db_ts_max *)
Record st := mkst { mem : N; db : option N }.
Definition dbv (s : st) : N := match db s with Some d => d | None => 0 end.

(* abstract operations; k = number of write transactions the start-up sequence commits *)
Inductive mop := MCommit (ct : N) | MAbort (ct : N) | MRestart (ct k : N).

Definition commit1 (ct : N) (s : st) : st * N :=
  let c := lamport ct (mem s) in (mkst c (Some c), c).

(* k commits at the same clock reading *)
Fixpoint commits (fuel : nat) (ct : N) (s : st) : st * list N :=
  match fuel with
  | O => (s, [])
  | S f => let '(s1, c) := commit1 ct s in
           let '(s2, l) := commits f ct s1 in (s2, c :: l)
  end.

(* QueryServer::new: ts_max = db value or curtime when absent; cid_max = lamport curtime ts_max *)
Definition restart0 (ct : N) (s : st) : st :=
  mkst (lamport ct (match db s with Some d => d | None => ct end)) (db s).

Definition step (s : st) (o : mop) : st * list N :=
  match o with
  | MCommit ct => let '(s1, c) := commit1 ct s in (s1, [c])
  | MAbort _ => (s, [])               (* dropped CowCell write: nothing published or stored *)
  | MRestart ct k => commits (N.to_nat k) ct (restart0 ct s)
  end.

Fixpoint run (s : st) (ops : list mop) : list N :=
  match ops with
  | [] => []
  | o :: r => let '(s1, l) := step s o in l ++ run s1 r
  end.

(* the (timestamp, server id) order of `#[derive(Ord)] struct Cid { ts, s_uuid }` *)
Definition cid := (N * N)%type.
Definition cid_cmp (a b : cid) : comparison :=
  match fst a ?= fst b with Eq => snd a ?= snd b | c => c end.
Definition cid_ltb (a b : cid) : bool := match cid_cmp a b with Lt => true | _ => false end.

(* ------------------------------------------------------------------ correspondence *)
(* observations recorded by the harness from the real server *)
Inductive oop :=
| OCommit (ct cid at_ : N)        (* txn cid; created entry's `at` read back after commit *)
| OAbort (ct cid : N)
| ORestart (ct a b c : N).        (* cid_max after new(); after initialise_helper; db_ts_max after *)

Inductive case :=
| CLamport (ct mx out : N)
| CCidCmp (t1 s1 t2 s2 : N) (res : N)   (* 0 Less, 1 Equal, 2 Greater *)
| CHist (t0 a b c : N) (ops : list oop).

(* model vs implementation, op by op; the start-up commit count is read off b - a *)
Definition restart_agree (ct a b c : N) (s : st) : bool * st :=
  let s0 := restart0 ct s in
  let k := b - a in
  let '(s1, _) := commits (N.to_nat k) ct s0 in
  ((a =? mem s0) && (a <=? b) && (k <? 2000) && (b =? mem s1) && (c =? dbv s1), mkst b (Some c)).

Fixpoint hist_agree (s : st) (ops : list oop) : bool :=
  match ops with
  | [] => true
  | OCommit ct c at_ :: r =>
      let '(s1, m) := commit1 ct s in (c =? m) && (at_ =? m) && hist_agree s1 r
  | OAbort ct c :: r => (c =? lamport ct (mem s)) && hist_agree s r
  | ORestart ct a b c :: r =>
      let '(ok, s1) := restart_agree ct a b c s in ok && hist_agree s1 r
  end.

Definition cmp_code (c : comparison) : N := match c with Lt => 0 | Eq => 1 | Gt => 2 end.

Definition agree (c : case) : bool :=
  match c with
  | CLamport ct mx out => out =? lamport ct mx
  | CCidCmp t1 s1 t2 s2 res => res =? cmp_code (cid_cmp (t1, s1) (t2, s2))
  | CHist t0 a b c ops => hist_agree (mkst 0 None) (ORestart t0 a b c :: ops)
  end.

(* the property on the implementation's own observations: the committed change ids
   (entry `at` values read back, db_ts_max after each start-up) strictly increase *)
Fixpoint obs_strict (last : N) (ops : list oop) : bool :=
  match ops with
  | [] => true
  | OCommit _ c at_ :: r => (last <? at_) && (c =? at_) && obs_strict at_ r
  | OAbort _ _ :: r => obs_strict last r
  | ORestart _ a b c :: r => (last <=? c) && (last <? a) && obs_strict c r
  end.

Definition pcheck (c : case) : bool :=
  match c with
  | CLamport ct mx out => mx <? out
  | CCidCmp _ _ _ _ _ => true
  | CHist t0 a b c ops => obs_strict 0 (ORestart t0 a b c :: ops)
  end.

Definition known (_ : case) : bool := false.
