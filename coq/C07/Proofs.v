(* KV.C07.Proofs *)
From Coq Require Import List NArith Bool Lia Sorted.
Import ListNotations.
Require Import KV.C07.Model.
Open Scope N_scope.
Arguments lamport : simpl never.
Arguments N.add : simpl never.
Arguments N.ltb : simpl never.
Arguments N.leb : simpl never.
Arguments N.eqb : simpl never.
Arguments N.sub : simpl never.

Definition wf (s : st) : Prop := dbv s <= mem s.

Lemma lamport_gt ct mx : mx < lamport ct mx.
Proof. unfold lamport. destruct (N.ltb_spec mx ct); lia. Qed.

Lemma lamport_ge_ct ct mx : ct <= lamport ct mx.
Proof. unfold lamport. destruct (N.ltb_spec mx ct); lia. Qed.

Lemma commit1_spec ct s :
  let '(s1, c) := commit1 ct s in
  mem s < c /\ mem s1 = c /\ db s1 = Some c.
Proof. unfold commit1; cbn. split; [apply lamport_gt | split; reflexivity]. Qed.

(* all emitted ids are > lo when the state's mem is >= lo, they are strictly sorted,
   and the final state is wf with dbv = last emitted (or unchanged) *)
Definition good (lo : N) (l : list N) : Prop := StronglySorted N.lt (lo :: l).

Lemma good_nil lo : good lo [].
Proof. unfold good. constructor; constructor. Qed.

Lemma good_cons lo c l : lo < c -> good c l -> good lo (c :: l).
Proof.
  unfold good. intros Hlt Hg. inversion Hg as [|x l' Hs Hf]; subst.
  constructor; [exact Hg|]. constructor; [exact Hlt|].
  eapply Forall_impl; [|exact Hf]. intros a Ha. cbn in Ha. lia.
Qed.

Lemma good_weaken lo lo' l : lo' <= lo -> good lo l -> good lo' l.
Proof.
  unfold good. intros Hle Hg. inversion Hg as [|x l' Hs Hf]; subst.
  constructor; [exact Hs|]. eapply Forall_impl; [|exact Hf]. intros a Ha. cbn in Ha. lia.
Qed.

Lemma good_app lo l1 l2 mid :
  good lo l1 -> (forall x, In x l1 -> x <= mid) -> lo <= mid -> good mid l2 -> good lo (l1 ++ l2).
Proof.
  revert lo. induction l1 as [|c l1 IH]; intros lo H1 Hb Hlo H2; cbn.
  - eapply good_weaken; eassumption.
  - unfold good in H1. inversion H1 as [|x l' Hs Hf]; subst.
    inversion Hf as [|y l'' Hc Hf']; subst.
    apply good_cons; [exact Hc|].
    apply IH; try assumption.
    + intros x Hx. apply Hb. right. exact Hx.
    + apply Hb. left. reflexivity.
Qed.

Lemma commits_spec fuel : forall ct s,
  let '(s1, l) := commits fuel ct s in
  good (mem s) l /\ (forall x, In x l -> x <= mem s1) /\ mem s <= mem s1 /\
  (l = [] -> s1 = s) /\ (l <> [] -> db s1 = Some (mem s1)).
Proof.
  induction fuel as [|f IH]; intros ct s; cbn [commits].
  - repeat split; try apply good_nil; try lia; try tauto. intros x [].
  - unfold commit1. specialize (IH ct (mkst (lamport ct (mem s)) (Some (lamport ct (mem s))))).
    destruct (commits f ct _) as [s2 l] eqn:E. cbn [mem] in IH.
    destruct IH as (Hg & Hb & Hm & Hnil & Hne).
    pose proof (lamport_gt ct (mem s)) as Hlt.
    repeat split.
    + apply good_cons; assumption.
    + intros x [Hx|Hx]; [subst; exact Hm | apply Hb; exact Hx].
    + lia.
    + intros Habs; discriminate.
    + intros _. destruct l as [|y l'].
      * rewrite (Hnil eq_refl). reflexivity.
      * apply Hne. discriminate.
Qed.

Lemma restart0_spec ct s : dbv s < mem (restart0 ct s) /\ db (restart0 ct s) = db s.
Proof.
  unfold restart0, dbv; cbn. split; [|reflexivity].
  destruct (db s) as [d|]; [apply lamport_gt|].
  pose proof (lamport_gt ct ct). lia.
Qed.

(* one step: emitted ids are strictly sorted above the last committed id, and the next
   state is wf with its committed id = the largest emitted *)
Lemma step_spec s o : wf s ->
  let '(s1, l) := step s o in
  good (dbv s) l /\ (forall x, In x l -> x <= dbv s1) /\ dbv s <= dbv s1 /\ wf s1.
Proof.
  unfold wf. intros Hwf. destruct o as [ct|ct|ct k]; cbn [step].
  - unfold commit1.
    pose proof (lamport_gt ct (mem s)) as Hlt.
    set (c := lamport ct (mem s)) in *.
    assert (Hd : dbv (mkst c (Some c)) = c) by reflexivity.
    rewrite Hd. cbn [mem].
    repeat split.
    + apply good_cons; [lia | apply good_nil].
    + intros x [Hx|[]]; subst; lia.
    + lia.
    + lia.
  - repeat split; try apply good_nil; try lia. intros x [].
  - pose proof (restart0_spec ct s) as [Hr Hdb].
    pose proof (commits_spec (N.to_nat k) ct (restart0 ct s)) as Hc.
    destruct (commits (N.to_nat k) ct (restart0 ct s)) as [s1 l].
    destruct Hc as (Hg & Hb & Hm & Hnil & Hne).
    destruct l as [|y l'].
    + rewrite (Hnil eq_refl). repeat split; try apply good_nil.
      * intros x [].
      * unfold dbv. rewrite Hdb. lia.
      * unfold dbv at 1. rewrite Hdb. fold (dbv s). lia.
    + assert (Hd : db s1 = Some (mem s1)) by (apply Hne; discriminate).
      assert (Hv : dbv s1 = mem s1) by (unfold dbv; rewrite Hd; reflexivity).
      repeat split.
      * eapply good_weaken; [|exact Hg]. lia.
      * intros x Hx. rewrite Hv. apply Hb. exact Hx.
      * lia.
      * lia.
Qed.

Lemma run_strict : forall ops s, wf s -> good (dbv s) (run s ops).
Proof.
  induction ops as [|o r IH]; intros s Hwf; cbn [run].
  - apply good_nil.
  - pose proof (step_spec s o Hwf) as Hs.
    destruct (step s o) as [s1 l]. destruct Hs as (Hg & Hb & Hle & Hwf1).
    eapply good_app; eauto.
Qed.

(* ---- cid order is a strict total order *)
Lemma cid_cmp_refl a : cid_cmp a a = Eq.
Proof. unfold cid_cmp. rewrite N.compare_refl. apply N.compare_refl. Qed.

Lemma cid_cmp_eq a b : cid_cmp a b = Eq -> a = b.
Proof.
  destruct a as [t1 s1], b as [t2 s2]. unfold cid_cmp; cbn.
  destruct (t1 ?= t2) eqn:E; try discriminate. intros E2.
  apply N.compare_eq in E. apply N.compare_eq in E2. subst. reflexivity.
Qed.

Lemma cid_cmp_antisym a b : cid_cmp b a = CompOpp (cid_cmp a b).
Proof.
  destruct a as [t1 s1], b as [t2 s2]. unfold cid_cmp; cbn.
  rewrite (N.compare_antisym t1 t2). destruct (t1 ?= t2); cbn; try reflexivity.
  apply N.compare_antisym.
Qed.

Lemma cid_lt_trans a b c : cid_cmp a b = Lt -> cid_cmp b c = Lt -> cid_cmp a c = Lt.
Proof.
  destruct a as [t1 s1], b as [t2 s2], c as [t3 s3]. unfold cid_cmp; cbn.
  destruct (N.compare_spec t1 t2), (N.compare_spec t2 t3); try discriminate; subst; intros H1 H2.
  - rewrite N.compare_refl. rewrite N.compare_lt_iff in *. lia.
  - apply N.compare_lt_iff in H0 as ->. reflexivity.
  - apply N.compare_lt_iff in H as ->. reflexivity.
  - assert (t1 < t3) as ->%N.compare_lt_iff by lia. reflexivity.
Qed.

Lemma same_server_order t1 t2 sid : cid_ltb (t1, sid) (t2, sid) = (t1 <? t2).
Proof.
  unfold cid_ltb, cid_cmp; cbn. rewrite N.compare_refl. unfold N.ltb.
  destruct (t1 ?= t2); reflexivity.
Qed.

(* ---- agreement with the model implies the property on the observations *)
Lemma restart_agree_spec ct a b c s :
  wf s -> fst (restart_agree ct a b c s) = true ->
  dbv s < a /\ dbv s <= c /\ wf (snd (restart_agree ct a b c s)) /\
  dbv (snd (restart_agree ct a b c s)) = c.
Proof.
  unfold restart_agree. intros Hwf.
  pose proof (restart0_spec ct s) as [Hr Hdb].
  pose proof (commits_spec (N.to_nat (b - a)) ct (restart0 ct s)) as Hc.
  destruct (commits (N.to_nat (b - a)) ct (restart0 ct s)) as [s1 l]. cbn [fst snd].
  destruct Hc as (Hg & Hb & Hm & Hnil & Hne).
  rewrite !andb_true_iff, !N.eqb_eq, N.leb_le. intros ((((Ha & Hab) & _) & Hbm) & Hcd).
  subst a. assert (Hc' : c = dbv s1) by exact Hcd. clear Hcd.
  assert (Hdb1 : dbv s <= dbv s1 <= mem s1).
  { destruct l as [|y l'].
    - rewrite (Hnil eq_refl). unfold dbv at 2 3. rewrite Hdb. fold (dbv s). lia.
    - assert (Hd : db s1 = Some (mem s1)) by (apply Hne; discriminate).
      unfold dbv at 2 3. rewrite Hd. lia. }
  repeat split; try lia.
  - unfold wf, dbv; cbn. lia.
Qed.

Lemma hist_agree_strict : forall ops s,
  wf s -> hist_agree s ops = true -> obs_strict (dbv s) ops = true.
Proof.
  induction ops as [|o r IH]; intros s Hwf H; [reflexivity|].
  destruct o as [ct c at_|ct c|ct a b c]; cbn [hist_agree obs_strict] in *.
  - unfold commit1 in H. rewrite !andb_true_iff, !N.eqb_eq in H.
    destruct H as ((Hc & Hat) & Hr). subst c at_.
    pose proof (lamport_gt ct (mem s)) as Hlt. unfold wf in Hwf.
    rewrite !andb_true_iff. repeat split.
    + apply N.ltb_lt. lia.
    + apply N.eqb_refl.
    + assert (Hwf1 : wf (mkst (lamport ct (mem s)) (Some (lamport ct (mem s)))))
        by (unfold wf, dbv; cbn [db mem]; lia).
      exact (IH _ Hwf1 Hr).
  - rewrite andb_true_iff in H. destruct H as [_ Hr]. apply IH; assumption.
  - pose proof (restart_agree_spec ct a b c s Hwf) as Hs.
    destruct (restart_agree ct a b c s) as [ok s1]. cbn [fst snd] in Hs.
    rewrite andb_true_iff in H. destruct H as [Hok Hr].
    destruct (Hs Hok) as (H1 & H2 & H3 & H4).
    rewrite !andb_true_iff. repeat split.
    + apply N.leb_le. lia.
    + apply N.ltb_lt. lia.
    + rewrite <- H4. apply IH; assumption.
Qed.

Lemma agree_pcheck c : agree c = true -> pcheck c = true.
Proof.
  destruct c as [ct mx out|t1 s1 t2 s2 res|t0 a b c ops]; cbn [agree pcheck].
  - rewrite N.eqb_eq. intros ->. apply N.ltb_lt, lamport_gt.
  - reflexivity.
  - intros H. apply (hist_agree_strict _ (mkst 0 None)); [|exact H].
    unfold wf, dbv; cbn; lia.
Qed.
