(* KV.C07.Props — property theorems only. *)
From Coq Require Import List NArith Bool Sorted.
Import ListNotations.
Require Import KV.C07.Model KV.C07.Proofs.
Open Scope N_scope.

(* A fresh change id is strictly above the maximum it was derived from, whatever the clock says. *)
Theorem C07_lamport_gt : forall ct mx, mx < lamport ct mx.
Proof. exact lamport_gt. Qed.

(* For every op list (commits, aborted transactions, restarts with any number of start-up
   commits, ARBITRARY clock readings incl. repeats and regressions) and every well-formed
   starting state, the committed change ids are strictly increasing and all above the last
   change id persisted before. *)
Theorem C07_strict : forall (s : st) (ops : list mop),
  dbv s <= mem s -> StronglySorted N.lt (dbv s :: run s ops).
Proof. exact (fun s ops H => run_strict ops s H). Qed.

(* The (timestamp, server) order is a strict total order ... *)
Theorem C07_cid_order_total : forall a b : cid,
  (cid_cmp a b = Eq <-> a = b) /\ cid_cmp b a = CompOpp (cid_cmp a b).
Proof.
  intros a b. split; [split; [apply cid_cmp_eq | intros ->; apply cid_cmp_refl] | apply cid_cmp_antisym].
Qed.
Theorem C07_cid_order_trans : forall a b c : cid,
  cid_cmp a b = Lt -> cid_cmp b c = Lt -> cid_cmp a c = Lt.
Proof. exact cid_lt_trans. Qed.
(* ... that agrees with timestamp order on one server. *)
Theorem C07_cid_same_server : forall t1 t2 sid, cid_ltb (t1, sid) (t2, sid) = (t1 <? t2).
Proof. exact same_server_order. Qed.

(* Soundness of the run-time tie: whenever the implementation's observations agree with the
   model, the property's executable predicate holds on those observations. *)
Theorem C07_agree_implies_property : forall c : case, agree c = true -> pcheck c = true.
Proof. exact agree_pcheck. Qed.
