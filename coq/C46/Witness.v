(* KV.C46.Witness — non-vacuity: concrete non-trivial inputs meet the hypotheses of the
   implication theorems of Props.v. *)
From Coq Require Import List NArith Bool.
Import ListNotations.
Require Import KV.C46.Model.
Open Scope N_scope.

(* strings: 1,2 = spns; 11,12,13 = uuids; 20.. = names/secrets; 30.. = user ids; 40.. = attr values *)
Definition w_cfg : config :=
  mkconfig [11; 2; 2] 1
    [ mkgcfg 1 10 [(0, 40); (3, 41)];
      mkgcfg 2 20 [(3, 42)];
      mkgcfg 1 30 [(0, 43)] ].         (* a second entry for spn 1: the last one wins *)
Definition w_tok_member : token :=
  mktoken 20 21 22 [ mkgroup 2 12; mkgroup 5 11; mkgroup 1 13; mkgroup 7 13 ].
Definition w_tok_outsider : token :=
  mktoken 23 24 25 [ mkgroup 1 12; mkgroup 5 13 ].     (* mapped group, but not a required one *)
Definition w_dir : directory := [ (30, RespToken w_tok_member); (31, RespToken w_tok_outsider); (32, RespStatus 500) ].

(* C46_secret_only_if_member / C46_released_vlan_and_attrs / C46_ok_carries_secret: an Ok answer
   exists; the member matched by UUID (group 5/11) and by SPN (group 2/12); vlan 30 is that of the
   LAST mapped group (spn 1, whose last config entry is the one with vlan 30), and key 3 keeps the
   offer of group 2 while key 0 takes the later offer *)
Example C46_witness_released :
  authorise w_cfg w_dir (mkreq None (Some 30) (Some 31)) = ROk 20 21 true 30 [(0, 43); (3, 42)] (Some 22).
Proof. vm_compute. reflexivity. Qed.

(* C46_non_member_rejected: hypotheses met by a user with groups, none of them required *)
Example C46_witness_rejected :
  user_id (mkreq None None (Some 31)) = Some 31 /\ dir_get 31 w_dir = RespToken w_tok_outsider /\
  forallb (fun g => negb (set_contains (g_uuid g) (k_required w_cfg)) && negb (set_contains (g_spn g) (k_required w_cfg)))
          (t_groups w_tok_outsider) = true /\
  authorise w_cfg w_dir (mkreq None None (Some 31)) = RErr EReject.
Proof. vm_compute. repeat split; reflexivity. Qed.

(* C46_member_gets_secret: hypotheses met (group 5/11 is required by uuid) *)
Example C46_witness_member :
  user_id (mkreq (Some 30) (Some 31) None) = Some 30 /\ dir_get 30 w_dir = RespToken w_tok_member /\
  In (mkgroup 5 11) (t_groups w_tok_member) /\ In (g_uuid (mkgroup 5 11)) (k_required w_cfg).
Proof. vm_compute. repeat split; auto. Qed.

(* C46_empty_required_releases_nothing: with an empty required list even that member is rejected *)
Example C46_witness_empty_required :
  authorise (mkconfig [] 1 (k_groups w_cfg)) w_dir (mkreq None None (Some 30)) = RErr EReject.
Proof. vm_compute. reflexivity. Qed.

(* C46_lookup_failures: every branch occurs *)
Example C46_witness_failures :
  authorise w_cfg w_dir (mkreq None None None) = RErr EFail /\
  authorise w_cfg w_dir (mkreq None None (Some 33)) = RErr ENotFound /\
  authorise w_cfg w_dir (mkreq None None (Some 32)) = RErr EFail /\
  authorise w_cfg [(30, RespGarbage)] (mkreq None None (Some 30)) = RErr EFail.
Proof. vm_compute. repeat split; reflexivity. Qed.

(* C46_mapping_last_entry: k_groups = pre ++ m :: post with no later entry for m's spn *)
Example C46_witness_mapping :
  k_groups w_cfg = [mkgcfg 1 10 [(0, 40); (3, 41)]; mkgcfg 2 20 [(3, 42)]] ++ mkgcfg 1 30 [(0, 43)] :: [] /\
  mapping_of w_cfg 1 = Some (mkgcfg 1 30 [(0, 43)]) /\ mapping_of w_cfg 7 = None.
Proof. vm_compute. repeat split; reflexivity. Qed.

(* C46_vlan_last: groups = pre ++ g :: post, g mapped, nothing after g mapped *)
Example C46_witness_vlan_last :
  t_groups w_tok_member = [mkgroup 2 12; mkgroup 5 11] ++ mkgroup 1 13 :: [mkgroup 7 13] /\
  mapping_of w_cfg (g_spn (mkgroup 1 13)) = Some (mkgcfg 1 30 [(0, 43)]) /\
  forallb (fun g => negb (has_mapping w_cfg g)) [mkgroup 7 13] = true /\
  fst (resolve_group_configs w_cfg (t_groups w_tok_member)) = 30.
Proof. vm_compute. repeat split; reflexivity. Qed.

(* C46_vlan_default: a non-empty group list without any mapping *)
Example C46_witness_vlan_default :
  forallb (fun g => negb (has_mapping w_cfg g)) [mkgroup 5 11; mkgroup 7 2] = true /\
  resolve_group_configs w_cfg [mkgroup 5 11; mkgroup 7 2] = (1, []).
Proof. vm_compute. repeat split; reflexivity. Qed.

(* the executable predicate is not trivially true: it refutes a wrong VLAN, a foreign secret, a
   secret for an outsider, and a wrong refusal *)
Example C46_witness_pcheck_discriminates :
  pcheck (CAuth w_cfg w_dir (mkreq None None (Some 30)) (ROk 20 21 true 30 [(0, 43); (3, 42)] (Some 22))) = true /\
  pcheck (CAuth w_cfg w_dir (mkreq None None (Some 30)) (ROk 20 21 true 20 [(0, 43); (3, 42)] (Some 22))) = false /\
  pcheck (CAuth w_cfg w_dir (mkreq None None (Some 30)) (ROk 20 21 true 30 [(0, 40); (3, 42)] (Some 22))) = false /\
  pcheck (CAuth w_cfg w_dir (mkreq None None (Some 30)) (ROk 20 21 true 30 [(0, 43); (3, 42)] (Some 25))) = false /\
  pcheck (CAuth w_cfg w_dir (mkreq None None (Some 31)) (ROk 23 24 true 30 [(0, 43)] (Some 25))) = false /\
  pcheck (CAuth w_cfg w_dir (mkreq None None (Some 30)) (RErr EReject)) = false /\
  pcheck (CAuth w_cfg w_dir (mkreq None None (Some 31)) (RErr EReject)) = true.
Proof. vm_compute. repeat split; reflexivity. Qed.
