(* KV.C46.Props — property theorems only.
   C46: the RADIUS module releases a user's network secret only if the user belongs, by UUID or
   SPN, to at least one configured required group; the VLAN it returns is that of the last of the
   user's groups with a VLAN mapping, or the default VLAN if none has one. *)
From Coq Require Import List NArith Bool.
Import ListNotations.
Require Import KV.C46.Model KV.C46.Proofs.
Open Scope N_scope.

(* SECRET ONLY TO MEMBERS.  For every configuration, every directory and every request: if
   authorise answers with a secret, then the request names a user (SAN, else CN, else user
   name) whose token the server returned, the secret/name/uuid are exactly that token's, and
   some group of that token is in the required list by its uuid or by its spn. *)
Theorem C46_secret_only_if_member : forall c d r name uuid tun vlan attrs s,
  authorise c d r = ROk name uuid tun vlan attrs (Some s) ->
  exists id tok,
    user_id r = Some id /\ dir_get id d = RespToken tok /\
    s = t_secret tok /\ name = t_name tok /\ uuid = t_uuid tok /\
    exists g, In g (t_groups tok) /\
      (In (g_uuid g) (k_required c) \/ In (g_spn g) (k_required c)).
Proof.
  intros c d r name uuid tun vlan attrs s H.
  pose proof (authorise_spec_ok c d r) as Hs. rewrite H in Hs.
  apply spec_ok_secret in Hs as [id [tok [H1 [H2 [H3 [H4 [H5 [H6 _]]]]]]]].
  exists id, tok. repeat (split; [assumption|]). exact H6.
Qed.

(* ... and the VLAN and reply attributes released with it are the specified ones for that
   user's group list *)
Theorem C46_released_vlan_and_attrs : forall c d r name uuid tun vlan attrs s,
  authorise c d r = ROk name uuid tun vlan attrs (Some s) ->
  exists id tok,
    user_id r = Some id /\ dir_get id d = RespToken tok /\
    vlan = vlan_spec c (t_groups tok) /\
    (forall k, alookup k attrs = attr_spec c (t_groups tok) k).
Proof.
  intros c d r name uuid tun vlan attrs s H.
  pose proof (authorise_spec_ok c d r) as Hs. rewrite H in Hs.
  apply spec_ok_secret in Hs as [id [tok [H1 [H2 [_ [_ [_ [_ [H7 H8]]]]]]]]].
  exists id, tok. repeat (split; [assumption|]). exact H8.
Qed.

(* every successful answer carries a secret, so the theorem above covers every Ok *)
Theorem C46_ok_carries_secret : forall c d r name uuid tun vlan attrs o,
  authorise c d r = ROk name uuid tun vlan attrs o -> exists s, o = Some s.
Proof.
  intros c d r name uuid tun vlan attrs o. unfold authorise.
  destruct (user_id r); [|discriminate]. destruct (fetch_token d s); try discriminate.
  destruct (negb _); [discriminate|]. intros [= _ _ _ _ _ <-]. eexists. reflexivity.
Qed.

(* NON-MEMBERS ARE REJECTED (contrapositive, with the exact refusal) *)
Theorem C46_non_member_rejected : forall c d r id tok,
  user_id r = Some id -> dir_get id d = RespToken tok ->
  (forall g, In g (t_groups tok) -> ~ In (g_uuid g) (k_required c) /\ ~ In (g_spn g) (k_required c)) ->
  authorise c d r = RErr EReject.
Proof.
  intros c d r id tok Hid Hd Hn. unfold authorise, fetch_token. rewrite Hid, Hd.
  destruct (user_in_required_groups (k_required c) (t_groups tok)) eqn:E; [|reflexivity].
  apply member_iff in E as [g [Hg [H|H]]]; destruct (Hn g Hg) as [N1 N2]; contradiction.
Qed.

(* an empty required list releases no secret at all *)
Theorem C46_empty_required_releases_nothing : forall c d r,
  k_required c = [] -> forall name uuid tun vlan attrs o, authorise c d r <> ROk name uuid tun vlan attrs o.
Proof.
  intros c d r He name uuid tun vlan attrs o H.
  destruct (C46_ok_carries_secret _ _ _ _ _ _ _ _ _ H) as [s ->].
  apply C46_secret_only_if_member in H as [id [tok [_ [_ [_ [_ [_ [g [_ [Hg|Hg]]]]]]]]]];
    rewrite He in Hg; exact Hg.
Qed.

(* MEMBERS GET THEIR SECRET AND THE SPECIFIED VLAN (completeness) *)
Theorem C46_member_gets_secret : forall c d r id tok g,
  user_id r = Some id -> dir_get id d = RespToken tok ->
  In g (t_groups tok) -> (In (g_uuid g) (k_required c) \/ In (g_spn g) (k_required c)) ->
  exists attrs,
    authorise c d r = ROk (t_name tok) (t_uuid tok) true (vlan_spec c (t_groups tok)) attrs (Some (t_secret tok))
    /\ strictly_ascending attrs = true
    /\ forall k, alookup k attrs = attr_spec c (t_groups tok) k.
Proof.
  intros c d r id tok g Hid Hd Hg Hm. unfold authorise, fetch_token. rewrite Hid, Hd.
  assert (E : user_in_required_groups (k_required c) (t_groups tok) = true).
  { apply member_iff. exists g. split; assumption. }
  rewrite E. cbn [negb]. rewrite resolve_vlan. eexists. split; [reflexivity|]. split.
  - apply resolve_sa.
  - intros k. apply resolve_attr_lookup.
Qed.

(* failures of the lookup never release anything: no user id / lookup error => Fail, 404 => NotFound *)
Theorem C46_lookup_failures : forall c d r,
  (user_id r = None -> authorise c d r = RErr EFail) /\
  (forall id, user_id r = Some id -> dir_get id d = RespStatus 404 -> authorise c d r = RErr ENotFound) /\
  (forall id code, user_id r = Some id -> dir_get id d = RespStatus code -> code <> 404 -> authorise c d r = RErr EFail) /\
  (forall id, user_id r = Some id -> dir_get id d = RespGarbage -> authorise c d r = RErr EFail).
Proof.
  intros c d r. unfold authorise, fetch_token. repeat split.
  - intros ->. reflexivity.
  - intros id -> ->. reflexivity.
  - intros id code -> -> Hc. apply N.eqb_neq in Hc. rewrite Hc. reflexivity.
  - intros id -> ->. reflexivity.
Qed.

(* THE CONFIGURED MAPPING of an spn is the LAST radius_groups entry for it (BTreeMap collect) *)
Theorem C46_mapping_last_entry : forall c pre m post,
  k_groups c = pre ++ m :: post ->
  (forall m', In m' post -> c_spn m' <> c_spn m) ->
  alookup (c_spn m) (group_configs c) = Some m /\ mapping_of c (c_spn m) = Some m.
Proof.
  intros c pre m post Hk Hp. rewrite group_configs_lookup.
  assert (H : mapping_of c (c_spn m) = Some m).
  { unfold mapping_of. rewrite Hk. apply find_rev_last.
    - apply N.eqb_refl.
    - intros y Hy. apply N.eqb_neq. apply Hp. exact Hy. }
  split; exact H.
Qed.
Theorem C46_mapping_none : forall c spn,
  (forall m, In m (k_groups c) -> c_spn m <> spn) -> alookup spn (group_configs c) = None.
Proof.
  intros c spn H. rewrite group_configs_lookup. unfold mapping_of. apply find_all_false.
  intros m Hm. apply N.eqb_neq. apply H. apply in_rev. exact Hm.
Qed.

(* VLAN = THAT OF THE LAST MAPPED GROUP: the user's groups are pre ++ g :: post, g has the
   mapping m and no group after g has any mapping  =>  the VLAN is m's. Any lists, any length. *)
Theorem C46_vlan_last : forall c pre g post m,
  mapping_of c (g_spn g) = Some m ->
  (forall g', In g' post -> mapping_of c (g_spn g') = None) ->
  fst (resolve_group_configs c (pre ++ g :: post)) = c_vlan m.
Proof.
  intros c pre g post m Hm Hp. rewrite resolve_vlan. unfold vlan_spec.
  rewrite (find_rev_last (has_mapping c) pre g post).
  - rewrite Hm. reflexivity.
  - unfold has_mapping. rewrite Hm. reflexivity.
  - intros y Hy. unfold has_mapping. rewrite (Hp y Hy). reflexivity.
Qed.
(* ... and the default VLAN if none of the user's groups has a mapping *)
Theorem C46_vlan_default : forall c gs,
  (forall g, In g gs -> mapping_of c (g_spn g) = None) ->
  fst (resolve_group_configs c gs) = k_default c.
Proof.
  intros c gs H. rewrite resolve_vlan. unfold vlan_spec. rewrite find_all_false; [reflexivity|].
  intros g Hg. unfold has_mapping. rewrite (H g); [reflexivity|]. apply in_rev. exact Hg.
Qed.
(* the two statements above as one equation with the declarative vlan_spec *)
Theorem C46_vlan_is_spec : forall c gs, fst (resolve_group_configs c gs) = vlan_spec c gs.
Proof. exact resolve_vlan. Qed.

(* reply attributes: a well-formed (strictly ascending) map in which, for every key, the last
   offer among the user's mapped groups wins *)
Theorem C46_attrs_last_offer_wins : forall c gs,
  strictly_ascending (snd (resolve_group_configs c gs)) = true /\
  forall k, alookup k (snd (resolve_group_configs c gs)) = alookup k (rev (offered_attrs c gs)).
Proof. intros c gs. split; [apply resolve_sa | intros k; apply resolve_attr_lookup]. Qed.

(* the executable predicate used on the implementation's outputs means what it should *)
Theorem C46_pcheck_sound : forall c d r name uuid tun vlan attrs s,
  pcheck (CAuth c d r (ROk name uuid tun vlan attrs (Some s))) = true ->
  exists id tok, user_id r = Some id /\ dir_get id d = RespToken tok /\
    s = t_secret tok /\ name = t_name tok /\ uuid = t_uuid tok /\
    (exists g, In g (t_groups tok) /\ (In (g_uuid g) (k_required c) \/ In (g_spn g) (k_required c))) /\
    vlan = vlan_spec c (t_groups tok) /\
    (forall k, alookup k attrs = attr_spec c (t_groups tok) k).
Proof. intros c d r name uuid tun vlan attrs s H. exact (spec_ok_secret c d r name uuid tun vlan attrs s H). Qed.

(* bridge: wherever the implementation agreed with the model, the property predicate holds of
   the implementation's own answer *)
Theorem C46_agree_implies_property : forall c, agree c = true -> pcheck c = true.
Proof. exact agree_implies_pcheck. Qed.
