(* KV.C46.Model — rlm_kanidm Module::authorise (rlm_kanidm/module/src/logic.rs:177) with
   user_in_required_groups (:226), resolve_group_configs (:232), fetch_token (:249),
   AuthRequest::user_id (:96) and the construction of the maps in Module::from_config (:154-167),
   transcribed statement by statement.  Executable definitions only.

   Strings (group spns, group uuids, required-group entries, user ids, names, secrets,
   attribute values) are interned as N by the harness: only string EQUALITY is used by the code.
   Reply-attribute KEYS are N whose numeric order is the string order of the real keys (the
   harness only uses keys "attr-NN"), because BTreeMap iteration order is observable there. *)
From Coq Require Import List NArith Bool.
Import ListNotations.
Open Scope N_scope.

Definition str := N.

(* kanidm_proto::internal::Group *)
Record group := mkgroup { g_spn : str; g_uuid : str }.
(* RadiusAuthToken (displayname is never read by the module) *)
Record token := mktoken { t_name : str; t_uuid : str; t_secret : str; t_groups : list group }.
(* RadiusGroupConfig: spn, vlan, reply_attributes (a BTreeMap: ascending unique keys) *)
Record gcfg := mkgcfg { c_spn : str; c_vlan : N; c_attrs : list (N * str) }.
(* the fields of KanidmRadiusConfig that the module logic reads *)
Record config := mkconfig { k_required : list str; k_default : N; k_groups : list gcfg }.
(* AuthRequest *)
Record request := mkreq { r_san : option str; r_cn : option str; r_user : option str }.

(* what the kanidm server answers for GET /v1/account/{id}/_radius/_token *)
Inductive resp := RespToken (t : token) | RespStatus (code : N) | RespGarbage.
Definition directory := list (str * resp).

Inductive err := EReject | EFail | EHandled | EInvalid | EUserLock | ENotFound | ENoOp | EUpdated.
Inductive result :=
| RErr (e : err)
| ROk (user_name uuid : str) (tunnel_ok : bool) (vlan : N) (attrs : list (N * str)) (secret : option str).

(* ------------------------------------------------------------------ BTreeMap<N, V> as an ascending assoc list *)
Fixpoint sinsert {V} (k : N) (v : V) (m : list (N * V)) : list (N * V) :=
  match m with
  | [] => [(k, v)]
  | (k', v') :: r =>
      if k <? k' then (k, v) :: m
      else if k =? k' then (k, v) :: r
      else (k', v') :: sinsert k v r
  end.
Fixpoint alookup {V} (k : N) (m : list (N * V)) : option V :=
  match m with
  | [] => None
  | (k', v) :: r => if k =? k' then Some v else alookup k r
  end.
(* BTreeMap::extend / FromIterator: insert the pairs one after the other *)
Definition extend {V} (m : list (N * V)) (l : list (N * V)) : list (N * V) :=
  fold_left (fun acc kv => sinsert (fst kv) (snd kv) acc) l m.

(* ------------------------------------------------------------------ Module::from_config (the two maps) *)
(* required_groups : BTreeSet<String> = cfg.radius_required_groups.iter().cloned().collect();
   only `contains` is ever used on it *)
Definition set_contains (x : str) (s : list str) : bool := existsb (N.eqb x) s.
(* group_configs : BTreeMap<String, GroupConfig> = radius_groups.iter().map(|g| (g.spn, cfg)).collect()
   (only `get` is used on it, so the key order of the map is not observable) *)
Definition group_configs (c : config) : list (N * gcfg) :=
  extend [] (map (fun g => (c_spn g, g)) (k_groups c)).

(* ------------------------------------------------------------------ AuthRequest::user_id *)
Definition orelse {A} (a b : option A) : option A := match a with Some _ => a | None => b end.
Definition user_id (r : request) : option str := orelse (orelse (r_san r) (r_cn r)) (r_user r).

(* ------------------------------------------------------------------ fetch_token (through kanidm_client) *)
Inductive fetched := FTok (t : token) | FNone | FErr.
Fixpoint dir_get (id : str) (d : directory) : resp :=
  match d with
  | [] => RespStatus 404
  | (k, r) :: t => if id =? k then r else dir_get id t
  end.
Definition fetch_token (d : directory) (id : str) : fetched :=
  match dir_get id d with
  | RespToken t => FTok t                               (* 200 + valid JSON *)
  | RespStatus code => if code =? 404 then FNone else FErr  (* ClientError::Http(404) => Ok(None); else Err *)
  | RespGarbage => FErr                                 (* 200 + undecodable body: JsonDecode error *)
  end.

(* ------------------------------------------------------------------ user_in_required_groups *)
Definition user_in_required_groups (required : list str) (user_groups : list group) : bool :=
  existsb (fun g => set_contains (g_uuid g) required || set_contains (g_spn g) required) user_groups.

(* ------------------------------------------------------------------ resolve_group_configs *)
Definition resolve_step (gc : list (N * gcfg)) (acc : N * list (N * str)) (g : group) : N * list (N * str) :=
  match alookup (g_spn g) gc with
  | Some c => (c_vlan c, extend (snd acc) (c_attrs c))
  | None => acc
  end.
Definition resolve_group_configs (c : config) (user_groups : list group) : N * list (N * str) :=
  fold_left (resolve_step (group_configs c)) user_groups (k_default c, []).

(* ------------------------------------------------------------------ authorise *)
Definition authorise (c : config) (d : directory) (r : request) : result :=
  match user_id r with
  | None => RErr EFail
  | Some id =>
      match fetch_token d id with
      | FNone => RErr ENotFound
      | FErr => RErr EFail
      | FTok tok =>
          if negb (user_in_required_groups (k_required c) (t_groups tok)) then RErr EReject
          else
            let va := resolve_group_configs c (t_groups tok) in
            ROk (t_name tok) (t_uuid tok) true (fst va) (snd va) (Some (t_secret tok))
      end
  end.

(* ================================================================== the property, stated independently *)
(* the request's user id by explicit precedence *)
Definition spec_user_id (r : request) : option str :=
  match r_san r, r_cn r, r_user r with
  | Some x, _, _ => Some x
  | None, Some x, _ => Some x
  | None, None, u => u
  end.
(* the mapping the administrator configured for a group spn: the LAST radius_groups entry for it *)
Definition mapping_of (c : config) (spn : str) : option gcfg :=
  find (fun g => c_spn g =? spn) (rev (k_groups c)).
Definition has_mapping (c : config) (g : group) : bool :=
  match mapping_of c (g_spn g) with Some _ => true | None => false end.
(* "belongs, by UUID or SPN, to at least one configured required group" — iterating the other way round *)
Definition member_spec (required : list str) (gs : list group) : bool :=
  existsb (fun r => existsb (fun g => (r =? g_uuid g) || (r =? g_spn g)) gs) required.
(* "the VLAN of the last of the user's groups with a VLAN mapping, or the default VLAN" *)
Definition vlan_spec (c : config) (gs : list group) : N :=
  match find (has_mapping c) (rev gs) with
  | Some g => match mapping_of c (g_spn g) with Some m => c_vlan m | None => k_default c end
  | None => k_default c
  end.
(* all reply attributes offered by the user's mapped groups, in group order *)
Definition offered_attrs (c : config) (gs : list group) : list (N * str) :=
  flat_map (fun g => match mapping_of c (g_spn g) with Some m => c_attrs m | None => [] end) gs.
(* the last offer for a key wins *)
Definition attr_spec (c : config) (gs : list group) (k : N) : option str :=
  alookup k (rev (offered_attrs c gs)).

Fixpoint strictly_ascending {V} (m : list (N * V)) : bool :=
  match m with
  | [] => true
  | (k, _) :: r => match r with [] => true | (k', _) :: _ => (k <? k') && strictly_ascending r end
  end.
Definition opt_eqb (a b : option N) : bool :=
  match a, b with Some x, Some y => x =? y | None, None => true | _, _ => false end.

Definition err_eqb (a b : err) : bool :=
  match a, b with
  | EReject, EReject | EFail, EFail | EHandled, EHandled | EInvalid, EInvalid
  | EUserLock, EUserLock | ENotFound, ENotFound | ENoOp, ENoOp | EUpdated, EUpdated => true
  | _, _ => false
  end.

(* the property's sentence evaluated on an observed result *)
Definition spec_ok (c : config) (d : directory) (r : request) (out : result) : bool :=
  match out with
  | ROk name uuid tun vlan attrs secret =>
      (* a secret (indeed any Ok answer) only for a user that was found and is a member ... *)
      match spec_user_id r with
      | None => false
      | Some id =>
          match dir_get id d with
          | RespToken tok =>
              member_spec (k_required c) (t_groups tok)
              (* ... it is THAT user's secret, name and uuid ... *)
              && opt_eqb secret (Some (t_secret tok)) && (name =? t_name tok) && (uuid =? t_uuid tok) && tun
              (* ... with the VLAN of the last mapped group or the default ... *)
              && (vlan =? vlan_spec c (t_groups tok))
              (* ... and the reply attributes: a well-formed map in which the last offer wins *)
              && strictly_ascending attrs
              && forallb (fun k => opt_eqb (alookup k attrs) (attr_spec c (t_groups tok) k))
                         (map fst attrs ++ map fst (offered_attrs c (t_groups tok)))
          | _ => false
          end
      end
  | RErr e =>
      (* completeness: the refusal is the right one *)
      match spec_user_id r with
      | None => err_eqb e EFail
      | Some id =>
          match dir_get id d with
          | RespToken tok => err_eqb e EReject && negb (member_spec (k_required c) (t_groups tok))
          | RespStatus code => if code =? 404 then err_eqb e ENotFound else err_eqb e EFail
          | RespGarbage => err_eqb e EFail
          end
      end
  end.

(* ------------------------------------------------------------------ correspondence *)
Fixpoint attrs_eqb (a b : list (N * str)) : bool :=
  match a, b with
  | [], [] => true
  | (k, v) :: a', (k', v') :: b' => (k =? k') && (v =? v') && attrs_eqb a' b'
  | _, _ => false
  end.
Definition result_eqb (a b : result) : bool :=
  match a, b with
  | RErr x, RErr y => err_eqb x y
  | ROk n u t v at_ s, ROk n' u' t' v' at' s' =>
      (n =? n') && (u =? u') && Bool.eqb t t' && (v =? v') && attrs_eqb at_ at' && opt_eqb s s'
  | _, _ => false
  end.

Inductive case := CAuth (c : config) (d : directory) (r : request) (impl : result).

Definition agree (c : case) : bool :=
  match c with CAuth cfg d r impl => result_eqb (authorise cfg d r) impl end.
Definition pcheck (c : case) : bool :=
  match c with CAuth cfg d r impl => spec_ok cfg d r impl end.
Definition known (_ : case) : bool := false.
