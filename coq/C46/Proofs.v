(* KV.C46.Proofs *)
From Coq Require Import List NArith Bool Lia.
Import ListNotations.
Require Import KV.C46.Model.
Open Scope N_scope.
Arguments N.ltb : simpl never.
Arguments N.eqb : simpl never.

(* ------------------------------------------------------------------ the ascending assoc list behaves as a map *)
Lemma alookup_sinsert {V} k k' (v : V) m :
  alookup k (sinsert k' v m) = if k =? k' then Some v else alookup k m.
Proof.
  induction m as [|[k0 v0] r IH]; cbn [sinsert alookup].
  - reflexivity.
  - destruct (k' <? k0) eqn:Elt.
    + cbn [alookup]. reflexivity.
    + destruct (k' =? k0) eqn:Eeq.
      * apply N.eqb_eq in Eeq. subst k0. cbn [alookup]. destruct (k =? k'); reflexivity.
      * cbn [alookup]. rewrite IH. destruct (k =? k0) eqn:E0; [|reflexivity].
        destruct (k =? k') eqn:E1; [|reflexivity].
        apply N.eqb_eq in E0, E1. subst. rewrite N.eqb_refl in Eeq. discriminate.
Qed.

Lemma alookup_app {V} k (a b : list (N * V)) :
  alookup k (a ++ b) = match alookup k a with Some v => Some v | None => alookup k b end.
Proof.
  induction a as [|[k0 v0] a IH]; cbn [app alookup]; [reflexivity|].
  destruct (k =? k0); [reflexivity | exact IH].
Qed.

Lemma extend_cons {V} (m : list (N * V)) a l :
  extend m (a :: l) = extend (sinsert (fst a) (snd a) m) l.
Proof. reflexivity. Qed.

Lemma extend_app {V} (m : list (N * V)) l1 l2 : extend m (l1 ++ l2) = extend (extend m l1) l2.
Proof. unfold extend. apply fold_left_app. Qed.

(* after inserting the pairs of l one by one, the LAST pair for a key wins, else the old map *)
Lemma alookup_extend {V} k : forall (l m : list (N * V)),
  alookup k (extend m l) = match alookup k (rev l) with Some v => Some v | None => alookup k m end.
Proof.
  induction l as [|[k0 v0] l IH]; intros m.
  - reflexivity.
  - rewrite extend_cons, IH. cbn [rev fst snd]. rewrite alookup_app.
    destruct (alookup k (rev l)); [reflexivity|].
    rewrite alookup_sinsert. cbn [alookup]. destruct (k =? k0); reflexivity.
Qed.

Definition lb {V} (b : N) (m : list (N * V)) : bool :=
  match m with [] => true | (k, _) :: _ => b <? k end.

Lemma sa_cons {V} k (v : V) r : strictly_ascending ((k, v) :: r) = lb k r && strictly_ascending r.
Proof. destruct r as [|[k' v'] r]; reflexivity. Qed.

Lemma lb_sinsert {V} b k (v : V) m : lb b m = true -> b <? k = true -> lb b (sinsert k v m) = true.
Proof.
  intros Hm Hk. destruct m as [|[k0 v0] r]; cbn [sinsert].
  - exact Hk.
  - destruct (k <? k0); [exact Hk|]. destruct (k =? k0); [exact Hk | exact Hm].
Qed.

Lemma sa_sinsert {V} k (v : V) : forall m,
  strictly_ascending m = true -> strictly_ascending (sinsert k v m) = true.
Proof.
  induction m as [|[k0 v0] r IH]; intros H; [reflexivity|].
  rewrite sa_cons in H. apply andb_true_iff in H as [Hlb Hsa]. cbn [sinsert].
  destruct (k <? k0) eqn:E1.
  - rewrite sa_cons. cbn [lb]. rewrite E1, sa_cons, Hlb, Hsa. reflexivity.
  - destruct (k =? k0) eqn:E2.
    + apply N.eqb_eq in E2. subst k0. rewrite sa_cons, Hlb, Hsa. reflexivity.
    + rewrite sa_cons, (IH Hsa), andb_true_r. apply lb_sinsert; [exact Hlb|].
      apply N.ltb_lt. apply N.ltb_ge in E1. apply N.eqb_neq in E2. lia.
Qed.

Lemma sa_extend {V} : forall (l m : list (N * V)),
  strictly_ascending m = true -> strictly_ascending (extend m l) = true.
Proof.
  induction l as [|a l IH]; intros m H; [exact H|].
  rewrite extend_cons. apply IH. apply sa_sinsert. exact H.
Qed.

(* ------------------------------------------------------------------ find *)
Lemma find_app' {A} (f : A -> bool) a b :
  find f (a ++ b) = match find f a with Some x => Some x | None => find f b end.
Proof. induction a as [|x a IH]; cbn [app find]; [reflexivity|]. destruct (f x); [reflexivity | exact IH]. Qed.

Lemma find_all_false {A} (f : A -> bool) l : (forall x, In x l -> f x = false) -> find f l = None.
Proof.
  induction l as [|x l IH]; intros H; [reflexivity|]. cbn [find].
  rewrite (H x (or_introl eq_refl)). apply IH. intros y Hy. apply H. right. exact Hy.
Qed.

(* the last element satisfying f, when everything after it does not *)
Lemma find_rev_last {A} (f : A -> bool) pre x post :
  f x = true -> (forall y, In y post -> f y = false) -> find f (rev (pre ++ x :: post)) = Some x.
Proof.
  intros Hx Hp. rewrite rev_app_distr. cbn [rev]. rewrite <- app_assoc, find_app'.
  rewrite find_all_false.
  - cbn [app find]. rewrite Hx. reflexivity.
  - intros y Hy. apply Hp. apply in_rev. exact Hy.
Qed.

(* ------------------------------------------------------------------ group_configs: the last entry for an spn wins *)
Lemma alookup_map_find spn (l : list gcfg) :
  alookup spn (map (fun g => (c_spn g, g)) l) = find (fun g => c_spn g =? spn) l.
Proof.
  induction l as [|g l IH]; cbn [map alookup find]; [reflexivity|].
  rewrite (N.eqb_sym spn). destruct (c_spn g =? spn); [reflexivity | exact IH].
Qed.

Lemma group_configs_lookup c spn : alookup spn (group_configs c) = mapping_of c spn.
Proof.
  unfold group_configs, mapping_of. rewrite alookup_extend, <- map_rev, alookup_map_find.
  cbn [alookup]. destruct (find _ _); reflexivity.
Qed.

(* ------------------------------------------------------------------ resolve_group_configs *)
Definition vlan_of (c : config) (g : group) : N :=
  match mapping_of c (g_spn g) with Some m => c_vlan m | None => k_default c end.

Lemma resolve_step_eq c v a g :
  resolve_step (group_configs c) (v, a) g =
  match mapping_of c (g_spn g) with
  | Some m => (c_vlan m, extend a (c_attrs m))
  | None => (v, a)
  end.
Proof. unfold resolve_step. rewrite group_configs_lookup. reflexivity. Qed.

Lemma resolve_fold c : forall gs v a,
  fold_left (resolve_step (group_configs c)) gs (v, a) =
  (match find (has_mapping c) (rev gs) with Some g => vlan_of c g | None => v end,
   extend a (offered_attrs c gs)).
Proof.
  induction gs as [|g gs IH]; intros v a; [reflexivity|].
  cbn [fold_left]. rewrite resolve_step_eq.
  destruct (mapping_of c (g_spn g)) as [m|] eqn:Em; rewrite IH; cbn [rev]; rewrite find_app'.
  - f_equal.
    + destruct (find (has_mapping c) (rev gs)); [reflexivity|].
      assert (Hh : has_mapping c g = true) by (unfold has_mapping; rewrite Em; reflexivity).
      cbn [find]. rewrite Hh. unfold vlan_of. rewrite Em. reflexivity.
    + unfold offered_attrs. cbn [flat_map]. rewrite Em, extend_app. reflexivity.
  - f_equal.
    + destruct (find (has_mapping c) (rev gs)); [reflexivity|].
      assert (Hh : has_mapping c g = false) by (unfold has_mapping; rewrite Em; reflexivity).
      cbn [find]. rewrite Hh. reflexivity.
    + unfold offered_attrs. cbn [flat_map]. rewrite Em. reflexivity.
Qed.

Lemma resolve_vlan c gs : fst (resolve_group_configs c gs) = vlan_spec c gs.
Proof.
  unfold resolve_group_configs. rewrite resolve_fold. cbn [fst]. unfold vlan_spec, vlan_of.
  destruct (find (has_mapping c) (rev gs)); reflexivity.
Qed.

Lemma resolve_attrs c gs : snd (resolve_group_configs c gs) = extend [] (offered_attrs c gs).
Proof. unfold resolve_group_configs. rewrite resolve_fold. reflexivity. Qed.

Lemma resolve_attr_lookup c gs k : alookup k (snd (resolve_group_configs c gs)) = attr_spec c gs k.
Proof.
  rewrite resolve_attrs, alookup_extend. unfold attr_spec. cbn [alookup].
  destruct (alookup k (rev (offered_attrs c gs))); reflexivity.
Qed.

Lemma resolve_sa c gs : strictly_ascending (snd (resolve_group_configs c gs)) = true.
Proof. rewrite resolve_attrs. apply sa_extend. reflexivity. Qed.

(* ------------------------------------------------------------------ membership *)
Lemma set_contains_In x s : set_contains x s = true <-> In x s.
Proof.
  unfold set_contains. rewrite existsb_exists. split.
  - intros [y [Hy H]]. apply N.eqb_eq in H. subst y. exact Hy.
  - intros H. exists x. split; [exact H | apply N.eqb_refl].
Qed.

Lemma member_iff req gs :
  user_in_required_groups req gs = true <->
  exists g, In g gs /\ (In (g_uuid g) req \/ In (g_spn g) req).
Proof.
  unfold user_in_required_groups. rewrite existsb_exists. split.
  - intros [g [Hg H]]. exists g. split; [exact Hg|].
    apply orb_true_iff in H as [H|H]; apply set_contains_In in H; [left | right]; exact H.
  - intros [g [Hg H]]. exists g. split; [exact Hg|]. apply orb_true_iff.
    destruct H as [H|H]; [left | right]; apply set_contains_In; exact H.
Qed.

Lemma member_spec_iff req gs :
  member_spec req gs = true <->
  exists g, In g gs /\ (In (g_uuid g) req \/ In (g_spn g) req).
Proof.
  unfold member_spec. rewrite existsb_exists. split.
  - intros [r [Hr H]]. apply existsb_exists in H as [g [Hg H]]. exists g. split; [exact Hg|].
    apply orb_true_iff in H as [H|H]; apply N.eqb_eq in H; subst r; [left | right]; exact Hr.
  - intros [g [Hg [H|H]]].
    + exists (g_uuid g). split; [exact H|]. apply existsb_exists. exists g. split; [exact Hg|].
      rewrite N.eqb_refl. reflexivity.
    + exists (g_spn g). split; [exact H|]. apply existsb_exists. exists g. split; [exact Hg|].
      rewrite N.eqb_refl. apply orb_true_r.
Qed.

Lemma member_spec_eq req gs : member_spec req gs = user_in_required_groups req gs.
Proof. apply eq_true_iff_eq. rewrite member_spec_iff, member_iff. reflexivity. Qed.

Lemma spec_user_id_eq r : spec_user_id r = user_id r.
Proof. destruct r as [[s|] [c|] [u|]]; reflexivity. Qed.

(* ------------------------------------------------------------------ boolean equalities *)
Lemma opt_eqb_refl a : opt_eqb a a = true.
Proof. destruct a; cbn; [apply N.eqb_refl | reflexivity]. Qed.
Lemma opt_eqb_eq a b : opt_eqb a b = true -> a = b.
Proof. destruct a, b; cbn; intros H; try discriminate; [apply N.eqb_eq in H; subst|]; reflexivity. Qed.
Lemma err_eqb_eq a b : err_eqb a b = true -> a = b.
Proof. destruct a, b; cbn; intros H; try discriminate; reflexivity. Qed.
Lemma err_eqb_refl a : err_eqb a a = true.
Proof. destruct a; reflexivity. Qed.
Lemma attrs_eqb_eq : forall a b, attrs_eqb a b = true -> a = b.
Proof.
  induction a as [|[k v] a IH]; intros [|[k' v'] b] H; cbn [attrs_eqb] in H; try discriminate; [reflexivity|].
  apply andb_true_iff in H as [H H3]. apply andb_true_iff in H as [H1 H2].
  apply N.eqb_eq in H1, H2. subst. rewrite (IH b H3). reflexivity.
Qed.
Lemma result_eqb_eq a b : result_eqb a b = true -> a = b.
Proof.
  destruct a as [e|n u t v at_ s], b as [e'|n' u' t' v' at' s']; cbn [result_eqb]; intros H; try discriminate.
  - rewrite (err_eqb_eq _ _ H). reflexivity.
  - repeat (apply andb_true_iff in H as [H ?]).
    apply N.eqb_eq in H. subst n'.
    match goal with X : (u =? u') = true |- _ => apply N.eqb_eq in X; subst u' end.
    match goal with X : Bool.eqb t t' = true |- _ => apply Bool.eqb_prop in X; subst t' end.
    match goal with X : (v =? v') = true |- _ => apply N.eqb_eq in X; subst v' end.
    match goal with X : attrs_eqb at_ at' = true |- _ => apply attrs_eqb_eq in X; subst at' end.
    match goal with X : opt_eqb s s' = true |- _ => apply opt_eqb_eq in X; subst s' end.
    reflexivity.
Qed.

(* ------------------------------------------------------------------ the transcription satisfies the property, for ALL inputs *)
Theorem authorise_spec_ok c d r : spec_ok c d r (authorise c d r) = true.
Proof.
  unfold authorise. rewrite <- spec_user_id_eq.
  destruct (spec_user_id r) as [id|] eqn:Eid.
  2:{ unfold spec_ok. rewrite Eid. reflexivity. }
  unfold fetch_token. destruct (dir_get id d) as [tok|code|] eqn:Ed.
  - destruct (user_in_required_groups (k_required c) (t_groups tok)) eqn:Em; cbn [negb].
    + unfold spec_ok. rewrite Eid, Ed, member_spec_eq, Em. cbn [opt_eqb].
      rewrite !N.eqb_refl, resolve_vlan, N.eqb_refl, resolve_sa. cbn [andb].
      apply forallb_forall. intros k _. rewrite resolve_attr_lookup. apply opt_eqb_refl.
    + unfold spec_ok. rewrite Eid, Ed, member_spec_eq, Em. reflexivity.
  - destruct (code =? 404) eqn:Ec; unfold spec_ok; rewrite Eid, Ed, Ec; reflexivity.
  - unfold spec_ok. rewrite Eid, Ed. reflexivity.
Qed.

Theorem agree_implies_pcheck c : agree c = true -> pcheck c = true.
Proof.
  destruct c as [cfg d r impl]. cbn [agree pcheck]. intros H.
  apply result_eqb_eq in H. subst impl. apply authorise_spec_ok.
Qed.

(* ------------------------------------------------------------------ soundness of the executable predicate *)
Lemma spec_ok_secret c d r name uuid tun vlan attrs s :
  spec_ok c d r (ROk name uuid tun vlan attrs (Some s)) = true ->
  exists id tok, user_id r = Some id /\ dir_get id d = RespToken tok /\
    s = t_secret tok /\ name = t_name tok /\ uuid = t_uuid tok /\
    (exists g, In g (t_groups tok) /\ (In (g_uuid g) (k_required c) \/ In (g_spn g) (k_required c))) /\
    vlan = vlan_spec c (t_groups tok) /\
    (forall k, alookup k attrs = attr_spec c (t_groups tok) k).
Proof.
  unfold spec_ok. rewrite spec_user_id_eq. destruct (user_id r) as [id|]; [|discriminate].
  destruct (dir_get id d) as [tok| |] eqn:Ed; try discriminate. intros H.
  repeat (apply andb_true_iff in H as [H ?]).
  exists id, tok. split; [reflexivity|]. split; [exact Ed|].
  match goal with X : opt_eqb _ _ = true |- _ => apply opt_eqb_eq in X; injection X as -> end.
  match goal with X : (name =? _) = true |- _ => apply N.eqb_eq in X; subst name end.
  match goal with X : (uuid =? _) = true |- _ => apply N.eqb_eq in X; subst uuid end.
  match goal with X : (vlan =? _) = true |- _ => apply N.eqb_eq in X; subst vlan end.
  apply member_spec_iff in H.
  repeat (split; [first [reflexivity | exact H]|]).
  intros k.
  match goal with X : forallb _ _ = true |- _ => rename X into Hall end.
  rewrite forallb_forall in Hall.
  destruct (in_dec N.eq_dec k (map fst attrs ++ map fst (offered_attrs c (t_groups tok)))) as [Hin|Hnin].
  - apply opt_eqb_eq. apply Hall. exact Hin.
  - (* a key that occurs nowhere: both lookups are None *)
    assert (Hnone : forall (l : list (N * str)), ~ In k (map fst l) -> alookup k l = None).
    { induction l as [|[k0 v0] l IHl]; intros Hn; [reflexivity|]. cbn [alookup].
      destruct (k =? k0) eqn:E; [apply N.eqb_eq in E; subst; exfalso; apply Hn; left; reflexivity|].
      apply IHl. intros Hc. apply Hn. right. exact Hc. }
    rewrite Hnone by (intros Hc; apply Hnin; apply in_or_app; left; exact Hc).
    unfold attr_spec. rewrite Hnone; [reflexivity|].
    intros Hc. apply Hnin. apply in_or_app. right.
    rewrite map_rev in Hc. apply in_rev in Hc. exact Hc.
Qed.
