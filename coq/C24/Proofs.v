(* KV.C24.Proofs — lemmas and proofs for the write access decisions. *)
From Coq Require Import List NArith Bool Lia.
Import ListNotations.
Require Import KV.C24.Model.
Open Scope N_scope.

(* ------------------------------------------------------------------ list-set facts *)
Lemma mem_In x l : mem x l = true <-> In x l.
Proof.
  unfold mem. rewrite existsb_exists. split.
  - intros [y [Hy He]]. apply N.eqb_eq in He. subst. exact Hy.
  - intros H. exists x. split; [exact H | apply N.eqb_refl].
Qed.
Lemma mem_app x a b : mem x (a ++ b) = mem x a || mem x b.
Proof. unfold mem. apply existsb_app. Qed.
Lemma mem_filter x P l : mem x (filter P l) = mem x l && P x.
Proof.
  induction l as [|y l IH]; [reflexivity|]. cbn [filter].
  destruct (P y) eqn:Py; cbn [mem existsb]; fold (mem x l); fold (mem x (filter P l)); rewrite IH.
  - destruct (N.eqb_spec x y) as [->|Hne]; cbn [orb]; [rewrite Py; destruct (mem y l); reflexivity | reflexivity].
  - destruct (N.eqb_spec x y) as [->|Hne]; cbn [orb]; [rewrite Py, andb_false_r; reflexivity | reflexivity].
Qed.
Lemma mem_inter x a b : mem x (inter a b) = mem x a && mem x b.
Proof. unfold inter. apply mem_filter. Qed.
Lemma mem_diff x a b : mem x (diff a b) = mem x a && negb (mem x b).
Proof. unfold diff. apply mem_filter. Qed.
Lemma subset_forallb a b : subset a b = forallb (fun x => mem x b) a.
Proof. reflexivity. Qed.
Lemma subset_In a b : subset a b = true <-> (forall x, In x a -> In x b).
Proof.
  unfold subset. rewrite forallb_forall. split; intros H x Hx.
  - apply mem_In. apply H. exact Hx.
  - apply mem_In. apply H. exact Hx.
Qed.
Lemma forallb_andb {A} (f g : A -> bool) l :
  forallb (fun x => f x && g x) l = forallb f l && forallb g l.
Proof.
  induction l as [|x l IH]; [reflexivity|]. cbn [forallb]. rewrite IH.
  destruct (f x), (g x), (forallb f l), (forallb g l); reflexivity.
Qed.
Lemma forallb_ext' {A} (f g : A -> bool) l : (forall x, f x = g x) -> forallb f l = forallb g l.
Proof. intros H. induction l as [|x l IH]; [reflexivity|]. cbn [forallb]. rewrite H, IH. reflexivity. Qed.
Lemma existsb_ext' {A} (f g : A -> bool) l : (forall x, f x = g x) -> existsb f l = existsb g l.
Proof. intros H. induction l as [|x l IH]; [reflexivity|]. cbn [existsb]. rewrite H, IH. reflexivity. Qed.
Lemma mem_flat_filter (sel : acp -> list N) (P : acp -> bool) l x :
  mem x (flat_map sel (filter P l)) = existsb (fun a => P a && mem x (sel a)) l.
Proof.
  induction l as [|a l IH]; [reflexivity|]. cbn [filter existsb].
  destruct (P a); cbn [flat_map andb orb].
  - rewrite mem_app, IH. reflexivity.
  - exact IH.
Qed.
Lemma intersects_single cl k : intersects cl [k] = mem k cl.
Proof.
  unfold intersects, mem. apply existsb_ext'. intros x. cbn [existsb]. rewrite orb_false_r. apply N.eqb_sym.
Qed.
Lemma intersects_mem cl l k : mem k cl = true -> mem k l = true -> intersects cl l = true.
Proof.
  intros H1 H2. unfold intersects. apply existsb_exists. exists k. split; [apply mem_In; exact H1 | exact H2].
Qed.
Lemma disjoint_mem_false cl l k : disjoint cl l = true -> mem k l = true -> mem k cl = false.
Proof.
  unfold disjoint. intros H1 H2. destruct (mem k cl) eqn:E; [|reflexivity].
  rewrite (intersects_mem cl l k E H2) in H1. discriminate.
Qed.
Lemma ava_keys a e vs : ava a e = Some vs -> In a (attr_keys e).
Proof.
  induction e as [|[k v] e IH]; cbn [ava]; [discriminate|].
  destruct (N.eqb_spec a k) as [->|Hne]; intros H.
  - left. reflexivity.
  - right. apply IH. exact H.
Qed.
Lemma subset_nil_keys a e vs : ava a e = Some vs -> subset (attr_keys e) [] = false.
Proof.
  intros H. apply ava_keys in H. destruct (attr_keys e) as [|k r]; [destruct H | reflexivity].
Qed.

(* ------------------------------------------------------------------ profiles *)
Lemma scoped_matches i e a : scoped i e a = acp_matches i e a.
Proof.
  unfold scoped, related, recv_ok, target_ok, acp_matches.
  destruct (a_recv a), (a_target a); cbn [andb];
    rewrite ?andb_true_r, ?andb_false_r; reflexivity.
Qed.
Lemma mem_allow_granted sel i l e x :
  mem x (flat_map sel (filter (scoped i e) l)) = granted sel i l e x.
Proof.
  rewrite mem_flat_filter. unfold granted. apply existsb_ext'. intros a. rewrite scoped_matches. reflexivity.
Qed.
Lemma granted_exists sel i l e x :
  granted sel i l e x = true <-> exists a, In a l /\ acp_matches i e a = true /\ In x (sel a).
Proof.
  unfold granted. rewrite existsb_exists. split.
  - intros [a [Ha H]]. apply andb_true_iff in H as [H1 H2]. exists a. repeat split; try assumption. apply mem_In. exact H2.
  - intros [a [Ha [H1 H2]]]. exists a. split; [exact Ha|]. apply andb_true_iff. split; [exact H1 | apply mem_In; exact H2].
Qed.

(* ------------------------------------------------------------------ modify, user identities *)
Definition user_deny (i : ident) (e : entry) : bool :=
  negb (scope_rw i) || is_tombstone e
  || (mod_protected e && is_empty (protected_table (cur_classes e)))
  || (is_sync_object e && match single A_SyncParentUuid e with Some _ => false | None => true end).

Lemma tombstone_protected cl :
  mem K_Tombstone cl = true -> disjoint cl PROTECTED_MOD_ENTRY_CLASSES = false.
Proof.
  intros H. unfold disjoint. rewrite (intersects_mem cl PROTECTED_MOD_ENTRY_CLASSES K_Tombstone H); reflexivity.
Qed.
Lemma SYNC_BASE_nonempty l : is_empty (SYNC_BASE ++ l) = false.
Proof. reflexivity. Qed.
Lemma is_empty_app {A} (a b : list A) : is_empty (a ++ b) = is_empty a && is_empty b.
Proof. destruct a; reflexivity. Qed.

Local Opaque protected_table SYNC_BASE PROTECTED_MOD_ENTRY_CLASSES PROTECTED_MOD_PRES_ENTRY_CLASSES
  PROTECTED_MOD_REM_ENTRY_CLASSES.

Lemma apply_modify_user i A e : i_origin i = OUser ->
  apply_modify_access i (ac_modify A) (ac_sync A) e =
  if user_deny i e then RDeny else
  let con := touch_limit A e in
  let sa := filter (scoped i e) (ac_modify A) in
  RAllow (if negb (is_empty con) then inter con (flat_map a_s1 sa) else flat_map a_s1 sa)
         (if negb (is_empty con) then inter con (flat_map a_s2 sa) else flat_map a_s2 sa)
         (diff (flat_map a_c1 sa) PROTECTED_MOD_PRES_ENTRY_CLASSES)
         (diff (flat_map a_c2 sa) PROTECTED_MOD_REM_ENTRY_CLASSES).
Proof.
  intros Ho.
  unfold apply_modify_access, modify_ident_test, modify_migration_attrs, modify_protected_attrs,
    modify_sync_constrain, user_deny, touch_limit, scope_rw, is_tombstone, is_sync_object, has_class,
    mod_protected, cur_classes, modify_protected_entry_attrs.
  rewrite Ho.
  destruct (i_scope i); cbn [negb orb andb is_deny constrain_of]; try reflexivity.
  destruct (classes_of e) as [cl|] eqn:Ecl; cbn [negb orb andb is_deny constrain_of opt app is_empty].
  2:{ reflexivity. }
  destruct ((UUID_ANONYMOUS <? cuuid e) && disjoint cl PROTECTED_MOD_ENTRY_CLASSES) eqn:Enp;
    cbn [negb orb andb is_deny constrain_of opt app is_empty].
  - (* not protected *)
    apply andb_true_iff in Enp as [_ Hd].
    rewrite (disjoint_mem_false cl _ K_Tombstone Hd eq_refl). cbn [orb].
    destruct (mem K_SyncObject cl); cbn [negb orb andb is_deny constrain_of opt app is_empty]; [|reflexivity].
    destruct (single A_SyncParentUuid e); cbn [negb orb andb is_deny constrain_of opt app is_empty]; reflexivity.
  - (* protected *)
    unfold disjoint, LOCKED_ENTRY_CLASSES. rewrite intersects_single, negb_involutive.
    destruct (mem K_Tombstone cl); cbn [negb orb andb is_deny constrain_of]; [reflexivity|].
    destruct (is_empty (protected_table cl)) eqn:Et; cbn [negb orb andb is_deny constrain_of]; [reflexivity|].
    destruct (mem K_SyncObject cl); cbn [negb orb andb is_deny constrain_of opt app is_empty].
    + destruct (single A_SyncParentUuid e); cbn [negb orb andb is_deny constrain_of opt app is_empty]; reflexivity.
    + rewrite !app_nil_r. reflexivity.
Qed.

Lemma limit_nonempty i A e : user_deny i e = false ->
  is_empty (touch_limit A e) = negb (mod_protected e || is_sync_object e).
Proof.
  unfold user_deny, touch_limit. intros H.
  apply orb_false_iff in H as [H H4]. apply orb_false_iff in H as [H H3]. apply orb_false_iff in H as [_ H2].
  rewrite is_empty_app.
  destruct (mod_protected e); cbn [opt andb orb negb] in *.
  - rewrite H3. reflexivity.
  - destruct (is_sync_object e); cbn [opt andb orb negb]; [apply SYNC_BASE_nonempty | reflexivity].
Qed.

Lemma subset_limited i A e sel req : user_deny i e = false ->
  subset req (if negb (is_empty (touch_limit A e))
              then inter (touch_limit A e) (flat_map sel (filter (scoped i e) (ac_modify A)))
              else flat_map sel (filter (scoped i e) (ac_modify A)))
  = forallb (fun a => granted sel i (ac_modify A) e a && within_limit A e a) req.
Proof.
  intros Hd. unfold within_limit. rewrite (limit_nonempty i A e Hd), negb_involutive.
  unfold subset. apply forallb_ext'. intros x.
  destruct (mod_protected e || is_sync_object e); cbn [negb orb].
  - rewrite mem_inter, mem_allow_granted. apply andb_comm.
  - rewrite mem_allow_granted, andb_true_r. reflexivity.
Qed.

Lemma subset_classes i A e sel req prot :
  subset req (diff (flat_map sel (filter (scoped i e) (ac_modify A))) prot)
  = forallb (fun c => granted sel i (ac_modify A) e c && negb (mem c prot)) req.
Proof.
  unfold subset. apply forallb_ext'. intros x. rewrite mem_diff, mem_allow_granted. reflexivity.
Qed.

(* a user's modify of one entry is decided exactly by the declarative specification *)
Theorem modify_user_exact i A e ml : i_origin i = OUser ->
  modify_entry i A e ml = spec_modify_user i A e ml.
Proof.
  intros Ho. unfold modify_entry, spec_modify_user.
  rewrite (apply_modify_user i A e Ho).
  destruct (user_deny i e) eqn:Hd.
  - (* denied by scope / tombstone / empty protection table / missing sync parent *)
    unfold user_deny in Hd.
    destruct (existsb is_purge_class ml); [rewrite andb_false_r; reflexivity|].
    destruct (existsb is_set_class ml && no_classes e); [rewrite !andb_false_r; reflexivity|].
    destruct (is_empty (adds ml) && is_empty (removes ml)); [rewrite !andb_false_r; reflexivity|].
    cbn [negb]. rewrite !andb_true_r.
    destruct (scope_rw i); cbn [negb orb andb] in *; [|reflexivity].
    destruct (is_tombstone e); cbn [negb orb andb] in *; [reflexivity|].
    destruct (mod_protected e); cbn [negb orb andb] in *.
    + destruct (is_empty (protected_table (cur_classes e))); cbn [negb orb andb] in *; [reflexivity|].
      destruct (is_sync_object e); cbn [negb orb andb] in *; [|discriminate].
      destruct (single A_SyncParentUuid e); [discriminate | reflexivity].
    + destruct (is_sync_object e); cbn [negb orb andb] in *; [|discriminate].
      destruct (single A_SyncParentUuid e); [discriminate | reflexivity].
  - cbv zeta. cbv beta iota. rewrite (subset_limited i A e a_s1 (adds ml) Hd), (subset_limited i A e a_s2 (removes ml) Hd),
      !subset_classes.
    unfold user_deny in Hd.
    apply orb_false_iff in Hd as [Hd H4]. apply orb_false_iff in Hd as [Hd H3]. apply orb_false_iff in Hd as [H1 H2].
    apply negb_false_iff in H1. rewrite H1, H2.
    assert (E3 : negb (mod_protected e) || negb (is_empty (protected_table (cur_classes e))) = true).
    { destruct (mod_protected e), (is_empty (protected_table (cur_classes e))); try reflexivity; discriminate. }
    assert (E4 : negb (is_sync_object e) || match single A_SyncParentUuid e with Some _ => true | None => false end = true).
    { destruct (is_sync_object e), (single A_SyncParentUuid e); try reflexivity; discriminate. }
    rewrite E3, E4.
    destruct (existsb is_purge_class ml); [reflexivity|].
    destruct (existsb is_set_class ml && no_classes e); [reflexivity|].
    destruct (is_empty (adds ml) && is_empty (removes ml)); [reflexivity|].
    cbn [negb andb]. rewrite <- !andb_assoc. reflexivity.
Qed.

(* ------------------------------------------------------------------ create, user identities *)
Local Opaque PROTECTED_ENTRY_CLASSES.

Lemma create_acp_allows_spec i e cl a :
  create_acp_allows i e cl a =
  (match a_recv a with RGroup _ => acp_matches i e a | _ => false end
   && subset (attr_keys e) (a_s1 a) && subset cl (a_c1 a)).
Proof.
  unfold create_acp_allows, related, target_ok, acp_matches.
  destruct (a_recv a), (a_target a); cbn [andb]; rewrite ?andb_true_r, ?andb_false_r; reflexivity.
Qed.

Theorem create_user_exact i A e : i_origin i = OUser ->
  create_entry i A e = spec_create_user i A e.
Proof.
  intros Ho. unfold create_entry, spec_create_user.
  destruct (classes_of e) as [cl|] eqn:Ecl; [|rewrite andb_false_r; reflexivity].
  unfold apply_create_access, create_protected_filter_entry, create_message_queue,
    create_migration_filter_entry, create_filter_entry, scope_rw.
  rewrite Ho, Ecl.
  rewrite (existsb_ext' _ _ (ac_create A) (create_acp_allows_spec i e cl)).
  set (X := existsb _ (ac_create A)).
  set (U := match euuid e with Some u => u <=? UUID_ANONYMOUS | None => false end).
  destruct U; cbn [i_deny i_grant i_pres i_cls orb andb negb app].
  { rewrite andb_false_r. reflexivity. }
  destruct (disjoint cl PROTECTED_ENTRY_CLASSES); cbn [i_deny i_grant i_pres i_cls orb andb negb app].
  - destruct (i_scope i); cbn [i_deny i_grant i_pres i_cls orb andb negb app]; try reflexivity.
    destruct X; cbn [i_deny i_grant i_pres i_cls orb andb negb app]; [reflexivity|].
    unfold classes_of in Ecl. rewrite (subset_nil_keys _ _ _ Ecl). reflexivity.
  - destruct (i_scope i); cbn [i_deny i_grant i_pres i_cls orb andb negb app]; reflexivity.
Qed.

(* ------------------------------------------------------------------ delete, user identities *)
Theorem delete_user_exact i A e : i_origin i = OUser ->
  delete_entry i A e = spec_delete_user i A e.
Proof.
  intros Ho. unfold delete_entry, spec_delete_user, delete_protected_filter_entry, delete_filter_entry, scope_rw.
  rewrite Ho. rewrite (existsb_ext' _ _ (ac_delete A) (scoped_matches i e)).
  rewrite (N.leb_antisym UUID_ANONYMOUS (cuuid e)).
  destruct (UUID_ANONYMOUS <? cuuid e); cbn [negb andb orb].
  2:{ rewrite andb_false_r. reflexivity. }
  destruct (classes_of e) as [cl|].
  - destruct (disjoint cl PROTECTED_ENTRY_CLASSES); cbn [negb andb orb].
    + destruct (i_scope i); cbn [negb andb orb]; try reflexivity.
      destruct (existsb (acp_matches i e) (ac_delete A)); reflexivity.
    + rewrite andb_false_r. reflexivity.
  - destruct (i_scope i); cbn [negb andb orb]; try reflexivity.
    destruct (existsb (acp_matches i e) (ac_delete A)); reflexivity.
Qed.

(* ------------------------------------------------------------------ all four operations *)
Theorem user_exact i A o e : i_origin i = OUser -> entry_decision i A o e = spec_user i A o e.
Proof.
  intros Ho. destruct o; cbn [entry_decision spec_user].
  - apply modify_user_exact; exact Ho.
  - apply create_user_exact; exact Ho.
  - apply delete_user_exact; exact Ho.
  - apply modify_user_exact; exact Ho.
Qed.
Theorem decide_user_exact i A es o : i_origin i = OUser ->
  decide i A es o = forallb (spec_user i A o) es.
Proof. intros Ho. unfold decide. apply forallb_ext'. intros e. apply user_exact. exact Ho. Qed.

(* every conjunct of the specification contains scope_rw *)
Lemma spec_user_rw i A o e : spec_user i A o e = true -> scope_rw i = true.
Proof.
  destruct o; cbn [spec_user]; unfold spec_modify_user, spec_create_user, spec_delete_user;
    destruct (scope_rw i); cbn [andb]; congruence.
Qed.

(* synchronisation identities: every entry-level decision is a denial *)
Theorem synch_entry_denied i A o e : i_origin i = OSynch -> entry_decision i A o e = false.
Proof.
  intros Ho.
  assert (Hm : forall ml, modify_entry i A e ml = false).
  { intros ml. unfold modify_entry.
    destruct (existsb is_purge_class ml); [reflexivity|].
    destruct (existsb is_set_class ml && no_classes e); [reflexivity|].
    destruct (is_empty (adds ml) && is_empty (removes ml)); [reflexivity|].
    unfold apply_modify_access, modify_ident_test, modify_migration_attrs, modify_protected_attrs.
    rewrite Ho. reflexivity. }
  destruct o; cbn [entry_decision].
  - apply Hm.
  - unfold create_entry. destruct (classes_of e); [|reflexivity].
    unfold apply_create_access, create_protected_filter_entry. rewrite Ho. reflexivity.
  - unfold delete_entry, delete_protected_filter_entry. rewrite Ho. reflexivity.
  - apply Hm.
Qed.

Lemma forallb_false_nonempty {A} (f : A -> bool) l :
  l <> [] -> (forall x, In x l -> f x = false) -> forallb f l = false.
Proof.
  destruct l as [|x l]; [congruence|]. intros _ H. cbn [forallb]. rewrite (H x (or_introl eq_refl)). reflexivity.
Qed.

(* ------------------------------------------------------------------ protected objects *)
Lemma forallb_neg_intersects (f : N -> bool) l P :
  intersects l P = true -> forallb (fun c => f c && negb (mem c P)) l = false.
Proof.
  unfold intersects. intros H. apply existsb_exists in H as [c [Hc Hm]].
  destruct (forallb (fun c => f c && negb (mem c P)) l) eqn:E; [|reflexivity].
  rewrite forallb_forall in E. specialize (E c Hc). rewrite Hm, andb_false_r in E. discriminate.
Qed.

Theorem protection_spec_false i A o e :
  protection_violation o e = true -> spec_user i A o e = false.
Proof.
  destruct o; cbn [protection_violation spec_user].
  - (* modify *)
    intros H. unfold spec_modify_user.
    apply orb_true_iff in H as [H|H]; [apply orb_true_iff in H as [H|H]; [apply orb_true_iff in H as [H|H]|]|].
    + rewrite H. cbn [negb]. rewrite andb_false_r. reflexivity.
    + rewrite H. cbn [negb]. rewrite !andb_false_r. reflexivity.
    + rewrite (forallb_neg_intersects _ _ _ H). rewrite !andb_false_r. reflexivity.
    + rewrite (forallb_neg_intersects _ _ _ H). rewrite !andb_false_r. reflexivity.
  - (* create *)
    intros H. unfold spec_create_user. apply orb_true_iff in H as [H|H].
    + rewrite H. cbn [negb]. rewrite andb_false_r. reflexivity.
    + unfold cur_classes in H. destruct (classes_of e) as [cl|]; [|rewrite andb_false_r; reflexivity].
      unfold disjoint. rewrite H. cbn [negb andb]. rewrite andb_false_r. reflexivity.
  - (* delete *)
    intros H. unfold spec_delete_user. apply orb_true_iff in H as [H|H].
    + rewrite (N.leb_antisym UUID_ANONYMOUS (cuuid e)) in H. apply negb_true_iff in H. rewrite H.
      rewrite andb_false_r. reflexivity.
    + unfold cur_classes in H. destruct (classes_of e) as [cl|]; [|discriminate].
      unfold disjoint. rewrite H. cbn [negb]. rewrite andb_false_r. reflexivity.
  - (* revive *)
    intros H. unfold spec_modify_user. rewrite H. cbn [negb]. rewrite !andb_false_r. reflexivity.
Qed.

(* what an allowed user modify implies, item by item *)
Lemma spec_modify_parts i A e ml : spec_modify_user i A e ml = true ->
  scope_rw i = true /\ existsb is_purge_class ml = false /\ is_tombstone e = false
  /\ forallb (fun a => granted a_s1 i (ac_modify A) e a && within_limit A e a) (adds ml) = true
  /\ forallb (fun a => granted a_s2 i (ac_modify A) e a && within_limit A e a) (removes ml) = true
  /\ forallb (fun c => granted a_c1 i (ac_modify A) e c && negb (mem c PROTECTED_MOD_PRES_ENTRY_CLASSES)) (cls_adds e ml) = true
  /\ forallb (fun c => granted a_c2 i (ac_modify A) e c && negb (mem c PROTECTED_MOD_REM_ENTRY_CLASSES)) (cls_rems e ml) = true.
Proof.
  unfold spec_modify_user. intros H.
  repeat (apply andb_true_iff in H as [H ?]).
  repeat split; try assumption.
  - apply negb_true_iff. assumption.
  - apply negb_true_iff. assumption.
Qed.

(* ------------------------------------------------------------------ bridge *)
Theorem agree_implies_pcheck c : agree c = true -> pcheck c = true.
Proof.
  destruct c as [i A es o impl | i A es o res unchanged]; cbn [agree pcheck].
  - intros H. apply eqb_prop in H. subst impl.
    destruct (i_origin i) eqn:Ho; try reflexivity.
    + rewrite (decide_user_exact i A es o Ho). apply eqb_reflx.
    + destruct es as [|e es]; [reflexivity|]. cbn [is_empty]. rewrite orb_false_r.
      unfold decide. cbn [forallb]. rewrite (synch_entry_denied i A o e Ho). reflexivity.
  - intros H.
    destruct (sres_ok res || negb unchanged) eqn:Hs; [|reflexivity].
    destruct (decide i A es o) eqn:Hd.
    2:{ apply andb_true_iff in H as [H1 H2]. subst unchanged. destruct res; discriminate. }
    destruct (i_origin i) eqn:Ho; try reflexivity.
    + rewrite <- (decide_user_exact i A es o Ho). exact Hd.
    + destruct es as [|e es]; [reflexivity|].
      unfold decide in Hd. cbn [forallb] in Hd. rewrite (synch_entry_denied i A o e Ho) in Hd. discriminate.
Qed.
