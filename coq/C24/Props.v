(* KV.C24.Props — property theorems only.
   Identities, profile sets, entries and modify lists are arbitrary (no size bound anywhere);
   `decide i A es o` is the transcription of the access decision of the four write operations
   (modify / create / delete / recycle-bin revive) for identity i, profiles A and targets es. *)
From Coq Require Import List NArith Bool.
Import ListNotations.
Require Import KV.C24.Model KV.C24.Proofs.
Open Scope N_scope.

(* A USER's write is decided exactly by the declarative specification: read-write scope, every
   added / removed attribute and class granted by a profile matching the user and the entry
   (create: one profile grants everything), within the protection rules. Both directions. *)
Theorem C24_user_decision_exact : forall i A es o,
  i_origin i = OUser -> decide i A es o = forallb (spec_user i A o) es.
Proof. exact decide_user_exact. Qed.

(* Modify succeeds ONLY IF every attribute it adds or removes and every class it adds or removes
   (for Set(class, ..): the difference with the entry's classes) is granted, for every target
   entry, by a modify profile matching that user and that entry. *)
Theorem C24_modify_needs_grants : forall i A es ml e,
  i_origin i = OUser -> decide i A es (OpModify ml) = true -> In e es ->
  (forall a, In a (adds ml) ->
     exists p, In p (ac_modify A) /\ acp_matches i e p = true /\ In a (a_s1 p)) /\
  (forall a, In a (removes ml) ->
     exists p, In p (ac_modify A) /\ acp_matches i e p = true /\ In a (a_s2 p)) /\
  (forall c, In c (cls_adds e ml) ->
     exists p, In p (ac_modify A) /\ acp_matches i e p = true /\ In c (a_c1 p)) /\
  (forall c, In c (cls_rems e ml) ->
     exists p, In p (ac_modify A) /\ acp_matches i e p = true /\ In c (a_c2 p)).
Proof.
  intros i A es ml e Ho Hd He. rewrite (decide_user_exact _ _ _ _ Ho) in Hd.
  rewrite forallb_forall in Hd. specialize (Hd e He). cbn [spec_user] in Hd.
  apply spec_modify_parts in Hd as (_ & _ & _ & H1 & H2 & H3 & H4).
  rewrite forallb_forall in H1, H2, H3, H4.
  repeat split; intros x Hx;
    [specialize (H1 x Hx) as H | specialize (H2 x Hx) as H | specialize (H3 x Hx) as H | specialize (H4 x Hx) as H];
    apply andb_true_iff in H as [H _]; apply granted_exists in H; exact H.
Qed.

(* On a protected entry (built-in uuid range or a protected class) and on a synchronised entry a
   user can touch only the attributes the protection table / sync agreement leaves open. *)
Theorem C24_modify_within_limits : forall i A es ml e a,
  i_origin i = OUser -> decide i A es (OpModify ml) = true -> In e es ->
  mod_protected e = true \/ is_sync_object e = true ->
  In a (adds ml) \/ In a (removes ml) -> In a (touch_limit A e).
Proof.
  intros i A es ml e a Ho Hd He Hp Ha. rewrite (decide_user_exact _ _ _ _ Ho) in Hd.
  rewrite forallb_forall in Hd. specialize (Hd e He). cbn [spec_user] in Hd.
  apply spec_modify_parts in Hd as (_ & _ & _ & H1 & H2 & _ & _).
  rewrite forallb_forall in H1, H2.
  assert (Hw : within_limit A e a = true).
  { destruct Ha as [Ha|Ha]; [specialize (H1 a Ha) as H | specialize (H2 a Ha) as H];
      apply andb_true_iff in H as [_ H]; exact H. }
  unfold within_limit in Hw. apply mem_In.
  destruct Hp as [Hp|Hp]; rewrite Hp in Hw; cbn [orb negb] in Hw; rewrite ?orb_true_r in Hw; exact Hw.
Qed.

(* Create succeeds only if ONE group-received create profile matching the user and the new entry
   grants all of its attributes and all of its classes. *)
Theorem C24_create_needs_grant : forall i A es e,
  i_origin i = OUser -> decide i A es OpCreate = true -> In e es ->
  exists p cl, In p (ac_create A) /\ acp_matches i e p = true /\ classes_of e = Some cl /\
    (forall a, In a (attr_keys e) -> In a (a_s1 p)) /\ (forall c, In c cl -> In c (a_c1 p)).
Proof.
  intros i A es e Ho Hd He. rewrite (decide_user_exact _ _ _ _ Ho) in Hd.
  rewrite forallb_forall in Hd. specialize (Hd e He). cbn [spec_user] in Hd.
  unfold spec_create_user in Hd. apply andb_true_iff in Hd as [_ Hd].
  destruct (classes_of e) as [cl|]; [|discriminate].
  apply andb_true_iff in Hd as [_ Hd]. apply existsb_exists in Hd as [p [Hp H]].
  apply andb_true_iff in H as [H H3]. apply andb_true_iff in H as [H1 H2].
  exists p, cl. repeat split; try assumption.
  - destruct (a_recv p); try discriminate. exact H1.
  - apply subset_In. exact H2.
  - apply subset_In. exact H3.
Qed.

(* Delete succeeds only if a delete profile matches the user and the entry. *)
Theorem C24_delete_needs_grant : forall i A es e,
  i_origin i = OUser -> decide i A es OpDelete = true -> In e es ->
  exists p, In p (ac_delete A) /\ acp_matches i e p = true.
Proof.
  intros i A es e Ho Hd He. rewrite (decide_user_exact _ _ _ _ Ho) in Hd.
  rewrite forallb_forall in Hd. specialize (Hd e He). cbn [spec_user] in Hd.
  unfold spec_delete_user in Hd. apply andb_true_iff in Hd as [_ Hd].
  apply existsb_exists in Hd as [p [Hp H]]. exists p. split; assumption.
Qed.

(* Revive succeeds only if matching modify profiles grant removal of attribute class and
   removal of class recycled. *)
Theorem C24_revive_needs_grants : forall i A es e,
  i_origin i = OUser -> decide i A es OpRevive = true -> In e es ->
  (exists p, In p (ac_modify A) /\ acp_matches i e p = true /\ In A_Class (a_s2 p)) /\
  (exists p, In p (ac_modify A) /\ acp_matches i e p = true /\ In K_Recycled (a_c2 p)).
Proof.
  intros i A es e Ho Hd He. rewrite (decide_user_exact _ _ _ _ Ho) in Hd.
  rewrite forallb_forall in Hd. specialize (Hd e He). cbn [spec_user] in Hd.
  apply spec_modify_parts in Hd as (_ & _ & _ & _ & H2 & _ & H4).
  cbn in H2, H4. rewrite !andb_true_r in H2, H4.
  apply andb_true_iff in H2 as [H2 _]. apply andb_true_iff in H4 as [H4 _].
  split; apply granted_exists; assumption.
Qed.

(* Read-only (and synchronise-scope) user identities can never create, modify, delete or revive. *)
Theorem C24_readonly_never : forall i A es o,
  i_origin i = OUser -> i_scope i <> ScRW -> es <> [] -> decide i A es o = false.
Proof.
  intros i A es o Ho Hs Hne. rewrite (decide_user_exact _ _ _ _ Ho).
  apply forallb_false_nonempty; [exact Hne|]. intros e _.
  destruct (spec_user i A o e) eqn:E; [|reflexivity].
  apply spec_user_rw in E. unfold scope_rw in E. destruct (i_scope i); congruence.
Qed.

(* Synchronisation identities cannot use these operations at all. *)
Theorem C24_sync_never : forall i A es o,
  i_origin i = OSynch -> es <> [] -> decide i A es o = false.
Proof.
  intros i A es o Ho Hne. unfold decide. apply forallb_false_nonempty; [exact Hne|].
  intros e _. apply synch_entry_denied. exact Ho.
Qed.

(* Regardless of grants (A is arbitrary): no user can add a protected class, remove one (other
   than recycled, which only a revive-style removal can take away), modify or revive a
   tombstone, purge attribute class, or create / delete protected or built-in entries. *)
Theorem C24_protected : forall i A es o e,
  i_origin i = OUser -> In e es -> protection_violation o e = true -> decide i A es o = false.
Proof.
  intros i A es o e Ho He Hv. rewrite (decide_user_exact _ _ _ _ Ho).
  destruct (forallb (spec_user i A o) es) eqn:E; [|reflexivity].
  rewrite forallb_forall in E. specialize (E e He).
  rewrite (protection_spec_false i A o e Hv) in E. discriminate.
Qed.

(* Bridge to the implementation: on every recorded case where the model and kanidm agree, the
   implementation's own answer satisfies the property's executable predicate. *)
Theorem C24_agree_implies_property : forall c, agree c = true -> pcheck c = true.
Proof. exact agree_implies_pcheck. Qed.
