(* KV.C24.Model — write access decisions (executable definitions only).
   Transcribes, arm by arm:
     server/lib/src/server/access/mod.rs   resolve_access_conditions, modify_related_acp,
                                           modify_allow_operation(_per_entry), create_allow_operation,
                                           delete_related_acp, delete_allow_operation
     server/lib/src/server/access/modify.rs    apply_modify_access, modify_ident_test, modify_pres_test,
                                           modify_sync_constrain, modify_protected_attrs,
                                           modify_protected_entry_attrs, modify_migration_attrs
     server/lib/src/server/access/create.rs    apply_create_access, create_filter_entry,
                                           protected_filter_entry, migration_filter_entry, message_queue
     server/lib/src/server/access/delete.rs    apply_delete_access, delete_filter_entry, protected_filter_entry
     server/lib/src/server/access/protected.rs PROTECTED_* / LOCKED_ENTRY_CLASSES
     server/lib/src/server/access/migration.rs MIGRATION_* / migration_entry_attrs
     server/lib/src/server/recycle.rs          revive_recycled = access check of the fake modify
                                           [Removed(class, recycled)]
   Attributes, classes, uuids and values are numbers (tables below; the harness uses the same
   tables). Sets are lists used only through membership. *)
From Coq Require Import List NArith Bool.
Import ListNotations.
Open Scope N_scope.

(* ------------------------------------------------------------------ tables *)
Definition A_Class : N := 0.
Definition A_Uuid : N := 1.
Definition A_Name : N := 2.
Definition A_DisplayName : N := 3.
Definition A_Description : N := 4.
Definition A_Member : N := 5.
Definition A_MemberOf : N := 6.
Definition A_EntryManagedBy : N := 7.
Definition A_SyncParentUuid : N := 8.
Definition A_Mail : N := 9.
Definition A_May : N := 10.
Definition A_Must : N := 11.
Definition A_BadlistPassword : N := 12.
Definition A_DomainSsid : N := 13.
Definition A_DomainLdapBasedn : N := 14.
Definition A_LdapMaxQueryableAttrs : N := 15.
Definition A_LdapAllowUnixPwBind : N := 16.
Definition A_FernetPrivateKeyStr : N := 17.
Definition A_Es256PrivateKeyDer : N := 18.
Definition A_KeyActionRevoke : N := 19.
Definition A_KeyActionRotate : N := 20.
Definition A_IdVerificationEcKey : N := 21.
Definition A_DeniedName : N := 22.
Definition A_DomainDisplayName : N := 23.
Definition A_Image : N := 24.
Definition A_DomainAllowEasterEggs : N := 25.
Definition A_DomainAllowAccountRecovery : N := 26.
Definition A_AccountExpire : N := 27.
Definition A_AccountValidFrom : N := 28.
Definition A_SshPublicKey : N := 29.
Definition A_UserAuthTokenSession : N := 30.
Definition A_OAuth2Session : N := 31.
Definition A_PrimaryCredential : N := 32.
Definition A_ApiTokenSession : N := 33.
Definition A_AuthSessionExpiry : N := 34.
Definition A_AuthPasswordMinimumLength : N := 35.
Definition A_CredentialTypeMinimum : N := 36.
Definition A_PrivilegeExpiry : N := 37.
Definition A_WebauthnAttestationCaList : N := 38.
Definition A_LimitSearchMaxResults : N := 39.
Definition A_LimitSearchMaxFilterTest : N := 40.
Definition A_AllowPrimaryCredFallback : N := 41.
Definition A_OAuth2ConsentScopeMap : N := 42.
Definition A_CredentialUpdateIntentToken : N := 43.
Definition A_GidNumber : N := 44.
Definition A_LegalName : N := 45.
Definition A_LoginShell : N := 46.
Definition A_OAuth2RsScopeMap : N := 47.
Definition A_OAuth2RsSupScopeMap : N := 48.
Definition A_OAuth2JwtLegacyCryptoEnable : N := 49.
Definition A_OAuth2PreferShortUsername : N := 50.
Definition A_OAuth2RsClaimMap : N := 51.
Definition A_OAuth2RsOrigin : N := 52.
Definition A_OAuth2RsOriginLanding : N := 53.
Definition A_OAuth2ConsentPromptEnable : N := 54.
Definition A_DeleteAfter : N := 55.
Definition A_MailDestination : N := 56.
Definition A_MessageTemplate : N := 57.
Definition A_SendAfter : N := 58.
Definition A_RadiusSecret : N := 59.
Definition A_UnixPassword : N := 60.
Definition A_Spn : N := 61.
Definition K_Object : N := 0.
Definition K_System : N := 1.
Definition K_DomainInfo : N := 2.
Definition K_SystemInfo : N := 3.
Definition K_SystemConfig : N := 4.
Definition K_DynGroup : N := 5.
Definition K_SyncObject : N := 6.
Definition K_Tombstone : N := 7.
Definition K_Recycled : N := 8.
Definition K_ClassType : N := 9.
Definition K_Account : N := 10.
Definition K_ServiceAccount : N := 11.
Definition K_Group : N := 12.
Definition K_Person : N := 13.
Definition K_MemberOf : N := 14.
Definition K_PosixAccount : N := 15.
Definition K_PosixGroup : N := 16.
Definition K_AccountPolicy : N := 17.
Definition K_OAuth2ResourceServer : N := 18.
Definition K_OAuth2ResourceServerBasic : N := 19.
Definition K_OAuth2ResourceServerPublic : N := 20.
Definition K_KeyObject : N := 21.
Definition K_KeyObjectInternal : N := 22.
Definition K_KeyObjectHkdfS256 : N := 23.
Definition K_KeyObjectJwtEs256 : N := 24.
Definition K_KeyObjectJwtHs256 : N := 25.
Definition K_KeyObjectJwtRs256 : N := 26.
Definition K_KeyObjectJweA128GCM : N := 27.
Definition K_OutboundMessage : N := 28.
Definition K_AccountSignupRequest : N := 29.
Definition K_AttributeType : N := 30.
Definition K_ExtensibleObject : N := 31.
Definition K_SyncAccount : N := 32.

(* UUID_ANONYMOUS = 00000000-0000-0000-0000-ffffffffffff; Uuid's Ord is the big-endian number *)
Definition UUID_ANONYMOUS : N := 281474976710655.

(* ------------------------------------------------------------------ sets as lists *)
Definition mem (x : N) (l : list N) : bool := existsb (N.eqb x) l.
Definition subset (a b : list N) : bool := forallb (fun x => mem x b) a.
Definition inter (a b : list N) : list N := filter (fun x => mem x b) a.
Definition diff (a b : list N) : list N := filter (fun x => negb (mem x b)) a.
Definition intersects (a b : list N) : bool := existsb (fun x => mem x b) a.
Definition disjoint (a b : list N) : bool := negb (intersects a b).
Definition is_empty {A} (l : list A) : bool := match l with [] => true | _ => false end.

(* ------------------------------------------------------------------ entries *)
(* attribute map: attribute id -> non-empty value list *)
Definition entry := list (N * list N).
Fixpoint ava (a : N) (e : entry) : option (list N) :=
  match e with
  | [] => None
  | (k, vs) :: r => if a =? k then Some vs else ava a r
  end.
Definition classes_of (e : entry) : option (list N) := ava A_Class e.   (* get_ava_as_iutf8(Class) *)
Definition attr_keys (e : entry) : list N := map fst e.
(* Entry<EntryInit,EntryNew>::get_uuid: the single value of attribute uuid *)
Definition euuid (e : entry) : option N :=
  match ava A_Uuid e with Some [u] => Some u | _ => None end.
(* committed entries: valid.uuid (always equal to the uuid attribute) *)
Definition cuuid (e : entry) : N := match euuid e with Some u => u | None => 0 end.
(* get_ava_single_refer *)
Definition single (a : N) (e : entry) : option N :=
  match ava a e with Some [u] => Some u | _ => None end.

(* ------------------------------------------------------------------ target filters *)
(* Filter<FilterValid> restricted to Eq / Pres / SelfUuid / And / Or / AndNot;
   tmatch = resolve (SelfUuid -> Eq(uuid, ident uuid)) then entry_match_no_index *)
Inductive tf :=
| TEq (a v : N) | TPres (a : N) | TSelf
| TAnd (l : list tf) | TOr (l : list tf) | TNot (f : tf).

Fixpoint tmatch (self : N) (e : entry) (f : tf) {struct f} : bool :=
  match f with
  | TEq a v => match ava a e with Some vs => mem v vs | None => false end
  | TPres a => match ava a e with Some _ => true | None => false end
  | TSelf => match ava A_Uuid e with Some vs => mem self vs | None => false end
  | TAnd l => forallb (tmatch self e) l
  | TOr l => existsb (tmatch self e) l
  | TNot g => negb (tmatch self e g)
  end.

(* ------------------------------------------------------------------ identities *)
Inductive origin := OUser | OSynch | OSystem | OMigration | OAccountRequest | OMessageQueue.
Inductive scope := ScRO | ScRW | ScSync.
(* i_memberof: the user's memberof uuids ([] when the attribute is absent, and for non-users,
   where get_memberof() = None) *)
Record ident := mkI { i_origin : origin; i_scope : scope; i_uuid : N; i_memberof : list N }.
Definition scope_rw (i : ident) : bool := match i_scope i with ScRW => true | _ => false end.

(* ------------------------------------------------------------------ access control profiles *)
Inductive receiver := RNone | RGroup (g : list N) | RManager.
(* one record for the three kinds.  modify: s1 = presattrs, s2 = remattrs, c1 = pres_classes,
   c2 = rem_classes;  create: s1 = attrs, c1 = classes;  delete: none used *)
Record acp := mkA { a_recv : receiver; a_target : option tf;
                    a_s1 : list N; a_s2 : list N; a_c1 : list N; a_c2 : list N }.
Record acps := mkAcps { ac_modify : list acp; ac_create : list acp; ac_delete : list acp;
                        ac_sync : list (N * list N) }.   (* sync agreement uuid -> yielded attrs *)

(* resolve_access_conditions (for a user: filter resolution cannot fail) *)
Definition related (i : ident) (a : acp) : bool :=
  match a_recv a with
  | RGroup g => intersects (i_memberof i) g
  | RManager => true
  | RNone => false
  end && match a_target a with Some _ => true | None => false end.

(* AccessControlReceiverCondition::EntryManager, as checked in modify.rs / delete.rs *)
Definition manager_ok (i : ident) (e : entry) : bool :=
  match ava A_EntryManagedBy e with
  | Some ms => intersects (i_memberof i) ms || mem (i_uuid i) ms
  | None => false
  end.
Definition recv_ok (i : ident) (e : entry) (a : acp) : bool :=
  match a_recv a with RGroup _ => true | RManager => manager_ok i e | RNone => false end.
Definition target_ok (i : ident) (e : entry) (a : acp) : bool :=
  match a_target a with Some f => tmatch (i_uuid i) e f | None => false end.
(* the filter_map closure of apply_modify_access / the `any` closure of delete_filter_entry *)
Definition scoped (i : ident) (e : entry) (a : acp) : bool :=
  related i a && recv_ok i e a && target_ok i e a.

(* ------------------------------------------------------------------ protected.rs *)
Definition PROTECTED_ENTRY_CLASSES : list N :=
  [K_System; K_DomainInfo; K_SystemInfo; K_SystemConfig; K_DynGroup; K_SyncObject; K_Tombstone; K_Recycled].
Definition PROTECTED_MOD_ENTRY_CLASSES : list N :=
  [K_System; K_DomainInfo; K_SystemInfo; K_SystemConfig; K_DynGroup; K_Tombstone; K_Recycled].
Definition PROTECTED_MOD_PRES_ENTRY_CLASSES : list N :=
  [K_System; K_DomainInfo; K_SystemInfo; K_SystemConfig; K_DynGroup; K_SyncObject; K_Tombstone; K_Recycled].
Definition PROTECTED_MOD_REM_ENTRY_CLASSES : list N :=
  [K_System; K_DomainInfo; K_SystemInfo; K_SystemConfig; K_DynGroup; K_SyncObject; K_Tombstone].
Definition LOCKED_ENTRY_CLASSES : list N := [K_Tombstone].

(* ------------------------------------------------------------------ migration.rs *)
Definition MIGRATION_ENTRY_CLASSES : list N :=
  [K_Object; K_MemberOf; K_DomainInfo; K_OAuth2ResourceServer; K_OAuth2ResourceServerBasic;
   K_OAuth2ResourceServerPublic; K_Account; K_Person; K_PosixAccount; K_Group; K_DynGroup;
   K_AccountPolicy; K_PosixGroup; K_ServiceAccount].
Definition MIGRATION_IGNORE_CLASSES : list N :=
  [K_KeyObject; K_KeyObjectInternal; K_KeyObjectHkdfS256; K_KeyObjectJwtEs256; K_KeyObjectJwtHs256;
   K_KeyObjectJwtRs256; K_KeyObjectJweA128GCM].
Definition opt (b : bool) (l : list N) : list N := if b then l else [].
Definition migration_entry_attrs (cl : list N) : list N * list N :=
  let attrs :=
    [A_Class; A_Uuid]
    ++ opt (mem K_DomainInfo cl) [A_DomainLdapBasedn; A_LdapMaxQueryableAttrs; A_LdapAllowUnixPwBind; A_DomainDisplayName]
    ++ opt (mem K_Group cl) [A_Member; A_Name; A_Description; A_EntryManagedBy; A_GidNumber]
    ++ opt (mem K_Person cl) [A_Name; A_DisplayName; A_LegalName; A_Mail; A_SshPublicKey; A_Description; A_LoginShell; A_GidNumber]
    ++ opt (mem K_ServiceAccount cl) [A_Name; A_DisplayName; A_Mail; A_SshPublicKey; A_Description; A_EntryManagedBy]
    ++ opt (mem K_AccountPolicy cl) [A_AuthSessionExpiry; A_AuthPasswordMinimumLength; A_CredentialTypeMinimum;
          A_PrivilegeExpiry; A_WebauthnAttestationCaList; A_LimitSearchMaxResults; A_LimitSearchMaxFilterTest;
          A_AllowPrimaryCredFallback]
    ++ opt (mem K_OAuth2ResourceServer cl) [A_Name; A_DisplayName; A_Description; A_OAuth2RsScopeMap;
          A_OAuth2RsSupScopeMap; A_OAuth2JwtLegacyCryptoEnable; A_OAuth2PreferShortUsername; A_OAuth2RsClaimMap;
          A_OAuth2RsOrigin; A_OAuth2RsOriginLanding; A_OAuth2ConsentPromptEnable; A_EntryManagedBy] in
  (* allow_cls.clear(); allow_cls.extend(..) in source order: the last matching block wins *)
  let c0 : list N := [] in
  let c1 := if mem K_Group cl then [K_Group; K_AccountPolicy; K_PosixGroup] else c0 in
  let c2 := if mem K_Person cl then [K_Person; K_Account; K_PosixAccount] else c1 in
  let c3 := if mem K_ServiceAccount cl then [K_Account; K_ServiceAccount] else c2 in
  let c4 := if mem K_OAuth2ResourceServer cl
            then [K_Account; K_OAuth2ResourceServer; K_OAuth2ResourceServerBasic; K_OAuth2ResourceServerPublic]
            else c3 in
  (attrs, c4).

(* ------------------------------------------------------------------ modify.rs *)
Inductive basic := BDeny | BGrant | BIgnore.
(* AccessModResult; Constrain carries one set because every producer uses pres_attr = rem_attr
   and pres_cls = rem_cls = None *)
Inductive modres := MDeny | MIgnore | MConstrain (attrs : list N) | MAllow (pa ra pc rc : list N).

Definition modify_ident_test (i : ident) : basic :=
  match i_origin i with
  | OSystem => BGrant
  | OMigration => BGrant
  | OMessageQueue | OAccountRequest => BDeny
  | OSynch => BDeny
  | OUser => match i_scope i with ScRO | ScSync => BDeny | ScRW => BIgnore end
  end.

Definition protected_table (cl : list N) : list N :=
  opt (mem K_Recycled cl) [A_Class]
  ++ opt (mem K_ClassType cl) [A_May; A_Must]
  ++ opt (mem K_SystemConfig cl) [A_BadlistPassword]
  ++ opt (mem K_DomainInfo cl) [A_DomainSsid; A_DomainLdapBasedn; A_LdapMaxQueryableAttrs; A_LdapAllowUnixPwBind;
        A_FernetPrivateKeyStr; A_Es256PrivateKeyDer; A_KeyActionRevoke; A_KeyActionRotate; A_IdVerificationEcKey;
        A_DeniedName; A_DomainDisplayName; A_Image; A_DomainAllowEasterEggs; A_DomainAllowAccountRecovery]
  ++ opt (mem K_Account cl) [A_AccountExpire; A_AccountValidFrom]
  ++ opt (mem K_ServiceAccount cl) [A_SshPublicKey; A_UserAuthTokenSession; A_OAuth2Session; A_Mail;
        A_PrimaryCredential; A_ApiTokenSession]
  ++ opt (mem K_Group cl) [A_Member]
  ++ opt (mem K_DynGroup cl) [A_AuthSessionExpiry; A_AuthPasswordMinimumLength; A_CredentialTypeMinimum;
        A_PrivilegeExpiry; A_WebauthnAttestationCaList; A_LimitSearchMaxResults; A_LimitSearchMaxFilterTest;
        A_AllowPrimaryCredFallback].

Definition modify_protected_entry_attrs (cl : list N) : modres :=
  if negb (disjoint cl LOCKED_ENTRY_CLASSES) then MDeny else
  let c := protected_table cl in
  if is_empty c then MDeny else MConstrain c.

Definition modify_protected_attrs (i : ident) (e : entry) : modres :=
  match i_origin i with
  | OSystem | OSynch => MIgnore
  | OAccountRequest | OMessageQueue | OMigration | OUser =>
      match classes_of e with
      | Some cl =>
          if (UUID_ANONYMOUS <? cuuid e) && disjoint cl PROTECTED_MOD_ENTRY_CLASSES
          then MIgnore else modify_protected_entry_attrs cl
      | None => MIgnore
      end
  end.

Fixpoint agreement (u : N) (s : list (N * list N)) : list N :=
  match s with [] => [] | (k, l) :: r => if u =? k then l else agreement u r end.
Definition SYNC_BASE : list N :=
  [A_UserAuthTokenSession; A_OAuth2Session; A_OAuth2ConsentScopeMap; A_CredentialUpdateIntentToken].

Definition modify_sync_constrain (i : ident) (e : entry) (sync : list (N * list N)) : modres :=
  match i_origin i with
  | OUser =>
      let is_sync := match classes_of e with Some cl => mem K_SyncObject cl | None => false end in
      if negb is_sync then MIgnore else
      match single A_SyncParentUuid e with
      | Some u => MConstrain (SYNC_BASE ++ agreement u sync)
      | None => MDeny
      end
  | _ => MIgnore
  end.

Definition modify_migration_attrs (i : ident) (e : entry) : modres :=
  match i_origin i with
  | OMigration =>
      match classes_of e with
      | Some cl0 =>
          let cl := diff cl0 MIGRATION_IGNORE_CLASSES in
          if negb (is_empty cl) && subset cl MIGRATION_ENTRY_CLASSES then
            let '(aa, ac) := migration_entry_attrs cl in
            if is_empty aa then MDeny else MAllow aa aa ac ac
          else MDeny
      | None => MDeny
      end
  | _ => MIgnore
  end.

Definition is_deny (m : modres) : bool := match m with MDeny => true | _ => false end.
Definition constrain_of (m : modres) : list N := match m with MConstrain c => c | _ => [] end.

Inductive modify_result := RDeny | RGrant | RAllow (pres rem pcls rcls : list N).

Definition apply_modify_access (i : ident) (related_acp : list acp) (sync : list (N * list N)) (e : entry)
  : modify_result :=
  let t := modify_ident_test i in
  let grant := match t with BGrant => true | _ => false end in
  let d0 := match t with BDeny => true | _ => false end in
  let mig := modify_migration_attrs i e in
  let d1 := d0 || is_deny mig in
  let '(ap0, ar0, apc0, arc0) :=
    match mig with MAllow pa ra pc rc => (pa, ra, pc, rc) | _ => ([], [], [], []) end in
  let prot := modify_protected_attrs i e in
  let d2 := d1 || is_deny prot in
  let con0 := constrain_of prot in
  let '(d3, con, ap, ar, apc, arc) :=
    if negb grant && negb d2 then
      let sc := modify_sync_constrain i e sync in
      let sa := filter (scoped i e) related_acp in
      (d2 || is_deny sc, con0 ++ constrain_of sc,
       ap0 ++ flat_map a_s1 sa, ar0 ++ flat_map a_s2 sa, apc0 ++ flat_map a_c1 sa, arc0 ++ flat_map a_c2 sa)
    else (d2, con0, ap0, ar0, apc0, arc0) in
  if d3 then RDeny else if grant then RGrant else
  RAllow (if negb (is_empty con) then inter con ap else ap)
         (if negb (is_empty con) then inter con ar else ar)
         (diff apc PROTECTED_MOD_PRES_ENTRY_CLASSES)     (* constrain_pres_cls is always empty *)
         (diff arc PROTECTED_MOD_REM_ENTRY_CLASSES).

(* ------------------------------------------------------------------ modify lists *)
Inductive md :=
| MPresent (a v : N) | MRemoved (a v : N) | MPurged (a : N) | MAssert (a v : N) | MSet (a : N) (vs : list N).

Definition is_purge_class (m : md) : bool := match m with MPurged a => a =? A_Class | _ => false end.
Definition is_set_class (m : md) : bool := match m with MSet a _ => a =? A_Class | _ => false end.
(* requested_pres / requested_rem *)
Definition adds (ml : list md) : list N :=
  flat_map (fun m => match m with MPresent a _ | MSet a _ | MAssert a _ => [a] | _ => [] end) ml.
Definition removes (ml : list md) : list N :=
  flat_map (fun m => match m with MRemoved a _ | MPurged a | MSet a _ => [a] | _ => [] end) ml.
(* requested_pres_classes / requested_rem_classes; Set(class, vs) contributes only the difference
   with the entry's current classes *)
Definition cur_classes (e : entry) : list N := match classes_of e with Some c => c | None => [] end.
Definition cls_adds (e : entry) (ml : list md) : list N :=
  flat_map (fun m => match m with
     | MPresent a v => if a =? A_Class then [v] else []
     | MSet a vs => if a =? A_Class then diff vs (cur_classes e) else []
     | _ => [] end) ml.
Definition cls_rems (e : entry) (ml : list md) : list N :=
  flat_map (fun m => match m with
     | MRemoved a v => if a =? A_Class then [v] else []
     | MSet a vs => if a =? A_Class then diff (cur_classes e) vs else []
     | _ => [] end) ml.
Definition no_classes (e : entry) : bool := match classes_of e with Some _ => false | None => true end.

(* modify_allow_operation_per_entry *)
Definition modify_entry (i : ident) (A : acps) (e : entry) (ml : list md) : bool :=
  if existsb is_purge_class ml then false else
  (* `return false` inside the class loop: Set(class, ..) against an entry without classes *)
  if existsb is_set_class ml && no_classes e then false else
  if is_empty (adds ml) && is_empty (removes ml) then false else
  match apply_modify_access i (ac_modify A) (ac_sync A) e with
  | RDeny => false
  | RGrant => true
  | RAllow p r c d =>
      subset (adds ml) p && subset (removes ml) r && subset (cls_adds e ml) c && subset (cls_rems e ml) d
  end.
Definition modify_allowed (i : ident) (A : acps) (es : list entry) (ml : list md) : bool :=
  forallb (fun e => modify_entry i A e ml) es.

(* recycle.rs revive_recycled: "Check access against a fake modify" *)
Definition REVIVE_MODLIST : list md := [MRemoved A_Class K_Recycled].
Definition revive_allowed (i : ident) (A : acps) (es : list entry) : bool :=
  modify_allowed i A es REVIVE_MODLIST.

(* ------------------------------------------------------------------ create.rs *)
Inductive ires := IDeny | IGrant | IIgnore | IAllow (pres cls : list N).

Definition create_protected_filter_entry (i : ident) (e : entry) : ires :=
  match i_origin i with
  | OSystem | OAccountRequest | OMessageQueue => IIgnore
  | OSynch => IDeny
  | OMigration | OUser =>
      if match euuid e with Some u => u <=? UUID_ANONYMOUS | None => false end then IDeny else
      match classes_of e with
      | Some cl => if disjoint cl PROTECTED_ENTRY_CLASSES then IIgnore else IDeny
      | None => IIgnore
      end
  end.

Definition create_message_queue (i : ident) (e : entry) : ires :=
  match i_origin i with
  | OMessageQueue =>
      match classes_of e with
      | Some cl => if mem K_OutboundMessage cl
                   then IAllow [A_Class; A_DeleteAfter; A_MailDestination; A_MessageTemplate; A_SendAfter]
                               [K_Object; K_OutboundMessage]
                   else IDeny
      | None => IDeny
      end
  | _ => IIgnore
  end.

Definition create_migration_filter_entry (i : ident) (e : entry) : ires :=
  match i_origin i with
  | OMigration =>
      match classes_of e with
      | Some cl0 =>
          let cl := diff cl0 MIGRATION_IGNORE_CLASSES in
          if subset cl MIGRATION_ENTRY_CLASSES then
            let '(aa, ac) := migration_entry_attrs cl in
            if is_empty aa then IDeny else IAllow aa ac
          else IDeny
      | None => IDeny
      end
  | _ => IIgnore
  end.

(* the `any` closure of create_filter_entry *)
Definition create_acp_allows (i : ident) (e : entry) (cl : list N) (a : acp) : bool :=
  related i a
  && match a_recv a with RGroup _ => true | _ => false end    (* EntryManager: unsatisfiable for creates *)
  && target_ok i e a
  && subset (attr_keys e) (a_s1 a) && subset cl (a_c1 a).

Definition create_filter_entry (i : ident) (related_acp : list acp) (e : entry) : ires :=
  match i_origin i with
  | OSystem => IGrant
  | OMigration => IIgnore
  | OAccountRequest =>
      IAllow [A_Class; A_DeleteAfter; A_Name; A_DisplayName; A_Mail] [K_Object; K_AccountSignupRequest]
  | OMessageQueue => IIgnore
  | OSynch => IDeny
  | OUser =>
      match i_scope i with
      | ScRO | ScSync => IDeny
      | ScRW =>
          match classes_of e with
          | None => IDeny
          | Some cl => if existsb (create_acp_allows i e cl) related_acp then IGrant else IIgnore
          end
      end
  end.

Inductive create_result := CrDeny | CrGrant | CrAllow (pres cls : list N).
Definition i_deny (r : ires) : bool := match r with IDeny => true | _ => false end.
Definition i_grant (r : ires) : bool := match r with IGrant => true | _ => false end.
Definition i_pres (r : ires) : list N := match r with IAllow p _ => p | _ => [] end.
Definition i_cls (r : ires) : list N := match r with IAllow _ c => c | _ => [] end.

Definition apply_create_access (i : ident) (related_acp : list acp) (e : entry) : create_result :=
  let r1 := create_protected_filter_entry i e in     (* can only deny *)
  let r2 := create_message_queue i e in
  let r3 := create_migration_filter_entry i e in
  let r4 := create_filter_entry i related_acp e in
  if i_deny r1 || i_deny r2 || i_deny r3 || i_deny r4 then CrDeny else
  if i_grant r2 || i_grant r3 || i_grant r4 then CrGrant else
  CrAllow (i_pres r2 ++ i_pres r3 ++ i_pres r4)
          (diff (i_cls r2 ++ i_cls r3 ++ i_cls r4) PROTECTED_MOD_PRES_ENTRY_CLASSES).

(* the per-entry closure of create_allow_operation *)
Definition create_entry (i : ident) (A : acps) (e : entry) : bool :=
  match classes_of e with
  | None => false
  | Some cl =>
      match apply_create_access i (ac_create A) e with
      | CrDeny => false
      | CrGrant => true
      | CrAllow p c => subset (attr_keys e) p && subset cl c
      end
  end.
Definition create_allowed (i : ident) (A : acps) (es : list entry) : bool :=
  forallb (create_entry i A) es.

(* ------------------------------------------------------------------ delete.rs *)
Definition delete_protected_filter_entry (i : ident) (e : entry) : basic :=
  match i_origin i with
  | OSystem => BIgnore
  | OSynch => BDeny
  | OAccountRequest | OMessageQueue => BDeny
  | OMigration | OUser =>
      if cuuid e <=? UUID_ANONYMOUS then BDeny else
      match classes_of e with
      | Some cl => if disjoint cl PROTECTED_ENTRY_CLASSES then BIgnore else BDeny
      | None => BIgnore
      end
  end.

Definition delete_filter_entry (i : ident) (related_acp : list acp) (e : entry) : basic :=
  match i_origin i with
  | OSystem => BGrant
  | OMigration =>
      if match classes_of e with
         | Some cl0 => subset (diff cl0 MIGRATION_IGNORE_CLASSES) MIGRATION_ENTRY_CLASSES
         | None => false end
      then BGrant else BDeny
  | OAccountRequest | OMessageQueue => BDeny
  | OSynch => BDeny
  | OUser =>
      match i_scope i with
      | ScRO | ScSync => BDeny
      | ScRW => if existsb (scoped i e) related_acp then BGrant else BIgnore
      end
  end.

Definition delete_entry (i : ident) (A : acps) (e : entry) : bool :=
  let r1 := delete_protected_filter_entry i e in
  let r2 := delete_filter_entry i (ac_delete A) e in
  let denied := match r1 with BDeny => true | _ => false end || match r2 with BDeny => true | _ => false end in
  let grant := match r2 with BGrant => true | _ => false end in
  if denied then false else grant.
Definition delete_allowed (i : ident) (A : acps) (es : list entry) : bool :=
  forallb (delete_entry i A) es.

(* ------------------------------------------------------------------ the four operations *)
Inductive op := OpModify (ml : list md) | OpCreate | OpDelete | OpRevive.
Definition entry_decision (i : ident) (A : acps) (o : op) (e : entry) : bool :=
  match o with
  | OpModify ml => modify_entry i A e ml
  | OpCreate => create_entry i A e
  | OpDelete => delete_entry i A e
  | OpRevive => modify_entry i A e REVIVE_MODLIST
  end.
Definition decide (i : ident) (A : acps) (es : list entry) (o : op) : bool :=
  forallb (entry_decision i A o) es.

(* ================================================================== declarative specification *)
(* "an access control profile matching that user and that entry" *)
Definition acp_matches (i : ident) (e : entry) (a : acp) : bool :=
  match a_recv a, a_target a with
  | RGroup g, Some f => intersects (i_memberof i) g && tmatch (i_uuid i) e f
  | RManager, Some f => manager_ok i e && tmatch (i_uuid i) e f
  | _, _ => false
  end.
(* item x is granted by some matching profile of the list, through the selector (a_s1, ...) *)
Definition granted (sel : acp -> list N) (i : ident) (l : list acp) (e : entry) (x : N) : bool :=
  existsb (fun a => acp_matches i e a && mem x (sel a)) l.

Definition has_class (k : N) (e : entry) : bool :=
  match classes_of e with Some cl => mem k cl | None => false end.
Definition is_tombstone (e : entry) : bool := has_class K_Tombstone e.
(* the entry falls under the modification protection rules *)
Definition mod_protected (e : entry) : bool :=
  match classes_of e with
  | Some cl => negb ((UUID_ANONYMOUS <? cuuid e) && disjoint cl PROTECTED_MOD_ENTRY_CLASSES)
  | None => false
  end.
Definition is_sync_object (e : entry) : bool := has_class K_SyncObject e.
(* the only attributes a user may touch on a protected and/or synchronised entry *)
Definition touch_limit (A : acps) (e : entry) : list N :=
  opt (mod_protected e) (protected_table (cur_classes e))
  ++ opt (is_sync_object e)
       (SYNC_BASE ++ match single A_SyncParentUuid e with Some u => agreement u (ac_sync A) | None => [] end).
Definition within_limit (A : acps) (e : entry) (a : N) : bool :=
  negb (mod_protected e || is_sync_object e) || mem a (touch_limit A e).

(* exact characterisation of a USER's modify of one entry *)
Definition spec_modify_user (i : ident) (A : acps) (e : entry) (ml : list md) : bool :=
  scope_rw i
  && negb (existsb is_purge_class ml)
  && negb (existsb is_set_class ml && no_classes e)
  && negb (is_empty (adds ml) && is_empty (removes ml))
  && negb (is_tombstone e)
  && (negb (mod_protected e) || negb (is_empty (protected_table (cur_classes e))))
  && (negb (is_sync_object e) || match single A_SyncParentUuid e with Some _ => true | None => false end)
  && forallb (fun a => granted a_s1 i (ac_modify A) e a && within_limit A e a) (adds ml)
  && forallb (fun a => granted a_s2 i (ac_modify A) e a && within_limit A e a) (removes ml)
  && forallb (fun c => granted a_c1 i (ac_modify A) e c && negb (mem c PROTECTED_MOD_PRES_ENTRY_CLASSES))
             (cls_adds e ml)
  && forallb (fun c => granted a_c2 i (ac_modify A) e c && negb (mem c PROTECTED_MOD_REM_ENTRY_CLASSES))
             (cls_rems e ml).

(* exact characterisation of a USER's create of one entry: one profile must grant everything *)
Definition spec_create_user (i : ident) (A : acps) (e : entry) : bool :=
  scope_rw i
  && negb (match euuid e with Some u => u <=? UUID_ANONYMOUS | None => false end)
  && match classes_of e with
     | None => false
     | Some cl =>
         disjoint cl PROTECTED_ENTRY_CLASSES
         && existsb (fun a => match a_recv a with RGroup _ => acp_matches i e a | _ => false end
                              && subset (attr_keys e) (a_s1 a) && subset cl (a_c1 a)) (ac_create A)
     end.

(* exact characterisation of a USER's delete of one entry *)
Definition spec_delete_user (i : ident) (A : acps) (e : entry) : bool :=
  scope_rw i
  && (UUID_ANONYMOUS <? cuuid e)
  && match classes_of e with Some cl => disjoint cl PROTECTED_ENTRY_CLASSES | None => true end
  && existsb (acp_matches i e) (ac_delete A).

Definition spec_user (i : ident) (A : acps) (o : op) (e : entry) : bool :=
  match o with
  | OpModify ml => spec_modify_user i A e ml
  | OpCreate => spec_create_user i A e
  | OpDelete => spec_delete_user i A e
  | OpRevive => spec_modify_user i A e REVIVE_MODLIST
  end.

(* "regardless of grants": the request adds a protected class, removes one (recycled is not in
   PROTECTED_MOD_REM: it is removed by reviving), touches a tombstone, purges class, or
   creates / deletes a protected or built-in entry *)
Definition protection_violation (o : op) (e : entry) : bool :=
  match o with
  | OpModify ml =>
      existsb is_purge_class ml || is_tombstone e
      || intersects (cls_adds e ml) PROTECTED_MOD_PRES_ENTRY_CLASSES
      || intersects (cls_rems e ml) PROTECTED_MOD_REM_ENTRY_CLASSES
  | OpRevive => is_tombstone e
  | OpCreate =>
      match euuid e with Some u => u <=? UUID_ANONYMOUS | None => false end
      || intersects (cur_classes e) PROTECTED_ENTRY_CLASSES
  | OpDelete =>
      (cuuid e <=? UUID_ANONYMOUS) || intersects (cur_classes e) PROTECTED_ENTRY_CLASSES
  end.

(* ================================================================== correspondence *)
(* server-level outcome classes *)
Inductive sres := SOk | SDenied | SNoMatch | SOther.
Inductive case :=
(* the access-control entry points called directly (AccessControls with the given profiles) *)
| CFn (i : ident) (A : acps) (es : list entry) (o : op) (impl : bool)
(* the same operation through QueryServerWriteTransaction::{modify,create,delete,revive_recycled}
   with the profiles installed in the transaction; es = the target entries as stored before the
   operation; unchanged = the target entries read back identical afterwards (create: none exists) *)
| CSrv (i : ident) (A : acps) (es : list entry) (o : op) (res : sres) (unchanged : bool).

Definition sres_ok (r : sres) : bool := match r with SOk => true | _ => false end.

(* after the access check the server operations refuse (also with AccessDenied) changes that
   would move an entry in or out of the recycled state by a plain modify, and a revive of
   entries none of which is recycled (server/modify.rs, server/recycle.rs) *)
Definition state_guard_may_fire (o : op) (es : list entry) : bool :=
  match o with
  | OpModify ml => existsb (fun e => mem K_Recycled (cls_rems e ml)) es
  | OpRevive => forallb (fun e => negb (has_class K_Recycled e)) es
  | _ => false
  end.

Definition refused (r : sres) : bool := match r with SDenied | SNoMatch => true | _ => false end.

Definition agree (c : case) : bool :=
  match c with
  | CFn i A es o impl => Bool.eqb (decide i A es o) impl
  | CSrv i A es o res unchanged =>
      (* a denied operation ends in AccessDenied (or the targets were not even visible to the
         identity) and leaves the targets as they were; an allowed one ends in AccessDenied only
         through the state guards; every refusal leaves the targets as they were. (Other errors
         abort the transaction; its intermediate state is not constrained.) *)
      if decide i A es o
      then match res with SDenied => state_guard_may_fire o es | _ => true end
           && (negb (refused res) || unchanged)
      else refused res && unchanged
  end.

(* the property, evaluated on what the implementation did *)
Definition pcheck (c : case) : bool :=
  match c with
  | CFn i A es o impl =>
      match i_origin i with
      | OUser => Bool.eqb impl (forallb (spec_user i A o) es)
      | OSynch => negb impl || is_empty es
      | _ => true
      end
  | CSrv i A es o res unchanged =>
      (* success, or any change of the targets, needs the specification's permission *)
      if sres_ok res || negb unchanged then
        match i_origin i with
        | OUser => forallb (spec_user i A o) es
        | OSynch => is_empty es
        | _ => true
        end
      else true
  end.
Definition known (_ : case) : bool := false.
