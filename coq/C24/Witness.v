(* KV.C24.Witness — concrete, non-trivial values meeting the hypotheses of the implication
   theorems of Props.v (non-vacuity), by vm_compute. *)
From Coq Require Import List NArith Bool.
Import ListNotations.
Require Import KV.C24.Model.
Open Scope N_scope.

Definition G1 : N := UUID_ANONYMOUS + 1001.
Definition G2 : N := UUID_ANONYMOUS + 1002.
Definition U1 : N := UUID_ANONYMOUS + 2001.
Definition alice : ident := mkI OUser ScRW U1 [G1].
Definition alice_ro : ident := mkI OUser ScRO U1 [G1].
Definition agent : ident := mkI OSynch ScRW (UUID_ANONYMOUS + 3000) [].
(* a person managed by alice, a built-in system group, a recycled person, a tombstone *)
Definition bob : entry :=
  [(A_Class, [K_Object; K_Account; K_Person]); (A_Uuid, [UUID_ANONYMOUS + 4001]); (A_Name, [1]);
   (A_EntryManagedBy, [U1])].
Definition sysgroup : entry :=
  [(A_Class, [K_Object; K_System; K_Group]); (A_Uuid, [1]); (A_Name, [2])].
Definition binned : entry :=
  [(A_Class, [K_Object; K_Person; K_Recycled]); (A_Uuid, [UUID_ANONYMOUS + 4002]); (A_Name, [3])].
Definition tomb : entry := [(A_Class, [K_Object; K_Tombstone]); (A_Uuid, [UUID_ANONYMOUS + 4003])].
Definition all : option tf := Some (TPres A_Class).
(* grants split over a group-received and an entry-manager profile *)
Definition P_attrs : acp := mkA (RGroup [G1; G2]) (Some (TAnd [TEq A_Class K_Person; TNot (TEq A_Class K_Recycled)]))
                               [A_Class; A_DisplayName] [A_Description] [] [].
Definition P_cls : acp := mkA RManager all [] [A_Class] [K_PosixAccount] [K_Account].
(* a profile granting everything, including protected classes *)
Definition P_every : acp :=
  mkA (RGroup [G1]) all [A_Class; A_Name; A_Member; A_Description] [A_Class; A_Name; A_Member; A_Description]
      [K_System; K_Recycled; K_Tombstone; K_Person; K_Object] [K_System; K_Recycled; K_Tombstone; K_Person].
Definition PS : acps := mkAcps [P_attrs; P_cls] [] [] [].
Definition PE : acps := mkAcps [P_every] [P_every] [P_every] [].
Definition ml1 : list md :=
  [MPresent A_DisplayName 0; MPurged A_Description; MSet A_Class [K_Object; K_Person; K_PosixAccount]].

(* hypotheses of C24_modify_needs_grants: an allowed modify whose grants come from two profiles,
   with a Set(class) adding posixaccount and removing account *)
Example C24_witness_modify_allowed :
  i_origin alice = OUser /\ decide alice PS [bob] (OpModify ml1) = true /\
  cls_adds bob ml1 = [K_PosixAccount] /\ cls_rems bob ml1 = [K_Account].
Proof. vm_compute. repeat split; reflexivity. Qed.
(* one missing grant (removal of description) flips the decision *)
Example C24_witness_modify_ungranted :
  decide alice (mkAcps [mkA (RGroup [G1]) all [A_Class; A_DisplayName] [] [] []; P_cls] [] [] [])
         [bob] (OpModify ml1) = false.
Proof. vm_compute. reflexivity. Qed.
(* C24_readonly_never / C24_sync_never: the same request, read-only scope or a sync identity *)
Example C24_witness_readonly :
  i_scope alice_ro <> ScRW /\ [bob] <> [] /\ decide alice_ro PS [bob] (OpModify ml1) = false
  /\ decide agent PE [bob] OpDelete = false.
Proof. vm_compute. repeat split; try discriminate; reflexivity. Qed.

(* C24_create_needs_grant: allowed by one profile; denied when the same grants are split *)
Definition newp : entry := [(A_Class, [K_Object; K_Person]); (A_Name, [4]); (A_Uuid, [UUID_ANONYMOUS + 4004])].
Example C24_witness_create :
  decide alice (mkAcps [] [mkA (RGroup [G1]) all [A_Class; A_Name; A_Uuid] [] [K_Object; K_Person] []] [] [])
         [newp] OpCreate = true /\
  decide alice (mkAcps [] [mkA (RGroup [G1]) all [A_Class; A_Name] [] [K_Object; K_Person] [];
                           mkA (RGroup [G1]) all [A_Uuid] [] [K_Object; K_Person] []] [] [])
         [newp] OpCreate = false.
Proof. vm_compute. split; reflexivity. Qed.

(* C24_delete_needs_grant, C24_revive_needs_grants: allowed instances (the revive removes the
   protected class recycled from a recycled, hence protected, entry) *)
Example C24_witness_delete_revive :
  decide alice (mkAcps [] [] [mkA RManager all [] [] [] []] []) [bob] OpDelete = true /\
  mod_protected binned = true /\ decide alice PE [binned] OpRevive = true.
Proof. vm_compute. repeat split; reflexivity. Qed.

(* C24_protected: with a profile that grants everything, each protection still denies *)
Example C24_witness_protected :
  protection_violation (OpModify [MPresent A_Class K_System]) bob = true /\
  decide alice PE [bob] (OpModify [MPresent A_Class K_System]) = false /\
  decide alice PE [bob] (OpModify [MPresent A_Class K_Person]) = true /\
  protection_violation (OpModify [MRemoved A_Class K_System]) sysgroup = true /\
  decide alice PE [sysgroup] (OpModify [MRemoved A_Class K_System]) = false /\
  protection_violation (OpModify [MPurged A_Class]) bob = true /\
  decide alice PE [bob] (OpModify [MPurged A_Class]) = false /\
  protection_violation (OpModify [MPresent A_Description 0]) tomb = true /\
  decide alice PE [tomb] (OpModify [MPresent A_Description 0]) = false /\
  decide alice PE [tomb] OpRevive = false /\
  protection_violation OpDelete sysgroup = true /\ decide alice PE [sysgroup] OpDelete = false /\
  decide alice PE [bob] OpDelete = true /\
  protection_violation OpCreate binned = true /\ decide alice PE [binned] OpCreate = false.
Proof. vm_compute. repeat split; reflexivity. Qed.

(* C24_modify_within_limits: on the built-in system group only `member` is open *)
Example C24_witness_limits :
  mod_protected sysgroup = true /\ touch_limit PE sysgroup = [A_Member] /\
  decide alice PE [sysgroup] (OpModify [MPresent A_Member U1]) = true /\
  decide alice PE [sysgroup] (OpModify [MPresent A_Description 0]) = false.
Proof. vm_compute. repeat split; reflexivity. Qed.

(* C24_agree_implies_property: both case forms with agree = true *)
Example C24_witness_agree :
  agree (CFn alice PS [bob] (OpModify ml1) true) = true /\
  agree (CSrv alice PS [bob] (OpModify ml1) SOk false) = true /\
  pcheck (CSrv alice_ro PS [bob] (OpModify ml1) SOther false) = false /\
  agree (CSrv alice_ro PS [bob] (OpModify ml1) SDenied true) = true /\
  agree (CFn alice_ro PS [bob] (OpModify ml1) true) = false.
Proof. vm_compute. repeat split; reflexivity. Qed.
