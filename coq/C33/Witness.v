(* KV.C33.Witness — non-vacuity: concrete sessions meet the hypotheses of the implication
   theorems, and the executable property predicate rejects fabricated bad observations. *)
From Coq Require Import List NArith Bool.
Import ListNotations.
Require Import KV.C33.Model KV.C33.Proofs.
Open Scope N_scope.

Definition s (n : N) : N := n * G.
Definition pol1 := mkpol 7200 600.
Definition t0 : N := s 10 + 500000000.                 (* 10.5 s *)

(* the session a login opens (closed terms, so that vm_compute decides the examples) *)
Definition sess (pol : policy) (t : authtype) (priv : bool) : st :=
  match snd (login pol t priv t0) with Some s0 => s0 | None => mkst None [] end.
Definition opened (pol : policy) (t : authtype) (priv : bool) : Prop :=
  login pol t priv t0 = (fst (login pol t priv t0), Some (sess pol t priv)).

(* an ordinary password login: read-only; a read-write re-authentication at 100 s opens 600 s of
   write access on the NEW token only; the session still ends at 10 s + 7200 s *)
Definition pre1 : list hop := [HUse 0 (s 11); HReauth 0 true (s 100 + 7)].
Example C33_witness_window :
  let s0 := sess pol1 TPassword false in opened pol1 TPassword false /\
  run pol1 false s0 (pre1 ++ [HUse 1 (s 300); HUse 1 (s 700 - 1); HUse 1 (s 700); HUse 0 (s 300);
                              HUse 1 (s 7210); HUse 1 (s 7210 + 1); HReauth 1 false (s 400)])
  = [BUse (OScope AReadOnly);
     BRe (ROk (mkuat (s 100) (Some (s 7210)) (PReadWrite (Some (s 700)))));
     BUse (OScope AReadWrite); BUse (OScope AReadWrite); BUse (OScope AReadOnly); BUse (OScope AReadOnly);
     BUse (OScope AReadOnly); BUse OExpired;
     BRe (ROk (mkuat (s 400) (Some (s 7210)) (PReadWrite None)))] /\
  snd (step pol1 false (state_after pol1 false s0 pre1) (HUse 1 (s 300))) = BUse (OScope AReadWrite) /\
  (forall j a, ~ In (HReauth j true a) [HUse 0 (s 11)]) /\ is_genpw TPassword = false.
Proof.
  cbv zeta. split; [vm_compute; reflexivity|]. split; [vm_compute; reflexivity|].
  split; [vm_compute; reflexivity|]. split; [|reflexivity].
  intros j a [H|[]]. discriminate H.
Qed.

(* hypotheses of C33_reauth_keeps_expiry / C33_session_never_outlives_login_expiry *)
Example C33_witness_reauth_expiry :
  let s0 := sess pol1 TPassword false in
  let u0 := mkuat (s 10) (Some (s 7210)) (PReadWrite None) in
  let r := Some (ScPrivilegeCapable, Some (s 7210), TPassword) in
  let u := mkuat (s 100) (Some (s 7210)) (PReadWrite (Some (s 700))) in
  login pol1 TPassword false t0 = (IOk u0 r, Some s0) /\ r <> None /\
  snd (step pol1 false (state_after pol1 false s0 [HUse 0 (s 11)]) (HReauth 0 true (s 100 + 7))) = BRe (ROk u) /\
  u_expiry u0 = Some (s 7210) /\
  snd (step pol1 false (state_after pol1 false s0 pre1) (HUse 1 (s 7210))) = BUse (OScope AReadOnly).
Proof.
  cbv zeta. split; [vm_compute; reflexivity|]. split; [discriminate|].
  split; [vm_compute; reflexivity|]. split; vm_compute; reflexivity.
Qed.

(* anonymous and OAuth2-trust logins (privileged flag set!): read-only, re-authentication refused *)
Example C33_witness_always_ro :
  ro_class TAnonymous = true /\ ro_class TOAuth2Trust = true /\
  let s0 := sess pol1 TAnonymous true in let s0' := sess pol1 TOAuth2Trust true in
    opened pol1 TAnonymous true /\
    run pol1 true s0 [HUse 0 (s 11); HReauth 0 true (s 12); HUse 0 (s 7211)]
    = [BUse (OScope AReadOnly); BRe RNoSession; BUse OExpired] /\
    opened pol1 TOAuth2Trust true /\
    run pol1 false s0' [HUse 0 (s 11); HReauth 0 true (s 12)]
    = [BUse (OScope AReadOnly); BRe RMayNotReauth] /\
    no_raw [HUse 0 (s 11); HReauth 0 true (s 12)].
Proof.
  split; [reflexivity|]. split; [reflexivity|]. cbv zeta.
  split; [vm_compute; reflexivity|]. split; [vm_compute; reflexivity|].
  split; [vm_compute; reflexivity|]. split; [vm_compute; reflexivity|].
  intros o [<-|[<-|[]]]; reflexivity.
Qed.

(* a privileged passkey login is read-write for min(E, 3600) s and cannot be extended; a generated
   password is read-write without the flag; with E = 30 the window is the 30 s of the session *)
Example C33_witness_privileged :
  let s0 := sess pol1 TPasskey true in opened pol1 TPasskey true /\
  run pol1 false s0 [HUse 0 (s 3610 - 1); HUse 0 (s 3610); HUse 0 (s 3610 + 1); HReauth 0 true (s 20)]
  = [BUse (OScope AReadWrite); BUse (OScope AReadOnly); BUse OExpired; BRe RMayNotReauth] /\
  spec_login_window 7200 TPasskey true = Some 3600 /\
  spec_login_window 7200 TGeneratedPassword false = Some 3600 /\
  spec_login_window 30 TPassword true = Some 30 /\
  spec_login_window 7200 TPassword false = None.
Proof. cbv zeta. repeat split; vm_compute; reflexivity. Qed.

(* issue_uat called directly: a re-issue with the session's expiry works for 600 s; one with a
   LATER session expiry is rejected against the stored session at every time *)
Example C33_witness_raw :
  let s0 := sess pol1 TPasswordTotp false in opened pol1 TPasswordTotp false /\
  run pol1 false s0 [HRaw TPasswordTotp true (Some (s 7210)) (s 50); HUse 1 (s 60); HUse 1 (s 650);
                     HRaw TPasskey true (Some (s 9999)) (s 70); HUse 2 (s 71);
                     HRaw TGeneratedPassword true (Some (s 7210)) (s 80)]
  = [BRe (ROk (mkuat (s 50) (Some (s 7210)) (PReadWrite (Some (s 650)))));
     BUse (OScope AReadWrite); BUse (OScope AReadOnly);
     BRe (ROk (mkuat (s 70) (Some (s 9999)) (PReadWrite (Some (s 670)))));
     BUse OExpired; BRe (RIssueErr EAU0006)].
Proof. cbv zeta. split; vm_compute; reflexivity. Qed.

(* the executable predicate is not vacuous: it accepts the faithful observation of the first
   witness and rejects (a) write access without a window, (b) write access after the window,
   (c) a re-authentication that extends the session, (d) a read-write certificate identity *)
Definition obs_ok : case :=
  CSess 7200 600 false TPassword false t0
    (IOk (mkuat (s 10) (Some (s 7210)) (PReadWrite None)) (Some (ScPrivilegeCapable, Some (s 7210), TPassword)))
    [(HUse 0 (s 11), BUse (OScope AReadOnly));
     (HReauth 0 true (s 100 + 7), BRe (ROk (mkuat (s 100) (Some (s 7210)) (PReadWrite (Some (s 700))))));
     (HUse 1 (s 300), BUse (OScope AReadWrite)); (HUse 1 (s 700), BUse (OScope AReadOnly))].
Definition obs_no_window : case :=
  CSess 7200 600 false TPassword false t0
    (IOk (mkuat (s 10) (Some (s 7210)) (PReadWrite None)) (Some (ScPrivilegeCapable, Some (s 7210), TPassword)))
    [(HUse 0 (s 11), BUse (OScope AReadWrite))].
Definition obs_late : case :=
  CSess 7200 600 false TPassword false t0
    (IOk (mkuat (s 10) (Some (s 7210)) (PReadWrite None)) (Some (ScPrivilegeCapable, Some (s 7210), TPassword)))
    [(HReauth 0 true (s 100 + 7), BRe (ROk (mkuat (s 100) (Some (s 7210)) (PReadWrite (Some (s 700))))));
     (HUse 1 (s 700), BUse (OScope AReadWrite))].
Definition obs_extended : case :=
  CSess 7200 600 false TPassword false t0
    (IOk (mkuat (s 10) (Some (s 7210)) (PReadWrite None)) (Some (ScPrivilegeCapable, Some (s 7210), TPassword)))
    [(HReauth 0 true (s 100), BRe (ROk (mkuat (s 100) (Some (s 7300)) (PReadWrite (Some (s 700))))))].
Example C33_witness_pcheck :
  agree obs_ok = true /\ pcheck obs_ok = true /\
  pcheck obs_no_window = false /\ agree obs_no_window = false /\
  pcheck obs_late = false /\ pcheck obs_extended = false /\
  pcheck (CCert [(s 5, (OScope AReadWrite, OScope AReadOnly))]) = false /\
  pcheck (CLdap [(s 5, OScope AReadWrite)]) = false /\
  pcheck (CApi false None [(s 5, OScope AReadWrite)]) = false /\
  pcheck (CApi true (Some (s 9)) [(s 5, OScope AReadWrite); (s 9, OExpired)]) = true.
Proof. vm_compute. repeat split; reflexivity. Qed.
