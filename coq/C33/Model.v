(* KV.C33.Model — write privilege of tokens (executable definitions only).
   Transcribes, arm by arm:
     AuthSession::issue_uat                         server/lib/src/idm/authsession/mod.rs:1622
     Account::to_userauthtoken / to_reissue_userauthtoken / client_cert_info_to_userauthtoken
                                                    server/lib/src/idm/account.rs:364
     serde form of UserAuthToken (whole seconds)    proto/src/internal/token.rs
     validate_and_parse_token_to_identity_token (expiry test), Account::check_user_auth_token_valid
     (session consistency / grace window), process_uat_to_identity (scope mapping),
     process_apit_to_identity, client_certificate_to_identity, process_ldap_uuid_to_identity
                                                    server/lib/src/idm/server.rs:524-1060
     reauth_init / AuthSession::new_reauth          server/lib/src/idm/reauth.rs:21, authsession/mod.rs:1274
   All times are nanoseconds since the unix epoch (N); policy values are seconds. *)
From Coq Require Import List NArith Bool.
Import ListNotations.
Open Scope N_scope.

Definition G : N := 1000000000.                     (* ns per second *)
Definition trunc (t : N) : N := (t / G) * G.        (* drop the sub-second part *)
Definition LIMITED : N := 3600.                     (* DEFAULT_AUTH_SESSION_LIMITED_EXPIRY *)
Definition GRACE : N := 300 * G.                    (* AUTH_TOKEN_GRACE_WINDOW *)

Inductive authtype :=
| TAnonymous | TPassword | TGeneratedPassword | TPasswordTotp | TPasswordBackupCode
| TPasswordSecurityKey | TPasskey | TAttestedPasskey | TOAuth2Trust.
Inductive sscope := ScReadOnly | ScReadWrite | ScPrivilegeCapable | ScSynchronise.
Inductive purpose := PReadOnly | PReadWrite (e : option N).
Record uat := mkuat { u_issued : N; u_expiry : option N; u_purpose : purpose }.
Inductive ascope := AReadOnly | AReadWrite | ASynchronise.
Record policy := mkpol { p_sess : N; p_priv : N }.  (* authsession_expiry, privilege_expiry *)

(* ---------------------------------------------------------------- issue_uat *)
(* `let scope = match auth_type { .. }` of AuthIntent::InitialAuth *)
Definition initial_scope (t : authtype) (privileged : bool) : sscope :=
  match t with
  | TAnonymous | TOAuth2Trust => ScReadOnly
  | TGeneratedPassword => ScReadWrite
  | TPassword | TPasswordTotp | TPasswordBackupCode | TPasswordSecurityKey | TPasskey
  | TAttestedPasskey => if privileged then ScReadWrite else ScPrivilegeCapable
  end.
(* `let scope = match auth_type { .. }` of AuthIntent::Reauth; None = AU0006 *)
Definition reauth_scope (t : authtype) : option sscope :=
  match t with
  | TAnonymous | TGeneratedPassword | TOAuth2Trust => None
  | TPassword | TPasswordTotp | TPasswordBackupCode | TPasswordSecurityKey | TPasskey
  | TAttestedPasskey => Some ScPrivilegeCapable
  end.

Definition to_uat (sc : sscope) (ct : N) (pol : policy) : option uat :=
  let ct := trunc ct in
  let expiry := ct + p_sess pol * G in
  let limited := ct + LIMITED * G in
  match sc with
  | ScSynchronise => None
  | ScReadOnly => Some (mkuat ct (Some expiry) PReadOnly)
  | ScReadWrite => let capped := N.min expiry limited in
                   Some (mkuat ct (Some capped) (PReadWrite (Some capped)))
  | ScPrivilegeCapable => Some (mkuat ct (Some expiry) (PReadWrite None))
  end.

Definition to_reissue (sexp : option N) (sc : sscope) (rw : bool) (ct : N) (pol : policy) : option uat :=
  match sc with
  | ScSynchronise | ScReadOnly | ScReadWrite => None
  | ScPrivilegeCapable =>
      if rw then Some (mkuat ct sexp (PReadWrite (Some (ct + p_priv pol * G))))
      else Some (mkuat ct sexp (PReadWrite None))
  end.

Definition cert_uat (rw : bool) (ct : N) : uat :=
  mkuat ct None (if rw then PReadWrite None else PReadOnly).

Inductive intent := IInitial (privileged : bool) | IReauth (rw : bool) (sexp : option N).
Inductive ierr := EAU0004 | EAU0006 | EAU0007 | EOtherIssue.
(* the session record queued for the database: scope, expiry (state), type *)
Definition srec := (sscope * option N * authtype)%type.
Inductive ires := IOk (u : uat) (r : option srec) | IErr (e : ierr).

Definition issue_uat (i : intent) (t : authtype) (ct : N) (pol : policy) : ires :=
  match i with
  | IInitial privileged =>
      let sc := initial_scope t privileged in
      match to_uat sc ct pol with
      | None => IErr EAU0004
      | Some u => IOk u (match t with TAnonymous => None | _ => Some (sc, u_expiry u, t) end)
      end
  | IReauth rw sexp =>
      match reauth_scope t with
      | None => IErr EAU0006
      | Some sc => match to_reissue sexp sc rw ct pol with
                   | None => IErr EAU0007
                   | Some u => IOk u None
                   end
      end
  end.

(* what the bearer of the signed token sees: `time::serde::timestamp` keeps whole seconds *)
Definition ser (u : uat) : uat :=
  mkuat (trunc (u_issued u)) (option_map trunc (u_expiry u))
        (match u_purpose u with PReadOnly => PReadOnly | PReadWrite e => PReadWrite (option_map trunc e) end).

(* ---------------------------------------------------------------- token -> identity *)
Inductive outcome := OScope (a : ascope) | OExpired | OErr.

(* validate_and_parse_token_to_identity_token: `if exp < ct_odt { SessionExpired }` *)
Definition token_expired (u : uat) (ct : N) : bool :=
  match u_expiry u with Some e => e <? ct | None => false end.

(* Account::check_user_auth_token_valid (account validity window and revocation are not part of
   this model: the harness never sets them) *)
Definition session_valid (db : option srec) (anon : bool) (u : uat) (ct : N) : bool :=
  if anon then true else
  match db with
  | Some (_, st, _) =>
      match st, u_expiry u with
      | Some s, Some e => s =? e
      | None, None => true
      | _, _ => false
      end
  | None => ct <? u_issued u + GRACE
  end.

(* process_uat_to_identity: `let scope = match uat.purpose { .. }` *)
Definition uat_scope (u : uat) (ct : N) : ascope :=
  match u_purpose u with
  | PReadOnly => AReadOnly
  | PReadWrite None => AReadOnly
  | PReadWrite (Some e) => if ct <? e then AReadWrite else AReadOnly
  end.

Definition use (db : option srec) (anon : bool) (u : uat) (ct : N) : outcome :=
  if token_expired u ct then OExpired
  else if negb (session_valid db anon u ct) then OExpired
  else OScope (uat_scope u ct).

(* API tokens: `if UNIX_EPOCH + ct >= expiry { SessionExpired }`, scope = From<&ApiTokenPurpose> *)
Definition api_use (rw : bool) (expiry : option N) (ct : N) : outcome :=
  if match expiry with Some e => e <=? ct | None => false end then OExpired
  else OScope (if rw then AReadWrite else AReadOnly).
(* client_certificate_to_identity and process_ldap_uuid_to_identity hard-code ReadOnly *)
Definition cert_use (ct : N) : outcome := OScope AReadOnly.
Definition ldap_use (ct : N) : outcome := OScope AReadOnly.
(* client_certificate_to_user_auth_token followed by process_uat_to_identity in the same request
   (pre-validated token path): the certificate "session" has no session record *)
Definition cert_uat_use (ct : N) : outcome := use None false (cert_uat false ct) ct.

(* ---------------------------------------------------------------- session histories *)
(* a token together with where it came from: the exact time of the (re)authentication that
   issued it and the privilege window (seconds) that event granted, if any *)
Record tk := mktk { tk_u : uat; tk_at : N; tk_win : option N }.
Record st := mkst { s_db : option srec; s_toks : list tk }.

Definition ro_class (t : authtype) : bool :=
  match t with TAnonymous | TOAuth2Trust => true | _ => false end.
Definition is_genpw (t : authtype) : bool :=
  match t with TGeneratedPassword => true | _ => false end.
(* the specification's table: which logins open a write window, and how long *)
Definition spec_login_window (E : N) (t : authtype) (privileged : bool) : option N :=
  if ro_class t then None
  else if privileged || is_genpw t then Some (N.min E LIMITED) else None.
Definition spec_reauth_window (P : N) (rw : bool) : option N := if rw then Some P else None.

Inductive hop :=
| HUse (i ct : N)                                   (* present token i at time ct *)
| HReauth (i : N) (rw : bool) (ct : N)              (* re-authenticate with token i's identity *)
| HRaw (t : authtype) (rw : bool) (sexp : option N) (ct : N).
                                                    (* issue_uat called directly with a Reauth intent *)
Inductive rres := ROk (u : uat) | RIdent | RNoSession | RMayNotReauth | RIssueErr (e : ierr) | ROther.
Inductive hobs := BUse (o : outcome) | BRe (r : rres).

Definition tok (s : st) (i : N) : option tk := nth_error (s_toks s) (N.to_nat i).
Definition add (s : st) (k : tk) : st := mkst (s_db s) (s_toks s ++ [k]).

(* validate token -> identity; reauth_init (session lookup, scope test); new_reauth (expiry from the
   stored session, read_write from the request); issue_uat with the stored session's type *)
Definition reauth (pol : policy) (anon : bool) (s : st) (i : N) (rw : bool) (ct : N) : rres :=
  match tok s i with
  | None => ROther
  | Some k =>
      match use (s_db s) anon (tk_u k) ct with
      | OScope _ =>
          match s_db s with
          | None => RNoSession
          | Some (ScPrivilegeCapable, sx, ty) =>
              match issue_uat (IReauth rw sx) ty ct pol with
              | IOk u _ => ROk (ser u)
              | IErr e => RIssueErr e
              end
          | Some _ => RMayNotReauth
          end
      | _ => RIdent
      end
  end.

Definition step (pol : policy) (anon : bool) (s : st) (o : hop) : st * hobs :=
  match o with
  | HUse i ct =>
      (s, BUse (match tok s i with Some k => use (s_db s) anon (tk_u k) ct | None => OErr end))
  | HReauth i rw ct =>
      match reauth pol anon s i rw ct with
      | ROk u => (add s (mktk u ct (spec_reauth_window (p_priv pol) rw)), BRe (ROk u))
      | r => (s, BRe r)
      end
  | HRaw t rw sexp ct =>
      match issue_uat (IReauth rw sexp) t ct pol with
      | IOk u _ => let u' := ser u in
                   (add s (mktk u' ct (spec_reauth_window (p_priv pol) rw)), BRe (ROk u'))
      | IErr e => (s, BRe (RIssueErr e))
      end
  end.

Fixpoint run (pol : policy) (anon : bool) (s : st) (ops : list hop) : list hobs :=
  match ops with
  | [] => []
  | o :: r => let '(s1, b) := step pol anon s o in b :: run pol anon s1 r
  end.
Fixpoint state_after (pol : policy) (anon : bool) (s : st) (ops : list hop) : st :=
  match ops with
  | [] => s
  | o :: r => state_after pol anon (fst (step pol anon s o)) r
  end.

(* the login that opens the session: the signed token and the stored session record *)
Definition login (pol : policy) (t : authtype) (privileged : bool) (t0 : N) : ires * option st :=
  match issue_uat (IInitial privileged) t t0 pol with
  | IOk u r => let u' := ser u in
               (IOk u' r, Some (mkst r [mktk u' t0 (spec_login_window (p_sess pol) t privileged)]))
  | IErr e => (IErr e, None)
  end.

(* ---------------------------------------------------------------- correspondence *)
Definition optN_eqb (a b : option N) : bool :=
  match a, b with Some x, Some y => x =? y | None, None => true | _, _ => false end.
Definition purpose_eqb (a b : purpose) : bool :=
  match a, b with
  | PReadOnly, PReadOnly => true
  | PReadWrite x, PReadWrite y => optN_eqb x y
  | _, _ => false
  end.
Definition uat_eqb (a b : uat) : bool :=
  (u_issued a =? u_issued b) && optN_eqb (u_expiry a) (u_expiry b) && purpose_eqb (u_purpose a) (u_purpose b).
Definition at_code (t : authtype) : N :=
  match t with
  | TAnonymous => 0 | TPassword => 1 | TGeneratedPassword => 2 | TPasswordTotp => 3
  | TPasswordBackupCode => 4 | TPasswordSecurityKey => 5 | TPasskey => 6 | TAttestedPasskey => 7
  | TOAuth2Trust => 8
  end.
Definition sc_code (s : sscope) : N :=
  match s with ScReadOnly => 0 | ScReadWrite => 1 | ScPrivilegeCapable => 2 | ScSynchronise => 3 end.
Definition srec_eqb (a b : srec) : bool :=
  let '(s1, e1, t1) := a in let '(s2, e2, t2) := b in
  (sc_code s1 =? sc_code s2) && optN_eqb e1 e2 && (at_code t1 =? at_code t2).
Definition osrec_eqb (a b : option srec) : bool :=
  match a, b with Some x, Some y => srec_eqb x y | None, None => true | _, _ => false end.
Definition ierr_code (e : ierr) : N :=
  match e with EAU0004 => 0 | EAU0006 => 1 | EAU0007 => 2 | EOtherIssue => 3 end.
Definition ires_eqb (a b : ires) : bool :=
  match a, b with
  | IOk u r, IOk u' r' => uat_eqb u u' && osrec_eqb r r'
  | IErr e, IErr e' => ierr_code e =? ierr_code e'
  | _, _ => false
  end.
Definition as_code (a : ascope) : N := match a with AReadOnly => 0 | AReadWrite => 1 | ASynchronise => 2 end.
Definition outcome_eqb (a b : outcome) : bool :=
  match a, b with
  | OScope x, OScope y => as_code x =? as_code y
  | OExpired, OExpired => true
  | OErr, OErr => true
  | _, _ => false
  end.
Definition rres_eqb (a b : rres) : bool :=
  match a, b with
  | ROk u, ROk u' => uat_eqb u u'
  | RIdent, RIdent | RNoSession, RNoSession | RMayNotReauth, RMayNotReauth | ROther, ROther => true
  | RIssueErr e, RIssueErr e' => ierr_code e =? ierr_code e'
  | _, _ => false
  end.
Definition hobs_eqb (a b : hobs) : bool :=
  match a, b with
  | BUse x, BUse y => outcome_eqb x y
  | BRe x, BRe y => rres_eqb x y
  | _, _ => false
  end.

Inductive case :=
(* one session on a real server: policy (seconds), account is `anonymous`?, authentication type,
   privileged flag, login time, observed login result, then operations with observed results *)
| CSess (E P : N) (anon : bool) (t : authtype) (privileged : bool) (t0 : N) (lg : ires)
        (ops : list (hop * hobs))
| CApi (rw : bool) (expiry : option N) (uses : list (N * outcome))
| CLdap (uses : list (N * outcome))
| CCert (uses : list (N * (outcome * outcome))).    (* identity path, token path *)

Fixpoint ops_agree (pol : policy) (anon : bool) (s : st) (ops : list (hop * hobs)) : bool :=
  match ops with
  | [] => true
  | (o, b) :: r => let '(s1, m) := step pol anon s o in hobs_eqb m b && ops_agree pol anon s1 r
  end.

Definition agree (c : case) : bool :=
  match c with
  | CSess E P anon t privileged t0 lg ops =>
      let pol := mkpol E P in
      match login pol t privileged t0 with
      | (m, Some s) => ires_eqb m lg && ops_agree pol anon s ops
      | (m, None) => ires_eqb m lg && match ops with [] => true | _ => false end
      end
  | CApi rw e uses => forallb (fun x => outcome_eqb (api_use rw e (fst x)) (snd x)) uses
  | CLdap uses => forallb (fun x => outcome_eqb (ldap_use (fst x)) (snd x)) uses
  | CCert uses => forallb (fun x => outcome_eqb (cert_use (fst x)) (fst (snd x))
                                    && outcome_eqb (cert_uat_use (fst x)) (snd (snd x))) uses
  end.

(* ---------------------------------------------------------------- the property on observations *)
(* `wins` lists, per token of the session in order of issue, the time of the event that issued it
   and the privilege window (seconds) the specification attaches to that event.
   `rexp` = Some x when the login stored a session record; x is its expiry (= the login token's).
   `bound` = the same expiry when the account's sessions are checked against the stored record
   (every account but `anonymous`, whose tokens are only bounded one by one).
   Checked on what the IMPLEMENTATION answered:
   - a ReadWrite answer needs a window-granting event a with ct < floor_s(a) + W;
   - a user token never yields Synchronise;
   - no answer other than "expired" after the expiry fixed at login;
   - a re-authentication never succeeds on an anonymous / OAuth2-trust session, and the token it
     issues carries exactly the expiry fixed at login. *)
Fixpoint p_ops (P : N) (rexp : option (option N)) (bound : option N) (roc : bool)
         (wins : list (N * option N)) (ops : list (hop * hobs)) : bool :=
  match ops with
  | [] => true
  | (HUse i ct, BUse (OScope sc)) :: r =>
      match sc with
      | AReadOnly => true
      | AReadWrite => match nth_error wins (N.to_nat i) with
                      | Some (a, Some W) => ct <? trunc a + W * G
                      | _ => false
                      end
      | ASynchronise => false
      end
      && match bound with Some e => negb (e <? ct) | None => true end
      && p_ops P rexp bound roc wins r
  | (HReauth i rw ct, BRe (ROk u)) :: r =>
      negb roc
      && match rexp with Some sx => optN_eqb (u_expiry u) sx | None => false end
      && p_ops P rexp bound roc (wins ++ [(ct, spec_reauth_window P rw)]) r
  | (HRaw t rw sexp ct, BRe (ROk u)) :: r =>
      p_ops P rexp bound roc (wins ++ [(ct, spec_reauth_window P rw)]) r
  | _ :: r => p_ops P rexp bound roc wins r
  end.

Definition no_rw (o : outcome) : bool :=
  match o with OScope AReadOnly | OExpired => true | _ => false end.

Definition pcheck (c : case) : bool :=
  match c with
  | CSess E P anon t privileged t0 lg ops =>
      match lg with
      | IOk u r =>
          match r with
          | None => p_ops P None None (ro_class t) [(t0, spec_login_window E t privileged)] ops
          | Some (_, sx, _) =>
              (* the stored session carries the login token's expiry, and it is bounded *)
              optN_eqb sx (u_expiry u) && match sx with Some _ => true | None => false end
              && p_ops P (Some sx) (if anon then None else sx) (ro_class t)
                       [(t0, spec_login_window E t privileged)] ops
          end
      | IErr _ => match ops with [] => true | _ => false end
      end
  | CApi rw e uses =>
      forallb (fun x => match snd x with
                        | OScope AReadWrite => rw && match e with Some x' => fst x <? x' | None => true end
                        | OScope ASynchronise => false
                        | _ => true end) uses
  | CLdap uses => forallb (fun x => no_rw (snd x)) uses
  | CCert uses => forallb (fun x => no_rw (fst (snd x)) && no_rw (snd (snd x))) uses
  end.

Definition known (_ : case) : bool := false.
