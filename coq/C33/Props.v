(* KV.C33.Props — property theorems only.
   Vocabulary (KV.C33.Model): times are nanoseconds, G = 1e9, trunc = floor to the whole second.
   `login pol t priv t0` = the session opened by an authentication of type t at time t0
   (AuthSession::issue_uat, signed token, stored session record); `state_after .. s0 pre` = the
   session after the operations `pre` (present a token / re-authenticate through reauth_init /
   issue_uat called directly with a Reauth intent and ARBITRARY type and session expiry), at
   ARBITRARY times, in any order, any number; `snd (step .. s o)` = what operation o answers. *)
From Coq Require Import List NArith Bool.
Import ListNotations.
Require Import KV.C33.Model KV.C33.Proofs.
Open Scope N_scope.

(* WRITE ACCESS NEEDS A WINDOW. Whenever presenting token i at time ct yields ReadWrite, there is
   an authentication event at some time a that granted a window of W seconds — either the login
   itself (and then the specification's table grants W = min(E, 3600) for this type / privileged
   flag) or an earlier read-write re-authentication of the history (W = privilege expiry P) — and
   ct lies before floor_s(a) + W; if the token is used after it was issued, a <= ct < a + W. *)
Theorem C33_rw_needs_window : forall E P anon t priv t0 lg s0 pre i ct,
  login (mkpol E P) t priv t0 = (lg, Some s0) ->
  snd (step (mkpol E P) anon (state_after (mkpol E P) anon s0 pre) (HUse i ct)) = BUse (OScope AReadWrite) ->
  exists a W,
    ((a = t0 /\ spec_login_window E t priv = Some W) \/
     (((exists j, In (HReauth j true a) pre) \/ (exists ty sx, In (HRaw ty true sx a) pre)) /\ W = P)) /\
    ct < trunc a + W * G /\ (a <= ct -> a <= ct < a + W * G).
Proof. exact rw_needs_window. Qed.

(* The login window is at most one hour whatever the policy says. *)
Theorem C33_login_window_bounded : forall E t priv W,
  spec_login_window E t priv = Some W -> W <= LIMITED /\ W <= E /\ ro_class t = false.
Proof.
  intros E t priv W H. unfold spec_login_window in H.
  destruct (ro_class t); [discriminate|]. destruct (priv || is_genpw t); [|discriminate].
  injection H as <-. repeat split; [apply N.le_min_r | apply N.le_min_l].
Qed.

(* ANONYMOUS AND OAUTH2-TRUST SESSIONS ARE ALWAYS READ-ONLY: over the real flows (no direct
   issue_uat call) no token of the session ever yields ReadWrite (or Synchronise) and no
   re-authentication ever succeeds, whatever the privileged flag, the policy and the times. *)
Theorem C33_always_ro : forall E P anon t priv t0 lg s0 pre o,
  ro_class t = true ->
  login (mkpol E P) t priv t0 = (lg, Some s0) ->
  no_raw pre -> is_raw o = false ->
  match snd (step (mkpol E P) anon (state_after (mkpol E P) anon s0 pre) o) with
  | BUse (OScope AReadWrite) | BUse (OScope ASynchronise) | BRe (ROk _) => False
  | _ => True
  end.
Proof. exact always_ro. Qed.

(* AN ORDINARY LOGIN IS READ-ONLY UNTIL RE-AUTHENTICATION: a non-privileged login of any type
   but GeneratedPassword (break-glass accounts, read-write for at most an hour by design) never
   yields ReadWrite before a read-write re-authentication has happened in the history. *)
Theorem C33_plain_login_ro_until_reauth : forall E P anon t t0 lg s0 pre i ct,
  is_genpw t = false ->
  login (mkpol E P) t false t0 = (lg, Some s0) ->
  (forall j a, ~ In (HReauth j true a) pre) ->
  (forall ty sx a, ~ In (HRaw ty true sx a) pre) ->
  snd (step (mkpol E P) anon (state_after (mkpol E P) anon s0 pre) (HUse i ct)) <> BUse (OScope AReadWrite).
Proof.
  intros E P anon t t0 lg s0 pre i ct Hg Hl Hn1 Hn2 Hs.
  destruct (rw_needs_window _ _ _ _ _ _ _ _ _ _ _ Hl Hs) as (a & W & [[_ Hw]|[[(j & Hj)|(ty & sx & Hr)] _]] & _).
  - unfold spec_login_window in Hw. rewrite Hg in Hw. destruct (ro_class t); discriminate.
  - exact (Hn1 _ _ Hj).
  - exact (Hn2 _ _ _ Hr).
Qed.

(* RE-AUTHENTICATION NEVER EXTENDS THE SESSION: a token issued by a successful re-authentication
   carries exactly the expiry of the login token (and the session is not an anonymous /
   OAuth2-trust one) ... *)
Theorem C33_reauth_keeps_expiry : forall E P anon t priv t0 u0 r s0 pre i rw ct u,
  login (mkpol E P) t priv t0 = (IOk u0 r, Some s0) ->
  snd (step (mkpol E P) anon (state_after (mkpol E P) anon s0 pre) (HReauth i rw ct)) = BRe (ROk u) ->
  u_expiry u = u_expiry u0 /\ ro_class t = false.
Proof. exact reauth_keeps_expiry. Qed.

(* ... and on every account whose sessions are recorded (all but `anonymous`), NO token of the
   session — not even one minted by calling issue_uat directly with a later expiry — is accepted
   after the expiry fixed at login, which is at most login + session expiry E. *)
Theorem C33_session_never_outlives_login_expiry : forall E P t priv t0 u0 r s0 pre i ct sc,
  login (mkpol E P) t priv t0 = (IOk u0 r, Some s0) -> r <> None ->
  snd (step (mkpol E P) false (state_after (mkpol E P) false s0 pre) (HUse i ct)) = BUse (OScope sc) ->
  exists x, u_expiry u0 = Some x /\ ct <= x /\ x <= trunc t0 + E * G.
Proof. exact session_bound. Qed.

(* Function level, all nine authentication types and both intents: a token issued by issue_uat at
   time a yields ReadWrite at ct only inside the window of that call. *)
Theorem C33_issue_window : forall i t a E P u r ct,
  issue_uat i t a (mkpol E P) = IOk u r -> uat_scope (ser u) ct = AReadWrite ->
  exists W,
    match i with
    | IInitial priv => spec_login_window E t priv = Some W /\ W <= LIMITED
    | IReauth rw _ => rw = true /\ W = P
    end /\ ct < trunc a + W * G.
Proof. exact issue_window. Qed.

(* Anonymous / OAuth2-trust: the issued token is ReadOnly and a re-authentication is refused. *)
Theorem C33_ro_types_issue : forall t priv ct E P,
  ro_class t = true ->
  (exists u r, issue_uat (IInitial priv) t ct (mkpol E P) = IOk u r /\ u_purpose (ser u) = PReadOnly) /\
  (forall rw sx, issue_uat (IReauth rw sx) t ct (mkpol E P) = IErr EAU0006).
Proof. exact ro_types_issue. Qed.

(* Certificate and LDAP password identities are read-only; an API token is read-write only if it
   was issued read-write and is not expired (the stated exception). *)
Theorem C33_cert_ldap_api : forall ct,
  cert_use ct = OScope AReadOnly /\ cert_uat_use ct = OScope AReadOnly /\ ldap_use ct = OScope AReadOnly /\
  forall rw e, api_use rw e ct = OScope AReadWrite ->
    rw = true /\ match e with Some x => ct < x | None => True end.
Proof.
  intro ct. split; [reflexivity|]. split; [apply cert_uat_use_ro|]. split; [reflexivity|].
  intros rw e H. unfold api_use in H. destruct e as [x|].
  - destruct (x <=? ct) eqn:Hx; [discriminate|]. destruct rw; [|discriminate].
    split; [reflexivity|]. apply N.leb_gt. exact Hx.
  - destruct rw; [split; [reflexivity | exact I] | discriminate].
Qed.

(* The answers of a whole run are exactly the step answers used in the theorems above. *)
Theorem C33_run_decompose : forall pol anon pre s o post,
  run pol anon s (pre ++ o :: post) =
  run pol anon s pre
  ++ snd (step pol anon (state_after pol anon s pre) o)
  :: run pol anon (state_after pol anon s (pre ++ [o])) post.
Proof. exact run_decompose. Qed.

(* Soundness of the run-time tie: whenever the implementation's observations agree with the
   model, the property's executable predicate holds on those observations. *)
Theorem C33_agree_implies_property : forall c : case, agree c = true -> pcheck c = true.
Proof. exact agree_pcheck. Qed.
