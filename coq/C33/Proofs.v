(* KV.C33.Proofs — lemmas and proofs for the write-privilege model. *)
From Coq Require Import List NArith Bool Lia.
Import ListNotations.
Require Import KV.C33.Model.
Open Scope N_scope.
Arguments N.add : simpl never.
Arguments N.sub : simpl never.
Arguments N.mul : simpl never.
Arguments N.div : simpl never.
Arguments N.ltb : simpl never.
Arguments N.leb : simpl never.
Arguments N.eqb : simpl never.
Arguments N.min : simpl never.

(* ------------------------------------------------------------------ whole seconds *)
Lemma G_nz : G <> 0. Proof. discriminate. Qed.
Lemma G_pos : 0 < G. Proof. reflexivity. Qed.

Lemma trunc_le : forall t, trunc t <= t.
Proof. intro t. unfold trunc. rewrite N.mul_comm. apply N.mul_div_le. exact G_nz. Qed.

Lemma trunc_add : forall t k, trunc (t + k * G) = trunc t + k * G.
Proof.
  intros t k. unfold trunc. rewrite N.div_add by exact G_nz. apply N.mul_add_distr_r.
Qed.

Lemma trunc_mul : forall k, trunc (k * G) = k * G.
Proof. intro k. unfold trunc. rewrite N.div_mul by exact G_nz. reflexivity. Qed.

Lemma trunc_idem : forall t, trunc (trunc t) = trunc t.
Proof. intro t. unfold trunc at 2. apply trunc_mul. Qed.

Lemma trunc_sec : forall t k, trunc (trunc t + k * G) = trunc t + k * G.
Proof. intros t k. rewrite trunc_add, trunc_idem. reflexivity. Qed.

Lemma min_window : forall c e l, N.min (c + e * G) (c + l * G) = c + N.min e l * G.
Proof.
  intros c e l. rewrite N.add_min_distr_l. f_equal. apply N.mul_min_distr_r.
Qed.

(* ------------------------------------------------------------------ boolean equalities *)
Lemma optN_eqb_eq : forall a b, optN_eqb a b = true -> a = b.
Proof.
  intros [a|] [b|] H; cbn in H; try discriminate; [|reflexivity].
  apply N.eqb_eq in H. subst. reflexivity.
Qed.
Lemma optN_eqb_refl : forall a, optN_eqb a a = true.
Proof. intros [a|]; cbn; [apply N.eqb_refl | reflexivity]. Qed.
Lemma purpose_eqb_eq : forall a b, purpose_eqb a b = true -> a = b.
Proof.
  intros [|x] [|y] H; cbn in H; try discriminate; [reflexivity|].
  apply optN_eqb_eq in H. subst. reflexivity.
Qed.
Lemma uat_eqb_eq : forall a b, uat_eqb a b = true -> a = b.
Proof.
  intros [i1 e1 p1] [i2 e2 p2] H. unfold uat_eqb in H. cbn [u_issued u_expiry u_purpose] in H.
  apply andb_prop in H as [H Hp]. apply andb_prop in H as [Hi He].
  apply N.eqb_eq in Hi. apply optN_eqb_eq in He. apply purpose_eqb_eq in Hp. subst. reflexivity.
Qed.
Lemma at_code_inj : forall a b, at_code a =? at_code b = true -> a = b.
Proof. intros a b H; destruct a, b; try reflexivity; discriminate H. Qed.
Lemma sc_code_inj : forall a b, sc_code a =? sc_code b = true -> a = b.
Proof. intros a b H; destruct a, b; try reflexivity; discriminate H. Qed.
Lemma ierr_code_inj : forall a b, ierr_code a =? ierr_code b = true -> a = b.
Proof. intros a b H; destruct a, b; try reflexivity; discriminate H. Qed.
Lemma as_code_inj : forall a b, as_code a =? as_code b = true -> a = b.
Proof. intros a b H; destruct a, b; try reflexivity; discriminate H. Qed.
Lemma srec_eqb_eq : forall a b, srec_eqb a b = true -> a = b.
Proof.
  intros [[s1 e1] t1] [[s2 e2] t2] H. cbn in H.
  apply andb_prop in H as [H Ht]. apply andb_prop in H as [Hs He].
  apply sc_code_inj in Hs. apply optN_eqb_eq in He. apply at_code_inj in Ht. subst. reflexivity.
Qed.
Lemma osrec_eqb_eq : forall a b, osrec_eqb a b = true -> a = b.
Proof.
  intros [a|] [b|] H; cbn in H; try discriminate; [|reflexivity].
  apply srec_eqb_eq in H. subst. reflexivity.
Qed.
Lemma ires_eqb_eq : forall a b, ires_eqb a b = true -> a = b.
Proof.
  intros [u r|e] [u' r'|e'] H; cbn in H; try discriminate.
  - apply andb_prop in H as [Hu Hr]. apply uat_eqb_eq in Hu. apply osrec_eqb_eq in Hr. subst. reflexivity.
  - apply ierr_code_inj in H. subst. reflexivity.
Qed.
Lemma outcome_eqb_eq : forall a b, outcome_eqb a b = true -> a = b.
Proof.
  intros [x| |] [y| |] H; cbn in H; try discriminate; try reflexivity.
  apply as_code_inj in H. subst. reflexivity.
Qed.
Lemma rres_eqb_eq : forall a b, rres_eqb a b = true -> a = b.
Proof.
  intros [u| | | |e|] [u'| | | |e'|] H; cbn in H; try discriminate; try reflexivity.
  - apply uat_eqb_eq in H. subst. reflexivity.
  - apply ierr_code_inj in H. subst. reflexivity.
Qed.
Lemma hobs_eqb_eq : forall a b, hobs_eqb a b = true -> a = b.
Proof.
  intros [x|x] [y|y] H; cbn in H; try discriminate.
  - apply outcome_eqb_eq in H. subst. reflexivity.
  - apply rres_eqb_eq in H. subst. reflexivity.
Qed.

(* ------------------------------------------------------------------ what issue_uat issues *)
Definition login_purpose_spec (E : N) (t : authtype) (priv : bool) (t0 : N) (p : purpose) : Prop :=
  match p with
  | PReadWrite (Some e) =>
      spec_login_window E t priv = Some (N.min E LIMITED) /\ e = trunc t0 + N.min E LIMITED * G
  | _ => spec_login_window E t priv = None
  end.

Lemma login_token : forall E P t priv t0 u r,
  issue_uat (IInitial priv) t t0 (mkpol E P) = IOk u r ->
  ser u = u /\ u_issued u = trunc t0 /\
  (exists x, u_expiry u = Some x /\ x <= trunc t0 + E * G) /\
  r = match t with TAnonymous => None | _ => Some (initial_scope t priv, u_expiry u, t) end /\
  login_purpose_spec E t priv t0 (u_purpose u).
Proof.
  intros E P t priv t0 u r H. unfold issue_uat in H.
  destruct (to_uat (initial_scope t priv) t0 (mkpol E P)) as [u'|] eqn:Hu; [|discriminate].
  injection H as <- <-.
  unfold to_uat in Hu. cbn [p_sess] in Hu.
  destruct (initial_scope t priv) eqn:Hs; try discriminate; injection Hu as <-;
    unfold ser, login_purpose_spec; cbn [u_issued u_expiry u_purpose option_map];
    rewrite ?min_window, ?trunc_idem, ?trunc_sec.
  - repeat split; try reflexivity.
    + eexists; split; [reflexivity | lia].
    + destruct t, priv; cbn in Hs |- *; try discriminate; reflexivity.
  - repeat split; try reflexivity.
    + eexists; split; [reflexivity|]. apply N.add_le_mono_l. apply N.mul_le_mono_r. apply N.le_min_l.
    + destruct t, priv; cbn in Hs |- *; try discriminate; reflexivity.
  - repeat split; try reflexivity.
    + eexists; split; [reflexivity | lia].
    + destruct t, priv; cbn in Hs |- *; try discriminate; reflexivity.
Qed.

Lemma reissue_token : forall E P t rw sx ct u r,
  issue_uat (IReauth rw sx) t ct (mkpol E P) = IOk u r ->
  reauth_scope t = Some ScPrivilegeCapable /\ r = None /\
  u_issued (ser u) = trunc ct /\ u_expiry (ser u) = option_map trunc sx /\
  u_purpose (ser u) = if rw then PReadWrite (Some (trunc ct + P * G)) else PReadWrite None.
Proof.
  intros E P t rw sx ct u r H. unfold issue_uat in H.
  destruct (reauth_scope t) as [sc|] eqn:Hs; [|discriminate].
  assert (sc = ScPrivilegeCapable) as -> by (destruct t; cbn in Hs; congruence).
  unfold to_reissue in H. cbn [p_priv] in H.
  destruct rw; injection H as <- <-; unfold ser; cbn [u_issued u_expiry u_purpose option_map];
    rewrite ?trunc_add; repeat split; reflexivity.
Qed.

(* ------------------------------------------------------------------ presenting a token *)
Lemma use_scope : forall db anon u ct sc,
  use db anon u ct = OScope sc ->
  token_expired u ct = false /\ session_valid db anon u ct = true /\ sc = uat_scope u ct.
Proof.
  intros db anon u ct sc H. unfold use in H.
  destruct (token_expired u ct); [discriminate|].
  destruct (session_valid db anon u ct); cbn in H; [|discriminate].
  injection H as <-. repeat split.
Qed.

Lemma uat_scope_rw : forall u ct,
  uat_scope u ct = AReadWrite -> exists e, u_purpose u = PReadWrite (Some e) /\ ct < e.
Proof.
  intros u ct H. unfold uat_scope in H.
  destruct (u_purpose u) as [|[e|]]; try discriminate.
  destruct (ct <? e) eqn:E; [|discriminate]. exists e. split; [reflexivity | apply N.ltb_lt; exact E].
Qed.

Lemma uat_scope_not_sync : forall u ct, uat_scope u ct <> ASynchronise.
Proof.
  intros u ct. unfold uat_scope. destruct (u_purpose u) as [|[e|]]; try discriminate.
  destruct (ct <? e); discriminate.
Qed.

(* ------------------------------------------------------------------ session invariant *)
Definition tk_ok (k : tk) : Prop :=
  forall e, u_purpose (tk_u k) = PReadWrite (Some e) ->
  exists W, tk_win k = Some W /\ e = trunc (tk_at k) + W * G.

(* where a token of the session came from: the login, or an operation of the history *)
Definition prov (t0 : N) (lw : option N) (P : N) (hist : list hop) (k : tk) : Prop :=
  (tk_at k = t0 /\ tk_win k = lw) \/
  (exists i rw, In (HReauth i rw (tk_at k)) hist /\ tk_win k = spec_reauth_window P rw) \/
  (exists ty rw sx, In (HRaw ty rw sx (tk_at k)) hist /\ tk_win k = spec_reauth_window P rw).

Lemma prov_mono : forall t0 lw P h h' k, prov t0 lw P h k -> prov t0 lw P (h ++ h') k.
Proof.
  intros t0 lw P h h' k [H|[(i & rw & Hi & Hw)|(ty & rw & sx & Hi & Hw)]].
  - left. exact H.
  - right. left. exists i, rw. split; [apply in_or_app; left; exact Hi | exact Hw].
  - right. right. exists ty, rw, sx. split; [apply in_or_app; left; exact Hi | exact Hw].
Qed.

Definition Inv (db0 : option srec) (t0 : N) (lw : option N) (P : N) (hist : list hop) (s : st) : Prop :=
  s_db s = db0 /\ Forall tk_ok (s_toks s) /\ Forall (prov t0 lw P hist) (s_toks s).

Lemma reissued_ok : forall E P t rw sx ct u r,
  issue_uat (IReauth rw sx) t ct (mkpol E P) = IOk u r ->
  tk_ok (mktk (ser u) ct (spec_reauth_window P rw)).
Proof.
  intros E P t rw sx ct u r H. apply reissue_token in H as (_ & _ & _ & _ & Hp).
  intros e He. cbn [tk_u tk_at tk_win] in *. rewrite Hp in He.
  destruct rw; [|discriminate]. injection He as <-. exists P. split; reflexivity.
Qed.

Lemma Forall_mono_prov : forall t0 lw P h h' l,
  Forall (prov t0 lw P h) l -> Forall (prov t0 lw P (h ++ h')) l.
Proof. intros. eapply Forall_impl; [|eassumption]. intros k Hk. apply prov_mono. exact Hk. Qed.

Lemma step_inv : forall E P anon db0 t0 lw hist s o,
  Inv db0 t0 lw P hist s -> Inv db0 t0 lw P (hist ++ [o]) (fst (step (mkpol E P) anon s o)).
Proof.
  intros E P anon db0 t0 lw hist s o (Hdb & Hok & Hpr).
  destruct o as [i ct | i rw ct | ty rw sx ct]; cbn [step].
  - cbn [fst]. repeat split; [exact Hdb | exact Hok | apply Forall_mono_prov; exact Hpr].
  - destruct (reauth (mkpol E P) anon s i rw ct) as [u| | | |e|] eqn:Hr; cbn [fst];
      try (repeat split; [exact Hdb | exact Hok | apply Forall_mono_prov; exact Hpr]).
    unfold reauth in Hr.
    destruct (tok s i) as [k|]; [|discriminate].
    destruct (use (s_db s) anon (tk_u k) ct); try discriminate.
    destruct (s_db s) as [[[sc sx] ty]|] eqn:Hd; [|discriminate].
    destruct sc; try discriminate.
    destruct (issue_uat (IReauth rw sx) ty ct (mkpol E P)) as [u' r'|e'] eqn:Hi; [|discriminate].
    injection Hr as <-. cbn [p_priv].
    repeat split; cbn [add s_db s_toks]; [rewrite Hd; exact Hdb | |].
    + apply Forall_app. split; [exact Hok|]. constructor; [|constructor].
      eapply reissued_ok. exact Hi.
    + apply Forall_app. split; [apply Forall_mono_prov; exact Hpr|]. constructor; [|constructor].
      right. left. exists i, rw. cbn [tk_at tk_win]. split; [apply in_or_app; right; left; reflexivity | reflexivity].
  - destruct (issue_uat (IReauth rw sx) ty ct (mkpol E P)) as [u' r'|e'] eqn:Hi; cbn [fst];
      [| repeat split; [exact Hdb | exact Hok | apply Forall_mono_prov; exact Hpr]].
    cbn [p_priv]. repeat split; cbn [add s_db s_toks]; [exact Hdb | |].
    + apply Forall_app. split; [exact Hok|]. constructor; [|constructor].
      eapply reissued_ok. exact Hi.
    + apply Forall_app. split; [apply Forall_mono_prov; exact Hpr|]. constructor; [|constructor].
      right. right. exists ty, rw, sx. cbn [tk_at tk_win].
      split; [apply in_or_app; right; left; reflexivity | reflexivity].
Qed.

Lemma state_after_inv : forall E P anon db0 t0 lw ops hist s,
  Inv db0 t0 lw P hist s ->
  Inv db0 t0 lw P (hist ++ ops) (state_after (mkpol E P) anon s ops).
Proof.
  intros E P anon db0 t0 lw ops. induction ops as [|o r IH]; intros hist s H; cbn [state_after].
  - rewrite app_nil_r. exact H.
  - replace (hist ++ o :: r) with ((hist ++ [o]) ++ r) by (rewrite <- app_assoc; reflexivity).
    apply IH. apply step_inv. exact H.
Qed.

Lemma login_inv : forall E P t priv t0 lg s0,
  login (mkpol E P) t priv t0 = (lg, Some s0) ->
  exists u r, lg = IOk u r /\ issue_uat (IInitial priv) t t0 (mkpol E P) = IOk u r /\
    s0 = mkst r [mktk u t0 (spec_login_window E t priv)] /\
    Inv r t0 (spec_login_window E t priv) P [] s0.
Proof.
  intros E P t priv t0 lg s0 H. unfold login in H.
  destruct (issue_uat (IInitial priv) t t0 (mkpol E P)) as [u r|e] eqn:Hi; [|discriminate].
  destruct (login_token _ _ _ _ _ _ _ Hi) as (Hser & _ & _ & _ & Hp).
  rewrite Hser in H. cbn [p_sess] in H. injection H as <- <-.
  exists u, r. split; [reflexivity|]. split; [reflexivity|]. split; [reflexivity|].
  split; [reflexivity|]. cbn [s_toks]. split.
  - constructor; [|constructor]. intros e He. cbn [tk_u tk_at tk_win] in *.
    unfold login_purpose_spec in Hp. rewrite He in Hp. destruct Hp as [Hw ->].
    exists (N.min E LIMITED). split; [exact Hw | reflexivity].
  - constructor; [|constructor]. left. split; reflexivity.
Qed.

(* ------------------------------------------------------------------ theorem A: the window *)
Lemma tok_in : forall s i k, tok s i = Some k -> In k (s_toks s).
Proof. intros s i k H. unfold tok in H. eapply nth_error_In. exact H. Qed.

Lemma use_step : forall pol anon s i ct sc,
  snd (step pol anon s (HUse i ct)) = BUse (OScope sc) ->
  exists k, tok s i = Some k /\ use (s_db s) anon (tk_u k) ct = OScope sc.
Proof.
  intros pol anon s i ct sc H. cbn [step snd] in H.
  destruct (tok s i) as [k|]; [|discriminate]. exists k. split; [reflexivity|]. congruence.
Qed.

Lemma rw_needs_window : forall E P anon t priv t0 lg s0 pre i ct,
  login (mkpol E P) t priv t0 = (lg, Some s0) ->
  snd (step (mkpol E P) anon (state_after (mkpol E P) anon s0 pre) (HUse i ct)) = BUse (OScope AReadWrite) ->
  exists a W,
    ((a = t0 /\ spec_login_window E t priv = Some W) \/
     (((exists j, In (HReauth j true a) pre) \/ (exists ty sx, In (HRaw ty true sx a) pre)) /\ W = P)) /\
    ct < trunc a + W * G /\ (a <= ct -> a <= ct < a + W * G).
Proof.
  intros E P anon t priv t0 lg s0 pre i ct Hl Hu.
  destruct (login_inv _ _ _ _ _ _ _ Hl) as (u & r & _ & _ & _ & Hinv).
  apply (state_after_inv E P anon _ _ _ pre) in Hinv. cbn [app] in Hinv.
  destruct Hinv as (_ & Hok & Hpr).
  apply use_step in Hu as (k & Hk & Hu).
  apply use_scope in Hu as (_ & _ & Hsc). symmetry in Hsc.
  apply uat_scope_rw in Hsc as (e & Hp & Hlt).
  apply tok_in in Hk.
  rewrite Forall_forall in Hok, Hpr.
  destruct (Hok k Hk e Hp) as (W & Hw & ->).
  exists (tk_at k), W.
  assert (Hb : tk_at k <= ct -> tk_at k <= ct < tk_at k + W * G).
  { intro Hle. split; [exact Hle|]. pose proof (trunc_le (tk_at k)). lia. }
  destruct (Hpr k Hk) as [[Ha Hlw]|[(j & rw & Hin & Hrw)|(ty & rw & sx & Hin & Hrw)]].
  - split; [left; split; [exact Ha | congruence] | split; [exact Hlt | exact Hb]].
  - rewrite Hw in Hrw. destruct rw; cbn in Hrw; [|discriminate]. injection Hrw as ->.
    split; [right; split; [left; exists j; exact Hin | reflexivity] | split; [exact Hlt | exact Hb]].
  - rewrite Hw in Hrw. destruct rw; cbn in Hrw; [|discriminate]. injection Hrw as ->.
    split; [right; split; [right; exists ty, sx; exact Hin | reflexivity] | split; [exact Hlt | exact Hb]].
Qed.

(* ------------------------------------------------------------------ theorem B: always read-only *)
Definition is_raw (o : hop) : bool := match o with HRaw _ _ _ _ => true | _ => false end.
Definition no_raw (ops : list hop) : Prop := forall o, In o ops -> is_raw o = false.
Definition db_no_reauth (db : option srec) : Prop :=
  match db with Some (ScPrivilegeCapable, _, _) => False | _ => True end.

Lemma reauth_needs_capable : forall pol anon s i rw ct u,
  reauth pol anon s i rw ct = ROk u -> db_no_reauth (s_db s) -> False.
Proof.
  intros pol anon s i rw ct u H Hd. unfold reauth in H.
  destruct (tok s i); [|discriminate].
  destruct (use (s_db s) anon (tk_u t) ct); try discriminate.
  destruct (s_db s) as [[[sc sx] ty]|]; [|discriminate].
  destruct sc; try discriminate. exact Hd.
Qed.

Lemma state_after_fixed : forall pol anon ops s,
  db_no_reauth (s_db s) -> no_raw ops -> state_after pol anon s ops = s.
Proof.
  intros pol anon ops. induction ops as [|o r IH]; intros s Hd Hn; cbn [state_after]; [reflexivity|].
  assert (Hs : fst (step pol anon s o) = s).
  { destruct o as [i ct | i rw ct | ty rw sx ct]; cbn [step].
    - reflexivity.
    - destruct (reauth pol anon s i rw ct) as [u| | | |e|] eqn:Hr; try reflexivity.
      exfalso. eapply reauth_needs_capable; eassumption.
    - specialize (Hn _ (or_introl eq_refl)). discriminate Hn. }
  rewrite Hs. apply IH; [exact Hd|]. intros o' Ho'. apply Hn. right. exact Ho'.
Qed.

Lemma ro_class_db : forall E P t priv t0 u r,
  ro_class t = true -> issue_uat (IInitial priv) t t0 (mkpol E P) = IOk u r -> db_no_reauth r.
Proof.
  intros E P t priv t0 u r Hc Hi. apply login_token in Hi as (_ & _ & _ & -> & _).
  destruct t; try discriminate Hc; cbn; exact I.
Qed.

Lemma always_ro : forall E P anon t priv t0 lg s0 pre o,
  ro_class t = true ->
  login (mkpol E P) t priv t0 = (lg, Some s0) ->
  no_raw pre -> is_raw o = false ->
  match snd (step (mkpol E P) anon (state_after (mkpol E P) anon s0 pre) o) with
  | BUse (OScope AReadWrite) | BUse (OScope ASynchronise) | BRe (ROk _) => False
  | _ => True
  end.
Proof.
  intros E P anon t priv t0 lg s0 pre o Hc Hl Hn Ho.
  destruct (login_inv _ _ _ _ _ _ _ Hl) as (u & r & _ & Hi & -> & (_ & Hok & _)).
  pose proof (ro_class_db _ _ _ _ _ _ _ Hc Hi) as Hd.
  rewrite state_after_fixed by (cbn [s_db]; assumption).
  destruct o as [i ct | i rw ct | ty rw sx ct]; [| |discriminate Ho].
  - destruct (snd (step (mkpol E P) anon (mkst r [mktk u t0 (spec_login_window E t priv)]) (HUse i ct)))
      as [[[| |]| |]|rr] eqn:Hs; try exact I.
    + apply use_step in Hs as (k & Hk & Hu). apply tok_in in Hk. cbn [s_toks] in Hk.
      destruct Hk as [<-|[]]. apply use_scope in Hu as (_ & _ & Hsc). symmetry in Hsc.
      apply uat_scope_rw in Hsc as (e & Hp & _). cbn [tk_u] in Hp.
      inversion Hok as [|k0 l0 Hk0 _]; subst. destruct (Hk0 e Hp) as (W & Hw & _).
      cbn [tk_win] in Hw. unfold spec_login_window in Hw. rewrite Hc in Hw. discriminate.
    + apply use_step in Hs as (k & _ & Hu). apply use_scope in Hu as (_ & _ & Hsc).
      symmetry in Hsc. exact (uat_scope_not_sync _ _ Hsc).
    + cbn [step snd] in Hs. discriminate Hs.
  - cbn [step]. destruct (reauth (mkpol E P) anon _ i rw ct) as [u'| | | |e|] eqn:Hr; cbn [snd]; try exact I.
    eapply reauth_needs_capable; [exact Hr | exact Hd].
Qed.

(* ------------------------------------------------------------------ theorem D: the expiry fixed at login *)
Lemma ser_fix_expiry : forall u, ser u = u -> option_map trunc (u_expiry u) = u_expiry u.
Proof. intros u H. apply (f_equal u_expiry) in H. exact H. Qed.

Lemma reauth_expiry : forall E P anon s i rw ct u sc sx ty,
  s_db s = Some (sc, sx, ty) -> option_map trunc sx = sx ->
  reauth (mkpol E P) anon s i rw ct = ROk u ->
  sc = ScPrivilegeCapable /\ u_expiry u = sx.
Proof.
  intros E P anon s i rw ct u sc sx ty Hd Hfix H. unfold reauth in H.
  destruct (tok s i); [|discriminate].
  destruct (use (s_db s) anon (tk_u t) ct); try discriminate.
  rewrite Hd in H. destruct sc; try discriminate.
  destruct (issue_uat (IReauth rw sx) ty ct (mkpol E P)) as [u' r'|e] eqn:Hi; [|discriminate].
  injection H as <-. apply reissue_token in Hi as (_ & _ & _ & He & _).
  split; [reflexivity|]. rewrite He. exact Hfix.
Qed.

Lemma reauth_keeps_expiry : forall E P anon t priv t0 u0 r s0 pre i rw ct u,
  login (mkpol E P) t priv t0 = (IOk u0 r, Some s0) ->
  snd (step (mkpol E P) anon (state_after (mkpol E P) anon s0 pre) (HReauth i rw ct)) = BRe (ROk u) ->
  u_expiry u = u_expiry u0 /\ ro_class t = false.
Proof.
  intros E P anon t priv t0 u0 r s0 pre i rw ct u Hl Hs.
  destruct (login_inv _ _ _ _ _ _ _ Hl) as (u1 & r1 & Hlg & Hi & _ & Hinv).
  injection Hlg as <- <-.
  apply (state_after_inv E P anon _ _ _ pre) in Hinv. destruct Hinv as (Hdb & _ & _).
  cbn [step] in Hs.
  destruct (reauth (mkpol E P) anon _ i rw ct) as [u'| | | |e|] eqn:Hr; cbn [snd] in Hs; try discriminate.
  injection Hs as ->.
  destruct (login_token _ _ _ _ _ _ _ Hi) as (Hser & _ & _ & Hr0 & _).
  destruct r as [[[sc sx] ty]|].
  - assert (Hsx : sx = u_expiry u0 /\ sc = initial_scope t priv).
    { destruct t; inversion Hr0; split; reflexivity. }
    destruct Hsx as [-> ->].
    destruct (reauth_expiry _ _ _ _ _ _ _ _ _ _ _ Hdb (ser_fix_expiry _ Hser) Hr) as [Hsc He].
    split; [exact He|]. destruct t, priv; cbn in Hsc |- *; try discriminate; reflexivity.
  - exfalso. eapply reauth_needs_capable; [exact Hr|]. rewrite Hdb. exact I.
Qed.

Lemma session_bound : forall E P t priv t0 u0 r s0 pre i ct sc,
  login (mkpol E P) t priv t0 = (IOk u0 r, Some s0) -> r <> None ->
  snd (step (mkpol E P) false (state_after (mkpol E P) false s0 pre) (HUse i ct)) = BUse (OScope sc) ->
  exists x, u_expiry u0 = Some x /\ ct <= x /\ x <= trunc t0 + E * G.
Proof.
  intros E P t priv t0 u0 r s0 pre i ct sc Hl Hr Hs.
  destruct (login_inv _ _ _ _ _ _ _ Hl) as (u1 & r1 & Hlg & Hi & _ & Hinv).
  injection Hlg as <- <-.
  apply (state_after_inv E P false _ _ _ pre) in Hinv. destruct Hinv as (Hdb & _ & _).
  apply use_step in Hs as (k & _ & Hu). apply use_scope in Hu as (Hex & Hsv & _).
  destruct (login_token _ _ _ _ _ _ _ Hi) as (_ & _ & (x & Hx & Hxle) & Hr0 & _).
  rewrite Hdb in Hsv. unfold session_valid in Hsv.
  destruct r as [[[sc' sx] ty]|]; [|congruence].
  assert (sx = u_expiry u0) as -> by (destruct t; inversion Hr0; reflexivity).
  rewrite Hx in Hsv. unfold token_expired in Hex.
  destruct (u_expiry (tk_u k)) as [e|]; [|discriminate].
  apply N.eqb_eq in Hsv. subst e. apply N.ltb_ge in Hex.
  exists x. repeat split; assumption.
Qed.

(* ------------------------------------------------------------------ the bridge: agree -> pcheck *)
Definition rel (s : st) (wins : list (N * option N)) : Prop :=
  map (fun k => (tk_at k, tk_win k)) (s_toks s) = wins.
Definition rexp_of (r : option srec) : option (option N) :=
  match r with Some (_, sx, _) => Some sx | None => None end.
Definition bound_of (anon : bool) (r : option srec) : option N :=
  match r with Some (_, sx, _) => if anon then None else sx | None => None end.

Lemma rel_nth : forall s wins i k,
  rel s wins -> tok s i = Some k -> nth_error wins (N.to_nat i) = Some (tk_at k, tk_win k).
Proof.
  intros s wins i k Hr Hk. unfold rel in Hr. subst wins. unfold tok in Hk.
  apply (map_nth_error (fun k => (tk_at k, tk_win k))) in Hk. exact Hk.
Qed.

Lemma rel_add : forall s wins k, rel s wins -> rel (add s k) (wins ++ [(tk_at k, tk_win k)]).
Proof.
  intros s wins k Hr. unfold rel in *. cbn [add s_toks]. rewrite map_app, Hr. reflexivity.
Qed.

Lemma ops_bridge : forall E P anon t priv t0 u0 r,
  issue_uat (IInitial priv) t t0 (mkpol E P) = IOk u0 r ->
  forall ops s wins hist,
  Inv r t0 (spec_login_window E t priv) P hist s -> rel s wins ->
  ops_agree (mkpol E P) anon s ops = true ->
  p_ops P (rexp_of r) (bound_of anon r) (ro_class t) wins ops = true.
Proof.
  intros E P anon t priv t0 u0 r Hi.
  destruct (login_token _ _ _ _ _ _ _ Hi) as (Hser & _ & (x0 & Hx0 & _) & Hr0 & _).
  induction ops as [|[o b] rest IH]; intros s wins hist Hinv Hrel Hag; [reflexivity|].
  cbn [ops_agree] in Hag.
  destruct (step (mkpol E P) anon s o) as [s1 m] eqn:Hst.
  apply andb_prop in Hag as [Hm Hag]. apply hobs_eqb_eq in Hm. subst b.
  pose proof (step_inv E P anon _ _ _ _ _ o Hinv) as Hinv1. rewrite Hst in Hinv1. cbn [fst] in Hinv1.
  destruct Hinv as (Hdb & Hok & _).
  destruct o as [i ct | i rw ct | ty rw sx ct]; cbn [step] in Hst.
  - (* present a token *)
    injection Hst as <- <-.
    destruct (tok s i) as [k|] eqn:Hk; [|cbn [p_ops]; eapply IH; eassumption].
    destruct (use (s_db s) anon (tk_u k) ct) as [sc| |] eqn:Hu;
      [|cbn [p_ops]; eapply IH; eassumption|cbn [p_ops]; eapply IH; eassumption].
    cbn [p_ops]. apply use_scope in Hu as (Hex & Hsv & Hsc).
    apply andb_true_intro. split; [apply andb_true_intro; split|eapply IH; eassumption].
    + destruct sc; [reflexivity| |exfalso; symmetry in Hsc; exact (uat_scope_not_sync _ _ Hsc)].
      symmetry in Hsc. apply uat_scope_rw in Hsc as (e & Hp & Hlt).
      rewrite (rel_nth _ _ _ _ Hrel Hk).
      rewrite Forall_forall in Hok. destruct (Hok k (tok_in _ _ _ Hk) e Hp) as (W & -> & ->).
      apply N.ltb_lt. exact Hlt.
    + unfold bound_of. destruct r as [[[sc' sx'] ty']|]; [|reflexivity].
      destruct anon; [reflexivity|]. destruct sx' as [e'|]; [|reflexivity].
      rewrite Hdb in Hsv. unfold session_valid in Hsv. unfold token_expired in Hex.
      destruct (u_expiry (tk_u k)) as [e|]; [|discriminate].
      apply N.eqb_eq in Hsv. subst e'. rewrite Hex. reflexivity.
  - (* re-authenticate *)
    destruct (reauth (mkpol E P) anon s i rw ct) as [u| | | |e|] eqn:Hr; injection Hst as <- <-;
      try (cbn [p_ops]; eapply IH; eassumption).
    cbn [p_ops]. cbn [p_priv] in *.
    destruct r as [[[sc' sx'] ty']|]; [|exfalso; eapply reauth_needs_capable; [exact Hr | rewrite Hdb; exact I]].
    assert (Hsx : sx' = u_expiry u0 /\ sc' = initial_scope t priv).
    { destruct t; inversion Hr0; split; reflexivity. }
    destruct Hsx as [-> ->].
    destruct (reauth_expiry _ _ _ _ _ _ _ _ _ _ _ Hdb (ser_fix_expiry _ Hser) Hr) as [Hsc He].
    apply andb_true_intro. split; [apply andb_true_intro; split|].
    + destruct t, priv; cbn in Hsc |- *; try discriminate; reflexivity.
    + cbn [rexp_of]. rewrite He. apply optN_eqb_refl.
    + eapply IH; [exact Hinv1 | | exact Hag].
      apply (rel_add s wins (mktk u ct (spec_reauth_window P rw))). exact Hrel.
  - (* raw re-issue *)
    destruct (issue_uat (IReauth rw sx) ty ct (mkpol E P)) as [u r'|e] eqn:Hraw; injection Hst as <- <-;
      [|cbn [p_ops]; eapply IH; eassumption].
    cbn [p_ops]. cbn [p_priv] in *.
    eapply IH; [exact Hinv1 | | exact Hag].
    apply (rel_add s wins (mktk (ser u) ct (spec_reauth_window P rw))). exact Hrel.
Qed.

Lemma cert_uat_use_ro : forall ct, cert_uat_use ct = OScope AReadOnly.
Proof.
  intro ct. unfold cert_uat_use, use, cert_uat, token_expired, session_valid, uat_scope.
  cbn [u_expiry u_issued u_purpose].
  assert (H : ct <? ct + GRACE = true).
  { apply N.ltb_lt. assert (0 < GRACE) by reflexivity. lia. }
  rewrite H. reflexivity.
Qed.

Lemma agree_pcheck : forall c : case, agree c = true -> pcheck c = true.
Proof.
  intros [E P anon t priv t0 lg ops | rw e uses | uses | uses] H; cbn [agree pcheck] in *.
  - destruct (login (mkpol E P) t priv t0) as [m [s0|]] eqn:Hl.
    + apply andb_prop in H as [Hm Hag]. apply ires_eqb_eq in Hm. subst m.
      destruct (login_inv _ _ _ _ _ _ _ Hl) as (u & r & -> & Hi & -> & Hinv).
      destruct (login_token _ _ _ _ _ _ _ Hi) as (_ & _ & (x0 & Hx0 & _) & Hr0 & _).
      pose proof (ops_bridge E P anon t priv t0 u r Hi ops _ [(t0, spec_login_window E t priv)] [] Hinv eq_refl Hag) as Hb.
      destruct r as [[[sc sx] ty]|]; [|exact Hb].
      assert (sx = u_expiry u) as -> by (destruct t; inversion Hr0; reflexivity).
      rewrite optN_eqb_refl, Hx0. cbn [andb]. rewrite Hx0 in Hb. exact Hb.
    + apply andb_prop in H as [Hm Hops]. apply ires_eqb_eq in Hm. subst lg.
      unfold login in Hl. destruct (issue_uat (IInitial priv) t t0 (mkpol E P)); [discriminate|].
      injection Hl as <-. exact Hops.
  - rewrite forallb_forall in *. intros [ct o] Hin. specialize (H _ Hin). cbn [fst snd] in *.
    apply outcome_eqb_eq in H. subst o. unfold api_use.
    destruct e as [x|].
    + destruct (x <=? ct) eqn:Hx; [reflexivity|]. destruct rw; [|reflexivity].
      cbn [andb]. apply N.ltb_lt. apply N.leb_gt in Hx. exact Hx.
    + destruct rw; reflexivity.
  - rewrite forallb_forall in *. intros [ct o] Hin. specialize (H _ Hin). cbn [fst snd] in *.
    apply outcome_eqb_eq in H. subst o. reflexivity.
  - rewrite forallb_forall in *. intros [ct [o1 o2]] Hin. specialize (H _ Hin). cbn [fst snd] in *.
    apply andb_prop in H as [H1 H2]. apply outcome_eqb_eq in H1, H2. subst o1 o2.
    rewrite cert_uat_use_ro. reflexivity.
Qed.

(* ------------------------------------------------------------------ run = outputs of the steps *)
Lemma run_decompose : forall pol anon pre s o post,
  run pol anon s (pre ++ o :: post) =
  run pol anon s pre
  ++ snd (step pol anon (state_after pol anon s pre) o)
  :: run pol anon (state_after pol anon s (pre ++ [o])) post.
Proof.
  intros pol anon pre. induction pre as [|p r IH]; intros s o post; cbn [app run state_after].
  - destruct (step pol anon s o) as [s1 b]. reflexivity.
  - destruct (step pol anon s p) as [s1 b] eqn:Hs. cbn [fst]. rewrite IH. reflexivity.
Qed.

(* ------------------------------------------------------------------ function level *)
Lemma issue_window : forall i t a E P u r ct,
  issue_uat i t a (mkpol E P) = IOk u r -> uat_scope (ser u) ct = AReadWrite ->
  exists W,
    match i with
    | IInitial priv => spec_login_window E t priv = Some W /\ W <= LIMITED
    | IReauth rw _ => rw = true /\ W = P
    end /\ ct < trunc a + W * G.
Proof.
  intros i t a E P u r ct Hi Hs. apply uat_scope_rw in Hs as (e & Hp & Hlt).
  destruct i as [priv | rw sx].
  - destruct (login_token _ _ _ _ _ _ _ Hi) as (Hser & _ & _ & _ & Hsp).
    rewrite Hser in Hp. unfold login_purpose_spec in Hsp. rewrite Hp in Hsp. destruct Hsp as [Hw ->].
    exists (N.min E LIMITED). split; [split; [exact Hw | apply N.le_min_r] | exact Hlt].
  - apply reissue_token in Hi as (_ & _ & _ & _ & Hpu). rewrite Hpu in Hp.
    destruct rw; [|discriminate]. injection Hp as <-. exists P. split; [split; reflexivity | exact Hlt].
Qed.

Lemma ro_types_issue : forall t priv ct E P,
  ro_class t = true ->
  (exists u r, issue_uat (IInitial priv) t ct (mkpol E P) = IOk u r /\ u_purpose (ser u) = PReadOnly) /\
  (forall rw sx, issue_uat (IReauth rw sx) t ct (mkpol E P) = IErr EAU0006).
Proof.
  intros t priv ct E P Hc. destruct t; try discriminate Hc; (split; [|reflexivity]);
    cbn; eexists; eexists; (split; [reflexivity|reflexivity]).
Qed.

Lemma no_window_readonly : forall u ct,
  (forall e, u_purpose u <> PReadWrite (Some e)) -> uat_scope u ct = AReadOnly.
Proof.
  intros u ct H. unfold uat_scope. destruct (u_purpose u) as [|[e|]]; try reflexivity.
  exfalso. exact (H e eq_refl).
Qed.
