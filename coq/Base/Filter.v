(* KV.Base.Filter — resolved filter trees and the reference boolean semantics.
   Transcribes `enum FilterResolved` (server/lib/src/filter.rs:234) and
   `Entry::entry_match_no_index_inner` (server/lib/src/entry.rs:3040).
   Leaf terms are (kind, attribute id, value id); what a leaf means for a given entry is a
   parameter `sem`, so every theorem holds for ANY value syntax and matching rule. *)
From Coq Require Import List NArith Bool.
Import ListNotations.

Inductive leafkind := KEq | KCnt | KStw | KEnw | KPres | KLt.
Definition slope := option N.            (* Option<NonZeroU8>: Some = "indexed" *)

Inductive filt :=
| FLeaf (k : leafkind) (a v : N) (s : slope)   (* Eq/Cnt/Stw/Enw/Pres/LessThan; Pres ignores v *)
| FOr (l : list filt) (s : slope)
| FAnd (l : list filt) (s : slope)
| FInvalid (a : N)
| FInclusion (l : list filt) (s : slope)
| FAndNot (f : filt) (s : slope).

Definition leafsem := leafkind -> N -> N -> bool.

(* entry_match_no_index_inner, for one entry whose leaf truth is `sem` *)
Fixpoint ematch (sem : leafsem) (f : filt) : bool :=
  match f with
  | FLeaf k a v _ => sem k a v
  | FOr l _ => existsb (ematch sem) l
  | FAnd l _ => forallb (ematch sem) l
  | FInvalid _ => false
  | FInclusion _ _ => false
  | FAndNot g _ => negb (ematch sem g)
  end.

(* Inclusion is internal-only (refint existence queries); user-visible filters never contain it *)
Fixpoint user_filter (f : filt) : bool :=
  match f with
  | FLeaf _ _ _ _ => true
  | FOr l _ | FAnd l _ => forallb user_filter l
  | FInvalid _ => true
  | FInclusion _ _ => false
  | FAndNot g _ => user_filter g
  end.

Definition is_andnot (f : filt) : bool := match f with FAndNot _ _ => true | _ => false end.

Definition leafkind_eqb (a b : leafkind) : bool :=
  match a, b with
  | KEq, KEq | KCnt, KCnt | KStw, KStw | KEnw, KEnw | KPres, KPres | KLt, KLt => true
  | _, _ => false
  end.

(* a strong induction principle for the nested type *)
Section FiltInd.
  Variable P : filt -> Prop.
  Hypothesis Hleaf : forall k a v s, P (FLeaf k a v s).
  Hypothesis Hor : forall l s, Forall P l -> P (FOr l s).
  Hypothesis Hand : forall l s, Forall P l -> P (FAnd l s).
  Hypothesis Hinv : forall a, P (FInvalid a).
  Hypothesis Hinc : forall l s, Forall P l -> P (FInclusion l s).
  Hypothesis Hnot : forall g s, P g -> P (FAndNot g s).
  Fixpoint filt_ind' (f : filt) : P f :=
    let fix go (l : list filt) : Forall P l :=
      match l with
      | [] => Forall_nil P
      | x :: r => Forall_cons x (filt_ind' x) (go r)
      end in
    match f with
    | FLeaf k a v s => Hleaf k a v s
    | FOr l s => Hor l s (go l)
    | FAnd l s => Hand l s (go l)
    | FInvalid a => Hinv a
    | FInclusion l s => Hinc l s (go l)
    | FAndNot g s => Hnot g s (filt_ind' g)
    end.
End FiltInd.
