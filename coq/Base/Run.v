(* KV.Base.Run — the generic runner used by every generated cases_K.v.
   No proofs here: executable definitions only. *)
From Coq Require Import List NArith Bool.
Import ListNotations.

(* indices (0-based, as N) of the elements on which [f] is false *)
Fixpoint failing_from {A} (f : A -> bool) (i : N) (l : list A) : list N :=
  match l with
  | [] => []
  | x :: r => if f x then failing_from f (N.succ i) r else i :: failing_from f (N.succ i) r
  end.
Definition failing {A} (f : A -> bool) (l : list A) : list N := failing_from f 0%N l.

(* [agree c]  : the model's output on c's input equals the implementation's recorded output
   [pcheck c] : the property's executable predicate holds of the implementation's output
   [known c]  : c lies in a recorded known-finding class (property failures there are
                reported as KNOWN-FINDING, not as violations)
   Result: (disagreements, property failures outside known classes, property failures inside) *)
Definition run_report {A} (agree pcheck known : A -> bool) (l : list A)
  : list N * list N * list N :=
  (failing agree l,
   failing (fun c => pcheck c || known c) l,
   failing (fun c => pcheck c || negb (known c)) l).
