(* KV.C42.Model — SCIM filter text: `impl Display for ScimFilter / ScimComplexFilter`
   (proto/src/scim_v1/mod.rs:200,241) and the `scimfilter` peg grammar (mod.rs:265), transcribed
   rule by rule at the byte level (`list N`), including rust-peg 0.8.6's `precedence!` climbing
   loop, ordered choice, the depth limiter and serde_json's scalar reader/writer.
   Executable definitions only.

   Representation choices (all tied by the harness):
   * text = list of bytes of the UTF-8 &str.  The grammar only inspects ASCII bytes, and a
     `[_]` that swallows one char = the byte model swallowing its bytes one by one
     (continuation bytes are >= 0x80, never a quote / backslash / operator).
   * `Attribute` / `SubAttribute` = the bytes of `as_str()` of a value produced by `From<&str>`
     (known name => the lower-case constant, otherwise Custom(text as written)).
   * `serde_json::Value` restricted to scalars: null, bool, integer in i64 ∪ u64, string.  Where the real
     reader would produce a float / object (or the climbing loop ran out of fuel, which never happens
     with fuel = input length) the model answers `Undef` — it never guesses. *)
From Coq Require Import List NArith ZArith Bool String Ascii.
Import ListNotations.
Open Scope N_scope.

Definition str := list N.
Definition s2l (s : string) : str := map N_of_ascii (list_ascii_of_string s).

Fixpoint str_eqb (a b : str) : bool :=
  match a, b with
  | [], [] => true
  | x :: a', y :: b' => (x =? y) && str_eqb a' b'
  | _, _ => false
  end.

(* ------------------------------------------------------------------ character classes *)
Definition is_upper (c : N) := (65 <=? c) && (c <=? 90).
Definition is_lower (c : N) := (97 <=? c) && (c <=? 122).
Definition is_alpha (c : N) := is_upper c || is_lower c.
Definition is_digit (c : N) := (48 <=? c) && (c <=? 57).
(* attrstring: ['a'..='z' | 'A'..='Z']['a'..='z' | 'A'..='Z' | '0'..='9' | '-' | '_' ]* *)
Definition is_namech (c : N) := is_alpha c || is_digit c || (c =? 45) || (c =? 95).
(* separator: ['\n' | ' ' | '\t'] *)
Definition is_sep (c : N) := (c =? 10) || (c =? 32) || (c =? 9).
(* operator: separator | '(' | ')' | '[' | ']' *)
Definition is_oper (c : N) := is_sep c || (c =? 40) || (c =? 41) || (c =? 91) || (c =? 93).
(* JSON whitespace *)
Definition is_jws (c : N) := (c =? 32) || (c =? 10) || (c =? 9) || (c =? 13).

Fixpoint span (p : N -> bool) (s : str) : str * str :=
  match s with
  | [] => ([], [])
  | c :: t => if p c then let (a, b) := span p t in (c :: a, b) else ([], s)
  end.

(* a string literal "..." of the grammar *)
Fixpoint lit (l s : str) : option str :=
  match l with
  | [] => Some s
  | x :: l' => match s with y :: s' => if x =? y then lit l' s' else None | [] => None end
  end.

(* separator()+ *)
Definition seps1 (s : str) : option str :=
  match s with
  | c :: t => if is_sep c then Some (snd (span is_sep t)) else None
  | [] => None
  end.

(* one literal byte *)
Definition eat (c : N) (s : str) : option str :=
  match s with x :: t => if x =? c then Some t else None | [] => None end.

Definition k_or := Eval vm_compute in s2l "or".
Definition k_and := Eval vm_compute in s2l "and".
Definition k_not := Eval vm_compute in s2l "not".

(* ------------------------------------------------------------------ Attribute / SubAttribute *)
Definition lower (c : N) : N := if is_upper c then c + 32 else c.
Fixpoint mem (x : str) (l : list str) : bool :=
  match l with [] => false | y :: t => str_eqb x y || mem x t end.
(* Attribute::inner_from_str (proto/src/attribute.rs:517): match value.to_lowercase() against the
   constants, fall back to Custom(value) with the ORIGINAL spelling; observed through as_str() *)
Definition norm (kn : list str) (s : str) : str :=
  let l := map lower s in if mem l kn then l else s.

(* arms of Attribute::inner_from_str compiled into a debug (non-test) build, in source order *)
Definition attr_known : list (list N) := [
  [97;99;99;111;117;110;116]  (* account *);
  [97;99;99;111;117;110;116;95;101;120;112;105;114;101]  (* account_expire *);
  [97;99;99;111;117;110;116;95;118;97;108;105;100;95;102;114;111;109]  (* account_valid_from *);
  [97;99;99;111;117;110;116;95;115;111;102;116;108;111;99;107;95;101;120;112;105;114;101]  (* account_softlock_expire *);
  [97;99;112;95;99;114;101;97;116;101;95;97;116;116;114]  (* acp_create_attr *);
  [97;99;112;95;99;114;101;97;116;101;95;99;108;97;115;115]  (* acp_create_class *);
  [97;99;112;95;101;110;97;98;108;101]  (* acp_enable *);
  [97;99;112;95;109;111;100;105;102;121;95;99;108;97;115;115]  (* acp_modify_class *);
  [97;99;112;95;109;111;100;105;102;121;95;112;114;101;115;101;110;116;95;99;108;97;115;115]  (* acp_modify_present_class *);
  [97;99;112;95;109;111;100;105;102;121;95;114;101;109;111;118;101;95;99;108;97;115;115]  (* acp_modify_remove_class *);
  [97;99;112;95;109;111;100;105;102;121;95;112;114;101;115;101;110;116;97;116;116;114]  (* acp_modify_presentattr *);
  [97;99;112;95;109;111;100;105;102;121;95;114;101;109;111;118;101;100;97;116;116;114]  (* acp_modify_removedattr *);
  [97;99;112;95;114;101;99;101;105;118;101;114]  (* acp_receiver *);
  [97;99;112;95;114;101;99;101;105;118;101;114;95;103;114;111;117;112]  (* acp_receiver_group *);
  [97;99;112;95;115;101;97;114;99;104;95;97;116;116;114]  (* acp_search_attr *);
  [97;99;112;95;116;97;114;103;101;116;115;99;111;112;101]  (* acp_targetscope *);
  [97;108;108;111;119;95;112;114;105;109;97;114;121;95;99;114;101;100;95;102;97;108;108;98;97;99;107]  (* allow_primary_cred_fallback *);
  [97;112;105;95;116;111;107;101;110;95;115;101;115;115;105;111;110]  (* api_token_session *);
  [97;112;112;108;105;99;97;116;105;111;110;95;112;97;115;115;119;111;114;100]  (* application_password *);
  [97;112;112;108;105;99;97;116;105;111;110;95;117;114;108]  (* application_url *);
  [97;116;116;101;115;116;101;100;95;112;97;115;115;107;101;121;115]  (* attested_passkeys *);
  [97;116;116;114]  (* attr *);
  [97;116;116;114;105;98;117;116;101;110;97;109;101]  (* attributename *);
  [97;116;116;114;105;98;117;116;101;116;121;112;101]  (* attributetype *);
  [97;117;116;104;115;101;115;115;105;111;110;95;101;120;112;105;114;121]  (* authsession_expiry *);
  [97;117;116;104;95;112;97;115;115;119;111;114;100;95;109;105;110;105;109;117;109;95;108;101;110;103;116;104]  (* auth_password_minimum_length *);
  [98;97;100;108;105;115;116;95;112;97;115;115;119;111;114;100]  (* badlist_password *);
  [99;101;114;116;105;102;105;99;97;116;101]  (* certificate *);
  [99;97;115;99;97;100;101;95;100;101;108;101;116;101;100]  (* cascade_deleted *);
  [99;108;97;105;109]  (* claim *);
  [99;108;97;115;115]  (* class *);
  [99;108;97;115;115;110;97;109;101]  (* classname *);
  [99;110]  (* cn *);
  [99;111;111;107;105;101;95;112;114;105;118;97;116;101;95;107;101;121]  (* cookie_private_key *);
  [99;114;101;97;116;101;100;95;97;116;95;99;105;100]  (* created_at_cid *);
  [99;114;101;100;101;110;116;105;97;108;95;117;112;100;97;116;101;95;105;110;116;101;110;116;95;116;111;107;101;110]  (* credential_update_intent_token *);
  [99;114;101;100;101;110;116;105;97;108;95;116;121;112;101;95;109;105;110;105;109;117;109]  (* credential_type_minimum *);
  [100;101;110;105;101;100;95;110;97;109;101]  (* denied_name *);
  [100;101;108;101;116;101;95;97;102;116;101;114]  (* delete_after *);
  [100;101;115;99;114;105;112;116;105;111;110]  (* description *);
  [100;105;114;101;99;116;109;101;109;98;101;114;111;102]  (* directmemberof *);
  [100;105;115;112;108;97;121;110;97;109;101]  (* displayname *);
  [100;110]  (* dn *);
  [100;111;109;97;105;110]  (* domain *);
  [100;111;109;97;105;110;95;97;108;108;111;119;95;101;97;115;116;101;114;95;101;103;103;115]  (* domain_allow_easter_eggs *);
  [100;111;109;97;105;110;95;97;108;108;111;119;95;97;99;99;111;117;110;116;95;114;101;99;111;118;101;114;121]  (* domain_allow_account_recovery *);
  [100;111;109;97;105;110;95;100;105;115;112;108;97;121;95;110;97;109;101]  (* domain_display_name *);
  [100;111;109;97;105;110;95;100;101;118;101;108;111;112;109;101;110;116;95;116;97;105;110;116]  (* domain_development_taint *);
  [100;111;109;97;105;110;95;108;100;97;112;95;98;97;115;101;100;110]  (* domain_ldap_basedn *);
  [100;111;109;97;105;110;95;110;97;109;101]  (* domain_name *);
  [100;111;109;97;105;110;95;115;115;105;100]  (* domain_ssid *);
  [100;111;109;97;105;110;95;116;111;107;101;110;95;107;101;121]  (* domain_token_key *);
  [100;111;109;97;105;110;95;117;117;105;100]  (* domain_uuid *);
  [100;121;110;103;114;111;117;112]  (* dyngroup *);
  [100;121;110;103;114;111;117;112;95;102;105;108;116;101;114]  (* dyngroup_filter *);
  [100;121;110;109;101;109;98;101;114]  (* dynmember *);
  [101;110;97;98;108;101;100]  (* enabled *);
  [101;109;97;105;108]  (* email *);
  [101;109;97;105;108;97;108;116;101;114;110;97;116;105;118;101]  (* emailalternative *);
  [101;109;97;105;108;112;114;105;109;97;114;121]  (* emailprimary *);
  [101;110;116;114;121;100;110]  (* entrydn *);
  [101;110;116;114;121;95;109;97;110;97;103;101;100;95;98;121]  (* entry_managed_by *);
  [101;110;116;114;121;117;117;105;100]  (* entryuuid *);
  [101;115;50;53;54;95;112;114;105;118;97;116;101;95;107;101;121;95;100;101;114]  (* es256_private_key_der *);
  [101;120;99;108;117;100;101;115]  (* excludes *);
  [102;101;114;110;101;116;95;112;114;105;118;97;116;101;95;107;101;121;95;115;116;114]  (* fernet_private_key_str *);
  [103;101;99;111;115]  (* gecos *);
  [103;105;100;110;117;109;98;101;114]  (* gidnumber *);
  [103;114;97;110;116;95;117;105;95;104;105;110;116]  (* grant_ui_hint *);
  [103;114;111;117;112]  (* group *);
  [104;109;97;99;95;110;97;109;101;95;104;105;115;116;111;114;121]  (* hmac_name_history *);
  [104;111;109;101;100;105;114;101;99;116;111;114;121]  (* homedirectory *);
  [105;100;95;118;101;114;105;102;105;99;97;116;105;111;110;95;101;99;107;101;121]  (* id_verification_eckey *);
  [105;109;97;103;101]  (* image *);
  [105;110;100;101;120]  (* index *);
  [105;110;100;101;120;101;100]  (* indexed *);
  [105;110;95;109;101;109;111;114;105;97;109]  (* in_memoriam *);
  [105;112;97;110;116;104;97;115;104]  (* ipanthash *);
  [105;112;97;115;115;104;112;117;98;107;101;121]  (* ipasshpubkey *);
  [106;119;115;95;101;115;50;53;54;95;112;114;105;118;97;116;101;95;107;101;121]  (* jws_es256_private_key *);
  [107;101;121;95;97;99;116;105;111;110;95;114;111;116;97;116;101]  (* key_action_rotate *);
  [107;101;121;95;97;99;116;105;111;110;95;114;101;118;111;107;101]  (* key_action_revoke *);
  [107;101;121;95;97;99;116;105;111;110;95;105;109;112;111;114;116;95;106;119;115;95;101;115;50;53;54]  (* key_action_import_jws_es256 *);
  [107;101;121;95;97;99;116;105;111;110;95;105;109;112;111;114;116;95;106;119;115;95;114;115;50;53;54]  (* key_action_import_jws_rs256 *);
  [107;101;121;95;105;110;116;101;114;110;97;108;95;100;97;116;97]  (* key_internal_data *);
  [107;101;121;95;112;114;111;118;105;100;101;114]  (* key_provider *);
  [108;97;115;116;95;109;111;100;105;102;105;101;100;95;99;105;100]  (* last_modified_cid *);
  [108;100;97;112;95;97;108;108;111;119;95;117;110;105;120;95;112;119;95;98;105;110;100]  (* ldap_allow_unix_pw_bind *);
  [101;109;97;105;108;97;100;100;114;101;115;115]  (* emailaddress *);
  [107;101;121;115]  (* keys *);
  [108;100;97;112;95;109;97;120;95;113;117;101;114;121;97;98;108;101;95;97;116;116;114;115]  (* ldap_max_queryable_attrs *);
  [115;115;104;95;112;117;98;108;105;99;107;101;121]  (* ssh_publickey *);
  [108;101;103;97;108;110;97;109;101]  (* legalname *);
  [108;105;110;107;101;100;95;103;114;111;117;112]  (* linked_group *);
  [108;111;103;105;110;115;104;101;108;108]  (* loginshell *);
  [108;105;109;105;116;95;115;101;97;114;99;104;95;109;97;120;95;114;101;115;117;108;116;115]  (* limit_search_max_results *);
  [108;105;109;105;116;95;115;101;97;114;99;104;95;109;97;120;95;102;105;108;116;101;114;95;116;101;115;116]  (* limit_search_max_filter_test *);
  [109;97;105;108]  (* mail *);
  [109;97;105;108;95;100;101;115;116;105;110;97;116;105;111;110]  (* mail_destination *);
  [109;97;121]  (* may *);
  [109;101;109;98;101;114]  (* member *);
  [109;101;109;98;101;114;95;99;114;101;97;116;101;95;111;110;99;101]  (* member_create_once *);
  [109;101;109;98;101;114;111;102]  (* memberof *);
  [109;101;115;115;97;103;101;95;116;101;109;112;108;97;116;101]  (* message_template *);
  [109;117;108;116;105;118;97;108;117;101]  (* multivalue *);
  [109;117;115;116]  (* must *);
  [110;97;109;101]  (* name *);
  [110;97;109;101;95;104;105;115;116;111;114;121]  (* name_history *);
  [110;111;45;105;110;100;101;120]  (* no-index *);
  [110;115;117;110;105;113;117;101;105;100]  (* nsuniqueid *);
  [110;115;97;99;99;111;117;110;116;108;111;99;107]  (* nsaccountlock *);
  [111;97;117;116;104;50;95;97;108;108;111;119;95;108;111;99;97;108;104;111;115;116;95;114;101;100;105;114;101;99;116]  (* oauth2_allow_localhost_redirect *);
  [111;97;117;116;104;50;95;97;117;116;104;111;114;105;115;97;116;105;111;110;95;101;110;100;112;111;105;110;116]  (* oauth2_authorisation_endpoint *);
  [111;97;117;116;104;50;95;99;108;105;101;110;116;95;105;100]  (* oauth2_client_id *);
  [111;97;117;116;104;50;95;99;108;105;101;110;116;95;115;101;99;114;101;116]  (* oauth2_client_secret *);
  [111;97;117;116;104;50;95;99;111;110;115;101;110;116;95;115;99;111;112;101;95;109;97;112]  (* oauth2_consent_scope_map *);
  [111;97;117;116;104;50;95;100;101;118;105;99;101;95;102;108;111;119;95;101;110;97;98;108;101]  (* oauth2_device_flow_enable *);
  [111;97;117;116;104;50;95;106;119;116;95;108;101;103;97;99;121;95;99;114;121;112;116;111;95;101;110;97;98;108;101]  (* oauth2_jwt_legacy_crypto_enable *);
  [111;97;117;116;104;50;95;112;114;101;102;101;114;95;115;104;111;114;116;95;117;115;101;114;110;97;109;101]  (* oauth2_prefer_short_username *);
  [111;97;117;116;104;50;95;114;101;102;114;101;115;104;95;116;111;107;101;110;95;101;120;112;105;114;121]  (* oauth2_refresh_token_expiry *);
  [111;97;117;116;104;50;95;114;101;113;117;101;115;116;95;115;99;111;112;101;115]  (* oauth2_request_scopes *);
  [111;97;117;116;104;50;95;114;115;95;98;97;115;105;99;95;115;101;99;114;101;116]  (* oauth2_rs_basic_secret *);
  [111;97;117;116;104;50;95;114;115;95;99;108;97;105;109;95;109;97;112]  (* oauth2_rs_claim_map *);
  [111;97;117;116;104;50;95;114;115;95;105;109;112;108;105;99;105;116;95;115;99;111;112;101;115]  (* oauth2_rs_implicit_scopes *);
  [111;97;117;116;104;50;95;114;115;95;110;97;109;101]  (* oauth2_rs_name *);
  [111;97;117;116;104;50;95;114;115;95;111;114;105;103;105;110]  (* oauth2_rs_origin *);
  [111;97;117;116;104;50;95;114;115;95;111;114;105;103;105;110;95;108;97;110;100;105;110;103]  (* oauth2_rs_origin_landing *);
  [111;97;117;116;104;50;95;114;115;95;115;99;111;112;101;95;109;97;112]  (* oauth2_rs_scope_map *);
  [111;97;117;116;104;50;95;114;115;95;115;117;112;95;115;99;111;112;101;95;109;97;112]  (* oauth2_rs_sup_scope_map *);
  [111;97;117;116;104;50;95;114;115;95;116;111;107;101;110;95;107;101;121]  (* oauth2_rs_token_key *);
  [111;97;117;116;104;50;95;115;101;115;115;105;111;110]  (* oauth2_session *);
  [111;97;117;116;104;50;95;115;116;114;105;99;116;95;114;101;100;105;114;101;99;116;95;117;114;105]  (* oauth2_strict_redirect_uri *);
  [111;97;117;116;104;50;95;116;111;107;101;110;95;101;110;100;112;111;105;110;116]  (* oauth2_token_endpoint *);
  [111;97;117;116;104;50;95;116;111;107;101;110;95;105;110;116;114;111;115;112;101;99;116;95;101;110;100;112;111;105;110;116]  (* oauth2_token_introspect_endpoint *);
  [111;97;117;116;104;50;95;97;99;99;111;117;110;116;95;99;114;101;100;101;110;116;105;97;108;95;117;117;105;100]  (* oauth2_account_credential_uuid *);
  [111;97;117;116;104;50;95;97;99;99;111;117;110;116;95;112;114;111;118;105;100;101;114]  (* oauth2_account_provider *);
  [111;97;117;116;104;50;95;97;99;99;111;117;110;116;95;117;110;105;113;117;101;95;117;115;101;114;95;105;100]  (* oauth2_account_unique_user_id *);
  [111;97;117;116;104;50;95;97;99;99;111;117;110;116;95;117;110;105;113;117;101;95;117;115;101;114;95;115;117;98]  (* oauth2_account_unique_user_sub *);
  [111;97;117;116;104;50;95;99;111;110;115;101;110;116;95;112;114;111;109;112;116;95;101;110;97;98;108;101]  (* oauth2_consent_prompt_enable *);
  [111;98;106;101;99;116;99;108;97;115;115]  (* objectclass *);
  [111;116;104;101;114;45;110;111;45;105;110;100;101;120]  (* other-no-index *);
  [112;97;115;115;107;101;121;115]  (* passkeys *);
  [112;97;115;115;119;111;114;100;95;105;109;112;111;114;116]  (* password_import *);
  [112;97;116;99;104;95;108;101;118;101;108]  (* patch_level *);
  [112;104;97;110;116;111;109]  (* phantom *);
  [112;114;105;109;97;114;121;95;99;114;101;100;101;110;116;105;97;108]  (* primary_credential *);
  [112;114;105;118;97;116;101;95;99;111;111;107;105;101;95;107;101;121]  (* private_cookie_key *);
  [112;114;105;118;105;108;101;103;101;95;101;120;112;105;114;121]  (* privilege_expiry *);
  [112;119;100;95;99;104;97;110;103;101;100;95;116;105;109;101]  (* pwd_changed_time *);
  [114;97;100;105;117;115;95;115;101;99;114;101;116]  (* radius_secret *);
  [114;101;99;121;99;108;101;100;95;100;105;114;101;99;116;109;101;109;98;101;114;111;102]  (* recycled_directmemberof *);
  [114;101;102;101;114;115]  (* refers *);
  [114;101;112;108;105;99;97;116;101;100]  (* replicated *);
  [114;115;50;53;54;95;112;114;105;118;97;116;101;95;107;101;121;95;100;101;114]  (* rs256_private_key_der *);
  [115;50;53;54]  (* s256 *);
  [115;99;104;101;109;97;115]  (* schemas *);
  [115;101;110;100;95;97;102;116;101;114]  (* send_after *);
  [115;101;110;116;95;97;116]  (* sent_at *);
  [115;99;111;112;101]  (* scope *);
  [115;111;117;114;99;101;95;117;117;105;100]  (* source_uuid *);
  [115;112;110]  (* spn *);
  [115;115;104;112;117;98;108;105;99;107;101;121]  (* sshpublickey *);
  [115;117;100;111;104;111;115;116]  (* sudohost *);
  [115;117;112;112;108;101;109;101;110;116;115]  (* supplements *);
  [115;121;110;99;95;97;108;108;111;119;101;100]  (* sync_allowed *);
  [115;121;110;99;95;99;108;97;115;115]  (* sync_class *);
  [115;121;110;99;95;99;111;111;107;105;101]  (* sync_cookie *);
  [115;121;110;99;95;99;114;101;100;101;110;116;105;97;108;95;112;111;114;116;97;108]  (* sync_credential_portal *);
  [115;121;110;99;95;101;120;116;101;114;110;97;108;95;105;100]  (* sync_external_id *);
  [115;121;110;99;95;112;97;114;101;110;116;95;117;117;105;100]  (* sync_parent_uuid *);
  [115;121;110;99;95;116;111;107;101;110;95;115;101;115;115;105;111;110]  (* sync_token_session *);
  [115;121;110;99;95;121;105;101;108;100;95;97;117;116;104;111;114;105;116;121]  (* sync_yield_authority *);
  [115;121;110;116;97;120]  (* syntax *);
  [115;121;115;116;101;109;101;120;99;108;117;100;101;115]  (* systemexcludes *);
  [115;121;115;116;101;109;109;97;121]  (* systemmay *);
  [115;121;115;116;101;109;109;117;115;116]  (* systemmust *);
  [115;121;115;116;101;109;115;117;112;112;108;101;109;101;110;116;115]  (* systemsupplements *);
  [116;101;114;109]  (* term *);
  [116;111;116;112;95;105;109;112;111;114;116]  (* totp_import *);
  [117;105;100]  (* uid *);
  [117;105;100;110;117;109;98;101;114]  (* uidnumber *);
  [117;110;105;113;117;101]  (* unique *);
  [117;110;105;120;95;112;97;115;115;119;111;114;100]  (* unix_password *);
  [117;110;105;120;95;112;97;115;115;119;111;114;100;95;105;109;112;111;114;116]  (* unix_password_import *);
  [117;115;101;114;95;97;117;116;104;95;116;111;107;101;110;95;115;101;115;115;105;111;110]  (* user_auth_token_session *);
  [117;115;101;114;105;100]  (* userid *);
  [117;115;101;114;112;97;115;115;119;111;114;100]  (* userpassword *);
  [117;117;105;100]  (* uuid *);
  [118;101;114;115;105;111;110]  (* version *);
  [119;101;98;97;117;116;104;110;95;97;116;116;101;115;116;97;116;105;111;110;95;99;97;95;108;105;115;116]  (* webauthn_attestation_ca_list *);
  [110;111;110;45;101;120;105;115;116]  (* non-exist *);
  [116;101;115;116;97;116;116;114]  (* testattr *);
  [101;120;116;114;97]  (* extra *);
  [116;101;115;116;97;116;116;114;110;117;109;98;101;114]  (* testattrnumber *);
  [110;111;116;97;108;108;111;119;101;100]  (* notallowed *)
].
Definition sub_known : list str := Eval vm_compute in [s2l "primary"; s2l "type"; s2l "value"].
Definition attr_from := norm attr_known.
Definition sub_from := norm sub_known.

(* attrstring(): Some (matched text, rest) *)
Definition attrstring (s : str) : option (str * str) :=
  match s with
  | c :: t => if is_alpha c then let (a, r) := span is_namech t in Some (c :: a, r) else None
  | [] => None
  end.

(* ------------------------------------------------------------------ JSON scalars *)
Inductive jv := JNull | JBool (b : bool) | JNum (z : Z) | JStr (s : str).

(* serde_json::Number holds u64 / negative i64 (floats are outside the model) *)
Definition jv_ok (v : jv) : bool :=
  match v with
  | JNum z => ((- 9223372036854775808) <=? z)%Z && (z <? 18446744073709551616)%Z
  | _ => true
  end.

(* --- writer: `impl Display for Value` = compact serializer (itoa; format_escaped_str) *)
Fixpoint dig (fuel : nat) (n : N) (acc : str) : str :=
  match fuel with
  | O => acc
  | S k => if n <? 10 then (48 + n) :: acc else dig k (n / 10) ((48 + n mod 10) :: acc)
  end.
Definition print_N (n : N) : str := dig (S (N.to_nat (N.log2 n))) n [].

Definition hexd (n : N) : N := if n <? 10 then 48 + n else 87 + n.   (* lower-case hex *)
Definition esc_byte (c : N) : str :=
  if c =? 34 then [92; 34]
  else if c =? 92 then [92; 92]
  else if c =? 8 then [92; 98]
  else if c =? 12 then [92; 102]
  else if c =? 10 then [92; 110]
  else if c =? 13 then [92; 114]
  else if c =? 9 then [92; 116]
  else if c <? 32 then [92; 117; 48; 48; hexd (c / 16); hexd (c mod 16)]
  else [c].
Definition print_jstr (s : str) : str := 34 :: flat_map esc_byte s ++ [34].

Definition k_null := Eval vm_compute in s2l "null".
Definition k_true := Eval vm_compute in s2l "true".
Definition k_false := Eval vm_compute in s2l "false".
Definition print_jv (v : jv) : str :=
  match v with
  | JNull => k_null
  | JBool true => k_true
  | JBool false => k_false
  | JNum z => if (z <? 0)%Z then 45 :: print_N (Z.abs_N z) else print_N (Z.abs_N z)
  | JStr s => print_jstr s
  end.

(* --- reader: serde_json::from_str::<Value> on a token *)
Inductive jr := JOk (v : jv) | JErr | JUndef.

Definition hexval (c : N) : option N :=
  if is_digit c then Some (c - 48)
  else if (97 <=? c) && (c <=? 102) then Some (c - 87)
  else if (65 <=? c) && (c <=? 70) then Some (c - 55)
  else None.
Definition hex4 (a b c d : N) : option N :=
  match hexval a, hexval b, hexval c, hexval d with
  | Some w, Some x, Some y, Some z => Some (((w * 16 + x) * 16 + y) * 16 + z)
  | _, _, _, _ => None
  end.
(* push_wtf8_codepoint *)
Definition utf8 (n : N) : str :=
  if n <? 128 then [n]
  else if n <? 2048 then [192 + n / 64; 128 + n mod 64]
  else if n <? 65536 then [224 + n / 4096; 128 + (n / 64) mod 64; 128 + n mod 64]
  else [240 + n / 262144; 128 + (n / 4096) mod 64; 128 + (n / 64) mod 64; 128 + n mod 64].
Definition simple_esc (e : N) : option N :=
  if e =? 34 then Some 34 else if e =? 92 then Some 92 else if e =? 47 then Some 47
  else if e =? 98 then Some 8 else if e =? 102 then Some 12 else if e =? 110 then Some 10
  else if e =? 114 then Some 13 else if e =? 116 then Some 9 else None.
Definition pre (p : str) (r : option (str * str)) : option (str * str) :=
  match r with Some (a, b) => Some (p ++ a, b) | None => None end.
(* SliceRead::parse_str_bytes + parse_escape + parse_unicode_escape with validate = true,
   entered after the opening quote: Some (decoded bytes, text after the closing quote) *)
Fixpoint jstr (s : str) : option (str * str) :=
  match s with
  | [] => None
  | c :: t =>
    if c =? 34 then Some ([], t)
    else if c =? 92 then
      match t with
      | [] => None
      | e :: t2 =>
        if e =? 117 then
          match t2 with
          | h1 :: h2 :: h3 :: h4 :: t3 =>
            match hex4 h1 h2 h3 h4 with
            | None => None
            | Some n =>
              if (56320 <=? n) && (n <=? 57343) then None          (* lone trailing surrogate *)
              else if (55296 <=? n) && (n <=? 56319) then          (* leading surrogate *)
                match t3 with
                | 92 :: 117 :: g1 :: g2 :: g3 :: g4 :: t4 =>
                  match hex4 g1 g2 g3 g4 with
                  | None => None
                  | Some n2 =>
                    if (56320 <=? n2) && (n2 <=? 57343)
                    then pre (utf8 ((n - 55296) * 1024 + (n2 - 56320) + 65536)) (jstr t4)
                    else None
                  end
                | _ => None
                end
              else pre (utf8 n) (jstr t3)
            end
          | _ => None
          end
        else match simple_esc e with Some b => pre [b] (jstr t2) | None => None end
      end
    else if c <? 32 then None                                    (* control character *)
    else pre [c] (jstr t)
  end.

Definition finish (v : jv) (rest : str) : jr :=
  match snd (span is_jws rest) with [] => JOk v | _ => JErr end.   (* else TrailingCharacters *)
Definition ident (l : str) (v : jv) (s : str) : jr :=
  match lit l s with Some r => finish v r | None => JErr end.
(* an integer literal too large for i64/u64 (or -0) becomes an f64: outside the model, unless
   trailing characters make it an error anyway *)
Definition as_f64 (rest : str) : jr :=
  match finish JNull rest with JErr => JErr | _ => JUndef end.
Definition val10 (ds : str) : N := fold_left (fun a c => a * 10 + (c - 48)) ds 0.
(* parse_integer / parse_number; `s` starts at the first digit position *)
Definition jnumber (neg : bool) (s : str) : jr :=
  let (ds, rest) := span is_digit s in
  match ds with
  | [] => JErr
  | d0 :: dt =>
    if (d0 =? 48) && (match dt with [] => false | _ => true end) then JErr     (* leading zero *)
    else if (match rest with c :: _ => (c =? 46) || (c =? 101) || (c =? 69) | [] => false end)
    then JUndef                                                  (* fraction / exponent: f64 *)
    else
      let n := val10 ds in
      if neg then
        if (n =? 0) || (9223372036854775808 <? n) then as_f64 rest   (* -0.0 / below i64: f64 *)
        else finish (JNum (- Z.of_N n)) rest
      else if 18446744073709551616 <=? n then as_f64 rest            (* above u64: f64 *)
      else finish (JNum (Z.of_N n)) rest
  end.
Definition json_of (tok : str) : jr :=
  let s := snd (span is_jws tok) in
  match s with
  | [] => JErr
  | c :: t =>
    if c =? 110 then ident (tl k_null) JNull t
    else if c =? 116 then ident (tl k_true) (JBool true) t
    else if c =? 102 then ident (tl k_false) (JBool false) t
    else if c =? 45 then jnumber true t
    else if is_digit c then jnumber false s
    else if c =? 34 then match jstr t with Some (v, r) => finish (JStr v) r | None => JErr end
    else if (c =? 91) || (c =? 123) then JUndef                   (* array / object *)
    else JErr
  end.

(* ------------------------------------------------------------------ filters *)
Inductive cmp := OEq | ONe | OCo | OSw | OEw | OGt | OLt | OGe | OLe.
Inductive cfilt :=
| COr (a b : cfilt) | CAnd (a b : cfilt) | CNot (a : cfilt)
| CPres (s : str) | CCmp (o : cmp) (s : str) (v : jv).
Definition apath := (str * option str)%type.          (* AttrPath { a, s } *)
Inductive filt :=
| SOr (a b : filt) | SAnd (a b : filt) | SNot (a : filt)
| SPres (p : apath) | SCmp (o : cmp) (p : apath) (v : jv)
| SComplex (a : str) (c : cfilt).

(* ------------------------------------------------------------------ Display *)
Definition op_txt (o : cmp) : str :=
  match o with
  | OEq => [101; 113] | ONe => [110; 101] | OCo => [99; 111] | OSw => [115; 119] | OEw => [101; 119]
  | OGt => [103; 116] | OLt => [108; 116] | OGe => [103; 101] | OLe => [108; 101]
  end.
Definition k_pr : str := [112; 114].
Definition print_path (p : apath) : str :=
  match p with (a, Some s) => a ++ 46 :: s | (a, None) => a end.
(* "({name} pr)"  /  "({name} {op} {value})" *)
Definition print_pres (name : str) : str := 40 :: name ++ 32 :: k_pr ++ [41].
Definition print_cmp (name : str) (o : cmp) (v : jv) : str :=
  40 :: name ++ 32 :: op_txt o ++ 32 :: print_jv v ++ [41].
Definition t_or : str := Eval vm_compute in s2l " or ".
Definition t_and : str := Eval vm_compute in s2l " and ".
Definition t_not : str := Eval vm_compute in s2l "(not (".
Definition t_notend : str := Eval vm_compute in s2l "))".
Fixpoint print_c (c : cfilt) : str :=
  match c with
  | COr a b => 40 :: print_c a ++ t_or ++ print_c b ++ [41]
  | CAnd a b => 40 :: print_c a ++ t_and ++ print_c b ++ [41]
  | CNot a => t_not ++ print_c a ++ t_notend
  | CPres s => print_pres s
  | CCmp o s v => print_cmp s o v
  end.
Fixpoint print (f : filt) : str :=
  match f with
  | SOr a b => 40 :: print a ++ t_or ++ print b ++ [41]
  | SAnd a b => 40 :: print a ++ t_and ++ print b ++ [41]
  | SNot a => t_not ++ print a ++ t_notend
  | SPres p => print_pres (print_path p)
  | SCmp o p v => print_cmp (print_path p) o v
  | SComplex a c => a ++ 91 :: print_c c ++ [93]
  end.

(* ------------------------------------------------------------------ the peg grammar *)
Inductive res (A : Type) := Ok (a : A) (rest : str) | Fail | Undef.
Arguments Ok {A} a rest.
Arguments Fail {A}.
Arguments Undef {A}.

(* quotedvalue's `$( QUOTE ((BACKSLASH [_]) / (!QUOTE [_]))* QUOTE )`, entered after the opening quote:
   Some (matched body without the closing quote, rest after the closing quote) *)
Fixpoint qscan (s : str) : option (str * str) :=
  match s with
  | [] => None
  | c :: t =>
    if c =? 92 then
      match t with
      | [] => None                      (* lone backslash swallowed by the 2nd alternative, then EOF *)
      | e :: t2 => pre [c; e] (qscan t2)
      end
    else if c =? 34 then Some ([], t)
    else pre [c] (qscan t)
  end.

(* unquotedvalue: the longest run of non-operator chars (possibly empty), then serde_json::from_str *)
Definition unquoted (s : str) : res jv :=
  let (tok, rest) := span (fun c => negb (is_oper c)) s in
  match json_of tok with JOk v => Ok v rest | JErr => Fail | JUndef => Undef end.
(* value: quotedvalue / unquotedvalue *)
Definition pvalue (s : str) : res jv :=
  match eat 34 s with
  | Some t =>
    match qscan t with
    | Some (body, rest) =>
      match json_of (34 :: body ++ [34]) with
      | JOk v => Ok v rest
      | JErr => unquoted s
      | JUndef => Undef
      end
    | None => unquoted s
    end
  | None => unquoted s
  end.

(* attrpath: attrname dot_subattr? *)
Definition attrpath (s : str) : option (apath * str) :=
  match attrstring s with
  | None => None
  | Some (a, s1) =>
    match eat 46 s1 with
    | Some s2 =>
      match attrstring s2 with
      | Some (b, s3) => Some ((attr_from a, Some (sub_from b)), s3)
      | None => Some ((attr_from a, None), s1)
      end
    | None => Some ((attr_from a, None), s1)
    end
  end.
Definition subattr (s : str) : option (str * str) :=
  match attrstring s with Some (b, r) => Some (sub_from b, r) | None => None end.

(* the two-letter operator after `path separator()+` : Some None = "pr" *)
Definition op_of (a b : N) : option (option cmp) :=
  if (a =? 112) && (b =? 114) then Some None
  else if (a =? 101) && (b =? 113) then Some (Some OEq)
  else if (a =? 110) && (b =? 101) then Some (Some ONe)
  else if (a =? 99) && (b =? 111) then Some (Some OCo)
  else if (a =? 115) && (b =? 119) then Some (Some OSw)
  else if (a =? 101) && (b =? 119) then Some (Some OEw)
  else if (a =? 103) && (b =? 116) then Some (Some OGt)
  else if (a =? 108) && (b =? 116) then Some (Some OLt)
  else if (a =? 103) && (b =? 101) then Some (Some OGe)
  else if (a =? 108) && (b =? 101) then Some (Some OLe)
  else None.

(* attrexp / complex_attrexp: the ordered choice pres / eq / ne / co / sw / ew / gt / lt / ge / le.
   Every alternative is `path separator()+ "xx" [separator()+ value]` with the same deterministic
   prefix and ten pairwise different two-byte literals, so at most one alternative can get past its
   literal, and when its value fails all later alternatives fail at their literal: the choice is
   written once, factored on the literal. *)
Definition cmpexp {P T : Type} (path : str -> option (P * str))
    (mkP : P -> T) (mkC : cmp -> P -> jv -> T) (s : str) : res T :=
  match path s with
  | None => Fail
  | Some (p, s1) =>
    match seps1 s1 with
    | None => Fail
    | Some s2 =>
      match s2 with
      | c1 :: c2 :: s3 =>
        match op_of c1 c2 with
        | None => Fail
        | Some None => Ok (mkP p) s3
        | Some (Some o) =>
          match seps1 s3 with
          | None => Fail
          | Some s4 =>
            match pvalue s4 with
            | Ok v s5 => Ok (mkC o p v) s5
            | Fail => Fail
            | Undef => Undef
            end
          end
        end
      | _ => Fail
      end
    end
  end.

(* `e:inner "c"` : the closing byte after a nested rule, then the action *)
Definition close {A B : Type} (c : N) (mk : A -> B) (r : res A) : res B :=
  match r with
  | Ok e s => match eat c s with Some s' => Ok (mk e) s' | None => Fail end
  | Fail => Fail
  | Undef => Undef
  end.

(* rust-peg `precedence!` (peg-macros 0.8.6 translate.rs, Expr::Precedence): __infix_parse(min_prec)
   parses one prefix/atom and then loops over the level code; level 0 = `(@) sep+ "or" sep+ @`
   (right operand parsed at min_prec 1), level 1 = `(@) sep+ "and" sep+ @` (right operand at
   min_prec 2, where no level is enabled, i.e. a bare atom).  p0/p1 are __infix_parse at 0/1. *)
Section Climb.
  Context {T : Type}.
  Variables (mkOr mkAnd : T -> T -> T) (atom : str -> res T).
  Definition infix_tail (kw : str) (rhs : str -> res T) (s : str) : res T :=
    match seps1 s with
    | None => Fail
    | Some s1 =>
      match lit kw s1 with
      | None => Fail
      | Some s2 => match seps1 s2 with None => Fail | Some s3 => rhs s3 end
      end
    end.
  Fixpoint loop_and (fuel : nat) (acc : T) (s : str) : res T :=
    match fuel with
    | O => Undef
    | S k =>
      match infix_tail k_and atom s with
      | Ok r s' => loop_and k (mkAnd acc r) s'
      | Fail => Ok acc s
      | Undef => Undef
      end
    end.
  Definition p1 (s : str) : res T :=
    match atom s with Ok a s' => loop_and (S (List.length s')) a s' | Fail => Fail | Undef => Undef end.
  Fixpoint loop_or (fuel : nat) (acc : T) (s : str) : res T :=
    match fuel with
    | O => Undef
    | S k =>
      match infix_tail k_or p1 s with
      | Ok r s' => loop_or k (mkOr acc r) s'
      | Undef => Undef
      | Fail =>
        match infix_tail k_and atom s with
        | Ok r s' => loop_or k (mkAnd acc r) s'
        | Fail => Ok acc s
        | Undef => Undef
        end
      end
    end.
  Definition p0 (s : str) : res T :=
    match atom s with Ok a s' => loop_or (S (List.length s')) a s' | Fail => Fail | Undef => Undef end.

  (* `"not" separator()+ "(" e:parse_depth(max_depth) ")"` and `"(" e:parse_depth(max_depth) ")"` *)
  Variables (mkNot : T -> T) (pd : str -> res T).
  Definition atom_not (s : str) : res T :=
    match lit k_not s with
    | None => Fail
    | Some s1 =>
      match seps1 s1 with
      | None => Fail
      | Some s2 => match eat 40 s2 with Some s3 => close 41 mkNot (pd s3) | None => Fail end
      end
    end.
  Definition atom_paren (s : str) : res T :=
    match eat 40 s with Some s1 => close 41 (fun e => e) (pd s1) | None => Fail end.
End Climb.

Definition orelse {T : Type} (a : res T) (b : str -> res T) (s : str) : res T :=
  match a with Fail => b s | r => r end.

(* prefix/atom alternatives of parse_complex_inner, in source order *)
Definition atoms_c (pcd : str -> res cfilt) (s : str) : res cfilt :=
  orelse (atom_not CNot pcd s)
    (orelse (cmpexp subattr CPres (fun o p v => CCmp o p v) s) (atom_paren pcd)) s.
(* parse_complex_depth(d) = limiter(d) parse_complex_inner(d - 1) *)
Fixpoint pdepth_c (d : nat) (s : str) : res cfilt :=
  match d with O => Fail | S m => p0 COr CAnd (atoms_c (pdepth_c m)) s end.

(* `a:attrname() "[" e:parse_complex_depth(max_depth) "]"` *)
Definition atom_complex (pcd : str -> res cfilt) (s : str) : res filt :=
  match attrstring s with
  | None => Fail
  | Some (a, s0) =>
    match eat 91 s0 with
    | None => Fail
    | Some s1 => close 93 (fun e => SComplex (attr_from a) e) (pcd s1)
    end
  end.
(* prefix/atom alternatives of parse_inner, in source order *)
Definition atoms_f (pd : str -> res filt) (pcd : str -> res cfilt) (s : str) : res filt :=
  orelse (atom_not SNot pd s)
    (orelse (atom_complex pcd s)
      (orelse (cmpexp attrpath SPres (fun o p v => SCmp o p v) s) (atom_paren pd))) s.
Fixpoint pdepth (d : nat) (s : str) : res filt :=
  match d with O => Fail | S m => p0 SOr SAnd (atoms_f (pdepth m) (pdepth_c m)) s end.

Definition MAXD : nat := 128.         (* SCIM_FILTER_MAX_DEPTH *)
Inductive pres (A : Type) := POk (f : A) | PErr | PUndef.
Arguments POk {A} f.
Arguments PErr {A}.
Arguments PUndef {A}.
(* a public peg rule must consume the whole input *)
Definition top {A} (r : res A) : pres A :=
  match r with Ok f [] => POk f | Ok _ _ => PErr | Fail => PErr | Undef => PUndef end.
Definition parse (s : str) : pres filt := top (pdepth MAXD s).             (* ScimFilter::from_str *)
Definition parse_complex (s : str) : pres cfilt := top (pdepth_c MAXD s).  (* ScimComplexFilter::from_str *)

(* ------------------------------------------------------------------ the property's vocabulary *)
(* a valid SCIM name as an Attribute value: matches attrstring entirely and is what From<&str> yields *)
Definition name_ok (kn : list str) (a : str) : bool :=
  match a with
  | c :: t => is_alpha c && forallb is_namech t && str_eqb (norm kn a) a
  | [] => false
  end.
Definition path_ok (p : apath) : bool :=
  name_ok attr_known (fst p) && match snd p with Some s => name_ok sub_known s | None => true end.
Fixpoint valid_c (c : cfilt) : bool :=
  match c with
  | COr a b | CAnd a b => valid_c a && valid_c b
  | CNot a => valid_c a
  | CPres s => name_ok sub_known s
  | CCmp _ s v => name_ok sub_known s && jv_ok v
  end.
Fixpoint valid (f : filt) : bool :=
  match f with
  | SOr a b | SAnd a b => valid a && valid b
  | SNot a => valid a
  | SPres p => path_ok p
  | SCmp _ p v => path_ok p && jv_ok v
  | SComplex a c => name_ok attr_known a && valid_c c
  end.
(* nesting levels the printed form spends: `(x)` one, `(not (x))` two, `a[x]` one *)
Fixpoint need_c (c : cfilt) : nat :=
  match c with
  | COr a b | CAnd a b => S (Nat.max (need_c a) (need_c b))
  | CNot a => S (S (need_c a))
  | _ => 1
  end.
Fixpoint need (f : filt) : nat :=
  match f with
  | SOr a b | SAnd a b => S (Nat.max (need a) (need b))
  | SNot a => S (S (need a))
  | SComplex _ c => S (need_c c)
  | _ => 1
  end.
Definition print_depth (f : filt) : nat := S (need f).

(* ------------------------------------------------------------------ equality *)
Definition jv_eqb (a b : jv) : bool :=
  match a, b with
  | JNull, JNull => true
  | JBool x, JBool y => Bool.eqb x y
  | JNum x, JNum y => (x =? y)%Z
  | JStr x, JStr y => str_eqb x y
  | _, _ => false
  end.
Definition cmp_eqb (a b : cmp) : bool :=
  match a, b with
  | OEq, OEq | ONe, ONe | OCo, OCo | OSw, OSw | OEw, OEw | OGt, OGt | OLt, OLt | OGe, OGe | OLe, OLe => true
  | _, _ => false
  end.
Definition ostr_eqb (a b : option str) : bool :=
  match a, b with Some x, Some y => str_eqb x y | None, None => true | _, _ => false end.
Definition path_eqb (a b : apath) : bool := str_eqb (fst a) (fst b) && ostr_eqb (snd a) (snd b).
Fixpoint cfilt_eqb (a b : cfilt) : bool :=
  match a, b with
  | COr a1 a2, COr b1 b2 | CAnd a1 a2, CAnd b1 b2 => cfilt_eqb a1 b1 && cfilt_eqb a2 b2
  | CNot a1, CNot b1 => cfilt_eqb a1 b1
  | CPres s, CPres s' => str_eqb s s'
  | CCmp o s v, CCmp o' s' v' => cmp_eqb o o' && str_eqb s s' && jv_eqb v v'
  | _, _ => false
  end.
Fixpoint filt_eqb (a b : filt) : bool :=
  match a, b with
  | SOr a1 a2, SOr b1 b2 | SAnd a1 a2, SAnd b1 b2 => filt_eqb a1 b1 && filt_eqb a2 b2
  | SNot a1, SNot b1 => filt_eqb a1 b1
  | SPres p, SPres p' => path_eqb p p'
  | SCmp o p v, SCmp o' p' v' => cmp_eqb o o' && path_eqb p p' && jv_eqb v v'
  | SComplex n c, SComplex n' c' => str_eqb n n' && cfilt_eqb c c'
  | _, _ => false
  end.
Definition pres_eqb {A} (e : A -> A -> bool) (a b : pres A) : bool :=
  match a, b with
  | POk x, POk y => e x y
  | PErr, PErr => true
  | _, _ => false                      (* PUndef agrees with nothing *)
  end.

(* ------------------------------------------------------------------ precedence spec *)
(* an operand: a filter and whether it is written bare (`a pr`, `not (..)`) or as printed (`(a pr)`) *)
Definition strip_parens (s : str) : str :=
  match s with 40 :: t => removelast t | _ => s end.
Definition operand := (filt * bool)%type.
Definition operand_txt (x : operand) : str :=
  if snd x then match fst x with SComplex _ _ => print (fst x) | _ => strip_parens (print (fst x)) end
  else print (fst x).
(* which filters may be written bare as an operand of and/or *)
Definition bare_ok (f : filt) : bool :=
  match f with SOr _ _ | SAnd _ _ => false | _ => true end.
Definition operand_ok (x : operand) : bool := valid (fst x) && (negb (snd x) || bare_ok (fst x)).
(* separators: nonempty runs of separator bytes *)
Definition sep_ok (s : str) : bool := match s with [] => false | _ => forallb is_sep s end.
(* and-chain: x (sepA "and" sepB y)* *)
Definition link := (str * str * operand)%type.
Definition chain := (operand * list link)%type.
Definition link_txt (kw : str) (l : link) : str :=
  let '(sa, sb, x) := l in sa ++ kw ++ sb ++ operand_txt x.
Definition chain_txt (c : chain) : str :=
  operand_txt (fst c) ++ flat_map (link_txt k_and) (snd c).
Definition olink := (str * str * chain)%type.
Definition expr_txt (c0 : chain) (ors : list olink) : str :=
  chain_txt c0 ++ flat_map (fun '(sa, sb, c) => sa ++ k_or ++ sb ++ chain_txt c) ors.
(* AND binds tighter than OR, both associate to the left *)
Definition chain_sem (c : chain) : filt :=
  fold_left (fun acc (l : link) => SAnd acc (fst (snd l))) (snd c) (fst (fst c)).
Definition expr_sem (c0 : chain) (ors : list olink) : filt :=
  fold_left (fun acc (l : olink) => SOr acc (chain_sem (snd l))) ors (chain_sem c0).
Definition link_ok (l : link) : bool :=
  let '(sa, sb, x) := l in sep_ok sa && sep_ok sb && operand_ok x.
Definition chain_ok (c : chain) : bool := operand_ok (fst c) && forallb link_ok (snd c).
Definition olink_ok (l : olink) : bool :=
  let '(sa, sb, c) := l in sep_ok sa && sep_ok sb && chain_ok c.
Definition chain_need (c : chain) : nat :=
  Nat.max (need (fst (fst c))) (list_max (map (fun l : link => need (fst (snd l))) (snd c))).
Definition expr_need (c0 : chain) (ors : list olink) : nat :=
  Nat.max (chain_need c0) (list_max (map (fun l : olink => chain_need (snd l)) ors)).

(* truth of a filter under an arbitrary valuation of its attribute expressions *)
Fixpoint holds (lv : filt -> bool) (f : filt) : bool :=
  match f with
  | SOr a b => holds lv a || holds lv b
  | SAnd a b => holds lv a && holds lv b
  | SNot a => negb (holds lv a)
  | _ => lv f
  end.
Definition chain_operands (c : chain) : list filt := fst (fst c) :: map (fun l : link => fst (snd l)) (snd c).

(* does the text open with at least n '(' ? *)
Fixpoint opens (n : nat) (s : str) : bool :=
  match n with O => true | S k => match eat 40 s with Some t => opens k t | None => false end end.

(* ------------------------------------------------------------------ correspondence *)
Inductive case :=
(* f built in Rust; its Display text; ScimFilter::from_str of that text: None when Rust's own
   `reparsed == Ok(f)` is true, otherwise the result spelled out *)
| CRound (f : filt) (printed : str) (reparsed : option (pres filt))
(* an or/and expression assembled from operands and separators; the text given to from_str; result *)
| CPrec (c0 : chain) (ors : list olink) (text : str) (r : pres filt)
(* arbitrary text -> ScimFilter::from_str *)
| CParse (text : str) (r : pres filt)
(* arbitrary text -> ScimComplexFilter::from_str *)
| CParseC (text : str) (r : pres cfilt).

Definition agree (c : case) : bool :=
  match c with
  | CRound f printed reparsed =>
      str_eqb (print f) printed &&
      match reparsed with
      | None => pres_eqb filt_eqb (parse printed) (POk f)
      | Some r => pres_eqb filt_eqb (parse printed) r && negb (pres_eqb filt_eqb r (POk f))
      end
  | CPrec c0 ors text r => str_eqb (expr_txt c0 ors) text && pres_eqb filt_eqb (parse text) r
  | CParse text r => pres_eqb filt_eqb (parse text) r
  | CParseC text r => pres_eqb cfilt_eqb (parse_complex text) r
  end.

(* the property's own sentences, evaluated on the implementation's answers *)
Definition pcheck (c : case) : bool :=
  match c with
  | CRound f printed reparsed =>
      if valid f then
        if (print_depth f <=? MAXD)%nat
        then (* valid names, scalar values, within the limit => parses back to the same filter *)
          match reparsed with None => true | Some _ => false end
        else (* the printed form nests deeper than the limit => rejected *)
          match reparsed with Some PErr => true | _ => false end
      else true
  | CPrec c0 ors text r =>
      if chain_ok c0 && forallb olink_ok ors && (S (expr_need c0 ors) <=? MAXD)%nat
         && str_eqb (expr_txt c0 ors) text
      then pres_eqb filt_eqb r (POk (expr_sem c0 ors)) else true
  | CParse text r => if opens MAXD text then pres_eqb filt_eqb r PErr else true
  | CParseC text r => if opens MAXD text then pres_eqb cfilt_eqb r PErr else true
  end.
Definition known (_ : case) : bool := false.
