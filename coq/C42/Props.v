(* KV.C42.Props — property theorems only.
   Model: KV.C42.Model (`print` = impl Display for ScimFilter/ScimComplexFilter, `parse` =
   ScimFilter::from_str = the scimfilter peg grammar with rust-peg's precedence climbing, the depth
   limiter and serde_json's scalar reader), tied to /repo on every run by harness/src/bin/c42.rs. *)
From Coq Require Import List NArith ZArith Bool.
Import ListNotations.
Require Import KV.C42.Model KV.C42.Proofs.
Open Scope N_scope.

(* ROUND TRIP.  Any filter tree — of any size — whose attribute / sub-attribute names are valid SCIM names
   (as produced by Attribute::from on a name of the attrstring charset), whose comparison values are
   scalars (null, bool, integer of i64 ∪ u64, ANY byte string: quotes, backslashes, control bytes,
   brackets, keywords…) and whose printed form spends at most SCIM_FILTER_MAX_DEPTH nesting levels,
   is printed to a text that parses back to exactly the same tree. *)
Theorem C42_roundtrip : forall f,
  valid f = true -> (print_depth f <= MAXD)%nat -> parse (print f) = POk f.
Proof. exact roundtrip. Qed.

(* the same for ScimComplexFilter::from_str / Display *)
Theorem C42_roundtrip_complex : forall c,
  valid_c c = true -> (S (need_c c) <= MAXD)%nat -> parse_complex (print_c c) = POk c.
Proof. exact roundtrip_c. Qed.

(* The bound is exact: a valid filter whose printed form nests deeper than the limit is REJECTED when
   its text is parsed back (so `print_depth f <= MAXD` is precisely the round-trip domain). *)
Theorem C42_depth_exact : forall f,
  valid f = true -> (MAXD < print_depth f)%nat -> parse (print f) = PErr.
Proof. exact too_deep. Qed.

(* DEPTH LIMIT on arbitrary text: whatever follows, a text that opens with SCIM_FILTER_MAX_DEPTH (or more)
   parentheses is rejected, by both entry points. *)
Theorem C42_depth_reject : forall s, opens MAXD s = true -> parse s = PErr.
Proof. exact parse_opens. Qed.
Theorem C42_depth_reject_complex : forall s, opens MAXD s = true -> parse_complex s = PErr.
Proof. exact parse_complex_opens. Qed.
(* at every depth budget d, not only the top-level one *)
Theorem C42_depth_reject_at : forall d s, opens d s = true -> pdepth d s = Fail.
Proof. exact opens_reject. Qed.

(* PRECEDENCE, for token strings of any length.  Take any or-separated list of and-separated operands
     x ( sep+ "and" sep+ y )*  ( sep+ "or" sep+  x' ( sep+ "and" sep+ y' )* )*
   with arbitrary non-empty separator runs, each operand written as printed or bare (`a pr`,
   `a eq 1`, `not (..)`, `a[..]`).  The parser answers the tree in which every and-chain is folded to
   the left FIRST and the chains are then or-ed to the left: AND binds tighter than OR, both are
   left-associative. *)
Theorem C42_precedence : forall c0 ors,
  chain_ok c0 = true -> forallb olink_ok ors = true -> (S (expr_need c0 ors) <= MAXD)%nat ->
  parse (expr_txt c0 ors) = POk (expr_sem c0 ors).
Proof. exact precedence. Qed.

(* what that tree means: under ANY valuation of the attribute expressions it is true iff some
   or-group has all of its and-operands true (disjunction of conjunctions, in reading order) *)
Theorem C42_precedence_meaning : forall lv c0 ors,
  holds lv (expr_sem c0 ors) =
  existsb (fun c => forallb (holds lv) (chain_operands c)) (c0 :: map (fun l : olink => snd l) ors).
Proof. exact holds_expr. Qed.

(* the four three-operand instances, spelled out *)
Theorem C42_or_and : forall a b c s1 s2 s3 s4,
  operand_ok a = true -> operand_ok b = true -> operand_ok c = true ->
  sep_ok s1 = true -> sep_ok s2 = true -> sep_ok s3 = true -> sep_ok s4 = true ->
  (S (Nat.max (need (fst a)) (Nat.max (need (fst b)) (need (fst c)))) <= MAXD)%nat ->
  parse (operand_txt a ++ s1 ++ k_or ++ s2 ++ operand_txt b ++ s3 ++ k_and ++ s4 ++ operand_txt c)
  = POk (SOr (fst a) (SAnd (fst b) (fst c))) /\
  parse (operand_txt a ++ s1 ++ k_and ++ s2 ++ operand_txt b ++ s3 ++ k_or ++ s4 ++ operand_txt c)
  = POk (SOr (SAnd (fst a) (fst b)) (fst c)) /\
  parse (operand_txt a ++ s1 ++ k_or ++ s2 ++ operand_txt b ++ s3 ++ k_or ++ s4 ++ operand_txt c)
  = POk (SOr (SOr (fst a) (fst b)) (fst c)) /\
  parse (operand_txt a ++ s1 ++ k_and ++ s2 ++ operand_txt b ++ s3 ++ k_and ++ s4 ++ operand_txt c)
  = POk (SAnd (SAnd (fst a) (fst b)) (fst c)).
Proof.
  intros a b c s1 s2 s3 s4 Ha Hb Hc H1 H2 H3 H4 Hn.
  repeat split.
  - pose proof (precedence (a, []) [(s1, s2, (b, [(s3, s4, c)]))]) as P.
    unfold expr_txt, expr_sem, chain_txt, chain_sem, chain_ok, expr_need, chain_need in P.
    cbn [fst snd flat_map link_txt fold_left forallb olink_ok link_ok map list_max fold_right app chain_ok] in P.
    unfold chain_ok in P. cbn [fst snd forallb link_ok] in P.
    repeat rewrite app_nil_r in P. repeat rewrite <- app_assoc in P. apply P.
    + rewrite Ha. reflexivity.
    + rewrite H1, H2, H3, H4, Hb, Hc. reflexivity.
    + repeat rewrite Nat.max_0_r. exact Hn.
  - pose proof (precedence (a, [(s1, s2, b)]) [(s3, s4, (c, []))]) as P.
    unfold expr_txt, expr_sem, chain_txt, chain_sem, chain_ok, expr_need, chain_need in P.
    cbn [fst snd flat_map link_txt fold_left forallb olink_ok link_ok map list_max fold_right app chain_ok] in P.
    unfold chain_ok in P. cbn [fst snd forallb link_ok] in P.
    repeat rewrite app_nil_r in P. repeat rewrite <- app_assoc in P. apply P.
    + rewrite Ha, H1, H2, Hb. reflexivity.
    + rewrite H3, H4, Hc. reflexivity.
    + repeat rewrite Nat.max_0_r. rewrite <- Nat.max_assoc. exact Hn.
  - pose proof (precedence (a, []) [(s1, s2, (b, [])); (s3, s4, (c, []))]) as P.
    unfold expr_txt, expr_sem, chain_txt, chain_sem, chain_ok, expr_need, chain_need in P.
    cbn [fst snd flat_map link_txt fold_left forallb olink_ok link_ok map list_max fold_right app chain_ok] in P.
    unfold chain_ok in P. cbn [fst snd forallb link_ok] in P.
    repeat rewrite app_nil_r in P. repeat rewrite <- app_assoc in P. apply P.
    + rewrite Ha. reflexivity.
    + rewrite H1, H2, H3, H4, Hb, Hc. reflexivity.
    + repeat rewrite Nat.max_0_r. exact Hn.
  - pose proof (precedence (a, [(s1, s2, b); (s3, s4, c)]) []) as P.
    unfold expr_txt, expr_sem, chain_txt, chain_sem, chain_ok, expr_need, chain_need in P.
    cbn [fst snd flat_map link_txt fold_left forallb olink_ok link_ok map list_max fold_right app chain_ok] in P.
    unfold chain_ok in P. cbn [fst snd forallb link_ok] in P.
    repeat rewrite app_nil_r in P. repeat rewrite <- app_assoc in P. apply P.
    + rewrite Ha, H1, H2, H3, H4, Hb, Hc. reflexivity.
    + reflexivity.
    + repeat rewrite Nat.max_0_r. exact Hn.
Qed.

(* THE PROPERTY, in one sentence *)
Definition C42_full_statement : Prop :=
  (forall f, valid f = true -> (print_depth f <= MAXD)%nat -> parse (print f) = POk f) /\
  (forall c0 ors, chain_ok c0 = true -> forallb olink_ok ors = true -> (S (expr_need c0 ors) <= MAXD)%nat ->
     parse (expr_txt c0 ors) = POk (expr_sem c0 ors)) /\
  (forall s, opens MAXD s = true -> parse s = PErr) /\
  (forall f, valid f = true -> (MAXD < print_depth f)%nat -> parse (print f) = PErr).
Theorem C42_property : C42_full_statement.
Proof. repeat split; [exact roundtrip | exact precedence | exact parse_opens | exact too_deep]. Qed.

(* BRIDGE.  On every recorded case where the model reproduces the implementation's Display text and
   from_str result, the property's executable predicate holds on the IMPLEMENTATION's answers: a run
   with zero disagreements transfers the theorems above to every observed implementation case. *)
Theorem C42_agree_implies_property : forall c, agree c = true -> pcheck c = true.
Proof. exact agree_implies_property. Qed.

(* the decidable comparisons used by agree/pcheck are genuine equality *)
Theorem C42_filt_eqb_sound : forall a b, filt_eqb a b = true -> a = b.
Proof. exact filt_eqb_eq. Qed.
