(* KV.C42.Proofs — lemmas for the SCIM filter printer / parser model. *)
From Coq Require Import List NArith ZArith Bool Lia Arith.
Import ListNotations.
Require Import KV.C42.Model.
Open Scope N_scope.

(* ------------------------------------------------------------------ generic list / scanner facts *)
Lemma str_eqb_refl : forall a, str_eqb a a = true.
Proof. induction a as [|x a IH]; cbn; [reflexivity|]. rewrite N.eqb_refl. exact IH. Qed.
Lemma str_eqb_eq : forall a b, str_eqb a b = true -> a = b.
Proof.
  induction a as [|x a IH]; intros [|y b] H; cbn in H; try discriminate; [reflexivity|].
  apply andb_true_iff in H as [H1 H2]. apply N.eqb_eq in H1. subst y. f_equal. apply IH. exact H2.
Qed.

Lemma span_app : forall p a c r,
  forallb p a = true -> p c = false -> span p (a ++ c :: r) = (a, c :: r).
Proof.
  intros p a c r. induction a as [|x a IH]; intros Ha Hc; cbn.
  - rewrite Hc. reflexivity.
  - cbn in Ha. apply andb_true_iff in Ha as [Hx Ha]. rewrite Hx, (IH Ha Hc). reflexivity.
Qed.
Lemma span_all : forall p a, forallb p a = true -> span p a = (a, []).
Proof.
  intros p a. induction a as [|x a IH]; intros Ha; cbn; [reflexivity|].
  cbn in Ha. apply andb_true_iff in Ha as [Hx Ha]. rewrite Hx, (IH Ha). reflexivity.
Qed.
(* scanning stops at the end or at the first byte of r that fails p *)
Definition stops (p : N -> bool) (r : str) : Prop :=
  match r with [] => True | c :: _ => p c = false end.
Lemma span_stop : forall p a r, forallb p a = true -> stops p r -> span p (a ++ r) = (a, r).
Proof.
  intros p a [|c r] Ha Hr.
  - rewrite app_nil_r. apply span_all. exact Ha.
  - apply span_app; assumption.
Qed.

Lemma lit_app : forall l s, lit l (l ++ s) = Some s.
Proof. induction l as [|x l IH]; intros s; cbn; [reflexivity|]. rewrite N.eqb_refl. apply IH. Qed.

Lemma seps1_run : forall sa r, sep_ok sa = true -> stops is_sep r -> seps1 (sa ++ r) = Some r.
Proof.
  intros [|c sa] r Hs Hr; cbn in Hs; [discriminate|].
  apply andb_true_iff in Hs as [Hc Hsa]. cbn. rewrite Hc.
  rewrite (span_stop is_sep sa r Hsa Hr). reflexivity.
Qed.
Lemma seps1_none : forall r, stops is_sep r -> seps1 r = None.
Proof. intros [|c r] H; cbn; [reflexivity|]. cbn in H. rewrite H. reflexivity. Qed.

(* ------------------------------------------------------------------ character class facts *)
Lemma namech_not_sep : forall c, is_namech c = true -> is_sep c = false.
Proof.
  intros c H. unfold is_namech, is_alpha, is_upper, is_lower, is_digit in H. unfold is_sep.
  destruct (N.eqb_spec c 10), (N.eqb_spec c 32), (N.eqb_spec c 9); subst; try reflexivity;
    vm_compute in H; discriminate.
Qed.
Lemma alpha_namech : forall c, is_alpha c = true -> is_namech c = true.
Proof. intros c H. unfold is_namech. rewrite H. reflexivity. Qed.
Lemma alpha_not_sep : forall c, is_alpha c = true -> is_sep c = false.
Proof. intros c H. apply namech_not_sep, alpha_namech, H. Qed.
Lemma alpha_not : forall c k, is_alpha k = false -> is_alpha c = true -> (c =? k) = false.
Proof. intros c k Hk Hc. destruct (N.eqb_spec c k); [subst; congruence | reflexivity]. Qed.
Lemma sep_oper : forall c, is_sep c = true -> is_oper c = true.
Proof. intros c H. unfold is_oper. rewrite H. reflexivity. Qed.

(* ------------------------------------------------------------------ names *)
Definition name_chars (a : str) : Prop :=
  match a with c :: t => is_alpha c = true /\ forallb is_namech t = true | [] => False end.
Lemma name_ok_chars : forall kn a, name_ok kn a = true -> name_chars a /\ norm kn a = a.
Proof.
  intros kn [|c t] H; cbn [name_ok] in H; [discriminate|].
  apply andb_true_iff in H as [H H3]. apply andb_true_iff in H as [H1 H2].
  split; [split; assumption|]. apply str_eqb_eq. exact H3.
Qed.
Lemma attrstring_name : forall a r, name_chars a -> stops is_namech r -> attrstring (a ++ r) = Some (a, r).
Proof.
  intros [|c t] r Ha Hr; [destruct Ha|]. destruct Ha as [Hc Ht]. cbn. rewrite Hc.
  rewrite (span_stop is_namech t r Ht Hr). reflexivity.
Qed.
Lemma name_chars_head : forall a, name_chars a -> exists c t, a = c :: t /\ is_alpha c = true.
Proof. intros [|c t] H; [destruct H|]. exists c, t. split; [reflexivity | apply H]. Qed.

(* ------------------------------------------------------------------ decimal integers *)
Lemma dig_app : forall fuel n acc, dig fuel n acc = dig fuel n [] ++ acc.
Proof.
  induction fuel as [|k IH]; intros n acc; cbn [dig]; [reflexivity|].
  destruct (n <? 10); [reflexivity|].
  rewrite (IH (n / 10) ((48 + n mod 10) :: acc)), (IH (n / 10) [48 + n mod 10]).
  rewrite <- app_assoc. reflexivity.
Qed.
Lemma val10_snoc : forall ds d, val10 (ds ++ [d]) = val10 ds * 10 + (d - 48).
Proof. intros ds d. unfold val10. rewrite fold_left_app. reflexivity. Qed.
Lemma is_digit_48 : forall n, n < 10 -> is_digit (48 + n) = true.
Proof.
  intros n H. unfold is_digit. apply andb_true_iff. split; apply N.leb_le; lia.
Qed.

Lemma dig_S : forall k n acc,
  dig (S k) n acc = if n <? 10 then (48 + n) :: acc else dig k (n / 10) ((48 + n mod 10) :: acc).
Proof. reflexivity. Qed.
Lemma dig_spec : forall fuel n, n < 10 ^ N.of_nat (S fuel) ->
  val10 (dig (S fuel) n []) = n /\ forallb is_digit (dig (S fuel) n []) = true /\
  exists d t, dig (S fuel) n [] = d :: t /\ (n <> 0 -> d <> 48) /\ (n = 0 -> t = []).
Proof.
  induction fuel as [|k IH]; intros n Hn.
  - change (10 ^ N.of_nat 1) with 10 in Hn. rewrite dig_S. apply N.ltb_lt in Hn as Hn'. rewrite Hn'.
    split; [unfold val10; cbn [fold_left]; lia|]. split; [cbn [forallb]; rewrite is_digit_48 by exact Hn; reflexivity|].
    exists (48 + n), []. split; [reflexivity|]. split; [lia | reflexivity].
  - rewrite dig_S. destruct (N.ltb_spec n 10) as [Hlt|Hge].
    + split; [unfold val10; cbn [fold_left]; lia|]. split; [cbn [forallb]; rewrite is_digit_48 by exact Hlt; reflexivity|].
      exists (48 + n), []. split; [reflexivity|]. split; [lia | reflexivity].
    + assert (Hq : n / 10 < 10 ^ N.of_nat (S k)).
      { apply N.div_lt_upper_bound; [lia|]. rewrite Nat2N.inj_succ, N.pow_succ_r' in Hn. exact Hn. }
      destruct (IH (n / 10) Hq) as [Hv [Hd [d [t [He [Hnz Hz]]]]]].
      rewrite dig_app.
      split.
      { rewrite val10_snoc, Hv. pose proof (N.div_mod' n 10) as E1.
        assert (E2 : n mod 10 < 10) by (apply N.mod_lt; lia).
        set (q := n / 10) in *. set (m := n mod 10) in *. lia. }
      split.
      * rewrite forallb_app, Hd. cbn [forallb]. rewrite is_digit_48; [reflexivity|]. apply N.mod_lt. lia.
      * exists d, (t ++ [48 + n mod 10]). rewrite He. split; [reflexivity|]. split; [|lia].
        intros _. apply Hnz. intro H0. apply N.div_small_iff in H0; lia.
Qed.

Lemma print_N_spec : forall n,
  val10 (print_N n) = n /\ forallb is_digit (print_N n) = true /\
  exists d t, print_N n = d :: t /\ (n <> 0 -> d <> 48) /\ (n = 0 -> t = []).
Proof.
  intros n. unfold print_N. apply dig_spec.
  rewrite Nat2N.inj_succ, N2Nat.id.
  destruct (N.eq_dec n 0) as [->|Hn]; [vm_compute; reflexivity|].
  assert (H := N.log2_spec n ltac:(lia)).
  apply N.lt_le_trans with (2 ^ N.succ (N.log2 n)); [apply H|].
  apply N.pow_le_mono_l. lia.
Qed.

Lemma digit_not_ws : forall c, is_digit c = true -> is_jws c = false.
Proof.
  intros c H. unfold is_digit in H. apply andb_true_iff in H as [H1 H2].
  apply N.leb_le in H1. apply N.leb_le in H2. unfold is_jws.
  repeat match goal with |- context [c =? ?k] => replace (c =? k) with false by (symmetry; apply N.eqb_neq; lia) end.
  reflexivity.
Qed.
Lemma digit_not_oper : forall c, is_digit c = true -> is_oper c = false.
Proof.
  intros c H. unfold is_digit in H. apply andb_true_iff in H as [H1 H2].
  apply N.leb_le in H1. apply N.leb_le in H2. unfold is_oper, is_sep.
  repeat match goal with |- context [c =? ?k] => replace (c =? k) with false by (symmetry; apply N.eqb_neq; lia) end.
  reflexivity.
Qed.
Lemma forallb_impl : forall (p q : N -> bool) l,
  (forall c, p c = true -> q c = true) -> forallb p l = true -> forallb q l = true.
Proof.
  intros p q l H. induction l as [|x l IH]; cbn; [reflexivity|]. intros H1.
  apply andb_true_iff in H1 as [Hx Hl]. rewrite (H x Hx), (IH Hl). reflexivity.
Qed.

(* the number part of json_of on a printed natural *)
Lemma jnumber_print : forall neg n,
  jnumber neg (print_N n) =
    let fin := fun z => JOk (JNum z) in
    if neg then (if (n =? 0) || (9223372036854775808 <? n) then JUndef else fin (- Z.of_N n)%Z)
    else if 18446744073709551616 <=? n then JUndef else fin (Z.of_N n).
Proof.
  intros neg n. destruct (print_N_spec n) as [Hv [Hd [d [t [He [Hnz Hz]]]]]].
  unfold jnumber. rewrite (span_all is_digit _ Hd). rewrite He. rewrite <- He, Hv.
  assert (Hlz : (d =? 48) && (match t with [] => false | _ => true end) = false).
  { destruct (N.eqb_spec d 48) as [E|E]; [|reflexivity]. cbn.
    destruct (N.eq_dec n 0) as [H0|H0]; [rewrite (Hz H0); reflexivity | exfalso; exact (Hnz H0 E)]. }
  rewrite Hlz. cbn match. unfold as_f64, finish. cbn [span snd].
  destruct neg; cbv zeta.
  - destruct ((n =? 0) || (9223372036854775808 <? n)); reflexivity.
  - destruct (18446744073709551616 <=? n); reflexivity.
Qed.

(* ------------------------------------------------------------------ JSON strings *)
Lemma below_cases : forall (P : N -> Prop) (k : nat),
  (forall i, (i < k)%nat -> P (N.of_nat i)) -> forall c, c < N.of_nat k -> P c.
Proof.
  intros P k H c Hc. rewrite <- (N2Nat.id c). apply H. lia.
Qed.
Lemma esc_big : forall c, 93 <= c -> esc_byte c = [c].
Proof.
  intros c H. unfold esc_byte.
  repeat match goal with |- context [c =? ?k] => replace (c =? k) with false by (symmetry; apply N.eqb_neq; lia) end.
  replace (c <? 32) with false by (symmetry; apply N.ltb_ge; lia). reflexivity.
Qed.

Lemma qscan_esc : forall c s, qscan (esc_byte c ++ s) = pre (esc_byte c) (qscan s).
Proof.
  intros c s. destruct (N.lt_ge_cases c 93) as [Hlt|Hge].
  - revert c Hlt. apply (below_cases _ 93). intros i Hi.
    do 93 (destruct i as [|i]; [cbn; destruct (qscan s) as [[b r]|]; reflexivity|]). lia.
  - rewrite (esc_big c Hge). cbn [app qscan].
    replace (c =? 92) with false by (symmetry; apply N.eqb_neq; lia).
    replace (c =? 34) with false by (symmetry; apply N.eqb_neq; lia). reflexivity.
Qed.
Lemma jstr_esc : forall c s, jstr (esc_byte c ++ s) = pre [c] (jstr s).
Proof.
  intros c s. destruct (N.lt_ge_cases c 93) as [Hlt|Hge].
  - revert c Hlt. apply (below_cases _ 93). intros i Hi.
    do 93 (destruct i as [|i]; [cbn; destruct (jstr s) as [[b r]|]; reflexivity|]). lia.
  - rewrite (esc_big c Hge). cbn [app jstr].
    replace (c =? 92) with false by (symmetry; apply N.eqb_neq; lia).
    replace (c =? 34) with false by (symmetry; apply N.eqb_neq; lia).
    replace (c <? 32) with false by (symmetry; apply N.ltb_ge; lia). reflexivity.
Qed.
Lemma qscan_print : forall v r, qscan (flat_map esc_byte v ++ 34 :: r) = Some (flat_map esc_byte v, r).
Proof.
  induction v as [|c v IH]; intros r; [reflexivity|].
  cbn [flat_map]. rewrite <- app_assoc, qscan_esc, IH. reflexivity.
Qed.
Lemma jstr_print : forall v r, jstr (flat_map esc_byte v ++ 34 :: r) = Some (v, r).
Proof.
  induction v as [|c v IH]; intros r; [reflexivity|].
  cbn [flat_map]. rewrite <- app_assoc, jstr_esc, IH. reflexivity.
Qed.
Lemma json_of_string : forall v, json_of (print_jstr v) = JOk (JStr v).
Proof.
  intros v. unfold print_jstr, json_of. cbn [span is_jws snd]. 
  change (is_jws 34) with false. cbv iota. cbn [snd].
  change (34 =? 110) with false. change (34 =? 116) with false. change (34 =? 102) with false.
  change (34 =? 45) with false. change (is_digit 34) with false. change (34 =? 34) with true. cbv iota.
  rewrite jstr_print. reflexivity.
Qed.

(* ------------------------------------------------------------------ values *)
(* the text after a value: end of input or an operator byte *)
Definition rok (r : str) : Prop := stops (fun c => negb (is_oper c)) r.

Lemma json_of_digits : forall d t, is_digit d = true -> json_of (d :: t) = jnumber false (d :: t).
Proof.
  intros d t H. unfold json_of. cbn [span]. rewrite (digit_not_ws d H). cbn [snd]. rewrite H.
  unfold is_digit in H. apply andb_true_iff in H as [H1 H2]. apply N.leb_le in H1. apply N.leb_le in H2.
  repeat match goal with |- context [d =? ?k] => replace (d =? k) with false by (symmetry; apply N.eqb_neq; lia) end.
  reflexivity.
Qed.
Lemma json_of_minus : forall t, json_of (45 :: t) = jnumber true t.
Proof. intros t. reflexivity. Qed.

Lemma json_of_num : forall z, jv_ok (JNum z) = true -> json_of (print_jv (JNum z)) = JOk (JNum z).
Proof.
  intros z H. cbn [jv_ok] in H. apply andb_true_iff in H as [H1 H2].
  apply Z.leb_le in H1. apply Z.ltb_lt in H2. cbn [print_jv].
  destruct (print_N_spec (Z.abs_N z)) as [_ [Hd [d [t [He _]]]]].
  destruct (Z.ltb_spec z 0) as [Hneg|Hpos].
  - rewrite json_of_minus, jnumber_print. cbv zeta.
    replace (Z.abs_N z =? 0) with false by (symmetry; apply N.eqb_neq; lia).
    replace (9223372036854775808 <? Z.abs_N z) with false by (symmetry; apply N.ltb_ge; lia).
    cbn [orb]. do 2 f_equal. lia.
  - rewrite He, json_of_digits; [|rewrite He in Hd; cbn in Hd; apply andb_true_iff in Hd; apply Hd].
    rewrite <- He, jnumber_print. cbv zeta.
    replace (18446744073709551616 <=? Z.abs_N z) with false by (symmetry; apply N.leb_gt; lia).
    do 2 f_equal. lia.
Qed.

Lemma print_jv_shape : forall v, jv_ok v = true ->
  json_of (print_jv v) = JOk v /\
  ((exists s, v = JStr s) \/
   (forallb (fun c => negb (is_oper c)) (print_jv v) = true /\
    exists c t, print_jv v = c :: t /\ (c =? 34) = false /\ is_sep c = false)).
Proof.
  intros [| [|] | z | s] H.
  - split; [reflexivity|]. right. split; [reflexivity|]. exists 110, (tl k_null). repeat split.
  - split; [reflexivity|]. right. split; [reflexivity|]. exists 116, (tl k_true). repeat split.
  - split; [reflexivity|]. right. split; [reflexivity|]. exists 102, (tl k_false). repeat split.
  - split; [apply json_of_num; exact H|]. right. cbn [print_jv].
    destruct (print_N_spec (Z.abs_N z)) as [_ [Hd [d [t [He _]]]]].
    assert (Hno : forallb (fun c => negb (is_oper c)) (print_N (Z.abs_N z)) = true).
    { apply (forallb_impl is_digit); [|exact Hd]. intros c Hc. rewrite (digit_not_oper c Hc). reflexivity. }
    assert (Hdd : is_digit d = true).
    { rewrite He in Hd. cbn in Hd. apply andb_true_iff in Hd. apply Hd. }
    destruct (z <? 0)%Z.
    + split; [cbn [forallb]; rewrite Hno; reflexivity|]. exists 45, (print_N (Z.abs_N z)). repeat split.
    + split; [exact Hno|]. exists d, t. split; [exact He|].
      pose proof (digit_not_oper d Hdd) as Ho. unfold is_oper in Ho.
      apply orb_false_iff in Ho as [Ho _]. apply orb_false_iff in Ho as [Ho _].
      apply orb_false_iff in Ho as [Ho _]. apply orb_false_iff in Ho as [Ho _].
      split; [|exact Ho].
      unfold is_digit in Hdd. apply andb_true_iff in Hdd as [H1 H2]. apply N.leb_le in H1. apply N.leb_le in H2.
      apply N.eqb_neq. lia.
  - split; [apply json_of_string|]. left. exists s. reflexivity.
Qed.

Lemma pvalue_print : forall v r, jv_ok v = true -> rok r -> pvalue (print_jv v ++ r) = Ok v r.
Proof.
  intros v r Hv Hr. destruct (print_jv_shape v Hv) as [Hj [[s ->]|[Hno [c [t [He [H34 _]]]]]]].
  - cbn [print_jv] in *. unfold print_jstr. cbn [app]. rewrite <- app_assoc. cbn [app].
    unfold pvalue. cbn [eat]. change (34 =? 34) with true. cbv iota. rewrite qscan_print.
    change (34 :: flat_map esc_byte s ++ [34]) with (print_jstr s). rewrite Hj. reflexivity.
  - assert (He34 : eat 34 (print_jv v ++ r) = None) by (rewrite He; cbn [app eat]; rewrite H34; reflexivity).
    unfold pvalue. rewrite He34.
    unfold unquoted. rewrite (span_stop _ _ r Hno Hr), Hj. reflexivity.
Qed.
Lemma print_jv_head : forall v, jv_ok v = true -> exists c t, print_jv v = c :: t /\ is_sep c = false.
Proof.
  intros v Hv. destruct (print_jv_shape v Hv) as [_ [[s ->]|[_ [c [t [He [_ Hs]]]]]]].
  - exists 34, (flat_map esc_byte s ++ [34]). split; reflexivity.
  - exists c, t. split; assumption.
Qed.

(* ------------------------------------------------------------------ attribute expressions *)
Lemma seps1_space : forall s, stops is_sep s -> seps1 (32 :: s) = Some s.
Proof. intros s H. apply (seps1_run [32] s); [reflexivity | exact H]. Qed.

Lemma attrpath_print : forall p X, path_ok p = true ->
  attrpath (print_path p ++ 32 :: X) = Some (p, 32 :: X).
Proof.
  intros [a [s|]] X H; unfold path_ok in H; cbn [fst snd] in H; apply andb_true_iff in H as [Ha Hs].
  - apply name_ok_chars in Ha as [Hac Han]. apply name_ok_chars in Hs as [Hsc Hsn].
    cbn [print_path]. rewrite <- app_assoc. cbn [app]. unfold attrpath.
    rewrite (attrstring_name a (46 :: s ++ 32 :: X) Hac) by reflexivity.
    cbn [eat]. change (46 =? 46) with true. cbv iota.
    rewrite (attrstring_name s (32 :: X) Hsc) by reflexivity.
    unfold attr_from, sub_from. rewrite Han, Hsn. reflexivity.
  - apply name_ok_chars in Ha as [Hac Han]. cbn [print_path]. unfold attrpath.
    rewrite (attrstring_name a (32 :: X) Hac) by reflexivity.
    cbn [eat]. change (32 =? 46) with false. cbv iota.
    unfold attr_from. rewrite Han. reflexivity.
Qed.
Lemma subattr_print : forall s X, name_ok sub_known s = true -> subattr (s ++ 32 :: X) = Some (s, 32 :: X).
Proof.
  intros s X H. apply name_ok_chars in H as [Hc Hn]. unfold subattr.
  rewrite (attrstring_name s (32 :: X) Hc) by reflexivity. unfold sub_from. rewrite Hn. reflexivity.
Qed.

Section CmpExp.
  Context {P T : Type}.
  Variables (path : str -> option (P * str)) (mkP : P -> T) (mkC : cmp -> P -> jv -> T).
  Variables (ptxt : str) (p : P).
  Hypothesis Hpath : forall X, path (ptxt ++ 32 :: X) = Some (p, 32 :: X).

  Lemma cmpexp_pres : forall r, cmpexp path mkP mkC (ptxt ++ 32 :: k_pr ++ r) = Ok (mkP p) r.
  Proof. intros r. unfold cmpexp. rewrite Hpath. reflexivity. Qed.

  Lemma cmpexp_cmp : forall o v r, jv_ok v = true -> rok r ->
    cmpexp path mkP mkC (ptxt ++ 32 :: op_txt o ++ 32 :: print_jv v ++ r) = Ok (mkC o p v) r.
  Proof.
    intros o v r Hv Hr. unfold cmpexp. rewrite Hpath.
    assert (Hs : seps1 (32 :: print_jv v ++ r) = Some (print_jv v ++ r)).
    { apply seps1_space. destruct (print_jv_head v Hv) as [c [t [He Hc]]]. rewrite He. exact Hc. }
    destruct o; cbn [op_txt app]; (rewrite seps1_space by reflexivity).
    all: match goal with |- context [op_of ?a ?b] =>
           let x := eval vm_compute in (op_of a b) in change (op_of a b) with x end.
    all: cbv iota; rewrite Hs, (pvalue_print v r Hv Hr); reflexivity.
  Qed.
End CmpExp.

(* ------------------------------------------------------------------ the `not` alternative on a name *)
Lemma lit_not_inv : forall s s1, lit k_not s = Some s1 -> s = 110 :: 111 :: 116 :: s1.
Proof.
  intros s s1 H. unfold k_not in H.
  destruct s as [|a s]; cbn [lit] in H; [discriminate|].
  destruct (N.eqb_spec 110 a) as [<-|]; [|discriminate].
  destruct s as [|b s]; cbn [lit] in H; [discriminate|].
  destruct (N.eqb_spec 111 b) as [<-|]; [|discriminate].
  destruct s as [|c s]; cbn [lit] in H; [discriminate|].
  destruct (N.eqb_spec 116 c) as [<-|]; [|discriminate].
  injection H as <-. reflexivity.
Qed.
Lemma seps1_inv : forall s s2, seps1 s = Some s2 -> exists c t, s = c :: t /\ is_sep c = true /\ s2 = snd (span is_sep t).
Proof.
  intros [|c t] s2 H; cbn in H; [discriminate|]. destruct (is_sep c) eqn:E; [|discriminate].
  injection H as <-. exists c, t. repeat split. exact E.
Qed.

Section NotName.
  Context {T : Type}.
  Variables (mk : T -> T) (pd : str -> res T).
  (* `name d X` where d cannot continue a name and, if d is a separator, X does not go on with
     more separators and a parenthesis *)
  Lemma atom_not_name : forall name d X,
    name_chars name -> is_namech d = false ->
    (is_sep d = true -> stops (fun c => is_sep c || (c =? 40)) X) ->
    atom_not mk pd (name ++ d :: X) = Fail.
  Proof.
    intros name d X Hn Hd HX. unfold atom_not.
    destruct (lit k_not (name ++ d :: X)) as [s1|] eqn:E; [|reflexivity].
    apply lit_not_inv in E. destruct (seps1 s1) as [s2|] eqn:E2; [|reflexivity].
    apply seps1_inv in E2 as [c [t [-> [Hc ->]]]].
    destruct name as [|c1 [|c2 [|c3 [|c4 t4]]]]; [destruct Hn| | | |]; cbn [app] in E.
    - injection E as _ E _. subst d. discriminate Hd.
    - injection E as _ _ E _. subst d. discriminate Hd.
    - injection E as _ _ _ E1 E2. subst c t. specialize (HX Hc).
      destruct X as [|x X']; [reflexivity|]. cbn in HX. apply orb_false_iff in HX as [H1 H2].
      cbn [span]. rewrite H1. cbn [snd eat]. rewrite H2. reflexivity.
    - injection E as _ _ _ E1 _. subst c4. destruct Hn as [_ Hn]. cbn in Hn.
      apply andb_true_iff in Hn as [_ Hn]. apply andb_true_iff in Hn as [_ Hn].
      apply andb_true_iff in Hn as [Hn _]. rewrite (namech_not_sep c Hn) in Hc. discriminate.
  Qed.
End NotName.

(* ------------------------------------------------------------------ the climbing loop *)
Section ClimbFacts.
  Context {T : Type}.
  Variables (mkOr mkAnd : T -> T -> T) (atom : str -> res T).

  (* an operand text: starts with a non-separator and is parsed by `atom` whatever legal text follows *)
  Definition good (t : str) (x : T) : Prop :=
    (exists c t', t = c :: t' /\ is_sep c = false) /\ forall r, rok r -> atom (t ++ r) = Ok x r.
  (* after the last operand: end of input, or a bracket / parenthesis *)
  Definition rest_ok (r : str) : Prop :=
    match r with [] => True | c :: _ => is_oper c = true /\ is_sep c = false end.
  Lemma rest_ok_rok : forall r, rest_ok r -> rok r.
  Proof. intros [|c r] H; cbn; [exact I|]. destruct H as [H _]. rewrite H. reflexivity. Qed.
  Lemma rest_ok_stops : forall r, rest_ok r -> stops is_sep r.
  Proof. intros [|c r] H; cbn; [exact I|]. apply H. Qed.

  Definition glink := (str * str * str * T)%type.      (* sepA, sepB, operand text, operand *)
  Definition glink_ok (l : glink) : Prop :=
    let '(sa, sb, t, x) := l in sep_ok sa = true /\ sep_ok sb = true /\ good t x.
  Definition glink_txt (kw : str) (l : glink) : str := let '(sa, sb, t, x) := l in sa ++ kw ++ sb ++ t.
  Definition gval (l : glink) : T := snd l.

  Lemma sep_ok_head : forall sa, sep_ok sa = true -> exists c t, sa = c :: t /\ is_sep c = true.
  Proof.
    intros [|c t] H; cbn in H; [discriminate|]. apply andb_true_iff in H as [H _].
    exists c, t. split; [reflexivity | exact H].
  Qed.
  Lemma sep_rok : forall sa r, sep_ok sa = true -> rok (sa ++ r).
  Proof.
    intros sa r H. destruct (sep_ok_head sa H) as [c [t [-> Hc]]]. cbn. rewrite (sep_oper c Hc). reflexivity.
  Qed.

  (* sepA kw sepB operand: one successful infix step *)
  Lemma infix_tail_ok : forall kw (rhs : str -> res T) sa sb t r,
    (exists k kt, kw = k :: kt /\ is_sep k = false) ->
    sep_ok sa = true -> sep_ok sb = true -> (exists c t', t = c :: t' /\ is_sep c = false) ->
    infix_tail kw rhs (sa ++ kw ++ sb ++ t ++ r) = rhs (t ++ r).
  Proof.
    intros kw rhs sa sb t r [k [kt [-> Hk]]] Hsa Hsb [c [t' [-> Hc]]]. unfold infix_tail.
    rewrite (seps1_run sa _ Hsa) by (cbn; exact Hk).
    rewrite lit_app. rewrite (seps1_run sb _ Hsb) by (cbn; exact Hc). reflexivity.
  Qed.
  (* a different keyword follows the separators *)
  Lemma infix_tail_other : forall kw kw' (rhs : str -> res T) sa r,
    sep_ok sa = true -> (exists k kt, kw' = k :: kt /\ is_sep k = false) ->
    lit kw (kw' ++ r) = None -> infix_tail kw rhs (sa ++ kw' ++ r) = Fail.
  Proof.
    intros kw kw' rhs sa r Hsa [k [kt [-> Hk]]] Hl. unfold infix_tail.
    rewrite (seps1_run sa _ Hsa) by (cbn; exact Hk). rewrite Hl. reflexivity.
  Qed.
  Lemma infix_tail_end : forall kw (rhs : str -> res T) r, stops is_sep r -> infix_tail kw rhs r = Fail.
  Proof. intros kw rhs r H. unfold infix_tail. rewrite (seps1_none r H). reflexivity. Qed.

  Definition and_stop (r : str) : Prop := infix_tail k_and atom r = Fail.

  Lemma loop_and_chain : forall links k acc r,
    Forall glink_ok links -> and_stop r -> rok r ->
    loop_and mkAnd atom (length links + S k) acc (flat_map (glink_txt k_and) links ++ r)
    = Ok (fold_left (fun a l => mkAnd a (gval l)) links acc) r.
  Proof.
    induction links as [|[[[sa sb] t] x] links IH]; intros k acc r Hl Hs Hr.
    - cbn [length plus flat_map app fold_left loop_and]. rewrite Hs. reflexivity.
    - inversion Hl as [|? ? Hok Hl']; subst. destruct Hok as [Hsa [Hsb [Hh Hg]]].
      cbn [length plus flat_map glink_txt fold_left gval snd]. cbn [loop_and].
      repeat rewrite <- app_assoc.
      rewrite (infix_tail_ok k_and atom sa sb t _ ltac:(exists 97, (tl k_and); split; reflexivity) Hsa Hsb Hh).
      rewrite Hg.
      + apply IH; assumption.
      + destruct links as [|[[[sa' sb'] t'] x'] links'].
        * exact Hr.
        * cbn [flat_map glink_txt]. repeat rewrite <- app_assoc. apply sep_rok.
          inversion Hl' as [|? ? Hok' _]. destruct Hok' as [H1 _]. exact H1.
  Qed.

  Lemma flat_len : forall kw (links : list glink), Forall glink_ok links ->
    (length links <= length (flat_map (glink_txt kw) links))%nat.
  Proof.
    intros kw links H. induction H as [|[[[sa sb] t] x] links Hok _ IH]; [apply Nat.le_refl|].
    destruct Hok as [Hsa _].
    cbn [flat_map glink_txt length]. destruct (sep_ok_head sa Hsa) as [c [t' [-> _]]].
    cbn [app length]. rewrite app_length. lia.
  Qed.

  (* p1 = __infix_parse at min_prec 1 on an and-chain *)
  Lemma p1_chain : forall t x links r,
    good t x -> Forall glink_ok links -> and_stop r -> rok r ->
    p1 mkAnd atom (t ++ flat_map (glink_txt k_and) links ++ r)
    = Ok (fold_left (fun a l => mkAnd a (gval l)) links x) r.
  Proof.
    intros t x links r [Hh Hg] Hl Hs Hr. unfold p1. rewrite Hg.
    - pose proof (flat_len k_and links Hl) as Hlen.
      set (n := length (flat_map (glink_txt k_and) links ++ r)).
      assert (Hn : (length links <= n)%nat) by (unfold n; rewrite app_length; lia).
      replace (S n) with (length links + S (n - length links))%nat by lia.
      apply loop_and_chain; assumption.
    - destruct links as [|[[[sa' sb'] t'] x'] links'].
      + exact Hr.
      + cbn [flat_map glink_txt]. repeat rewrite <- app_assoc. apply sep_rok.
        inversion Hl as [|? ? Hok' _]. destruct Hok' as [H1 _]. exact H1.
  Qed.

  Definition gchain := (str * T * list glink)%type.
  Definition gchain_ok (c : gchain) : Prop := let '(t, x, links) := c in good t x /\ Forall glink_ok links.
  Definition gchain_txt (c : gchain) : str := let '(t, x, links) := c in t ++ flat_map (glink_txt k_and) links.
  Definition gchain_val (c : gchain) : T :=
    let '(t, x, links) := c in fold_left (fun a l => mkAnd a (gval l)) links x.
  Definition golink := (str * str * gchain)%type.
  Definition golink_ok (l : golink) : Prop :=
    let '(sa, sb, c) := l in sep_ok sa = true /\ sep_ok sb = true /\ gchain_ok c.
  Definition golink_txt (l : golink) : str := let '(sa, sb, c) := l in sa ++ k_or ++ sb ++ gchain_txt c.

  Lemma links_rok : forall (links : list glink) tail, Forall glink_ok links -> rok tail ->
    rok (flat_map (glink_txt k_and) links ++ tail).
  Proof.
    intros [|[[[sa sb] t] x] links] tail Hl Ht; [exact Ht|].
    cbn [flat_map glink_txt]. repeat rewrite <- app_assoc. apply sep_rok.
    inversion Hl as [|? ? Hok _]. destruct Hok as [H1 _]. exact H1.
  Qed.
  Lemma ors_rok : forall (ors : list golink) r, Forall golink_ok ors -> rok r ->
    rok (flat_map golink_txt ors ++ r).
  Proof.
    intros [|[[sa sb] c] ors] r Hl Ht; [exact Ht|].
    cbn [flat_map golink_txt]. repeat rewrite <- app_assoc. apply sep_rok.
    inversion Hl as [|? ? Hok _]. destruct Hok as [H1 _]. exact H1.
  Qed.

  (* level-1 steps taken by the level-0 loop (the and-links that precede the first `or`) *)
  Lemma loop_or_ands : forall links k acc tail,
    Forall glink_ok links -> rok tail ->
    loop_or mkOr mkAnd atom (length links + k) acc (flat_map (glink_txt k_and) links ++ tail)
    = loop_or mkOr mkAnd atom k (fold_left (fun a l => mkAnd a (gval l)) links acc) tail.
  Proof.
    induction links as [|[[[sa sb] t] x] links IH]; intros k acc tail Hl Ht; [reflexivity|].
    inversion Hl as [|? ? Hok Hl']; subst. destruct Hok as [Hsa [Hsb [Hh Hg]]].
    cbn [length plus flat_map glink_txt fold_left gval snd]. cbn [loop_or].
    repeat rewrite <- app_assoc.
    rewrite (infix_tail_other k_or k_and (p1 mkAnd atom) sa _ Hsa
               ltac:(exists 97, (tl k_and); split; reflexivity) ltac:(reflexivity)).
    rewrite (infix_tail_ok k_and atom sa sb t _ ltac:(exists 97, (tl k_and); split; reflexivity) Hsa Hsb Hh).
    rewrite Hg by (apply links_rok; assumption).
    apply IH; assumption.
  Qed.

  Lemma loop_or_ors : forall ors k acc r,
    Forall golink_ok ors -> rest_ok r ->
    loop_or mkOr mkAnd atom (length ors + S k) acc (flat_map golink_txt ors ++ r)
    = Ok (fold_left (fun a (l : golink) => mkOr a (gchain_val (snd l))) ors acc) r.
  Proof.
    induction ors as [|[[sa sb] [[t x] links]] ors IH]; intros k acc r Hl Hr.
    - cbn [length plus flat_map app fold_left loop_or].
      rewrite (infix_tail_end k_or _ r (rest_ok_stops r Hr)), (infix_tail_end k_and _ r (rest_ok_stops r Hr)).
      reflexivity.
    - inversion Hl as [|? ? Hok Hl']; subst. destruct Hok as [Hsa [Hsb [[Hh Hg] Hlinks]]].
      cbn [length plus flat_map golink_txt gchain_txt fold_left snd gchain_val]. cbn [loop_or].
      repeat rewrite <- app_assoc.
      rewrite (infix_tail_ok k_or (p1 mkAnd atom) sa sb t _ ltac:(exists 111, (tl k_or); split; reflexivity) Hsa Hsb Hh).
      rewrite (p1_chain t x links (flat_map golink_txt ors ++ r) (conj Hh Hg) Hlinks).
      + apply IH; assumption.
      + destruct ors as [|[[sa' sb'] c'] ors'].
        * apply infix_tail_end, rest_ok_stops, Hr.
        * cbn [flat_map golink_txt]. repeat rewrite <- app_assoc.
          inversion Hl' as [|? ? Hok' _]. destruct Hok' as [H1 _].
          apply infix_tail_other; [exact H1 | exists 111, (tl k_or); split; reflexivity | reflexivity].
      + apply ors_rok; [exact Hl' | apply rest_ok_rok, Hr].
  Qed.

  Lemma oflat_len : forall (ors : list golink), Forall golink_ok ors ->
    (length ors <= length (flat_map golink_txt ors))%nat.
  Proof.
    intros ors H. induction H as [|[[sa sb] c] ors Hok _ IH]; [apply Nat.le_refl|].
    destruct Hok as [Hsa _].
    cbn [flat_map golink_txt length]. destruct (sep_ok_head sa Hsa) as [c0 [t' [-> _]]].
    cbn [app length]. rewrite app_length. lia.
  Qed.

  (* p0 = __infix_parse at min_prec 0: or-separated and-chains *)
  Lemma p0_expr : forall (c0 : gchain) (ors : list golink) r,
    gchain_ok c0 -> Forall golink_ok ors -> rest_ok r ->
    p0 mkOr mkAnd atom (gchain_txt c0 ++ flat_map golink_txt ors ++ r)
    = Ok (fold_left (fun a (l : golink) => mkOr a (gchain_val (snd l))) ors (gchain_val c0)) r.
  Proof.
    intros [[t x] links] ors r [[Hh Hg] Hl] Ho Hr. cbn [gchain_txt gchain_val]. unfold p0.
    rewrite <- app_assoc. rewrite Hg.
    - pose proof (flat_len k_and links Hl) as L1. pose proof (oflat_len ors Ho) as L2.
      set (n := length (flat_map (glink_txt k_and) links ++ flat_map golink_txt ors ++ r)).
      assert (Hn : (length links + length ors <= n)%nat) by (unfold n; repeat rewrite app_length; lia).
      replace (S n) with (length links + (length ors + S (n - length links - length ors)))%nat by lia.
      rewrite loop_or_ands; [|exact Hl | apply ors_rok; [exact Ho | apply rest_ok_rok, Hr]].
      apply loop_or_ors; assumption.
    - apply links_rok; [exact Hl|]. apply ors_rok; [exact Ho | apply rest_ok_rok, Hr].
  Qed.

  (* a single operand followed by the end / a bracket *)
  Lemma p0_single : forall s x r, atom s = Ok x r -> stops is_sep r -> p0 mkOr mkAnd atom s = Ok x r.
  Proof.
    intros s x r H Hr. unfold p0. rewrite H. cbn [loop_or].
    rewrite (infix_tail_end k_or _ r Hr), (infix_tail_end k_and _ r Hr). reflexivity.
  Qed.
  Lemma p0_fail : forall s, atom s = Fail -> p0 mkOr mkAnd atom s = Fail.
  Proof. intros s H. unfold p0. rewrite H. reflexivity. Qed.

  (* the two printed binary forms *)
  Lemma p0_binary_or : forall ta a tb b r, good ta a -> good tb b -> rest_ok r ->
    p0 mkOr mkAnd atom (ta ++ t_or ++ tb ++ r) = Ok (mkOr a b) r.
  Proof.
    intros ta a tb b r Ha Hb Hr.
    pose proof (p0_expr (ta, a, []) [([32], [32], (tb, b, []))] r) as H.
    cbn [gchain_txt gchain_val flat_map golink_txt fold_left snd app] in H.
    repeat rewrite app_nil_r in H. rewrite <- app_assoc in H. apply H; [split; [exact Ha|constructor] | | exact Hr].
    constructor; [|constructor]. split; [reflexivity|]. split; [reflexivity|]. split; [exact Hb | constructor].
  Qed.
  Lemma p0_binary_and : forall ta a tb b r, good ta a -> good tb b -> rest_ok r ->
    p0 mkOr mkAnd atom (ta ++ t_and ++ tb ++ r) = Ok (mkAnd a b) r.
  Proof.
    intros ta a tb b r Ha Hb Hr.
    pose proof (p0_expr (ta, a, [([32], [32], tb, b)]) [] r) as H.
    cbn [gchain_txt gchain_val flat_map glink_txt fold_left snd app gval] in H.
    repeat rewrite app_nil_r in H. repeat rewrite <- app_assoc in H. apply H; [split; [exact Ha|] | constructor | exact Hr].
    constructor; [|constructor]. split; [reflexivity|]. split; [reflexivity|]. exact Hb.
  Qed.
End ClimbFacts.

(* ------------------------------------------------------------------ printed forms, flattened *)
Lemma print_pres_app : forall n r, print_pres n ++ r = 40 :: n ++ 32 :: k_pr ++ 41 :: r.
Proof. intros n r. unfold print_pres. cbn [app]. rewrite <- app_assoc. reflexivity. Qed.
Lemma print_cmp_app : forall n o v r,
  print_cmp n o v ++ r = 40 :: n ++ 32 :: op_txt o ++ 32 :: print_jv v ++ 41 :: r.
Proof.
  intros n o v r. unfold print_cmp. cbn [app]. rewrite <- app_assoc. cbn [app].
  rewrite <- app_assoc. cbn [app]. rewrite <- app_assoc. reflexivity.
Qed.
Lemma op_txt_stops : forall o X, stops (fun c => is_sep c || (c =? 40)) (op_txt o ++ X).
Proof. intros o X. destruct o; reflexivity. Qed.
Lemma rok_41 : forall r, rok (41 :: r). Proof. intros r. reflexivity. Qed.
Lemma rest_ok_41 : forall r, rest_ok (41 :: r). Proof. intros r. split; reflexivity. Qed.
Lemma rest_ok_93 : forall r, rest_ok (93 :: r). Proof. intros r. split; reflexivity. Qed.

(* ------------------------------------------------------------------ complex filters *)
Lemma atoms_c_open : forall pcd s, atoms_c pcd (40 :: s) = close 41 (fun e => e) (pcd s).
Proof. intros pcd s. reflexivity. Qed.

Lemma atoms_c_pres : forall pcd s r, name_ok sub_known s = true ->
  atoms_c pcd (s ++ 32 :: k_pr ++ r) = Ok (CPres s) r.
Proof.
  intros pcd s r Hs. unfold atoms_c.
  rewrite (atom_not_name CNot pcd s 32 (k_pr ++ r)); [| apply (name_ok_chars _ _ Hs) | reflexivity | intros _; reflexivity].
  unfold orelse at 1.
  rewrite (cmpexp_pres subattr CPres (fun o p v => CCmp o p v) s s (fun X => subattr_print s X Hs)).
  reflexivity.
Qed.
Lemma atoms_c_cmp : forall pcd o s v r, name_ok sub_known s = true -> jv_ok v = true -> rok r ->
  atoms_c pcd (s ++ 32 :: op_txt o ++ 32 :: print_jv v ++ r) = Ok (CCmp o s v) r.
Proof.
  intros pcd o s v r Hs Hv Hr. unfold atoms_c.
  rewrite (atom_not_name CNot pcd s 32 _); [| apply (name_ok_chars _ _ Hs) | reflexivity | intros _; apply op_txt_stops].
  unfold orelse at 1.
  rewrite (cmpexp_cmp subattr CPres (fun o p v => CCmp o p v) s s (fun X => subattr_print s X Hs) o v r Hv Hr).
  reflexivity.
Qed.
Lemma print_c_head : forall c, exists t, print_c c = 40 :: t.
Proof. intros [a b|a b|a|s|o s v]; eexists; reflexivity. Qed.

Lemma atoms_c_not : forall pcd s, 
  atoms_c pcd (110 :: 111 :: 116 :: 32 :: 40 :: s) =
  orelse (close 41 CNot (pcd s))
    (orelse (cmpexp subattr CPres (fun o p v => CCmp o p v) (110 :: 111 :: 116 :: 32 :: 40 :: s)) (atom_paren pcd))
    (110 :: 111 :: 116 :: 32 :: 40 :: s).
Proof. intros. reflexivity. Qed.

Lemma parse_print_c : forall c, valid_c c = true ->
  forall m r, (need_c c <= m)%nat -> atoms_c (pdepth_c m) (print_c c ++ r) = Ok c r.
Proof.
  induction c as [a IHa b IHb|a IHa b IHb|a IHa|s|o s v]; intros Hv m r Hm; cbn [valid_c] in Hv; cbn [need_c] in Hm.
  - apply andb_true_iff in Hv as [Hva Hvb]. destruct m as [|m]; [lia|].
    cbn [print_c app]. repeat rewrite <- app_assoc. cbn [app]. rewrite atoms_c_open. cbn [pdepth_c].
    rewrite (p0_binary_or COr CAnd _ (print_c a) a (print_c b) b (41 :: r)).
    + reflexivity.
    + split; [destruct (print_c_head a) as [t ->]; exists 40, t; split; reflexivity|].
      intros r' _. apply IHa; [exact Hva | lia].
    + split; [destruct (print_c_head b) as [t ->]; exists 40, t; split; reflexivity|].
      intros r' _. apply IHb; [exact Hvb | lia].
    + apply rest_ok_41.
  - apply andb_true_iff in Hv as [Hva Hvb]. destruct m as [|m]; [lia|].
    cbn [print_c app]. repeat rewrite <- app_assoc. cbn [app]. rewrite atoms_c_open. cbn [pdepth_c].
    rewrite (p0_binary_and COr CAnd _ (print_c a) a (print_c b) b (41 :: r)).
    + reflexivity.
    + split; [destruct (print_c_head a) as [t ->]; exists 40, t; split; reflexivity|].
      intros r' _. apply IHa; [exact Hva | lia].
    + split; [destruct (print_c_head b) as [t ->]; exists 40, t; split; reflexivity|].
      intros r' _. apply IHb; [exact Hvb | lia].
    + apply rest_ok_41.
  - destruct m as [|[|m]]; [lia|lia|].
    cbn [print_c]. unfold t_not, t_notend. cbn [app]. rewrite <- app_assoc. cbn [app].
    rewrite atoms_c_open. cbn [pdepth_c].
    rewrite (p0_single COr CAnd _ _ (CNot a) (41 :: r)); [reflexivity| |reflexivity].
    rewrite atoms_c_not. cbn [pdepth_c].
    rewrite (p0_single COr CAnd _ _ a (41 :: 41 :: r)); [reflexivity| |reflexivity].
    apply IHa; [exact Hv | lia].
  - destruct m as [|m]; [lia|]. cbn [print_c]. rewrite print_pres_app, atoms_c_open. cbn [pdepth_c].
    rewrite (p0_single COr CAnd _ _ (CPres s) (41 :: r)); [reflexivity| |reflexivity].
    apply atoms_c_pres. exact Hv.
  - apply andb_true_iff in Hv as [Hs Hjv]. destruct m as [|m]; [lia|].
    cbn [print_c]. rewrite print_cmp_app, atoms_c_open. cbn [pdepth_c].
    rewrite (p0_single COr CAnd _ _ (CCmp o s v) (41 :: r)); [reflexivity| |reflexivity].
    apply atoms_c_cmp; [exact Hs | exact Hjv | apply rok_41].
Qed.

(* ------------------------------------------------------------------ filters *)
Lemma atoms_f_open : forall pd pcd s, atoms_f pd pcd (40 :: s) = close 41 (fun e => e) (pd s).
Proof. intros pd pcd s. reflexivity. Qed.

(* `path op ...` : the not- and complex-alternatives fail, attrexp decides *)
Lemma path_shape : forall p X, path_ok p = true -> stops (fun c => is_sep c || (c =? 40)) X ->
  exists a d Y, print_path p ++ 32 :: X = a ++ d :: Y /\ name_chars a /\ is_namech d = false /\
                (d =? 91) = false /\ (is_sep d = true -> stops (fun c => is_sep c || (c =? 40)) Y).
Proof.
  intros [a [s|]] X H HX; unfold path_ok in H; cbn [fst snd] in H; apply andb_true_iff in H as [Ha Hs];
    apply name_ok_chars in Ha as [Hac _]; cbn [print_path].
  - exists a, 46, (s ++ 32 :: X). rewrite <- app_assoc. cbn [app]. repeat split; try assumption. discriminate.
  - exists a, 32, X. repeat split; try assumption. intros _. exact HX.
Qed.
Lemma atoms_f_skip : forall pd pcd a d Y,
  name_chars a -> is_namech d = false -> (d =? 91) = false ->
  (is_sep d = true -> stops (fun c => is_sep c || (c =? 40)) Y) ->
  atoms_f pd pcd (a ++ d :: Y) =
  orelse (cmpexp attrpath SPres (fun o p v => SCmp o p v) (a ++ d :: Y)) (atom_paren pd) (a ++ d :: Y).
Proof.
  intros pd pcd a d Y Ha Hd H91 HY. unfold atoms_f.
  rewrite (atom_not_name SNot pd a d Y Ha Hd HY). unfold orelse at 1.
  unfold atom_complex. rewrite (attrstring_name a (d :: Y) Ha) by exact Hd.
  cbn [eat]. rewrite H91. reflexivity.
Qed.
Lemma atoms_f_pres : forall pd pcd p r, path_ok p = true ->
  atoms_f pd pcd (print_path p ++ 32 :: k_pr ++ r) = Ok (SPres p) r.
Proof.
  intros pd pcd p r Hp.
  destruct (path_shape p (k_pr ++ r) Hp ltac:(reflexivity)) as [a [d [Y [E [Ha [Hd [H91 HY]]]]]]].
  rewrite E, (atoms_f_skip pd pcd a d Y Ha Hd H91 HY), <- E.
  rewrite (cmpexp_pres attrpath SPres (fun o p v => SCmp o p v) (print_path p) p (fun X => attrpath_print p X Hp)).
  reflexivity.
Qed.
Lemma atoms_f_cmp : forall pd pcd o p v r, path_ok p = true -> jv_ok v = true -> rok r ->
  atoms_f pd pcd (print_path p ++ 32 :: op_txt o ++ 32 :: print_jv v ++ r) = Ok (SCmp o p v) r.
Proof.
  intros pd pcd o p v r Hp Hv Hr.
  destruct (path_shape p (op_txt o ++ 32 :: print_jv v ++ r) Hp (op_txt_stops o _)) as [a [d [Y [E [Ha [Hd [H91 HY]]]]]]].
  rewrite E, (atoms_f_skip pd pcd a d Y Ha Hd H91 HY), <- E.
  rewrite (cmpexp_cmp attrpath SPres (fun o p v => SCmp o p v) (print_path p) p (fun X => attrpath_print p X Hp) o v r Hv Hr).
  reflexivity.
Qed.
Lemma atoms_f_complex : forall pd pcd n X, name_ok attr_known n = true ->
  atoms_f pd pcd (n ++ 91 :: X) = 
  orelse (close 93 (fun e => SComplex n e) (pcd X))
    (orelse (cmpexp attrpath SPres (fun o p v => SCmp o p v) (n ++ 91 :: X)) (atom_paren pd)) (n ++ 91 :: X).
Proof.
  intros pd pcd n X Hn. apply name_ok_chars in Hn as [Hc Hnorm]. unfold atoms_f.
  rewrite (atom_not_name SNot pd n 91 X Hc ltac:(reflexivity) ltac:(discriminate)). unfold orelse at 1.
  unfold atom_complex. rewrite (attrstring_name n (91 :: X) Hc) by reflexivity.
  cbn [eat]. change (91 =? 91) with true. cbv iota. unfold attr_from. rewrite Hnorm. reflexivity.
Qed.
Lemma atoms_f_not : forall pd pcd s,
  atoms_f pd pcd (110 :: 111 :: 116 :: 32 :: 40 :: s) =
  orelse (close 41 SNot (pd s))
    (orelse (atom_complex pcd (110 :: 111 :: 116 :: 32 :: 40 :: s))
      (orelse (cmpexp attrpath SPres (fun o p v => SCmp o p v) (110 :: 111 :: 116 :: 32 :: 40 :: s)) (atom_paren pd)))
    (110 :: 111 :: 116 :: 32 :: 40 :: s).
Proof. intros. reflexivity. Qed.

Lemma print_head : forall f, valid f = true -> exists c t, print f = c :: t /\ is_sep c = false.
Proof.
  intros [a b|a b|a|p|o p v|n c] H; try (eexists; eexists; split; reflexivity).
  cbn [valid] in H. apply andb_true_iff in H as [Hn _]. apply name_ok_chars in Hn as [Hc _].
  destruct (name_chars_head n Hc) as [c0 [t [-> Ha]]]. cbn [print app].
  exists c0, (t ++ 91 :: print_c c ++ [93]). split; [reflexivity | apply alpha_not_sep, Ha].
Qed.

Lemma parse_print_f : forall f, valid f = true ->
  forall m r, (need f <= m)%nat -> atoms_f (pdepth m) (pdepth_c m) (print f ++ r) = Ok f r.
Proof.
  induction f as [a IHa b IHb|a IHa b IHb|a IHa|p|o p v|n c]; intros Hv m r Hm; cbn [valid] in Hv; cbn [need] in Hm.
  - apply andb_true_iff in Hv as [Hva Hvb]. destruct m as [|m]; [lia|].
    cbn [print app]. repeat rewrite <- app_assoc. cbn [app]. rewrite atoms_f_open. cbn [pdepth].
    rewrite (p0_binary_or SOr SAnd _ (print a) a (print b) b (41 :: r)).
    + reflexivity.
    + split; [apply print_head, Hva|]. intros r' _. apply IHa; [exact Hva | lia].
    + split; [apply print_head, Hvb|]. intros r' _. apply IHb; [exact Hvb | lia].
    + apply rest_ok_41.
  - apply andb_true_iff in Hv as [Hva Hvb]. destruct m as [|m]; [lia|].
    cbn [print app]. repeat rewrite <- app_assoc. cbn [app]. rewrite atoms_f_open. cbn [pdepth].
    rewrite (p0_binary_and SOr SAnd _ (print a) a (print b) b (41 :: r)).
    + reflexivity.
    + split; [apply print_head, Hva|]. intros r' _. apply IHa; [exact Hva | lia].
    + split; [apply print_head, Hvb|]. intros r' _. apply IHb; [exact Hvb | lia].
    + apply rest_ok_41.
  - destruct m as [|[|m]]; [lia|lia|].
    cbn [print]. unfold t_not, t_notend. cbn [app]. rewrite <- app_assoc. cbn [app].
    rewrite atoms_f_open. cbn [pdepth].
    rewrite (p0_single SOr SAnd _ _ (SNot a) (41 :: r)); [reflexivity| |reflexivity].
    rewrite atoms_f_not. cbn [pdepth].
    rewrite (p0_single SOr SAnd _ _ a (41 :: 41 :: r)); [reflexivity| |reflexivity].
    apply IHa; [exact Hv | lia].
  - destruct m as [|m]; [lia|]. cbn [print]. rewrite print_pres_app, atoms_f_open. cbn [pdepth].
    rewrite (p0_single SOr SAnd _ _ (SPres p) (41 :: r)); [reflexivity| |reflexivity].
    apply atoms_f_pres. exact Hv.
  - apply andb_true_iff in Hv as [Hp Hjv]. destruct m as [|m]; [lia|].
    cbn [print]. rewrite print_cmp_app, atoms_f_open. cbn [pdepth].
    rewrite (p0_single SOr SAnd _ _ (SCmp o p v) (41 :: r)); [reflexivity| |reflexivity].
    apply atoms_f_cmp; [exact Hp | exact Hjv | apply rok_41].
  - apply andb_true_iff in Hv as [Hn Hc]. destruct m as [|m]; [lia|].
    cbn [print]. rewrite <- app_assoc. cbn [app]. rewrite <- app_assoc. cbn [app].
    rewrite (atoms_f_complex _ _ n _ Hn). cbn [pdepth_c].
    rewrite (p0_single COr CAnd _ _ c (93 :: r)); [reflexivity| |reflexivity].
    apply parse_print_c; [exact Hc | lia].
Qed.

Lemma pdepth_S : forall m s, pdepth (S m) s = p0 SOr SAnd (atoms_f (pdepth m) (pdepth_c m)) s.
Proof. reflexivity. Qed.
Lemma pdepth_c_S : forall m s, pdepth_c (S m) s = p0 COr CAnd (atoms_c (pdepth_c m)) s.
Proof. reflexivity. Qed.

(* ScimFilter::from_str (Display f) = Ok f *)
Lemma roundtrip : forall f, valid f = true -> (print_depth f <= MAXD)%nat -> parse (print f) = POk f.
Proof.
  intros f Hv Hd. unfold print_depth, MAXD in Hd. unfold parse.
  change MAXD with (S 127). rewrite pdepth_S.
  rewrite (p0_single SOr SAnd _ _ f []); [reflexivity| |exact I].
  rewrite <- (app_nil_r (print f)) at 1. apply parse_print_f; [exact Hv | lia].
Qed.
Lemma roundtrip_c : forall c, valid_c c = true -> (S (need_c c) <= MAXD)%nat -> parse_complex (print_c c) = POk c.
Proof.
  intros c Hv Hd. unfold MAXD in Hd. unfold parse_complex.
  change MAXD with (S 127). rewrite pdepth_c_S.
  rewrite (p0_single COr CAnd _ _ c []); [reflexivity| |exact I].
  rewrite <- (app_nil_r (print_c c)) at 1. apply parse_print_c; [exact Hv | lia].
Qed.

(* ------------------------------------------------------------------ operands of and/or *)
Lemma strip_last : forall body, strip_parens (40 :: body ++ [41]) = body.
Proof. intros body. cbn [strip_parens]. apply removelast_last. Qed.

Lemma operand_good : forall x m, operand_ok x = true -> (need (fst x) <= m)%nat ->
  good (atoms_f (pdepth m) (pdepth_c m)) (operand_txt x) (fst x).
Proof.
  intros [f bare] m Hok Hm. unfold operand_ok in Hok. cbn [fst snd] in *.
  apply andb_true_iff in Hok as [Hv Hb].
  assert (Hprint : good (atoms_f (pdepth m) (pdepth_c m)) (print f) f).
  { split; [apply print_head, Hv|]. intros r _. apply parse_print_f; assumption. }
  destruct bare; [|exact Hprint]. cbn [negb orb] in Hb. unfold operand_txt. cbn [fst snd].
  destruct f as [a b|a b|a|p|o p v|n c]; try discriminate Hb; try exact Hprint.
  - (* bare not (x) *)
    cbn [need] in Hm. destruct m as [|m]; [lia|]. cbn [valid] in Hv.
    assert (E : print (SNot a) = 40 :: (110 :: 111 :: 116 :: 32 :: 40 :: print a ++ [41]) ++ [41]).
    { cbn [print]. unfold t_not, t_notend. cbn [app]. rewrite <- app_assoc. reflexivity. }
    rewrite E, strip_last. split; [exists 110; eexists; split; reflexivity|].
    intros r _. cbn [app]. rewrite <- app_assoc. cbn [app]. rewrite atoms_f_not. rewrite pdepth_S.
    rewrite (p0_single SOr SAnd _ _ a (41 :: r)); [reflexivity| |reflexivity].
    apply parse_print_f; [exact Hv | lia].
  - (* bare `path pr` *)
    cbn [valid] in Hv.
    assert (E : print (SPres p) = 40 :: (print_path p ++ 32 :: k_pr) ++ [41]).
    { cbn [print]. unfold print_pres. rewrite <- app_assoc. reflexivity. }
    rewrite E, strip_last. split.
    + pose proof Hv as Hp. unfold path_ok in Hp. apply andb_true_iff in Hp as [Hp _].
      apply name_ok_chars in Hp as [Hc _]. destruct (name_chars_head _ Hc) as [c0 [t [E0 Ha]]].
      destruct p as [a [s|]]; cbn [print_path fst] in *; rewrite E0; cbn [app];
        eexists; eexists; (split; [reflexivity | apply alpha_not_sep, Ha]).
    + intros r _. rewrite <- app_assoc. cbn [app]. apply atoms_f_pres. exact Hv.
  - (* bare `path op value` *)
    cbn [valid] in Hv. apply andb_true_iff in Hv as [Hp Hjv].
    assert (E : print (SCmp o p v) = 40 :: (print_path p ++ 32 :: op_txt o ++ 32 :: print_jv v) ++ [41]).
    { cbn [print]. unfold print_cmp. repeat (rewrite <- app_assoc; cbn [app]). reflexivity. }
    rewrite E, strip_last. split.
    + pose proof Hp as Hp'. unfold path_ok in Hp'. apply andb_true_iff in Hp' as [Hp' _].
      apply name_ok_chars in Hp' as [Hc _]. destruct (name_chars_head _ Hc) as [c0 [t [E0 Ha]]].
      destruct p as [a [s|]]; cbn [print_path fst] in *; rewrite E0; cbn [app];
        eexists; eexists; (split; [reflexivity | apply alpha_not_sep, Ha]).
    + intros r Hr. repeat (rewrite <- app_assoc; cbn [app]).
      apply atoms_f_cmp; assumption.
Qed.

Definition to_glink (l : link) : glink (T := filt) := let '(sa, sb, x) := l in (sa, sb, operand_txt x, fst x).
Definition to_gchain (c : chain) : gchain (T := filt) :=
  (operand_txt (fst c), fst (fst c), map to_glink (snd c)).
Definition to_golink (l : olink) : golink (T := filt) := let '(sa, sb, c) := l in (sa, sb, to_gchain c).

Lemma chain_txt_g : forall c, chain_txt c = gchain_txt (to_gchain c).
Proof.
  intros [x links]. unfold chain_txt, to_gchain, gchain_txt. cbn [fst snd]. f_equal.
  induction links as [|[[sa sb] y] links IH]; [reflexivity|]. cbn [flat_map map to_glink glink_txt link_txt].
  rewrite IH. repeat rewrite <- app_assoc. reflexivity.
Qed.
Lemma chain_sem_g : forall c, chain_sem c = gchain_val SAnd (to_gchain c).
Proof.
  intros [x links]. unfold chain_sem, to_gchain, gchain_val. cbn [fst snd].
  generalize (fst x). induction links as [|[[sa sb] y] links IH]; intros acc; [reflexivity|].
  cbn [map fold_left to_glink gval snd fst]. apply IH.
Qed.
Lemma expr_txt_g : forall c0 ors,
  expr_txt c0 ors = gchain_txt (to_gchain c0) ++ flat_map golink_txt (map to_golink ors) ++ [].
Proof.
  intros c0 ors. unfold expr_txt. rewrite chain_txt_g, app_nil_r. f_equal.
  induction ors as [|[[sa sb] c] ors IH]; [reflexivity|]. cbn [flat_map map to_golink golink_txt].
  rewrite IH, chain_txt_g. reflexivity.
Qed.
Lemma expr_sem_g : forall c0 ors,
  expr_sem c0 ors =
  fold_left (fun a (l : golink) => SOr a (gchain_val SAnd (snd l))) (map to_golink ors) (gchain_val SAnd (to_gchain c0)).
Proof.
  intros c0 ors. unfold expr_sem. rewrite chain_sem_g. generalize (gchain_val SAnd (to_gchain c0)).
  induction ors as [|[[sa sb] c] ors IH]; intros acc; [reflexivity|].
  cbn [map fold_left to_golink snd]. rewrite chain_sem_g. apply IH.
Qed.
Lemma chain_ok_g : forall c m, chain_ok c = true -> (chain_need c <= m)%nat ->
  gchain_ok (atoms_f (pdepth m) (pdepth_c m)) (to_gchain c).
Proof.
  intros [x links] m Hok Hm. unfold chain_ok in Hok. unfold chain_need in Hm. cbn [fst snd] in *.
  apply andb_true_iff in Hok as [Hx Hl]. unfold to_gchain, gchain_ok. cbn [fst snd].
  assert (H1 := Nat.le_trans _ _ _ (Nat.le_max_l _ _) Hm).
  assert (H2 := Nat.le_trans _ _ _ (Nat.le_max_r _ _) Hm).
  split; [apply operand_good; assumption|].
  apply list_max_le in H2. clear Hm H1 Hx.
  induction links as [|[[sa sb] y] links IH]; [constructor|].
  cbn [forallb link_ok] in Hl. apply andb_true_iff in Hl as [Hy Hl].
  apply andb_true_iff in Hy as [Hy Hy3]. apply andb_true_iff in Hy as [Hy1 Hy2].
  cbn [map] in H2. inversion H2 as [|? ? Hn H2']; subst. cbn [snd fst] in Hn.
  cbn [map to_glink]. constructor; [|apply IH; assumption].
  split; [exact Hy1|]. split; [exact Hy2|]. apply operand_good; assumption.
Qed.

Lemma precedence : forall c0 ors,
  chain_ok c0 = true -> forallb olink_ok ors = true -> (S (expr_need c0 ors) <= MAXD)%nat ->
  parse (expr_txt c0 ors) = POk (expr_sem c0 ors).
Proof.
  intros c0 ors H0 Ho Hn. unfold MAXD in Hn. unfold parse. change MAXD with (S 127). rewrite pdepth_S.
  rewrite expr_txt_g, expr_sem_g. unfold expr_need in Hn.
  assert (H1 : (chain_need c0 <= 127)%nat) by (pose proof (Nat.le_max_l (chain_need c0) (list_max (map (fun l : olink => chain_need (snd l)) ors))); lia).
  assert (H2 : (list_max (map (fun l : olink => chain_need (snd l)) ors) <= 127)%nat) by (pose proof (Nat.le_max_r (chain_need c0) (list_max (map (fun l : olink => chain_need (snd l)) ors))); lia).
  rewrite (p0_expr SOr SAnd (atoms_f (pdepth 127) (pdepth_c 127))); [reflexivity | apply chain_ok_g; assumption | | exact I].
  apply list_max_le in H2. clear Hn H1 H0.
  induction ors as [|[[sa sb] c] ors IH]; [constructor|].
  cbn [forallb olink_ok] in Ho. apply andb_true_iff in Ho as [Hc Ho].
  apply andb_true_iff in Hc as [Hc Hc3]. apply andb_true_iff in Hc as [Hc1 Hc2].
  cbn [map] in H2. inversion H2 as [|? ? Hn H2']; subst. cbn [snd] in Hn.
  cbn [map to_golink]. constructor; [|apply IH; assumption].
  split; [exact Hc1|]. split; [exact Hc2|]. apply chain_ok_g; assumption.
Qed.

(* ------------------------------------------------------------------ depth limit: rejection *)
Lemma opens_reject_c : forall d s, opens d s = true -> pdepth_c d s = Fail.
Proof.
  induction d as [|m IH]; intros s H; [reflexivity|].
  cbn [opens] in H. destruct s as [|x t]; cbn [eat] in H; [discriminate|].
  destruct (N.eqb_spec x 40) as [->|]; [|discriminate].
  rewrite pdepth_c_S. apply p0_fail. rewrite atoms_c_open, (IH t H). reflexivity.
Qed.
Lemma opens_reject : forall d s, opens d s = true -> pdepth d s = Fail.
Proof.
  induction d as [|m IH]; intros s H; [reflexivity|].
  cbn [opens] in H. destruct s as [|x t]; cbn [eat] in H; [discriminate|].
  destruct (N.eqb_spec x 40) as [->|]; [|discriminate].
  rewrite pdepth_S. apply p0_fail. rewrite atoms_f_open, (IH t H). reflexivity.
Qed.

Section RhsFail.
  Context {T : Type}.
  Variables (mkOr mkAnd : T -> T -> T) (atom : str -> res T).
  (* the left operand parses, the right one is rejected: the loop stops before the keyword *)
  Lemma p0_or_rhs_fail : forall ta a tb r,
    atom (ta ++ t_or ++ tb ++ r) = Ok a (t_or ++ tb ++ r) ->
    (exists c t', tb = c :: t' /\ is_sep c = false) -> atom (tb ++ r) = Fail ->
    p0 mkOr mkAnd atom (ta ++ t_or ++ tb ++ r) = Ok a (t_or ++ tb ++ r).
  Proof.
    intros ta a tb r Ha Hh Hb. unfold p0. rewrite Ha. cbn [loop_or].
    change (t_or ++ tb ++ r) with ([32] ++ k_or ++ [32] ++ tb ++ r).
    rewrite (infix_tail_ok k_or (p1 mkAnd atom) [32] [32] tb r
               ltac:(exists 111, (tl k_or); split; reflexivity) ltac:(reflexivity) ltac:(reflexivity) Hh).
    unfold p1 at 1. rewrite Hb.
    rewrite (infix_tail_other k_and k_or atom [32] _ ltac:(reflexivity)
               ltac:(exists 111, (tl k_or); split; reflexivity) ltac:(reflexivity)).
    reflexivity.
  Qed.
  Lemma p0_and_rhs_fail : forall ta a tb r,
    atom (ta ++ t_and ++ tb ++ r) = Ok a (t_and ++ tb ++ r) ->
    (exists c t', tb = c :: t' /\ is_sep c = false) -> atom (tb ++ r) = Fail ->
    p0 mkOr mkAnd atom (ta ++ t_and ++ tb ++ r) = Ok a (t_and ++ tb ++ r).
  Proof.
    intros ta a tb r Ha Hh Hb. unfold p0. rewrite Ha. cbn [loop_or].
    change (t_and ++ tb ++ r) with ([32] ++ k_and ++ [32] ++ tb ++ r).
    rewrite (infix_tail_other k_or k_and (p1 mkAnd atom) [32] _ ltac:(reflexivity)
               ltac:(exists 97, (tl k_and); split; reflexivity) ltac:(reflexivity)).
    rewrite (infix_tail_ok k_and atom [32] [32] tb r
               ltac:(exists 97, (tl k_and); split; reflexivity) ltac:(reflexivity) ltac:(reflexivity) Hh).
    rewrite Hb. reflexivity.
  Qed.
End RhsFail.

Lemma close_fail : forall {A B} c (mk : A -> B), close c mk Fail = Fail.
Proof. reflexivity. Qed.

Lemma too_deep_c : forall c, valid_c c = true ->
  forall m r, (m < need_c c)%nat -> atoms_c (pdepth_c m) (print_c c ++ r) = Fail.
Proof.
  induction c as [a IHa b IHb|a IHa b IHb|a IHa|s|o s v]; intros Hv m r Hm; cbn [valid_c] in Hv; cbn [need_c] in Hm.
  - apply andb_true_iff in Hv as [Hva Hvb].
    cbn [print_c app]. repeat rewrite <- app_assoc. cbn [app]. rewrite atoms_c_open.
    destruct m as [|m]; [reflexivity|]. rewrite pdepth_c_S.
    destruct (Nat.le_gt_cases (need_c a) m) as [Hle|Hgt].
    + rewrite (p0_or_rhs_fail COr CAnd _ (print_c a) a (print_c b) (41 :: r)); [reflexivity | | |].
      * apply parse_print_c; assumption.
      * destruct (print_c_head b) as [t ->]. exists 40, t. split; reflexivity.
      * apply IHb; [exact Hvb | lia].
    + rewrite p0_fail; [reflexivity|]. apply IHa; [exact Hva | lia].
  - apply andb_true_iff in Hv as [Hva Hvb].
    cbn [print_c app]. repeat rewrite <- app_assoc. cbn [app]. rewrite atoms_c_open.
    destruct m as [|m]; [reflexivity|]. rewrite pdepth_c_S.
    destruct (Nat.le_gt_cases (need_c a) m) as [Hle|Hgt].
    + rewrite (p0_and_rhs_fail COr CAnd _ (print_c a) a (print_c b) (41 :: r)); [reflexivity | | |].
      * apply parse_print_c; assumption.
      * destruct (print_c_head b) as [t ->]. exists 40, t. split; reflexivity.
      * apply IHb; [exact Hvb | lia].
    + rewrite p0_fail; [reflexivity|]. apply IHa; [exact Hva | lia].
  - cbn [print_c]. unfold t_not, t_notend. cbn [app]. rewrite <- app_assoc. cbn [app].
    rewrite atoms_c_open. destruct m as [|m]; [reflexivity|]. rewrite pdepth_c_S.
    rewrite p0_fail; [reflexivity|]. rewrite atoms_c_not.
    assert (Hin : pdepth_c m (print_c a ++ 41 :: 41 :: r) = Fail).
    { destruct m as [|m]; [reflexivity|]. rewrite pdepth_c_S. apply p0_fail. apply IHa; [exact Hv | lia]. }
    rewrite Hin. destruct (print_c_head a) as [t ->]. reflexivity.
  - destruct m as [|m]; [|lia]. cbn [print_c]. rewrite print_pres_app, atoms_c_open. reflexivity.
  - destruct m as [|m]; [|lia]. cbn [print_c]. rewrite print_cmp_app, atoms_c_open. reflexivity.
Qed.

Lemma too_deep_f : forall f, valid f = true ->
  forall m r, (m < need f)%nat -> atoms_f (pdepth m) (pdepth_c m) (print f ++ r) = Fail.
Proof.
  induction f as [a IHa b IHb|a IHa b IHb|a IHa|p|o p v|n c]; intros Hv m r Hm; cbn [valid] in Hv; cbn [need] in Hm.
  - apply andb_true_iff in Hv as [Hva Hvb].
    cbn [print app]. repeat rewrite <- app_assoc. cbn [app]. rewrite atoms_f_open.
    destruct m as [|m]; [reflexivity|]. rewrite pdepth_S.
    destruct (Nat.le_gt_cases (need a) m) as [Hle|Hgt].
    + rewrite (p0_or_rhs_fail SOr SAnd _ (print a) a (print b) (41 :: r)); [reflexivity | | |].
      * apply parse_print_f; assumption.
      * apply print_head, Hvb.
      * apply IHb; [exact Hvb | lia].
    + rewrite p0_fail; [reflexivity|]. apply IHa; [exact Hva | lia].
  - apply andb_true_iff in Hv as [Hva Hvb].
    cbn [print app]. repeat rewrite <- app_assoc. cbn [app]. rewrite atoms_f_open.
    destruct m as [|m]; [reflexivity|]. rewrite pdepth_S.
    destruct (Nat.le_gt_cases (need a) m) as [Hle|Hgt].
    + rewrite (p0_and_rhs_fail SOr SAnd _ (print a) a (print b) (41 :: r)); [reflexivity | | |].
      * apply parse_print_f; assumption.
      * apply print_head, Hvb.
      * apply IHb; [exact Hvb | lia].
    + rewrite p0_fail; [reflexivity|]. apply IHa; [exact Hva | lia].
  - cbn [print]. unfold t_not, t_notend. cbn [app]. rewrite <- app_assoc. cbn [app].
    rewrite atoms_f_open. destruct m as [|m]; [reflexivity|]. rewrite pdepth_S.
    rewrite p0_fail; [reflexivity|]. rewrite atoms_f_not.
    assert (Hin : pdepth m (print a ++ 41 :: 41 :: r) = Fail).
    { destruct m as [|m]; [reflexivity|]. rewrite pdepth_S. apply p0_fail. apply IHa; [exact Hv | lia]. }
    rewrite Hin. destruct (print_head a Hv) as [c0 [t [-> _]]]. reflexivity.
  - destruct m as [|m]; [|lia]. cbn [print]. rewrite print_pres_app, atoms_f_open. reflexivity.
  - destruct m as [|m]; [|lia]. cbn [print]. rewrite print_cmp_app, atoms_f_open. reflexivity.
  - apply andb_true_iff in Hv as [Hn Hc].
    cbn [print]. rewrite <- app_assoc. cbn [app]. rewrite <- app_assoc. cbn [app].
    rewrite (atoms_f_complex _ _ n _ Hn).
    assert (Hin : pdepth_c m (print_c c ++ 93 :: r) = Fail).
    { destruct m as [|m]; [reflexivity|]. rewrite pdepth_c_S. apply p0_fail. apply too_deep_c; [exact Hc | lia]. }
    rewrite Hin. rewrite close_fail. unfold orelse at 1.
    apply name_ok_chars in Hn as [Hch _].
    unfold cmpexp, attrpath. rewrite (attrstring_name n (91 :: _) Hch) by reflexivity.
    cbn [eat]. change (91 =? 46) with false. cbv iota. cbn [seps1]. change (is_sep 91) with false. cbv iota.
    unfold orelse. unfold atom_paren. destruct (name_chars_head n Hch) as [c0 [t [-> Ha]]].
    cbn [app eat]. rewrite (alpha_not c0 40 ltac:(reflexivity) Ha). reflexivity.
Qed.

Lemma too_deep : forall f, valid f = true -> (MAXD < print_depth f)%nat -> parse (print f) = PErr.
Proof.
  intros f Hv Hd. unfold print_depth, MAXD in Hd. unfold parse. change MAXD with (S 127). rewrite pdepth_S.
  rewrite p0_fail; [reflexivity|]. rewrite <- (app_nil_r (print f)). apply too_deep_f; [exact Hv | lia].
Qed.

(* ------------------------------------------------------------------ decidable equality is equality *)
Lemma jv_eqb_eq : forall a b, jv_eqb a b = true -> a = b.
Proof.
  intros [| x | x | x] [| y | y | y] H; cbn in H; try discriminate; try reflexivity.
  - apply Bool.eqb_prop in H. congruence.
  - apply Z.eqb_eq in H. congruence.
  - apply str_eqb_eq in H. congruence.
Qed.
Lemma jv_eqb_refl : forall a, jv_eqb a a = true.
Proof. intros [| x | x | x]; cbn; [reflexivity | apply Bool.eqb_reflx | apply Z.eqb_refl | apply str_eqb_refl]. Qed.
Lemma cmp_eqb_eq : forall a b, cmp_eqb a b = true -> a = b.
Proof. intros [] []; cbn; intros H; try discriminate; reflexivity. Qed.
Lemma cmp_eqb_refl : forall a, cmp_eqb a a = true.
Proof. intros []; reflexivity. Qed.
Lemma path_eqb_eq : forall a b, path_eqb a b = true -> a = b.
Proof.
  intros [a [s|]] [b [s'|]] H; unfold path_eqb in H; cbn [fst snd ostr_eqb] in H;
    apply andb_true_iff in H as [H1 H2]; try discriminate; apply str_eqb_eq in H1; subst.
  - apply str_eqb_eq in H2. subst. reflexivity.
  - reflexivity.
Qed.
Lemma path_eqb_refl : forall a, path_eqb a a = true.
Proof.
  intros [a [s|]]; unfold path_eqb; cbn [fst snd ostr_eqb]; rewrite str_eqb_refl; [apply str_eqb_refl | reflexivity].
Qed.
Lemma cfilt_eqb_eq : forall a b, cfilt_eqb a b = true -> a = b.
Proof.
  induction a as [a1 IH1 a2 IH2|a1 IH1 a2 IH2|a1 IH1|s|o s v]; intros [b1 b2|b1 b2|b1|s'|o' s' v'] H;
    cbn in H; try discriminate.
  - apply andb_true_iff in H as [H1 H2]. rewrite (IH1 _ H1), (IH2 _ H2). reflexivity.
  - apply andb_true_iff in H as [H1 H2]. rewrite (IH1 _ H1), (IH2 _ H2). reflexivity.
  - rewrite (IH1 _ H). reflexivity.
  - apply str_eqb_eq in H. congruence.
  - apply andb_true_iff in H as [H H3]. apply andb_true_iff in H as [H1 H2].
    apply cmp_eqb_eq in H1. apply str_eqb_eq in H2. apply jv_eqb_eq in H3. congruence.
Qed.
Lemma cfilt_eqb_refl : forall a, cfilt_eqb a a = true.
Proof.
  induction a as [a1 IH1 a2 IH2|a1 IH1 a2 IH2|a1 IH1|s|o s v]; cbn.
  - rewrite IH1, IH2. reflexivity.
  - rewrite IH1, IH2. reflexivity.
  - exact IH1.
  - apply str_eqb_refl.
  - rewrite cmp_eqb_refl, str_eqb_refl, jv_eqb_refl. reflexivity.
Qed.
Lemma filt_eqb_eq : forall a b, filt_eqb a b = true -> a = b.
Proof.
  induction a as [a1 IH1 a2 IH2|a1 IH1 a2 IH2|a1 IH1|p|o p v|n c]; intros [b1 b2|b1 b2|b1|p'|o' p' v'|n' c'] H;
    cbn in H; try discriminate.
  - apply andb_true_iff in H as [H1 H2]. rewrite (IH1 _ H1), (IH2 _ H2). reflexivity.
  - apply andb_true_iff in H as [H1 H2]. rewrite (IH1 _ H1), (IH2 _ H2). reflexivity.
  - rewrite (IH1 _ H). reflexivity.
  - apply path_eqb_eq in H. congruence.
  - apply andb_true_iff in H as [H H3]. apply andb_true_iff in H as [H1 H2].
    apply cmp_eqb_eq in H1. apply path_eqb_eq in H2. apply jv_eqb_eq in H3. congruence.
  - apply andb_true_iff in H as [H1 H2]. apply str_eqb_eq in H1. apply cfilt_eqb_eq in H2. congruence.
Qed.
Lemma filt_eqb_refl : forall a, filt_eqb a a = true.
Proof.
  induction a as [a1 IH1 a2 IH2|a1 IH1 a2 IH2|a1 IH1|p|o p v|n c]; cbn.
  - rewrite IH1, IH2. reflexivity.
  - rewrite IH1, IH2. reflexivity.
  - exact IH1.
  - apply path_eqb_refl.
  - rewrite cmp_eqb_refl, path_eqb_refl, jv_eqb_refl. reflexivity.
  - rewrite str_eqb_refl, cfilt_eqb_refl. reflexivity.
Qed.
Lemma pres_eqb_eq : forall {A} (e : A -> A -> bool), (forall x y, e x y = true -> x = y) ->
  forall a b, pres_eqb e a b = true -> a = b /\ a <> PUndef.
Proof.
  intros A e He [x| |] [y| |] H; cbn in H; try discriminate.
  - rewrite (He x y H). split; [reflexivity | discriminate].
  - split; [reflexivity | discriminate].
Qed.

(* ------------------------------------------------------------------ agreement transfers the property *)
Lemma parse_opens : forall s, opens MAXD s = true -> parse s = PErr.
Proof. intros s H. unfold parse. rewrite (opens_reject MAXD s H). reflexivity. Qed.
Lemma parse_complex_opens : forall s, opens MAXD s = true -> parse_complex s = PErr.
Proof. intros s H. unfold parse_complex. rewrite (opens_reject_c MAXD s H). reflexivity. Qed.

Lemma agree_implies_property : forall c, agree c = true -> pcheck c = true.
Proof.
  intros [f printed reparsed|c0 ors text r|text r|text r] H; cbn [agree] in H; cbn [pcheck].
  - apply andb_true_iff in H as [Hp H]. apply str_eqb_eq in Hp. subst printed.
    destruct (valid f) eqn:Hv; [|reflexivity].
    destruct (print_depth f <=? MAXD)%nat eqn:Hd.
    + apply Nat.leb_le in Hd. rewrite (roundtrip f Hv Hd) in H.
      destruct reparsed as [r|]; [|reflexivity]. apply andb_true_iff in H as [H1 H2].
      apply (pres_eqb_eq filt_eqb filt_eqb_eq) in H1 as [<- _]. cbn in H2. rewrite filt_eqb_refl in H2. discriminate.
    + apply Nat.leb_gt in Hd. rewrite (too_deep f Hv Hd) in H.
      destruct reparsed as [r|]; [|discriminate]. apply andb_true_iff in H as [H1 _].
      apply (pres_eqb_eq filt_eqb filt_eqb_eq) in H1 as [<- _]. reflexivity.
  - apply andb_true_iff in H as [Ht H].
    destruct (chain_ok c0 && forallb olink_ok ors && (S (expr_need c0 ors) <=? MAXD)%nat && str_eqb (expr_txt c0 ors) text) eqn:Hc; [|reflexivity].
    apply andb_true_iff in Hc as [Hc _]. apply andb_true_iff in Hc as [Hc Hn]. apply andb_true_iff in Hc as [Hc Ho].
    apply Nat.leb_le in Hn. apply str_eqb_eq in Ht. subst text.
    rewrite (precedence c0 ors Hc Ho Hn) in H.
    apply (pres_eqb_eq filt_eqb filt_eqb_eq) in H as [<- _]. cbn. apply filt_eqb_refl.
  - destruct (opens MAXD text) eqn:Ho; [|reflexivity]. rewrite (parse_opens text Ho) in H.
    apply (pres_eqb_eq filt_eqb filt_eqb_eq) in H as [<- _]. reflexivity.
  - destruct (opens MAXD text) eqn:Ho; [|reflexivity]. rewrite (parse_complex_opens text Ho) in H.
    apply (pres_eqb_eq cfilt_eqb cfilt_eqb_eq) in H as [<- _]. reflexivity.
Qed.

(* ------------------------------------------------------------------ what the parsed or/and tree means *)
Lemma holds_chain : forall lv c, holds lv (chain_sem c) = forallb (holds lv) (chain_operands c).
Proof.
  intros lv [x links]. unfold chain_sem, chain_operands. cbn [fst snd forallb].
  generalize (fst x). induction links as [|[[sa sb] y] links IH]; intros acc.
  - cbn. rewrite andb_true_r. reflexivity.
  - cbn [fold_left map forallb snd fst]. rewrite IH. cbn [holds]. rewrite andb_assoc. reflexivity.
Qed.
Lemma holds_expr : forall lv c0 ors,
  holds lv (expr_sem c0 ors) =
  existsb (fun c => forallb (holds lv) (chain_operands c)) (c0 :: map (fun l : olink => snd l) ors).
Proof.
  intros lv c0 ors. unfold expr_sem. cbn [existsb]. rewrite <- holds_chain.
  generalize (chain_sem c0). induction ors as [|[[sa sb] c] ors IH]; intros acc.
  - cbn. rewrite orb_false_r. reflexivity.
  - cbn [fold_left map existsb snd]. rewrite IH. cbn [holds]. rewrite holds_chain, orb_assoc. reflexivity.
Qed.
