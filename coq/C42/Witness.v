(* KV.C42.Witness — the hypotheses of the C42 theorems are met by concrete non-trivial values. *)
From Coq Require Import List NArith ZArith Bool String.
Import ListNotations.
Require Import KV.C42.Model.
Open Scope N_scope.

(* (mail pr) or ((name.type eq STRING) and (not (mail[(value gt -5)]))): every kind of node, a
   sub-attribute, a complex filter, a string needing escapes (quote, backslash, parenthesis, newline,
   control byte), a negative number *)
Definition w1 : filt :=
  SOr (SPres (s2l "mail", None))
      (SAnd (SCmp OEq (s2l "name", Some (s2l "type")) (JStr [97; 34; 98; 92; 99; 40; 10; 1]))
            (SNot (SComplex (s2l "mail") (CCmp OGt (s2l "value") (JNum (-5)%Z))))).
Example C42_witness_roundtrip :
  valid w1 = true /\ (print_depth w1 <=? MAXD)%nat = true /\ need w1 = 6%nat /\
  parse (print w1) = POk w1.
Proof. vm_compute. repeat split; reflexivity. Qed.
(* custom and mixed-case names: Custom keeps its spelling, a known name is its lower-case constant *)
Example C42_witness_names :
  valid (SPres (s2l "FooBar", Some (s2l "x-y_1"))) = true /\
  valid (SPres (s2l "Mail", None)) = false /\ attr_from (s2l "Mail") = s2l "mail" /\
  valid (SPres (s2l "1a", None)) = false /\ valid (SPres (s2l "a b", None)) = false.
Proof. vm_compute. repeat split; reflexivity. Qed.

(* the boundary: 63 negations around a leaf spend 127 levels (+1) = the limit; 64 are too many *)
Fixpoint nots (n : nat) (f : filt) : filt := match n with O => f | S k => SNot (nots k f) end.
Definition leaf0 : filt := SCmp OLe (s2l "a", None) (JNum 18446744073709551615%Z).
Example C42_witness_depth_boundary :
  valid (nots 63 leaf0) = true /\ print_depth (nots 63 leaf0) = MAXD /\
  parse (print (nots 63 leaf0)) = POk (nots 63 leaf0) /\
  valid (nots 64 leaf0) = true /\ (MAXD <? print_depth (nots 64 leaf0))%nat = true /\
  parse (print (nots 64 leaf0)) = PErr.
Proof. vm_compute. repeat split; reflexivity. Qed.
(* C42_depth_reject: 128 parentheses around a fine expression *)
Example C42_witness_opens :
  let s := repeat 40 128 ++ s2l "a pr" ++ repeat 41 128 in
  opens MAXD s = true /\ parse s = PErr /\
  parse (repeat 40 127 ++ s2l "a pr" ++ repeat 41 127) = POk (SPres ([97], None)).
Proof. vm_compute. repeat split; reflexivity. Qed.

(* C42_precedence: `a pr  or (b eq 1) and not (c pr)\tand d[type pr] or e pr` *)
Definition o_a : operand := (SPres ([97], None), true).
Definition o_b : operand := (SCmp OEq ([98], None) (JNum 1%Z), false).
Definition o_c : operand := (SNot (SPres ([99], None)), true).
Definition o_d : operand := (SComplex [100] (CPres (s2l "type")), true).
Definition o_e : operand := (SPres ([101], None), true).
Definition wc0 : chain := (o_a, []).
Definition wors : list olink :=
  [([32; 32], [32], (o_b, [([32], [32], o_c); ([9], [32], o_d)])); ([10], [32], (o_e, []))].
Example C42_witness_precedence :
  chain_ok wc0 = true /\ forallb olink_ok wors = true /\ (S (expr_need wc0 wors) <=? MAXD)%nat = true /\
  expr_txt wc0 wors = [97; 32; 112; 114; 32; 32; 111; 114; 32; 40; 98; 32; 101; 113; 32; 49; 41; 32; 97; 110; 100; 32;
                        110; 111; 116; 32; 40; 40; 99; 32; 112; 114; 41; 41; 9; 97; 110; 100; 32;
                        100; 91; 40; 116; 121; 112; 101; 32; 112; 114; 41; 93; 10; 111; 114; 32; 101; 32; 112; 114] /\
  parse (expr_txt wc0 wors) =
    POk (SOr (SOr (fst o_a) (SAnd (SAnd (fst o_b) (fst o_c)) (fst o_d))) (fst o_e)).
Proof. vm_compute. repeat split; reflexivity. Qed.

(* texts the grammar must reject / read in a particular way (recorded against the real parser too) *)
Example C42_witness_misc :
  parse (s2l "a pr oR b pr") = PErr /\ parse (s2l "not(a pr)") = PErr /\
  parse (s2l "not pr") = POk (SPres (s2l "not", None)) /\
  parse (s2l "a eq 01") = PErr /\ parse (s2l "a eq 1.5") = PUndef /\
  parse (s2l "a pr and (b pr or c pr)") = POk (SAnd (SPres ([97], None)) (SOr (SPres ([98], None)) (SPres ([99], None)))).
Proof. vm_compute. repeat split; reflexivity. Qed.
