(* KV.C50.Props — property theorems only.
   `step fixr fixp s o` is the transcription of one committed-or-rolled-back operation (a
   scim_sync_apply request, an administrator's change of sync_yield_authority, a user's modify);
   states, requests and histories are arbitrary (no size bound anywhere). fixr / fixp select the
   code as it is now (true: with the two guards of /verif/fixes/C50.patch, /repo 7a11b7d) or the
   code before that fix (false; documented by the C50_prefix_* theorems); theorems quantified
   over the flags hold for both trees. *)
From Coq Require Import List NArith Bool.
Import ListNotations.
Require Import KV.C50.Model KV.C50.Proofs.
Open Scope N_scope.

(* An accepted synchronisation request was presented by a sync identity, and it creates, changes
   or deletes only entries that the agreement owns: every stored entry is afterwards either
   identical, or was live and owned by the agreement before and is owned by it afterwards; new
   entries are owned by the agreement; no entry disappears. (Both trees, no premise.) *)
Theorem C50_owns_only : forall fixr fixp s r s',
  step fixr fixp s (OSync r) = (ROk, s') ->
  r_ik r = IKSynch /\
  forall i, match lookup (s_ents s) i, lookup (s_ents s') i with
            | None, None => True
            | Some _, None => False
            | None, Some e' => e_owner e' = Some (r_agr r)
            | Some e, Some e' =>
                e = e' \/ (e_live e = true /\ e_owner e = Some (r_agr r) /\ e_owner e' = Some (r_agr r))
            end.
Proof.
  intros fixr fixp s r s' H. destruct (step_ok _ _ _ _ _ H) as [s1 [Ha [He _]]]. cbn [apply_op] in Ha.
  destruct (sync_apply_owns _ _ _ _ _ Ha) as [Hik Hr]. split; [exact Hik|].
  intros i. specialize (Hr i). rewrite He.
  assert (Ho : forall e, owner_is (r_agr r) e = true -> e_owner e = Some (r_agr r)).
  { intros e Hx. unfold owner_is in Hx. destruct (e_owner e); [|discriminate]. apply N.eqb_eq in Hx. congruence. }
  destruct (lookup (s_ents s) i), (lookup (s_ents s1) i); cbn [EOK] in Hr; auto.
  - destruct Hr as [->|(L & O & O' & _)]; [left; reflexivity | right; auto].
  - destruct Hr as [Hr _]. auto.
Qed.

(* Whatever a synchronisation request changes in a surviving entry is a synchronisable attribute,
   and the entry's classes only grow, by sync-allowed classes. (Both trees, no premise.) *)
Theorem C50_only_syncable : forall fixr fixp s r s' i e e',
  step fixr fixp s (OSync r) = (ROk, s') ->
  lookup (s_ents s) i = Some e -> lookup (s_ents s') i = Some e' ->
  (forall a, aget a e <> aget a e' -> mem a SYNCABLE = true) /\
  (forall c, mem c (e_cls e') = true -> mem c (e_cls e) = true \/ mem c sync_classes = true) /\
  (forall c, mem c (e_cls e) = true -> mem c (e_cls e') = true).
Proof.
  intros fixr fixp s r s' i e e' H Hl Hl'. destruct (step_ok _ _ _ _ _ H) as [s1 [Ha [He _]]]. cbn [apply_op] in Ha.
  destruct (sync_apply_owns _ _ _ _ _ Ha) as [_ Hr]. specialize (Hr i). rewrite He in Hl'. rewrite Hl, Hl' in Hr.
  cbn [EOK] in Hr. destruct Hr as [->|(_ & _ & _ & S & Ga & Gb)].
  - split; [intros a Hne; contradiction|]. split; auto.
  - split; [intros a Hne; apply (S a Hne)|]. split; assumption.
Qed.

(* --- never creates entries in the reserved system uuid range -------------------------------- *)
Definition C50_no_reserved_statement (fixr fixp : bool) : Prop :=
  forall s r s' i e', step fixr fixp s (OSync r) = (ROk, s') ->
    lookup (s_ents s) i = None -> lookup (s_ents s') i = Some e' ->
    DYN_MIN <= i /\ has_cls K_Builtin e' = false.

(* The statement holds in full (phase 2 refuses a missing uuid below DYNAMIC_RANGE_MINIMUM_UUID). *)
Theorem C50_no_reserved_fixed : forall fixp, C50_no_reserved_statement true fixp.
Proof. intros fixp s r s' i e' H. eapply no_reserved_gen; eauto. Qed.

(* Before the fix it held only for requests that do not themselves name a missing uuid below
   DYNAMIC_RANGE_MINIMUM_UUID ... *)
Theorem C50_prefix_no_reserved_partial : forall fixp s r s' i e',
  step false fixp s (OSync r) = (ROk, s') -> known_reserved s (OSync r) = false ->
  lookup (s_ents s) i = None -> lookup (s_ents s') i = Some e' ->
  DYN_MIN <= i /\ has_cls K_Builtin e' = false.
Proof. intros fixp s r s' i e' H Hk. eapply no_reserved_gen; eauto. Qed.

(* ... and was false in general: a group requested under uuid 5 was created and tagged built-in. *)
Definition refute_reserved_state : st := mkS [] [(7, mkA None [])] 0.
Definition refute_reserved_req : sreq :=
  mkR IKSynch 7 SRefresh (SActive 1) [mkSE 5 [SCls K_Group] (Some 50) [(A_Name, 50)]] RIgnore.
Theorem C50_prefix_no_reserved_refuted : forall fixp, ~ C50_no_reserved_statement false fixp.
Proof.
  intros fixp Hs.
  assert (E : exists s', step false fixp refute_reserved_state (OSync refute_reserved_req) = (ROk, s')
                         /\ lookup (s_ents s') 5 <> None).
  { destruct fixp; vm_compute; eexists; (split; [reflexivity | discriminate]). }
  destruct E as [s' [E1 E2]]. destruct (lookup (s_ents s') 5) as [e'|] eqn:E3; [|congruence].
  destruct (Hs _ _ _ 5 e' E1 eq_refl E3) as [Hle _]. vm_compute in Hle. apply Hle. reflexivity.
Qed.

(* --- changes only attributes that are synchronisable and not handed over -------------------- *)
Definition C50_attrs_scoped_statement (fixr fixp : bool) : Prop :=
  forall s r s' i e e' a, step fixr fixp s (OSync r) = (ROk, s') ->
    lookup (s_ents s) i = Some e -> lookup (s_ents s') i = Some e' -> aget a e <> aget a e' ->
    mem a SYNCABLE = true /\ mem a (yield_of s (r_agr r)) = false.

(* The statement holds in full (a phantom import attribute is sync owned only while neither it
   nor primary_credential is yielded). *)
Theorem C50_attrs_scoped_fixed : forall fixr, C50_attrs_scoped_statement fixr true.
Proof. intros fixr s r s' i e e' a H. eapply attrs_scoped_gen; eauto. Qed.

(* Before the fix it held only for requests that do not carry password_import while authority over
   primary_credential / password_import is yielded ... *)
Theorem C50_prefix_attrs_scoped_partial : forall fixr s r s' i e e' a,
  step fixr false s (OSync r) = (ROk, s') -> known_phantom s (OSync r) = false ->
  lookup (s_ents s) i = Some e -> lookup (s_ents s') i = Some e' -> aget a e <> aget a e' ->
  mem a SYNCABLE = true /\ mem a (yield_of s (r_agr r)) = false.
Proof. intros fixr s r s' i e e' a H Hk. eapply attrs_scoped_gen; eauto. Qed.

(* ... and was false in general: the yielded primary credential of a synchronised person was replaced. *)
Definition refute_phantom_state : st :=
  mkS [(DYN_MIN + 1, mkE true (Some 7) [K_Object; K_SyncObject; K_Account; K_Person] [K_Account; K_Person]
                         (Some 10) true [(A_Name, 10); (A_DisplayName, 1); (A_PrimaryCredential, 3)])]
      [(7, mkA (Some 1) [A_PrimaryCredential])] 9.
Definition refute_phantom_req : sreq :=
  mkR IKSynch 7 (SActive 1) (SActive 2)
      [mkSE (DYN_MIN + 1) [SCls K_Account; SCls K_Person] (Some 10)
            [(A_Name, 10); (A_DisplayName, 1); (A_PasswordImport, 0)]] RIgnore.
Theorem C50_prefix_attrs_scoped_refuted : forall fixr, ~ C50_attrs_scoped_statement fixr false.
Proof.
  intros fixr Hs.
  assert (E : exists s' e', step fixr false refute_phantom_state (OSync refute_phantom_req) = (ROk, s')
                /\ lookup (s_ents s') (DYN_MIN + 1) = Some e' /\ aget A_PrimaryCredential e' = Some 9).
  { destruct fixr; vm_compute; do 2 eexists; repeat split. }
  destruct E as [s' [e' [E1 [E2 E3]]]].
  destruct (Hs _ _ _ (DYN_MIN + 1) _ e' A_PrimaryCredential E1 eq_refl E2) as [_ Hy].
  - rewrite E3. vm_compute. discriminate.
  - vm_compute in Hy. discriminate.
Qed.

(* --- the statement for the tree this check runs against -------------------------------------- *)
Definition C50_full_statement : Prop :=
  C50_no_reserved_statement tree_fixed_reserved tree_fixed_phantom /\
  C50_attrs_scoped_statement tree_fixed_reserved tree_fixed_phantom.

(* HEADLINE. On the current tree a synchronisation request never creates an entry in the reserved
   system uuid range (nor one tagged built-in), and changes only attributes that are
   synchronisable and not handed over to Kanidm's authority. (The proof also records the verdict
   for the other flag settings: with either guard missing the statement is refuted.) *)
Theorem C50_tree_verdict :
  if tree_fixed_reserved && tree_fixed_phantom then C50_full_statement else ~ C50_full_statement.
Proof.
  unfold C50_full_statement. destruct tree_fixed_reserved, tree_fixed_phantom; cbn [andb].
  - split; [apply C50_no_reserved_fixed | apply C50_attrs_scoped_fixed].
  - intros [_ H]. exact (C50_prefix_attrs_scoped_refuted _ H).
  - intros [H _]. exact (C50_prefix_no_reserved_refuted _ H).
  - intros [H _]. exact (C50_prefix_no_reserved_refuted _ H).
Qed.
Theorem C50_full : C50_full_statement.
Proof. exact C50_tree_verdict. Qed.
Theorem C50_fixed_full : C50_no_reserved_statement true true /\ C50_attrs_scoped_statement true true.
Proof. split; [apply C50_no_reserved_fixed | apply C50_attrs_scoped_fixed]. Qed.

(* --- users ----------------------------------------------------------------------------------- *)
(* An accepted user modify touches exactly the addressed entry, never its liveness, owner, classes,
   sync classes or external id, and on a synchronised entry only an attribute that the owning
   agreement yielded to Kanidm or one of the four session / credential-reset attributes. *)
Theorem C50_user_edits : forall fixr fixp s t m s',
  step fixr fixp s (OUser t m) = (ROk, s') ->
  s_agrs s' = s_agrs s /\
  (forall i, i <> t -> lookup (s_ents s') i = lookup (s_ents s) i) /\
  exists e e', lookup (s_ents s) t = Some e /\ lookup (s_ents s') t = Some e' /\
    e_live e' = e_live e /\ e_owner e' = e_owner e /\ e_cls e' = e_cls e /\
    e_scls e' = e_scls e /\ e_ext e' = e_ext e /\
    (has_cls K_SyncObject e = true ->
       exists u, e_owner e = Some u /\
         forall a, aget a e' <> aget a e -> mem a (SYNC_BASE ++ yield_of s u) = true).
Proof.
  intros fixr fixp s t m s' H. destruct (step_ok _ _ _ _ _ H) as [s1 [Ha [He Hg]]]. cbn [apply_op] in Ha.
  destruct (user_apply_ok _ _ _ _ Ha) as (H1 & _ & H3 & e0 & e1 & L0 & L1 & F1 & F2 & F3 & F4 & F5 & Hat & Hsy).
  rewrite He, Hg. split; [exact H1|]. split; [exact H3|].
  exists e0, e1. repeat (split; [assumption|]).
  intros Hs. destruct (Hsy Hs) as [u [Hu Hm]]. exists u. split; [exact Hu|].
  intros a Hne. destruct (N.eq_dec a (umod_attr m)) as [->|Hx]; [exact Hm|].
  exfalso. apply Hne. apply Hat. exact Hx.
Qed.

(* --- refusals -------------------------------------------------------------------------------- *)
(* A refused operation changes no entry and no agreement. *)
Theorem C50_refused_changes_nothing : forall fixr fixp s o e s',
  step fixr fixp s o = (RErr e, s') -> s_ents s' = s_ents s /\ s_agrs s' = s_agrs s.
Proof. exact step_err. Qed.

(* Requests presented by anything but a sync identity with Synchronise scope are refused. *)
Theorem C50_only_sync_identities : forall fixr fixp s r,
  r_ik r <> IKSynch -> fst (step fixr fixp s (OSync r)) = RErr EDenied.
Proof.
  intros fixr fixp s r H. rewrite step_unfold. cbn [apply_op]. unfold sync_apply, phase1.
  destruct (r_ik r); try reflexivity. contradiction.
Qed.

(* --- histories ------------------------------------------------------------------------------- *)
(* Over ANY history of synchronisation requests (any agreements, any contents, accepted or not):
   an entry that is not a synchronised entry (no owner) stays exactly as it was ... *)
Theorem C50_native_untouched : forall fixr fixp ops s i e,
  sync_only ops -> lookup (s_ents s) i = Some e -> e_owner e = None ->
  lookup (s_ents (run fixr fixp s ops)) i = Some e.
Proof.
  intros fixr fixp ops s i e Hops Hl Ho.
  apply (run_sync_foreign fixr fixp ops s i e (fun _ => False)).
  - intros o Hin. destruct (Hops o Hin) as [r ->]. exists r. split; [reflexivity | tauto].
  - exact Hl.
  - intros A Hx. unfold owner_is in Hx. rewrite Ho in Hx. discriminate.
Qed.

(* ... and so does every entry of agreement B when no request comes from B. *)
Theorem C50_foreign_untouched : forall fixr fixp ops s i e B,
  (forall o, In o ops -> exists r, o = OSync r /\ r_agr r <> B) ->
  lookup (s_ents s) i = Some e -> e_owner e = Some B ->
  lookup (s_ents (run fixr fixp s ops)) i = Some e.
Proof.
  intros fixr fixp ops s i e B Hops Hl Ho.
  apply (run_sync_foreign fixr fixp ops s i e (fun A => A = B)).
  - intros o Hin. destruct (Hops o Hin) as [r [-> Hr]]. exists r. split; [reflexivity | exact Hr].
  - exact Hl.
  - intros A Hx. unfold owner_is in Hx. rewrite Ho in Hx. apply N.eqb_eq in Hx. congruence.
Qed.

(* Over any history of all three kinds of operation no entry ever disappears or changes owner. *)
Theorem C50_owner_stable : forall fixr fixp ops s i e,
  lookup (s_ents s) i = Some e ->
  exists e', lookup (s_ents (run fixr fixp s ops)) i = Some e' /\ e_owner e' = e_owner e.
Proof. exact run_owner_stable. Qed.

(* --- the run-time tie ------------------------------------------------------------------------ *)
(* The model's own steps satisfy the executable property predicate (on the tree before the fix:
   outside the two defect classes; `known_step true true` is constantly false). *)
Theorem C50_model_satisfies_pcheck : forall fixr fixp s o r s',
  step fixr fixp s o = (r, s') -> known_step fixr fixp s o r = false -> pcheck_step s o r s' = true.
Proof. exact step_pcheck. Qed.

(* Whenever the implementation's answer and resulting state agree with the model, the property's
   executable predicate holds on the implementation's own observations. *)
Theorem C50_agree_implies_property : forall c, agree c = true -> pcheck c = true.
Proof. exact agree_pcheck. Qed.

(* What the executable predicate means on an accepted synchronisation request (independent of the
   transcription): sync identity; every entry present afterwards is unchanged, or was owned (and
   live) and changed only in synchronisable, not yielded attributes, or is new, owned, outside the
   protected uuid range and not tagged built-in. *)
Theorem C50_pcheck_sound : forall s r s', pcheck_step s (OSync r) ROk s' = true ->
  r_ik r = IKSynch /\
  forall i e', lookup (s_ents s') i = Some e' ->
    match lookup (s_ents s) i with
    | None => e_owner e' = Some (r_agr r) /\ DYN_MIN <= i /\ has_cls K_Builtin e' = false
    | Some e =>
        e = e' \/ (e_live e = true /\ e_owner e = Some (r_agr r) /\ e_owner e' = Some (r_agr r) /\
                   forall a, aget a e <> aget a e' ->
                             mem a SYNCABLE = true /\ mem a (yield_of s (r_agr r)) = false)
    end.
Proof. exact pcheck_sound_sync. Qed.

(* The tree before the fix (both flags false) did not satisfy the full statement. *)
Theorem C50_prefix_refuted :
  ~ (C50_no_reserved_statement false false /\ C50_attrs_scoped_statement false false).
Proof. intros [H _]. exact (C50_prefix_no_reserved_refuted _ H). Qed.
