(* KV.C50.Proofs — lemmas and proofs about KV.C50.Model. *)
From Coq Require Import List NArith Bool Lia.
Import ListNotations.
Require Import KV.C50.Model.
Open Scope N_scope.

Arguments N.add : simpl never.
Arguments N.eqb : simpl never.
Arguments N.ltb : simpl never.
Arguments N.leb : simpl never.

(* ------------------------------------------------------------------ sets and maps *)
Lemma mem_In : forall x l, mem x l = true <-> In x l.
Proof.
  intros x l. induction l as [|y r IH]; cbn [mem In].
  - split; [discriminate | tauto].
  - rewrite orb_true_iff, IH. split; intros [H|H]; auto.
    + left. apply N.eqb_eq in H. auto.
    + left. apply N.eqb_eq. auto.
Qed.

Lemma mem_add : forall x y l, mem x (add y l) = (x =? y) || mem x l.
Proof.
  intros x y l. induction l as [|z r IH]; cbn [add mem].
  - reflexivity.
  - destruct (N.eqb_spec y z) as [->|Hyz].
    + cbn [mem]. destruct (x =? z); reflexivity.
    + destruct (y <? z); cbn [mem]; [reflexivity|].
      rewrite IH. destruct (x =? y), (x =? z); reflexivity.
Qed.

Lemma mem_union : forall x b a, mem x (union a b) = mem x a || mem x b.
Proof.
  intros x b. unfold union. induction b as [|z r IH]; intros a; cbn [fold_left mem].
  - rewrite orb_false_r. reflexivity.
  - rewrite IH, mem_add. destruct (x =? z), (mem x a), (mem x r); reflexivity.
Qed.

Lemma lookup_upsert_same : forall V k (v : V) m, lookup (upsert k v m) k = Some v.
Proof.
  intros V k v m. induction m as [|[k' v'] r IH]; cbn [upsert lookup].
  - rewrite N.eqb_refl. reflexivity.
  - destruct (N.eqb_spec k k') as [->|Hk].
    + cbn [lookup]. rewrite N.eqb_refl. reflexivity.
    + destruct (k <? k'); cbn [lookup].
      * rewrite N.eqb_refl. reflexivity.
      * destruct (N.eqb_spec k k'); [contradiction|]. exact IH.
Qed.

Lemma lookup_upsert_other : forall V k j (v : V) m, k <> j -> lookup (upsert k v m) j = lookup m j.
Proof.
  intros V k j v m Hkj. induction m as [|[k' v'] r IH]; cbn [upsert lookup].
  - destruct (N.eqb_spec j k); [congruence | reflexivity].
  - destruct (N.eqb_spec k k') as [->|Hk].
    + cbn [lookup]. destruct (N.eqb_spec j k'); [congruence | reflexivity].
    + destruct (k <? k'); cbn [lookup].
      * destruct (N.eqb_spec j k); [congruence | reflexivity].
      * rewrite IH. reflexivity.
Qed.

Lemma lookup_map_vals : forall V (f : N -> V -> V) m k,
  lookup (map_vals f m) k = option_map (f k) (lookup m k).
Proof.
  intros V f m k. induction m as [|[k' v'] r IH]; cbn [map_vals map lookup fst snd option_map].
  - reflexivity.
  - destruct (N.eqb_spec k k') as [->|Hk]; [reflexivity | exact IH].
Qed.

Lemma keys_map_vals : forall V (f : N -> V -> V) m, keys (map_vals f m) = keys m.
Proof.
  intros V f m. unfold keys, map_vals. rewrite map_map. reflexivity.
Qed.

Lemma lookup_Some_In : forall V (m : list (N * V)) k v, lookup m k = Some v -> In (k, v) m.
Proof.
  intros V m k v. induction m as [|[k' v'] r IH]; cbn [lookup]; [discriminate|].
  destruct (N.eqb_spec k k') as [->|Hk]; intros H.
  - injection H as ->. left. reflexivity.
  - right. auto.
Qed.

Lemma lookup_Some_keys : forall V (m : list (N * V)) k v, lookup m k = Some v -> In k (keys m).
Proof.
  intros V m k v H. apply lookup_Some_In in H. unfold keys. apply (in_map fst) in H. exact H.
Qed.

Lemma keys_lookup : forall V (m : list (N * V)) k, In k (keys m) -> exists v, lookup m k = Some v.
Proof.
  intros V m k. induction m as [|[k' v'] r IH]; cbn [keys map In lookup fst]; [tauto|].
  intros [H|H].
  - subst. rewrite N.eqb_refl. eauto.
  - destruct (k =? k'); [eauto | apply IH; exact H].
Qed.

Lemma lookup_None_keys : forall V (m : list (N * V)) k, lookup m k = None -> ~ In k (keys m).
Proof.
  intros V m k H Hin. apply keys_lookup in Hin as [v Hv]. congruence.
Qed.

Lemma lookup_filter_fst : forall (p : N -> bool) (l : list (N * N)) a,
  lookup (filter (fun av => p (fst av)) l) a = if p a then lookup l a else None.
Proof.
  intros p l a. induction l as [|[k v] r IH]; cbn [filter lookup fst].
  - destruct (p a); reflexivity.
  - destruct (p k) eqn:Hpk; cbn [lookup].
    + destruct (N.eqb_spec a k) as [->|Hak]; [rewrite Hpk; reflexivity | exact IH].
    + destruct (N.eqb_spec a k) as [->|Hak]; [rewrite Hpk in IH |- *; exact IH | exact IH].
Qed.

(* ------------------------------------------------------------------ equality tests *)
Lemma opt_eqb_eq : forall a b, opt_eqb a b = true <-> a = b.
Proof.
  intros [x|] [y|]; cbn [opt_eqb]; split; intros H; try discriminate; try reflexivity.
  - apply N.eqb_eq in H. congruence.
  - injection H as ->. apply N.eqb_refl.
Qed.

Lemma list_eqb_eq : forall T (f : T -> T -> bool),
  (forall x y, f x y = true <-> x = y) -> forall a b, list_eqb f a b = true <-> a = b.
Proof.
  intros T f Hf a. induction a as [|x r IH]; intros [|y q]; cbn [list_eqb]; split; intros H;
    try discriminate; try reflexivity.
  - apply andb_true_iff in H as [H1 H2]. apply Hf in H1. apply IH in H2. congruence.
  - injection H as -> ->. apply andb_true_iff. split; [apply Hf | apply IH]; reflexivity.
Qed.

Lemma ln_eqb_eq : forall a b, list_eqb N.eqb a b = true <-> a = b.
Proof. apply list_eqb_eq. intros x y. apply N.eqb_eq. Qed.

Lemma pair_eqb_eq : forall a b, pair_eqb a b = true <-> a = b.
Proof.
  intros [a1 a2] [b1 b2]. unfold pair_eqb. cbn [fst snd]. rewrite andb_true_iff, !N.eqb_eq.
  split; [intros [-> ->]; reflexivity | intros H; injection H; auto].
Qed.

Lemma bool_eqb_eq : forall a b, Bool.eqb a b = true <-> a = b.
Proof. intros a b. split; [apply eqb_prop | intros ->; apply eqb_reflx]. Qed.

Lemma entry_eqb_eq : forall a b, entry_eqb a b = true <-> a = b.
Proof.
  intros [a1 a2 a3 a4 a5 a6 a7] [b1 b2 b3 b4 b5 b6 b7]. unfold entry_eqb. cbn.
  rewrite !andb_true_iff, !bool_eqb_eq, !opt_eqb_eq, !ln_eqb_eq.
  rewrite (list_eqb_eq _ pair_eqb pair_eqb_eq).
  split.
  - intros [[[[[[-> ->] ->] ->] ->] ->] ->]. reflexivity.
  - intros H. injection H as -> -> -> -> -> -> ->. repeat split.
Qed.

Lemma agr_eqb_eq : forall a b, agr_eqb a b = true <-> a = b.
Proof.
  intros [a1 a2] [b1 b2]. unfold agr_eqb. cbn. rewrite andb_true_iff, opt_eqb_eq, ln_eqb_eq.
  split; [intros [-> ->]; reflexivity | intros H; injection H; auto].
Qed.

Lemma keyed_eqb_eq : forall V (f : V -> V -> bool), (forall x y, f x y = true <-> x = y) ->
  forall a b : N * V, (fst a =? fst b) && f (snd a) (snd b) = true <-> a = b.
Proof.
  intros V f Hf [a1 a2] [b1 b2]. cbn [fst snd]. rewrite andb_true_iff, N.eqb_eq, Hf.
  split; [intros [-> ->]; reflexivity | intros H; injection H; auto].
Qed.

Lemma ents_eqb_eq : forall a b, ents_eqb a b = true <-> a = b.
Proof. apply list_eqb_eq. apply (keyed_eqb_eq _ entry_eqb entry_eqb_eq). Qed.
Lemma agrs_eqb_eq : forall a b, agrs_eqb a b = true <-> a = b.
Proof. apply list_eqb_eq. apply (keyed_eqb_eq _ agr_eqb agr_eqb_eq). Qed.

Lemma st_eqb_eq : forall a b, st_eqb a b = true <-> a = b.
Proof.
  intros [a1 a2 a3] [b1 b2 b3]. unfold st_eqb. cbn. rewrite !andb_true_iff, ents_eqb_eq, agrs_eqb_eq, N.eqb_eq.
  split; [intros [[-> ->] ->]; reflexivity | intros H; injection H; auto].
Qed.

Lemma res_eqb_eq : forall a b, res_eqb a b = true -> a = b.
Proof.
  intros [|x] [|y]; cbn [res_eqb]; intros H; try discriminate; try reflexivity.
  destruct x, y; cbn in H; try discriminate; reflexivity.
Qed.

Lemma oent_eqb_refl : forall o, oent_eqb o o = true.
Proof. intros [e|]; cbn; [apply entry_eqb_eq|]; reflexivity. Qed.
Lemma oagr_eqb_refl : forall o, oagr_eqb o o = true.
Proof. intros [e|]; cbn; [apply agr_eqb_eq|]; reflexivity. Qed.

(* ------------------------------------------------------------------ the scope relation *)
Definition attrs_scoped (y : list N) (e e' : entry) : Prop :=
  forall a, aget a e <> aget a e' -> mem a SYNCABLE = true /\ mem a y = false.
Definition cls_grow (e e' : entry) : Prop :=
  (forall c, mem c (e_cls e') = true -> mem c (e_cls e) = true \/ mem c sync_classes = true) /\
  (forall c, mem c (e_cls e) = true -> mem c (e_cls e') = true).
(* entry e was changed into e' by agreement A within its scope *)
Definition mod_ok (A : N) (y : list N) (e e' : entry) : Prop :=
  e_live e = true /\ owner_is A e = true /\ owner_is A e' = true /\ attrs_scoped y e e' /\ cls_grow e e'.
(* what may happen to the entry stored under uuid i; strict = new entries must lie outside the
   protected range and must not be tagged built-in *)
Definition EOK (A : N) (y : list N) (strict : bool) (i : N) (o o' : option entry) : Prop :=
  match o, o' with
  | None, None => True
  | Some _, None => False
  | None, Some e' => owner_is A e' = true /\ (strict = true -> DYN_MIN <= i /\ has_cls K_Builtin e' = false)
  | Some e, Some e' => e = e' \/ mod_ok A y e e'
  end.

Lemma EOK_refl : forall A y st i o, o <> None \/ o = None -> EOK A y st i o o.
Proof. intros A y st i [e|] _; cbn; auto. Qed.

Lemma optN_dec : forall a b : option N, a = b \/ a <> b.
Proof.
  intros [x|] [y|]; try (right; discriminate); try (left; reflexivity).
  destruct (N.eq_dec x y) as [->|H]; [left; reflexivity | right; congruence].
Qed.

Lemma mod_ok_trans : forall A y e1 e2 e3, mod_ok A y e1 e2 -> mod_ok A y e2 e3 -> mod_ok A y e1 e3.
Proof.
  intros A y e1 e2 e3 (L1 & O1 & O1' & S1 & G1a & G1b) (L2 & O2 & O2' & S2 & G2a & G2b).
  unfold mod_ok. split; [exact L1|]. split; [exact O1|]. split; [exact O2'|]. split; [|split].
  - intros a Hne. destruct (optN_dec (aget a e1) (aget a e2)) as [E|E].
    + apply S2. congruence.
    + apply S1. exact E.
  - intros c Hc. destruct (G2a c Hc) as [H|H]; [apply G1a; exact H | right; exact H].
  - intros c Hc. apply G2b, G1b, Hc.
Qed.

Lemma not_builtin_sync : mem K_Builtin sync_classes = false.
Proof. reflexivity. Qed.

Lemma EOK_trans : forall A y st i o1 o2 o3, EOK A y st i o1 o2 -> EOK A y st i o2 o3 -> EOK A y st i o1 o3.
Proof.
  intros A y st i [e1|] [e2|] [e3|]; cbn; try tauto.
  - intros [->|H1] [->|H2]; auto. right. eapply mod_ok_trans; eauto.
  - intros [Ho Hs] [->|H2]; [auto|].
    destruct H2 as (L2 & O2 & O2' & S2 & G2a & G2b). split; [exact O2'|].
    intros Hst. destruct (Hs Hst) as [Hi Hb]. split; [exact Hi|].
    unfold has_cls in *. destruct (mem K_Builtin (e_cls e3)) eqn:E; [|reflexivity].
    destruct (G2a _ E) as [H|H]; [congruence | rewrite not_builtin_sync in H; discriminate].
Qed.

(* ------------------------------------------------------------------ helpers *)
Lemma existsb_false : forall T (f : T -> bool) l, existsb f l = false -> forall x, In x l -> f x = false.
Proof.
  intros T f l H x Hx. destruct (f x) eqn:E; [|reflexivity].
  assert (existsb f l = true) by (apply existsb_exists; eauto). congruence.
Qed.

Lemma mem_app : forall x a b, mem x (a ++ b) = mem x a || mem x b.
Proof.
  intros x a b. induction a as [|z r IH]; cbn [app mem]; [reflexivity|].
  rewrite IH. destruct (x =? z); reflexivity.
Qed.

Lemma mem_filter : forall (p : N -> bool) l x, mem x (filter p l) = true -> p x = true /\ mem x l = true.
Proof.
  intros p l x H. apply mem_In in H. apply filter_In in H as [H1 H2]. split; [exact H2 | apply mem_In; exact H1].
Qed.

Lemma keys_filter : forall V (p : N * V -> bool) m i, In i (keys (filter p m)) -> In i (keys m).
Proof.
  intros V p m i H. unfold keys in *. apply in_map_iff in H as [kv [E Hin]].
  apply filter_In in Hin as [Hin _]. subst. apply in_map. exact Hin.
Qed.

Lemma owner_is_eq : forall A e e', e_owner e' = e_owner e -> owner_is A e' = owner_is A e.
Proof. intros A e e' H. unfold owner_is. rewrite H. reflexivity. Qed.

Lemma mod_ok_same : forall A y e e',
  e_live e = true -> owner_is A e = true -> e_owner e' = e_owner e ->
  e_attrs e' = e_attrs e -> e_cls e' = e_cls e -> mod_ok A y e e'.
Proof.
  intros A y e e' L O Ho Ha Hc. unfold mod_ok. split; [exact L|]. split; [exact O|].
  split; [rewrite (owner_is_eq A e e' Ho); exact O|]. split; [|split].
  - intros a Hne. exfalso. apply Hne. unfold aget. rewrite Ha. reflexivity.
  - intros c Hc'. left. rewrite <- Hc. exact Hc'.
  - intros c Hc'. rewrite Hc. exact Hc'.
Qed.

Lemma recycle_ok : forall A y e, e_live e = true -> owner_is A e = true -> mod_ok A y e (recycle e).
Proof. intros. apply mod_ok_same; auto. Qed.
Lemma set_ext_ok : forall A y x e, e_live e = true -> owner_is A e = true -> mod_ok A y e (set_ext x e).
Proof. intros. apply mod_ok_same; auto. Qed.

(* ------------------------------------------------------------------ phase 2 *)
Lemma lookup_add_stubs : forall A l es i,
  lookup (fold_left (add_stub A) l es) i =
    match lookup es i with
    | Some e => Some e
    | None => if mem i l then Some (stub A i) else None
    end.
Proof.
  intros A l. induction l as [|k r IH]; intros es i; cbn [fold_left mem].
  - destruct (lookup es i); reflexivity.
  - rewrite IH. unfold add_stub. destruct (lookup es k) eqn:Ek.
    + destruct (N.eqb_spec i k) as [->|Hik]; [rewrite Ek; reflexivity|].
      cbn [orb]. reflexivity.
    + destruct (N.eqb_spec i k) as [->|Hik].
      * rewrite lookup_upsert_same, Ek. cbn [orb]. reflexivity.
      * rewrite lookup_upsert_other by congruence. cbn [orb]. reflexivity.
Qed.

Lemma stub_not_builtin : forall A i, DYN_MIN <= i -> has_cls K_Builtin (stub A i) = false.
Proof.
  intros A i H. unfold has_cls, stub. cbn [e_cls]. apply N.ltb_ge in H. rewrite H. reflexivity.
Qed.

Lemma phase2_ok : forall fixr A y cm es es1 strict,
  phase2 fixr A cm es = inr es1 ->
  (strict = true -> fixr = true \/ forall i, In i (keys cm) -> lookup es i = None -> DYN_MIN <= i) ->
  (forall i, EOK A y strict i (lookup es i) (lookup es1 i)) /\
  (forall i, In i (keys cm) -> exists e, lookup es1 i = Some e /\ e_live e = true).
Proof.
  intros fixr A y cm es es1 strict H Hs. unfold phase2 in H.
  destruct cm as [|c0 cmr] eqn:Ecm.
  - injection H as <-. split; [|intros i []]. intros i. destruct (lookup es i); cbn; auto.
  - rewrite <- Ecm in *. clear Ecm c0 cmr.
    destruct (existsb _ (keys cm)) eqn:Emask in H; [discriminate|].
    destruct (fixr && existsb _ (keys cm)) eqn:Efix in H; [discriminate|].
    set (es0 := fold_left (add_stub A) (keys cm) es) in *.
    set (withext := filter (fun kv => is_some (se_ext (snd kv))) cm) in *.
    destruct withext as [|w0 wr] eqn:Ew; [discriminate|]. rewrite <- Ew in *. clear Ew w0 wr.
    destruct (existsb _ (keys withext)) eqn:Eas in H; [discriminate|].
    injection H as <-.
    assert (Hmask : forall i e, In i (keys cm) -> lookup es i = Some e -> e_live e = true).
    { intros i e Hi He. pose proof (existsb_false _ _ _ Emask i Hi) as Hf. cbn beta in Hf.
      rewrite He in Hf. destruct (e_live e); [reflexivity | discriminate]. }
    assert (Hrange : strict = true -> forall i, In i (keys cm) -> lookup es i = None -> DYN_MIN <= i).
    { intros Hst i Hi Hn. destruct (Hs Hst) as [Hf|Hf]; [|apply Hf; assumption].
      subst fixr. cbn [andb] in Efix. pose proof (existsb_false _ _ _ Efix i Hi) as Hx. cbn beta in Hx.
      rewrite Hn in Hx. cbn in Hx. rewrite andb_true_r in Hx. apply N.ltb_ge. exact Hx. }
    assert (Hown : forall i, In i (keys withext) -> owned_at A es0 i = true).
    { intros i Hi. pose proof (existsb_false _ _ _ Eas i Hi) as Hx. cbn beta in Hx.
      destruct (owned_at A es0 i); [reflexivity | discriminate]. }
    assert (Hwk : forall i se, lookup withext i = Some se -> In i (keys cm) /\ In i (keys withext)).
    { intros i se Hl. apply lookup_Some_keys in Hl. split; [|exact Hl].
      unfold withext in Hl. eapply keys_filter. exact Hl. }
    split.
    + intros i. rewrite lookup_map_vals. unfold es0. rewrite lookup_add_stubs.
      destruct (lookup es i) as [e|] eqn:Ee; cbn [option_map EOK].
      * destruct (lookup withext i) as [se|] eqn:Ese; [|left; reflexivity].
        right. destruct (Hwk i se Ese) as [Hc Hw]. apply set_ext_ok.
        -- eapply Hmask; eauto.
        -- specialize (Hown i Hw). unfold owned_at, es0 in Hown. rewrite lookup_add_stubs, Ee in Hown. exact Hown.
      * destruct (mem i (keys cm)) eqn:Em; cbn [option_map]; [|exact I].
        apply mem_In in Em.
        assert (Hst : forall x, owner_is A (match x with Some se => set_ext (se_ext se) (stub A i) | None => stub A i end) = true
                      /\ e_cls (match x with Some se => set_ext (se_ext se) (stub A i) | None => stub A i end) = e_cls (stub A i)).
        { intros [se|]; cbn; rewrite N.eqb_refl; auto. }
        destruct (Hst (lookup withext i)) as [Ho Hc]. split; [exact Ho|].
        intros Hstr. split; [apply Hrange; assumption|].
        unfold has_cls. rewrite Hc. apply stub_not_builtin. apply Hrange; assumption.
    + intros i Hi. rewrite lookup_map_vals. unfold es0. rewrite lookup_add_stubs.
      destruct (lookup es i) as [e|] eqn:Ee; cbn [option_map].
      * eexists. split; [reflexivity|]. destruct (lookup withext i); cbn; eapply Hmask; eauto.
      * apply mem_In in Hi. rewrite Hi. cbn [option_map]. eexists. split; [reflexivity|].
        destruct (lookup withext i); reflexivity.
Qed.

(* ------------------------------------------------------------------ deletes *)
Lemma del_not_in_ok : forall A y st keep es i, EOK A y st i (lookup es i) (lookup (del_not_in A keep es) i).
Proof.
  intros A y st keep es i. unfold del_not_in. rewrite lookup_map_vals.
  destruct (lookup es i) as [e|]; cbn [option_map EOK]; [|exact I].
  destruct (e_live e && owner_is A e && negb (mem i keep)) eqn:E; [|left; reflexivity].
  apply andb_true_iff in E as [E _]. apply andb_true_iff in E as [L O]. right. apply recycle_ok; assumption.
Qed.

Lemma del_not_in_keep : forall A keep es i, mem i keep = true -> lookup (del_not_in A keep es) i = lookup es i.
Proof.
  intros A keep es i H. unfold del_not_in. rewrite lookup_map_vals.
  destruct (lookup es i) as [e|]; cbn [option_map]; [|reflexivity].
  rewrite H. cbn [negb]. rewrite andb_false_r. reflexivity.
Qed.

Lemma del_in_ok : forall A y st l es i, EOK A y st i (lookup es i) (lookup (del_in A l es) i).
Proof.
  intros A y st l es i. unfold del_in. rewrite lookup_map_vals.
  destruct (lookup es i) as [e|]; cbn [option_map EOK]; [|exact I].
  destruct (e_live e && owner_is A e && mem i l) eqn:E; [|left; reflexivity].
  apply andb_true_iff in E as [E _]. apply andb_true_iff in E as [L O]. right. apply recycle_ok; assumption.
Qed.

Lemma phase4_ok : forall A y st rt es es4, phase4 A rt es = inr es4 ->
  forall i, EOK A y st i (lookup es i) (lookup es4 i).
Proof.
  intros A y st rt es es4 H i. unfold phase4 in H. destruct rt as [|l|l].
  - injection H as <-. destruct (lookup es i); cbn; auto.
  - injection H as <-. apply del_not_in_ok.
  - destruct (existsb _ l) in H; [discriminate|]. injection H as <-. apply del_in_ok.
Qed.

(* ------------------------------------------------------------------ phase 3 *)
Lemma req_classes_sync : forall l rc, req_classes l = Some rc ->
  forall c, mem c rc = true -> mem c sync_classes = true.
Proof.
  induction l as [|s r IH]; intros rc H c Hc; cbn [req_classes] in H.
  - injection H as <-. discriminate.
  - destruct s as [k|]; [|discriminate].
    destruct (mem k sync_classes) eqn:Ek; [|discriminate].
    destruct (req_classes r) as [rc'|] eqn:Er; [|discriminate]. injection H as <-.
    rewrite mem_add in Hc. apply orb_true_iff in Hc as [Hc|Hc].
    + apply N.eqb_eq in Hc. subst. exact Ek.
    + eapply IH; eauto.
Qed.

Lemma entry_mod_props : forall fixp y se m, entry_mod fixp y se = Some m ->
  (forall c, mem c (m_rc m) = true -> mem c sync_classes = true) /\
  (forall a, mem a (m_real m) = true -> mem a SYNCABLE = true /\ mem a y = false) /\
  (forall av, In av (m_attrs m) -> mem (fst av) (m_real m) = true \/ fst av = A_PasswordImport) /\
  m_attrs m = se_attrs se /\
  (fixp = true -> is_some (lookup (m_attrs m) A_PasswordImport) = true -> mem A_PrimaryCredential y = false).
Proof.
  intros fixp y se m H. unfold entry_mod in H.
  destruct (req_classes (se_sch se)) as [rc|] eqn:Er; [|discriminate].
  destruct (forallb _ (se_attrs se)) eqn:Ef; [|discriminate]. injection H as <-. cbn [m_rc m_real m_attrs].
  assert (Hreal : forall a, mem a (real_owned y rc) = true -> mem a SYNCABLE = true /\ mem a y = false).
  { intros a Ha. unfold real_owned in Ha. apply mem_filter in Ha as [Ha _].
    apply andb_true_iff in Ha as [H1 H2]. split; [exact H1|]. destruct (mem a y); [discriminate | reflexivity]. }
  split; [eapply req_classes_sync; eauto|]. split; [exact Hreal|]. split; [|split; [reflexivity|]].
  - intros av Hin. rewrite forallb_forall in Ef. specialize (Ef av Hin). rewrite mem_app in Ef.
    apply orb_true_iff in Ef as [Ef|Ef]; [left; exact Ef|]. right.
    unfold phantoms in Ef. destruct (fixp && _) in Ef; [discriminate|].
    cbn [mem] in Ef. rewrite orb_false_r in Ef. apply N.eqb_eq. exact Ef.
  - intros -> Himp. destruct (lookup (se_attrs se) A_PasswordImport) as [v|] eqn:El; [|discriminate].
    apply lookup_Some_In in El. rewrite forallb_forall in Ef. specialize (Ef _ El). cbn [fst] in Ef.
    rewrite mem_app in Ef. apply orb_true_iff in Ef as [Ef|Ef].
    + apply Hreal in Ef as [Ef _]. discriminate.
    + unfold phantoms in Ef. cbn [andb] in Ef.
      destruct (mem A_PrimaryCredential y); [|reflexivity].
      rewrite orb_true_r in Ef. discriminate.
Qed.

Lemma lookup_set_attrs : forall l attrs a,
  (forall av, In av l -> fst av <> a \/ fst av = A_PasswordImport) ->
  lookup (set_attrs l attrs) a = lookup attrs a.
Proof.
  unfold set_attrs. induction l as [|av r IH]; intros attrs a H; cbn [fold_left]; [reflexivity|].
  rewrite IH by (intros x Hx; apply H; right; exact Hx).
  destruct (N.eqb_spec (fst av) A_PasswordImport) as [E|E]; [reflexivity|].
  apply lookup_upsert_other. destruct (H av (or_introl eq_refl)); [assumption | contradiction].
Qed.

Lemma aget_spn_set : forall a e, aget a (spn_set e) = aget a e.
Proof. intros a e. unfold spn_set. destruct (_ || _); reflexivity. Qed.

Lemma aget_apply_mod : forall tick m e a,
  mem a (m_real m) = false ->
  (forall av, In av (m_attrs m) -> mem (fst av) (m_real m) = true \/ fst av = A_PasswordImport) ->
  (a = A_PrimaryCredential -> is_some (lookup (m_attrs m) A_PasswordImport) = false) ->
  aget a (apply_mod tick m e) = aget a e.
Proof.
  intros tick m e a Hr Hat Hpc. unfold apply_mod. rewrite aget_spn_set. unfold aget, apply_mod0. cbn [e_attrs].
  assert (E2 : lookup (set_attrs (m_attrs m)
                 (filter (fun av => negb (mem (fst av) (m_real m))) (e_attrs e))) a = lookup (e_attrs e) a).
  { rewrite lookup_set_attrs.
    - rewrite (lookup_filter_fst (fun k => negb (mem k (m_real m)))). rewrite Hr. reflexivity.
    - intros av Hin. destruct (Hat av Hin) as [H|H]; [left | right; exact H].
      intros E. rewrite E in H. congruence. }
  destruct (is_some (lookup (m_attrs m) A_PasswordImport)) eqn:Ei; [|exact E2].
  rewrite lookup_upsert_other; [exact E2|]. intros <-. specialize (Hpc eq_refl). discriminate.
Qed.

Lemma apply_mod_fields : forall tick m e,
  e_live (apply_mod tick m e) = e_live e /\ e_owner (apply_mod tick m e) = e_owner e /\
  e_cls (apply_mod tick m e) = union (e_cls e) (m_rc m).
Proof. intros. unfold apply_mod, spn_set. destruct (_ || _); cbn; auto. Qed.

Lemma apply_mod_ok : forall fixp A y yr tick se m e,
  (forall a, mem a yr = true -> mem a y = true) ->
  e_live e = true -> owner_is A e = true -> entry_mod fixp y se = Some m ->
  (is_some (lookup (se_attrs se) A_PasswordImport) = true -> mem A_PrimaryCredential yr = false) ->
  mod_ok A yr e (apply_mod tick m e).
Proof.
  intros fixp A y yr tick se m e Hinc L O Hm Himp.
  destruct (entry_mod_props _ _ _ _ Hm) as (Hrc & Hreal & Hat & Heq & _).
  destruct (apply_mod_fields tick m e) as (Fl & Fo & Fc).
  unfold mod_ok. split; [exact L|]. split; [exact O|].
  split; [rewrite (owner_is_eq A e _ Fo); exact O|]. split; [|split].
  - intros a Hne.
    destruct (mem a (m_real m)) eqn:Er.
    + destruct (Hreal a Er) as [H1 H2]. split; [exact H1|].
      destruct (mem a yr) eqn:Ey; [|reflexivity]. apply Hinc in Ey. congruence.
    + destruct (N.eq_dec a A_PrimaryCredential) as [->|Hna].
      * destruct (is_some (lookup (m_attrs m) A_PasswordImport)) eqn:Ei.
        -- split; [reflexivity|]. apply Himp. rewrite <- Heq. exact Ei.
        -- exfalso. apply Hne. symmetry. apply aget_apply_mod; auto.
      * exfalso. apply Hne. symmetry. apply aget_apply_mod; auto. intros; contradiction.
  - intros c Hc. rewrite Fc, mem_union in Hc. apply orb_true_iff in Hc as [Hc|Hc]; [left; exact Hc | right; auto].
  - intros c Hc. rewrite Fc, mem_union, Hc. reflexivity.
Qed.

Lemma mods_of_lookup : forall fixp y cm ms, mods_of fixp y cm = Some ms ->
  forall i m, lookup ms i = Some m -> exists se, lookup cm i = Some se /\ entry_mod fixp y se = Some m.
Proof.
  intros fixp y. induction cm as [|[k se] r IH]; intros ms H i m Hl; cbn [mods_of] in H.
  - injection H as <-. discriminate.
  - destruct (entry_mod fixp y se) as [m0|] eqn:Em; [|discriminate].
    destruct (mods_of fixp y r) as [ms'|] eqn:Er; [|discriminate]. injection H as <-.
    cbn [lookup] in *. destruct (i =? k).
    + injection Hl as <-. eauto.
    + eapply IH; eauto.
Qed.

Lemma phase3_ok : forall fixp A y yr tick cm es es3 st,
  phase3 fixp A y tick cm es = inr es3 ->
  (forall a, mem a yr = true -> mem a y = true) ->
  (forall i e, In i (keys cm) -> lookup es i = Some e -> e_live e = true) ->
  (fixp = true \/ forall i se, lookup cm i = Some se -> has_import se = true -> mem A_PrimaryCredential yr = false) ->
  forall i, EOK A yr st i (lookup es i) (lookup es3 i).
Proof.
  intros fixp A y yr tick cm es es3 st H Hinc Hlive Hph i. unfold phase3 in H.
  destruct cm as [|c0 cmr] eqn:Ecm.
  - injection H as <-. destruct (lookup es i); cbn; auto.
  - rewrite <- Ecm in *. clear Ecm c0 cmr.
    destruct (mods_of fixp y cm) as [ms|] eqn:Ems; [|discriminate].
    destruct (existsb _ (keys ms)) eqn:Eas in H; [discriminate|].
    destruct (existsb _ ms) eqn:E1 in H; [discriminate|].
    destruct (existsb _ ms) eqn:E2 in H; [discriminate|].
    injection H as <-. rewrite lookup_map_vals.
    destruct (lookup es i) as [e|] eqn:Ee; cbn [option_map EOK]; [|exact I].
    destruct (lookup ms i) as [m|] eqn:Em; [|left; reflexivity]. right.
    destruct (mods_of_lookup _ _ _ _ Ems i m Em) as [se [Hse Hmod]].
    pose proof (existsb_false _ _ _ Eas i (lookup_Some_keys _ _ _ _ Em)) as Ho. cbn beta in Ho.
    unfold owned_at in Ho. rewrite Ee in Ho.
    eapply apply_mod_ok; eauto.
    + eapply Hlive; eauto. eapply lookup_Some_keys; eauto.
    + destruct (owner_is A e); [reflexivity | discriminate].
    + intros Himp. destruct Hph as [->|Hph].
      * destruct (entry_mod_props _ _ _ _ Hmod) as (_ & _ & _ & Heq & Hfix).
        rewrite <- Heq in Himp. specialize (Hfix eq_refl Himp).
        destruct (mem A_PrimaryCredential yr) eqn:Ey; [|reflexivity]. apply Hinc in Ey. congruence.
      * eapply Hph; eauto.
Qed.

(* ------------------------------------------------------------------ the whole request *)
Lemma fold_upsert_inv : forall (P : N -> sent -> Prop) l acc,
  (forall i se, lookup acc i = Some se -> P i se) ->
  (forall se, In se l -> P (se_id se) se) ->
  forall i se, lookup (fold_left (fun acc se => upsert (se_id se) se acc) l acc) i = Some se -> P i se.
Proof.
  intros P. induction l as [|x r IH]; intros acc Hacc Hl i se H; cbn [fold_left] in H.
  - apply Hacc. exact H.
  - eapply IH; [| |exact H].
    + intros j se' Hj. destruct (N.eq_dec (se_id x) j) as [E|E].
      * subst j. rewrite lookup_upsert_same in Hj. injection Hj as <-. apply Hl. left. reflexivity.
      * rewrite lookup_upsert_other in Hj by exact E. apply Hacc. exact Hj.
    + intros se' Hin. apply Hl. right. exact Hin.
Qed.

Lemma cmap_lookup : forall l i se, lookup (cmap l) i = Some se -> In se l /\ se_id se = i.
Proof.
  intros l i se H. unfold cmap in H.
  apply (fold_upsert_inv (fun i se => In se l /\ se_id se = i) l []) in H; [exact H | discriminate | auto].
Qed.

Lemma phase1_ok : forall s r a, phase1 s r = inr a ->
  r_ik r = IKSynch /\ lookup (s_agrs s) (r_agr r) = Some a.
Proof.
  intros s r a H. unfold phase1 in H. destruct (r_ik r); try discriminate.
  destruct (lookup (s_agrs s) (r_agr r)) as [a0|]; [|discriminate].
  split; [reflexivity|].
  destruct (r_from r) as [|c]; [injection H as ->; reflexivity|].
  destruct (a_cookie a0) as [c'|]; [|discriminate].
  destruct (c =? c'); [injection H as ->; reflexivity | discriminate].
Qed.

Lemma phase5_other : forall A to agrs k, k <> A -> lookup (phase5 A to agrs) k = lookup agrs k.
Proof.
  intros A to agrs k H. unfold phase5. rewrite lookup_map_vals.
  destruct (lookup agrs k); cbn [option_map]; [|reflexivity].
  destruct (N.eqb_spec k A); [contradiction | reflexivity].
Qed.

Lemma phase5_yield : forall A to agrs,
  match lookup (phase5 A to agrs) A with Some a => a_yield a | None => [] end =
  match lookup agrs A with Some a => a_yield a | None => [] end.
Proof.
  intros A to agrs. unfold phase5. rewrite lookup_map_vals.
  destruct (lookup agrs A); cbn [option_map]; [|reflexivity]. rewrite N.eqb_refl. reflexivity.
Qed.

Lemma sync_apply_rel : forall fixr fixp s r s' yr strict,
  sync_apply fixr fixp s r = inr s' ->
  (forall a, mem a yr = true -> mem a (yield_of s (r_agr r)) = true) ->
  (strict = true -> fixr = true \/ known_reserved s (OSync r) = false) ->
  (fixp = true \/ (existsb has_import (r_ents r) = true -> mem A_PrimaryCredential yr = false)) ->
  r_ik r = IKSynch /\
  (forall i, EOK (r_agr r) yr strict i (lookup (s_ents s) i) (lookup (s_ents s') i)) /\
  (forall k, k <> r_agr r -> lookup (s_agrs s') k = lookup (s_agrs s) k) /\
  yield_of s' (r_agr r) = yield_of s (r_agr r) /\ s_tick s' = s_tick s.
Proof.
  intros fixr fixp s r s' yr strict H Hinc Hres Hph. unfold sync_apply in H.
  destruct (phase1 s r) as [e|a] eqn:E1; [discriminate|].
  destruct (phase1_ok _ _ _ E1) as [Hik Ha].
  set (A := r_agr r) in *. set (cm := cmap (r_ents r)) in *.
  assert (Hy : yield_of s A = a_yield a) by (unfold yield_of; rewrite Ha; reflexivity).
  destruct (phase2 fixr A cm (s_ents s)) as [e|es1] eqn:E2; [discriminate|].
  set (es2 := match r_from r with SRefresh => del_not_in A (keys cm) es1 | SActive _ => es1 end) in *.
  destruct (phase3 fixp A (a_yield a) (s_tick s) cm es2) as [e|es3] eqn:E3; [discriminate|].
  destruct (phase4 A (r_retain r) es3) as [e|es4] eqn:E4; [discriminate|].
  injection H as <-. cbn [s_ents s_agrs s_tick].
  assert (Hcm : forall i, In i (keys cm) -> exists se, In se (r_ents r) /\ se_id se = i).
  { intros i Hi. apply keys_lookup in Hi as [se Hse]. exists se. apply cmap_lookup. exact Hse. }
  destruct (phase2_ok fixr A yr cm (s_ents s) es1 strict E2) as [H12 Hlive].
  { intros Hst. destruct (Hres Hst) as [Hf|Hk]; [left; exact Hf | right].
    intros i Hi Hn. destruct (Hcm i Hi) as [se [Hin Hid]]. cbn [known_reserved] in Hk.
    pose proof (existsb_false _ _ _ Hk se Hin) as Hx. cbn beta in Hx. rewrite Hid, Hn in Hx.
    cbn in Hx. rewrite andb_true_r in Hx. apply N.ltb_ge. exact Hx. }
  assert (H23 : forall i, EOK A yr strict i (lookup es1 i) (lookup es2 i)).
  { intros i. unfold es2. destruct (r_from r); [apply del_not_in_ok|]. destruct (lookup es1 i); cbn; auto. }
  assert (Hlive2 : forall i e, In i (keys cm) -> lookup es2 i = Some e -> e_live e = true).
  { intros i e Hi He. destruct (Hlive i Hi) as [e0 [H0 L0]].
    assert (lookup es2 i = lookup es1 i) as Heq.
    { unfold es2. destruct (r_from r); [|reflexivity]. apply del_not_in_keep. apply mem_In. exact Hi. }
    rewrite Heq, H0 in He. injection He as <-. exact L0. }
  assert (H34 : forall i, EOK A yr strict i (lookup es2 i) (lookup es3 i)).
  { eapply phase3_ok; eauto.
    - intros x Hx. rewrite <- Hy. apply Hinc. exact Hx.
    - destruct Hph as [Hf|Hp]; [left; exact Hf | right].
      intros i se Hse Himp. apply Hp. apply existsb_exists. exists se. split; [|exact Himp].
      apply cmap_lookup in Hse. apply Hse. }
  split; [exact Hik|]. split; [|split; [|split]].
  - intros i. eapply EOK_trans; [apply H12|]. eapply EOK_trans; [apply H23|].
    eapply EOK_trans; [apply H34|]. eapply phase4_ok; eauto.
  - intros k Hk. apply phase5_other. exact Hk.
  - unfold yield_of. cbn [s_agrs]. apply phase5_yield.
  - reflexivity.
Qed.

Lemma known_phantom_false : forall s r,
  known_phantom s (OSync r) = false ->
  existsb has_import (r_ents r) = true -> mem A_PrimaryCredential (yield_of s (r_agr r)) = false.
Proof.
  intros s r H Hi. cbn [known_phantom] in H. rewrite Hi in H. cbn [andb] in H.
  apply orb_false_iff in H as [_ H]. exact H.
Qed.

Lemma sync_apply_ok : forall fixr fixp s r s',
  sync_apply fixr fixp s r = inr s' ->
  (fixr = true \/ known_reserved s (OSync r) = false) ->
  (fixp = true \/ known_phantom s (OSync r) = false) ->
  r_ik r = IKSynch /\
  (forall i, EOK (r_agr r) (yield_of s (r_agr r)) true i (lookup (s_ents s) i) (lookup (s_ents s') i)) /\
  (forall k, k <> r_agr r -> lookup (s_agrs s') k = lookup (s_agrs s) k) /\
  yield_of s' (r_agr r) = yield_of s (r_agr r) /\ s_tick s' = s_tick s.
Proof.
  intros fixr fixp s r s' H Hr Hp. eapply sync_apply_rel; eauto.
  destruct Hp as [Hp|Hp]; [left; exact Hp | right]. apply known_phantom_false. exact Hp.
Qed.

(* without any premise: ownership and synchronisable attributes only *)
Lemma sync_apply_owns : forall fixr fixp s r s',
  sync_apply fixr fixp s r = inr s' ->
  r_ik r = IKSynch /\
  (forall i, EOK (r_agr r) [] false i (lookup (s_ents s) i) (lookup (s_ents s') i)).
Proof.
  intros fixr fixp s r s' H.
  destruct (sync_apply_rel fixr fixp s r s' [] false H) as (H1 & H2 & _).
  - intros a Ha. discriminate.
  - intros Hd. discriminate.
  - right. intros _. reflexivity.
  - split; assumption.
Qed.

(* ------------------------------------------------------------------ user edits and yield *)
Lemma aget_umod_apply : forall m e a, a <> umod_attr m -> aget a (umod_apply m e) = aget a e.
Proof.
  intros m e a Hne. unfold aget, umod_apply. destruct m as [b v|b]; cbn [e_attrs umod_attr] in *.
  - apply lookup_upsert_other. congruence.
  - rewrite (lookup_filter_fst (fun k => negb (k =? b))).
    destruct (N.eqb_spec a b); [contradiction | reflexivity].
Qed.

Lemma spn_set_fields : forall e,
  e_live (spn_set e) = e_live e /\ e_owner (spn_set e) = e_owner e /\ e_cls (spn_set e) = e_cls e /\
  e_scls (spn_set e) = e_scls e /\ e_ext (spn_set e) = e_ext e.
Proof. intros e. unfold spn_set. destruct (_ || _); cbn; auto 6. Qed.

Lemma user_apply_ok : forall s t m s', user_apply s t m = inr s' ->
  s_agrs s' = s_agrs s /\ s_tick s' = s_tick s /\
  (forall i, i <> t -> lookup (s_ents s') i = lookup (s_ents s) i) /\
  exists e e', lookup (s_ents s) t = Some e /\ lookup (s_ents s') t = Some e' /\
    e_live e' = e_live e /\ e_owner e' = e_owner e /\ e_cls e' = e_cls e /\
    e_scls e' = e_scls e /\ e_ext e' = e_ext e /\
    (forall a, a <> umod_attr m -> aget a e' = aget a e) /\
    (has_cls K_SyncObject e = true ->
       exists u, e_owner e = Some u /\ mem (umod_attr m) (SYNC_BASE ++ yield_of s u) = true).
Proof.
  intros s t m s' H. unfold user_apply in H.
  destruct (t <? DYN_MIN); [discriminate|].
  destruct (lookup (s_ents s) t) as [e|] eqn:Ee; [|discriminate].
  destruct (negb (e_live e)); [discriminate|].
  destruct (negb (mem (umod_attr m) ACP_ATTRS)); [discriminate|].
  destruct (sync_constrain s e) as [c|] eqn:Ec; [|discriminate].
  destruct (match c with Some l => negb (mem (umod_attr m) l) | None => false end) eqn:Ea; [discriminate|].
  destruct (spn_fail (umod_apply m e)); [discriminate|].
  destruct (negb (schema_ok (spn_set (umod_apply m e)))); [discriminate|].
  injection H as <-. cbn [s_ents s_agrs s_tick].
  split; [reflexivity|]. split; [reflexivity|]. split.
  - intros i Hi. rewrite lookup_map_vals. destruct (lookup (s_ents s) i); cbn [option_map]; [|reflexivity].
    destruct (N.eqb_spec i t); [contradiction | reflexivity].
  - exists e, (spn_set (umod_apply m e)). split; [reflexivity|]. split.
    { rewrite lookup_map_vals, Ee. cbn [option_map]. rewrite N.eqb_refl. reflexivity. }
    destruct (spn_set_fields (umod_apply m e)) as (F1 & F2 & F3 & F4 & F5).
    rewrite F1, F2, F3, F4, F5. cbn. repeat (split; [reflexivity|]). split.
    + intros a Ha. rewrite aget_spn_set. apply aget_umod_apply. exact Ha.
    + intros Hs. unfold sync_constrain in Ec. rewrite Hs in Ec.
      destruct (e_owner e) as [u|]; [|discriminate]. injection Ec as <-.
      exists u. split; [reflexivity|]. apply negb_false_iff in Ea. exact Ea.
Qed.

Lemma yield_apply_ok : forall s A ys s', yield_apply s A ys = inr s' ->
  s_ents s' = s_ents s /\ s_tick s' = s_tick s /\
  (forall k, k <> A -> lookup (s_agrs s') k = lookup (s_agrs s) k).
Proof.
  intros s A ys s' H. unfold yield_apply in H.
  destruct (lookup (s_agrs s) A); [|discriminate]. injection H as <-. cbn.
  split; [reflexivity|]. split; [reflexivity|].
  intros k Hk. rewrite lookup_map_vals. destruct (lookup (s_agrs s) k); cbn [option_map]; [|reflexivity].
  destruct (N.eqb_spec k A); [contradiction | reflexivity].
Qed.

(* ------------------------------------------------------------------ steps *)
Definition apply_op (fixr fixp : bool) (s : st) (o : op) : err + st :=
  match o with
  | OSync r => sync_apply fixr fixp s r
  | OYield A ys => yield_apply s A ys
  | OUser t m => user_apply s t m
  end.

Lemma step_unfold : forall fixr fixp s o,
  step fixr fixp s o =
  match apply_op fixr fixp s o with
  | inl e => (RErr e, mkS (s_ents s) (s_agrs s) (s_tick s + 1))
  | inr s' => (ROk, mkS (s_ents s') (s_agrs s') (s_tick s + 1))
  end.
Proof. intros. unfold step, apply_op. destruct o; reflexivity. Qed.

Lemma step_err : forall fixr fixp s o e s', step fixr fixp s o = (RErr e, s') ->
  s_ents s' = s_ents s /\ s_agrs s' = s_agrs s.
Proof.
  intros fixr fixp s o e s' H. rewrite step_unfold in H.
  destruct (apply_op fixr fixp s o); [|discriminate]. injection H as _ <-. auto.
Qed.

Lemma step_ok : forall fixr fixp s o s', step fixr fixp s o = (ROk, s') ->
  exists s1, apply_op fixr fixp s o = inr s1 /\ s_ents s' = s_ents s1 /\ s_agrs s' = s_agrs s1.
Proof.
  intros fixr fixp s o s' H. rewrite step_unfold in H.
  destruct (apply_op fixr fixp s o) as [e|s1]; [discriminate|]. injection H as <-. eauto.
Qed.

(* ------------------------------------------------------------------ the executable predicate *)
Lemma changed_true : forall e e' a, changed e e' a = true -> aget a e <> aget a e'.
Proof.
  intros e e' a H Heq. unfold changed in H. apply negb_true_iff in H.
  apply (proj2 (opt_eqb_eq _ _)) in Heq. congruence.
Qed.

Lemma EOK_bool : forall A y i o o', EOK A y true i o o' -> sync_ent_ok A y i o o' = true.
Proof.
  intros A y i [e|] [e'|]; cbn [EOK sync_ent_ok]; try tauto; try discriminate.
  - intros [->|(L & O & O' & S & Ga & Gb)].
    + rewrite (proj2 (entry_eqb_eq e' e') eq_refl). reflexivity.
    + apply orb_true_iff. right. rewrite L, O, O'. cbn [andb].
      rewrite !andb_true_iff. split; [split|].
      * apply forallb_forall. intros a _. destruct (changed e e' a) eqn:Ec; [|reflexivity].
        cbn [negb orb]. destruct (S a (changed_true _ _ _ Ec)) as [H1 H2]. rewrite H1, H2. reflexivity.
      * apply forallb_forall. intros c Hc. apply mem_In in Hc. destruct (Ga c Hc) as [H|H]; rewrite H; [reflexivity|].
        apply orb_true_r.
      * apply forallb_forall. intros c Hc. apply mem_In in Hc. apply Gb. exact Hc.
  - intros [Ho Hs]. destruct (Hs eq_refl) as [Hi Hb]. rewrite Ho, Hb. apply N.leb_le in Hi. rewrite Hi. reflexivity.
Qed.

Lemma same_data_refl : forall s s', s_ents s' = s_ents s -> s_agrs s' = s_agrs s -> same_data s s' = true.
Proof.
  intros s s' He Ha. unfold same_data. rewrite He, Ha.
  rewrite (proj2 (ents_eqb_eq _ _) eq_refl), (proj2 (agrs_eqb_eq _ _) eq_refl). reflexivity.
Qed.

Lemma agr_forall : forall A s s', (forall k, k <> A -> lookup (s_agrs s') k = lookup (s_agrs s) k) ->
  forallb (fun k => (k =? A) || oagr_eqb (lookup (s_agrs s) k) (lookup (s_agrs s') k)) (all_agrs s s') = true.
Proof.
  intros A s s' H. apply forallb_forall. intros k _. destruct (N.eqb_spec k A) as [->|Hk]; [reflexivity|].
  rewrite (H k Hk). cbn [orb]. apply oagr_eqb_refl.
Qed.

(* the model's own steps satisfy the executable property outside the known classes *)
Lemma step_pcheck : forall fixr fixp s o r s',
  step fixr fixp s o = (r, s') -> known_step fixr fixp s o r = false -> pcheck_step s o r s' = true.
Proof.
  intros fixr fixp s o r s' H Hk. destruct r as [|e].
  - destruct (step_ok _ _ _ _ _ H) as [s1 [Ha [He Hg]]]. cbn [known_step] in Hk.
    apply orb_false_iff in Hk as [Kr Kp]. cbn [pcheck_step].
    destruct o as [rq|A ys|t m]; cbn [apply_op] in Ha.
    + assert (Hr : fixr = true \/ known_reserved s (OSync rq) = false).
      { destruct fixr; [left; reflexivity | right; exact Kr]. }
      assert (Hp : fixp = true \/ known_phantom s (OSync rq) = false).
      { destruct fixp; [left; reflexivity | right; exact Kp]. }
      destruct (sync_apply_ok _ _ _ _ _ Ha Hr Hp) as (Hik & Hents & Hag & Hy & _).
      rewrite Hik. cbn [andb]. rewrite !andb_true_iff. split; [split|].
      * apply forallb_forall. intros i _. apply EOK_bool. rewrite He. apply Hents.
      * apply agr_forall. intros k Hk. rewrite Hg. apply Hag. exact Hk.
      * apply ln_eqb_eq. unfold yield_of in *. rewrite Hg. symmetry. exact Hy.
    + destruct (yield_apply_ok _ _ _ _ Ha) as (H1 & _ & H3).
      apply andb_true_iff. split.
      * apply ents_eqb_eq. rewrite He, H1. reflexivity.
      * apply agr_forall. intros k Hk. rewrite Hg. apply H3. exact Hk.
    + destruct (user_apply_ok _ _ _ _ Ha) as (H1 & _ & H3 & e0 & e1 & L0 & L1 & F1 & F2 & F3 & F4 & F5 & Hat & Hsy).
      apply andb_true_iff. split.
      * apply agrs_eqb_eq. rewrite Hg, H1. reflexivity.
      * apply forallb_forall. intros i _. rewrite He. destruct (N.eqb_spec i t) as [->|Hi].
        -- rewrite L0, L1. cbn [user_ent_ok]. rewrite F1, F2, F3, F4, F5.
           rewrite (proj2 (bool_eqb_eq _ _) eq_refl), !(proj2 (opt_eqb_eq _ _) eq_refl), !(proj2 (ln_eqb_eq _ _) eq_refl).
           cbn [andb]. destruct (has_cls K_SyncObject e0) eqn:Es; [|reflexivity]. cbn [negb orb].
           destruct (Hsy eq_refl) as [u [Hu Hm]]. rewrite Hu.
           apply forallb_forall. intros a _. destruct (changed e0 e1 a) eqn:Ec; [|reflexivity]. cbn [negb orb].
           destruct (N.eq_dec a (umod_attr m)) as [->|Hne]; [exact Hm|].
           exfalso. apply (changed_true _ _ _ Ec). symmetry. apply Hat. exact Hne.
        -- rewrite (H3 i Hi). apply oent_eqb_refl.
  - destruct (step_err _ _ _ _ _ _ H) as [He Ha]. cbn [pcheck_step]. apply same_data_refl; assumption.
Qed.

(* the bridge: agreement of the implementation with the model transfers the property *)
Lemma agree_pcheck : forall c, agree c = true -> pcheck c = true.
Proof.
  intros [s o r s'|cl al] Ha; [|reflexivity]. cbn [agree pcheck] in *.
  destruct (step_tree s o) as [r1 s1] eqn:Es. apply andb_true_iff in Ha as [Hr Hs].
  apply res_eqb_eq in Hr. apply st_eqb_eq in Hs. subst r1 s1.
  eapply step_pcheck; [exact Es|]. destruct r; reflexivity.
Qed.

(* ------------------------------------------------------------------ histories *)
Definition sync_only (ops : list op) : Prop := forall o, In o ops -> exists r, o = OSync r.

(* one synchronisation step never changes an entry that the requesting agreement does not own *)
Lemma sync_step_foreign : forall fixr fixp s r i e,
  lookup (s_ents s) i = Some e -> owner_is (r_agr r) e = false ->
  lookup (s_ents (snd (step fixr fixp s (OSync r)))) i = Some e.
Proof.
  intros fixr fixp s r i e Hl Ho. rewrite step_unfold. cbn [apply_op].
  destruct (sync_apply fixr fixp s r) as [er|s1] eqn:Ea; cbn [snd s_ents]; [exact Hl|].
  destruct (sync_apply_owns _ _ _ _ _ Ea) as [_ H]. specialize (H i). rewrite Hl in H.
  destruct (lookup (s_ents s1) i) as [e'|]; cbn [EOK] in H; [|contradiction].
  destruct H as [<-|(_ & O & _)]; [reflexivity | congruence].
Qed.

Lemma run_cons : forall fixr fixp s o ops,
  run fixr fixp s (o :: ops) = run fixr fixp (snd (step fixr fixp s o)) ops.
Proof. reflexivity. Qed.

Lemma run_sync_foreign : forall fixr fixp ops s i e (P : N -> Prop),
  (forall o, In o ops -> exists r, o = OSync r /\ ~ P (r_agr r)) ->
  lookup (s_ents s) i = Some e -> (forall A, owner_is A e = true -> P A) ->
  lookup (s_ents (run fixr fixp s ops)) i = Some e.
Proof.
  intros fixr fixp ops. induction ops as [|o r IH]; intros s i e P Hops Hl Hown; [exact Hl|].
  rewrite run_cons. destruct (Hops o (or_introl eq_refl)) as [rq [-> Hn]].
  eapply IH; eauto.
  - intros o' Ho'. apply Hops. right. exact Ho'.
  - apply sync_step_foreign; [exact Hl|].
    destruct (owner_is (r_agr rq) e) eqn:E; [|reflexivity]. exfalso. apply Hn, Hown, E.
Qed.

(* every operation keeps every entry and its owner *)
Lemma step_owner_stable : forall fixr fixp s o i e,
  lookup (s_ents s) i = Some e ->
  exists e', lookup (s_ents (snd (step fixr fixp s o))) i = Some e' /\ e_owner e' = e_owner e.
Proof.
  intros fixr fixp s o i e Hl. rewrite step_unfold.
  destruct (apply_op fixr fixp s o) as [er|s1] eqn:Ea; cbn [snd s_ents]; [eauto|].
  destruct o as [rq|A ys|t m]; cbn [apply_op] in Ea.
  - destruct (sync_apply_owns _ _ _ _ _ Ea) as [_ H]. specialize (H i). rewrite Hl in H.
    destruct (lookup (s_ents s1) i) as [e'|]; cbn [EOK] in H; [|contradiction].
    exists e'. split; [reflexivity|]. destruct H as [<-|(_ & O & O' & _)]; [reflexivity|].
    unfold owner_is in O, O'. destruct (e_owner e), (e_owner e'); try discriminate.
    apply N.eqb_eq in O, O'. congruence.
  - destruct (yield_apply_ok _ _ _ _ Ea) as (H1 & _). rewrite H1. eauto.
  - destruct (user_apply_ok _ _ _ _ Ea) as (_ & _ & H3 & e0 & e1 & L0 & L1 & _ & F2 & _).
    destruct (N.eq_dec i t) as [->|Hi].
    + rewrite L1. exists e1. split; [reflexivity|]. rewrite F2. congruence.
    + rewrite (H3 i Hi). eauto.
Qed.

Lemma run_owner_stable : forall fixr fixp ops s i e,
  lookup (s_ents s) i = Some e ->
  exists e', lookup (s_ents (run fixr fixp s ops)) i = Some e' /\ e_owner e' = e_owner e.
Proof.
  intros fixr fixp ops. induction ops as [|o r IH]; intros s i e Hl; [eauto|].
  rewrite run_cons. destruct (step_owner_stable fixr fixp s o i e Hl) as [e1 [H1 O1]].
  destruct (IH _ _ _ H1) as [e2 [H2 O2]]. exists e2. split; [exact H2 | congruence].
Qed.

(* ------------------------------------------------------------------ soundness of the predicate *)
Lemma owner_is_Some : forall A e, owner_is A e = true -> e_owner e = Some A.
Proof.
  intros A e H. unfold owner_is in H. destruct (e_owner e); [|discriminate]. apply N.eqb_eq in H. congruence.
Qed.

Lemma pcheck_sound_sync : forall s r s', pcheck_step s (OSync r) ROk s' = true ->
  r_ik r = IKSynch /\
  forall i e', lookup (s_ents s') i = Some e' ->
    match lookup (s_ents s) i with
    | None => e_owner e' = Some (r_agr r) /\ DYN_MIN <= i /\ has_cls K_Builtin e' = false
    | Some e =>
        e = e' \/ (e_live e = true /\ e_owner e = Some (r_agr r) /\ e_owner e' = Some (r_agr r) /\
                   forall a, aget a e <> aget a e' ->
                             mem a SYNCABLE = true /\ mem a (yield_of s (r_agr r)) = false)
    end.
Proof.
  intros s r s' H. cbn [pcheck_step] in H. rewrite !andb_true_iff in H. destruct H as [[[Hik Hents] _] _].
  split; [destruct (r_ik r); try discriminate; reflexivity|].
  intros i e' Hl'. rewrite forallb_forall in Hents.
  assert (Hin : In i (all_ids s s')).
  { unfold all_ids. apply in_or_app. right. eapply lookup_Some_keys; eauto. }
  specialize (Hents i Hin). rewrite Hl' in Hents.
  destruct (lookup (s_ents s) i) as [e|]; cbn [sync_ent_ok] in Hents.
  - apply orb_true_iff in Hents as [He|Hm]; [left; apply entry_eqb_eq; exact He | right].
    rewrite !andb_true_iff in Hm. destruct Hm as [[[[[L O] O'] Hat] _] _].
    split; [exact L|]. split; [apply owner_is_Some; exact O|]. split; [apply owner_is_Some; exact O'|].
    intros a Hne. rewrite forallb_forall in Hat.
    assert (Ha : In a (attr_names e e')).
    { unfold attr_names. apply in_or_app. unfold aget in Hne.
      destruct (lookup (e_attrs e) a) eqn:E1; [left; eapply lookup_Some_keys; eauto|].
      destruct (lookup (e_attrs e') a) eqn:E2; [right; eapply lookup_Some_keys; eauto | congruence]. }
    specialize (Hat a Ha). unfold changed in Hat.
    destruct (opt_eqb (aget a e) (aget a e')) eqn:Eo; [apply opt_eqb_eq in Eo; contradiction|].
    cbn [negb orb] in Hat. apply andb_true_iff in Hat as [H1 H2]. split; [exact H1|].
    destruct (mem a (yield_of s (r_agr r))); [discriminate | reflexivity].
  - rewrite !andb_true_iff in Hents. destruct Hents as [[O Hi] Hb].
    split; [apply owner_is_Some; exact O|]. split; [apply N.leb_le; exact Hi|].
    destruct (has_cls K_Builtin e'); [discriminate | reflexivity].
Qed.

(* ------------------------------------------------------------------ the two scoped statements, both trees *)
Lemma no_reserved_gen : forall fixr fixp s r s' i e',
  step fixr fixp s (OSync r) = (ROk, s') ->
  fixr = true \/ known_reserved s (OSync r) = false ->
  lookup (s_ents s) i = None -> lookup (s_ents s') i = Some e' ->
  DYN_MIN <= i /\ has_cls K_Builtin e' = false.
Proof.
  intros fixr fixp s r s' i e' H Hk Hl Hl'. destruct (step_ok _ _ _ _ _ H) as [s1 [Ha [He _]]]. cbn [apply_op] in Ha.
  destruct (sync_apply_rel fixr fixp s r s1 [] true Ha) as (_ & Hr & _).
  - intros a Hx. discriminate.
  - intros _. exact Hk.
  - right. intros _. reflexivity.
  - specialize (Hr i). rewrite He in Hl'. rewrite Hl, Hl' in Hr. cbn [EOK] in Hr. apply Hr. reflexivity.
Qed.

Lemma attrs_scoped_gen : forall fixr fixp s r s' i e e' a,
  step fixr fixp s (OSync r) = (ROk, s') ->
  fixp = true \/ known_phantom s (OSync r) = false ->
  lookup (s_ents s) i = Some e -> lookup (s_ents s') i = Some e' -> aget a e <> aget a e' ->
  mem a SYNCABLE = true /\ mem a (yield_of s (r_agr r)) = false.
Proof.
  intros fixr fixp s r s' i e e' a H Hk Hl Hl' Hne.
  destruct (step_ok _ _ _ _ _ H) as [s1 [Ha [He _]]]. cbn [apply_op] in Ha.
  destruct (sync_apply_rel fixr fixp s r s1 (yield_of s (r_agr r)) false Ha) as (_ & Hr & _).
  - auto.
  - intros Hd. discriminate.
  - destruct Hk as [Hk|Hk]; [left; exact Hk | right; apply known_phantom_false; exact Hk].
  - specialize (Hr i). rewrite He in Hl'. rewrite Hl, Hl' in Hr. cbn [EOK] in Hr.
    destruct Hr as [->|(_ & _ & _ & S & _)]; [contradiction | apply S; exact Hne].
Qed.

