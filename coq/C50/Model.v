(* KV.C50.Model — synchronisation agreements stay inside their own scope (executable definitions only).
   Transcribes:
     server/lib/src/idm/scim.rs      scim_sync_apply and its phases 1, 2, refresh cleanup, 3
                                     (scim_entry_to_mod), 4, 5
     server/lib/src/plugins/base.rs  Base::pre_create_transform (an internal create below
                                     DYNAMIC_RANGE_MINIMUM_UUID is accepted and tagged `builtin`)
     server/lib/src/plugins/spn.rs   Spn::modify_inner / Entry::generate_spn
     server/lib/src/plugins/cred_import.rs   password_import -> primary_credential
     server/lib/src/server/batch_modify.rs   order: assertions, pre plugins, schema
     server/lib/src/server/access/modify.rs  modify_sync_constrain (user edits of sync objects)
   Uuids, classes, attributes and values are numbers (tables below; harness/src/bin/c50.rs uses the
   same tables and a CSchema case compares them with the live schema on every run).
   Flags [fixr] / [fixp]: true = the code as it is (with /verif/fixes/C50.patch, /repo 7a11b7d),
   false = the code before that fix (documented by the C50_prefix_* theorems). *)
From Coq Require Import List NArith Bool.
Import ListNotations.
Open Scope N_scope.

(* ------------------------------------------------------------------ tables *)
Definition DYN_MIN : N := 281474976710656.      (* DYNAMIC_RANGE_MINIMUM_UUID = 2^48 *)

Definition K_Object : N := 0.
Definition K_SyncObject : N := 1.
Definition K_Group : N := 2.
Definition K_Account : N := 3.
Definition K_Person : N := 4.
Definition K_Builtin : N := 5.
Definition K_NoSuch : N := 9.                   (* a class name the schema does not know *)

Definition A_Name : N := 0.
Definition A_DisplayName : N := 1.
Definition A_Description : N := 2.
Definition A_LegalName : N := 3.
Definition A_GrantUiHint : N := 4.              (* may of group, NOT sync_allowed *)
Definition A_PrimaryCredential : N := 5.
Definition A_PasswordImport : N := 6.           (* phantom, sync_allowed *)
Definition A_Bogus : N := 7.                    (* not in the schema *)
Definition A_UserAuthTokenSession : N := 10.
Definition A_OAuth2Session : N := 11.
Definition A_OAuth2ConsentScopeMap : N := 12.
Definition A_CredentialUpdateIntentToken : N := 13.

(* SchemaClass.sync_allowed *)
Definition sync_classes : list N := [K_Group; K_Account; K_Person].
(* systemmay ++ may ++ systemmust ++ must of a class, cut down to the attributes of this model *)
Definition class_attrs (c : N) : list N :=
  if c =? K_Object then [A_Description]
  else if c =? K_Group then [A_Name; A_Description; A_GrantUiHint]
  else if c =? K_Account then [A_DisplayName]
  else if c =? K_Person then [A_Name; A_LegalName; A_PrimaryCredential; A_UserAuthTokenSession;
                              A_OAuth2Session; A_OAuth2ConsentScopeMap; A_CredentialUpdateIntentToken]
  else [].
(* SchemaAttribute.sync_allowed && !phantom *)
Definition SYNCABLE : list N := [A_Name; A_DisplayName; A_Description; A_LegalName; A_PrimaryCredential].
(* attributes a user may always touch on a synchronised entry (modify_sync_constrain) *)
Definition SYNC_BASE : list N :=
  [A_UserAuthTokenSession; A_OAuth2Session; A_OAuth2ConsentScopeMap; A_CredentialUpdateIntentToken].
(* what the harness' modify access profile grants its user (presence and removal) *)
Definition ACP_ATTRS : list N :=
  [A_Name; A_DisplayName; A_Description; A_LegalName; A_UserAuthTokenSession].

(* ------------------------------------------------------------------ small library *)
Fixpoint mem (x : N) (l : list N) : bool :=
  match l with [] => false | y :: r => (x =? y) || mem x r end.
(* sorted duplicate-free insertion *)
Fixpoint add (x : N) (l : list N) : list N :=
  match l with
  | [] => [x]
  | y :: r => if x =? y then l else if x <? y then x :: l else y :: add x r
  end.
Definition union (a b : list N) : list N := fold_left (fun acc x => add x acc) b a.

Fixpoint lookup {V} (m : list (N * V)) (k : N) : option V :=
  match m with [] => None | (k', v) :: r => if k =? k' then Some v else lookup r k end.
(* replace the first binding of k, or insert before the first larger key *)
Fixpoint upsert {V} (k : N) (v : V) (m : list (N * V)) : list (N * V) :=
  match m with
  | [] => [(k, v)]
  | (k', v') :: r => if k =? k' then (k, v) :: r else if k <? k' then (k, v) :: m else (k', v') :: upsert k v r
  end.
Definition keys {V} (m : list (N * V)) : list N := map fst m.
Definition map_vals {V} (f : N -> V -> V) (m : list (N * V)) : list (N * V) :=
  map (fun kv => (fst kv, f (fst kv) (snd kv))) m.
Definition is_some {V} (o : option V) : bool := match o with Some _ => true | None => false end.

(* ------------------------------------------------------------------ state *)
Record entry := mkE {
  e_live : bool;                 (* false = recycled *)
  e_owner : option N;            (* sync_parent_uuid *)
  e_cls : list N;                (* class, cut down to K_* above; sorted *)
  e_scls : list N;               (* sync_class; sorted *)
  e_ext : option N;              (* sync_external_id *)
  e_spn : bool;                  (* has a stored spn *)
  e_attrs : list (N * N)         (* single valued attributes of this model, sorted by attribute *)
}.
Record agr := mkA { a_cookie : option N; a_yield : list N }.   (* sync_cookie, sync_yield_authority *)
Record st := mkS { s_ents : list (N * entry); s_agrs : list (N * agr); s_tick : N }.

Definition aget (a : N) (e : entry) : option N := lookup (e_attrs e) a.
Definition owner_is (A : N) (e : entry) : bool :=
  match e_owner e with Some u => u =? A | None => false end.
Definition has_cls (c : N) (e : entry) : bool := mem c (e_cls e).
Definition yield_of (s : st) (A : N) : list N :=
  match lookup (s_agrs s) A with Some a => a_yield a | None => [] end.

(* ------------------------------------------------------------------ requests *)
Inductive sch := SCls (c : N) | SBad.           (* SBad: schema urn without the kanidm sync prefix *)
Record sent := mkSE { se_id : N; se_sch : list sch; se_ext : option N; se_attrs : list (N * N) }.
Inductive retain := RIgnore | RRetain (l : list N) | RDelete (l : list N).
Inductive sstate := SRefresh | SActive (c : N).
(* who presents the request: a sync token identity, a Synch origin with read-write scope,
   a user, the internal identity *)
Inductive ikind := IKSynch | IKSynchRW | IKUser | IKInternal.
Record sreq := mkR { r_ik : ikind; r_agr : N; r_from : sstate; r_to : sstate;
                     r_ents : list sent; r_retain : retain }.
Inductive umod := USet (a v : N) | UPurge (a : N).
Inductive op :=
| OSync (r : sreq)                      (* scim_sync_apply, committed only on Ok *)
| OYield (A : N) (ys : list N)          (* administrator sets sync_yield_authority of agreement A *)
| OUser (t : N) (m : umod).             (* a read-write user with ACP_ATTRS modifies entry t *)

Inductive err := EDenied | ESyncState | EEntryState | EAssert | ESchema | EEmpty | ENoMatch | EOther.
Inductive res := ROk | RErr (e : err).

(* ------------------------------------------------------------------ plugins / schema *)
(* Spn::modify_inner: groups and accounts get spn from name; a stored spn survives a missing name *)
Definition spn_fail (e : entry) : bool :=
  (has_cls K_Group e || has_cls K_Account e) && negb (is_some (aget A_Name e)) && negb (e_spn e).
Definition spn_set (e : entry) : entry :=
  if (has_cls K_Group e || has_cls K_Account e)
  then mkE (e_live e) (e_owner e) (e_cls e) (e_scls e) (e_ext e) true (e_attrs e) else e.
(* Entry::validate cut down to the classes and attributes of this model *)
Definition schema_ok (e : entry) : bool :=
  (negb (has_cls K_Account e) || (is_some (aget A_DisplayName e) && has_cls K_Person e))
  && (negb (has_cls K_Person e) || is_some (aget A_Name e))
  && forallb (fun av => existsb (fun c => mem (fst av) (class_attrs c)) (e_cls e)) (e_attrs e).

(* ------------------------------------------------------------------ scim_sync_apply *)
Definition phase1 (s : st) (r : sreq) : err + agr :=
  match r_ik r with
  | IKUser | IKInternal => inl EDenied          (* origin is not Synch *)
  | IKSynchRW => inl EDenied                    (* scope is not Synchronise *)
  | IKSynch =>
      match lookup (s_agrs s) (r_agr r) with
      | None => inl ENoMatch
      | Some a =>
          match r_from r, a_cookie a with
          | SRefresh, _ => inr a
          | SActive c, Some c' => if c =? c' then inr a else inl ESyncState
          | SActive _, None => inl ESyncState
          end
      end
  end.

(* BTreeMap<Uuid, &ScimEntry>: later duplicates win, iteration in uuid order *)
Definition cmap (l : list sent) : list (N * sent) :=
  fold_left (fun acc se => upsert (se_id se) se acc) l [].

Definition stub (A i : N) : entry :=
  mkE true (Some A) (if i <? DYN_MIN then [K_Object; K_SyncObject; K_Builtin] else [K_Object; K_SyncObject]) [] None false [].
Definition add_stub (A : N) (es : list (N * entry)) (i : N) : list (N * entry) :=
  match lookup es i with Some _ => es | None => upsert i (stub A i) es end.
Definition set_ext (x : option N) (e : entry) : entry :=
  mkE (e_live e) (e_owner e) (e_cls e) (e_scls e) x (e_spn e) (e_attrs e).
Definition recycle (e : entry) : entry :=
  mkE false (e_owner e) (e_cls e) (e_scls e) (e_ext e) (e_spn e) (e_attrs e).

Definition owned_at (A : N) (es : list (N * entry)) (i : N) : bool :=
  match lookup es i with Some e => owner_is A e | None => false end.

Definition phase2 (fixr : bool) (A : N) (cm : list (N * sent)) (es : list (N * entry))
  : err + list (N * entry) :=
  match cm with
  | [] => inr es
  | _ =>
    (* masked existing entries *)
    if existsb (fun i => match lookup es i with Some e => negb (e_live e) | None => false end) (keys cm)
    then inl EEntryState
    else if fixr && existsb (fun i => (i <? DYN_MIN) && negb (is_some (lookup es i))) (keys cm)
    then inl EEntryState
    else
      let es1 := fold_left (add_stub A) (keys cm) es in
      let withext := filter (fun kv => is_some (se_ext (snd kv))) cm in
      match withext with
      | [] => inl EEmpty                          (* batch_modify with an empty modset *)
      | _ =>
        if existsb (fun i => negb (owned_at A es1 i)) (keys withext) then inl EAssert
        else inr (map_vals (fun i e => match lookup withext i with
                                        | Some se => set_ext (se_ext se) e
                                        | None => e end) es1)
      end
  end.

(* internal_delete of the live entries of agreement A outside `keep` *)
Definition del_not_in (A : N) (keep : list N) (es : list (N * entry)) : list (N * entry) :=
  map_vals (fun i e => if e_live e && owner_is A e && negb (mem i keep) then recycle e else e) es.
Definition del_in (A : N) (l : list N) (es : list (N * entry)) : list (N * entry) :=
  map_vals (fun i e => if e_live e && owner_is A e && mem i l then recycle e else e) es.

(* requested classes: every schema must carry the prefix and name a sync_allowed class *)
Fixpoint req_classes (l : list sch) : option (list N) :=
  match l with
  | [] => Some []
  | SBad :: _ => None
  | SCls c :: r => if mem c sync_classes
                   then match req_classes r with Some rc => Some (add c rc) | None => None end
                   else None
  end.
Definition phantoms (fixp : bool) (y : list N) : list N :=
  if fixp && (mem A_PasswordImport y || mem A_PrimaryCredential y) then [] else [A_PasswordImport].
Definition real_owned (y rc : list N) : list N :=
  filter (fun a => mem a SYNCABLE && negb (mem a y)) (flat_map class_attrs rc).
Record emod := mkM { m_rc : list N; m_real : list N; m_attrs : list (N * N) }.
Definition entry_mod (fixp : bool) (y : list N) (se : sent) : option emod :=
  match req_classes (se_sch se) with
  | None => None
  | Some rc =>
      let ro := real_owned y rc in
      let ow := ro ++ phantoms fixp y in
      if forallb (fun av => mem (fst av) ow) (se_attrs se) then Some (mkM rc ro (se_attrs se)) else None
  end.
Definition set_attrs (l : list (N * N)) (attrs : list (N * N)) : list (N * N) :=
  fold_left (fun acc av => if fst av =? A_PasswordImport then acc else upsert (fst av) (snd av) acc) l attrs.
(* the modify list of scim_entry_to_mod applied to an entry, then CredImport *)
Definition apply_mod0 (tick : N) (m : emod) (e : entry) : entry :=
  let a1 := filter (fun av => negb (mem (fst av) (m_real m))) (e_attrs e) in
  let a2 := set_attrs (m_attrs m) a1 in
  let a3 := if is_some (lookup (m_attrs m) A_PasswordImport) then upsert A_PrimaryCredential tick a2 else a2 in
  mkE (e_live e) (e_owner e) (union (e_cls e) (m_rc m)) (union (e_scls e) (m_rc m)) (e_ext e) (e_spn e) a3.
(* ... then Spn *)
Definition apply_mod (tick : N) (m : emod) (e : entry) : entry := spn_set (apply_mod0 tick m e).

Fixpoint mods_of (fixp : bool) (y : list N) (cm : list (N * sent)) : option (list (N * emod)) :=
  match cm with
  | [] => Some []
  | (i, se) :: r =>
      match entry_mod fixp y se with
      | None => None
      | Some m => match mods_of fixp y r with Some ms => Some ((i, m) :: ms) | None => None end
      end
  end.

Definition phase3 (fixp : bool) (A : N) (y : list N) (tick : N) (cm : list (N * sent))
                  (es : list (N * entry)) : err + list (N * entry) :=
  match cm with
  | [] => inr es
  | _ =>
    match mods_of fixp y cm with
    | None => inl EEntryState
    | Some ms =>
        if existsb (fun i => negb (owned_at A es i)) (keys ms) then inl EAssert
        else if existsb (fun im => match lookup es (fst im) with
                                   | Some e => spn_fail (apply_mod0 tick (snd im) e) | None => true end) ms
        then inl EEntryState
        else if existsb (fun im => match lookup es (fst im) with
                                   | Some e => negb (schema_ok (apply_mod tick (snd im) e)) | None => true end) ms
        then inl ESchema
        else inr (map_vals (fun i e => match lookup ms i with
                                        | Some m => apply_mod tick m e | None => e end) es)
    end
  end.

Definition phase4 (A : N) (rt : retain) (es : list (N * entry)) : err + list (N * entry) :=
  match rt with
  | RIgnore => inr es
  | RRetain l => inr (del_not_in A l es)
  | RDelete l =>
      if existsb (fun i => match lookup es i with
                           | Some e => e_live e && negb (owner_is A e) | None => false end) l
      then inl EDenied
      else inr (del_in A l es)
  end.

Definition phase5 (A : N) (to : sstate) (agrs : list (N * agr)) : list (N * agr) :=
  map_vals (fun k a => if k =? A then mkA (match to with SActive c => Some c | SRefresh => None end) (a_yield a)
                       else a) agrs.

Definition sync_apply (fixr fixp : bool) (s : st) (r : sreq) : err + st :=
  match phase1 s r with
  | inl e => inl e
  | inr a =>
    let A := r_agr r in
    let cm := cmap (r_ents r) in
    match phase2 fixr A cm (s_ents s) with
    | inl e => inl e
    | inr es1 =>
      let es2 := match r_from r with SRefresh => del_not_in A (keys cm) es1 | SActive _ => es1 end in
      match phase3 fixp A (a_yield a) (s_tick s) cm es2 with
      | inl e => inl e
      | inr es3 =>
        match phase4 A (r_retain r) es3 with
        | inl e => inl e
        | inr es4 => inr (mkS es4 (phase5 A (r_to r) (s_agrs s)) (s_tick s))
        end
      end
    end
  end.

(* ------------------------------------------------------------------ user edits *)
Definition umod_attr (m : umod) : N := match m with USet a _ => a | UPurge a => a end.
Definition umod_apply (m : umod) (e : entry) : entry :=
  let attrs := match m with
               | USet a v => upsert a v (e_attrs e)
               | UPurge a => filter (fun av => negb (fst av =? a)) (e_attrs e)
               end in
  mkE (e_live e) (e_owner e) (e_cls e) (e_scls e) (e_ext e) (e_spn e) attrs.
(* modify_sync_constrain for a user: None = Deny *)
Definition sync_constrain (s : st) (e : entry) : option (option (list N)) :=
  if has_cls K_SyncObject e
  then match e_owner e with
       | Some u => Some (Some (SYNC_BASE ++ yield_of s u))
       | None => None
       end
  else Some None.
Definition user_apply (s : st) (t : N) (m : umod) : err + st :=
  if t <? DYN_MIN then inl EOther                 (* protected range: outside this model *)
  else
  match lookup (s_ents s) t with
  | None => inl ENoMatch
  | Some e =>
      if negb (e_live e) then inl ENoMatch
      else if negb (mem (umod_attr m) ACP_ATTRS) then inl EDenied
      else match sync_constrain s e with
           | None => inl EDenied
           | Some c =>
               if match c with Some l => negb (mem (umod_attr m) l) | None => false end then inl EDenied
               else
                 let e1 := umod_apply m e in
                 if spn_fail e1 then inl EEntryState
                 else if negb (schema_ok (spn_set e1)) then inl ESchema
                 else inr (mkS (map_vals (fun i x => if i =? t then spn_set e1 else x) (s_ents s))
                               (s_agrs s) (s_tick s))
           end
  end.

Definition yield_apply (s : st) (A : N) (ys : list N) : err + st :=
  match lookup (s_agrs s) A with
  | None => inl ENoMatch
  | Some _ => inr (mkS (s_ents s)
                       (map_vals (fun k a => if k =? A then mkA (a_cookie a) (fold_left (fun acc x => add x acc) ys [])
                                             else a) (s_agrs s))
                       (s_tick s))
  end.

(* one operation; a failed operation is rolled back; the tick counts operations *)
Definition step (fixr fixp : bool) (s : st) (o : op) : res * st :=
  let r := match o with
           | OSync r => sync_apply fixr fixp s r
           | OYield A ys => yield_apply s A ys
           | OUser t m => user_apply s t m
           end in
  match r with
  | inl e => (RErr e, mkS (s_ents s) (s_agrs s) (s_tick s + 1))
  | inr s' => (ROk, mkS (s_ents s') (s_agrs s') (s_tick s + 1))
  end.
Definition run (fixr fixp : bool) (s : st) (ops : list op) : st :=
  fold_left (fun s o => snd (step fixr fixp s o)) ops s.

(* the tree this check is run against: /repo contains /verif/fixes/C50.patch (commit 7a11b7d);
   false/false = the tree before it, kept as the `prefix` variant in Props.v *)
Definition tree_fixed_reserved : bool := true.
Definition tree_fixed_phantom : bool := true.
Definition step_tree := step tree_fixed_reserved tree_fixed_phantom.

(* ------------------------------------------------------------------ equality tests *)
Definition opt_eqb (a b : option N) : bool :=
  match a, b with Some x, Some y => x =? y | None, None => true | _, _ => false end.
Fixpoint list_eqb {T} (f : T -> T -> bool) (a b : list T) : bool :=
  match a, b with
  | [], [] => true
  | x :: r, y :: q => f x y && list_eqb f r q
  | _, _ => false
  end.
Definition pair_eqb (a b : N * N) : bool := (fst a =? fst b) && (snd a =? snd b).
Definition entry_eqb (a b : entry) : bool :=
  Bool.eqb (e_live a) (e_live b) && opt_eqb (e_owner a) (e_owner b)
  && list_eqb N.eqb (e_cls a) (e_cls b) && list_eqb N.eqb (e_scls a) (e_scls b)
  && opt_eqb (e_ext a) (e_ext b) && Bool.eqb (e_spn a) (e_spn b)
  && list_eqb pair_eqb (e_attrs a) (e_attrs b).
Definition agr_eqb (a b : agr) : bool :=
  opt_eqb (a_cookie a) (a_cookie b) && list_eqb N.eqb (a_yield a) (a_yield b).
Definition ents_eqb (a b : list (N * entry)) : bool :=
  list_eqb (fun x y => (fst x =? fst y) && entry_eqb (snd x) (snd y)) a b.
Definition agrs_eqb (a b : list (N * agr)) : bool :=
  list_eqb (fun x y => (fst x =? fst y) && agr_eqb (snd x) (snd y)) a b.
Definition st_eqb (a b : st) : bool :=
  ents_eqb (s_ents a) (s_ents b) && agrs_eqb (s_agrs a) (s_agrs b) && (s_tick a =? s_tick b).
Definition err_code (e : err) : N :=
  match e with EDenied => 1 | ESyncState => 2 | EEntryState => 3 | EAssert => 4 | ESchema => 5
             | EEmpty => 6 | ENoMatch => 7 | EOther => 99 end.
Definition res_eqb (a b : res) : bool :=
  match a, b with ROk, ROk => true | RErr x, RErr y => err_code x =? err_code y | _, _ => false end.

(* ------------------------------------------------------------------ the property, executable *)
(* stated on a (before, operation, answer, after) quadruple WITHOUT using the transcription above *)
Definition oent_eqb (a b : option entry) : bool :=
  match a, b with Some x, Some y => entry_eqb x y | None, None => true | _, _ => false end.
Definition oagr_eqb (a b : option agr) : bool :=
  match a, b with Some x, Some y => agr_eqb x y | None, None => true | _, _ => false end.
Definition attr_names (e e' : entry) : list N := keys (e_attrs e) ++ keys (e_attrs e').
Definition changed (e e' : entry) (a : N) : bool := negb (opt_eqb (aget a e) (aget a e')).

(* what agreement A (yield set y) may have done to the entry stored under uuid i *)
Definition sync_ent_ok (A : N) (y : list N) (i : N) (o o' : option entry) : bool :=
  match o, o' with
  | None, None => true
  | Some _, None => false
  | None, Some e' => owner_is A e' && (DYN_MIN <=? i) && negb (has_cls K_Builtin e')
  | Some e, Some e' =>
      entry_eqb e e'
      || (e_live e && owner_is A e && owner_is A e'
          && forallb (fun a => negb (changed e e' a) || (mem a SYNCABLE && negb (mem a y))) (attr_names e e')
          && forallb (fun c => mem c (e_cls e) || mem c sync_classes) (e_cls e')
          && forallb (fun c => mem c (e_cls e')) (e_cls e))
  end.
(* what a user may have done to the entry he addressed *)
Definition user_ent_ok (s : st) (o o' : option entry) : bool :=
  match o, o' with
  | Some e, Some e' =>
      Bool.eqb (e_live e) (e_live e') && opt_eqb (e_owner e) (e_owner e')
      && list_eqb N.eqb (e_cls e) (e_cls e') && list_eqb N.eqb (e_scls e) (e_scls e')
      && opt_eqb (e_ext e) (e_ext e')
      && (negb (has_cls K_SyncObject e)
          || match e_owner e with
             | Some u => forallb (fun a => negb (changed e e' a) || mem a (SYNC_BASE ++ yield_of s u))
                                 (attr_names e e')
             | None => false
             end)
  | None, None => true
  | _, _ => false
  end.
Definition all_ids (s s' : st) : list N := keys (s_ents s) ++ keys (s_ents s').
Definition all_agrs (s s' : st) : list N := keys (s_agrs s) ++ keys (s_agrs s').
Definition same_data (s s' : st) : bool :=
  ents_eqb (s_ents s) (s_ents s') && agrs_eqb (s_agrs s) (s_agrs s').

Definition pcheck_step (s : st) (o : op) (r : res) (s' : st) : bool :=
  match r with
  | RErr _ => same_data s s'                       (* a refused operation changes nothing *)
  | ROk =>
    match o with
    | OSync rq =>
        let A := r_agr rq in
        match r_ik rq with IKSynch => true | _ => false end
        && forallb (fun i => sync_ent_ok A (yield_of s A) i (lookup (s_ents s) i) (lookup (s_ents s') i)) (all_ids s s')
        && forallb (fun k => (k =? A) || oagr_eqb (lookup (s_agrs s) k) (lookup (s_agrs s') k)) (all_agrs s s')
        && list_eqb N.eqb (yield_of s A) (yield_of s' A)
    | OUser t m =>
        agrs_eqb (s_agrs s) (s_agrs s')
        && forallb (fun i => if i =? t then user_ent_ok s (lookup (s_ents s) i) (lookup (s_ents s') i)
                             else oent_eqb (lookup (s_ents s) i) (lookup (s_ents s') i)) (all_ids s s')
    | OYield A _ =>
        ents_eqb (s_ents s) (s_ents s')
        && forallb (fun k => (k =? A) || oagr_eqb (lookup (s_agrs s) k) (lookup (s_agrs s') k)) (all_agrs s s')
    end
  end.

(* the two defect classes of the tree before /verif/fixes/C50.patch (documentation of the pre-fix
   behaviour; no known class remains on the current tree) *)
Definition has_import (se : sent) : bool := is_some (lookup (se_attrs se) A_PasswordImport).
(* reserved-stub: an accepted request names a not yet existing uuid below DYNAMIC_RANGE_MINIMUM_UUID *)
Definition known_reserved (s : st) (o : op) : bool :=
  match o with
  | OSync rq => existsb (fun se => (se_id se <? DYN_MIN) && negb (is_some (lookup (s_ents s) (se_id se)))) (r_ents rq)
  | _ => false
  end.
(* phantom-yield: an accepted request carries password_import while authority over
   primary_credential (or password_import) is yielded to Kanidm *)
Definition known_phantom (s : st) (o : op) : bool :=
  match o with
  | OSync rq => existsb has_import (r_ents rq)
                && (mem A_PasswordImport (yield_of s (r_agr rq)) || mem A_PrimaryCredential (yield_of s (r_agr rq)))
  | _ => false
  end.
Definition known_step (fixr fixp : bool) (s : st) (o : op) (r : res) : bool :=
  match r with
  | ROk => (negb fixr && known_reserved s o) || (negb fixp && known_phantom s o)
  | RErr _ => false
  end.

(* ------------------------------------------------------------------ correspondence *)
Inductive case :=
| CStep (s : st) (o : op) (r : res) (s' : st)       (* observed: state before, operation, answer, state after *)
| CSchema (classes : list (N * (bool * list N)))   (* class code -> sync_allowed, attributes (model universe) *)
          (attrs : list (N * (bool * bool))).      (* attribute code -> sync_allowed, phantom *)

Definition model_classes : list (N * (bool * list N)) :=
  map (fun c => (c, (mem c sync_classes, class_attrs c))) [K_Object; K_Group; K_Account; K_Person; K_Builtin; K_NoSuch].
Definition model_attrs : list (N * (bool * bool)) :=
  map (fun a => (a, (mem a SYNCABLE || (a =? A_PasswordImport), a =? A_PasswordImport)))
      [A_Name; A_DisplayName; A_Description; A_LegalName; A_GrantUiHint; A_PrimaryCredential;
       A_PasswordImport; A_Bogus; A_UserAuthTokenSession].

Definition agree (c : case) : bool :=
  match c with
  | CStep s o r s' => let '(r1, s1) := step_tree s o in res_eqb r1 r && st_eqb s1 s'
  | CSchema cl al =>
      list_eqb (fun x y => (fst x =? fst y) && Bool.eqb (fst (snd x)) (fst (snd y))
                           && list_eqb N.eqb (snd (snd x)) (snd (snd y))) cl model_classes
      && list_eqb (fun x y => (fst x =? fst y) && Bool.eqb (fst (snd x)) (fst (snd y))
                              && Bool.eqb (snd (snd x)) (snd (snd y))) al model_attrs
  end.
Definition pcheck (c : case) : bool :=
  match c with
  | CStep s o r s' => pcheck_step s o r s'
  | CSchema _ _ => true
  end.
Definition known (_ : case) : bool := false.
