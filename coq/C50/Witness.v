(* KV.C50.Witness — non-vacuity: concrete states / requests meeting the hypotheses of the theorems. *)
From Coq Require Import List NArith Bool.
Import ListNotations.
Require Import KV.C50.Model KV.C50.Proofs KV.C50.Props.
Open Scope N_scope.

Definition D (k : N) : N := DYN_MIN + k.
(* agreement 7 owns a group (D 1) and a person (D 2); agreement 8 owns a group (D 3); D 4 is a native
   group, D 5 a recycled entry of agreement 7 *)
Definition w_state : st :=
  mkS [ (D 1, mkE true (Some 7) [K_Object; K_SyncObject; K_Group] [K_Group] (Some 10) true [(A_Name, 10); (A_Description, 1)]);
        (D 2, mkE true (Some 7) [K_Object; K_SyncObject; K_Account; K_Person] [K_Account; K_Person] (Some 20) true
                  [(A_Name, 20); (A_DisplayName, 1); (A_LegalName, 2); (A_PrimaryCredential, 0)]);
        (D 3, mkE true (Some 8) [K_Object; K_SyncObject; K_Group] [K_Group] (Some 30) true [(A_Name, 30)]);
        (D 4, mkE true None [K_Object; K_Group] [] None true [(A_Name, 40); (A_Description, 0)]);
        (D 5, mkE false (Some 7) [K_Object; K_SyncObject; K_Group] [K_Group] (Some 50) true [(A_Name, 50)]) ]
      [ (7, mkA (Some 1) [A_LegalName]); (8, mkA None []) ] 4.

(* an accepted request of agreement 7: renames its group, re-imports the person's password (legalname is
   yielded and left alone), creates D 6, deletes nothing foreign *)
Definition w_req : sreq :=
  mkR IKSynch 7 (SActive 1) (SActive 2)
      [ mkSE (D 1) [SCls K_Group] (Some 11) [(A_Name, 12)];
        mkSE (D 2) [SCls K_Person; SCls K_Account] (Some 20) [(A_Name, 20); (A_DisplayName, 3); (A_PasswordImport, 1)];
        mkSE (D 6) [SCls K_Group] (Some 60) [(A_Name, 60); (A_Description, 2)] ]
      (RDelete [D 1; D 5]).

Example C50_witness_sync_accepted :
  fst (step_tree w_state (OSync w_req)) = ROk /\
  known_reserved w_state (OSync w_req) = false /\ known_phantom w_state (OSync w_req) = false /\
  (* a created entry, a changed one, a deleted one, and the yielded attribute kept *)
  lookup (s_ents w_state) (D 6) = None /\
  option_map e_owner (lookup (s_ents (snd (step_tree w_state (OSync w_req)))) (D 6)) = Some (Some 7) /\
  option_map e_live (lookup (s_ents (snd (step_tree w_state (OSync w_req)))) (D 1)) = Some false /\
  option_map (aget A_LegalName) (lookup (s_ents (snd (step_tree w_state (OSync w_req)))) (D 2)) = Some (Some 2) /\
  option_map (aget A_PrimaryCredential) (lookup (s_ents (snd (step_tree w_state (OSync w_req)))) (D 2)) = Some (Some 4) /\
  pcheck_step w_state (OSync w_req) ROk (snd (step_tree w_state (OSync w_req))) = true.
Proof. vm_compute. repeat split. Qed.

(* out-of-scope requests are refused and leave everything as it was *)
Example C50_witness_refused :
  fst (step_tree w_state (OSync (mkR IKSynch 7 (SActive 1) (SActive 2) [mkSE (D 3) [SCls K_Group] (Some 30) [(A_Name, 31)]] RIgnore))) = RErr EAssert /\
  fst (step_tree w_state (OSync (mkR IKSynch 7 (SActive 1) (SActive 2) [mkSE (D 4) [SCls K_Group] None [(A_Name, 41)]] RIgnore))) = RErr EEmpty /\
  fst (step_tree w_state (OSync (mkR IKSynch 7 (SActive 1) (SActive 2) [mkSE (D 4) [SCls K_Group] (Some 40) [(A_Name, 41)]] RIgnore))) = RErr EAssert /\
  fst (step_tree w_state (OSync (mkR IKSynch 7 (SActive 1) (SActive 2) [] (RDelete [D 4])))) = RErr EDenied /\
  fst (step_tree w_state (OSync (mkR IKSynch 7 (SActive 1) (SActive 2) [mkSE (D 5) [SCls K_Group] (Some 50) [(A_Name, 50)]] RIgnore))) = RErr EEntryState /\
  fst (step_tree w_state (OSync (mkR IKSynch 7 (SActive 1) (SActive 2) [mkSE (D 2) [SCls K_Person; SCls K_Account] (Some 20) [(A_Name, 20); (A_DisplayName, 3); (A_LegalName, 9)]] RIgnore))) = RErr EEntryState /\
  fst (step_tree w_state (OSync (mkR IKSynch 7 (SActive 3) (SActive 2) [] RIgnore))) = RErr ESyncState /\
  fst (step_tree w_state (OSync (mkR IKUser 7 (SActive 1) (SActive 2) [] RIgnore))) = RErr EDenied.
Proof. vm_compute. repeat split. Qed.

(* the two defect classes of the tree before the fix, and their refusal on the current tree *)
Example C50_witness_known_classes :
  fst (step false false refute_reserved_state (OSync refute_reserved_req)) = ROk /\
  known_reserved refute_reserved_state (OSync refute_reserved_req) = true /\
  fst (step true true refute_reserved_state (OSync refute_reserved_req)) = RErr EEntryState /\
  fst (step false false refute_phantom_state (OSync refute_phantom_req)) = ROk /\
  known_phantom refute_phantom_state (OSync refute_phantom_req) = true /\
  fst (step true true refute_phantom_state (OSync refute_phantom_req)) = RErr EEntryState /\
  (* the fixed tree still accepts the in-scope request above, with the same result *)
  step true true w_state (OSync w_req) = step false false w_state (OSync w_req).
Proof. vm_compute. repeat split. Qed.

(* user edits: legalname of the person is yielded by agreement 7, displayname is not *)
Example C50_witness_user :
  fst (step_tree w_state (OUser (D 2) (USet A_LegalName 5))) = ROk /\
  option_map (aget A_LegalName) (lookup (s_ents (snd (step_tree w_state (OUser (D 2) (USet A_LegalName 5))))) (D 2)) = Some (Some 5) /\
  fst (step_tree w_state (OUser (D 2) (USet A_DisplayName 5))) = RErr EDenied /\
  fst (step_tree w_state (OUser (D 2) (UPurge A_UserAuthTokenSession))) = ROk /\
  fst (step_tree w_state (OUser (D 4) (USet A_Description 5))) = ROk /\
  fst (step_tree w_state (OUser (D 5) (USet A_Name 51))) = RErr ENoMatch.
Proof. vm_compute. repeat split. Qed.

(* a history of requests of agreements 7 and 8: the native entry D 4 and (when only 7 speaks) the
   entry D 3 of agreement 8 are untouched *)
Definition w_hist : list op :=
  [ OSync w_req;
    OSync (mkR IKSynch 8 SRefresh (SActive 1) [mkSE (D 3) [SCls K_Group] (Some 30) [(A_Name, 31)]; mkSE (D 4) [SCls K_Group] (Some 40) [(A_Name, 41)]] RIgnore);
    OSync (mkR IKSynch 7 SRefresh SRefresh [] (RRetain [])) ].
Example C50_witness_history :
  sync_only w_hist /\
  (exists e, lookup (s_ents w_state) (D 4) = Some e /\ e_owner e = None
             /\ lookup (s_ents (run false false w_state w_hist)) (D 4) = Some e) /\
  (* the refresh with an empty entry set deleted everything agreement 7 owned *)
  option_map e_live (lookup (s_ents (run false false w_state w_hist)) (D 2)) = Some false /\
  option_map e_live (lookup (s_ents (run false false w_state w_hist)) (D 3)) = Some true.
Proof.
  split; [|vm_compute; repeat split; eexists; repeat split].
  intros o [<-|[<-|[<-|[]]]]; eexists; reflexivity.
Qed.

Example C50_witness_agree :
  agree (CStep w_state (OSync w_req) ROk (snd (step_tree w_state (OSync w_req)))) = true /\
  known (CStep w_state (OSync w_req) ROk (snd (step_tree w_state (OSync w_req)))) = false.
Proof. vm_compute. split; reflexivity. Qed.
