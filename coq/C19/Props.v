(* KV.C19.Props — property theorems only. *)
From Coq Require Import List NArith Bool.
Import ListNotations.
Require Import KV.C19.Model KV.C19.Proofs.
Open Scope N_scope.

(* Uniq d (KV.C19.Proofs): no two entries of the database share a uuid, and two LIVE entries holding a
   common value of a schema-unique attribute (name/spn, gidnumber) are one and the same entry. *)

(* One request, any shape: a create of any number of entries (duplicates inside the request included),
   a rename / gidnumber change hitting any number of entries through its filter, a delete — accepted or
   refused, the database satisfies Uniq afterwards whenever it did before. *)
Theorem C19_inv_local : forall c d, Uniq d ->
  (forall new, Uniq (snd (do_create c new d))) /\
  (forall us fld v, Uniq (snd (do_mod c us fld v d))) /\
  (forall us, Uniq (snd (do_delete c us d))).
Proof.
  intros c d U. split; [|split].
  - intros new. apply do_create_uniq; exact U.
  - intros us fld v. apply do_mod_uniq; exact U.
  - intros us. apply do_delete_uniq; exact U.
Qed.

(* Incremental replication: WHATEVER set of entries the supplier sends (any states, any change ids; only
   "no uuid twice" and "freshly drawn uuids do not collide" are required), the consumer's database
   satisfies Uniq after the apply (uuid clash resolution, per-attribute merge, conflict plugin). *)
Theorem C19_repl_inv : forall me c base inc d,
  Uniq d -> consume_ok base inc d = true -> Uniq (consume me c base inc d).
Proof. exact consume_uniq. Qed.

(* Any number of replicas, any schedule of local requests and replications (separate transactions,
   concurrent writers on different replicas, any clock readings): every replica satisfies Uniq after
   every transaction of every schedule the model accepts. *)
Theorem C19_reachable : forall nrep ops s, run (init nrep) ops = Some s -> Forall Uniq s.
Proof. intros nrep ops s H. exact (run_uniq ops (init nrep) s (init_uniq nrep) H). Qed.

Theorem C19_inv_schedule : forall ops s s', Forall Uniq s -> run s ops = Some s' -> Forall Uniq s'.
Proof. exact run_uniq. Qed.

(* Who becomes a conflict: after the merge, exactly the live entries that hold a unique value also held
   by ANOTHER live entry are moved to the conflict state (both sides of every clash, nobody else), and
   nothing else changes — the consumer's result is this declarative rule applied to the merged database. *)
Theorem C19_conflict_exact : forall me c base inc d,
  Uniq d -> consume_ok base inc d = true ->
  let d1 := merged me c base inc d in
  consume me c base inc d = map (fun x => if clash1 d1 x then to_conflict c x else x) d1.
Proof. exact consume_declarative. Qed.

(* "Identically on every replica", decision level: the set of entries a consumer conflicts is a function
   of the merged database as a SET of entries — not of which side was consumer, of the candidate list, of
   scan order or of server ids.  Two replicas whose merged databases hold the same entries conflict the
   same entries.  (That the merges produce the same entries is C08's order-independence; it is a premise
   here.)  PARTIAL with respect to the property's last clause: see C19_convergence_statement. *)
Theorem C19_symmetric_partial : forall meA cA baseA incA dA meB cB baseB incB dB,
  Uniq dA -> consume_ok baseA incA dA = true ->
  Uniq dB -> consume_ok baseB incB dB = true ->
  let mA := merged meA cA baseA incA dA in
  let mB := merged meB cB baseB incB dB in
  (forall x, In x mA <-> In x mB) ->
  forall x, In x mA ->
    (live x && mem (uuid x) (marks (map uuid incA) mA)) = (live x && mem (uuid x) (marks (map uuid incB) mB)).
Proof.
  intros meA cA baseA incA dA meB cB baseB incB dB UA OA UB OB mA mB Hset x Hx.
  unfold mA, mB. rewrite (marks_exact meA cA baseA incA dA UA OA x Hx).
  rewrite (marks_exact meB cB baseB incB dB UB OB x (proj1 (Hset x) Hx)).
  apply clash1_ext. exact Hset.
Qed.

(* The full last clause of the property — at quiescence all replicas hold the same entries, conflict state
   included — is NOT proved for the model (it needs the convergence of the whole replication engine, C08).
   It is stated here and checked at run time on the implementation's own dumps by `pcheck` (all_same). *)
Definition quiescent (s : sys) : Prop :=
  forall i j ct base, consume_ok base (getr s j) (getr s i) = true ->
    forall x, In x (consume i (ct, i) base (getr s j) (getr s i)) <-> In x (getr s i).
Definition C19_convergence_statement : Prop :=
  forall nrep ops s, run (init nrep) ops = Some s -> quiescent s ->
    forall i j x, i < nrep -> j < nrep -> (In x (getr s i) <-> In x (getr s j)).

(* Soundness of the run-time tie (PARTIAL: covers the per-transaction dumps and the final tracked entries;
   the whole-database dumps, which include built-in entries the model does not track, the equality of
   replicas at quiescence and the "both sides of a clash" scan are checked on the observations only): whenever the implementation's observations
   agree with the model, the property's executable predicate holds on them. *)
Theorem C19_agree_implies_property_partial : forall c, agree c = true ->
  pcheck_steps c = true /\
  match c with CHist _ _ _ final => forallb uniqb final = true end.
Proof.
  intros c H. split; [apply agree_pcheck_steps; exact H|].
  destruct c as [nrep steps full final]. apply agree_final_uniq in H.
  apply forallb_forall. intros d Hd. apply uniqb_complete.
  rewrite Forall_forall in H. apply H. exact Hd.
Qed.

(* What the executable predicates used on the implementation's dumps mean. *)
Theorem C19_pcheck_sound : forall c, pcheck c = true ->
  match c with CHist _ steps full final =>
    (forall o k snap gen, In (Obs o k snap gen) steps ->
       NoDup (map fst gen) /\ forall a b, In a gen -> In b gen -> gshare a b = true -> a = b) /\
    (forall g, In g full ->
       NoDup (map fst g) /\ forall a b, In a g -> In b g -> gshare a b = true -> a = b) /\
    Forall Uniq final
  end.
Proof.
  intros [nrep steps full final] H. unfold pcheck, pcheck_steps in H.
  repeat (apply andb_true_iff in H; let X := fresh "X" in destruct H as [H X]).
  rewrite forallb_forall in H. rewrite forallb_forall in X2. rewrite forallb_forall in X1.
  split; [|split].
  - intros o k snap gen Hin. apply guniqb_sound. exact (H _ Hin).
  - intros g Hg. apply guniqb_sound. exact (X2 _ Hg).
  - apply Forall_forall. intros d Hd. apply uniqb_sound. exact (X1 _ Hd).
Qed.
