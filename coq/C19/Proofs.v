(* KV.C19.Proofs — lemmas about KV.C19.Model. *)
From Coq Require Import List NArith Bool Lia Permutation.
Import ListNotations.
Require Import KV.C19.Model.
Open Scope N_scope.

(* ------------------------------------------------------------------ the invariant *)
(* no two entries share a uuid (whatever their state); two LIVE entries that hold a common value of a
   unique attribute are the same entry *)
Definition Uniq (d : db) : Prop :=
  NoDup (map uuid d) /\
  forall e f, In e d -> In f d -> live e = true -> live f = true -> share e f = true -> uuid e = uuid f.

Definition AllUniq (s : sys) : Prop := Forall Uniq s.

(* ------------------------------------------------------------------ basics *)
Lemma mem_In : forall x l, mem x l = true <-> In x l.
Proof.
  intros x l. unfold mem. rewrite existsb_exists. split.
  - intros [y [Hy He]]. apply N.eqb_eq in He. subst. exact Hy.
  - intros H. exists x. split; [exact H | apply N.eqb_refl].
Qed.

Lemma mem_false : forall x l, mem x l = false <-> ~ In x l.
Proof.
  intros x l. rewrite <- mem_In. destruct (mem x l); split; intros; congruence.
Qed.

Lemma dupN_NoDup : forall l, dupN l = false <-> NoDup l.
Proof.
  induction l as [|x r IH]; cbn [dupN].
  - split; [constructor | reflexivity].
  - rewrite orb_false_iff, IH, mem_false. split.
    + intros [A B]. constructor; assumption.
    + intros H. inversion H; subst. split; assumption.
Qed.

Lemma share_sym : forall e f, share e f = share f e.
Proof.
  intros e f. unfold share. rewrite (N.eqb_sym (name e) (name f)), (N.eqb_sym (spn e) (spn f)).
  destruct (gid e), (gid f); try reflexivity. rewrite (N.eqb_sym n n0). reflexivity.
Qed.

Lemma NoDup_app_intro : forall (A : Type) (l l' : list A),
  NoDup l -> NoDup l' -> (forall x, In x l -> ~ In x l') -> NoDup (l ++ l').
Proof.
  intros A l l' Hl Hl' Hd. induction Hl as [|x l Hx Hl IH]; cbn.
  - exact Hl'.
  - constructor.
    + rewrite in_app_iff. intros [H|H]; [contradiction|]. apply (Hd x); [left; reflexivity | exact H].
    + apply IH. intros y Hy. apply Hd. right. exact Hy.
Qed.

Lemma NoDup_map_filter : forall (A B : Type) (f : A -> B) (p : A -> bool) (l : list A),
  NoDup (map f l) -> NoDup (map f (filter p l)).
Proof.
  intros A B f p l. induction l as [|a r IH]; cbn; intros H.
  - constructor.
  - inversion H as [|? ? Hn Hr]; subst. destruct (p a); cbn.
    + constructor.
      * intros Hin. apply Hn. apply in_map_iff in Hin. destruct Hin as [y [Hy Hin]].
        apply filter_In in Hin. apply in_map_iff. exists y. split; [exact Hy | apply Hin].
      * apply IH. exact Hr.
    + apply IH. exact Hr.
Qed.

Lemma uuid_inj_in : forall (l : list ent) x y,
  NoDup (map uuid l) -> In x l -> In y l -> uuid x = uuid y -> x = y.
Proof.
  induction l as [|a r IH]; intros x y Hn Hx Hy He; [contradiction|].
  cbn in Hn. inversion Hn as [|? ? Hna Hnr]; subst.
  destruct Hx as [Hx|Hx], Hy as [Hy|Hy]; subst.
  - reflexivity.
  - exfalso. apply Hna. rewrite He. apply in_map. exact Hy.
  - exfalso. apply Hna. rewrite <- He. apply in_map. exact Hx.
  - apply IH; assumption.
Qed.

Lemma Uniq_nil : Uniq [].
Proof. split; [constructor | intros e f []]. Qed.

(* ------------------------------------------------------------------ local write path *)
Lemma dup_in_false : forall l e f,
  dup_in l = false -> In e l -> In f l -> share e f = true -> e = f.
Proof.
  induction l as [|a r IH]; intros e f Hd He Hf Hs; [contradiction|].
  cbn [dup_in] in Hd. apply orb_false_iff in Hd. destruct Hd as [Ha Hr].
  assert (Hex : forall x, In x r -> share a x = false).
  { intros x Hx. destruct (share a x) eqn:E; [|reflexivity].
    assert (existsb (share a) r = true) by (apply existsb_exists; exists x; split; assumption).
    congruence. }
  destruct He as [He|He], Hf as [Hf|Hf]; subst.
  - reflexivity.
  - rewrite (Hex f Hf) in Hs. discriminate.
  - rewrite share_sym, (Hex e He) in Hs. discriminate.
  - apply IH; assumption.
Qed.

Lemma db_clash_false : forall d cands c x,
  db_clash d cands = false -> In c cands -> In x d -> live x = true -> share c x = true ->
  uuid x = uuid c.
Proof.
  intros d cands c x H Hc Hx Hl Hs. unfold db_clash in H.
  destruct (N.eqb_spec (uuid x) (uuid c)) as [E|E]; [exact E|].
  exfalso.
  assert (existsb (fun c0 => existsb (fun x0 => live x0 && negb (uuid x0 =? uuid c0) && share c0 x0) d) cands = true).
  { apply existsb_exists. exists c. split; [exact Hc|].
    apply existsb_exists. exists x. split; [exact Hx|].
    rewrite Hl, Hs. apply N.eqb_neq in E. rewrite E. reflexivity. }
  congruence.
Qed.

Lemma enforce_unique_true : forall d cands,
  enforce_unique d cands = true ->
  dup_in (filter live cands) = false /\ db_clash d (filter live cands) = false.
Proof.
  intros d cands H. unfold enforce_unique in H. apply andb_true_iff in H.
  destruct H as [A B]. apply negb_true_iff in A. apply negb_true_iff in B. split; assumption.
Qed.

Lemma new_ent_live : forall c x, live (new_ent c x) = true.
Proof. intros c [[u n] g]. reflexivity. Qed.

Lemma do_create_uniq : forall c new d, Uniq d -> Uniq (snd (do_create c new d)).
Proof.
  intros c new d [Hn Hp]. unfold do_create.
  set (cands := map (new_ent c) new).
  destruct (dupN (map uuid cands)) eqn:E1; [split; assumption|].
  destruct (existsb (fun e => mem (uuid e) (map uuid d)) cands) eqn:E2; [split; assumption|].
  destruct (enforce_unique d cands) eqn:E3; cbn [negb snd]; [|split; assumption].
  apply enforce_unique_true in E3. destruct E3 as [Hdup Hclash].
  assert (Hlc : forall e, In e cands -> live e = true).
  { intros e He. unfold cands in He. apply in_map_iff in He. destruct He as [x [<- _]]. apply new_ent_live. }
  assert (Hfl : forall e, In e cands -> In e (filter live cands)).
  { intros e He. apply filter_In. split; [exact He | apply Hlc; exact He]. }
  split.
  - rewrite map_app. apply NoDup_app_intro.
    + exact Hn.
    + apply dupN_NoDup. exact E1.
    + intros u Hu Hu'. apply in_map_iff in Hu'. destruct Hu' as [e [<- He]].
      assert (existsb (fun e0 => mem (uuid e0) (map uuid d)) cands = true).
      { apply existsb_exists. exists e. split; [exact He | apply mem_In; exact Hu]. }
      congruence.
  - intros e f He Hf Le Lf Hs. apply in_app_iff in He. apply in_app_iff in Hf.
    destruct He as [He|He], Hf as [Hf|Hf].
    + apply Hp; assumption.
    + apply (db_clash_false d (filter live cands) f e Hclash); auto. rewrite share_sym. exact Hs.
    + symmetry. apply (db_clash_false d (filter live cands) e f Hclash); auto.
    + f_equal. apply (dup_in_false (filter live cands)); auto.
Qed.

Lemma set_fld_uuid : forall c fld v e, uuid (set_fld c fld v e) = uuid e.
Proof. intros. unfold set_fld. destruct (fld =? 0); reflexivity. Qed.
Lemma set_fld_live : forall c fld v e, live (set_fld c fld v e) = live e.
Proof. intros. unfold set_fld. destruct (fld =? 0); reflexivity. Qed.

Lemma map_uuid_pres : forall (g : ent -> ent) (d : db),
  (forall e, uuid (g e) = uuid e) -> map uuid (map g d) = map uuid d.
Proof. intros g d H. rewrite map_map. apply map_ext. exact H. Qed.

Lemma do_mod_uniq : forall c us fld v d, Uniq d -> Uniq (snd (do_mod c us fld v d)).
Proof.
  intros c us fld v d [Hn Hp]. unfold do_mod.
  destruct (filter (sel us) d) as [|p0 pr] eqn:Epre; [split; assumption|].
  rewrite <- Epre.
  set (cands := map (set_fld c fld v) (filter (sel us) d)).
  destruct (enforce_unique d cands) eqn:E3; cbn [negb snd]; [|split; assumption].
  match goal with |- Uniq (snd (if ?b then _ else _)) => destruct b end; cbn [snd]; [split; assumption|].
  apply enforce_unique_true in E3. destruct E3 as [Hdup Hclash].
  set (g := fun e => if sel us e then set_fld c fld v e else e).
  assert (Hgu : forall e, uuid (g e) = uuid e).
  { intros e. unfold g. destruct (sel us e); [apply set_fld_uuid | reflexivity]. }
  assert (Hgl : forall e, live (g e) = live e).
  { intros e. unfold g. destruct (sel us e); [apply set_fld_live | reflexivity]. }
  assert (Hcand : forall e, In e d -> sel us e = true -> live e = true -> In (g e) (filter live cands)).
  { intros e He Hs Hl. apply filter_In. split.
    - unfold g. rewrite Hs. unfold cands. apply in_map. apply filter_In. split; assumption.
    - rewrite Hgl. exact Hl. }
  assert (Hun : forall e, sel us e = false -> g e = e).
  { intros e Hs. unfold g. rewrite Hs. reflexivity. }
  split.
  - rewrite map_uuid_pres; [exact Hn | exact Hgu].
  - intros e' f' He Hf Le Lf Hs.
    apply in_map_iff in He. destruct He as [e [<- He]].
    apply in_map_iff in Hf. destruct Hf as [f [<- Hf]].
    fold g in Le, Lf, Hs |- *. rewrite Hgl in Le, Lf. rewrite !Hgu.
    destruct (sel us e) eqn:Se, (sel us f) eqn:Sf.
    + rewrite <- (Hgu e), <- (Hgu f). f_equal.
      apply (dup_in_false (filter live cands)); auto.
    + rewrite (Hun f Sf) in Hs. rewrite <- (Hgu e). symmetry.
      apply (db_clash_false d (filter live cands) (g e) f Hclash); auto.
    + rewrite (Hun e Se) in Hs. rewrite <- (Hgu f).
      apply (db_clash_false d (filter live cands) (g f) e Hclash); auto.
      rewrite share_sym. exact Hs.
    + rewrite (Hun e Se), (Hun f Sf) in Hs. apply Hp; assumption.
Qed.

Lemma do_delete_uniq : forall c us d, Uniq d -> Uniq (snd (do_delete c us d)).
Proof.
  intros c us d [Hn Hp]. unfold do_delete.
  destruct (filter (sel us) d) as [|p0 pr]; cbn [snd]; [split; assumption|].
  set (g := fun e => if sel us e then set_cls c 1 e else e).
  assert (Hgu : forall e, uuid (g e) = uuid e).
  { intros e. unfold g. destruct (sel us e); reflexivity. }
  split.
  - rewrite map_uuid_pres; [exact Hn | exact Hgu].
  - intros e' f' He Hf Le Lf Hs.
    apply in_map_iff in He. destruct He as [e [<- He]].
    apply in_map_iff in Hf. destruct Hf as [f [<- Hf]].
    fold g in Le, Lf, Hs |- *. rewrite !Hgu.
    unfold g in Le, Lf, Hs.
    destruct (sel us e); [discriminate Le|]. destruct (sel us f); [discriminate Lf|].
    apply Hp; assumption.
Qed.

(* ------------------------------------------------------------------ consumer *)
Lemma find_some : forall u l e, find u l = Some e -> In e l /\ uuid e = u.
Proof.
  induction l as [|a r IH]; cbn; intros e H; [discriminate|].
  destruct (N.eqb_spec (uuid a) u) as [E|E].
  - inversion H; subst. split; [left; reflexivity | reflexivity].
  - destruct (IH e H) as [A B]. split; [right; exact A | exact B].
Qed.

Lemma find_none : forall u l, ~ In u (map uuid l) -> find u l = None.
Proof.
  induction l as [|a r IH]; cbn; intros H; [reflexivity|].
  destruct (N.eqb_spec (uuid a) u) as [E|E].
  - exfalso. apply H. left. exact E.
  - apply IH. intros Hin. apply H. right. exact Hin.
Qed.

Lemma resolve_uuid : forall i d, uuid i = uuid d -> uuid (resolve i d) = uuid d.
Proof.
  intros i d H. unfold resolve. destruct (add_conflict i d).
  - destruct (cid_ltb (at_ d) (at_ i)); [reflexivity | exact H].
  - reflexivity.
Qed.

Lemma fixup_uuid : forall e, uuid (fixup e) = uuid e.
Proof. intros e. unfold fixup. destruct (src e && negb (cls e =? 2)); reflexivity. Qed.

Lemma upd_uuid : forall inc d, uuid (upd inc d) = uuid d.
Proof.
  intros inc d. unfold upd. destruct (find (uuid d) inc) as [i|] eqn:E; [|reflexivity].
  apply find_some in E. destruct E as [_ E]. rewrite fixup_uuid. apply resolve_uuid. exact E.
Qed.

Lemma upd_id : forall inc d, ~ In (uuid d) (map uuid inc) -> upd inc d = d.
Proof. intros inc d H. unfold upd. rewrite (find_none _ _ H). reflexivity. Qed.

Lemma news_in : forall inc d i, In i (news inc d) -> In (uuid i) (map uuid inc) /\ ~ In (uuid i) (map uuid d).
Proof.
  intros inc d i H. unfold news in H. apply in_map_iff in H. destruct H as [j [<- H]].
  apply filter_In in H. destruct H as [A B]. rewrite fixup_uuid.
  split; [apply in_map; exact A|]. apply negb_true_iff in B. apply mem_false. exact B.
Qed.

Lemma news_nodup : forall inc d, NoDup (map uuid inc) -> NoDup (map uuid (news inc d)).
Proof.
  intros inc d H. unfold news. rewrite (map_uuid_pres fixup _ fixup_uuid).
  apply NoDup_map_filter. exact H.
Qed.

Lemma created_in : forall me c base inc d e,
  In e (created me c base inc d) -> exists x, In x d /\ e = cnf_copy c base x.
Proof.
  intros me c base inc d e H. unfold created in H. apply in_flat_map in H.
  destruct H as [x [Hx He]]. exists x. split; [exact Hx|].
  destruct (find (uuid x) inc) as [i|]; [|contradiction].
  destruct (creates me i x); [|contradiction].
  destruct He as [He|[]]. symmetry. exact He.
Qed.

Lemma created_nodup : forall me c base inc d,
  NoDup (map uuid d) -> NoDup (map uuid (created me c base inc d)).
Proof.
  intros me c base inc d. unfold created. induction d as [|x r IH]; cbn; intros H; [constructor|].
  inversion H as [|? ? Hx Hr]; subst. rewrite map_app. apply NoDup_app_intro.
  - destruct (find (uuid x) inc) as [i|]; [|constructor].
    destruct (creates me i x); cbn; [|constructor]. constructor; [intros []|constructor].
  - apply IH. exact Hr.
  - intros u Hu Hu'.
    destruct (find (uuid x) inc) as [i|]; [|contradiction].
    destruct (creates me i x); [|contradiction].
    destruct Hu as [Hu|[]]. cbn in Hu. subst u.
    apply in_map_iff in Hu'. destruct Hu' as [e [He Hin]].
    apply in_flat_map in Hin. destruct Hin as [y [Hy Hin]].
    destruct (find (uuid y) inc) as [j|]; [|contradiction].
    destruct (creates me j y); [|contradiction].
    destruct Hin as [Hin|[]]. subst e. cbn in He.
    apply Hx. assert (uuid y = uuid x) by lia. rewrite <- H0. apply in_map. exact Hy.
Qed.

Lemma consume_ok_spec : forall base inc d,
  consume_ok base inc d = true ->
  NoDup (map uuid inc) /\ (forall e, In e inc -> uuid e < base) /\ (forall e, In e d -> uuid e < base).
Proof.
  intros base inc d H. unfold consume_ok in H. apply andb_true_iff in H. destruct H as [A B].
  apply negb_true_iff in A. apply dupN_NoDup in A. rewrite forallb_forall in B.
  split; [exact A|]. split; intros e He; apply N.ltb_lt; apply B; apply in_app_iff; auto.
Qed.

Lemma merged_nodup : forall me c base inc d,
  NoDup (map uuid d) -> consume_ok base inc d = true ->
  NoDup (map uuid (merged me c base inc d)).
Proof.
  intros me c base inc d Hn Hok. apply consume_ok_spec in Hok. destruct Hok as [Hi [Hbi Hbd]].
  unfold merged. rewrite !map_app. rewrite (map_uuid_pres (upd inc) d (upd_uuid inc)).
  apply NoDup_app_intro; [exact Hn | |].
  - apply NoDup_app_intro.
    + apply news_nodup. exact Hi.
    + apply created_nodup. exact Hn.
    + intros u Hu Hu'. apply in_map_iff in Hu. destruct Hu as [i [<- Hin]].
      apply news_in in Hin. destruct Hin as [Hin _].
      apply in_map_iff in Hin. destruct Hin as [j [Hj Hjin]].
      apply in_map_iff in Hu'. destruct Hu' as [e [He Hc]].
      apply created_in in Hc. destruct Hc as [x [Hx ->]]. cbn in He.
      specialize (Hbi j Hjin). lia.
  - intros u Hu Hu'. apply in_app_iff in Hu'. destruct Hu' as [Hu'|Hu'].
    + apply in_map_iff in Hu'. destruct Hu' as [i [<- Hin]]. apply news_in in Hin.
      destruct Hin as [_ Hin]. contradiction.
    + apply in_map_iff in Hu'. destruct Hu' as [e [He Hc]].
      apply created_in in Hc. destruct Hc as [x [Hx ->]]. cbn in He.
      apply in_map_iff in Hu. destruct Hu as [y [Hy Hyd]]. specialize (Hbd y Hyd). lia.
Qed.

(* a live entry of the merged database whose uuid was not supplied is an untouched entry of the old one *)
Lemma merged_untouched : forall me c base inc d e,
  In e (merged me c base inc d) -> live e = true -> ~ In (uuid e) (map uuid inc) -> In e d.
Proof.
  intros me c base inc d e He Hl Hn. unfold merged in He.
  apply in_app_iff in He. destruct He as [He|He].
  - apply in_map_iff in He. destruct He as [x [Hx Hxd]].
    assert (uuid x = uuid e) by (rewrite <- Hx; symmetry; apply upd_uuid).
    rewrite upd_id in Hx; [subst; exact Hxd | rewrite H; exact Hn].
  - apply in_app_iff in He. destruct He as [He|He].
    + apply news_in in He. destruct He as [He _]. exfalso. apply Hn. exact He.
    + apply created_in in He. destruct He as [x [_ ->]]. discriminate Hl.
Qed.

(* both members of a clashing pair are marked when one of them is a candidate *)
Lemma marks_pair : forall cu d1 e f,
  In e d1 -> In f d1 -> live e = true -> live f = true -> mem (uuid e) cu = true ->
  uuid f <> uuid e -> share e f = true ->
  In (uuid e) (marks cu d1) /\ In (uuid f) (marks cu d1).
Proof.
  intros cu d1 e f He Hf Le Lf Hc Hne Hs.
  assert (Hh : In f (hits d1 e)).
  { unfold hits. apply filter_In. split; [exact Hf|]. rewrite Lf, Hs.
    apply N.eqb_neq in Hne. rewrite Hne. reflexivity. }
  assert (Hfe : In e (filter (fun e0 => live e0 && mem (uuid e0) cu) d1)).
  { apply filter_In. split; [exact He|]. rewrite Le, Hc. reflexivity. }
  unfold marks. split; apply in_flat_map; exists e; (split; [exact Hfe|]);
  destruct (hits d1 e) as [|h hs] eqn:Eh; try contradiction.
  - left. reflexivity.
  - right. apply in_map. exact Hh.
Qed.

(* conversely, a marked uuid belongs to a live entry that clashes with another live entry *)
Lemma marks_sound : forall cu d1 u,
  In u (marks cu d1) ->
  exists e f, In e d1 /\ In f d1 /\ live e = true /\ live f = true /\ uuid f <> uuid e /\
              share e f = true /\ (u = uuid e \/ u = uuid f).
Proof.
  intros cu d1 u H. unfold marks in H. apply in_flat_map in H. destruct H as [e [He Hu]].
  apply filter_In in He. destruct He as [He Hc]. apply andb_true_iff in Hc. destruct Hc as [Le _].
  destruct (hits d1 e) as [|h hs] eqn:Eh; [contradiction|].
  assert (Hall : forall f, In f (h :: hs) -> In f d1 /\ live f = true /\ uuid f <> uuid e /\ share e f = true).
  { intros f Hf. rewrite <- Eh in Hf. unfold hits in Hf. apply filter_In in Hf. destruct Hf as [Hf Hb].
    apply andb_true_iff in Hb. destruct Hb as [Hb Hs]. apply andb_true_iff in Hb. destruct Hb as [Lf Hn].
    apply negb_true_iff in Hn. apply N.eqb_neq in Hn. auto. }
  destruct Hu as [Hu|Hu].
  - destruct (Hall h (or_introl eq_refl)) as [A [B [C D]]].
    exists e, h. repeat split; auto.
  - apply in_map_iff in Hu. destruct Hu as [f [Hfu Hf]].
    destruct (Hall f Hf) as [A [B [C D]]]. exists e, f. repeat split; auto.
Qed.

Lemma apply_marks_uuid : forall c m d1, map uuid (apply_marks c m d1) = map uuid d1.
Proof.
  intros c m d1. unfold apply_marks. apply map_uuid_pres. intros e.
  destruct (live e && mem (uuid e) m); reflexivity.
Qed.

Lemma apply_marks_live : forall c m d1 e,
  In e (apply_marks c m d1) -> live e = true -> In e d1 /\ ~ In (uuid e) m.
Proof.
  intros c m d1 e He Hl. unfold apply_marks in He. apply in_map_iff in He.
  destruct He as [x [Hx Hxd]]. destruct (live x && mem (uuid x) m) eqn:E.
  - subst e. discriminate Hl.
  - subst e. split; [exact Hxd|]. rewrite Hl in E. cbn in E. apply mem_false. exact E.
Qed.

Theorem consume_uniq : forall me c base inc d,
  Uniq d -> consume_ok base inc d = true -> Uniq (consume me c base inc d).
Proof.
  intros me c base inc d [Hn Hp] Hok. unfold consume.
  set (d1 := merged me c base inc d). set (cu := map uuid inc).
  split.
  - rewrite apply_marks_uuid. apply merged_nodup; assumption.
  - intros e f He Hf Le Lf Hs.
    apply apply_marks_live in He; [|exact Le]. apply apply_marks_live in Hf; [|exact Lf].
    destruct He as [He Me], Hf as [Hf Mf].
    destruct (N.eq_dec (uuid e) (uuid f)) as [E|E]; [exact E|]. exfalso.
    destruct (mem (uuid e) cu) eqn:Ce.
    { apply Me. apply (marks_pair cu d1 e f); auto. }
    destruct (mem (uuid f) cu) eqn:Cf.
    { apply Mf. apply (marks_pair cu d1 f e); auto. rewrite share_sym. exact Hs. }
    apply mem_false in Ce. apply mem_false in Cf.
    apply E. apply Hp; auto; eapply merged_untouched; eauto.
Qed.

(* ------------------------------------------------------------------ who is moved to the conflict state *)
(* declarative: e is live and some OTHER live entry of the merged database holds one of its unique values *)
Definition clash1 (d1 : db) (e : ent) : bool :=
  live e && existsb (fun f => live f && negb (uuid f =? uuid e) && share e f) d1.

Lemma clash1_spec : forall d1 e,
  clash1 d1 e = true <->
  live e = true /\ exists f, In f d1 /\ live f = true /\ uuid f <> uuid e /\ share e f = true.
Proof.
  intros d1 e. unfold clash1. rewrite andb_true_iff, existsb_exists. split.
  - intros [Le [f [Hf Hb]]]. split; [exact Le|]. exists f.
    apply andb_true_iff in Hb. destruct Hb as [Hb Hs]. apply andb_true_iff in Hb. destruct Hb as [Lf Hn].
    apply negb_true_iff in Hn. apply N.eqb_neq in Hn. auto.
  - intros [Le [f [Hf [Lf [Hn Hs]]]]]. split; [exact Le|]. exists f. split; [exact Hf|].
    rewrite Lf, Hs. apply N.eqb_neq in Hn. rewrite Hn. reflexivity.
Qed.

Theorem marks_exact : forall me c base inc d,
  Uniq d -> consume_ok base inc d = true ->
  let d1 := merged me c base inc d in
  forall x, In x d1 ->
    (live x && mem (uuid x) (marks (map uuid inc) d1)) = clash1 d1 x.
Proof.
  intros me c base inc d [Hn Hp] Hok d1 x Hx.
  assert (Hn1 : NoDup (map uuid d1)) by (apply merged_nodup; assumption).
  destruct (clash1 d1 x) eqn:Ec.
  - apply clash1_spec in Ec. destruct Ec as [Lx [f [Hf [Lf [Hne Hs]]]]].
    rewrite Lx. cbn. apply mem_In.
    destruct (mem (uuid x) (map uuid inc)) eqn:Cx.
    { apply (marks_pair _ d1 x f); auto. }
    destruct (mem (uuid f) (map uuid inc)) eqn:Cf.
    { apply (marks_pair _ d1 f x); auto. rewrite share_sym. exact Hs. }
    exfalso. apply mem_false in Cx. apply mem_false in Cf. apply Hne. symmetry.
    apply Hp; auto; eapply merged_untouched; eauto.
  - destruct (live x) eqn:Lx; [|reflexivity]. cbn.
    destruct (mem (uuid x) (marks (map uuid inc) d1)) eqn:Em; [|reflexivity].
    exfalso. apply mem_In in Em. apply marks_sound in Em.
    destruct Em as [e [f [He [Hf [Le [Lf [Hne [Hs Hu]]]]]]]].
    assert (clash1 d1 x = true); [|congruence].
    apply clash1_spec. split; [exact Lx|]. destruct Hu as [Hu|Hu].
    + assert (x = e) by (apply (uuid_inj_in d1); auto). subst x. exists f. auto.
    + assert (x = f) by (apply (uuid_inj_in d1); auto). subst x. exists e.
      repeat split; auto. rewrite share_sym. exact Hs.
Qed.

(* the declarative conflict set depends on the merged database only as a SET of entries *)
Lemma clash1_ext : forall a b e, (forall x, In x a <-> In x b) -> clash1 a e = clash1 b e.
Proof.
  intros a b e H. unfold clash1. f_equal.
  destruct (existsb _ a) eqn:Ea; symmetry.
  - apply existsb_exists in Ea. destruct Ea as [f [Hf Hb]]. apply existsb_exists. exists f.
    split; [apply H; exact Hf | exact Hb].
  - destruct (existsb (fun f => live f && negb (uuid f =? uuid e) && share e f) b) eqn:Eb; [|reflexivity].
    apply existsb_exists in Eb. destruct Eb as [f [Hf Hb]].
    assert (existsb (fun f => live f && negb (uuid f =? uuid e) && share e f) a = true).
    { apply existsb_exists. exists f. split; [apply H; exact Hf | exact Hb]. }
    congruence.
Qed.

(* ------------------------------------------------------------------ the replicated system *)
Lemma getr_uniq : forall s r, AllUniq s -> Uniq (getr s r).
Proof.
  intros s r H. unfold getr. generalize (N.to_nat r). intros n. revert s H.
  induction n as [|n IH]; intros [|a t] H; cbn; try apply Uniq_nil.
  - inversion H; assumption.
  - apply IH. inversion H; assumption.
Qed.

Lemma setr_uniq : forall s r x, AllUniq s -> Uniq x -> AllUniq (setr s r x).
Proof.
  intros s r x H Hx. unfold setr. generalize (N.to_nat r). intros n. revert s H.
  induction n as [|n IH]; intros [|a t] H; cbn; try constructor; inversion H; subst; auto.
  apply IH. assumption.
Qed.

Theorem step_uniq : forall s o r k s1, AllUniq s -> step s o = Some (r, k, s1) -> AllUniq s1.
Proof.
  intros s o r k s1 H Hs. destruct o as [r0 ct new | r0 ct us fld v | r0 ct us | to from ct base]; cbn [step] in Hs.
  - pose proof (do_create_uniq (ct, r0) new (getr s r0) (getr_uniq s r0 H)) as U.
    destruct (do_create (ct, r0) new (getr s r0)) as [k0 d0]. inversion Hs; subst.
    apply setr_uniq; assumption.
  - pose proof (do_mod_uniq (ct, r0) us fld v (getr s r0) (getr_uniq s r0 H)) as U.
    destruct (do_mod (ct, r0) us fld v (getr s r0)) as [k0 d0]. inversion Hs; subst.
    apply setr_uniq; assumption.
  - pose proof (do_delete_uniq (ct, r0) us (getr s r0) (getr_uniq s r0 H)) as U.
    destruct (do_delete (ct, r0) us (getr s r0)) as [k0 d0]. inversion Hs; subst.
    apply setr_uniq; assumption.
  - destruct (consume_ok base (getr s from) (getr s to)) eqn:Eok; [|discriminate].
    inversion Hs; subst. apply setr_uniq; [assumption|].
    apply consume_uniq; [apply getr_uniq; assumption | exact Eok].
Qed.

Theorem run_uniq : forall ops s s', AllUniq s -> run s ops = Some s' -> AllUniq s'.
Proof.
  induction ops as [|o r IH]; intros s s' H Hr; cbn [run] in Hr.
  - inversion Hr; subst. exact H.
  - destruct (step s o) as [[[rep k] s1]|] eqn:Es; [|discriminate].
    apply (IH s1); [|exact Hr]. eapply step_uniq; eauto.
Qed.

Lemma init_uniq : forall n, AllUniq (init n).
Proof.
  intros n. unfold init, AllUniq. induction (N.to_nat n); cbn; constructor; auto. apply Uniq_nil.
Qed.

(* ------------------------------------------------------------------ the run-time tie *)
Lemma cid_eqb_eq : forall a b : cid, cid_eqb a b = true -> a = b.
Proof.
  intros [a1 a2] [b1 b2] H. unfold cid_eqb in H. cbn [fst snd] in H.
  apply andb_true_iff in H. destruct H as [A B]. apply N.eqb_eq in A. apply N.eqb_eq in B. subst. reflexivity.
Qed.

Lemma opt_eqb_eq : forall a b, opt_eqb a b = true -> a = b.
Proof.
  intros [x|] [y|] H; cbn in H; try discriminate; [|reflexivity].
  apply N.eqb_eq in H. subst. reflexivity.
Qed.

Lemma ent_eqb_eq : forall a b, ent_eqb a b = true -> a = b.
Proof.
  intros [u1 a1 n1 nc1 s1 sc1 g1 gc1 k1 kc1 r1] [u2 a2 n2 nc2 s2 sc2 g2 gc2 k2 kc2 r2] H.
  unfold ent_eqb in H. cbn [uuid at_ name name_c spn spn_c gid gid_c cls cls_c src] in H.
  repeat (apply andb_true_iff in H; let X := fresh "X" in destruct H as [H X]).
  apply N.eqb_eq in H. apply cid_eqb_eq in X8. apply N.eqb_eq in X7. apply cid_eqb_eq in X6.
  apply N.eqb_eq in X5. apply cid_eqb_eq in X4.
  apply opt_eqb_eq in X3. apply cid_eqb_eq in X2. apply N.eqb_eq in X1. apply cid_eqb_eq in X0.
  apply Bool.eqb_prop in X.
  subst. reflexivity.
Qed.

Lemma list_eqb_eq : forall (A : Type) (eq : A -> A -> bool),
  (forall x y, eq x y = true -> x = y) -> forall a b, list_eqb eq a b = true -> a = b.
Proof.
  intros A eq Heq. induction a as [|x r IH]; intros [|y t] H; cbn in H; try discriminate; [reflexivity|].
  apply andb_true_iff in H. destruct H as [H1 H2]. f_equal; [apply Heq; exact H1 | apply IH; exact H2].
Qed.

Lemma pair_eqb_eq : forall a b, pair_eqb a b = true -> a = b.
Proof.
  intros [a1 a2] [b1 b2] H. unfold pair_eqb in H. cbn [fst snd] in H.
  apply andb_true_iff in H. destruct H as [A B]. apply N.eqb_eq in A. apply N.eqb_eq in B. subst. reflexivity.
Qed.

Lemma gent_eqb_eq : forall a b, gent_eqb a b = true -> a = b.
Proof.
  intros [a1 a2] [b1 b2] H. unfold gent_eqb in H. cbn [fst snd] in H.
  apply andb_true_iff in H. destruct H as [A B]. apply N.eqb_eq in A.
  apply (list_eqb_eq _ pair_eqb pair_eqb_eq) in B. subst. reflexivity.
Qed.

Lemma same_set_perm : forall snap m,
  NoDup (map uuid m) -> same_set snap m = true -> Permutation m snap.
Proof.
  intros snap m Hn H. unfold same_set in H. apply andb_true_iff in H. destruct H as [Hl Hi].
  apply N.eqb_eq in Hl. apply Nat2N.inj in Hl.
  apply NoDup_Permutation_bis.
  - eapply NoDup_map_inv. exact Hn.
  - rewrite Hl. apply le_n.
  - intros e He. rewrite forallb_forall in Hi. specialize (Hi e He).
    apply existsb_exists in Hi. destruct Hi as [x [Hx Hex]]. apply ent_eqb_eq in Hex. subst. exact Hx.
Qed.

Lemma Uniq_perm : forall a b, Permutation a b -> Uniq a -> Uniq b.
Proof.
  intros a b P [Hn Hp]. split.
  - eapply Permutation_NoDup; [apply Permutation_map; exact P | exact Hn].
  - intros e f He Hf. apply Hp; eapply Permutation_in; try (apply Permutation_sym; exact P); assumption.
Qed.

(* the generic (attribute, value) view of modelled entries clashes exactly when the entries share *)
Lemma gshare_gen : forall a b, gshare (gen_of a) (gen_of b) = true -> share a b = true.
Proof.
  intros a b. unfold gshare, gen_of, share, pair_eqb. cbn [fst snd app existsb].
  destruct (gid a) as [ga|], (gid b) as [gb|]; cbn [fst snd app existsb];
  destruct (name a =? name b); destruct (spn a =? spn b); cbn; try reflexivity; try discriminate;
  rewrite ?orb_false_r; intros H; try discriminate; exact H.
Qed.

Lemma gpairs_ok : forall l,
  (forall a b, In a l -> In b l -> share a b = true -> uuid a = uuid b) ->
  NoDup (map uuid l) -> gpairs (map gen_of l) = true.
Proof.
  induction l as [|a r IH]; intros Hp Hn; [reflexivity|].
  cbn [map gpairs]. cbn [map] in Hn. inversion Hn as [|? ? Hna Hnr]; subst.
  apply andb_true_iff. split.
  - apply forallb_forall. intros gb Hgb. apply in_map_iff in Hgb. destruct Hgb as [b [<- Hb]].
    destruct (gshare (gen_of a) (gen_of b)) eqn:E; [|reflexivity]. exfalso.
    apply gshare_gen in E. apply Hna. rewrite (Hp a b); [apply in_map; exact Hb | left; reflexivity | right; exact Hb | exact E].
  - apply IH; [|exact Hnr]. intros x y Hx Hy. apply Hp; right; assumption.
Qed.

Lemma uniq_guniqb : forall d, Uniq d -> guniqb (gen_db d) = true.
Proof.
  intros d [Hn Hp]. unfold guniqb, gen_db. apply andb_true_iff. split.
  - apply negb_true_iff. apply dupN_NoDup. rewrite map_map.
    replace (map (fun x => fst (gen_of x)) (filter live d)) with (map uuid (filter live d)) by reflexivity.
    apply NoDup_map_filter. exact Hn.
  - apply gpairs_ok.
    + intros a b Ha Hb Hs. apply filter_In in Ha. apply filter_In in Hb.
      destruct Ha as [Ha La], Hb as [Hb Lb]. apply Hp; assumption.
    + apply NoDup_map_filter. exact Hn.
Qed.

Lemma steps_agree_guniq : forall l s s',
  AllUniq s -> steps_agree s l = Some s' ->
  forallb (fun x => match x with Obs _ _ _ gen => guniqb gen end) l = true /\ AllUniq s'.
Proof.
  induction l as [|[o code snap gen] r IH]; intros s s' H Ha; cbn [steps_agree] in Ha.
  - inversion Ha; subst. split; [reflexivity | exact H].
  - destruct (step s o) as [[[rep k] s1]|] eqn:Es; [|discriminate].
    destruct ((k =? code) && same_set snap (getr s1 rep) && list_eqb gent_eqb gen (gen_db snap)) eqn:Ec; [|discriminate].
    apply andb_true_iff in Ec. destruct Ec as [Ec Eg]. apply andb_true_iff in Ec. destruct Ec as [_ Ess].
    assert (U1 : AllUniq s1) by (eapply step_uniq; eauto).
    destruct (IH s1 s' U1 Ha) as [A B]. split; [|exact B].
    cbn [forallb]. rewrite A, andb_true_r.
    apply (list_eqb_eq _ gent_eqb gent_eqb_eq) in Eg. subst gen.
    apply uniq_guniqb. pose proof (getr_uniq s1 rep U1) as Ur.
    eapply Uniq_perm; [apply same_set_perm; [apply Ur | exact Ess] | exact Ur].
Qed.

Theorem agree_pcheck_steps : forall c, agree c = true -> pcheck_steps c = true.
Proof.
  intros [nrep steps full final] H. unfold agree in H. unfold pcheck_steps.
  destruct (steps_agree (init nrep) steps) as [s|] eqn:E; [|discriminate].
  apply (steps_agree_guniq steps (init nrep) s (init_uniq nrep) E).
Qed.

(* every replica of an agreeing history ends in a state satisfying the invariant, and the observed final
   dumps are those states *)
Lemma finals_agree_uniq : forall s f, AllUniq s -> finals_agree s f = true -> Forall Uniq f.
Proof.
  induction s as [|d s IH]; intros [|o f] H Hf; cbn in Hf; try discriminate; [constructor|].
  apply andb_true_iff in Hf. destruct Hf as [Hs Hf]. inversion H; subst. constructor.
  - eapply Uniq_perm; [apply same_set_perm; [apply H2 | exact Hs] | exact H2].
  - apply IH; assumption.
Qed.

Theorem agree_final_uniq : forall nrep steps full final,
  agree (CHist nrep steps full final) = true -> Forall Uniq final.
Proof.
  intros nrep steps full final H. unfold agree in H.
  destruct (steps_agree (init nrep) steps) as [s|] eqn:E; [|discriminate].
  destruct (steps_agree_guniq steps (init nrep) s (init_uniq nrep) E) as [_ U].
  eapply finals_agree_uniq; eauto.
Qed.

(* uniqb is the executable form of Uniq *)
Lemma upairs_spec : forall l,
  upairs l = true ->
  NoDup (map uuid l) ->
  forall e f, In e l -> In f l -> live e = true -> live f = true -> share e f = true -> uuid e = uuid f.
Proof.
  induction l as [|a r IH]; intros H Hn e f He Hf Le Lf Hs; [contradiction|].
  cbn [upairs] in H. apply andb_true_iff in H. destruct H as [Ha Hr].
  cbn [map] in Hn. inversion Hn as [|? ? Hna Hnr]; subst.
  rewrite forallb_forall in Ha.
  destruct He as [He|He], Hf as [Hf|Hf]; subst.
  - reflexivity.
  - specialize (Ha f Hf). rewrite Le, Lf, Hs in Ha. discriminate.
  - specialize (Ha e He). rewrite Le, Lf in Ha. rewrite share_sym, Hs in Ha. discriminate.
  - apply (IH Hr Hnr); assumption.
Qed.

Theorem uniqb_sound : forall d, uniqb d = true -> Uniq d.
Proof.
  intros d H. unfold uniqb in H. apply andb_true_iff in H. destruct H as [A B].
  apply negb_true_iff in A. apply dupN_NoDup in A. split; [exact A|].
  apply upairs_spec; assumption.
Qed.

(* the generic predicate used on the implementation's dumps means what it says *)
Theorem guniqb_sound : forall l, guniqb l = true ->
  NoDup (map fst l) /\
  forall a b, In a l -> In b l -> gshare a b = true -> a = b.
Proof.
  intros l H. unfold guniqb in H. apply andb_true_iff in H. destruct H as [A B].
  apply negb_true_iff in A. apply dupN_NoDup in A. split; [exact A|].
  clear A. induction l as [|x r IH]; intros a b Ha Hb Hs; [contradiction|].
  cbn [gpairs] in B. apply andb_true_iff in B. destruct B as [Bx Br]. rewrite forallb_forall in Bx.
  assert (Hsym : forall p q, gshare p q = true -> gshare q p = true).
  { intros p q Hpq. unfold gshare in *. apply existsb_exists in Hpq. destruct Hpq as [v [Hv Hq]].
    apply existsb_exists in Hq. destruct Hq as [w [Hw Hvw]]. apply pair_eqb_eq in Hvw. subst w.
    apply existsb_exists. exists v. split; [exact Hw|]. apply existsb_exists. exists v. split; [exact Hv|].
    unfold pair_eqb. rewrite !N.eqb_refl. reflexivity. }
  destruct Ha as [Ha|Ha], Hb as [Hb|Hb]; subst.
  - reflexivity.
  - specialize (Bx b Hb). rewrite Hs in Bx. discriminate.
  - specialize (Bx a Ha). rewrite (Hsym _ _ Hs) in Bx. discriminate.
  - apply IH; assumption.
Qed.

Lemma upairs_ok : forall l,
  (forall e f, In e l -> In f l -> live e = true -> live f = true -> share e f = true -> uuid e = uuid f) ->
  NoDup (map uuid l) -> upairs l = true.
Proof.
  induction l as [|a r IH]; intros Hp Hn; [reflexivity|].
  cbn [upairs]. cbn [map] in Hn. inversion Hn as [|? ? Hna Hnr]; subst.
  apply andb_true_iff. split.
  - apply forallb_forall. intros b Hb.
    destruct (live a) eqn:La; [|reflexivity]. destruct (live b) eqn:Lb; [|reflexivity].
    destruct (share a b) eqn:Hs; [|reflexivity]. exfalso. apply Hna.
    rewrite (Hp a b); [apply in_map; exact Hb | left; reflexivity | right; exact Hb | | |]; assumption.
  - apply IH; [|exact Hnr]. intros x y Hx Hy. apply Hp; right; assumption.
Qed.

Theorem uniqb_complete : forall d, Uniq d -> uniqb d = true.
Proof.
  intros d [Hn Hp]. unfold uniqb. apply andb_true_iff. split.
  - apply negb_true_iff. apply dupN_NoDup. exact Hn.
  - apply upairs_ok; assumption.
Qed.

(* the consumer's result is the declarative rule applied to the merged database *)
Theorem consume_declarative : forall me c base inc d,
  Uniq d -> consume_ok base inc d = true ->
  let d1 := merged me c base inc d in
  consume me c base inc d = map (fun x => if clash1 d1 x then to_conflict c x else x) d1.
Proof.
  intros me c base inc d U Hok d1. unfold consume, apply_marks.
  apply map_ext_in. intros x Hx. pose proof (marks_exact me c base inc d U Hok x Hx) as E.
  cbv zeta in E. fold d1 in E |- *. rewrite E. reflexivity.
Qed.
