(* KV.C19.Model — unique values stay unique (executable definitions only).
   Transcribes, for entries of class `group` (+ optional `posixgroup`) whose schema-unique
   attributes are name, spn (= name@domain, a function of name) and gidnumber:
     plugins/base.rs      Base::pre_create_transform   (uuid duplicate checks)
     plugins/attrunique.rs get_cand_attr_set, enforce_unique (create / modify),
                           AttrUnique::post_repl_incremental_conflict
     entry.rs             is_add_conflict, resolve_add_conflict, merge_state (per-attribute
                           "later change id wins, ties keep the database side"), to_conflict,
                           mask_recycled_ts
     repl/consumer.rs     consumer_incremental_apply_entries (batch: prepare, resolve/merge,
                           apply, conflict plugin)
     server/{create,modify,delete}.rs  filter!(..) only matches live entries; delete with no match is an
                           error, an internal modify with no match is a silent no-op. *)
From Coq Require Import List NArith Bool.
Import ListNotations.
Open Scope N_scope.

(* change id = (timestamp, server id); `#[derive(Ord)] struct Cid { ts, s_uuid }` *)
Definition cid := (N * N)%type.
Definition cid_ltb (a b : cid) : bool :=
  (fst a <? fst b) || ((fst a =? fst b) && (snd a <? snd b)).
Definition cid_eqb (a b : cid) : bool := (fst a =? fst b) && (snd a =? snd b).

(* cls: 0 live, 1 recycled, 2 recycled+conflict.  gid = None: not a posix group.
   spn = the name the stored spn (name@domain) was generated from: plugins/spn.rs re-sets the spn on EVERY
   create/modify of a group (bumping its change id), and replication merges it as an attribute of its own,
   so after a concurrent rename it can differ from the name.
   *_c = change id of the attribute in the entry change state ((0,0) = no record). *)
Record ent := mkE {
  uuid : N; at_ : cid;
  name : N; name_c : cid;
  spn : N; spn_c : cid;
  gid : option N; gid_c : cid;
  cls : N; cls_c : cid;
  src : bool }.                 (* carries a source_uuid attribute (set by to_conflict, never purged here) *)

Definition live (e : ent) : bool := cls e =? 0.

Definition opt_eqb (a b : option N) : bool :=
  match a, b with Some x, Some y => x =? y | None, None => true | _, _ => false end.
Definition ent_eqb (a b : ent) : bool :=
  (uuid a =? uuid b) && cid_eqb (at_ a) (at_ b) && (name a =? name b) && cid_eqb (name_c a) (name_c b)
  && (spn a =? spn b) && cid_eqb (spn_c a) (spn_c b)
  && opt_eqb (gid a) (gid b) && cid_eqb (gid_c a) (gid_c b) && (cls a =? cls b) && cid_eqb (cls_c a) (cls_c b)
  && Bool.eqb (src a) (src b).

Definition mem (x : N) (l : list N) : bool := existsb (N.eqb x) l.
Fixpoint dupN (l : list N) : bool :=
  match l with [] => false | x :: r => mem x r || dupN r end.

(* two entries hold a common value of a schema-unique attribute (name, spn, gidnumber) *)
Definition share (e f : ent) : bool :=
  (name e =? name f) || (spn e =? spn f) ||
  match gid e, gid f with Some a, Some b => a =? b | _, _ => false end.

(* ------------------------------------------------------------------ local write path *)
Definition db := list ent.

(* get_cand_attr_set + first half of enforce_unique: a (attr,value) key with two candidates *)
Fixpoint dup_in (l : list ent) : bool :=
  match l with [] => false | e :: r => existsb (share e) r || dup_in r end.

(* second half: Or over candidates of And[attr = v ; AndNot(uuid = self)] against the (pre-state) db;
   filter!() excludes recycled entries *)
Definition db_clash (d : db) (cands : list ent) : bool :=
  existsb (fun c => existsb (fun x => live x && negb (uuid x =? uuid c) && share c x) d) cands.

Definition enforce_unique (d : db) (cands : list ent) : bool :=   (* true = accepted *)
  let cl := filter live cands in                                  (* mask_recycled_ts *)
  negb (dup_in cl) && negb (db_clash d cl).

(* result codes *)
Definition R_OK := 0.  Definition R_BASE := 1.  Definition R_UNIQUE := 2.
Definition R_NOMATCH := 3.  Definition R_OTHER := 4.

Definition new_ent (c : cid) (x : N * N * option N) : ent :=
  let '(u, n, g) := x in
  mkE u c n c n c g (match g with Some _ => c | None => (0, 0) end) 0 c false.

(* create: Base (duplicate uuid in request; uuid present in db incl. recycled) then AttrUnique (last) *)
Definition do_create (c : cid) (new : list (N * N * option N)) (d : db) : N * db :=
  let cands := map (new_ent c) new in
  if dupN (map uuid cands) then (R_BASE, d)
  else if existsb (fun e => mem (uuid e) (map uuid d)) cands then (R_BASE, d)
  else if negb (enforce_unique d cands) then (R_UNIQUE, d)
  else (R_OK, d ++ cands).

Definition set_fld (c : cid) (fld v : N) (e : ent) : ent :=
  if fld =? 0 then mkE (uuid e) (at_ e) v c v c (gid e) (gid_c e) (cls e) (cls_c e) (src e)
  else mkE (uuid e) (at_ e) (name e) (name_c e) (name e) c (Some v) c (cls e) (cls_c e) (src e).   (* spn regenerated *)

Definition sel (us : list N) (e : ent) : bool := live e && mem (uuid e) us.

(* modify (purge_and_set of name / gidnumber) on filter!(Or uuid = ..) *)
Definition do_mod (c : cid) (us : list N) (fld v : N) (d : db) : N * db :=
  let pre := filter (sel us) d in
  match pre with
  | [] => (R_OK, d)                 (* internal identity: "no candidates match filter ... continuing" *)
  | _ =>
    let cands := map (set_fld c fld v) pre in
    if negb (enforce_unique d cands) then (R_UNIQUE, d)
    else if negb (fld =? 0) && existsb (fun e => match gid e with None => true | _ => false end) pre
         then (R_OTHER, d)                                   (* schema: gidnumber without posixgroup *)
    else (R_OK, map (fun e => if sel us e then set_fld c fld v e else e) d)
  end.

Definition set_cls (c : cid) (k : N) (e : ent) : ent :=
  mkE (uuid e) (at_ e) (name e) (name_c e) (spn e) (spn_c e) (gid e) (gid_c e) k c (src e).

(* Entry::to_conflict: classes recycled + conflict and the source uuids, at the transaction's change id *)
Definition to_conflict (c : cid) (e : ent) : ent :=
  mkE (uuid e) (at_ e) (name e) (name_c e) (spn e) (spn_c e) (gid e) (gid_c e) 2 c true.

Definition do_delete (c : cid) (us : list N) (d : db) : N * db :=
  match filter (sel us) d with
  | [] => (R_NOMATCH, d)
  | _ => (R_OK, map (fun e => if sel us e then set_cls c 1 e else e) d)
  end.

(* ------------------------------------------------------------------ consumer (incremental) *)
Fixpoint find (u : N) (l : list ent) : option ent :=
  match l with [] => None | e :: r => if uuid e =? u then Some e else find u r end.

(* merge_state for one attribute: take_left = cid_left > cid_right (left = incoming) *)
Definition merge (inc d : ent) : ent :=
  let tn := cid_ltb (name_c d) (name_c inc) in
  let ts := cid_ltb (spn_c d) (spn_c inc) in
  let tg := cid_ltb (gid_c d) (gid_c inc) in
  let tc := cid_ltb (cls_c d) (cls_c inc) in
  mkE (uuid d) (at_ d)
      (if tn then name inc else name d) (if tn then name_c inc else name_c d)
      (if ts then spn inc else spn d) (if ts then spn_c inc else spn_c d)
      (if tg then gid inc else gid d) (if tg then gid_c inc else gid_c d)
      (if tc then cls inc else cls d) (if tc then cls_c inc else cls_c d)
      (src inc || src d).         (* source_uuid: present as soon as one side has a record of it *)

(* validate_repl: an entry that fails the schema after the merge (here: it carries source_uuid without the
   conflict class, e.g. deleted on one replica and conflicted on another) is moved to the conflict state
   in place (add_ava_int: no change id is recorded) *)
Definition fixup (e : ent) : ent :=
  if src e && negb (cls e =? 2)
  then mkE (uuid e) (at_ e) (name e) (name_c e) (spn e) (spn_c e) (gid e) (gid_c e) 2 (cls_c e) true
  else e.

(* is_add_conflict: both live change states with different creation ids *)
Definition add_conflict (inc d : ent) : bool := negb (cid_eqb (at_ inc) (at_ d)).

(* resolve_add_conflict: incoming later -> keep the db entry; else the incoming entry replaces it *)
Definition resolve (inc d : ent) : ent :=
  if add_conflict inc d then (if cid_ltb (at_ d) (at_ inc) then d else inc)
  else merge inc d.

(* ... and the origin server of the losing db entry creates the conflict copy under a new uuid *)
Definition creates (me : N) (inc d : ent) : bool :=
  add_conflict inc d && negb (cid_ltb (at_ d) (at_ inc)) && (snd (at_ d) =? me).

(* The copy is a NEW entry of the minting server: created at, and all attributes stamped with, the
   transaction's change id (/repo 41afc51; before that fix it kept the loser's creation id and old
   attribute change ids, and third replicas received it without name/spn/gidnumber).  It is
   recycled+conflict, so it never counts as live; its other attributes are not tracked and are
   canonicalised to 0 / None here and by the harness. *)
Definition cnf_copy (c : cid) (base : N) (d : ent) : ent :=
  mkE (base + uuid d) c 0 (0, 0) 0 (0, 0) None (0, 0) 2 c true.

Definition upd (inc : list ent) (d : ent) : ent :=
  match find (uuid d) inc with Some i => fixup (resolve i d) | None => d end.

Definition news (inc : list ent) (d : db) : list ent :=
  map fixup (filter (fun i => negb (mem (uuid i) (map uuid d))) inc).

Definition created (me : N) (c : cid) (base : N) (inc : list ent) (d : db) : list ent :=
  flat_map (fun x => match find (uuid x) inc with
                     | Some i => if creates me i x then [cnf_copy c base x] else []
                     | None => [] end) d.

(* database after incremental_apply, before the conflict plugin *)
Definition merged (me : N) (c : cid) (base : N) (inc : list ent) (d : db) : db :=
  map (upd inc) d ++ news inc d ++ created me c base inc d.

(* post_repl_incremental_conflict: for every live candidate, the live entries with another uuid
   that hold one of its unique values; both directions are recorded *)
Definition hits (d1 : db) (e : ent) : list ent :=
  filter (fun f => live f && negb (uuid f =? uuid e) && share e f) d1.

Definition marks (cu : list N) (d1 : db) : list N :=
  flat_map (fun e => match hits d1 e with
                     | [] => []
                     | h => uuid e :: map uuid h end)
           (filter (fun e => live e && mem (uuid e) cu) d1).

Definition apply_marks (c : cid) (m : list N) (d1 : db) : db :=
  map (fun e => if live e && mem (uuid e) m then to_conflict c e else e) d1.

Definition consume (me : N) (c : cid) (base : N) (inc : list ent) (d : db) : db :=
  let d1 := merged me c base inc d in
  apply_marks c (marks (map uuid inc) d1) d1.

(* side conditions under which the batch transcription is meaningful: the supplier never sends
   one uuid twice, and Uuid::new_v4() never collides (new ids = base + source, base above all ids) *)
Definition consume_ok (base : N) (inc : list ent) (d : db) : bool :=
  negb (dupN (map uuid inc)) && forallb (fun e => uuid e <? base) (inc ++ d).

(* ------------------------------------------------------------------ the replicated system *)
Definition sys := list db.          (* replica i has server id i *)

Definition getr (s : sys) (r : N) : db := nth (N.to_nat r) s [].
Fixpoint setn (n : nat) (x : db) (s : sys) : sys :=
  match s, n with
  | [], _ => []
  | _ :: t, O => x :: t
  | h :: t, S k => h :: setn k x t
  end.
Definition setr (s : sys) (r : N) (x : db) : sys := setn (N.to_nat r) x s.

Inductive op :=
| OCreate (r ct : N) (new : list (N * N * option N))
| OMod (r ct : N) (us : list N) (fld v : N)
| ODelete (r ct : N) (us : list N)
| ORepl (to from ct base : N).

Definition R_BAD := 9.

(* one transaction; None = the model refuses (side condition violated) *)
Definition step (s : sys) (o : op) : option (N * N * sys) :=     (* (replica, code, state) *)
  match o with
  | OCreate r ct new => let '(k, d) := do_create (ct, r) new (getr s r) in Some (r, k, setr s r d)
  | OMod r ct us fld v => let '(k, d) := do_mod (ct, r) us fld v (getr s r) in Some (r, k, setr s r d)
  | ODelete r ct us => let '(k, d) := do_delete (ct, r) us (getr s r) in Some (r, k, setr s r d)
  | ORepl to from ct base =>
      let inc := getr s from in let d := getr s to in
      if consume_ok base inc d then Some (to, R_OK, setr s to (consume to (ct, to) base inc d))
      else None
  end.

Fixpoint run (s : sys) (ops : list op) : option sys :=
  match ops with
  | [] => Some s
  | o :: r => match step s o with Some (_, _, s1) => run s1 r | None => None end
  end.

(* ------------------------------------------------------------------ the property, executable *)
(* generic observation: live entry = (uuid, list of (unique attribute, value)) *)
Definition gent := (N * list (N * N))%type.
Definition pair_eqb (a b : N * N) : bool := (fst a =? fst b) && (snd a =? snd b).
Definition gshare (a b : gent) : bool :=
  existsb (fun v => existsb (pair_eqb v) (snd b)) (snd a).
Fixpoint gpairs (l : list gent) : bool :=
  match l with [] => true | a :: r => forallb (fun b => negb (gshare a b)) r && gpairs r end.
(* no two listed live entries share a uuid or a unique-attribute value *)
Definition guniqb (l : list gent) : bool := negb (dupN (map fst l)) && gpairs l.

(* what the schema-unique attributes of a modelled entry are: 0 name, 1 spn (id of the name it was made from),
   2 gidnumber *)
Definition gen_of (e : ent) : gent :=
  (uuid e, [(0, name e); (1, spn e)] ++ match gid e with Some g => [(2, g)] | None => [] end).
Definition gen_db (d : db) : list gent := map gen_of (filter live d).

(* same property on modelled entries *)
Fixpoint upairs (l : list ent) : bool :=
  match l with [] => true
  | a :: r => forallb (fun b => negb (live a && live b && share a b)) r && upairs r end.
Definition uniqb (d : db) : bool := negb (dupN (map uuid d)) && upairs d.

(* ------------------------------------------------------------------ correspondence *)
(* one observed transaction: the op, its result code, the affected replica's tracked entries
   (all states) and the generic dump of its live tracked entries, both sorted by uuid id *)
Inductive obs := Obs (o : op) (code : N) (snap : list ent) (gen : list gent).

(* nrep replicas; observed steps; per replica the FULL generic dump of every live entry of the
   database (built-in entries included) at the end; per replica the final tracked entries *)
Inductive case := CHist (nrep : N) (steps : list obs) (full : list (list gent)) (final : list (list ent)).

Definition same_set (a b : list ent) : bool :=
  (N.of_nat (length a) =? N.of_nat (length b)) &&
  forallb (fun e => existsb (ent_eqb e) a) b.

Fixpoint list_eqb {A} (eq : A -> A -> bool) (a b : list A) : bool :=
  match a, b with
  | [], [] => true
  | x :: r, y :: t => eq x y && list_eqb eq r t
  | _, _ => false
  end.
Definition gent_eqb (a b : gent) : bool := (fst a =? fst b) && list_eqb pair_eqb (snd a) (snd b).

Fixpoint steps_agree (s : sys) (l : list obs) : option sys :=
  match l with
  | [] => Some s
  | Obs o code snap gen :: r =>
      match step s o with
      | None => None
      | Some (rep, k, s1) =>
          if (k =? code) && same_set snap (getr s1 rep) && list_eqb gent_eqb gen (gen_db snap)
          then steps_agree s1 r else None
      end
  end.

Definition init (nrep : N) : sys := repeat [] (N.to_nat nrep).

Fixpoint finals_agree (s : sys) (f : list (list ent)) : bool :=
  match s, f with
  | [], [] => true
  | d :: s', o :: f' => same_set o d && finals_agree s' f'
  | _, _ => false
  end.

Definition agree (c : case) : bool :=
  match c with
  | CHist nrep steps _ final =>
      match steps_agree (init nrep) steps with
      | Some s => finals_agree s final
      | None => false
      end
  end.

(* the property on the implementation's own dumps *)
Definition pcheck_steps (c : case) : bool :=
  match c with CHist _ steps _ _ => forallb (fun x => match x with Obs _ _ _ gen => guniqb gen end) steps end.

Fixpoint all_same (l : list (list ent)) : bool :=
  match l with
  | a :: ((b :: _) as r) => list_eqb ent_eqb a b && all_same r
  | _ => true
  end.

(* "every entry involved in a clash is moved to the conflict state": in the dump taken after a replication, no
   live entry may hold a unique value of an entry that THIS transaction moved to the conflict state
   (class change id = the transaction's change id; conflict copies, which keep no name, are not concerned) *)
Definition both_sides (o : op) (snap : list ent) : bool :=
  match o with
  | ORepl to _ ct _ =>
      forallb (fun x => negb ((cls x =? 2) && cid_eqb (cls_c x) (ct, to) && (0 <? name x))
                        || forallb (fun y => negb (live y && share x y)) snap) snap
  | _ => true
  end.

Definition pcheck (c : case) : bool :=
  match c with
  | CHist _ steps full final =>
      pcheck_steps c                                   (* after every transaction, on the replica it touched *)
      && forallb guniqb full                           (* whole database of every replica at the end *)
      && forallb (fun d => uniqb d) final              (* tracked entries incl. their uuids *)
      && all_same final                                (* at quiescence every replica holds the same entries,
                                                          conflict state included *)
      && forallb (fun x => match x with Obs o _ snap _ => both_sides o snap end) steps
  end.

Definition known (_ : case) : bool := false.
