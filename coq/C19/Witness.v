(* KV.C19.Witness — non-vacuity: concrete states / schedules meeting the hypotheses of the theorems. *)
From Coq Require Import List NArith Bool.
Import ListNotations.
Require Import KV.C19.Model KV.C19.Proofs.
Open Scope N_scope.

Definition eA := mkE 1 (1, 0) 1 (1, 0) 1 (1, 0) None (0, 0) 0 (1, 0) false.          (* uuid 1, name 1, made on replica 0 *)
Definition eB := mkE 2 (1, 1) 1 (1, 1) 1 (1, 1) (Some 1) (1, 1) 0 (1, 1) false.      (* uuid 2, SAME name, made on replica 1 *)
Definition eC := mkE 3 (2, 0) 2 (2, 0) 2 (2, 0) (Some 2) (2, 0) 0 (2, 0) false. Definition eD := mkE 4 (3, 0) 1 (3, 0) 1 (3, 0) None (0, 0) 1 (4, 0) false.          (* recycled holder of name 1 *)

(* a non-trivial database satisfying the invariant: a live and a recycled entry share a name *)
Example C19_witness_uniq : Uniq [eA; eC; eD].
Proof. apply uniqb_sound. vm_compute. reflexivity. Qed.

(* C19_inv_local is not vacuous and its three branches all occur: duplicate inside one request, duplicate
   against the database, duplicate uuid (also against a recycled entry), accepted request; a rename hitting two
   entries at once; a rename onto a name only held by a recycled entry is accepted *)
Example C19_witness_local :
  fst (do_create (9, 0) [(5, 3, None); (6, 3, None)] [eA; eC; eD]) = R_UNIQUE /\
  fst (do_create (9, 0) [(5, 3, Some 2)] [eA; eC; eD]) = R_UNIQUE /\
  fst (do_create (9, 0) [(4, 3, None)] [eA; eC; eD]) = R_BASE /\
  fst (do_create (9, 0) [(5, 3, None); (6, 4, Some 1)] [eA; eC; eD]) = R_OK /\
  fst (do_mod (9, 0) [1; 3] 0 4 [eA; eC; eD]) = R_UNIQUE /\
  fst (do_mod (9, 0) [3] 0 1 [eA; eC; eD]) = R_UNIQUE /\
  fst (do_mod (9, 0) [3] 0 1 [eC; eD]) = R_OK /\
  fst (do_delete (9, 0) [1] [eA; eC; eD]) = R_OK.
Proof. vm_compute. repeat split; reflexivity. Qed.

(* hypotheses of C19_repl_inv / C19_conflict_exact: a Uniq consumer, an acceptable supplied set, and a real
   clash in the merged database (so the conflict branch is exercised) *)
Example C19_witness_repl :
  uniqb [eA; eC] = true /\ consume_ok 1000 [eB; eC] [eA; eC] = true /\
  existsb (clash1 (merged 0 (5, 0) 1000 [eB; eC] [eA; eC])) (merged 0 (5, 0) 1000 [eB; eC] [eA; eC]) = true /\
  map (fun e => (uuid e, cls e)) (consume 0 (5, 0) 1000 [eB; eC] [eA; eC]) = [(1, 2); (3, 0); (2, 2)].
Proof. vm_compute. repeat split; reflexivity. Qed.

(* hypotheses of C19_symmetric_partial: replica 0 pulling from 1 and replica 1 pulling from 0 obtain merged
   databases with the same entries (in different order) *)
Example C19_witness_symmetric :
  let mA := merged 0 (5, 0) 1000 [eB; eC] [eA; eC] in
  let mB := merged 1 (6, 1) 2000 [eA; eC] [eB; eC] in
  (forall x, In x mA <-> In x mB) /\ uniqb [eB; eC] = true /\ consume_ok 2000 [eA; eC] [eB; eC] = true.
Proof.
  vm_compute. split; [|split; reflexivity].
  intros x. split; intros [H|[H|[H|[]]]]; subst; auto.
Qed.

(* a two-replica schedule with a refused batch, a refused two-target rename, concurrent creates of one name
   at the same timestamp on both replicas, a uuid created twice, and three replications: it is accepted by
   the model, both name holders end as conflicts on both replicas, the later uuid-1 entry survives only as
   a conflict copy (2001), and the replicas hold the same entries *)
Definition w_ops : list op :=
  [OCreate 0 1 [(1, 1, None)]; OCreate 1 1 [(2, 1, Some 1)];
   OCreate 0 2 [(3, 2, None); (4, 2, None)];
   OCreate 1 3 [(1, 3, None)];
   OMod 1 4 [1; 2] 0 4;
   ORepl 0 1 5 1000; ORepl 1 0 6 2000; ORepl 0 1 7 3000].

Example C19_witness_schedule :
  exists s, run (init 2) w_ops = Some s /\
    map (fun e => (uuid e, cls e)) (getr s 0) = [(1, 2); (2, 2); (2001, 2)] /\
    same_set (getr s 0) (getr s 1) = true /\ forallb uniqb s = true.
Proof. eexists. vm_compute. repeat split; reflexivity. Qed.

(* an observation list on which `agree` and `pcheck` hold (accepted create, refused duplicate, replication
   producing a conflict pair) *)
Definition cA := mkE 1 (1, 0) 1 (1, 0) 1 (1, 0) None (0, 0) 2 (3, 0) true.
Definition cB := mkE 2 (1, 1) 1 (1, 1) 1 (1, 1) (Some 1) (1, 1) 2 (3, 0) true.
Definition w_case : case :=
  CHist 2
    [Obs (OCreate 0 1 [(1, 1, None)]) 0 [eA] [(1, [(0, 1); (1, 1)])];
     Obs (OCreate 1 1 [(2, 1, Some 1)]) 0 [eB] [(2, [(0, 1); (1, 1); (2, 1)])];
     Obs (OCreate 0 2 [(5, 1, None)]) 2 [eA] [(1, [(0, 1); (1, 1)])];
     Obs (ORepl 0 1 3 3000) 0 [cA; cB] [];
     Obs (ORepl 1 0 4 4000) 0 [cA; cB] []]
    [[(100000, [(0, 1000); (1, 1001)])]; [(100000, [(0, 1000); (1, 1001)])]]
    [[cA; cB]; [cA; cB]].

Example C19_witness_agree : agree w_case = true /\ pcheck w_case = true.
Proof. vm_compute. split; reflexivity. Qed.

(* the predicates are not trivially true: a dump with two live holders of one name is rejected, and a model
   disagreement is detected *)
Example C19_witness_pcheck_rejects :
  guniqb [(1, [(0, 1); (1, 1)]); (2, [(0, 1); (1, 1); (2, 1)])] = false /\
  guniqb [(1, [(0, 1)]); (1, [(0, 2)])] = false /\
  agree (CHist 1 [Obs (OCreate 0 1 [(1, 1, None)]) 0 [eA; eB] [(1, [(0, 1); (1, 1)])]] [[]] [[eA]]) = false.
Proof. vm_compute. repeat split; reflexivity. Qed.

(* transcribed behaviour worth a witness (observed on the real servers): the spn is re-set by every modify and
   merged as an attribute of its own, so a rename on replica 0 followed by a LATER gidnumber change on
   replica 1 leaves both replicas with name 4 but the spn of name 2; name 2 then stays unusable (the
   create is refused on the spn) — uniqueness holds, C22 (spn = name@domain) does not *)
Definition w_spn_ops : list op :=
  [OCreate 0 1 [(1, 2, Some 1)]; ORepl 1 0 2 2000;
   OMod 0 3 [1] 0 4; OMod 1 4 [1] 1 2;
   ORepl 0 1 5 5000; ORepl 1 0 6 6000].
Example C19_witness_stale_spn :
  exists s, run (init 2) w_spn_ops = Some s /\
    map (fun e => (name e, spn e, gid e, cls e)) (getr s 0) = [(4, 2, Some 2, 0)] /\
    same_set (getr s 0) (getr s 1) = true /\
    fst (do_create (7, 0) [(2, 2, None)] (getr s 0)) = R_UNIQUE.
Proof. eexists. vm_compute. repeat split; reflexivity. Qed.

(* validate_repl branch: deleted on replica 0 (later) and conflicted on replica 1 (earlier): the merged entry
   keeps the class change id of the delete but ends in the conflict state on both replicas *)
Definition w_fix_ops : list op :=
  [OCreate 0 1 [(1, 1, None)]; OCreate 1 1 [(2, 1, None)]; ORepl 1 0 2 2000;
   ODelete 0 3 [1]; ORepl 0 1 4 4000; ORepl 1 0 5 5000].
Example C19_witness_validate_repl :
  exists s, run (init 2) w_fix_ops = Some s /\
    map (fun e => (uuid e, cls e, cls_c e, src e)) (getr s 0) = [(1, 2, (3, 0), true); (2, 2, (2, 1), true)] /\
    same_set (getr s 0) (getr s 1) = true.
Proof. eexists. vm_compute. repeat split; reflexivity. Qed.
