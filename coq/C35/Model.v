(* KV.C35.Model — account policy resolution.
   Transcribed from /repo/server/lib/src/idm/accountpolicy.rs:
     From<&EntrySealedCommitted> for Option<AccountPolicy>   (defaults)      -> policy_of_entry
     ResolvedAccountPolicy::fold_from                                         -> fold_from
   and from webauthn-attestation-ca-0.6.1-dev/src/lib.rs:
     AttestationCa::intersection / can_retain, AttestationCaList::intersection -> ca_inter / can_retain / cal_inter
   Executable definitions only. *)
From Coq Require Import List NArith Bool.
Import ListNotations.
Open Scope N_scope.

(* ------------------------------------------------------------------ constants *)
Definition MAX_PRIV : N := 3600.          (* MAXIMUM_AUTH_PRIVILEGE_EXPIRY  constants/mod.rs:176 *)
Definition MAX_SESS : N := 4294967295.    (* MAXIMUM_AUTH_SESSION_EXPIRY = u32::MAX *)
Definition PW_MFA_MIN : N := 10.          (* PW_MFA_MIN_LENGTH        libs/crypto/src/lib.rs *)
Definition PW_SFA_MIN : N := 15.          (* PW_SFA_MIN_LENGTH_NIST *)
Definition PW_MAX : N := 128.             (* PW_MAX_LENGTH_NIST *)
(* CredentialType as its u16 discriminant; the derived Ord is the declaration order, which is
   the ascending discriminant order: Any=0 < External=5 < Mfa=10 < Passkey=20 <
   AttestedPasskey=30 < AttestedResidentkey=40 < Invalid=65535 *)
Definition CT_ANY : N := 0.
Definition CT_MFA : N := 10.

(* ------------------------------------------------------------------ attestation CA lists *)
(* AttestationCa { ca (certificate, determined by the key id), aaguids : BTreeMap<Uuid, DeviceDescription>,
   blanket_allow }.  A device is (aaguid, interned description label). *)
Record ca := mkca { ca_blanket : bool; ca_devs : list (N * N) }.
(* AttestationCaList { cas : BTreeMap<kid, AttestationCa> } : ascending unique keys *)
Definition calist := list (N * ca).

Fixpoint lookup {V} (k : N) (m : list (N * V)) : option V :=
  match m with
  | [] => None
  | (k', v) :: t => if k =? k' then Some v else lookup k t
  end.
Definition has_key {V} (k : N) (m : list (N * V)) : bool :=
  match lookup k m with Some _ => true | None => false end.

(* AttestationCa::intersection(&mut self, other) *)
Definition ca_inter (s o : ca) : ca :=
  if ca_blanket o then s
  else if ca_blanket s then mkca false (ca_devs o)
  else mkca false (filter (fun d => has_key (fst d) (ca_devs o)) (ca_devs s)).
(* AttestationCa::can_retain *)
Definition can_retain (s : ca) : bool :=
  ca_blanket s || match ca_devs s with [] => false | _ => true end.
(* AttestationCaList::intersection: self.cas.retain(..) in key order *)
Fixpoint cal_inter (a p : calist) : calist :=
  match a with
  | [] => []
  | (k, s) :: t =>
      match lookup k p with
      | Some o => let s' := ca_inter s o in
                  if can_retain s' then (k, s') :: cal_inter t p else cal_inter t p
      | None => cal_inter t p
      end
  end.

(* ------------------------------------------------------------------ policies *)
Record policy := mkpol {
  p_priv : N; p_sess : N; p_pwmin : N; p_cred : N;
  p_ca : option calist; p_lft : option N; p_lres : option N; p_fb : option bool }.
Record resolved := mkres {
  r_priv : N; r_sess : N; r_pwmin : N; r_pwmax : N; r_cred : N;
  r_ca : option calist; r_lft : option N; r_lres : option N; r_fb : option bool }.

(* "Start with our maximums" *)
Definition init : resolved :=
  mkres MAX_PRIV MAX_SESS PW_MFA_MIN PW_MAX CT_ANY None None None None.

Definition merge_lim (acc pol : option N) : option N :=
  match pol with
  | Some pl => match acc with
               | Some al => if al <? pl then Some pl else Some al
               | None => Some pl
               end
  | None => acc
  end.
Definition merge_ca (acc pol : option calist) : option calist :=
  match pol with
  | Some pc => match acc with
               | Some ac => Some (cal_inter ac pc)
               | None => Some pc
               end
  | None => acc
  end.
Definition merge_fb (acc pol : option bool) : option bool :=
  match pol with
  | Some pb => match acc with
               | Some ab => Some (pb && ab)
               | None => Some pb
               end
  | None => acc
  end.

(* the body of iter.for_each(|acc_pol| ..) *)
Definition step (a : resolved) (p : policy) : resolved :=
  mkres
    (if p_priv p <? r_priv a then p_priv p else r_priv a)
    (if p_sess p <? r_sess a then p_sess p else r_sess a)
    (if r_pwmin a <? p_pwmin p then p_pwmin p else r_pwmin a)
    (r_pwmax a)
    (if r_cred a <? p_cred p then p_cred p else r_cred a)
    (merge_ca (r_ca a) (p_ca p))
    (merge_lim (r_lft a) (p_lft p))
    (merge_lim (r_lres a) (p_lres p))
    (merge_fb (r_fb a) (p_fb p)).

(* the NIST single factor bump after the loop *)
Definition finish (a : resolved) : resolved :=
  if (r_cred a <? CT_MFA) && (r_pwmin a <? PW_SFA_MIN)
  then mkres (r_priv a) (r_sess a) PW_SFA_MIN (r_pwmax a) (r_cred a)
             (r_ca a) (r_lft a) (r_lres a) (r_fb a)
  else a.

Definition fold_from (l : list policy) : resolved := finish (fold_left step l init).

(* ------------------------------------------------------------------ entry -> policy (defaults) *)
(* the attributes of a group entry that the conversion reads *)
Record eattrs := mkea {
  e_class : bool;               (* has class account_policy *)
  e_sess : option N; e_priv : option N; e_pwmin : option N; e_cred : option N;
  e_ca : option calist; e_lres : option N; e_lft : option N; e_fb : option bool }.
Definition dflt {A} (o : option A) (d : A) : A := match o with Some x => x | None => d end.
Definition policy_of_entry (e : eattrs) : option policy :=
  if negb (e_class e) then None else
  Some (mkpol (dflt (e_priv e) MAX_PRIV) (dflt (e_sess e) MAX_SESS) (dflt (e_pwmin e) PW_MFA_MIN)
              (dflt (e_cred e) CT_ANY) (e_ca e) (e_lft e) (e_lres e) (e_fb e)).
Fixpoint filter_map {A B} (f : A -> option B) (l : list A) : list B :=
  match l with [] => [] | x :: r => match f x with Some y => y :: filter_map f r | None => filter_map f r end end.
(* idm::group::load_account_policy: fold over the policies of the groups found *)
Definition load_policy (groups : list eattrs) : resolved := fold_from (filter_map policy_of_entry groups).
(* the policy of an account-policy group that sets nothing *)
Definition unset_policy : policy := mkpol MAX_PRIV MAX_SESS PW_MFA_MIN CT_ANY None None None None.

(* ------------------------------------------------------------------ what a resolved policy MEANS *)
(* does this CA list accept a device with aaguid g attested by CA k? (webauthn-rs: the CA must be
   in the list and either blanket-allows or lists the aaguid) *)
Definition ca_trusts (s : ca) (g : N) : bool := ca_blanket s || has_key g (ca_devs s).
Definition trusts (c : calist) (k g : N) : bool :=
  match lookup k c with Some s => ca_trusts s g | None => false end.
(* None = attestation not constrained *)
Definition otrusts (o : option calist) (k g : N) : bool :=
  match o with Some c => trusts c k g | None => true end.
Definition is_some {A} (o : option A) : bool := match o with Some _ => true | None => false end.

(* ------------------------------------------------------------------ decidable equalities *)
Definition opt_eqb {A} (e : A -> A -> bool) (a b : option A) : bool :=
  match a, b with Some x, Some y => e x y | None, None => true | _, _ => false end.
Fixpoint list_eqb {A} (e : A -> A -> bool) (a b : list A) : bool :=
  match a, b with
  | [], [] => true
  | x :: a', y :: b' => e x y && list_eqb e a' b'
  | _, _ => false
  end.
Definition pairN_eqb (a b : N * N) : bool := (fst a =? fst b) && (snd a =? snd b).
Definition ca_eqb (a b : ca) : bool :=
  Bool.eqb (ca_blanket a) (ca_blanket b) && list_eqb pairN_eqb (ca_devs a) (ca_devs b).
Definition cal_eqb : calist -> calist -> bool :=
  list_eqb (fun a b => (fst a =? fst b) && ca_eqb (snd a) (snd b)).
Definition policy_eqb (a b : policy) : bool :=
  (p_priv a =? p_priv b) && (p_sess a =? p_sess b) && (p_pwmin a =? p_pwmin b) &&
  (p_cred a =? p_cred b) && opt_eqb cal_eqb (p_ca a) (p_ca b) &&
  opt_eqb N.eqb (p_lft a) (p_lft b) && opt_eqb N.eqb (p_lres a) (p_lres b) &&
  opt_eqb Bool.eqb (p_fb a) (p_fb b).
Definition resolved_eqb (a b : resolved) : bool :=
  (r_priv a =? r_priv b) && (r_sess a =? r_sess b) && (r_pwmin a =? r_pwmin b) &&
  (r_pwmax a =? r_pwmax b) && (r_cred a =? r_cred b) && opt_eqb cal_eqb (r_ca a) (r_ca b) &&
  opt_eqb N.eqb (r_lft a) (r_lft b) && opt_eqb N.eqb (r_lres a) (r_lres b) &&
  opt_eqb Bool.eqb (r_fb a) (r_fb b).

(* ------------------------------------------------------------------ well-formed inputs *)
(* BTreeMap keys are unique *)
Fixpoint nodupb (l : list N) : bool :=
  match l with [] => true | x :: t => negb (existsb (N.eqb x) t) && nodupb t end.
Definition wf_calb (c : calist) : bool := nodupb (map fst c).
Definition wf_policyb (p : policy) : bool := match p_ca p with Some c => wf_calb c | None => true end.
(* l' is a rearrangement of l *)
Fixpoint remove1 (x : policy) (l : list policy) : option (list policy) :=
  match l with
  | [] => None
  | y :: t => if policy_eqb x y then Some t
              else match remove1 x t with Some r => Some (y :: r) | None => None end
  end.
Fixpoint permb (l l' : list policy) : bool :=
  match l with
  | [] => match l' with [] => true | _ => false end
  | x :: t => match remove1 x l' with Some r => permb t r | None => false end
  end.

(* ------------------------------------------------------------------ the property, executable *)
(* the finite universe of (kid, aaguid) pairs that can distinguish two CA lists built from the
   inputs: every kid and aaguid that occurs, plus one aaguid that occurs nowhere (it tells a
   blanket CA from a listing one) *)
Definition cal_kids (c : calist) : list N := map fst c.
Definition cal_gs (c : calist) : list N := flat_map (fun e => map fst (ca_devs (snd e))) c.
Definition ocal_kids (o : option calist) := match o with Some c => cal_kids c | None => [] end.
Definition ocal_gs (o : option calist) := match o with Some c => cal_gs c | None => [] end.
Definition fresh (l : list N) : N := N.succ (fold_right N.max 0 l).
Definition universe (cs : list (option calist)) : list (N * N) :=
  let ks := flat_map ocal_kids cs in
  let gs := flat_map ocal_gs cs in
  let gs' := fresh gs :: gs in
  flat_map (fun k => map (fun g => (k, g)) gs') ks.

(* "at least as strict as each of them" *)
Definition strict_ok (l : list policy) (r : resolved) : bool :=
  forallb (fun p => (r_priv r <=? p_priv p) && (r_sess r <=? p_sess p) &&
                    (p_pwmin p <=? r_pwmin r) && (p_cred p <=? r_cred r)) l.
(* "... and no stricter than the strictest of them and the built-in bounds" *)
Definition tight_ok (l : list policy) (r : resolved) : bool :=
  (r_priv r <=? MAX_PRIV) && ((r_priv r =? MAX_PRIV) || existsb (fun p => p_priv p =? r_priv r) l) &&
  (r_sess r <=? MAX_SESS) && ((r_sess r =? MAX_SESS) || existsb (fun p => p_sess p =? r_sess r) l) &&
  ((r_cred r =? CT_ANY) || existsb (fun p => p_cred p =? r_cred r) l) &&
  (PW_MFA_MIN <=? r_pwmin r) &&
  ((r_pwmin r =? PW_MFA_MIN) || existsb (fun p => p_pwmin p =? r_pwmin r) l ||
   ((r_pwmin r =? PW_SFA_MIN) && (r_cred r <? CT_MFA))) &&
  (r_pwmax r =? PW_MAX).
(* "enforces the single-factor minimum length whenever second factors are optional" *)
Definition sfa_ok (r : resolved) : bool := (CT_MFA <=? r_cred r) || (PW_SFA_MIN <=? r_pwmin r).
(* "trusts only attestation authorities trusted by all" (and exactly those), on the universe *)
Definition ca_ok (u : list (N * N)) (l : list policy) (r : resolved) : bool :=
  Bool.eqb (is_some (r_ca r)) (existsb (fun p => is_some (p_ca p)) l) &&
  forallb (fun kg => Bool.eqb (otrusts (r_ca r) (fst kg) (snd kg))
                              (forallb (fun p => otrusts (p_ca p) (fst kg) (snd kg)) l)) u.
(* search limits: the largest of the limits that are set; fallback: the conjunction of those set *)
Definition somes {A} (l : list (option A)) : list A := filter_map (fun x => x) l.
Definition spec_lim (xs : list (option N)) : option N :=
  match somes xs with [] => None | y :: ys => Some (fold_left N.max ys y) end.
Definition spec_fb (xs : list (option bool)) : option bool :=
  match somes xs with [] => None | ys => Some (forallb (fun b => b) ys) end.
Definition rest_ok (l : list policy) (r : resolved) : bool :=
  opt_eqb N.eqb (r_lft r) (spec_lim (map p_lft l)) &&
  opt_eqb N.eqb (r_lres r) (spec_lim (map p_lres l)) &&
  opt_eqb Bool.eqb (r_fb r) (spec_fb (map p_fb l)).
Definition spec_ok (u : list (N * N)) (l : list policy) (r : resolved) : bool :=
  strict_ok l r && tight_ok l r && sfa_ok r && ca_ok u l r && rest_ok l r.
(* two resolved policies enforce the same thing (device description labels and the aaguids
   recorded under a blanket-allowing CA carry no meaning) *)
Definition obs_eqb (u : list (N * N)) (a b : resolved) : bool :=
  (r_priv a =? r_priv b) && (r_sess a =? r_sess b) && (r_pwmin a =? r_pwmin b) &&
  (r_pwmax a =? r_pwmax b) && (r_cred a =? r_cred b) &&
  Bool.eqb (is_some (r_ca a)) (is_some (r_ca b)) &&
  forallb (fun kg => Bool.eqb (otrusts (r_ca a) (fst kg) (snd kg)) (otrusts (r_ca b) (fst kg) (snd kg))) u &&
  opt_eqb N.eqb (r_lft a) (r_lft b) && opt_eqb N.eqb (r_lres a) (r_lres b) &&
  opt_eqb Bool.eqb (r_fb a) (r_fb b).

(* ------------------------------------------------------------------ cases *)
Inductive case :=
(* l' is a rearrangement of l; o, o' = what the real fold_from returned on l, l' *)
| CFold (l l' : list policy) (o o' : resolved)
(* a group entry on a real server: its attributes, and what the real conversion returned *)
| CEntry (e : eattrs) (impl : option policy)
(* an account on a real server that is a member of exactly these groups (in entry-id order),
   and what the real load_account_policy returned *)
| CLoad (groups : list eattrs) (impl : resolved).

Definition wf_eattrsb (e : eattrs) : bool := match e_ca e with Some c => wf_calb c | None => true end.
Definition case_wf (c : case) : bool :=
  match c with
  | CFold l l' _ _ => forallb wf_policyb l && permb l l'
  | CEntry e _ => wf_eattrsb e
  | CLoad gs _ => forallb wf_eattrsb gs
  end.

Definition agree (c : case) : bool :=
  case_wf c &&
  match c with
  | CFold l l' o o' => resolved_eqb (fold_from l) o && resolved_eqb (fold_from l') o'
  | CEntry e impl => opt_eqb policy_eqb (policy_of_entry e) impl
  | CLoad gs impl => resolved_eqb (load_policy gs) impl
  end.

Definition case_universe (c : case) : list (N * N) :=
  match c with
  | CFold l l' o o' => universe (r_ca o :: r_ca o' :: map p_ca l)
  | CEntry e impl => []
  | CLoad gs impl => universe (r_ca impl :: map e_ca gs)
  end.

(* the property on the IMPLEMENTATION's answers *)
Definition pcheck (c : case) : bool :=
  let u := case_universe c in
  match c with
  | CFold l l' o o' => spec_ok u l o && spec_ok u l' o' && obs_eqb u o o'
  | CEntry e impl =>
      (* a group without the class contributes nothing; one with the class contributes exactly its
         set attributes, and what it leaves unset does not tighten anything (neutral values) *)
      match impl with
      | None => negb (e_class e)
      | Some p => e_class e &&
          (p_priv p =? dflt (e_priv e) MAX_PRIV) &&
          (p_sess p =? dflt (e_sess e) MAX_SESS) &&
          (p_pwmin p =? dflt (e_pwmin e) PW_MFA_MIN) &&
          (p_cred p =? dflt (e_cred e) CT_ANY) &&
          opt_eqb cal_eqb (p_ca p) (e_ca e) && opt_eqb N.eqb (p_lft p) (e_lft e) &&
          opt_eqb N.eqb (p_lres p) (e_lres e) && opt_eqb Bool.eqb (p_fb p) (e_fb e)
      end
  | CLoad gs impl => spec_ok u (filter_map policy_of_entry gs) impl
  end.

Definition known (_ : case) : bool := false.
