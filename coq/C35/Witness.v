From Coq Require Import List NArith Bool Permutation.
Import ListNotations.
Require Import KV.C35.Model KV.C35.Proofs.
Open Scope N_scope.

(* three groups with overlapping CA lists (a blanket CA, listed devices with clashing labels, a CA
   that only one group knows), different expiries / lengths / credential types / limits / flags *)
Definition wa := mkpol 100 100 11 10 (Some [(1, mkca false [(7, 1); (8, 1); (9, 1)]); (2, mkca true [])])
                       (Some 10) (Some 10) None.
Definition wb := mkpol 150 50 15 20 (Some [(1, mkca false [(8, 2); (9, 2)]); (2, mkca false [(5, 2)]); (3, mkca true [])])
                       (Some 5) (Some 15) (Some false).
Definition wc := mkpol 4000 4294967295 0 0 None None None (Some true).

(* hypotheses of C35_perm / C35_strictest / C35_ca_exact hold of a non-trivial input, and the result
   is far from the initial accumulator *)
Example C35_witness_perm :
  Forall wf_policy [wa; wb; wc] /\ Permutation [wa; wb; wc] [wc; wb; wa] /\
  permb [wa; wb; wc] [wc; wb; wa] = true /\
  fold_from [wa; wb; wc] =
    mkres 100 50 15 128 20 (Some [(1, mkca false [(8, 1); (9, 1)]); (2, mkca false [(5, 2)])])
          (Some 10) (Some 15) (Some false) /\
  (* the other order: same enforcement, different labels *)
  fold_from [wc; wb; wa] =
    mkres 100 50 15 128 20 (Some [(1, mkca false [(8, 2); (9, 2)]); (2, mkca false [(5, 2)])])
          (Some 10) (Some 15) (Some false).
Proof.
  split; [apply wf_policies_sound; vm_compute; reflexivity|].
  split; [apply permb_sound; vm_compute; reflexivity|].
  vm_compute. repeat split; reflexivity.
Qed.

(* the kanidm unit test test_idm_account_policy_resolve (aaguids a..e = 1..5, CA roots a,b = 1,2) *)
Example C35_witness_unit_test :
  fold_from
    [mkpol 100 100 11 10 (Some [(1, mkca false [(1, 65); (2, 66); (3, 67)]); (2, mkca false [(4, 68)])])
           (Some 10) (Some 10) None;
     mkpol 150 50 15 20 (Some [(1, mkca false [(2, 66)]); (2, mkca false [(5, 69)])])
           (Some 5) (Some 15) (Some false)]
  = mkres 100 50 15 128 20 (Some [(1, mkca false [(2, 66)])]) (Some 10) (Some 15) (Some false).
Proof. vm_compute. reflexivity. Qed.

(* premise of C35_sfa_min holds and the bump is what establishes the conclusion (the groups ask for 12
   only); with a minimum credential type of Mfa the premise fails and 12 stands *)
Example C35_witness_sfa :
  let l := [mkpol 3600 3600 12 5 None None None None] in
  r_cred (fold_from l) <? CT_MFA = true /\ r_pwmin (fold_from l) = 15 /\
  r_pwmin (fold_from [mkpol 3600 3600 12 10 None None None None]) = 12.
Proof. vm_compute. repeat split; reflexivity. Qed.

(* an unset group in the middle of a non-trivial list; an empty list resolves to the built-in bounds
   with the single factor minimum *)
Example C35_witness_unset :
  fold_from ([wa] ++ unset_policy :: [wb]) = fold_from ([wa] ++ [wb]) /\
  fold_from [] = mkres 3600 4294967295 15 128 0 None None None None.
Proof. vm_compute. split; reflexivity. Qed.

(* the bridge's premise is satisfiable by a non-trivial case, and pcheck rejects a wrong answer
   (a resolved policy that keeps a device only one group allows) *)
Example C35_witness_bridge :
  let o := fold_from [wa; wb; wc] in
  let o' := fold_from [wc; wb; wa] in
  agree (CFold [wa; wb; wc] [wc; wb; wa] o o') = true /\
  pcheck (CFold [wa; wb; wc] [wc; wb; wa] o o') = true /\
  pcheck (CFold [wa; wb; wc] [wc; wb; wa] o
     (mkres 100 50 15 128 20 (Some [(1, mkca false [(7, 1); (8, 2); (9, 2)]); (2, mkca false [(5, 2)])])
          (Some 10) (Some 15) (Some false))) = false.
Proof. vm_compute. repeat split; reflexivity. Qed.
