(* KV.C35.Proofs *)
From Coq Require Import List NArith Bool Lia Permutation.
Import ListNotations.
Require Import KV.C35.Model.
Open Scope N_scope.
Arguments N.add : simpl never.
Arguments N.sub : simpl never.
Arguments N.ltb : simpl never.
Arguments N.leb : simpl never.
Arguments N.eqb : simpl never.
Arguments N.max : simpl never.
Arguments N.min : simpl never.

Ltac ltb_cases :=
  repeat match goal with
         | |- context [?a <? ?b] => destruct (N.ltb_spec a b)
         | H : context [?a <? ?b] |- _ => destruct (N.ltb_spec a b)
         end.

(* ------------------------------------------------------------------ generic folds *)
Lemma fold_left_perm {A B} (f : A -> B -> A) :
  (forall a x y, f (f a x) y = f (f a y) x) ->
  forall l1 l2, Permutation l1 l2 -> forall a, fold_left f l1 a = fold_left f l2 a.
Proof.
  intros Hc l1 l2 HP. induction HP as [|x l1 l2 HP IH|x y l|l1 l2 l3 HP1 IH1 HP2 IH2]; intros a; cbn.
  - reflexivity.
  - apply IH.
  - rewrite Hc. reflexivity.
  - rewrite IH1. apply IH2.
Qed.

Lemma forallb_perm {A} (f : A -> bool) l1 l2 : Permutation l1 l2 -> forallb f l1 = forallb f l2.
Proof.
  intros HP. induction HP as [|x l1 l2 HP IH|x y l|l1 l2 l3 HP1 IH1 HP2 IH2]; cbn.
  - reflexivity.
  - rewrite IH. reflexivity.
  - destruct (f x), (f y); reflexivity.
  - rewrite IH1. exact IH2.
Qed.
Lemma existsb_perm {A} (f : A -> bool) l1 l2 : Permutation l1 l2 -> existsb f l1 = existsb f l2.
Proof.
  intros HP. induction HP as [|x l1 l2 HP IH|x y l|l1 l2 l3 HP1 IH1 HP2 IH2]; cbn.
  - reflexivity.
  - rewrite IH. reflexivity.
  - destruct (f x), (f y); reflexivity.
  - rewrite IH1. exact IH2.
Qed.

(* a field of the accumulator evolves by its own operator *)
Lemma proj_fold {X Y} (pr : resolved -> X) (g : policy -> Y) (op : X -> Y -> X) :
  (forall a p, pr (step a p) = op (pr a) (g p)) ->
  forall l a, pr (fold_left step l a) = fold_left (fun x p => op x (g p)) l (pr a).
Proof.
  intros H l. induction l as [|p l IH]; intros a; cbn [fold_left]; [reflexivity|].
  rewrite IH, H. reflexivity.
Qed.

(* ------------------------------------------------------------------ min / max folds *)
Definition opmin (a x : N) : N := if x <? a then x else a.
Definition opmax (a x : N) : N := if a <? x then x else a.

Section MinMax.
  Context {P : Type} (g : P -> N).
  Definition fmin (l : list P) (a : N) := fold_left (fun x p => opmin x (g p)) l a.
  Definition fmax (l : list P) (a : N) := fold_left (fun x p => opmax x (g p)) l a.

  Lemma fmin_le_init : forall l a, fmin l a <= a.
  Proof.
    induction l as [|p l IH]; intros a; cbn; [lia|].
    specialize (IH (opmin a (g p))). unfold fmin in IH. unfold opmin in *. ltb_cases; lia.
  Qed.
  Lemma fmin_le_each : forall l a p, In p l -> fmin l a <= g p.
  Proof.
    induction l as [|q l IH]; intros a p Hin; [destruct Hin|]. cbn.
    destruct Hin as [->|Hin].
    - pose proof (fmin_le_init l (opmin a (g p))) as H. unfold fmin in H. unfold opmin in *. ltb_cases; lia.
    - apply (IH _ _ Hin).
  Qed.
  Lemma fmin_attained : forall l a, fmin l a = a \/ exists p, In p l /\ g p = fmin l a.
  Proof.
    induction l as [|q l IH]; intros a; cbn; [left; reflexivity|].
    destruct (IH (opmin a (g q))) as [E|[p [Hin E]]].
    - unfold fmin in E. rewrite E. unfold opmin. destruct (N.ltb_spec (g q) a).
      + right. exists q. split; [left; reflexivity | reflexivity].
      + left. reflexivity.
    - right. exists p. split; [right; exact Hin | exact E].
  Qed.
  Lemma fmax_ge_init : forall l a, a <= fmax l a.
  Proof.
    induction l as [|p l IH]; intros a; cbn; [lia|].
    specialize (IH (opmax a (g p))). unfold fmax in IH. unfold opmax in *. ltb_cases; lia.
  Qed.
  Lemma fmax_ge_each : forall l a p, In p l -> g p <= fmax l a.
  Proof.
    induction l as [|q l IH]; intros a p Hin; [destruct Hin|]. cbn.
    destruct Hin as [->|Hin].
    - pose proof (fmax_ge_init l (opmax a (g p))) as H. unfold fmax in H. unfold opmax in *. ltb_cases; lia.
    - apply (IH _ _ Hin).
  Qed.
  Lemma fmax_attained : forall l a, fmax l a = a \/ exists p, In p l /\ g p = fmax l a.
  Proof.
    induction l as [|q l IH]; intros a; cbn; [left; reflexivity|].
    destruct (IH (opmax a (g q))) as [E|[p [Hin E]]].
    - unfold fmax in E. rewrite E. unfold opmax. destruct (N.ltb_spec a (g q)).
      + right. exists q. split; [left; reflexivity | reflexivity].
      + left. reflexivity.
    - right. exists p. split; [right; exact Hin | exact E].
  Qed.
  Lemma fmin_perm l1 l2 a : Permutation l1 l2 -> fmin l1 a = fmin l2 a.
  Proof.
    intros HP. unfold fmin. apply fold_left_perm; [|exact HP].
    intros b x y. unfold opmin. ltb_cases; lia.
  Qed.
  Lemma fmax_perm l1 l2 a : Permutation l1 l2 -> fmax l1 a = fmax l2 a.
  Proof.
    intros HP. unfold fmax. apply fold_left_perm; [|exact HP].
    intros b x y. unfold opmax. ltb_cases; lia.
  Qed.
End MinMax.

(* ------------------------------------------------------------------ fields of the fold *)
Definition pre (l : list policy) : resolved := fold_left step l init.

Lemma pre_priv l : r_priv (pre l) = fmin p_priv l MAX_PRIV.
Proof. unfold pre, fmin. rewrite (proj_fold r_priv p_priv opmin); reflexivity. Qed.
Lemma pre_sess l : r_sess (pre l) = fmin p_sess l MAX_SESS.
Proof. unfold pre, fmin. rewrite (proj_fold r_sess p_sess opmin); reflexivity. Qed.
Lemma pre_pwmin l : r_pwmin (pre l) = fmax p_pwmin l PW_MFA_MIN.
Proof. unfold pre, fmax. rewrite (proj_fold r_pwmin p_pwmin opmax); reflexivity. Qed.
Lemma pre_cred l : r_cred (pre l) = fmax p_cred l CT_ANY.
Proof. unfold pre, fmax. rewrite (proj_fold r_cred p_cred opmax); reflexivity. Qed.
Lemma pre_pwmax l : r_pwmax (pre l) = PW_MAX.
Proof.
  unfold pre. rewrite (proj_fold r_pwmax (fun _ => tt) (fun x _ => x)); [|reflexivity].
  induction l as [|p l IH]; cbn; [reflexivity | exact IH].
Qed.
Lemma pre_ca l : r_ca (pre l) = fold_left (fun x p => merge_ca x (p_ca p)) l None.
Proof. unfold pre. rewrite (proj_fold r_ca p_ca merge_ca); reflexivity. Qed.
Lemma pre_lft l : r_lft (pre l) = fold_left (fun x p => merge_lim x (p_lft p)) l None.
Proof. unfold pre. rewrite (proj_fold r_lft p_lft merge_lim); reflexivity. Qed.
Lemma pre_lres l : r_lres (pre l) = fold_left (fun x p => merge_lim x (p_lres p)) l None.
Proof. unfold pre. rewrite (proj_fold r_lres p_lres merge_lim); reflexivity. Qed.
Lemma pre_fb l : r_fb (pre l) = fold_left (fun x p => merge_fb x (p_fb p)) l None.
Proof. unfold pre. rewrite (proj_fold r_fb p_fb merge_fb); reflexivity. Qed.

Lemma fold_from_pre l : fold_from l = finish (pre l).
Proof. reflexivity. Qed.

Lemma finish_priv a : r_priv (finish a) = r_priv a.
Proof. unfold finish. destruct (_ && _); reflexivity. Qed.
Lemma finish_sess a : r_sess (finish a) = r_sess a.
Proof. unfold finish. destruct (_ && _); reflexivity. Qed.
Lemma finish_cred a : r_cred (finish a) = r_cred a.
Proof. unfold finish. destruct (_ && _); reflexivity. Qed.
Lemma finish_pwmax a : r_pwmax (finish a) = r_pwmax a.
Proof. unfold finish. destruct (_ && _); reflexivity. Qed.
Lemma finish_ca a : r_ca (finish a) = r_ca a.
Proof. unfold finish. destruct (_ && _); reflexivity. Qed.
Lemma finish_lft a : r_lft (finish a) = r_lft a.
Proof. unfold finish. destruct (_ && _); reflexivity. Qed.
Lemma finish_lres a : r_lres (finish a) = r_lres a.
Proof. unfold finish. destruct (_ && _); reflexivity. Qed.
Lemma finish_fb a : r_fb (finish a) = r_fb a.
Proof. unfold finish. destruct (_ && _); reflexivity. Qed.
Lemma finish_pwmin a :
  r_pwmin (finish a) = if (r_cred a <? CT_MFA) && (r_pwmin a <? PW_SFA_MIN) then PW_SFA_MIN else r_pwmin a.
Proof. unfold finish. destruct (_ && _); reflexivity. Qed.

(* ------------------------------------------------------------------ strictest / tight / sfa *)
Lemma strictest_scalar l p : In p l ->
  r_priv (fold_from l) <= p_priv p /\ r_sess (fold_from l) <= p_sess p /\
  p_pwmin p <= r_pwmin (fold_from l) /\ p_cred p <= r_cred (fold_from l).
Proof.
  intros Hin. rewrite fold_from_pre, finish_priv, finish_sess, finish_cred, finish_pwmin.
  rewrite pre_priv, pre_sess, pre_cred, pre_pwmin.
  pose proof (fmin_le_each p_priv l MAX_PRIV p Hin).
  pose proof (fmin_le_each p_sess l MAX_SESS p Hin).
  pose proof (fmax_ge_each p_pwmin l PW_MFA_MIN p Hin).
  pose proof (fmax_ge_each p_cred l CT_ANY p Hin).
  repeat split; try assumption.
  destruct (_ && _) eqn:E; [|assumption].
  apply andb_prop in E as [_ E]. apply N.ltb_lt in E. lia.
Qed.

Lemma bounds_scalar l :
  r_priv (fold_from l) <= MAX_PRIV /\ r_sess (fold_from l) <= MAX_SESS /\
  PW_MFA_MIN <= r_pwmin (fold_from l) /\ r_pwmax (fold_from l) = PW_MAX.
Proof.
  rewrite fold_from_pre, finish_priv, finish_sess, finish_pwmax, finish_pwmin.
  rewrite pre_priv, pre_sess, pre_pwmax, pre_pwmin.
  pose proof (fmin_le_init p_priv l MAX_PRIV). pose proof (fmin_le_init p_sess l MAX_SESS).
  pose proof (fmax_ge_init p_pwmin l PW_MFA_MIN).
  repeat split; try assumption.
  destruct (_ && _); [unfold PW_MFA_MIN, PW_SFA_MIN; lia | assumption].
Qed.

Lemma tight_scalar l :
  (r_priv (fold_from l) = MAX_PRIV \/ exists p, In p l /\ p_priv p = r_priv (fold_from l)) /\
  (r_sess (fold_from l) = MAX_SESS \/ exists p, In p l /\ p_sess p = r_sess (fold_from l)) /\
  (r_cred (fold_from l) = CT_ANY \/ exists p, In p l /\ p_cred p = r_cred (fold_from l)) /\
  (r_pwmin (fold_from l) = PW_MFA_MIN \/ (exists p, In p l /\ p_pwmin p = r_pwmin (fold_from l)) \/
   (r_pwmin (fold_from l) = PW_SFA_MIN /\ r_cred (fold_from l) < CT_MFA)).
Proof.
  rewrite fold_from_pre, finish_priv, finish_sess, finish_cred, finish_pwmin.
  rewrite pre_priv, pre_sess, pre_cred, pre_pwmin.
  repeat split.
  - apply fmin_attained.
  - apply fmin_attained.
  - apply fmax_attained.
  - destruct (_ && _) eqn:E.
    + right. right. apply andb_prop in E as [E _]. apply N.ltb_lt in E. split; [reflexivity | exact E].
    + destruct (fmax_attained p_pwmin l PW_MFA_MIN) as [H|H]; [left; exact H | right; left; exact H].
Qed.

Lemma sfa_min l : r_cred (fold_from l) < CT_MFA -> PW_SFA_MIN <= r_pwmin (fold_from l).
Proof.
  rewrite fold_from_pre, finish_cred, finish_pwmin. intros H.
  apply N.ltb_lt in H. rewrite H. cbn [andb].
  destruct (N.ltb_spec (r_pwmin (pre l)) PW_SFA_MIN); lia.
Qed.

(* ------------------------------------------------------------------ attestation CA lists *)
Lemma lookup_notin {V} k (m : list (N * V)) : ~ In k (map fst m) -> lookup k m = None.
Proof.
  induction m as [|[k' v] m IH]; cbn; intros H; [reflexivity|].
  destruct (N.eqb_spec k k') as [->|Hne]; [exfalso; apply H; left; reflexivity|].
  apply IH. intros Hin. apply H. right. exact Hin.
Qed.

Lemma cal_inter_keys a p k : In k (map fst (cal_inter a p)) -> In k (map fst a).
Proof.
  induction a as [|[k' s] a IH]; cbn; [tauto|].
  destruct (lookup k' p) as [o|]; [destruct (can_retain (ca_inter s o))|]; cbn; intuition.
Qed.

Lemma cal_inter_nodup a p : NoDup (map fst a) -> NoDup (map fst (cal_inter a p)).
Proof.
  induction a as [|[k' s] a IH]; cbn; intros H; [constructor|].
  inversion H as [|x xs Hnotin Hnd]; subst.
  destruct (lookup k' p) as [o|]; [destruct (can_retain (ca_inter s o))|]; cbn; auto.
  constructor; [|auto]. intros Hin. apply Hnotin. eapply cal_inter_keys. exact Hin.
Qed.

Lemma lookup_cal_inter a p k : NoDup (map fst a) ->
  lookup k (cal_inter a p) =
  match lookup k a with
  | Some s => match lookup k p with
              | Some o => if can_retain (ca_inter s o) then Some (ca_inter s o) else None
              | None => None
              end
  | None => None
  end.
Proof.
  induction a as [|[k' s] a IH]; cbn [cal_inter lookup map fst]; intros H; [reflexivity|].
  inversion H as [|x xs Hnotin Hnd]; subst.
  assert (Hnone : lookup k' (cal_inter a p) = None).
  { apply lookup_notin. intros Hin. apply Hnotin. eapply cal_inter_keys. exact Hin. }
  destruct (N.eqb_spec k k') as [->|Hne].
  - destruct (lookup k' p) as [o|]; [|exact Hnone].
    destruct (can_retain (ca_inter s o)); [|exact Hnone].
    cbn [lookup]. rewrite N.eqb_refl. reflexivity.
  - apply N.eqb_neq in Hne.
    destruct (lookup k' p) as [o|]; [destruct (can_retain (ca_inter s o))|]; cbn [lookup];
      rewrite ?Hne; apply IH; exact Hnd.
Qed.

Lemma has_key_cons {V} g g' (v : V) m :
  has_key g ((g', v) :: m) = if g =? g' then true else has_key g m.
Proof. unfold has_key. cbn [lookup]. destruct (g =? g'); reflexivity. Qed.

Lemma has_key_filter g (sd od : list (N * N)) :
  has_key g (filter (fun d => has_key (fst d) od) sd) = has_key g sd && has_key g od.
Proof.
  induction sd as [|[g' v] sd IH]; [reflexivity|].
  cbn [filter fst]. rewrite has_key_cons.
  destruct (N.eqb_spec g g') as [->|Hne].
  - destruct (has_key g' od) eqn:E.
    + rewrite has_key_cons, N.eqb_refl. reflexivity.
    + rewrite IH. apply andb_false_r.
  - apply N.eqb_neq in Hne.
    destruct (has_key g' od); [|exact IH].
    rewrite has_key_cons, Hne. exact IH.
Qed.

Lemma ca_trusts_inter s o g : ca_trusts (ca_inter s o) g = ca_trusts s g && ca_trusts o g.
Proof.
  destruct s as [sb sd], o as [ob od]. unfold ca_inter, ca_trusts. cbn [ca_blanket ca_devs].
  destruct ob; cbn [orb].
  - cbn [ca_blanket ca_devs]. rewrite andb_true_r. reflexivity.
  - destruct sb; cbn [ca_blanket ca_devs orb andb]; [reflexivity|]. apply has_key_filter.
Qed.

Lemma not_retain_trusts s g : can_retain s = false -> ca_trusts s g = false.
Proof.
  destruct s as [b d]. unfold can_retain, ca_trusts. cbn [ca_blanket ca_devs].
  destruct b; cbn [orb]; [discriminate|]. destruct d; [reflexivity | discriminate].
Qed.

Lemma trusts_inter a p k g : NoDup (map fst a) ->
  trusts (cal_inter a p) k g = trusts a k g && trusts p k g.
Proof.
  intros H. unfold trusts. rewrite (lookup_cal_inter a p k H).
  destruct (lookup k a) as [s|]; [|reflexivity].
  destruct (lookup k p) as [o|]; [|rewrite andb_false_r; reflexivity].
  destruct (can_retain (ca_inter s o)) eqn:E; [apply ca_trusts_inter|].
  rewrite <- ca_trusts_inter. symmetry. apply not_retain_trusts. exact E.
Qed.

Definition owf (o : option calist) : Prop :=
  match o with Some c => NoDup (map fst c) | None => True end.
Definition wf_policy (p : policy) : Prop := owf (p_ca p).

Lemma merge_ca_trusts acc p k g : owf acc ->
  otrusts (merge_ca acc p) k g = otrusts acc k g && otrusts p k g.
Proof.
  destruct p as [pc|], acc as [ac|]; cbn; intros H; try reflexivity.
  - apply trusts_inter. exact H.
  - rewrite andb_true_r. reflexivity.
Qed.
Lemma merge_ca_wf acc p : owf acc -> owf p -> owf (merge_ca acc p).
Proof.
  destruct p as [pc|], acc as [ac|]; cbn; intros H1 H2; auto. apply cal_inter_nodup. exact H1.
Qed.
Lemma merge_ca_some acc p : is_some (merge_ca acc p) = is_some acc || is_some p.
Proof. destruct p, acc; reflexivity. Qed.

Lemma fold_merge_ca k g : forall l acc, owf acc -> Forall wf_policy l ->
  let r := fold_left (fun x p => merge_ca x (p_ca p)) l acc in
  owf r /\
  otrusts r k g = otrusts acc k g && forallb (fun p => otrusts (p_ca p) k g) l /\
  is_some r = is_some acc || existsb (fun p => is_some (p_ca p)) l.
Proof.
  induction l as [|p l IH]; intros acc Hacc Hl; cbn.
  - rewrite andb_true_r, orb_false_r. auto.
  - inversion Hl as [|x xs Hp Hl']; subst.
    destruct (IH (merge_ca acc (p_ca p)) (merge_ca_wf _ _ Hacc Hp) Hl') as [H1 [H2 H3]].
    split; [exact H1|]. split.
    + rewrite H2, merge_ca_trusts by exact Hacc. rewrite andb_assoc. reflexivity.
    + rewrite H3, merge_ca_some. rewrite orb_assoc. reflexivity.
Qed.

Lemma ca_exact l k g : Forall wf_policy l ->
  otrusts (r_ca (fold_from l)) k g = forallb (fun p => otrusts (p_ca p) k g) l /\
  is_some (r_ca (fold_from l)) = existsb (fun p => is_some (p_ca p)) l /\
  owf (r_ca (fold_from l)).
Proof.
  intros H. rewrite fold_from_pre, finish_ca, pre_ca.
  destruct (fold_merge_ca k g l None I H) as [H1 [H2 H3]]. cbn in H2, H3. auto.
Qed.

(* ------------------------------------------------------------------ limits and fallback *)
Lemma flim_spec {P} (g : P -> option N) : forall l a,
  fold_left (fun x p => merge_lim x (g p)) l a =
  match a with
  | None => spec_lim (map g l)
  | Some v => Some (fold_left N.max (somes (map g l)) v)
  end.
Proof.
  induction l as [|p l IH]; intros a; cbn [fold_left map].
  - destruct a; reflexivity.
  - rewrite IH. unfold spec_lim, somes. cbn [filter_map].
    destruct (g p) as [y|]; destruct a as [v|]; cbn [merge_lim fold_left]; try reflexivity.
    destruct (N.ltb_spec v y).
    + replace (N.max v y) with y by lia. reflexivity.
    + replace (N.max v y) with v by lia. reflexivity.
Qed.

Lemma ffb_spec {P} (g : P -> option bool) : forall l a,
  fold_left (fun x p => merge_fb x (g p)) l a =
  match a with
  | None => spec_fb (map g l)
  | Some b => Some (b && forallb (fun b => b) (somes (map g l)))
  end.
Proof.
  induction l as [|p l IH]; intros a; cbn [fold_left map].
  - destruct a as [b|]; [|reflexivity]. cbn. rewrite andb_true_r. reflexivity.
  - rewrite IH. unfold spec_fb, somes. cbn [filter_map].
    destruct (g p) as [y|]; destruct a as [v|]; cbn [merge_fb forallb]; try reflexivity.
    destruct y, v; reflexivity.
Qed.

Lemma rest_exact l :
  r_lft (fold_from l) = spec_lim (map p_lft l) /\
  r_lres (fold_from l) = spec_lim (map p_lres l) /\
  r_fb (fold_from l) = spec_fb (map p_fb l).
Proof.
  rewrite fold_from_pre, finish_lft, finish_lres, finish_fb, pre_lft, pre_lres, pre_fb.
  rewrite !flim_spec, ffb_spec. auto.
Qed.

(* ------------------------------------------------------------------ order independence *)
Definition scalars (r : resolved) :=
  (r_priv r, r_sess r, r_pwmin r, r_pwmax r, r_cred r, r_lft r, r_lres r, r_fb r).

Lemma merge_lim_comm a x y : merge_lim (merge_lim a x) y = merge_lim (merge_lim a y) x.
Proof.
  destruct a as [a|], x as [x|], y as [y|]; cbn; try reflexivity; ltb_cases; try reflexivity; f_equal; lia.
Qed.
Lemma merge_fb_comm a x y : merge_fb (merge_fb a x) y = merge_fb (merge_fb a y) x.
Proof. destruct a as [[]|], x as [[]|], y as [[]|]; reflexivity. Qed.

Lemma pre_scalars_perm l1 l2 : Permutation l1 l2 -> scalars (pre l1) = scalars (pre l2).
Proof.
  intros HP. unfold scalars.
  rewrite !pre_priv, !pre_sess, !pre_pwmin, !pre_pwmax, !pre_cred, !pre_lft, !pre_lres, !pre_fb.
  rewrite (fmin_perm p_priv l1 l2 _ HP), (fmin_perm p_sess l1 l2 _ HP),
          (fmax_perm p_pwmin l1 l2 _ HP), (fmax_perm p_cred l1 l2 _ HP).
  rewrite (fold_left_perm (fun x p => merge_lim x (p_lft p)) (fun a x y => merge_lim_comm a _ _) l1 l2 HP).
  rewrite (fold_left_perm (fun x p => merge_lim x (p_lres p)) (fun a x y => merge_lim_comm a _ _) l1 l2 HP).
  rewrite (fold_left_perm (fun x p => merge_fb x (p_fb p)) (fun a x y => merge_fb_comm a _ _) l1 l2 HP).
  reflexivity.
Qed.

Lemma finish_scalars a b : scalars a = scalars b -> scalars (finish a) = scalars (finish b).
Proof.
  unfold scalars. intros H. injection H as H1 H2 H3 H4 H5 H6 H7 H8.
  rewrite !finish_priv, !finish_sess, !finish_pwmin, !finish_pwmax, !finish_cred, !finish_lft,
          !finish_lres, !finish_fb.
  rewrite H1, H2, H3, H4, H5, H6, H7, H8. reflexivity.
Qed.

Lemma scalars_perm l1 l2 : Permutation l1 l2 -> scalars (fold_from l1) = scalars (fold_from l2).
Proof. intros HP. rewrite !fold_from_pre. apply finish_scalars, pre_scalars_perm, HP. Qed.

(* same enforcement: same scalar fields, attestation constrained in both or in neither, and the
   same (CA, device) pairs accepted *)
Definition obs_equiv (a b : resolved) : Prop :=
  scalars a = scalars b /\ is_some (r_ca a) = is_some (r_ca b) /\
  forall k g, otrusts (r_ca a) k g = otrusts (r_ca b) k g.

Lemma Forall_perm {A} (Q : A -> Prop) l1 l2 : Permutation l1 l2 -> Forall Q l1 -> Forall Q l2.
Proof.
  intros HP H. apply Forall_forall. intros x Hx. rewrite Forall_forall in H. apply H.
  eapply Permutation_in; [apply Permutation_sym; exact HP | exact Hx].
Qed.

Lemma perm_obs l1 l2 : Forall wf_policy l1 -> Permutation l1 l2 ->
  obs_equiv (fold_from l1) (fold_from l2).
Proof.
  intros Hwf HP. pose proof (Forall_perm _ _ _ HP Hwf) as Hwf2.
  split; [apply scalars_perm; exact HP|]. split.
  - destruct (ca_exact l1 0 0 Hwf) as [_ [E1 _]]. destruct (ca_exact l2 0 0 Hwf2) as [_ [E2 _]].
    rewrite E1, E2. apply existsb_perm. exact HP.
  - intros k g. destruct (ca_exact l1 k g Hwf) as [E1 _]. destruct (ca_exact l2 k g Hwf2) as [E2 _].
    rewrite E1, E2. apply forallb_perm. exact HP.
Qed.

(* ------------------------------------------------------------------ a group that sets nothing is neutral *)
Lemma step_unset a :
  r_priv a <= MAX_PRIV -> r_sess a <= MAX_SESS -> PW_MFA_MIN <= r_pwmin a -> step a unset_policy = a.
Proof.
  intros H1 H2 H3. destruct a as [pr se pw pm cr ca lf lr fb]. unfold step, unset_policy.
  cbn [r_priv r_sess r_pwmin r_pwmax r_cred r_ca r_lft r_lres r_fb p_priv p_sess p_pwmin p_cred p_ca p_lft
       p_lres p_fb merge_ca merge_lim merge_fb] in *.
  destruct (N.ltb_spec MAX_PRIV pr); [lia|]. destruct (N.ltb_spec MAX_SESS se); [lia|].
  destruct (N.ltb_spec pw PW_MFA_MIN); [lia|]. destruct (N.ltb_spec cr CT_ANY); [unfold CT_ANY in *; lia|].
  reflexivity.
Qed.

Lemma unset_neutral l1 l2 : fold_from (l1 ++ unset_policy :: l2) = fold_from (l1 ++ l2).
Proof.
  unfold fold_from. rewrite !fold_left_app. cbn [fold_left]. fold (pre l1).
  rewrite step_unset; [reflexivity| | |].
  - rewrite pre_priv. apply fmin_le_init.
  - rewrite pre_sess. apply fmin_le_init.
  - rewrite pre_pwmin. apply fmax_ge_init.
Qed.

(* ------------------------------------------------------------------ decidable equalities are equalities *)
Ltac split_and :=
  repeat match goal with H : _ && _ = true |- _ => apply andb_prop in H; destruct H end.

Lemma list_eqb_sound {A} (e : A -> A -> bool) :
  (forall x y, e x y = true -> x = y) -> forall a b, list_eqb e a b = true -> a = b.
Proof.
  intros He. induction a as [|x a IH]; intros [|y b] H; cbn in H; try discriminate; [reflexivity|].
  split_and. f_equal; auto.
Qed.
Lemma list_eqb_refl {A} (e : A -> A -> bool) : (forall x, e x x = true) -> forall a, list_eqb e a a = true.
Proof. intros He. induction a as [|x a IH]; cbn; [reflexivity|]. rewrite He, IH. reflexivity. Qed.
Lemma opt_eqb_sound {A} (e : A -> A -> bool) :
  (forall x y, e x y = true -> x = y) -> forall a b, opt_eqb e a b = true -> a = b.
Proof. intros He [x|] [y|] H; cbn in H; try discriminate; [f_equal; auto | reflexivity]. Qed.
Lemma opt_eqb_refl {A} (e : A -> A -> bool) : (forall x, e x x = true) -> forall a, opt_eqb e a a = true.
Proof. intros He [x|]; cbn; auto. Qed.
Lemma Neqb_sound x y : (x =? y) = true -> x = y.
Proof. apply N.eqb_eq. Qed.
Lemma pairN_eqb_sound a b : pairN_eqb a b = true -> a = b.
Proof.
  destruct a as [a1 a2], b as [b1 b2]. unfold pairN_eqb. cbn [fst snd]. intros H. split_and.
  f_equal; apply Neqb_sound; assumption.
Qed.
Lemma pairN_eqb_refl a : pairN_eqb a a = true.
Proof. unfold pairN_eqb. rewrite !N.eqb_refl. reflexivity. Qed.
Lemma ca_eqb_sound a b : ca_eqb a b = true -> a = b.
Proof.
  destruct a as [ab ad], b as [bb bd]. unfold ca_eqb. cbn [ca_blanket ca_devs]. intros H. split_and. f_equal.
  - apply eqb_prop. assumption.
  - eapply list_eqb_sound; [exact pairN_eqb_sound | assumption].
Qed.
Lemma ca_eqb_refl a : ca_eqb a a = true.
Proof. unfold ca_eqb. rewrite eqb_reflx, (list_eqb_refl _ pairN_eqb_refl). reflexivity. Qed.
Lemma cal_eqb_sound a b : cal_eqb a b = true -> a = b.
Proof.
  apply list_eqb_sound. intros [k s] [k' s']. cbn [fst snd]. intros H. split_and.
  f_equal; [apply Neqb_sound | apply ca_eqb_sound]; assumption.
Qed.
Lemma cal_eqb_refl a : cal_eqb a a = true.
Proof. apply list_eqb_refl. intros x. rewrite N.eqb_refl, ca_eqb_refl. reflexivity. Qed.

Lemma policy_eqb_sound a b : policy_eqb a b = true -> a = b.
Proof.
  destruct a as [a1 a2 a3 a4 a5 a6 a7 a8], b as [b1 b2 b3 b4 b5 b6 b7 b8]. unfold policy_eqb. cbn [p_priv p_sess p_pwmin p_cred p_ca p_lft p_lres p_fb].
  intros H. split_and. f_equal; try (apply Neqb_sound; assumption).
  - eapply opt_eqb_sound; [exact cal_eqb_sound | assumption].
  - eapply opt_eqb_sound; [exact Neqb_sound | assumption].
  - eapply opt_eqb_sound; [exact Neqb_sound | assumption].
  - eapply opt_eqb_sound; [exact eqb_prop | assumption].
Qed.
Lemma resolved_eqb_sound a b : resolved_eqb a b = true -> a = b.
Proof.
  destruct a as [a1 a2 a3 a4 a5 a6 a7 a8 a9], b as [b1 b2 b3 b4 b5 b6 b7 b8 b9]. unfold resolved_eqb.
  cbn [r_priv r_sess r_pwmin r_pwmax r_cred r_ca r_lft r_lres r_fb].
  intros H. split_and. f_equal; try (apply Neqb_sound; assumption).
  - eapply opt_eqb_sound; [exact cal_eqb_sound | assumption].
  - eapply opt_eqb_sound; [exact Neqb_sound | assumption].
  - eapply opt_eqb_sound; [exact Neqb_sound | assumption].
  - eapply opt_eqb_sound; [exact eqb_prop | assumption].
Qed.

(* ------------------------------------------------------------------ well-formedness checks *)
Lemma nodupb_sound l : nodupb l = true -> NoDup l.
Proof.
  induction l as [|x l IH]; cbn; intros H; [constructor|]. split_and. constructor; [|auto].
  intros Hin. assert (E : existsb (N.eqb x) l = true).
  { apply existsb_exists. exists x. split; [exact Hin | apply N.eqb_refl]. }
  rewrite E in H. discriminate.
Qed.
Lemma wf_policyb_sound p : wf_policyb p = true -> wf_policy p.
Proof.
  unfold wf_policyb, wf_policy, owf, wf_calb. destruct (p_ca p); [apply nodupb_sound | auto].
Qed.
Lemma wf_policies_sound l : forallb wf_policyb l = true -> Forall wf_policy l.
Proof.
  intros H. apply Forall_forall. intros p Hin. apply wf_policyb_sound.
  rewrite forallb_forall in H. auto.
Qed.
Lemma wf_groups_sound gs : forallb wf_eattrsb gs = true -> Forall wf_policy (filter_map policy_of_entry gs).
Proof.
  induction gs as [|e gs IH]; cbn; intros H; [constructor|]. split_and.
  unfold policy_of_entry at 1. destruct (e_class e); cbn [negb]; [|auto].
  constructor; [|auto]. unfold wf_policy. cbn [p_ca].
  unfold wf_eattrsb, wf_calb in *. unfold owf. destruct (e_ca e); [apply nodupb_sound; assumption | exact I].
Qed.

Lemma remove1_perm : forall l x r, remove1 x l = Some r -> Permutation l (x :: r).
Proof.
  induction l as [|y l IH]; cbn; intros x r H; [discriminate|].
  destruct (policy_eqb x y) eqn:E.
  - apply policy_eqb_sound in E. subst. injection H as <-. apply Permutation_refl.
  - destruct (remove1 x l) as [r'|] eqn:R; [|discriminate]. injection H as <-.
    eapply perm_trans; [apply perm_skip, (IH _ _ R) | apply perm_swap].
Qed.
Lemma permb_sound : forall l l', permb l l' = true -> Permutation l l'.
Proof.
  induction l as [|x l IH]; cbn; intros l' H.
  - destruct l'; [constructor | discriminate].
  - destruct (remove1 x l') as [r|] eqn:R; [|discriminate].
    apply IH in H. apply remove1_perm in R.
    eapply perm_trans; [apply perm_skip, H | apply Permutation_sym, R].
Qed.

(* ------------------------------------------------------------------ the model satisfies the executable property *)
Lemma attained_b (l : list policy) (g : policy -> N) x m :
  (x = m \/ exists p, In p l /\ g p = x) -> (x =? m) || existsb (fun p => g p =? x) l = true.
Proof.
  intros [->|[p [Hin E]]]; [rewrite N.eqb_refl; reflexivity|].
  apply orb_true_iff. right. apply existsb_exists. exists p. split; [exact Hin | apply N.eqb_eq, E].
Qed.

Lemma spec_ok_fold l u : Forall wf_policy l -> spec_ok u l (fold_from l) = true.
Proof.
  intros Hwf. unfold spec_ok.
  destruct (bounds_scalar l) as (B1 & B2 & B3 & B4).
  destruct (tight_scalar l) as (T1 & T2 & T3 & T4).
  destruct (rest_exact l) as (R1 & R2 & R3).
  set (r := fold_from l) in *.
  assert (S1 : strict_ok l r = true).
  { unfold strict_ok. apply forallb_forall. intros p Hin.
    destruct (strictest_scalar l p Hin) as (H1 & H2 & H3 & H4). fold r in H1, H2, H3, H4.
    repeat (apply andb_true_intro; split); apply N.leb_le; assumption. }
  assert (S2 : tight_ok l r = true).
  { unfold tight_ok. repeat (apply andb_true_intro; split).
    + apply N.leb_le, B1.
    + apply attained_b, T1.
    + apply N.leb_le, B2.
    + apply attained_b, T2.
    + apply attained_b, T3.
    + apply N.leb_le, B3.
    + destruct T4 as [T4|[T4|[T4 T5]]].
      * rewrite T4, N.eqb_refl. reflexivity.
      * rewrite (attained_b l p_pwmin (r_pwmin r) PW_MFA_MIN (or_intror T4)). reflexivity.
      * apply N.ltb_lt in T5. rewrite T4, T5, N.eqb_refl. cbn [andb]. apply orb_true_r.
    + rewrite B4. apply N.eqb_refl. }
  assert (S3 : sfa_ok r = true).
  { unfold sfa_ok. destruct (N.leb_spec CT_MFA (r_cred r)) as [|Hlt]; [reflexivity|].
    cbn [orb]. apply N.leb_le, sfa_min, Hlt. }
  assert (S4 : ca_ok u l r = true).
  { unfold ca_ok. apply andb_true_intro. split.
    + destruct (ca_exact l 0 0 Hwf) as (_ & E & _). fold r in E. rewrite E. apply eqb_reflx.
    + apply forallb_forall. intros [k g] _. cbn [fst snd].
      destruct (ca_exact l k g Hwf) as (E & _). fold r in E. rewrite E. apply eqb_reflx. }
  assert (S5 : rest_ok l r = true).
  { unfold rest_ok. rewrite R1, R2, R3.
    rewrite !(opt_eqb_refl _ N.eqb_refl), (opt_eqb_refl _ eqb_reflx). reflexivity. }
  rewrite S1, S2, S3, S4, S5. reflexivity.
Qed.

Lemma obs_eqb_of_equiv a b u : obs_equiv a b -> obs_eqb u a b = true.
Proof.
  intros (Hs & Hi & Ht). unfold scalars in Hs. injection Hs as H1 H2 H3 H4 H5 H6 H7 H8.
  unfold obs_eqb. rewrite H1, H2, H3, H4, H5, H6, H7, H8, Hi.
  rewrite !N.eqb_refl, eqb_reflx, !(opt_eqb_refl _ N.eqb_refl), (opt_eqb_refl _ eqb_reflx).
  cbn [andb]. rewrite !andb_true_r. apply forallb_forall. intros [k g] _. cbn [fst snd].
  rewrite Ht. apply eqb_reflx.
Qed.

Lemma agree_pcheck c : agree c = true -> pcheck c = true.
Proof.
  destruct c as [l l' o o' | e impl | gs impl]; unfold agree, pcheck; cbn [case_wf]; intros H; split_and.
  - repeat match goal with H : resolved_eqb _ _ = true |- _ => apply resolved_eqb_sound in H end.
    subst o o'.
    assert (Hwf : Forall wf_policy l) by (apply wf_policies_sound; assumption).
    assert (HP : Permutation l l') by (apply permb_sound; assumption).
    rewrite (spec_ok_fold l _ Hwf), (spec_ok_fold l' _ (Forall_perm _ _ _ HP Hwf)).
    cbn [andb]. apply obs_eqb_of_equiv, perm_obs; assumption.
  - match goal with H : opt_eqb policy_eqb _ _ = true |- _ =>
      apply (opt_eqb_sound _ policy_eqb_sound) in H; subst impl end.
    unfold policy_of_entry. destruct (e_class e); cbn [negb]; [|reflexivity].
    cbn [p_priv p_sess p_pwmin p_cred p_ca p_lft p_lres p_fb andb].
    rewrite !N.eqb_refl, (opt_eqb_refl _ cal_eqb_refl), !(opt_eqb_refl _ N.eqb_refl),
            (opt_eqb_refl _ eqb_reflx). reflexivity.
  - match goal with H : resolved_eqb _ _ = true |- _ => apply resolved_eqb_sound in H; subst impl end.
    unfold load_policy. apply spec_ok_fold, wf_groups_sound. assumption.
Qed.
