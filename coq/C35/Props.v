(* KV.C35.Props — property theorems only.
   fold_from is the transcription of ResolvedAccountPolicy::fold_from (all lists of group policies, any
   length, any values).  A policy is well formed (wf_policy) when the key ids of its attestation CA list
   are pairwise distinct — which a BTreeMap guarantees.  otrusts o k g = "a device with aaguid g attested
   by CA k is acceptable under the optional CA list o" (None = attestation unconstrained). *)
From Coq Require Import List NArith Bool Permutation.
Import ListNotations.
Require Import KV.C35.Model KV.C35.Proofs.
Open Scope N_scope.

(* ORDER INDEPENDENCE.  Considering the groups in another order resolves to a policy that enforces the
   same thing: identical privilege/session expiry, password minimum and maximum length, minimum
   credential type, search limits and fallback flag; attestation is constrained in both or in neither;
   and exactly the same (CA, device) pairs are accepted. *)
Theorem C35_perm : forall l1 l2, Forall wf_policy l1 -> Permutation l1 l2 ->
  obs_equiv (fold_from l1) (fold_from l2).
Proof. exact perm_obs. Qed.

(* for every field other than the CA list the equality is literal and needs no hypothesis *)
Theorem C35_perm_scalars : forall l1 l2, Permutation l1 l2 ->
  scalars (fold_from l1) = scalars (fold_from l2).
Proof. exact scalars_perm. Qed.

(* ... but the resolved CA list as a DATA STRUCTURE is not order independent: device description labels
   (and the aaguids recorded under a blanket-allowing CA) are taken from whichever group comes first.
   They carry no authority (webauthn-rs consults blanket_allow and the aaguid keys only), hence
   C35_perm is stated on what is enforced. *)
Theorem C35_structural_order_dependence :
  ~ (forall l1 l2, Forall wf_policy l1 -> Permutation l1 l2 -> fold_from l1 = fold_from l2).
Proof.
  intros H.
  pose (a := mkpol 100 100 10 0 (Some [(1, mkca false [(7, 100)])]) None None None).
  pose (b := mkpol 100 100 10 0 (Some [(1, mkca false [(7, 200)])]) None None None).
  specialize (H [a; b] [b; a]).
  assert (Hwf : Forall wf_policy [a; b]) by (apply wf_policies_sound; vm_compute; reflexivity).
  specialize (H Hwf (perm_swap b a [])). vm_compute in H. discriminate H.
Qed.

(* STRICTEST.  The resolved policy is at least as strict as every group's policy: expiries no longer,
   minimum password length no shorter, minimum credential type no weaker, it accepts only attested
   devices that this group accepts, and it constrains attestation if this group does. *)
Theorem C35_strictest : forall l p, Forall wf_policy l -> In p l ->
  r_priv (fold_from l) <= p_priv p /\
  r_sess (fold_from l) <= p_sess p /\
  p_pwmin p <= r_pwmin (fold_from l) /\
  p_cred p <= r_cred (fold_from l) /\
  (forall k g, otrusts (r_ca (fold_from l)) k g = true -> otrusts (p_ca p) k g = true) /\
  (is_some (p_ca p) = true -> is_some (r_ca (fold_from l)) = true).
Proof.
  intros l p Hwf Hin. destruct (strictest_scalar l p Hin) as (H1 & H2 & H3 & H4).
  repeat split; try assumption.
  - intros k g Ht. destruct (ca_exact l k g Hwf) as (E & _). rewrite E in Ht.
    rewrite forallb_forall in Ht. apply Ht. exact Hin.
  - intros Hs. destruct (ca_exact l 0 0 Hwf) as (_ & E & _). rewrite E.
    apply existsb_exists. exists p. split; assumption.
Qed.

(* TRUSTS ONLY AUTHORITIES TRUSTED BY ALL — and exactly those: a (CA, device) pair is accepted iff every
   group accepts it; attestation is constrained iff some group constrains it. *)
Theorem C35_ca_exact : forall l, Forall wf_policy l ->
  (forall k g, otrusts (r_ca (fold_from l)) k g = true <->
               forall p, In p l -> otrusts (p_ca p) k g = true) /\
  (is_some (r_ca (fold_from l)) = true <-> exists p, In p l /\ is_some (p_ca p) = true).
Proof.
  intros l Hwf. split.
  - intros k g. destruct (ca_exact l k g Hwf) as (E & _). rewrite E. apply forallb_forall.
  - destruct (ca_exact l 0 0 Hwf) as (_ & E & _). rewrite E. apply existsb_exists.
Qed.

(* NO STRICTER THAN NECESSARY: every resolved value is a built-in bound or is demanded by some group
   (the password minimum may also be the single-factor minimum, only when second factors are optional);
   the built-in bounds always hold; the maximum length is the constant 128. *)
Theorem C35_tight : forall l,
  (r_priv (fold_from l) <= MAX_PRIV /\ r_sess (fold_from l) <= MAX_SESS /\
   PW_MFA_MIN <= r_pwmin (fold_from l) /\ r_pwmax (fold_from l) = PW_MAX) /\
  (r_priv (fold_from l) = MAX_PRIV \/ exists p, In p l /\ p_priv p = r_priv (fold_from l)) /\
  (r_sess (fold_from l) = MAX_SESS \/ exists p, In p l /\ p_sess p = r_sess (fold_from l)) /\
  (r_cred (fold_from l) = CT_ANY \/ exists p, In p l /\ p_cred p = r_cred (fold_from l)) /\
  (r_pwmin (fold_from l) = PW_MFA_MIN \/ (exists p, In p l /\ p_pwmin p = r_pwmin (fold_from l)) \/
   (r_pwmin (fold_from l) = PW_SFA_MIN /\ r_cred (fold_from l) < CT_MFA)).
Proof. intros l. split; [apply bounds_scalar | apply tight_scalar]. Qed.

(* SINGLE FACTOR MINIMUM: whenever the resolved minimum credential type is below Mfa (a password alone
   may be accepted), the minimum password length is at least PW_SFA_MIN_LENGTH_NIST = 15. *)
Theorem C35_sfa_min : forall l, r_cred (fold_from l) < CT_MFA -> PW_SFA_MIN <= r_pwmin (fold_from l).
Proof. exact sfa_min. Qed.

(* search limits resolve to the largest limit set by any group (None if none sets one); the primary
   credential fallback flag to the conjunction of the flags that are set (None if none) *)
Theorem C35_limits_fallback : forall l,
  r_lft (fold_from l) = spec_lim (map p_lft l) /\
  r_lres (fold_from l) = spec_lim (map p_lres l) /\
  r_fb (fold_from l) = spec_fb (map p_fb l).
Proof. exact rest_exact. Qed.

(* DEFAULTS: an account-policy group that sets no attribute converts to a policy that is neutral
   wherever it occurs; a group without the class contributes nothing. *)
Theorem C35_unset_group_neutral :
  policy_of_entry (mkea true None None None None None None None None) = Some unset_policy /\
  (forall e, e_class e = false -> policy_of_entry e = None) /\
  forall l1 l2, fold_from (l1 ++ unset_policy :: l2) = fold_from (l1 ++ l2).
Proof.
  split; [reflexivity|]. split; [|exact unset_neutral].
  intros e H. unfold policy_of_entry. rewrite H. reflexivity.
Qed.

(* BRIDGE: on every recorded case where the model reproduces the implementation's answers (and the
   inputs are well formed, l' a rearrangement of l), the executable property holds of those answers. *)
Theorem C35_agree_implies_property : forall c, agree c = true -> pcheck c = true.
Proof. exact agree_pcheck. Qed.
