(* KV.C32.Proofs *)
From Coq Require Import List NArith Bool Lia.
Import ListNotations.
Require Import KV.C32.Model.
Open Scope N_scope.
Arguments N.add : simpl never.
Arguments N.ltb : simpl never.
Arguments N.leb : simpl never.
Arguments N.eqb : simpl never.
Arguments N.sub : simpl never.
Arguments GRACE : simpl never.

(* ------------------------------------------------------------------ association lists *)
Lemma lookup_upd_same {A} k (f : A -> A) l : lookup k (upd k f l) = option_map f (lookup k l).
Proof.
  induction l as [|[k' v] r IH]; cbn [upd lookup]; [reflexivity|].
  destruct (N.eqb_spec k k') as [E|E]; cbn [lookup].
  - subst. rewrite N.eqb_refl. reflexivity.
  - destruct (N.eqb_spec k k'); [contradiction|]. exact IH.
Qed.

Lemma lookup_upd_other {A} k k' (f : A -> A) l : k' <> k -> lookup k' (upd k f l) = lookup k' l.
Proof.
  intros Hne. induction l as [|[k2 v] r IH]; cbn [upd lookup]; [reflexivity|].
  destruct (N.eqb_spec k k2) as [E|E]; cbn [lookup].
  - subst. destruct (N.eqb_spec k' k2); [contradiction|reflexivity].
  - destruct (N.eqb_spec k' k2); [reflexivity|exact IH].
Qed.

Lemma lookup_app_some {A} k (l l' : list (N * A)) v : lookup k l = Some v -> lookup k (l ++ l') = Some v.
Proof.
  induction l as [|[k' w] r IH]; cbn [lookup app]; [discriminate|].
  destruct (k =? k'); [trivial|exact IH].
Qed.

Lemma lookup_app_none {A} k (l l' : list (N * A)) : lookup k l = None -> lookup k (l ++ l') = lookup k l'.
Proof.
  induction l as [|[k' w] r IH]; cbn [lookup app]; [reflexivity|].
  destruct (k =? k'); [discriminate|exact IH].
Qed.

Lemma lookup_map_snd {A} (h : A -> A) k (l : list (N * A)) :
  lookup k (map (fun p => (fst p, h (snd p))) l) = option_map h (lookup k l).
Proof.
  induction l as [|[k' w] r IH]; cbn [lookup map fst snd]; [reflexivity|].
  destruct (k =? k'); [reflexivity|exact IH].
Qed.

Lemma lookup_del_same {A} k (l : list (N * A)) : lookup k (del k l) = None.
Proof.
  induction l as [|[k' w] r IH]; cbn [del lookup]; [reflexivity|].
  destruct (N.eqb_spec k k') as [E|E]; [exact IH|].
  cbn [lookup]. destruct (N.eqb_spec k k'); [contradiction|exact IH].
Qed.

Lemma lookup_del_other {A} k k' (l : list (N * A)) : k' <> k -> lookup k' (del k l) = lookup k' l.
Proof.
  intros Hne. induction l as [|[k2 w] r IH]; cbn [del lookup]; [reflexivity|].
  destruct (N.eqb_spec k k2) as [E|E].
  - subst. destruct (N.eqb_spec k' k2); [contradiction|exact IH].
  - cbn [lookup]. destruct (N.eqb_spec k' k2); [reflexivity|exact IH].
Qed.

Lemma has_true {A} k (l : list (N * A)) : has k l = true <-> exists v, lookup k l = Some v.
Proof.
  unfold has. destruct (lookup k l) as [v|]; split; intros H; try discriminate; eauto.
  destruct H as [v H]. discriminate.
Qed.
Lemma has_false {A} k (l : list (N * A)) : has k l = false <-> lookup k l = None.
Proof. unfold has. destruct (lookup k l); split; intros H; try discriminate; reflexivity. Qed.

Lemma memN_In k l : memN k l = true <-> In k l.
Proof.
  unfold memN. rewrite existsb_exists. split.
  - intros [x [Hi He]]. apply N.eqb_eq in He. subst. exact Hi.
  - intros Hi. exists k. split; [exact Hi|apply N.eqb_refl].
Qed.

Lemma mem2_In a s l : mem2 a s l = true <-> In (a, s) l.
Proof.
  unfold mem2. rewrite existsb_exists. split.
  - intros [[x y] [Hi He]]. cbn [fst snd] in He. apply andb_true_iff in He as [H1 H2].
    apply N.eqb_eq in H1, H2. subst. exact Hi.
  - intros Hi. exists (a, s). split; [exact Hi|]. cbn [fst snd]. rewrite !N.eqb_refl. reflexivity.
Qed.

(* ------------------------------------------------------------------ the declarative acceptance condition *)
Definition SigValid (st : state) (g : sig) : Prop :=
  g_foreign g = false /\ g_sigok g = true /\ ~ In (g_kid g) (revoked st).

Definition Within (ct : N) (vf ex : option N) : Prop :=
  (forall v, vf = Some v -> v <= ct) /\ (forall x, ex = Some x -> ct <= x).

(* the session record is on the account, not revoked, and its expiry equals the token's *)
Definition SessLive (ac : acct) (sid : N) (exp : option N) : Prop :=
  exists c, (exists e, lookup sid (a_sess ac) = Some (mksess (SExpires e) c) /\ exp = Some e)
         \/ (lookup sid (a_sess ac) = Some (mksess SNever c) /\ exp = None).

Definition Accept (st : state) (ct : N) (t : token) (a s : N) : Prop :=
  match t with
  | TUat g ta sid exp iat =>
      ta = a /\ sid = s /\ SigValid st g /\ (forall e, exp = Some e -> ct <= e) /\
      exists ac, live_acct st a = Some ac /\ Within ct (a_vf ac) (a_ex ac) /\
        (a = ANON \/ SessLive ac sid exp \/ (lookup sid (a_sess ac) = None /\ ct < iat + GRACE))
  | TApi g ta tid exp iat =>
      ta = a /\ tid = s /\ SigValid st g /\ (forall e, exp = Some e -> ct < e) /\
      exists ac, live_acct st a = Some ac /\ Within ct (a_vf ac) (a_ex ac) /\
        ((exists e, lookup tid (a_api ac) = Some e) \/ ct < iat + GRACE)
  | TApiC g tid =>
      tid = s /\ SigValid st g /\
      exists ac exp, find_api tid (accts st) = Some (a, ac, exp) /\
        (forall e, exp = Some e -> ct < e) /\ Within ct (a_vf ac) (a_ex ac)
  end.

Lemma sig_ok_iff st g : sig_ok st g = true <-> SigValid st g.
Proof.
  unfold sig_ok, SigValid. rewrite !andb_true_iff, !negb_true_iff.
  rewrite <- memN_In. destruct (memN (g_kid g) (revoked st)); intuition congruence.
Qed.

Lemma within_iff ct vf ex : within ct vf ex = true <-> Within ct vf ex.
Proof.
  unfold within, Within. rewrite andb_true_iff. destruct vf as [v|], ex as [x|];
    rewrite ?N.leb_le; split.
  all: try (intros [H1 H2]; split; intros ? E; inversion E; subst; assumption).
  all: try (intros [H1 H2]; split; try reflexivity; try (apply H1; reflexivity); try (apply H2; reflexivity)).
Qed.

Lemma uat_expired_iff exp ct : uat_expired exp ct = false <-> (forall e, exp = Some e -> ct <= e).
Proof.
  unfold uat_expired. destruct exp as [e|]; [rewrite N.ltb_ge|]; split; intros H.
  - intros e' E. inversion E. subst. exact H.
  - apply H. reflexivity.
  - intros e' E. discriminate.
  - reflexivity.
Qed.

Lemma api_expired_iff exp ct : api_expired exp ct = false <-> (forall e, exp = Some e -> ct < e).
Proof.
  unfold api_expired. destruct exp as [e|]; [rewrite N.leb_gt|]; split; intros H.
  - intros e' E. inversion E. subst. exact H.
  - apply H. reflexivity.
  - intros e' E. discriminate.
  - reflexivity.
Qed.

Lemma sess_ok_iff ct ac sid exp iat :
  sess_ok ct ac sid exp iat = true <->
  (SessLive ac sid exp \/ (lookup sid (a_sess ac) = None /\ ct < iat + GRACE)).
Proof.
  unfold sess_ok, SessLive. destruct (lookup sid (a_sess ac)) as [[stt c]|] eqn:E.
  - cbn [ss_state]. split.
    + intros H. left. exists c. destruct stt as [se| |], exp as [ue|]; try discriminate.
      * apply N.eqb_eq in H. subst. left. exists ue. split; reflexivity.
      * right. split; reflexivity.
    + intros [[c' [[e [H1 H2]]|[H1 H2]]]|[H1 _]]; try discriminate.
      * inversion H1. subst. apply N.eqb_refl.
      * inversion H1. subst. reflexivity.
  - rewrite N.ltb_lt. split.
    + intros H. right. split; [reflexivity|exact H].
    + intros [[c' [[e [H1 _]]|[H1 _]]]|[_ H]]; try discriminate. exact H.
Qed.

Theorem accept_iff st ct t a s : validate st ct t = RIdent a s <-> Accept st ct t a s.
Proof.
  destruct t as [g ta sid exp iat|g ta tid exp iat|g tid]; cbn [validate Accept].
  - (* user auth token *)
    destruct (sig_ok st g) eqn:Es; cbn [negb].
    2:{ split; [discriminate|]. intros (_ & _ & Hs & _). apply sig_ok_iff in Hs. congruence. }
    apply sig_ok_iff in Es.
    destruct (uat_expired exp ct) eqn:Ee.
    { split; [discriminate|]. intros (_ & _ & _ & He & _). apply (proj2 (uat_expired_iff exp ct)) in He. congruence. }
    pose proof (proj1 (uat_expired_iff exp ct) Ee) as Ee'. clear Ee. rename Ee' into Ee.
    destruct (live_acct st ta) as [ac|] eqn:El.
    2:{ split; [discriminate|]. intros (-> & _ & _ & _ & ac & Hl & _). congruence. }
    unfold check_uat. destruct (within ct (a_vf ac) (a_ex ac)) eqn:Ew; cbn [andb].
    2:{ split; [discriminate|]. intros (-> & _ & _ & _ & ac' & Hl & Hw & _).
        rewrite El in Hl. inversion Hl. subst. apply within_iff in Hw. congruence. }
    apply within_iff in Ew.
    destruct ((ta =? ANON) || sess_ok ct ac sid exp iat) eqn:Ec.
    + split.
      * intros H. inversion H. subst. repeat split; try assumption; try apply Es.
        exists ac. split; [exact El|]. split; [exact Ew|].
        apply orb_true_iff in Ec as [Ec|Ec]; [left; apply N.eqb_eq; exact Ec|right; apply sess_ok_iff; exact Ec].
      * intros (-> & -> & _). reflexivity.
    + split; [discriminate|]. intros (-> & _ & _ & _ & ac' & Hl & _ & Hd).
      rewrite El in Hl. inversion Hl. subst ac'. apply orb_false_iff in Ec as [E1 E2].
      destruct Hd as [Hd|Hd]; [apply N.eqb_eq in Hd; congruence|apply sess_ok_iff in Hd; congruence].
  - (* API token, JSON form *)
    destruct (sig_ok st g) eqn:Es; cbn [negb].
    2:{ split; [discriminate|]. intros (_ & _ & Hs & _). apply sig_ok_iff in Hs. congruence. }
    apply sig_ok_iff in Es.
    destruct (api_expired exp ct) eqn:Ee.
    { split; [discriminate|]. intros (_ & _ & _ & He & _). apply (proj2 (api_expired_iff exp ct)) in He. congruence. }
    pose proof (proj1 (api_expired_iff exp ct) Ee) as Ee'. clear Ee. rename Ee' into Ee.
    destruct (live_acct st ta) as [ac|] eqn:El.
    2:{ split; [discriminate|]. intros (-> & _ & _ & _ & ac & Hl & _). congruence. }
    unfold check_api. destruct (within ct (a_vf ac) (a_ex ac)) eqn:Ew; cbn [andb].
    2:{ split; [discriminate|]. intros (-> & _ & _ & _ & ac' & Hl & Hw & _).
        rewrite El in Hl. inversion Hl. subst. apply within_iff in Hw. congruence. }
    apply within_iff in Ew.
    destruct (has tid (a_api ac) || (ct <? iat + GRACE)) eqn:Ec.
    + split.
      * intros H. inversion H. subst. repeat split; try assumption; try apply Es.
        exists ac. split; [exact El|]. split; [exact Ew|].
        apply orb_true_iff in Ec as [Ec|Ec]; [left; apply has_true; exact Ec|right; apply N.ltb_lt; exact Ec].
      * intros (-> & -> & _). reflexivity.
    + split; [discriminate|]. intros (-> & _ & _ & _ & ac' & Hl & _ & Hd).
      rewrite El in Hl. inversion Hl. subst ac'. apply orb_false_iff in Ec as [E1 E2].
      destruct Hd as [Hd|Hd]; [apply has_true in Hd; congruence|apply N.ltb_lt in Hd; congruence].
  - (* API token, compact form *)
    destruct (sig_ok st g) eqn:Es; cbn [negb].
    2:{ split; [discriminate|]. intros (_ & Hs & _). apply sig_ok_iff in Hs. congruence. }
    apply sig_ok_iff in Es.
    destruct (find_api tid (accts st)) as [[[a' ac] exp]|] eqn:Ef.
    2:{ split; [discriminate|]. intros (_ & _ & ac & exp & Hf & _). discriminate. }
    destruct (api_expired exp ct) eqn:Ee.
    { split; [discriminate|]. intros (_ & _ & ac' & exp' & Hf & He & _). inversion Hf. subst.
      apply (proj2 (api_expired_iff exp' ct)) in He. congruence. }
    pose proof (proj1 (api_expired_iff exp ct) Ee) as Ee'. clear Ee. rename Ee' into Ee.
    destruct (within ct (a_vf ac) (a_ex ac)) eqn:Ew.
    + apply within_iff in Ew. split.
      * intros H. inversion H. subst. split; [reflexivity|]. split; [exact Es|].
        exists ac, exp. auto.
      * intros (-> & _ & ac' & exp' & Hf & _). inversion Hf. subst. reflexivity.
    + split; [discriminate|]. intros (_ & _ & ac' & exp' & Hf & _ & Hw). inversion Hf. subst.
      apply within_iff in Hw. congruence.
Qed.

Lemma find_api_sound tid l a ac e :
  find_api tid l = Some (a, ac, e) ->
  In (a, ac) l /\ a_live ac = true /\ lookup tid (a_api ac) = Some e.
Proof.
  induction l as [|[a' ac'] r IH]; cbn [find_api]; [discriminate|].
  destruct (a_live ac') eqn:El.
  - destruct (lookup tid (a_api ac')) as [e'|] eqn:Ek.
    + intros H. inversion H. subst. split; [left; reflexivity|]. split; assumption.
    + intros H. destruct (IH H) as (H1 & H2 & H3). split; [right; exact H1|]. split; assumption.
  - intros H. destruct (IH H) as (H1 & H2 & H3). split; [right; exact H1|]. split; assumption.
Qed.

Lemma find_api_none tid l :
  (forall a ac, In (a, ac) l -> lookup tid (a_api ac) = None) -> find_api tid l = None.
Proof.
  induction l as [|[a' ac'] r IH]; intros H; cbn [find_api]; [reflexivity|].
  rewrite (H a' ac' (or_introl eq_refl)).
  destruct (a_live ac'); apply IH; intros a ac Hi; apply (H a ac); right; exact Hi.
Qed.

Lemma live_acct_some st a ac : live_acct st a = Some ac -> lookup a (accts st) = Some ac /\ a_live ac = true.
Proof.
  unfold live_acct. destruct (lookup a (accts st)) as [ac'|]; [|discriminate].
  destruct (a_live ac') eqn:E; [|discriminate]. intros H. inversion H. subst. auto.
Qed.

(* ------------------------------------------------------------------ histories: what operations preserve *)
Definition acct_rev (ac : acct) (s : N) : Prop :=
  exists c, lookup s (a_sess ac) = Some (mksess SRevoked c).
Definition sess_revoked (st : state) (a s : N) : Prop :=
  exists ac, lookup a (accts st) = Some ac /\ acct_rev ac s.

Definition pres (f : acct -> acct) : Prop := forall ac s, acct_rev ac s -> acct_rev (f ac) s.

Lemma pres_cleanup ct : pres (cleanup ct).
Proof.
  intros ac s [c H]. unfold acct_rev, cleanup. cbn [set_sess a_sess].
  rewrite lookup_map_snd, H. cbn [option_map]. exists c. reflexivity.
Qed.

Lemma pres_touch ct f : pres f -> pres (touch ct f).
Proof.
  intros Hf ac s H. unfold touch. destruct (a_live ac); [|exact H].
  apply pres_cleanup. apply Hf. exact H.
Qed.

Lemma on_acct_rev st a' f a s : pres f -> sess_revoked st a s -> sess_revoked (on_acct st a' f) a s.
Proof.
  intros Hf [ac [Hl Hr]]. unfold sess_revoked, on_acct. cbn [accts].
  destruct (N.eq_dec a a') as [->|Hne].
  - rewrite lookup_upd_same, Hl. cbn [option_map]. exists (f ac). split; [reflexivity|]. apply Hf. exact Hr.
  - rewrite lookup_upd_other by exact Hne. exists ac. split; assumption.
Qed.

Lemma pres_same_sess f : (forall ac, a_sess (f ac) = a_sess ac) -> pres f.
Proof. intros H ac s [c Hc]. exists c. rewrite H. exact Hc. Qed.

Lemma pres_record sid cred exp :
  pres (fun ac => if has sid (a_sess ac) then ac
                  else set_sess ac (a_sess ac ++ [(sid, mksess (new_state exp) cred)])).
Proof.
  intros ac s [c Hc]. destruct (has sid (a_sess ac)); [exists c; exact Hc|].
  exists c. cbn [set_sess a_sess]. apply lookup_app_some. exact Hc.
Qed.

Lemma pres_revoke sid : pres (fun ac => set_sess ac (upd sid revoke_sess (a_sess ac))).
Proof.
  intros ac s [c Hc]. unfold acct_rev. cbn [set_sess a_sess].
  destruct (N.eq_dec s sid) as [->|Hne].
  - rewrite lookup_upd_same, Hc. cbn [option_map revoke_sess ss_cred]. exists c. reflexivity.
  - rewrite lookup_upd_other by exact Hne. exists c. exact Hc.
Qed.

Lemma step_keeps_revoked st o a s : sess_revoked st a s -> sess_revoked (fst (step st o)) a s.
Proof.
  intros H. destruct o as [a' creds|a'|ct a' sid cred exp|ct a' sid ok|ct a' creds|ct a' vf ex|ct a' tid exp|ct a' tid ok|k];
    cbn [step].
  - destruct (has a' (accts st)) eqn:Eh; cbn [fst]; [exact H|].
    destruct H as [ac [Hl Hr]]. exists ac. split; [|exact Hr]. cbn [accts]. apply lookup_app_some. exact Hl.
  - cbn [fst]. apply on_acct_rev; [|exact H]. apply pres_same_sess. reflexivity.
  - cbn [fst]. apply on_acct_rev; [|exact H]. apply pres_touch. apply pres_record.
  - destruct (sess_present st a' sid); cbn [fst]; [|exact H].
    apply on_acct_rev; [|exact H]. apply pres_touch. apply pres_revoke.
  - cbn [fst]. apply on_acct_rev; [|exact H]. apply pres_touch. apply pres_same_sess. reflexivity.
  - cbn [fst]. apply on_acct_rev; [|exact H]. apply pres_touch. apply pres_same_sess. reflexivity.
  - cbn [fst]. apply on_acct_rev; [|exact H]. apply pres_touch.
    intros ac s' Hs. destruct (has tid (a_api ac)); exact Hs.
  - destruct (api_present st a' tid); cbn [fst]; [|exact H].
    apply on_acct_rev; [|exact H]. apply pres_touch. apply pres_same_sess. reflexivity.
  - cbn [fst]. exact H.
Qed.

Lemma run_keeps_revoked ops : forall st a s, sess_revoked st a s -> sess_revoked (run st ops) a s.
Proof.
  induction ops as [|o r IH]; intros st a s H; cbn [run fold_left]; [exact H|].
  apply IH. apply step_keeps_revoked. exact H.
Qed.

Lemma revoked_rejected st a s ct g exp iat :
  sess_revoked st a s -> a <> ANON -> is_ident (validate st ct (TUat g a s exp iat)) = false.
Proof.
  intros [ac [Hl [c Hc]]] Hne. cbn [validate].
  destruct (negb (sig_ok st g)); [reflexivity|].
  destruct (uat_expired exp ct); [reflexivity|].
  unfold live_acct. rewrite Hl. destruct (a_live ac); [|reflexivity].
  unfold check_uat, sess_ok. rewrite Hc. cbn [ss_state].
  destruct (N.eqb_spec a ANON); [contradiction|]. cbn [orb].
  rewrite andb_false_r. reflexivity.
Qed.

(* logout marks the record *)
Lemma revoke_op_revokes st ct a s ok :
  sess_present st a s = true -> sess_revoked (fst (step st (ORevoke ct a s ok))) a s.
Proof.
  intros Hp. cbn [step]. rewrite Hp. cbn [fst]. unfold sess_present in Hp.
  destruct (live_acct st a) as [ac|] eqn:El; [|discriminate].
  apply live_acct_some in El as [Hl Hlive]. apply has_true in Hp as [[stt c] Hs].
  unfold sess_revoked, on_acct. cbn [accts]. rewrite lookup_upd_same, Hl. cbn [option_map].
  eexists. split; [reflexivity|]. unfold touch. rewrite Hlive.
  apply pres_cleanup. exists c. cbn [set_sess a_sess]. rewrite lookup_upd_same, Hs. reflexivity.
Qed.

(* a credential change revokes every session the removed credential issued *)
Lemma setcreds_revokes st ct a creds ac s x :
  live_acct st a = Some ac -> lookup s (a_sess ac) = Some x -> ~ In (ss_cred x) creds ->
  sess_revoked (fst (step st (OSetCreds ct a creds))) a s.
Proof.
  intros El Hs Hn. apply live_acct_some in El as [Hl Hlive]. cbn [step fst].
  unfold sess_revoked, on_acct. cbn [accts]. rewrite lookup_upd_same, Hl. cbn [option_map].
  eexists. split; [reflexivity|]. unfold touch. rewrite Hlive.
  unfold acct_rev, cleanup. cbn [set_sess a_sess a_creds]. rewrite lookup_map_snd, Hs. cbn [option_map].
  exists (ss_cred x). f_equal. unfold clean_sess.
  assert (Hm : memN (ss_cred x) creds = false).
  { destruct (memN (ss_cred x) creds) eqn:E; [apply memN_In in E; contradiction|reflexivity]. }
  destruct x as [stt c]. cbn [ss_state ss_cred] in *. destruct stt; rewrite ?Hm; reflexivity.
Qed.

(* any modify of the entry at or after a session's stored expiry revokes it *)
Lemma expired_session_revoked_on_touch st ct' a vf ex ac s e c :
  live_acct st a = Some ac -> lookup s (a_sess ac) = Some (mksess (SExpires e) c) -> e <= ct' ->
  sess_revoked (fst (step st (OWindow ct' a vf ex))) a s.
Proof.
  intros El Hs He. apply live_acct_some in El as [Hl Hlive]. cbn [step fst].
  unfold sess_revoked, on_acct. cbn [accts]. rewrite lookup_upd_same, Hl. cbn [option_map].
  eexists. split; [reflexivity|]. unfold touch. rewrite Hlive.
  unfold acct_rev, cleanup. cbn [set_sess a_sess a_creds]. rewrite lookup_map_snd, Hs. cbn [option_map].
  exists c. f_equal. unfold clean_sess. cbn [ss_state ss_cred].
  destruct (memN c (a_creds ac)); [|reflexivity].
  destruct (N.leb_spec e ct'); [reflexivity|lia].
Qed.

(* key revocation is permanent *)
Lemma step_keeps_key st o k : In k (revoked st) -> In k (revoked (fst (step st o))).
Proof.
  intros H. destruct o; cbn [step];
    repeat match goal with |- context [if ?b then _ else _] => destruct b end;
    cbn [fst revoked on_acct]; try exact H.
  right. exact H.
Qed.

Lemma run_keeps_key ops : forall st k, In k (revoked st) -> In k (revoked (run st ops)).
Proof.
  induction ops as [|o r IH]; intros st k H; cbn [run fold_left]; [exact H|].
  apply IH. apply step_keeps_key. exact H.
Qed.

Lemma key_revoked_rejected st ct t :
  In (g_kid (tok_sig t)) (revoked st) -> validate st ct t = RNotAuth.
Proof.
  intros H. apply memN_In in H.
  destruct t as [g ? ? ? ?|g ? ? ? ?|g ?]; cbn [tok_sig] in H; cbn [validate]; unfold sig_ok;
    rewrite H; cbn [negb]; rewrite andb_false_r; reflexivity.
Qed.

(* API records: absent stays absent until the same id is issued again on that account *)
Definition api_absent_on (st : state) (a tid : N) : Prop :=
  forall ac, lookup a (accts st) = Some ac -> lookup tid (a_api ac) = None.

Definition issues (a tid : N) (o : op) : Prop :=
  match o with OApiIssue _ a' tid' _ => a' = a /\ tid' = tid | _ => False end.

Definition apres (tid : N) (f : acct -> acct) : Prop :=
  forall ac, lookup tid (a_api ac) = None -> lookup tid (a_api (f ac)) = None.

Lemma apres_touch ct tid f : apres tid f -> apres tid (touch ct f).
Proof.
  intros Hf ac H. unfold touch. destruct (a_live ac); [|exact H].
  unfold cleanup. cbn [set_sess a_api]. apply Hf. exact H.
Qed.

Lemma on_acct_absent st a' f a tid :
  (a' = a -> apres tid f) -> api_absent_on st a tid -> api_absent_on (on_acct st a' f) a tid.
Proof.
  intros Hf H ac. unfold on_acct. cbn [accts]. destruct (N.eq_dec a a') as [->|Hne].
  - rewrite lookup_upd_same. destruct (lookup a' (accts st)) as [ac0|] eqn:E; cbn [option_map]; [|discriminate].
    intros Heq. inversion Heq. subst. apply Hf; [reflexivity|]. apply H. exact E.
  - rewrite lookup_upd_other by exact Hne. apply H.
Qed.

Lemma apres_same_api tid f : (forall ac, a_api (f ac) = a_api ac) -> apres tid f.
Proof. intros H ac Hn. rewrite H. exact Hn. Qed.

Lemma step_keeps_absent st o a tid :
  ~ issues a tid o -> api_absent_on st a tid -> api_absent_on (fst (step st o)) a tid.
Proof.
  intros Hni H.
  destruct o as [a' creds|a'|ct a' sid cred exp|ct a' sid ok|ct a' creds|ct a' vf ex|ct a' tid' exp|ct a' tid' ok|k];
    cbn [step].
  - destruct (has a' (accts st)) eqn:Eh; cbn [fst]; [exact H|].
    intros ac. cbn [accts]. destruct (lookup a (accts st)) as [ac0|] eqn:E.
    + rewrite (lookup_app_some _ _ _ _ E). intros Heq. inversion Heq. subst. apply H. exact E.
    + rewrite (lookup_app_none _ _ _ E). cbn [lookup]. destruct (a =? a'); [|discriminate].
      intros Heq. inversion Heq. reflexivity.
  - cbn [fst]. apply on_acct_absent; [|exact H]. intros _. apply apres_same_api. reflexivity.
  - cbn [fst]. apply on_acct_absent; [|exact H]. intros _. apply apres_touch.
    intros ac Hn. destruct (has sid (a_sess ac)); exact Hn.
  - destruct (sess_present st a' sid); cbn [fst]; [|exact H].
    apply on_acct_absent; [|exact H]. intros _. apply apres_touch. apply apres_same_api. reflexivity.
  - cbn [fst]. apply on_acct_absent; [|exact H]. intros _. apply apres_touch. apply apres_same_api. reflexivity.
  - cbn [fst]. apply on_acct_absent; [|exact H]. intros _. apply apres_touch. apply apres_same_api. reflexivity.
  - cbn [fst]. apply on_acct_absent; [|exact H]. intros ->. apply apres_touch.
    intros ac Hn. destruct (has tid' (a_api ac)); [exact Hn|]. cbn [set_api a_api].
    rewrite (lookup_app_none _ _ _ Hn). cbn [lookup].
    destruct (N.eqb_spec tid tid') as [->|]; [|reflexivity].
    exfalso. apply Hni. cbn [issues]. auto.
  - destruct (api_present st a' tid'); cbn [fst]; [|exact H].
    apply on_acct_absent; [|exact H]. intros _. apply apres_touch.
    intros ac Hn. cbn [set_api a_api]. destruct (N.eq_dec tid tid') as [->|Hne].
    + apply lookup_del_same.
    + rewrite lookup_del_other by exact Hne. exact Hn.
  - cbn [fst]. exact H.
Qed.

Lemma run_keeps_absent ops : forall st a tid,
  Forall (fun o => ~ issues a tid o) ops -> api_absent_on st a tid -> api_absent_on (run st ops) a tid.
Proof.
  induction ops as [|o r IH]; intros st a tid Hf H; cbn [run fold_left]; [exact H|].
  inversion Hf; subst. apply IH; [assumption|]. apply step_keeps_absent; assumption.
Qed.

Lemma absent_rejected st a tid ct g exp iat :
  api_absent_on st a tid -> iat + GRACE <= ct -> is_ident (validate st ct (TApi g a tid exp iat)) = false.
Proof.
  intros H Hg. cbn [validate].
  destruct (negb (sig_ok st g)); [reflexivity|].
  destruct (api_expired exp ct); [reflexivity|].
  destruct (live_acct st a) as [ac|] eqn:El; [|reflexivity].
  apply live_acct_some in El as [Hl _]. unfold check_api, has. rewrite (H ac Hl). cbn [orb].
  destruct (N.ltb_spec ct (iat + GRACE)); [lia|]. rewrite andb_false_r. reflexivity.
Qed.

Lemma destroy_makes_absent st ct a tid ok :
  api_present st a tid = true -> api_absent_on (fst (step st (OApiDestroy ct a tid ok))) a tid.
Proof.
  intros Hp. cbn [step]. rewrite Hp. cbn [fst]. unfold api_present in Hp.
  destruct (live_acct st a) as [ac|] eqn:El; [|discriminate].
  apply live_acct_some in El as [Hl Hlive].
  intros ac'. unfold on_acct. cbn [accts]. rewrite lookup_upd_same, Hl. cbn [option_map].
  intros Heq. inversion Heq. subst. unfold touch. rewrite Hlive. unfold cleanup.
  cbn [set_sess set_api a_api]. apply lookup_del_same.
Qed.

(* unrecorded sessions are only good inside the grace window *)
Lemma unrecorded_after_grace_rejected st ct g a sid exp iat ac :
  a <> ANON -> live_acct st a = Some ac -> lookup sid (a_sess ac) = None -> iat + GRACE <= ct ->
  is_ident (validate st ct (TUat g a sid exp iat)) = false.
Proof.
  intros Hne El Hs Hg. cbn [validate].
  destruct (negb (sig_ok st g)); [reflexivity|].
  destruct (uat_expired exp ct); [reflexivity|].
  rewrite El. unfold check_uat, sess_ok. rewrite Hs.
  destruct (N.eqb_spec a ANON); [contradiction|]. cbn [orb].
  destruct (N.ltb_spec ct (iat + GRACE)); [lia|]. rewrite andb_false_r. reflexivity.
Qed.

(* ------------------------------------------------------------------ the run-time tie *)
Lemma optN_eqb_eq x y : optN_eqb x y = true -> x = y.
Proof.
  destruct x, y; cbn [optN_eqb]; intros H; try discriminate; [|reflexivity].
  apply N.eqb_eq in H. subst. reflexivity.
Qed.
Lemma sstate_eqb_eq x y : sstate_eqb x y = true -> x = y.
Proof.
  destruct x, y; cbn [sstate_eqb]; intros H; try discriminate; try reflexivity.
  apply N.eqb_eq in H. subst. reflexivity.
Qed.
Lemma snap_eqb_eq x y : snap_eqb x y = true -> x = y.
Proof.
  destruct x as [o1 v1 e1 s1 a1], y as [o2 v2 e2 s2 a2]. unfold snap_eqb.
  cbn [sn_owner sn_vf sn_ex sn_sess sn_api]. rewrite !andb_true_iff.
  intros [[[[H1 H2] H3] H4] H5].
  apply optN_eqb_eq in H1, H2, H3. subst.
  assert (s1 = s2) as ->.
  { destruct s1, s2; try discriminate; [|reflexivity]. apply sstate_eqb_eq in H4. subst. reflexivity. }
  assert (a1 = a2) as ->.
  { destruct a1, a2; try discriminate; [|reflexivity]. apply optN_eqb_eq in H5. subst. reflexivity. }
  reflexivity.
Qed.
Lemma result_eqb_ident x a s : result_eqb x (RIdent a s) = true -> x = RIdent a s.
Proof.
  destruct x; cbn [result_eqb]; intros H; try discriminate.
  apply andb_true_iff in H as [H1 H2]. apply N.eqb_eq in H1, H2. subst. reflexivity.
Qed.

(* the history facts pcheck collects are facts of the model state *)
Definition Inv (st : state) (rk : list N) (rs : list (N * N)) : Prop :=
  (forall k, In k rk -> In k (revoked st)) /\ (forall a s, In (a, s) rs -> sess_revoked st a s).

Lemma inv_step st rk rs o : Inv st rk rs -> Inv (fst (step st o)) rk rs.
Proof.
  intros [H1 H2]. split.
  - intros k Hk. apply step_keeps_key. apply H1. exact Hk.
  - intros a s Hs. apply step_keeps_revoked. apply H2. exact Hs.
Qed.

Lemma accepted_ok_of_model st rk rs ct t a s :
  Inv st rk rs -> validate st ct t = RIdent a s -> accepted_ok rk rs ct t (model_snap st t) a s = true.
Proof.
  intros [Hk Hs] Hv. pose proof Hv as Ha. apply accept_iff in Ha.
  assert (Hrk : forall g, SigValid st g -> negb (g_foreign g) && g_sigok g && negb (memN (g_kid g) rk) = true).
  { intros g (H1 & H2 & H3). rewrite H1, H2. cbn [negb andb].
    destruct (memN (g_kid g) rk) eqn:E; [|reflexivity]. apply memN_In in E. apply Hk in E. contradiction. }
  unfold accepted_ok.
  destruct t as [g ta sid exp iat|g ta tid exp iat|g tid]; cbn [Accept tok_sig model_snap] in *.
  - destruct Ha as (-> & -> & Hsig & Hexp & ac & El & Hw & Hd).
    rewrite (Hrk g Hsig), El. cbn [snap_of_acct sn_owner sn_vf sn_ex sn_sess optN_eqb andb].
    rewrite !N.eqb_refl. apply within_iff in Hw. rewrite Hw. cbn [andb].
    assert (He : match exp with Some e => ct <=? e | None => true end = true).
    { destruct exp as [e|]; [apply N.leb_le; apply Hexp; reflexivity|reflexivity]. }
    rewrite He. cbn [andb].
    destruct (N.eqb_spec a ANON) as [|Hne]; [reflexivity|]. cbn [orb].
    assert (Hm : mem2 a s rs = false).
    { destruct (mem2 a s rs) eqn:E; [|reflexivity]. apply mem2_In in E. apply Hs in E.
      pose proof (revoked_rejected st a s ct g exp iat E Hne) as Hr. rewrite Hv in Hr. discriminate. }
    rewrite Hm. cbn [negb andb].
    destruct Hd as [Hd|[[c [[e [H1 H2]]|[H1 H2]]]|[H1 H2]]]; [contradiction| | |].
    + rewrite H1. cbn [ss_state]. subst exp. apply N.eqb_refl.
    + rewrite H1. cbn [ss_state]. subst exp. reflexivity.
    + rewrite H1. apply N.ltb_lt. exact H2.
  - destruct Ha as (-> & -> & Hsig & Hexp & ac & El & Hw & Hd).
    rewrite (Hrk g Hsig), El. cbn [snap_of_acct sn_owner sn_vf sn_ex sn_api optN_eqb andb].
    rewrite !N.eqb_refl. apply within_iff in Hw. rewrite Hw. cbn [andb].
    assert (He : match exp with Some e => ct <? e | None => true end = true).
    { destruct exp as [e|]; [apply N.ltb_lt; apply Hexp; reflexivity|reflexivity]. }
    rewrite He. cbn [andb].
    destruct Hd as [[e Hd]|Hd]; [rewrite Hd; reflexivity|].
    destruct (lookup s (a_api ac)); [reflexivity|apply N.ltb_lt; exact Hd].
  - destruct Ha as (-> & Hsig & ac & exp & Hf & Hexp & Hw).
    rewrite (Hrk g Hsig), Hf. cbn [snap_of_acct sn_owner sn_vf sn_ex sn_api optN_eqb andb].
    rewrite !N.eqb_refl. apply within_iff in Hw. rewrite Hw. cbn [andb].
    apply find_api_sound in Hf as (_ & _ & Hl). rewrite Hl.
    destruct exp as [e|]; [apply N.ltb_lt; apply Hexp; reflexivity|reflexivity].
Qed.

Lemma hist_agree_pcheck evs : forall st rk rs,
  Inv st rk rs -> hist_agree st evs = true -> hist_pcheck rk rs evs = true.
Proof.
  induction evs as [|e r IH]; intros st rk rs HI Hag; [reflexivity|].
  destruct e as [o|ct t sn res]; cbn [hist_agree] in Hag.
  - destruct (step st o) as [st1 okm] eqn:Es. apply andb_true_iff in Hag as [Hok Hag].
    assert (Hst1 : st1 = fst (step st o)) by (rewrite Es; reflexivity).
    assert (HI1 : Inv st1 rk rs) by (subst st1; apply inv_step; exact HI).
    destruct o as [a' creds|a'|ct a' sid cred exp|ct a' sid ok|ct a' creds|ct a' vf ex|ct a' tid exp|ct a' tid ok|k];
      cbn [hist_pcheck]; try (eapply IH; eassumption).
    + (* logout *)
      destruct ok; [|eapply IH; eassumption].
      eapply IH; [|exact Hag]. destruct HI1 as [H1 H2]. split; [exact H1|].
      intros a s [Heq|Hin]; [|apply H2; exact Hin]. inversion Heq. subst a s.
      cbn [op_ok] in Hok. cbn [step] in Es.
      destruct (sess_present st a' sid) eqn:Ep.
      * rewrite Hst1. apply revoke_op_revokes. exact Ep.
      * inversion Es. subst okm. discriminate.
    + (* key revocation *)
      eapply IH; [|exact Hag]. destruct HI1 as [H1 H2]. split; [|exact H2].
      intros k' [<-|Hin]; [|apply H1; exact Hin].
      cbn [step] in Es. inversion Es. cbn [revoked]. left. reflexivity.
  - apply andb_true_iff in Hag as [Hag1 Hag]. apply andb_true_iff in Hag1 as [Hsn Hres].
    apply snap_eqb_eq in Hsn. subst sn.
    destruct res as [a s| | |]; cbn [hist_pcheck].
    + apply result_eqb_ident in Hres. rewrite (accepted_ok_of_model st rk rs ct t a s HI Hres).
      cbn [andb]. eapply IH; eassumption.
    + eapply IH; eassumption.
    + eapply IH; eassumption.
    + destruct (validate st ct t); discriminate.
Qed.

Lemma agree_pcheck c : agree c = true -> pcheck c = true.
Proof.
  destruct c as [evs]. cbn [agree pcheck]. apply hist_agree_pcheck.
  split; [intros k []|intros a s []].
Qed.
