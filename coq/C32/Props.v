(* KV.C32.Props — property theorems only.
   Vocabulary (KV.C32.Model / KV.C32.Proofs):
     validate st ct t        the answer of validate_client_auth_info_to_ident for bearer token t at time ct
     SigValid st g           the token's key is a key of this domain, not revoked, and the signature verifies
     Within ct vf ex         valid_from <= ct <= expire (each bound only when set)
     SessLive ac sid exp     the account holds a session record sid that is not revoked and whose
                             expiry equals the token's (ExpiresAt e / Some e, or NeverExpires / None)
     run st ops              the stored state after any list of operations (account creation and
                             deletion, session records, logouts, credential changes, validity window
                             edits, API token issue / destroy, key revocation) at arbitrary times
   Account ANON is the anonymous account: its sessions are never recorded, by design. *)
From Coq Require Import List NArith Bool.
Import ListNotations.
Require Import KV.C32.Model KV.C32.Proofs.
Open Scope N_scope.

(* Exact characterisation: a bearer token is answered with an identity IF AND ONLY IF
   it is signed by a non-revoked key of the domain, has not expired, its account exists (live) and is
   inside its validity window, and
     - user auth token: the account is anonymous, or the session record is on the account, not revoked
       and with the token's expiry, or there is no record and the token is younger than the grace window;
     - API token (JSON form): its record is on the account, or the token is younger than the grace window;
     - API token (compact form): its record is on a live account (expiry taken from the record).
   The identity returned is the token's own account and session. *)
Theorem C32_accept_iff : forall st ct t a s,
  validate st ct t = RIdent a s <-> Accept st ct t a s.
Proof. exact accept_iff. Qed.

(* The property's sentence, in one statement for the three token forms (the "only if" half
   of C32_accept_iff with the account lookup spelled out). *)
Theorem C32_accepted_only_for_live_sessions : forall st ct t a s,
  validate st ct t = RIdent a s ->
  SigValid st (tok_sig t) /\
  exists ac, In (a, ac) (accts st) /\ a_live ac = true /\ Within ct (a_vf ac) (a_ex ac) /\
    match t with
    | TUat _ ta sid exp iat =>
        ta = a /\ sid = s /\ (forall e, exp = Some e -> ct <= e) /\
        (a = ANON \/ SessLive ac sid exp \/ (lookup sid (a_sess ac) = None /\ ct < iat + GRACE))
    | TApi _ ta tid exp iat =>
        ta = a /\ tid = s /\ (forall e, exp = Some e -> ct < e) /\
        ((exists e, lookup tid (a_api ac) = Some e) \/ ct < iat + GRACE)
    | TApiC _ tid =>
        tid = s /\ exists exp, lookup tid (a_api ac) = Some exp /\ (forall e, exp = Some e -> ct < e)
    end.
Proof.
  intros st ct t a s Hv. apply accept_iff in Hv.
  assert (HIn : forall ac, live_acct st a = Some ac -> In (a, ac) (accts st) /\ a_live ac = true).
  { intros ac Hl. apply live_acct_some in Hl as [Hl Hlive]. split; [|exact Hlive].
    revert Hl. generalize (accts st) as l. intros l.
    induction l as [|[k v] r IH]; cbn [lookup]; [discriminate|].
    destruct (N.eqb_spec a k) as [->|]; intros Hl; [inversion Hl; left; reflexivity|right; apply IH; exact Hl]. }
  destruct t as [g ta sid exp iat|g ta tid exp iat|g tid]; cbn [Accept tok_sig] in *.
  - destruct Hv as (H1 & H2 & H3 & H4 & ac & H5 & H6 & H7). split; [exact H3|].
    exists ac. destruct (HIn ac H5) as [Hi Hl].
    split; [exact Hi|]. split; [exact Hl|]. split; [exact H6|]. split; [exact H1|]. split; [exact H2|].
    split; [exact H4|exact H7].
  - destruct Hv as (H1 & H2 & H3 & H4 & ac & H5 & H6 & H7). split; [exact H3|].
    exists ac. destruct (HIn ac H5) as [Hi Hl].
    split; [exact Hi|]. split; [exact Hl|]. split; [exact H6|]. split; [exact H1|]. split; [exact H2|].
    split; [exact H4|exact H7].
  - destruct Hv as (H1 & H3 & ac & exp & H5 & H4 & H6). split; [exact H3|].
    exists ac. apply find_api_sound in H5 as (Hi & Hl & Hk).
    split; [exact Hi|]. split; [exact Hl|]. split; [exact H6|]. split; [exact H1|].
    exists exp. split; assumption.
Qed.

(* A revoked session stays rejected: once the record of session s on a (non-anonymous) account is
   revoked, no later history of operations, no presentation time (not even inside the grace window),
   no key and no token expiry makes a user auth token of that session acceptable again. *)
Theorem C32_revoked_session_rejected_forever : forall st a s,
  sess_revoked st a s -> a <> ANON ->
  forall ops ct g exp iat, is_ident (validate (run st ops) ct (TUat g a s exp iat)) = false.
Proof.
  intros st a s H Hne ops ct g exp iat. apply revoked_rejected; [|exact Hne].
  apply run_keeps_revoked. exact H.
Qed.

(* Logout is final: after account_destroy_session_token found the session record, the session's
   tokens are rejected for ever. *)
Theorem C32_logout_is_final : forall st t0 a s ok,
  sess_present st a s = true -> a <> ANON ->
  forall ops ct g exp iat,
    is_ident (validate (run (fst (step st (ORevoke t0 a s ok))) ops) ct (TUat g a s exp iat)) = false.
Proof.
  intros st t0 a s ok Hp Hne. apply C32_revoked_session_rejected_forever; [|exact Hne].
  apply revoke_op_revokes. exact Hp.
Qed.

(* Credential removal is final: when a credential leaves the account, every recorded session it
   issued is rejected from then on. *)
Theorem C32_credential_removal_is_final : forall st t0 a creds ac s x,
  live_acct st a = Some ac -> lookup s (a_sess ac) = Some x -> ~ In (ss_cred x) creds -> a <> ANON ->
  forall ops ct g exp iat,
    is_ident (validate (run (fst (step st (OSetCreds t0 a creds))) ops) ct (TUat g a s exp iat)) = false.
Proof.
  intros st t0 a creds ac s x Hl Hs Hn Hne. apply C32_revoked_session_rejected_forever; [|exact Hne].
  eapply setcreds_revokes; eassumption.
Qed.

(* Key revocation is final: every token whose header names a revoked key is refused
   (NotAuthenticated), whatever happens afterwards. *)
Theorem C32_key_revocation_is_final : forall st k ops ct t,
  g_kid (tok_sig t) = k ->
  validate (run (fst (step st (OKeyRevoke k))) ops) ct t = RNotAuth.
Proof.
  intros st k ops ct t Hk. apply key_revoked_rejected. apply run_keeps_key.
  cbn [step fst revoked]. left. symmetry. exact Hk.
Qed.

(* Expired tokens are rejected in every state: a user auth token strictly after its expiry,
   an API token from its expiry on. *)
Theorem C32_expired_rejected : forall st ct g a s e iat,
  (e < ct -> is_ident (validate st ct (TUat g a s (Some e) iat)) = false) /\
  (e <= ct -> is_ident (validate st ct (TApi g a s (Some e) iat)) = false).
Proof.
  intros st ct g a s e iat. split; intros H; cbn [validate uat_expired api_expired];
    destruct (negb (sig_ok st g)); try reflexivity.
  - apply N.ltb_lt in H. rewrite H. reflexivity.
  - apply N.leb_le in H. rewrite H. reflexivity.
Qed.

(* A login whose session was never recorded is accepted only inside the grace window. *)
Theorem C32_unrecorded_after_grace_rejected : forall st ct g a sid exp iat ac,
  a <> ANON -> live_acct st a = Some ac -> lookup sid (a_sess ac) = None -> iat + GRACE <= ct ->
  is_ident (validate st ct (TUat g a sid exp iat)) = false.
Proof. exact unrecorded_after_grace_rejected. Qed.

(* API tokens need their own record: while the account holds no record tid — through any history
   that does not issue that id on that account again — a JSON API token tid is rejected once the
   grace window after its issue time has passed. *)
Theorem C32_api_needs_record : forall st a tid ops,
  api_absent_on st a tid -> Forall (fun o => ~ issues a tid o) ops ->
  forall ct g exp iat, iat + GRACE <= ct ->
    is_ident (validate (run st ops) ct (TApi g a tid exp iat)) = false.
Proof.
  intros st a tid ops H Hf ct g exp iat Hg. apply absent_rejected; [|exact Hg].
  apply run_keeps_absent; assumption.
Qed.

(* Destroying an API token is final (up to the grace window of the token's own issue time). *)
Theorem C32_api_destroy_is_final : forall st t0 a tid ok ops,
  api_present st a tid = true -> Forall (fun o => ~ issues a tid o) ops ->
  forall ct g exp iat, iat + GRACE <= ct ->
    is_ident (validate (run (fst (step st (OApiDestroy t0 a tid ok))) ops) ct (TApi g a tid exp iat)) = false.
Proof.
  intros st t0 a tid ok ops Hp. apply C32_api_needs_record. apply destroy_makes_absent. exact Hp.
Qed.

(* A compact API token is refused as soon as no live account holds its record. *)
Theorem C32_compact_api_needs_record : forall st ct g tid,
  (forall a ac, In (a, ac) (accts st) -> lookup tid (a_api ac) = None) ->
  validate st ct (TApiC g tid) = RNotAuth.
Proof.
  intros st ct g tid H. cbn [validate]. destruct (negb (sig_ok st g)); [reflexivity|].
  rewrite (find_api_none tid (accts st) H). reflexivity.
Qed.

(* Soundness of the run-time tie: whenever every answer and every read-back of the real server
   in a history agrees with the model, the property's executable predicate holds of those
   answers and read-backs. *)
Theorem C32_agree_implies_property : forall c : case, agree c = true -> pcheck c = true.
Proof. exact agree_pcheck. Qed.
