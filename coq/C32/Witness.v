(* KV.C32.Witness — non-vacuity: concrete states, histories and tokens meeting the hypotheses
   of every implication theorem, with the acceptance BEFORE the event shown next to the
   rejection after it. *)
From Coq Require Import List NArith Bool.
Import ListNotations.
Require Import KV.C32.Model KV.C32.Proofs.
Open Scope N_scope.

(* anonymous (0), a person (1) with credential 7 and a recorded session 5 expiring at 1000 s,
   a service account (2) with API token 9 (no expiry) and 10 (expires at 2000 s); times in ns *)
Definition S : N := 1000000000.
Definition w_state : state :=
  run init [OCreate 0 []; OCreate 1 [7]; OCreate 2 [];
            ORecord (100 * S) 1 5 7 (Some (1000 * S));
            OApiIssue (100 * S) 2 9 None; OApiIssue (100 * S) 2 10 (Some (2000 * S))].
Definition key : sig := mksig 3 false true.
Definition w_uat : token := TUat key 1 5 (Some (1000 * S)) (100 * S).
Definition w_uat_unrecorded : token := TUat key 1 6 (Some (1000 * S)) (100 * S).
Definition w_api : token := TApi key 2 9 None (100 * S).
Definition w_apic : token := TApiC key 10.

(* the tokens are accepted in the witness state (so the rejections below are real changes) *)
Example C32_witness_accepts :
  validate w_state (500 * S) w_uat = RIdent 1 5 /\
  validate w_state (1000 * S) w_uat = RIdent 1 5 /\            (* at the expiry instant: still accepted *)
  validate w_state (1000 * S + 1) w_uat = RExpired /\
  validate w_state (500 * S) w_api = RIdent 2 9 /\
  validate w_state (500 * S) w_apic = RIdent 2 10 /\
  validate w_state (2000 * S) w_apic = RExpired /\             (* API tokens: rejected from the expiry on *)
  validate w_state (399 * S) w_uat_unrecorded = RIdent 1 6 /\  (* unrecorded, inside the grace window *)
  validate w_state (400 * S) w_uat_unrecorded = RExpired /\    (* grace end is exclusive *)
  validate w_state (500 * S) (TUat key 0 77 (Some (1000 * S)) 0) = RIdent 0 77.  (* anonymous: never recorded *)
Proof. vm_compute. repeat split; reflexivity. Qed.

(* hypotheses of C32_accept_iff / C32_accepted_only_for_live_sessions: an accepted presentation exists
   for each token form (above); and the declarative side is inhabited *)
Example C32_witness_accept_spec : Accept w_state (500 * S) w_uat 1 5.
Proof. apply accept_iff. vm_compute. reflexivity. Qed.

(* C32_logout_is_final / C32_revoked_session_rejected_forever *)
Example C32_witness_logout :
  sess_present w_state 1 5 = true /\ 1 <> ANON /\
  validate w_state (500 * S) w_uat = RIdent 1 5 /\
  validate (run (fst (step w_state (ORevoke (200 * S) 1 5 true)))
                [ORecord (300 * S) 1 5 7 (Some (1000 * S)); OSetCreds (300 * S) 1 [7]])
           (300 * S) w_uat = RExpired.
Proof. vm_compute. repeat split; try reflexivity; discriminate. Qed.

Example C32_witness_revoked_state :
  sess_revoked (fst (step w_state (ORevoke (200 * S) 1 5 true))) 1 5.
Proof. apply revoke_op_revokes. vm_compute. reflexivity. Qed.

(* C32_credential_removal_is_final *)
Example C32_witness_credential_removal :
  exists ac x, live_acct w_state 1 = Some ac /\ lookup 5 (a_sess ac) = Some x /\ ~ In (ss_cred x) [8] /\
  validate (fst (step w_state (OSetCreds (200 * S) 1 [8]))) (500 * S) w_uat = RExpired.
Proof.
  eexists. eexists. split; [vm_compute; reflexivity|]. split; [vm_compute; reflexivity|].
  split; [cbn; intros [H|[]]; discriminate|vm_compute; reflexivity].
Qed.

(* C32_key_revocation_is_final *)
Example C32_witness_key_revocation :
  g_kid (tok_sig w_uat) = 3 /\
  validate (fst (step w_state (OKeyRevoke 3))) (500 * S) w_uat = RNotAuth /\
  validate (fst (step w_state (OKeyRevoke 4))) (500 * S) w_uat = RIdent 1 5.
Proof. vm_compute. repeat split; reflexivity. Qed.

(* C32_unrecorded_after_grace_rejected *)
Example C32_witness_unrecorded :
  exists ac, 1 <> ANON /\ live_acct w_state 1 = Some ac /\ lookup 6 (a_sess ac) = None /\
             100 * S + GRACE <= 400 * S.
Proof. eexists. split; [discriminate|]. split; [vm_compute; reflexivity|]. split; vm_compute; [reflexivity|discriminate]. Qed.

(* C32_api_needs_record / C32_api_destroy_is_final / C32_compact_api_needs_record *)
Example C32_witness_api_destroy :
  api_present w_state 2 9 = true /\
  Forall (fun o => ~ issues 2 9 o) [OApiIssue (300 * S) 2 11 None; OWindow (300 * S) 2 None None] /\
  validate w_state (500 * S) w_api = RIdent 2 9 /\
  validate (run (fst (step w_state (OApiDestroy (200 * S) 2 9 true)))
                [OApiIssue (300 * S) 2 11 None; OWindow (300 * S) 2 None None]) (500 * S) w_api = RExpired /\
  (* the grace window of the token's own issue time still applies right after the destroy *)
  validate (fst (step w_state (OApiDestroy (200 * S) 2 9 true))) (399 * S) w_api = RIdent 2 9 /\
  validate (fst (step w_state (OApiDestroy (200 * S) 2 10 true))) (500 * S) w_apic = RNotAuth.
Proof.
  split; [vm_compute; reflexivity|]. split.
  - repeat constructor; cbn [issues]; [intros [_ H]; discriminate|intros []].
  - vm_compute. repeat split; reflexivity.
Qed.

(* the expiry mismatch and the deleted-account arms *)
Example C32_witness_mismatch_and_deletion :
  validate w_state (500 * S) (TUat key 1 5 (Some (1001 * S)) (100 * S)) = RExpired /\
  validate w_state (500 * S) (TUat key 1 5 None (100 * S)) = RExpired /\
  validate (fst (step w_state (ODelete 1))) (500 * S) w_uat = RExpired /\
  validate (fst (step w_state (ODelete 2))) (500 * S) w_api = RNotAuth /\
  validate w_state (500 * S) (TUat (mksig 3 true true) 1 5 (Some (1000 * S)) (100 * S)) = RNotAuth /\
  validate w_state (500 * S) (TUat (mksig 3 false false) 1 5 (Some (1000 * S)) (100 * S)) = RNotAuth.
Proof. vm_compute. repeat split; reflexivity. Qed.

(* C32_agree_implies_property: a history on which the model agrees; and pcheck is not trivially
   true — the same observations with an acceptance AFTER the logout are flagged *)
Definition w_snap (st : sstate) : snap := mksnap (Some 1) None None (Some st) None.
Definition w_hist (after_logout : result) (after_state : sstate) : case :=
  CHist [EOp (OCreate 0 []); EOp (OCreate 1 [7]);
         EOp (ORecord (100 * S) 1 5 7 (Some (1000 * S)));
         EPresent (500 * S) w_uat (w_snap (SExpires (1000 * S))) (RIdent 1 5);
         EOp (ORevoke (600 * S) 1 5 true);
         EPresent (700 * S) w_uat (w_snap after_state) after_logout].

Example C32_witness_agree :
  agree (w_hist RExpired SRevoked) = true /\ pcheck (w_hist RExpired SRevoked) = true.
Proof. vm_compute. split; reflexivity. Qed.

Example C32_witness_pcheck_flags_acceptance_after_logout :
  pcheck (w_hist (RIdent 1 5) SRevoked) = false /\
  pcheck (w_hist (RIdent 1 5) (SExpires (1000 * S))) = false /\
  agree (w_hist (RIdent 1 5) SRevoked) = false.
Proof. vm_compute. repeat split; reflexivity. Qed.
