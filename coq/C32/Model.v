(* KV.C32.Model — bearer token validation against recorded sessions (executable definitions only).
   Transcribes:
     IdmServerTransaction::validate_client_auth_info_to_ident  (server/lib/src/idm/server.rs:413,
         bearer-token arm, no pre-validated token, no client certificate)
     validate_and_parse_token_to_identity_token               (server.rs:524; UAT / API JSON / compact API)
     process_uat_to_identity, process_apit_to_identity        (server.rs:748, 832)
     Account::check_user_auth_token_valid                     (idm/account.rs:761)
     Account::check_within_valid_time                         (idm/account.rs:529)
     ServiceAccount::check_api_token_valid                    (idm/serviceaccount.rs:63)
     KeyObjectInternalJwtEs256::verify / revoke               (server/keys/internal.rs:736, 582; status only)
   and, for the histories, the stored-state effect of
     process_authsessionrecord (server.rs:2259), account_destroy_session_token (account.rs:946),
     service_account_generate/destroy_api_token (serviceaccount.rs:168, 260),
     SessionConsistency::modify_inner (plugins/session.rs:47; runs in every modify of the entry),
     ValueSetSession::insert_checked / remove (valueset/session.rs:240, 258).
   All times are nanoseconds since the epoch.  Identifiers (accounts, sessions, credentials,
   key ids) are small interned numbers; account 0 is UUID_ANONYMOUS. *)
From Coq Require Import List NArith Bool.
Import ListNotations.
Open Scope N_scope.

Definition GRACE : N := 300000000000.   (* AUTH_TOKEN_GRACE_WINDOW = 5 min *)
Definition ANON : N := 0.

(* ------------------------------------------------------------------ stored state *)
(* value::SessionState (the revocation cid is irrelevant to validation) *)
Inductive sstate := SExpires (e : N) | SNever | SRevoked.
Record sess := mksess { ss_state : sstate; ss_cred : N }.

Record acct := mkacct {
  a_live : bool;                       (* false = deleted (recycled): invisible to internal_search *)
  a_vf : option N;                     (* AccountValidFrom *)
  a_ex : option N;                     (* AccountExpire *)
  a_creds : list N;                    (* ids of the credentials on the entry *)
  a_sess : list (N * sess);            (* UserAuthTokenSession *)
  a_api : list (N * option N) }.       (* ApiTokenSession: token id -> stored expiry *)

Record state := mkst { accts : list (N * acct); revoked : list N }.

Fixpoint lookup {A} (k : N) (l : list (N * A)) : option A :=
  match l with
  | [] => None
  | (k', v) :: r => if k =? k' then Some v else lookup k r
  end.
Fixpoint upd {A} (k : N) (f : A -> A) (l : list (N * A)) : list (N * A) :=
  match l with
  | [] => []
  | (k', v) :: r => if k =? k' then (k', f v) :: r else (k', v) :: upd k f r
  end.
Fixpoint del {A} (k : N) (l : list (N * A)) : list (N * A) :=
  match l with
  | [] => []
  | (k', v) :: r => if k =? k' then del k r else (k', v) :: del k r
  end.
Definition memN (k : N) (l : list N) : bool := existsb (N.eqb k) l.
Definition mem2 (a s : N) (l : list (N * N)) : bool :=
  existsb (fun p => (a =? fst p) && (s =? snd p)) l.
Definition has {A} (k : N) (l : list (N * A)) : bool :=
  match lookup k l with Some _ => true | None => false end.

(* ------------------------------------------------------------------ tokens *)
(* what the signature check can see: the key id in the header, whether that key belongs to this
   domain's key object at all (a token of another server: foreign), whether the signature
   bytes verify under that key (a tampered token: false) *)
Record sig := mksig { g_kid : N; g_foreign : bool; g_sigok : bool }.

Inductive token :=
| TUat  (g : sig) (a sid : N) (exp : option N) (iat : N)   (* UserAuthToken JSON, ES256 *)
| TApi  (g : sig) (a tid : N) (exp : option N) (iat : N)   (* ApiToken JSON, HS256 *)
| TApiC (g : sig) (tid : N).                               (* compact: payload = session uuid *)

Inductive result := RIdent (a s : N) | RNotAuth | RExpired | ROther.

Definition is_ident (r : result) : bool := match r with RIdent _ _ => true | _ => false end.

(* ------------------------------------------------------------------ validation *)
(* jws_verify: unknown kid -> KP0022, Revoked -> KP0023, bad signature -> KP0024; all mapped
   to NotAuthenticated by validate_and_parse_token_to_identity_token *)
Definition sig_ok (st : state) (g : sig) : bool :=
  negb (g_foreign g) && g_sigok g && negb (memN (g_kid g) (revoked st)).

(* check_within_valid_time: vft <= cot && cot <= ext *)
Definition within (ct : N) (vf ex : option N) : bool :=
  (match vf with Some v => v <=? ct | None => true end) &&
  (match ex with Some x => ct <=? x | None => true end).

(* internal_search_uuid: live entries only *)
Definition live_acct (st : state) (a : N) : option acct :=
  match lookup a (accts st) with
  | Some ac => if a_live ac then Some ac else None
  | None => None
  end.

(* the session arm of check_user_auth_token_valid *)
Definition sess_ok (ct : N) (ac : acct) (sid : N) (exp : option N) (iat : N) : bool :=
  match lookup sid (a_sess ac) with
  | Some s =>
      match ss_state s, exp with
      | SExpires se, Some ue => se =? ue
      | SNever, None => true
      | _, _ => false                    (* RevokedAt, or session / token expiry inconsistent *)
      end
  | None => ct <? iat + GRACE            (* `current >= grace` -> false *)
  end.

Definition check_uat (ct : N) (ac : acct) (a sid : N) (exp : option N) (iat : N) : bool :=
  within ct (a_vf ac) (a_ex ac) && ((a =? ANON) || sess_ok ct ac sid exp iat).

Definition check_api (ct : N) (ac : acct) (tid iat : N) : bool :=
  within ct (a_vf ac) (a_ex ac) && (has tid (a_api ac) || (ct <? iat + GRACE)).

(* internal_search(ApiTokenSession = Refer(tid)) then the entry's own map *)
Fixpoint find_api (tid : N) (l : list (N * acct)) : option (N * acct * option N) :=
  match l with
  | [] => None
  | (a, ac) :: r =>
      if a_live ac then
        match lookup tid (a_api ac) with
        | Some e => Some (a, ac, e)
        | None => find_api tid r
        end
      else find_api tid r
  end.

Definition uat_expired (exp : option N) (ct : N) : bool :=
  match exp with Some e => e <? ct | None => false end.       (* `exp < ct_odt` *)
Definition api_expired (exp : option N) (ct : N) : bool :=
  match exp with Some e => e <=? ct | None => false end.      (* `ct >= expiry` *)

Definition validate (st : state) (ct : N) (t : token) : result :=
  match t with
  | TUat g a sid exp iat =>
      if negb (sig_ok st g) then RNotAuth
      else if uat_expired exp ct then RExpired
      else match live_acct st a with
           | None => RExpired              (* NoMatchingEntries -> SessionExpired *)
           | Some ac => if check_uat ct ac a sid exp iat then RIdent a sid else RExpired
           end
  | TApi g a tid exp iat =>
      if negb (sig_ok st g) then RNotAuth
      else if api_expired exp ct then RExpired
      else match live_acct st a with
           | None => RNotAuth
           | Some ac => if check_api ct ac tid iat then RIdent a tid else RExpired
           end
  | TApiC g tid =>
      if negb (sig_ok st g) then RNotAuth
      else match find_api tid (accts st) with
           | None => RNotAuth
           | Some (a, ac, exp) =>
               if api_expired exp ct then RExpired
               else if within ct (a_vf ac) (a_ex ac) then RIdent a tid else RExpired
           end
  end.

(* ------------------------------------------------------------------ operations *)
Definition revoke_sess (s : sess) : sess := mksess SRevoked (ss_cred s).

(* SessionConsistency::modify_inner on one entry at transaction time ct: sessions whose
   credential left the entry are revoked, then sessions with ExpiresAt(e), e <= ct are revoked *)
Definition clean_sess (ct : N) (creds : list N) (s : sess) : sess :=
  match ss_state s with
  | SRevoked => s
  | SNever => if memN (ss_cred s) creds then s else revoke_sess s
  | SExpires e => if memN (ss_cred s) creds then (if e <=? ct then revoke_sess s else s)
                  else revoke_sess s
  end.
Definition set_sess (ac : acct) (l : list (N * sess)) : acct :=
  mkacct (a_live ac) (a_vf ac) (a_ex ac) (a_creds ac) l (a_api ac).
Definition set_api (ac : acct) (l : list (N * option N)) : acct :=
  mkacct (a_live ac) (a_vf ac) (a_ex ac) (a_creds ac) (a_sess ac) l.
Definition cleanup (ct : N) (ac : acct) : acct :=
  set_sess ac (map (fun p => (fst p, clean_sess ct (a_creds ac) (snd p))) (a_sess ac)).

(* a modify of a live entry: the change, then the plugin; a deleted entry is not matched *)
Definition touch (ct : N) (f : acct -> acct) (ac : acct) : acct :=
  if a_live ac then cleanup ct (f ac) else ac.

Definition new_state (exp : option N) : sstate :=
  match exp with Some e => SExpires e | None => SNever end.

Inductive op :=
| OCreate (a : N) (creds : list N)                      (* a new account entry *)
| ODelete (a : N)
| ORecord (ct a sid cred : N) (exp : option N)          (* process_authsessionrecord *)
| ORevoke (ct a sid : N) (ok : bool)                    (* account_destroy_session_token; ok = the record was on the live entry *)
| OSetCreds (ct a : N) (creds : list N)                 (* purge / replace the primary credential *)
| OWindow (ct a : N) (vf ex : option N)                 (* set AccountValidFrom / AccountExpire *)
| OApiIssue (ct a tid : N) (exp : option N)             (* service_account_generate_api_token *)
| OApiDestroy (ct a tid : N) (ok : bool)                (* service_account_destroy_api_token *)
| OKeyRevoke (k : N).                                   (* KeyActionRevoke on the domain object *)

Definition on_acct (st : state) (a : N) (f : acct -> acct) : state :=
  mkst (upd a f (accts st)) (revoked st).

(* does the executed filter (uuid = a AND <session attr> = Refer(id)) match a live entry; the harness
   reads the same fact from the real entry inside the write transaction, before the call (an internal
   identity is answered Ok(()) also when nothing matched) *)
Definition sess_present (st : state) (a sid : N) : bool :=
  match live_acct st a with Some ac => has sid (a_sess ac) | None => false end.
Definition api_present (st : state) (a tid : N) : bool :=
  match live_acct st a with Some ac => has tid (a_api ac) | None => false end.

(* the state after the operation, and whether the model says the operation reports Ok *)
Definition step (st : state) (o : op) : state * bool :=
  match o with
  | OCreate a creds =>
      if has a (accts st) then (st, false)
      else (mkst (accts st ++ [(a, mkacct true None None creds [] [])]) (revoked st), true)
  | ODelete a =>
      (on_acct st a (fun ac => mkacct false (a_vf ac) (a_ex ac) (a_creds ac) (a_sess ac) (a_api ac)), true)
  | ORecord ct a sid cred exp =>
      (on_acct st a (touch ct (fun ac =>
         if has sid (a_sess ac) then ac      (* insert_checked: only a vacant key is filled *)
         else set_sess ac (a_sess ac ++ [(sid, mksess (new_state exp) cred)]))), true)
  | ORevoke ct a sid _ =>
      if sess_present st a sid
      then (on_acct st a (touch ct (fun ac => set_sess ac (upd sid revoke_sess (a_sess ac)))), true)
      else (st, false)                       (* no candidate: nothing is written *)
  | OSetCreds ct a creds =>
      (on_acct st a (touch ct (fun ac =>
         mkacct (a_live ac) (a_vf ac) (a_ex ac) creds (a_sess ac) (a_api ac))), true)
  | OWindow ct a vf ex =>
      (on_acct st a (touch ct (fun ac =>
         mkacct (a_live ac) vf ex (a_creds ac) (a_sess ac) (a_api ac))), true)
  | OApiIssue ct a tid exp =>
      (on_acct st a (touch ct (fun ac =>
         if has tid (a_api ac) then ac else set_api ac (a_api ac ++ [(tid, exp)]))), true)
  | OApiDestroy ct a tid _ =>
      if api_present st a tid
      then (on_acct st a (touch ct (fun ac => set_api ac (del tid (a_api ac)))), true)
      else (st, false)
  | OKeyRevoke k => (mkst (accts st) (k :: revoked st), true)
  end.

Definition run (st : state) (ops : list op) : state :=
  fold_left (fun s o => fst (step s o)) ops st.

Definition init : state := mkst [] [].

(* ------------------------------------------------------------------ correspondence *)
(* what the harness reads back from the REAL entry the token refers to, at presentation time:
   the live account that owns the token (for compact tokens: the live account whose
   ApiTokenSession holds the id), its validity window, the state of the token's session
   record, the stored expiry of its API token record *)
Record snap := mksnap {
  sn_owner : option N;
  sn_vf : option N; sn_ex : option N;
  sn_sess : option sstate;
  sn_api : option (option N) }.

Inductive ev :=
| EOp (o : op)
| EPresent (ct : N) (t : token) (sn : snap) (r : result).

Inductive case := CHist (evs : list ev).

Definition snap_of_acct (a : N) (ac : acct) (sid tid : option N) : snap :=
  mksnap (Some a) (a_vf ac) (a_ex ac)
    (match sid with
     | Some s => match lookup s (a_sess ac) with Some x => Some (ss_state x) | None => None end
     | None => None end)
    (match tid with Some t => lookup t (a_api ac) | None => None end).
Definition snap_none : snap := mksnap None None None None None.

Definition model_snap (st : state) (t : token) : snap :=
  match t with
  | TUat _ a sid _ _ =>
      match live_acct st a with Some ac => snap_of_acct a ac (Some sid) None | None => snap_none end
  | TApi _ a tid _ _ =>
      match live_acct st a with Some ac => snap_of_acct a ac None (Some tid) | None => snap_none end
  | TApiC _ tid =>
      match find_api tid (accts st) with
      | Some (a, ac, _) => snap_of_acct a ac None (Some tid)
      | None => snap_none
      end
  end.

Definition optN_eqb (x y : option N) : bool :=
  match x, y with Some a, Some b => a =? b | None, None => true | _, _ => false end.
Definition sstate_eqb (x y : sstate) : bool :=
  match x, y with
  | SExpires a, SExpires b => a =? b
  | SNever, SNever => true
  | SRevoked, SRevoked => true
  | _, _ => false
  end.
Definition snap_eqb (x y : snap) : bool :=
  optN_eqb (sn_owner x) (sn_owner y) && optN_eqb (sn_vf x) (sn_vf y) && optN_eqb (sn_ex x) (sn_ex y) &&
  (match sn_sess x, sn_sess y with
   | Some a, Some b => sstate_eqb a b | None, None => true | _, _ => false end) &&
  (match sn_api x, sn_api y with
   | Some a, Some b => optN_eqb a b | None, None => true | _, _ => false end).
Definition result_eqb (x y : result) : bool :=
  match x, y with
  | RIdent a s, RIdent b t => (a =? b) && (s =? t)
  | RNotAuth, RNotAuth => true
  | RExpired, RExpired => true
  | _, _ => false                       (* ROther never agrees: the model has no such outcome *)
  end.

(* the observed record presence for the two operations that can find nothing to do *)
Definition op_ok (o : op) : bool :=
  match o with ORevoke _ _ _ ok => ok | OApiDestroy _ _ _ ok => ok | _ => true end.

Fixpoint hist_agree (st : state) (evs : list ev) : bool :=
  match evs with
  | [] => true
  | EOp o :: r => let '(st1, ok) := step st o in Bool.eqb ok (op_ok o) && hist_agree st1 r
  | EPresent ct t sn res :: r =>
      snap_eqb (model_snap st t) sn && result_eqb (validate st ct t) res && hist_agree st r
  end.

Definition agree (c : case) : bool := match c with CHist evs => hist_agree init evs end.

(* ------------------------------------------------------------------ the property, on observations *)
(* Evaluated on what the IMPLEMENTATION returned and on the REAL stored entry read back at
   presentation time; the only facts taken from the history are inputs: which key ids were
   revoked earlier, and which session records an earlier account_destroy_session_token found on the entry. *)
Definition tok_sig (t : token) : sig :=
  match t with TUat g _ _ _ _ => g | TApi g _ _ _ _ => g | TApiC g _ => g end.

Definition accepted_ok (rk : list N) (rs : list (N * N)) (ct : N) (t : token) (sn : snap) (a s : N) : bool :=
  let g := tok_sig t in
  (* signed by a key of this domain that was not revoked, signature intact *)
  negb (g_foreign g) && g_sigok g && negb (memN (g_kid g) rk) &&
  (* belongs to an existing account, inside its validity window *)
  optN_eqb (sn_owner sn) (Some a) && within ct (sn_vf sn) (sn_ex sn) &&
  match t with
  | TUat _ ta sid exp iat =>
      (ta =? a) && (sid =? s) &&
      (match exp with Some e => ct <=? e | None => true end) &&        (* not expired *)
      ((a =? ANON) ||
       (negb (mem2 a s rs) &&                                          (* not logged out earlier *)
        match sn_sess sn with
        | Some (SExpires se) => match exp with Some ue => se =? ue | None => false end
        | Some SNever => match exp with None => true | Some _ => false end
        | Some SRevoked => false
        | None => ct <? iat + GRACE                                    (* unrecorded: only in the grace window *)
        end))
  | TApi _ ta tid exp iat =>
      (ta =? a) && (tid =? s) &&
      (match exp with Some e => ct <? e | None => true end) &&
      (match sn_api sn with Some _ => true | None => ct <? iat + GRACE end)
  | TApiC _ tid =>
      (tid =? s) &&
      match sn_api sn with
      | Some exp => match exp with Some e => ct <? e | None => true end
      | None => false
      end
  end.

Fixpoint hist_pcheck (rk : list N) (rs : list (N * N)) (evs : list ev) : bool :=
  match evs with
  | [] => true
  | EOp (OKeyRevoke k) :: r => hist_pcheck (k :: rk) rs r
  | EOp (ORevoke _ a s true) :: r => hist_pcheck rk ((a, s) :: rs) r
  | EOp _ :: r => hist_pcheck rk rs r
  | EPresent ct t sn (RIdent a s) :: r => accepted_ok rk rs ct t sn a s && hist_pcheck rk rs r
  | EPresent _ _ _ ROther :: r => false          (* an outcome outside Ok / NotAuthenticated / SessionExpired *)
  | EPresent _ _ _ _ :: r => hist_pcheck rk rs r
  end.

Definition pcheck (c : case) : bool := match c with CHist evs => hist_pcheck [] [] evs end.

Definition known (_ : case) : bool := false.
