(* KV.C30.Proofs — lemmas and proofs for C30. *)
From Coq Require Import String List Arith NArith ZArith Bool Lia.
Require Import KV.C29.Hash KV.C30.Prim KV.C30.Model.
Import ListNotations.
Open Scope N_scope.

Ltac Zify.zify_post_hook ::= Z.to_euclidean_division_equations.

(* ------------------------------------------------------------------ byte-string equality *)
Lemma beqb_true_iff : forall a b, beqb a b = true <-> a = b.
Proof.
  induction a as [|x a IH]; intros [|y b]; cbn [beqb]; split; intros H; try reflexivity; try discriminate.
  - apply andb_true_iff in H. destruct H as [Hx Hr]. apply N.eqb_eq in Hx. apply IH in Hr. now subst.
  - injection H as Hx Hr. subst. rewrite N.eqb_refl. cbn. now apply IH.
Qed.
Lemma beqb_refl : forall a, beqb a a = true.
Proof. intros a. now apply beqb_true_iff. Qed.
Lemma beqb_sym : forall a b, beqb a b = beqb b a.
Proof.
  intros a b. destruct (beqb a b) eqn:E.
  - apply beqb_true_iff in E. subst. now rewrite beqb_refl.
  - destruct (beqb b a) eqn:E'; [|reflexivity]. apply beqb_true_iff in E'. subst.
    now rewrite beqb_refl in E.
Qed.

(* ------------------------------------------------------------------ finite enumeration *)
Lemma forall_below : forall (n : nat) (P : N -> bool),
  forallb P (map N.of_nat (seq 0 n)) = true -> forall v, v < N.of_nat n -> P v = true.
Proof.
  intros n P H v Hv. rewrite forallb_forall in H. apply H. rewrite in_map_iff.
  exists (N.to_nat v). split; [apply N2Nat.id | apply in_seq; lia].
Qed.

Lemma b64_val_sym : forall url v, v < 64 -> b64_val url (b64_sym url v) = Some v.
Proof.
  intros url v Hv.
  pose (P := fun v => match b64_val url (b64_sym url v) with Some v' => v' =? v | None => false end).
  assert (HP : P v = true).
  { apply (forall_below 64); [|exact Hv]. destruct url; vm_compute; reflexivity. }
  unfold P in HP. destruct (b64_val url (b64_sym url v)) as [v'|]; [|discriminate].
  apply N.eqb_eq in HP. now subst.
Qed.
Lemma b64_sym_not_pad : forall url v, v < 64 -> (b64_sym url v =? 61) = false.
Proof.
  intros url v Hv.
  pose (P := fun v => negb (b64_sym url v =? 61)).
  assert (HP : P v = true).
  { apply (forall_below 64); [|exact Hv]. destruct url; vm_compute; reflexivity. }
  unfold P in HP. now apply negb_true_iff in HP.
Qed.
Lemma hex_val_sym : forall up v, v < 16 -> hex_val (hex_sym up v) = Some v.
Proof.
  intros up v Hv.
  pose (P := fun v => match hex_val (hex_sym up v) with Some v' => v' =? v | None => false end).
  assert (HP : P v = true).
  { apply (forall_below 16); [|exact Hv]. destruct up; vm_compute; reflexivity. }
  unfold P in HP. destruct (hex_val (hex_sym up v)) as [v'|]; [|discriminate].
  apply N.eqb_eq in HP. now subst.
Qed.

(* ------------------------------------------------------------------ induction by threes *)
Lemma list_ind3 : forall (A : Type) (P : list A -> Prop),
  P [] -> (forall a, P [a]) -> (forall a b, P [a; b]) ->
  (forall a b c r, P r -> P (a :: b :: c :: r)) -> forall l, P l.
Proof.
  intros A P H0 H1 H2 H3.
  fix IH 1. intros [|a [|b [|c r]]]; [exact H0 | apply H1 | apply H2 | apply H3, IH].
Qed.

(* ------------------------------------------------------------------ base64: decode after encode *)
Definition Bytes (b : bytes) : Prop := Forall (fun x => x < 256) b.

Lemma is_bytes_Bytes : forall b, is_bytes b = true -> Bytes b.
Proof.
  intros b H. unfold is_bytes in H. rewrite forallb_forall in H. apply Forall_forall.
  intros x Hx. apply N.ltb_lt. now apply H.
Qed.
Lemma Bytes_app : forall a b, Bytes a -> Bytes b -> Bytes (a ++ b).
Proof. intros a b Ha Hb. apply Forall_app. now split. Qed.

Lemma b64_four_enc : forall url b0 b1 b2, b0 < 256 -> b1 < 256 -> b2 < 256 ->
  b64_four (b64_val url)
    (b64_sym url (b0 / 4)) (b64_sym url ((b0 mod 4) * 16 + b1 / 16))
    (b64_sym url ((b1 mod 16) * 4 + b2 / 64)) (b64_sym url (b2 mod 64)) = Some [b0; b1; b2].
Proof.
  intros url b0 b1 b2 H0 H1 H2. unfold b64_four.
  rewrite !b64_val_sym by lia. unfold quad_bytes. f_equal. f_equal; [lia|]. f_equal; [lia|].
  f_equal. lia.
Qed.

Lemma b64enc_nil_inv : forall sym pad b, b64enc_gen sym pad b = [] -> b = [].
Proof. intros sym pad [|b0 [|b1 [|b2 r]]] H; [reflexivity | discriminate..]. Qed.

(* padded, canonical-padding decoders invert the padded encoder (STANDARD and URL_SAFE) *)
Lemma b64_roundtrip : forall url trail b, Bytes b ->
  b64dec_gen (b64_val url) true trail (b64enc_gen (b64_sym url) true b) = Some b.
Proof.
  intros url trail. induction b as [| b0 | b0 b1 | b0 b1 b2 r IH] using list_ind3; intros HB.
  - reflexivity.
  - inversion HB as [|? ? H0 _]; subst.
    cbn [b64enc_gen b64dec_gen b64_suffix]. rewrite N.eqb_refl. cbn [andb].
    unfold b64_two. rewrite !b64_val_sym by lia.
    replace ((b0 mod 4 * 16) mod 16 =? 0) with true by (symmetry; apply N.eqb_eq; lia).
    rewrite orb_true_r. f_equal. f_equal. lia.
  - inversion HB as [|? ? H0 HB']; subst. inversion HB' as [|? ? H1 _]; subst.
    cbn [b64enc_gen b64dec_gen b64_suffix].
    rewrite (b64_sym_not_pad url (b1 mod 16 * 4)) by lia. rewrite N.eqb_refl.
    unfold b64_three. rewrite !b64_val_sym by lia.
    replace ((b1 mod 16 * 4) mod 4 =? 0) with true by (symmetry; apply N.eqb_eq; lia).
    rewrite orb_true_r. f_equal. f_equal; [lia|]. f_equal. lia.
  - inversion HB as [|? ? H0 HB']; subst. inversion HB' as [|? ? H1 HB'']; subst.
    inversion HB'' as [|? ? H2 HBr]; subst.
    cbn [b64enc_gen].
    destruct (b64enc_gen (b64_sym url) true r) as [|x rest] eqn:E.
    + apply b64enc_nil_inv in E. subst r.
      cbn [b64dec_gen b64_suffix].
      rewrite (b64_sym_not_pad url (b1 mod 16 * 4 + b2 / 64)) by lia.
      rewrite (b64_sym_not_pad url (b2 mod 64)) by lia.
      now apply b64_four_enc.
    + cbn [b64dec_gen]. rewrite b64_four_enc by assumption.
      specialize (IH HBr). cbn [b64dec_gen] in IH. rewrite IH. reflexivity.
Qed.

Lemma b64_std_roundtrip : forall b, Bytes b -> b64dec_std (b64enc_std b) = Some b.
Proof. intros b HB. apply b64_roundtrip, HB. Qed.

(* ------------------------------------------------------------------ hex *)
Lemma hex_roundtrip : forall up b, Bytes b -> hexdec (hexenc up b) = Some b.
Proof.
  intros up. induction b as [|x b IH]; intros HB; [reflexivity|].
  inversion HB as [|? ? Hx HB']; subst.
  cbn [hexenc flat_map app]. cbn [hexdec].
  change (flat_map (fun x0 : N => [hex_sym up (x0 / 16); hex_sym up (x0 mod 16)]) b) with (hexenc up b).
  rewrite !hex_val_sym by lia. rewrite (IH HB'). f_equal. f_equal. lia.
Qed.

(* ------------------------------------------------------------------ digests are byte strings *)
Lemma le_bytes_lt : forall n x, Bytes (le_bytes n x).
Proof.
  induction n as [|n IH]; intros x; cbn [le_bytes]; constructor; [|apply IH].
  change 255 with (N.ones 8). rewrite N.land_ones. apply N.mod_lt. discriminate.
Qed.
Lemma md4_bytes : forall m, Bytes (md4 m).
Proof.
  intros m. unfold md4. destruct (fold_left md4_block _ md45_init) as [[[a b] c] d].
  repeat apply Bytes_app; apply le_bytes_lt.
Qed.
Lemma sha_of_bytes : forall bits m, Bytes (sha_of bits m).
Proof.
  intros bits m. unfold sha_of. destruct (bits =? 1); [apply sha1_bytes|].
  destruct (bits =? 256); apply sha2_bytes.
Qed.
Definition sha_len (bits : N) : nat := if bits =? 1 then 20%nat else if bits =? 256 then 32%nat else 64%nat.
Lemma sha_of_length : forall bits m, length (sha_of bits m) = sha_len bits.
Proof.
  intros bits m. unfold sha_of, sha_len. destruct (bits =? 1); [apply sha1_length|].
  destruct (bits =? 256); [apply sha256_length | apply sha512_length].
Qed.

(* ------------------------------------------------------------------ verify *)
Lemma verify_long : forall argon k pw, PW_MAX_LENGTH_CHECK < blen pw -> verify argon k pw = VOk false.
Proof. intros argon k pw H. unfold verify. apply N.ltb_lt in H. now rewrite H. Qed.

(* the key a stored value must equal, in full, for [pw] to be accepted *)
Definition expected_key (argon : argon_oracle) (k : kdf) (pw : bytes) : option bytes :=
  match k with
  | KArgon2id m t p v salt key => argon m t p v salt pw (length key)
  | KPbkdf2 c s h => Some (pbkdf2_sha256 pw s c (length h))
  | KPbkdf2Sha1 c s h => Some (pbkdf2_sha1 pw s c (length h))
  | KPbkdf2Sha512 c s h => Some (pbkdf2_sha512 pw s c (length h))
  | KSha1 _ => Some (sha1 pw)
  | KSsha1 s _ => Some (sha1 (pw ++ s))
  | KSha256 _ => Some (sha256 pw)
  | KSsha256 s _ => Some (sha256 (pw ++ s))
  | KSha512 _ => Some (sha512 pw)
  | KSsha512 s _ => Some (sha512 (pw ++ s))
  | KNtMd4 _ => Some (md4 (utf16le pw))
  | KCryptMd5 s _ => Some (md5crypt pw s)
  | KCryptSha256 _ | KCryptSha512 _ => None
  end.
Definition stored_key (k : kdf) : bytes :=
  match k with
  | KArgon2id _ _ _ _ _ key => key
  | KPbkdf2 _ _ h | KPbkdf2Sha1 _ _ h | KPbkdf2Sha512 _ _ h => h
  | KSha1 h | KSsha1 _ h | KSha256 h | KSsha256 _ h | KSha512 h | KSsha512 _ h => h
  | KNtMd4 h | KCryptMd5 _ h | KCryptSha256 h | KCryptSha512 h => h
  end.
Definition is_sha_crypt (k : kdf) : bool :=
  match k with KCryptSha256 _ | KCryptSha512 _ => true | _ => false end.

Lemma VOk_inj : forall a b, VOk a = VOk b -> a = b.
Proof. intros a b H. now injection H. Qed.
Lemma Some_inj : forall (A : Type) (a b : A), Some a = Some b -> a = b.
Proof. intros A a b H. now injection H. Qed.

Lemma verify_full_equality : forall argon k pw,
  is_sha_crypt k = false -> verify argon k pw = VOk true ->
  blen pw <= PW_MAX_LENGTH_CHECK /\ expected_key argon k pw = Some (stored_key k).
Proof.
  intros argon k pw Hk H. unfold verify in H.
  destruct (PW_MAX_LENGTH_CHECK <? blen pw) eqn:EL; [discriminate|].
  apply N.ltb_ge in EL. split; [exact EL|].
  destruct k; cbn [is_sha_crypt] in Hk; try discriminate Hk; cbn [expected_key stored_key].
  - destruct ((v =? 16) || (v =? 19)); [|discriminate H].
    destruct (argon m t p v salt pw (length key)) as [ck|]; [|discriminate H].
    apply VOk_inj in H. apply beqb_true_iff in H. f_equal. exact H.
  - apply VOk_inj in H. apply beqb_true_iff in H. f_equal. exact H.
  - apply VOk_inj in H. apply beqb_true_iff in H. f_equal. exact H.
  - apply VOk_inj in H. apply beqb_true_iff in H. f_equal. exact H.
  - apply VOk_inj in H. apply beqb_true_iff in H. f_equal. symmetry. exact H.
  - apply VOk_inj in H. apply beqb_true_iff in H. f_equal. symmetry. exact H.
  - apply VOk_inj in H. apply beqb_true_iff in H. f_equal. symmetry. exact H.
  - apply VOk_inj in H. apply beqb_true_iff in H. f_equal. symmetry. exact H.
  - apply VOk_inj in H. apply beqb_true_iff in H. f_equal. symmetry. exact H.
  - apply VOk_inj in H. apply beqb_true_iff in H. f_equal. symmetry. exact H.
  - apply VOk_inj in H. apply beqb_true_iff in H. f_equal. exact H.
  - apply VOk_inj in H. apply beqb_true_iff in H. f_equal. exact H.
Qed.

(* sha-crypt: acceptance means the whole digest, in the crypt(3) byte order, equals the decoded
   hash field padded with zeros to the digest length *)
Lemma sha_check_full_equality : forall is512 pw hv,
  sha_check is512 pw hv = VOk true ->
  exists salt r d, sha_prepare is512 hv = SCCompare salt r d /\
    map (fun t => nth t (shacrypt_raw (if is512 then sha512 else sha256) pw salt (N.to_nat r)) 0)
        (if is512 then MAP_SHA512 else MAP_SHA256)
    = firstn (if is512 then 64 else 32)%nat (d ++ repeat 0 (if is512 then 64 else 32)%nat).
Proof.
  intros is512 pw hv H. unfold sha_check, sha_check_gen in H. unfold sha_prepare.
  destruct (sha_prepare_gen tree_fixed is512 hv) as [| |salt r d]; try discriminate.
  exists salt, r, d. split; [reflexivity|]. apply VOk_inj in H. now apply beqb_true_iff in H.
Qed.

(* the fix a666989 only removes behaviour: whatever the fixed check accepts, the pre-fix check
   accepted too; and it differs from the pre-fix check only on strings whose last '$'-field is
   not a canonical 43-character sha256-crypt hash *)
Lemma fix_only_restricts : forall is512 pw hv,
  sha_check_gen true is512 pw hv = VOk true -> sha_check_gen false is512 pw hv = VOk true.
Proof.
  intros is512 pw hv H. unfold sha_check_gen, sha_prepare_gen in *.
  destruct (true && negb is512 && negb (sha256_field_ok hv)); [discriminate H|].
  cbn [andb]. exact H.
Qed.
Lemma fix_same_on_canonical : forall is512 pw hv,
  is512 = true \/ sha256_field_ok hv = true ->
  sha_check_gen true is512 pw hv = sha_check_gen false is512 pw hv.
Proof.
  intros is512 pw hv H. unfold sha_check_gen, sha_prepare_gen.
  replace (true && negb is512 && negb (sha256_field_ok hv)) with false; [reflexivity|].
  destruct H as [-> | ->]; [reflexivity | now destruct is512].
Qed.
(* the defect of the originally pinned tree, and its repair, on the string the harness confirmed *)
Lemma prefix_panics :
  let hv := str "$5$rounds=1000$saltsalt$***" in
  sha_check_gen false false (str "password") hv = VPanic /\
  sha_check_gen true false (str "password") hv = VOk false /\
  sha_check_gen false true (str "password") (str "$6$rounds=1000$saltsalt$***") = VOk false.
Proof. vm_compute. repeat split; reflexivity. Qed.

(* ------------------------------------------------------------------ verdict = indep_accepts *)
Lemma verdict_is_indep : forall argon g pw0 d0 pw,
  digest argon g pw0 = Some d0 -> verdict argon g pw0 d0 pw = indep_accepts argon g pw0 pw.
Proof.
  intros argon g pw0 d0 pw H. unfold verdict, indep_accepts. rewrite H.
  destruct (beqb pw pw0) eqn:E.
  - apply beqb_true_iff in E. subst. rewrite H. now rewrite beqb_refl.
  - reflexivity.
Qed.

(* ------------------------------------------------------------------ string plumbing *)
Lemma split_once_app : forall sep a b,
  forallb (fun c => negb (c =? sep)) a = true -> split_once sep (a ++ sep :: b) = Some (a, b).
Proof.
  intros sep. induction a as [|x a IH]; intros b H; cbn [app split_once].
  - now rewrite N.eqb_refl.
  - cbn [forallb] in H. apply andb_true_iff in H. destruct H as [Hx Ha].
    apply negb_true_iff in Hx. rewrite Hx. now rewrite (IH b Ha).
Qed.
Lemma is_h64_no_dollar : forall s, is_h64 s = true -> forallb (fun c => negb (c =? 36)) s = true.
Proof.
  intros s H. unfold is_h64 in H. rewrite forallb_forall in *. intros c Hc. specialize (H c Hc).
  destruct (c =? 36) eqn:E; [|reflexivity]. apply N.eqb_eq in E. subst. discriminate.
Qed.

(* prefix dispatch of TryFrom<&str> on the strings the generators print *)
Lemma parse_sha_scheme : forall bits up hv,
  (bits =? 1) || (bits =? 256) || (bits =? 512) = true ->
  parse (scheme up (sha_name bits) ++ hv) =
  parse_plain_sha (sha_len bits)
    (if bits =? 1 then KSha1 else if bits =? 256 then KSha256 else KSha512) hv.
Proof.
  intros bits up hv H.
  assert (Hb : bits = 1 \/ bits = 256 \/ bits = 512).
  { apply orb_true_iff in H. destruct H as [H|H]; [apply orb_true_iff in H; destruct H as [H|H]|];
      apply N.eqb_eq in H; auto. }
  destruct Hb as [-> | [-> | ->]]; destruct up; reflexivity.
Qed.
Lemma parse_ssha_scheme : forall bits up hv,
  (bits =? 1) || (bits =? 256) || (bits =? 512) = true ->
  parse (scheme up ("S" ++ sha_name bits)%string ++ hv) =
  parse_salted_sha (sha_len bits) (bits =? 512)
    (if bits =? 1 then KSsha1 else if bits =? 256 then KSsha256 else KSsha512) hv.
Proof.
  intros bits up hv H.
  assert (Hb : bits = 1 \/ bits = 256 \/ bits = 512).
  { apply orb_true_iff in H. destruct H as [H|H]; [apply orb_true_iff in H; destruct H as [H|H]|];
      apply N.eqb_eq in H; auto. }
  destruct Hb as [-> | [-> | ->]]; destruct up; reflexivity.
Qed.
Lemma parse_samba_prefix : forall hv, parse (P_SAMBA ++ hv) = parse_samba hv.
Proof. intros hv. reflexivity. Qed.
Lemma parse_md5crypt_prefix : forall rest,
  parse (str "{crypt}$1$" ++ rest) =
  match split_once 36 rest with
  | Some (salt, hash) => POk (KCryptMd5 salt hash)
  | None => PErr EParsing
  end.
Proof. intros rest. reflexivity. Qed.

(* ------------------------------------------------------------------ the round trip, format by format *)
(* formats for which "parse what the independent implementation printed, then verify" is PROVED
   to give the independent verdict; the others (Django, OpenLDAP PBKDF2, ipaNTHash, sha-crypt)
   are tied by the differential run and the vectors of Witness.v only *)
Definition proved_fmt (g : gen) : bool :=
  match g with
  | GDbArgon2id _ _ _ v _ _ => (v =? 16) || (v =? 19)
  | GDbPbkdf2 _ _ _ | GSha _ _ | GSsha _ _ _ | GNtSamba _ | GCryptMd5 _ => true
  | _ => false
  end.

Lemma firstn_app_exact : forall (a b : bytes) n, length a = n -> firstn n (a ++ b) = a.
Proof.
  intros a b n H. subst n. rewrite firstn_app, Nat.sub_diag, firstn_all. cbn. apply app_nil_r.
Qed.
Lemma skipn_app_exact : forall (a b : bytes) n, length a = n -> skipn n (a ++ b) = b.
Proof.
  intros a b n H. subst n. rewrite skipn_app, Nat.sub_diag, skipn_all. reflexivity.
Qed.
Lemma pbkdf2_length_le : forall prf hlen pw salt c dklen,
  (length (pbkdf2 prf hlen pw salt c dklen) <= dklen)%nat.
Proof. intros. unfold pbkdf2. apply firstn_le_length. Qed.

Lemma xor_bytes_length : forall a b n, length a = n -> length b = n -> length (xor_bytes a b) = n.
Proof. intros a b n Ha Hb. unfold xor_bytes. rewrite map_length, combine_length, Ha, Hb. apply Nat.min_id. Qed.

Lemma pbkdf2_T_length : forall prf hlen, (forall k m, length (prf k m) = hlen) ->
  forall pw salt c i, length (pbkdf2_T prf pw salt c i) = hlen.
Proof.
  intros prf hlen Hprf pw salt c i. unfold pbkdf2_T.
  set (f := fun ut : bytes * bytes => let u' := prf pw (fst ut) in (u', xor_bytes (snd ut) u')).
  assert (Inv : length (fst (N.iter (c - 1) f (prf pw (salt ++ be_bytes 4 i), prf pw (salt ++ be_bytes 4 i)))) = hlen
                /\ length (snd (N.iter (c - 1) f (prf pw (salt ++ be_bytes 4 i), prf pw (salt ++ be_bytes 4 i)))) = hlen).
  { apply (N.iter_invariant (c - 1) _ f (fun x => length (fst x) = hlen /\ length (snd x) = hlen)).
    - intros [u t] [Hu Ht]. cbn [fst snd] in *. unfold f. cbn [fst snd]. split; [apply Hprf|].
      apply xor_bytes_length; [exact Ht | apply Hprf].
    - cbn [fst snd]. split; apply Hprf. }
  exact (proj2 Inv).
Qed.

Lemma flat_map_const_length : forall (A : Type) (f : A -> bytes) n l,
  (forall x, length (f x) = n) -> length (flat_map f l) = (length l * n)%nat.
Proof.
  intros A f n l H. induction l as [|x l IH]; [reflexivity|].
  cbn [flat_map length]. rewrite app_length, H, IH. lia.
Qed.

Lemma pbkdf2_length : forall prf hlen, (0 < hlen)%nat -> (forall k m, length (prf k m) = hlen) ->
  forall pw salt c dklen, length (pbkdf2 prf hlen pw salt c dklen) = dklen.
Proof.
  intros prf hlen Hpos Hprf pw salt c dklen. unfold pbkdf2.
  rewrite firstn_length.
  rewrite (flat_map_const_length _ _ hlen) by (intros x; apply pbkdf2_T_length, Hprf).
  rewrite seq_length. apply Nat.min_l.
  pose proof (Nat.div_mod_eq (dklen + hlen - 1) hlen) as E.
  pose proof (Nat.mod_upper_bound (dklen + hlen - 1) hlen ltac:(lia)) as B.
  nia.
Qed.

Lemma pbkdf2_sha256_length : forall pw salt c dklen, length (pbkdf2_sha256 pw salt c dklen) = dklen.
Proof.
  intros. unfold pbkdf2_sha256. apply pbkdf2_length; [lia|].
  intros k m. unfold hmac_sha256, hmac. apply sha256_length.
Qed.

(* the Argon2id primitive returns as many bytes as it is asked for, and whether it fails depends
   on the parameters only, not on the cleartext *)
Definition oracle_len (argon : argon_oracle) : Prop :=
  (forall m t p v salt pw n d, argon m t p v salt pw n = Some d -> length d = n) /\
  (forall m t p v salt pw pw' n d, argon m t p v salt pw n = Some d ->
                                    argon m t p v salt pw' n <> None).

Theorem roundtrip_proved : forall argon g pw0 d0 pw,
  oracle_len argon ->
  wf g = true -> proved_fmt g = true -> blen pw <= PW_MAX_LENGTH_CHECK ->
  digest argon g pw0 = Some d0 ->
  model_outcome argon (print_stored g d0) pw = OVer (VOk (indep_accepts argon g pw0 pw)).
Proof.
  intros argon g pw0 d0 pw Horacle Hwf Hp Hlen Hd.
  assert (HL : (PW_MAX_LENGTH_CHECK <? blen pw) = false) by (apply N.ltb_ge; exact Hlen).
  unfold indep_accepts. rewrite Hd.
  destruct g as [m t p v salt klen | c salt klen | | | bits up | bits up salt | | up | salt | ];
    cbn [proved_fmt] in Hp; try discriminate.
  - (* Argon2id via DbPasswordV1 *)
    cbn [digest] in Hd |- *. cbn [print_stored model_outcome]. unfold verify. rewrite HL, Hp.
    rewrite (proj1 Horacle _ _ _ _ _ _ _ _ Hd).
    destruct (argon m t p v salt pw klen) as [d|] eqn:E; [reflexivity|].
    exfalso. exact (proj2 Horacle _ _ _ _ _ _ pw _ _ Hd E).
  - (* PBKDF2 via DbPasswordV1 *)
    cbn [digest] in Hd |- *. apply Some_inj in Hd. subst d0.
    cbn [print_stored model_outcome]. unfold verify. rewrite HL.
    now rewrite pbkdf2_sha256_length.
  - (* {SHA} {SHA256} {SHA512} *)
    cbn [wf] in Hwf. cbn [digest] in Hd |- *. apply Some_inj in Hd. subst d0.
    cbn [print_stored model_outcome]. rewrite (parse_sha_scheme bits up _ Hwf).
    unfold parse_plain_sha. rewrite b64_std_roundtrip by apply sha_of_bytes.
    rewrite sha_of_length, Nat.eqb_refl.
    unfold sha_of. destruct (bits =? 1); [|destruct (bits =? 256)];
      unfold verify; rewrite HL; now rewrite beqb_sym.
  - (* {SSHA} {SSHA256} {SSHA512} *)
    cbn [wf] in Hwf. apply andb_true_iff in Hwf. destruct Hwf as [Hwf Hsl].
    apply andb_true_iff in Hwf. destruct Hwf as [Hbits Hsalt].
    apply Nat.leb_le in Hsl.
    cbn [digest] in Hd |- *. apply Some_inj in Hd. subst d0.
    cbn [print_stored model_outcome]. rewrite (parse_ssha_scheme bits up _ Hbits).
    unfold parse_salted_sha.
    rewrite b64_std_roundtrip by (apply Bytes_app; [apply sha_of_bytes | now apply is_bytes_Bytes]).
    rewrite app_length, sha_of_length.
    replace (sha_len bits + length salt <=? sha_len bits)%nat with false
      by (symmetry; apply Nat.leb_gt; lia).
    rewrite andb_false_r.
    replace (sha_len bits + length salt <? sha_len bits)%nat with false
      by (symmetry; apply Nat.ltb_ge; lia).
    rewrite (skipn_app_exact _ _ _ (sha_of_length bits _)).
    rewrite (firstn_app_exact _ _ _ (sha_of_length bits _)).
    unfold sha_of. destruct (bits =? 1); [|destruct (bits =? 256)];
      unfold verify; rewrite HL; now rewrite beqb_sym.
  - (* sambaNTPassword *)
    cbn [digest] in Hd |- *. apply Some_inj in Hd. subst d0.
    cbn [print_stored model_outcome]. rewrite parse_samba_prefix. unfold parse_samba.
    rewrite hex_roundtrip by apply md4_bytes.
    unfold verify. now rewrite HL.
  - (* {crypt}$1$ *)
    cbn [wf] in Hwf. apply andb_true_iff in Hwf. destruct Hwf as [Hh64 _].
    cbn [digest] in Hd |- *. apply Some_inj in Hd. subst d0.
    cbn [print_stored model_outcome]. rewrite parse_md5crypt_prefix.
    change (salt ++ [36] ++ md5crypt pw0 salt) with (salt ++ 36 :: md5crypt pw0 salt).
    rewrite split_once_app by now apply is_h64_no_dollar.
    unfold verify. now rewrite HL.
Qed.

(* ------------------------------------------------------------------ the full statement and its refutation *)
(* For every supported format, every parameter choice in the generator's domain, every cleartext
   pw0 and every candidate pw: what kanidm answers on the value an independent implementation
   stored for pw0 is Ok(the independent implementation's verdict on pw). *)
Definition full_statement : Prop :=
  forall argon g pw0 d0 pw, oracle_len argon -> wf g = true -> digest argon g pw0 = Some d0 ->
    model_outcome argon (print_stored g d0) pw = OVer (VOk (indep_accepts argon g pw0 pw)).

Definition no_argon : argon_oracle := fun _ _ _ _ _ _ _ => None.
Definition long_pw : bytes := repeat 97 513.

Lemma long_pw_refutes :
  model_outcome no_argon (print_stored (GSha 1 true) (sha_of 1 long_pw)) long_pw = OVer (VOk false) /\
  indep_accepts no_argon (GSha 1 true) long_pw long_pw = true.
Proof. split; vm_compute; reflexivity. Qed.

Theorem full_statement_refuted : ~ full_statement.
Proof.
  intros F.
  assert (Ho : oracle_len no_argon) by (split; intros; discriminate).
  assert (Hd : digest no_argon (GSha 1 true) long_pw = Some (sha_of 1 long_pw)) by (cbn [digest]; reflexivity).
  assert (Hw : wf (GSha 1 true) = true) by (vm_compute; reflexivity).
  specialize (F no_argon (GSha 1 true) long_pw (sha_of 1 long_pw) long_pw Ho Hw Hd).
  destruct long_pw_refutes as [H1 H2]. rewrite H1, H2 in F. clear H1 H2 Hd Hw. discriminate F.
Qed.

(* ------------------------------------------------------------------ bridge: agreement transfers the property *)
Definition case_proved (c : case) : bool :=
  match cgen c with
  | Some (g, _) => proved_fmt g
  | None => true
  end.

Lemma stored_eqb_eq : forall a b, stored_eqb a b = true -> a = b.
Proof.
  intros [x|x] [y|y] H; cbn [stored_eqb] in H; try discriminate.
  - apply beqb_true_iff in H. now subst.
  - f_equal. destruct x, y; cbn [kdf_eqb] in H; try discriminate;
      repeat (apply andb_true_iff in H; destruct H as [H ?]);
      repeat match goal with
             | h : (_ =? _) = true |- _ => apply N.eqb_eq in h
             | h : beqb _ _ = true |- _ => apply beqb_true_iff in h
             end; subst; reflexivity.
Qed.
Lemma outcome_eqb_eq : forall a b, outcome_eqb a b = true -> a = b.
Proof.
  intros [e| |r] [e'| |r'] H; cbn [outcome_eqb] in H; try discriminate; try reflexivity.
  - destruct e, e'; try discriminate; reflexivity.
  - destruct r as [x| |], r' as [y| |]; cbn [vres_eqb] in H; try discriminate; try reflexivity.
    apply Bool.eqb_prop in H. now subst.
Qed.
Lemma outcome_eqb_refl : forall a, outcome_eqb a a = true.
Proof. intros [e| |[x| |]]; cbn; try reflexivity; [destruct e; reflexivity | apply Bool.eqb_reflx]. Qed.

(* what pcheck asks beyond agreement, for a generated case: the parameters are in the generator's
   domain and the harness stored exactly what the Gallina generator prints *)
Definition well_generated (c : case) : bool :=
  let argon := oracle_of (coracle c) in
  match cgen c with
  | Some (g, pw0) =>
      match digest argon g pw0 with
      | Some d0 => wf g && stored_eqb (print_stored g d0) (cstored c)
      | None => false
      end
  | None => true
  end.

Definition all_short (c : case) : bool :=
  forallb (fun a => blen (fst a) <=? PW_MAX_LENGTH_CHECK) (catt c).
Definition no_panic_recorded (c : case) : bool := forallb (fun a => outcome_ok (snd a)) (catt c).

Theorem agree_implies_pcheck : forall c,
  oracle_len (oracle_of (coracle c)) ->
  case_proved c = true -> well_generated c = true -> all_short c = true ->
  (cgen c = None -> no_panic_recorded c = true) ->
  agree c = true -> pcheck c = true.
Proof.
  intros [cg st tab atts] Ho Hcp Hwg Hshort Hnp Hag.
  unfold case_proved, well_generated, all_short, agree, pcheck in *. cbn [cgen cstored coracle catt] in *.
  destruct cg as [[g pw0]|]; [|now apply Hnp].
  destruct (digest (oracle_of tab) g pw0) as [d0|] eqn:Hd; [|discriminate].
  rewrite Hwg. cbn [andb].
  apply andb_true_iff in Hwg. destruct Hwg as [Hwf Hst]. apply stored_eqb_eq in Hst. subst st.
  rewrite forallb_forall in *. intros a Ha.
  specialize (Hag a Ha). specialize (Hshort a Ha). apply N.leb_le in Hshort.
  apply outcome_eqb_eq in Hag. rewrite <- Hag.
  rewrite (verdict_is_indep _ _ _ _ _ Hd).
  rewrite (roundtrip_proved _ _ _ _ _ Ho Hwf Hcp Hshort Hd). apply outcome_eqb_refl.
Qed.

(* pcheck is sound: on a generated case it says that the implementation answered the
   independent verdict for every candidate *)
Theorem pcheck_sound : forall c g pw0,
  cgen c = Some (g, pw0) -> pcheck c = true ->
  wf g = true /\
  exists d0, digest (oracle_of (coracle c)) g pw0 = Some d0 /\ cstored c = print_stored g d0 /\
    forall pw o, In (pw, o) (catt c) -> o = OVer (VOk (indep_accepts (oracle_of (coracle c)) g pw0 pw)).
Proof.
  intros c g pw0 Hg H. unfold pcheck in H. rewrite Hg in H.
  destruct (digest (oracle_of (coracle c)) g pw0) as [d0|] eqn:Hd; [|discriminate].
  apply andb_true_iff in H. destruct H as [H Hall]. apply andb_true_iff in H. destruct H as [Hwf Hst].
  split; [exact Hwf|]. exists d0. split; [reflexivity|]. split; [symmetry; now apply stored_eqb_eq|].
  intros pw o Hin. rewrite forallb_forall in Hall. specialize (Hall _ Hin). cbn [fst snd] in Hall.
  apply outcome_eqb_eq in Hall. rewrite Hall. now rewrite (verdict_is_indep _ _ _ _ _ Hd).
Qed.
