(* KV.C30.Model — executable model of kanidm's password verification
   (libs/crypto/src/lib.rs: TryFrom<&str> for Password, parse_django_password, parse_ipanthash,
    parse_sambantpassword, parse_crypt, parse_pbkdf2, Password::verify_ctx with hsm = None;
    libs/crypto/src/crypt_md5.rs: do_md5_crypt; the sha-crypt 0.5.0 crate's sha256_check /
    sha512_check that verify_ctx calls),
   and, independently of that transcription, the reference GENERATORS of every format
   ([gen_stored]: what an independent implementation writes for a cleartext) with the verdict
   an independent implementation gives ([indep_accepts]: regenerate with the candidate cleartext
   and compare).

   Executable Gallina only.  Strings and cleartexts are UTF-8 byte lists. *)
From Coq Require Import String List Arith NArith Bool.
Require Import KV.C29.Hash KV.C30.Prim.
Import ListNotations.
Open Scope N_scope.

(* ================================================================== kanidm side *)

(* enum Kdf (TPM_ARGON2ID needs an HSM context and is outside this property) *)
Inductive kdf :=
| KArgon2id (m t p v : N) (salt key : bytes)
| KPbkdf2 (c : N) (s h : bytes)
| KPbkdf2Sha1 (c : N) (s h : bytes)
| KPbkdf2Sha512 (c : N) (s h : bytes)
| KSha1 (h : bytes)
| KSsha1 (s h : bytes)
| KSha256 (h : bytes)
| KSsha256 (s h : bytes)
| KSha512 (h : bytes)
| KSsha512 (s h : bytes)
| KNtMd4 (h : bytes)
| KCryptMd5 (s h : bytes)
| KCryptSha256 (h : bytes)
| KCryptSha512 (h : bytes).

(* enum PasswordError (payloads dropped) *)
Inductive perr :=
| EBase64 | EInvalidFormat | EInvalidKeyLength | EInvalidLength | EInvalidSaltLength
| EUnsupported | ENoDecoder | EParsing.

Inductive presult :=
| POk (k : kdf)
| PErr (e : perr)
| PUnmodelled.          (* {ARGON2} PHC strings and non-ASCII scheme names: not modelled *)

Definition PBKDF2_MIN_NIST_KEY_LEN : N := 32.
Definition PBKDF2_SHA1_MIN_KEY_LEN : N := 19.
Definition PW_MAX_LENGTH_CHECK : N := 512.

(* fn parse_django_password *)
Definition parse_django (value : bytes) : presult :=
  match split_on 36 value with
  | [_; cost; salt; hash] =>
      match parse_uint U32_MAX cost with
      | None => PErr EParsing
      | Some c =>
          match b64dec_std hash with
          | None => PErr EBase64
          | Some h => if blen h <? PBKDF2_MIN_NIST_KEY_LEN then PErr EInvalidLength
                      else POk (KPbkdf2 c salt h)
          end
      end
  | _ => PErr EInvalidLength
  end.

(* fn parse_ipanthash *)
Definition parse_ipanthash (hv : bytes) : presult :=
  match b64dec_url_nopad hv with
  | Some h => POk (KNtMd4 h)
  | None => match b64dec_url hv with
            | Some h => POk (KNtMd4 h)
            | None => PErr EBase64
            end
  end.

(* fn parse_sambantpassword *)
Definition parse_samba (hv : bytes) : presult :=
  match hexdec hv with
  | Some h => POk (KNtMd4 h)
  | None => PErr EParsing
  end.

(* fn parse_crypt *)
Definition parse_crypt (hv : bytes) : presult :=
  match strip_prefix [36; 49; 36] hv with
  | Some phc =>
      match split_once 36 phc with
      | Some (salt, hash) => POk (KCryptMd5 salt hash)
      | None => PErr EParsing
      end
  | None =>
      if starts_with [36; 53; 36] hv then POk (KCryptSha256 hv)
      else if starts_with [36; 54; 36] hv then POk (KCryptSha512 hv)
      else PErr EUnsupported
  end.

(* macro ab64_to_b64 *)
Definition ab64_to_b64 (s : bytes) : bytes :=
  let s' := map (fun c => if c =? 46 then 43 else c) s in
  match blen s' mod 4 with
  | 2 => s' ++ [61; 61]
  | 3 => s' ++ [61]
  | _ => s'
  end.

(* the hash_format strings of the OpenLDAP PBKDF2 family *)
Definition F_PBKDF2 := str "pbkdf2".
Definition F_PBKDF2_SHA1 := str "pbkdf2-sha1".
Definition F_PBKDF2_SHA256 := str "pbkdf2-sha256".
Definition F_PBKDF2_SHA512 := str "pbkdf2-sha512".

(* fn parse_pbkdf2 *)
Definition parse_pbkdf2 (hf hv : bytes) : presult :=
  match split_on 36 hv with
  | [cost; salt; hash] =>
      match parse_uint U32_MAX cost with
      | None => PErr EParsing
      | Some c =>
          match b64dec_std_trail (ab64_to_b64 salt) with
          | None => PErr EBase64
          | Some s =>
              match b64dec_std_trail (ab64_to_b64 hash) with
              | None => PErr EBase64
              | Some h =>
                  if beqb hf F_PBKDF2 || beqb hf F_PBKDF2_SHA1 then
                    if blen h <? PBKDF2_SHA1_MIN_KEY_LEN then PErr EInvalidKeyLength
                    else POk (KPbkdf2Sha1 c s h)
                  else if beqb hf F_PBKDF2_SHA256 then
                    if blen h <? PBKDF2_MIN_NIST_KEY_LEN then PErr EInvalidKeyLength
                    else POk (KPbkdf2 c s h)
                  else if beqb hf F_PBKDF2_SHA512 then
                    if blen h <? PBKDF2_MIN_NIST_KEY_LEN then PErr EInvalidKeyLength
                    else POk (KPbkdf2Sha512 c s h)
                  else PErr EUnsupported
              end
          end
      end
  | _ => PErr EInvalidLength
  end.

(* {SHA}/{SHA256}/{SHA512}: exact digest length required *)
Definition parse_plain_sha (n : nat) (mk : bytes -> kdf) (hv : bytes) : presult :=
  match b64dec_std hv with
  | None => PErr EBase64
  | Some h => if Nat.eqb (length h) n then POk (mk h) else PErr EInvalidSaltLength
  end.
(* {SSHA}/{SSHA256}: digest then salt (split_at_checked); {SSHA512} also refuses an empty salt *)
Definition parse_salted_sha (n : nat) (strict : bool) (mk : bytes -> bytes -> kdf) (hv : bytes)
  : presult :=
  match b64dec_std hv with
  | None => PErr EBase64
  | Some sh =>
      if strict && (length sh <=? n)%nat then PErr EInvalidSaltLength
      else if (length sh <? n)%nat then PErr EInvalidLength
      else POk (mk (skipn n sh) (firstn n sh))
  end.

(* the `match hash_format.as_str()` of TryFrom<&str> *)
Definition parse_scheme (hf hv : bytes) : presult :=
  if beqb hf F_PBKDF2 || beqb hf F_PBKDF2_SHA1 || beqb hf F_PBKDF2_SHA256 || beqb hf F_PBKDF2_SHA512
  then parse_pbkdf2 hf hv
  else if beqb hf (str "pbkdf2_sha256") then PErr EInvalidFormat
  else if beqb hf (str "argon2") then PUnmodelled
  else if beqb hf (str "crypt") then parse_crypt hv
  else if beqb hf (str "sha") then parse_plain_sha 20 KSha1 hv
  else if beqb hf (str "ssha") then parse_salted_sha 20 false KSsha1 hv
  else if beqb hf (str "sha256") then parse_plain_sha 32 KSha256 hv
  else if beqb hf (str "ssha256") then parse_salted_sha 32 false KSsha256 hv
  else if beqb hf (str "sha512") then parse_plain_sha 64 KSha512 hv
  else if beqb hf (str "ssha512") then parse_salted_sha 64 true KSsha512 hv
  else PErr ENoDecoder.

Definition P_DJANGO := str "pbkdf2_sha256$".
Definition P_IPA := str "ipaNTHash: ".
Definition P_SAMBA := str "sambaNTPassword: ".

(* impl TryFrom<&str> for Password *)
Definition parse (value : bytes) : presult :=
  if starts_with P_DJANGO value then parse_django value
  else match strip_prefix P_IPA value with
  | Some hv => parse_ipanthash hv
  | None =>
  match strip_prefix P_SAMBA value with
  | Some hv => parse_samba hv
  | None =>
      if starts_with [123] value then
        match split_once 125 value with
        | None => PErr EInvalidFormat
        | Some (format, hv) =>
            let name := tl format in
            if forallb (fun c => c <? 128) name
            then parse_scheme (map ascii_lower name) hv
            else PUnmodelled
        end
      else PErr ENoDecoder
  end end.

(* ------------------------------------------------------------------ verify *)
Inductive vres :=
| VOk (b : bool)        (* Ok(b) *)
| VErr                  (* Err(CryptoError::…) *)
| VPanic.               (* the call panics *)

(* sha_crypt::sha{256,512}_check as called by verify_ctx (`.is_ok()`), including the
   `.unwrap()` on the hash-field decode inside decode_sha256 *)
Definition is_h64 (b : bytes) : bool :=
  forallb (fun c => match h64_val c with Some _ => true | None => false end) b.

Inductive sha_prep :=
| SCReject                                  (* the check returns Err: not accepted *)
| SCPanic                                   (* decode_sha256(..).unwrap() panics *)
| SCCompare (salt : bytes) (r : N) (d : bytes).

(* true : the tree under check contains /repo a666989 (= /verif/fixes/C30.patch): verify_ctx first
          requires the last '$'-field of a {crypt}$5$ string to be 43 hash64 characters with a
          canonical last one, and answers Ok(false) otherwise.
   false: the originally pinned tree, which called sha_crypt::sha256_check on any {crypt}$5$
          string and PANICKED on an undecodable hash field (kept as sha_check_gen false). *)
Definition tree_fixed : bool := true.

Definition sha256_field_ok (hv : bytes) : bool :=
  let f := last (split_on 36 hv) [] in
  Nat.eqb (length f) 43 && is_h64 f &&
  match h64_val (last f 0) with Some v => v <? 16 | None => false end.

Definition sha_prepare_gen (fixed is512 : bool) (hv : bytes) : sha_prep :=
  let buflen := if is512 then 86%nat else 43%nat in
  if fixed && negb is512 && negb (sha256_field_ok hv) then SCReject else
  match split_on 36 hv with
  | [] :: id :: next :: rest =>
      if negb (beqb id (if is512 then [54] else [53])) then SCReject else
      let has_rounds := starts_with (str "rounds=") next in
      let rounds := if has_rounds then parse_uint U64_MAX (skipn 7 next) else Some ROUNDS_DEFAULT in
      let rest' := if has_rounds then rest else next :: rest in
      match rest' with
      | [salt; hash] =>
          match rounds with
          | None => SCReject
          | Some r =>
              if (r <? ROUNDS_MIN) || (ROUNDS_MAX <? r) then SCReject else
              match h64dec hash with
              | None => if is512 then SCReject else SCPanic
              | Some d =>
                  if (buflen <? length d)%nat then (if is512 then SCReject else SCPanic)
                  else SCCompare salt r d
              end
          end
      | _ => SCReject
      end
  | _ => SCReject
  end.

Definition sha_prepare : bool -> bytes -> sha_prep := sha_prepare_gen tree_fixed.

Definition sha_check_gen (fixed is512 : bool) (pw hv : bytes) : vres :=
  let H := if is512 then sha512 else sha256 in
  let map_ := if is512 then MAP_SHA512 else MAP_SHA256 in
  let dlen := if is512 then 64%nat else 32%nat in
  match sha_prepare_gen fixed is512 hv with
  | SCReject => VOk false
  | SCPanic => VPanic
  | SCCompare salt r d =>
      let out := shacrypt_raw H pw salt (N.to_nat r) in
      VOk (beqb (map (fun t => nth t out 0) map_) (firstn dlen (d ++ repeat 0 dlen)))
  end.

Definition sha_check : bool -> bytes -> bytes -> vres := sha_check_gen tree_fixed.

(* the Argon2id primitive (argon2 crate: Params::new + hash_password_into) is an oracle:
   m t p version salt cleartext key_len -> Some key | None (the crate reported an error) *)
Definition argon_oracle := N -> N -> N -> N -> bytes -> bytes -> nat -> option bytes.

(* Password::verify_ctx(cleartext, None) *)
Definition verify (argon : argon_oracle) (k : kdf) (pw : bytes) : vres :=
  if PW_MAX_LENGTH_CHECK <? blen pw then VOk false else
  match k with
  | KArgon2id m t p v salt key =>
      if (v =? 16) || (v =? 19) then
        match argon m t p v salt pw (length key) with
        | Some ck => VOk (beqb ck key)
        | None => VErr
        end
      else VErr
  | KPbkdf2 c s h => VOk (beqb (pbkdf2_sha256 pw s c (length h)) h)
  | KPbkdf2Sha1 c s h => VOk (beqb (pbkdf2_sha1 pw s c (length h)) h)
  | KPbkdf2Sha512 c s h => VOk (beqb (pbkdf2_sha512 pw s c (length h)) h)
  | KSha1 h => VOk (beqb h (sha1 pw))
  | KSsha1 s h => VOk (beqb h (sha1 (pw ++ s)))
  | KSha256 h => VOk (beqb h (sha256 pw))
  | KSsha256 s h => VOk (beqb h (sha256 (pw ++ s)))
  | KSha512 h => VOk (beqb h (sha512 pw))
  | KSsha512 s h => VOk (beqb h (sha512 (pw ++ s)))
  | KNtMd4 h => VOk (beqb (md4 (utf16le pw)) h)
  | KCryptMd5 s h => VOk (beqb (md5crypt pw s) h)
  | KCryptSha256 h => sha_check false pw h
  | KCryptSha512 h => sha_check true pw h
  end.

(* what is stored: an imported string, or a structured DbPasswordV1 value (generated
   credentials never pass through a string) *)
Inductive stored :=
| SStr (s : bytes)
| SDb (k : kdf).

Inductive outcome :=
| OParse (e : perr)     (* Password::try_from refused the string *)
| OUnmodelled
| OVer (r : vres).

Definition model_outcome (argon : argon_oracle) (st : stored) (pw : bytes) : outcome :=
  match st with
  | SDb k => OVer (verify argon k pw)
  | SStr s =>
      match parse s with
      | POk k => OVer (verify argon k pw)
      | PErr e => OParse e
      | PUnmodelled => OUnmodelled
      end
  end.

(* ================================================================== independent side *)

(* One constructor per supported format = the parameters an independent implementation chooses
   when it hashes a cleartext.  [up] selects the spelling of the scheme ({SSHA} / {ssha}, hex
   case). *)
Inductive gen :=
| GDbArgon2id (m t p v : N) (salt : bytes) (klen : nat)   (* Password::new_argon2id *)
| GDbPbkdf2 (c : N) (salt : bytes) (klen : nat)           (* Password::new_pbkdf2 *)
| GDjango (c : N) (salt : bytes)
| GLdapPbkdf2 (variant : N) (up : bool) (c : N) (salt : bytes)  (* 0 {PBKDF2} 1 -SHA1 2 -SHA256 3 -SHA512 *)
| GSha (bits : N) (up : bool)                             (* 1 | 256 | 512 *)
| GSsha (bits : N) (up : bool) (salt : bytes)
| GNtIpa
| GNtSamba (up : bool)
| GCryptMd5 (salt : bytes)
| GCryptSha (is512 : bool) (rounds : option N) (salt : bytes).

Definition is_bytes (b : bytes) : bool := forallb (fun x => x <? 256) b.
(* Django salts: ASCII letters and digits *)
Definition is_alnum (b : bytes) : bool :=
  forallb (fun c => ((48 <=? c) && (c <=? 57)) || ((65 <=? c) && (c <=? 90)) || ((97 <=? c) && (c <=? 122))) b.

(* the domain of each generator *)
Definition wf (g : gen) : bool :=
  match g with
  | GDbArgon2id m t p v salt klen => is_bytes salt
  | GDbPbkdf2 c salt klen => is_bytes salt && (32 <=? klen)%nat
  | GDjango c salt => (1 <=? c) && (c <=? U32_MAX) && is_alnum salt
  | GLdapPbkdf2 variant up c salt => (variant <? 4) && (1 <=? c) && (c <=? U32_MAX) && is_bytes salt
  | GSha bits up => (bits =? 1) || (bits =? 256) || (bits =? 512)
  | GSsha bits up salt =>
      ((bits =? 1) || (bits =? 256) || (bits =? 512)) && is_bytes salt && (1 <=? length salt)%nat
  | GNtIpa => true
  | GNtSamba up => true
  | GCryptMd5 salt => is_h64 salt && (length salt <=? 8)%nat
  | GCryptSha is512 rounds salt =>
      is_h64 salt && (length salt <=? 16)%nat &&
      match rounds with
      | None => true
      | Some r => (ROUNDS_MIN <=? r) && (r <=? ROUNDS_MAX)
      end
  end.

Definition sha_of (bits : N) : bytes -> bytes :=
  if bits =? 1 then sha1 else if bits =? 256 then sha256 else sha512.
Definition sha_name (bits : N) : string :=
  if bits =? 1 then "SHA"%string else if bits =? 256 then "SHA256"%string else "SHA512"%string.
Definition ldap_name (variant : N) : string :=
  if variant =? 0 then "PBKDF2"%string else if variant =? 1 then "PBKDF2-SHA1"%string
  else if variant =? 2 then "PBKDF2-SHA256"%string else "PBKDF2-SHA512"%string.
Definition scheme (up : bool) (name : string) : bytes :=
  [123] ++ (if up then str name else map ascii_lower (str name)) ++ [125].

(* the key/digest the format derives from a cleartext (the oracle stands for Argon2id) *)
Definition digest (argon : argon_oracle) (g : gen) (pw : bytes) : option bytes :=
  match g with
  | GDbArgon2id m t p v salt klen => argon m t p v salt pw klen
  | GDbPbkdf2 c salt klen => Some (pbkdf2_sha256 pw salt c klen)
  | GDjango c salt => Some (pbkdf2_sha256 pw salt c 32)
  | GLdapPbkdf2 variant up c salt =>
      Some (if variant <? 2 then pbkdf2_sha1 pw salt c 20
            else if variant =? 2 then pbkdf2_sha256 pw salt c 32
            else pbkdf2_sha512 pw salt c 64)
  | GSha bits up => Some (sha_of bits pw)
  | GSsha bits up salt => Some (sha_of bits (pw ++ salt))
  | GNtIpa => Some (md4 (utf16le pw))
  | GNtSamba up => Some (md4 (utf16le pw))
  | GCryptMd5 salt => Some (md5crypt pw salt)
  | GCryptSha is512 rounds salt =>
      let r := match rounds with Some r => r | None => ROUNDS_DEFAULT end in
      let out := shacrypt_raw (if is512 then sha512 else sha256) pw salt (N.to_nat r) in
      Some (h64enc (map (fun t => nth t out 0) (if is512 then MAP_SHA512 else MAP_SHA256)))
  end.

(* what the independent implementation stores for key [d] *)
Definition print_stored (g : gen) (d : bytes) : stored :=
  match g with
  | GDbArgon2id m t p v salt klen => SDb (KArgon2id m t p v salt d)
  | GDbPbkdf2 c salt klen => SDb (KPbkdf2 c salt d)
  | GDjango c salt =>
      SStr (P_DJANGO ++ print_dec c ++ [36] ++ salt ++ [36] ++ b64enc_std d)
  | GLdapPbkdf2 variant up c salt =>
      SStr (scheme up (ldap_name variant)
            ++ print_dec c ++ [36] ++ ab64enc salt ++ [36] ++ ab64enc d)
  | GSha bits up => SStr (scheme up (sha_name bits) ++ b64enc_std d)
  | GSsha bits up salt => SStr (scheme up ("S" ++ sha_name bits)%string ++ b64enc_std (d ++ salt))
  | GNtIpa => SStr (P_IPA ++ b64enc_url_nopad d)
  | GNtSamba up => SStr (P_SAMBA ++ hexenc up d)
  | GCryptMd5 salt => SStr (str "{crypt}$1$" ++ salt ++ [36] ++ d)
  | GCryptSha is512 rounds salt =>
      SStr (str "{crypt}$" ++ (if is512 then [54] else [53]) ++ [36] ++
            match rounds with
            | Some r => str "rounds=" ++ print_dec r ++ [36]
            | None => []
            end ++ salt ++ [36] ++ d)
  end.

Definition gen_stored (argon : argon_oracle) (g : gen) (pw0 : bytes) : option stored :=
  match digest argon g pw0 with
  | Some d => Some (print_stored g d)
  | None => None
  end.

(* the verdict of the independent implementation on a hash it produced for [pw0]:
   derive the key of the candidate with the same parameters and compare *)
Definition indep_accepts (argon : argon_oracle) (g : gen) (pw0 pw : bytes) : bool :=
  match digest argon g pw0, digest argon g pw with
  | Some d0, Some d => beqb d d0
  | _, _ => false
  end.

(* ================================================================== cases *)

(* [cgen]: how the harness produced [cstored] (None: a mutated / hand-made / non-canonical
   value); [coracle]: the Argon2id table (m,t,p,v,salt,cleartext,len) -> result, filled by the
   harness from the argon2 crate; [catt]: candidate cleartexts with the outcome of the REAL
   Password::try_from + verify. *)
Record case := Case {
  cgen : option (gen * bytes);
  cstored : stored;
  coracle : list ((N * N * N * N * bytes * bytes * nat) * option bytes);
  catt : list (bytes * outcome)
}.

Definition oracle_of (tab : list ((N * N * N * N * bytes * bytes * nat) * option bytes))
  : argon_oracle :=
  fun m t p v salt pw klen =>
    match find (fun e => let '(m', t', p', v', s', pw', k') := fst e in
                         (m =? m') && (t =? t') && (p =? p') && (v =? v') && beqb salt s'
                         && beqb pw pw' && Nat.eqb klen k') tab with
    | Some e => snd e
    | None => None
    end.

Definition perr_eqb (a b : perr) : bool :=
  match a, b with
  | EBase64, EBase64 | EInvalidFormat, EInvalidFormat | EInvalidKeyLength, EInvalidKeyLength
  | EInvalidLength, EInvalidLength | EInvalidSaltLength, EInvalidSaltLength
  | EUnsupported, EUnsupported | ENoDecoder, ENoDecoder | EParsing, EParsing => true
  | _, _ => false
  end.
Definition vres_eqb (a b : vres) : bool :=
  match a, b with
  | VOk x, VOk y => Bool.eqb x y
  | VErr, VErr | VPanic, VPanic => true
  | _, _ => false
  end.
Definition outcome_eqb (a b : outcome) : bool :=
  match a, b with
  | OParse x, OParse y => perr_eqb x y
  | OUnmodelled, OUnmodelled => true
  | OVer x, OVer y => vres_eqb x y
  | _, _ => false
  end.

Definition kdf_eqb (a b : kdf) : bool :=
  match a, b with
  | KArgon2id m t p v s k, KArgon2id m' t' p' v' s' k' =>
      (m =? m') && (t =? t') && (p =? p') && (v =? v') && beqb s s' && beqb k k'
  | KPbkdf2 c s h, KPbkdf2 c' s' h' | KPbkdf2Sha1 c s h, KPbkdf2Sha1 c' s' h'
  | KPbkdf2Sha512 c s h, KPbkdf2Sha512 c' s' h' => (c =? c') && beqb s s' && beqb h h'
  | KSha1 h, KSha1 h' | KSha256 h, KSha256 h' | KSha512 h, KSha512 h' | KNtMd4 h, KNtMd4 h'
  | KCryptSha256 h, KCryptSha256 h' | KCryptSha512 h, KCryptSha512 h' => beqb h h'
  | KSsha1 s h, KSsha1 s' h' | KSsha256 s h, KSsha256 s' h' | KSsha512 s h, KSsha512 s' h'
  | KCryptMd5 s h, KCryptMd5 s' h' => beqb s s' && beqb h h'
  | _, _ => false
  end.
Definition stored_eqb (a b : stored) : bool :=
  match a, b with
  | SStr x, SStr y => beqb x y
  | SDb x, SDb y => kdf_eqb x y
  | _, _ => false
  end.

(* the model's outcome equals the implementation's, for every candidate *)
Definition agree (c : case) : bool :=
  forallb (fun a => outcome_eqb (model_outcome (oracle_of (coracle c)) (cstored c) (fst a)) (snd a))
          (catt c).

(* PROPERTY, on the implementation's recorded outcomes.
   - a hash produced by an independent implementation (the case says with which parameters and for
     which cleartext; the Gallina generator must reproduce the stored value exactly): every
     candidate is answered Ok(b) with b = the independent implementation's verdict;
   - any other stored value: the call returns (no panic, no error) or the import is refused. *)
Definition outcome_ok (o : outcome) : bool :=
  match o with
  | OVer (VOk _) | OParse _ | OUnmodelled => true
  | _ => false
  end.

(* [indep_accepts] given the key [d0] already derived for [pw0]; the candidate equal to [pw0]
   needs no second derivation (Proofs.verdict_is_indep) *)
Definition verdict (argon : argon_oracle) (g : gen) (pw0 d0 pw : bytes) : bool :=
  if beqb pw pw0 then true
  else match digest argon g pw with
       | Some d => beqb d d0
       | None => false
       end.

Definition pcheck (c : case) : bool :=
  let argon := oracle_of (coracle c) in
  match cgen c with
  | Some (g, pw0) =>
      match digest argon g pw0 with
      | Some d0 =>
          wf g && stored_eqb (print_stored g d0) (cstored c) &&
          forallb (fun a => outcome_eqb (snd a) (OVer (VOk (verdict argon g pw0 d0 (fst a))))) (catt c)
      | None => false
      end
  | None => forallb (fun a => outcome_ok (snd a)) (catt c)
  end.

(* KNOWN-FINDING class (decided from the input only):
   long-cleartext : a candidate longer than PW_MAX_LENGTH_CHECK = 512 bytes that the independent
                    implementation accepts (verify_ctx refuses such candidates by design).
   (The class sha256-crypt-panic of the originally pinned tree is gone with /repo a666989.) *)
Definition known (c : case) : bool :=
  let argon := oracle_of (coracle c) in
  match cgen c with
  | Some (g, pw0) =>
      existsb (fun a => if PW_MAX_LENGTH_CHECK <? blen (fst a)
                        then indep_accepts argon g pw0 (fst a) else false) (catt c)
  | None => false
  end.
