(* KV.C30.Prim — executable primitives for the password-format model, over byte lists
   (`list N`, every element meant to be < 256):
     MD4 (RFC 1320), MD5 (RFC 1321), PBKDF2 (RFC 8018) over the HMACs of KV.C29.Hash,
     the base64 decoders/encoders in the exact flavours kanidm configures, hex, crypt(3)
     "hash64", decimal numbers, UTF-8 -> UTF-16LE, md5-crypt, sha256/512-crypt.
   Executable definitions only; validated by standard vectors in Witness.v (RFC 1320/1321/6070,
   glibc crypt(3) outputs); NOT proved against the RFCs. *)
From Coq Require Import String Ascii List Arith NArith Bool.
Require Import KV.C29.Hash.
Import ListNotations.
Open Scope N_scope.

Definition bytes := list N.

Fixpoint beqb (a b : bytes) : bool :=
  match a, b with
  | [], [] => true
  | x :: a', y :: b' => (x =? y) && beqb a' b'
  | _, _ => false
  end.

Definition blen (b : bytes) : N := N.of_nat (length b).

(* ------------------------------------------------------------------ little-endian words *)
Fixpoint le_bytes (n : nat) (x : N) : bytes :=
  match n with
  | O => []
  | S n' => N.land x 255 :: le_bytes n' (N.shiftr x 8)
  end.
Definition le_word (bs : bytes) : N := fold_right (fun b acc => b + 256 * acc) 0 bs.

Definition md_pad_le (msg : bytes) : bytes :=
  let len := blen msg in
  let used := (len + 9) mod 64 in
  let z := (64 - used) mod 64 in
  msg ++ 128 :: repeat 0 (N.to_nat z) ++ le_bytes 8 (8 * len).

Definition st4 := (N * N * N * N)%type.
Definition add32 (a b : N) : N := N.land (a + b) m32.

(* ------------------------------------------------------------------ MD5 *)
Definition md5_K : list N := [
  0xd76aa478; 0xe8c7b756; 0x242070db; 0xc1bdceee; 0xf57c0faf; 0x4787c62a; 0xa8304613; 0xfd469501;
  0x698098d8; 0x8b44f7af; 0xffff5bb1; 0x895cd7be; 0x6b901122; 0xfd987193; 0xa679438e; 0x49b40821;
  0xf61e2562; 0xc040b340; 0x265e5a51; 0xe9b6c7aa; 0xd62f105d; 0x02441453; 0xd8a1e681; 0xe7d3fbc8;
  0x21e1cde6; 0xc33707d6; 0xf4d50d87; 0x455a14ed; 0xa9e3e905; 0xfcefa3f8; 0x676f02d9; 0x8d2a4c8a;
  0xfffa3942; 0x8771f681; 0x6d9d6122; 0xfde5380c; 0xa4beea44; 0x4bdecfa9; 0xf6bb4b60; 0xbebfbc70;
  0x289b7ec6; 0xeaa127fa; 0xd4ef3085; 0x04881d05; 0xd9d4d039; 0xe6db99e5; 0x1fa27cf8; 0xc4ac5665;
  0xf4292244; 0x432aff97; 0xab9423a7; 0xfc93a039; 0x655b59c3; 0x8f0ccc92; 0xffeff47d; 0x85845dd1;
  0x6fa87e4f; 0xfe2ce6e0; 0xa3014314; 0x4e0811a1; 0xf7537e82; 0xbd3af235; 0x2ad7d2bb; 0xeb86d391 ].
Definition md5_S : list N :=
  [7;12;17;22;7;12;17;22;7;12;17;22;7;12;17;22;
   5;9;14;20;5;9;14;20;5;9;14;20;5;9;14;20;
   4;11;16;23;4;11;16;23;4;11;16;23;4;11;16;23;
   6;10;15;21;6;10;15;21;6;10;15;21;6;10;15;21].
Definition md5_g (i : N) : N :=
  if i <? 16 then i else if i <? 32 then (5 * i + 1) mod 16
  else if i <? 48 then (3 * i + 5) mod 16 else (7 * i) mod 16.
(* (i, message word index, rotation, constant) *)
Definition md5_tab : list (N * N * N * N) :=
  Eval vm_compute in
    map (fun i => let n := N.of_nat i in (n, md5_g n, nth i md5_S 0, nth i md5_K 0)) (seq 0 64).

Definition md5_step (M : list N) (st : st4) (e : N * N * N * N) : st4 :=
  let '(a, b, c, d) := st in
  let '(i, g, s, k) := e in
  let f := if i <? 16 then N.lor (N.land b c) (N.land (not32 b) d)
           else if i <? 32 then N.lor (N.land d b) (N.land (not32 d) c)
           else if i <? 48 then N.lxor (N.lxor b c) d
           else N.lxor c (N.lor b (not32 d)) in
  let f2 := N.land (f + a + k + nth (N.to_nat g) M 0) m32 in
  (d, add32 b (rotl32 s f2), b, c).

Definition md5_block (st : st4) (blk : bytes) : st4 :=
  let '(a, b, c, d) := st in
  let '(a', b', c', d') := fold_left (md5_step (map le_word (chunks 4 blk))) md5_tab st in
  (add32 a a', add32 b b', add32 c c', add32 d d').

Definition md45_init : st4 := (0x67452301, 0xefcdab89, 0x98badcfe, 0x10325476).

Definition md5 (msg : bytes) : bytes :=
  let '(a, b, c, d) := fold_left md5_block (chunks 64 (md_pad_le msg)) md45_init in
  le_bytes 4 a ++ le_bytes 4 b ++ le_bytes 4 c ++ le_bytes 4 d.

(* ------------------------------------------------------------------ MD4 *)
(* (round, message word index, rotation) *)
Definition md4_tab : list (N * N * N) :=
  map (fun '(k, s) => (1, k, s))
    (combine [0;1;2;3;4;5;6;7;8;9;10;11;12;13;14;15] [3;7;11;19;3;7;11;19;3;7;11;19;3;7;11;19]) ++
  map (fun '(k, s) => (2, k, s))
    (combine [0;4;8;12;1;5;9;13;2;6;10;14;3;7;11;15] [3;5;9;13;3;5;9;13;3;5;9;13;3;5;9;13]) ++
  map (fun '(k, s) => (3, k, s))
    (combine [0;8;4;12;2;10;6;14;1;9;5;13;3;11;7;15] [3;9;11;15;3;9;11;15;3;9;11;15;3;9;11;15]).

Definition md4_step (X : list N) (st : st4) (e : N * N * N) : st4 :=
  let '(a, b, c, d) := st in
  let '(r, k, s) := e in
  let f := if r =? 1 then N.lor (N.land b c) (N.land (not32 b) d)
           else if r =? 2 then N.lor (N.lor (N.land b c) (N.land b d)) (N.land c d)
           else N.lxor (N.lxor b c) d in
  let kk := if r =? 1 then 0 else if r =? 2 then 0x5a827999 else 0x6ed9eba1 in
  (d, rotl32 s (N.land (a + f + nth (N.to_nat k) X 0 + kk) m32), b, c).

Definition md4_block (st : st4) (blk : bytes) : st4 :=
  let '(a, b, c, d) := st in
  let '(a', b', c', d') := fold_left (md4_step (map le_word (chunks 4 blk))) md4_tab st in
  (add32 a a', add32 b b', add32 c c', add32 d d').

Definition md4 (msg : bytes) : bytes :=
  let '(a, b, c, d) := fold_left md4_block (chunks 64 (md_pad_le msg)) md45_init in
  le_bytes 4 a ++ le_bytes 4 b ++ le_bytes 4 c ++ le_bytes 4 d.

(* ------------------------------------------------------------------ PBKDF2 (RFC 8018 5.2) *)
Definition xor_bytes (a b : bytes) : bytes := map (fun p => N.lxor (fst p) (snd p)) (combine a b).

(* T_i = U_1 xor ... xor U_c ; a cost of 0 behaves like 1 (as the Rust pbkdf2 crate does) *)
Definition pbkdf2_T (prf : bytes -> bytes -> bytes) (pw salt : bytes) (c i : N) : bytes :=
  let u1 := prf pw (salt ++ be_bytes 4 i) in
  snd (N.iter (c - 1) (fun ut => let u' := prf pw (fst ut) in (u', xor_bytes (snd ut) u')) (u1, u1)).

Definition pbkdf2 (prf : bytes -> bytes -> bytes) (hlen : nat) (pw salt : bytes) (c : N) (dklen : nat)
  : bytes :=
  let nblocks := ((dklen + hlen - 1) / hlen)%nat in
  firstn dklen (flat_map (fun i => pbkdf2_T prf pw salt c (N.of_nat i)) (seq 1 nblocks)).

Definition pbkdf2_sha1 := pbkdf2 hmac_sha1 20.
Definition pbkdf2_sha256 := pbkdf2 hmac_sha256 32.
Definition pbkdf2_sha512 := pbkdf2 hmac_sha512 64.

(* ------------------------------------------------------------------ base64 (RFC 4648 bit order) *)
(* value of a symbol; [url] selects '-' '_' instead of '+' '/' *)
Definition b64_val (url : bool) (c : N) : option N :=
  if (65 <=? c) && (c <=? 90) then Some (c - 65)
  else if (97 <=? c) && (c <=? 122) then Some (c - 71)
  else if (48 <=? c) && (c <=? 57) then Some (c + 4)
  else if c =? (if url then 45 else 43) then Some 62
  else if c =? (if url then 95 else 47) then Some 63
  else None.
Definition b64_sym (url : bool) (v : N) : N :=
  if v <? 26 then v + 65 else if v <? 52 then v + 71 else if v <? 62 then v - 4
  else if v =? 62 then (if url then 45 else 43) else (if url then 95 else 47).

Definition quad_bytes (v0 v1 v2 v3 : N) : bytes :=
  [v0 * 4 + v1 / 16; (v1 mod 16) * 16 + v2 / 4; (v2 mod 4) * 64 + v3].

(* The terminal piece (the last 1..4 characters) as the `base64` crate's decode_suffix treats it.
   [canon] = DecodePaddingMode::RequireCanonical (else RequireNone);
   [trail] = decode_allow_trailing_bits. *)
Definition b64_two (val : N -> option N) (trail : bool) (c0 c1 : N) : option bytes :=
  match val c0, val c1 with
  | Some v0, Some v1 => if trail || (v1 mod 16 =? 0) then Some [v0 * 4 + v1 / 16] else None
  | _, _ => None
  end.
Definition b64_three (val : N -> option N) (trail : bool) (c0 c1 c2 : N) : option bytes :=
  match val c0, val c1, val c2 with
  | Some v0, Some v1, Some v2 =>
      if trail || (v2 mod 4 =? 0) then Some [v0 * 4 + v1 / 16; (v1 mod 16) * 16 + v2 / 4] else None
  | _, _, _ => None
  end.
Definition b64_four (val : N -> option N) (c0 c1 c2 c3 : N) : option bytes :=
  match val c0, val c1, val c2, val c3 with
  | Some v0, Some v1, Some v2, Some v3 => Some (quad_bytes v0 v1 v2 v3)
  | _, _, _, _ => None
  end.
Definition b64_suffix (val : N -> option N) (canon trail : bool) (t : bytes) : option bytes :=
  match t with
  | [c0; c1] => if canon then None else b64_two val trail c0 c1
  | [c0; c1; c2] => if canon then None else b64_three val trail c0 c1 c2
  | [c0; c1; c2; c3] =>
      if c2 =? 61 then (if (c3 =? 61) && canon then b64_two val trail c0 c1 else None)
      else if c3 =? 61 then (if canon then b64_three val trail c0 c1 c2 else None)
      else b64_four val c0 c1 c2 c3
  | _ => None
  end.

Fixpoint b64dec_gen (val : N -> option N) (canon trail : bool) (s : bytes) : option bytes :=
  match s with
  | [] => Some []
  | c0 :: c1 :: c2 :: c3 :: ((_ :: _) as rest) =>
      match b64_four val c0 c1 c2 c3, b64dec_gen val canon trail rest with
      | Some q, Some r => Some (q ++ r)
      | _, _ => None
      end
  | t => b64_suffix val canon trail t
  end.

(* general_purpose::STANDARD *)
Definition b64dec_std : bytes -> option bytes := b64dec_gen (b64_val false) true false.
(* STANDARD alphabet + with_decode_allow_trailing_bits(true) (parse_pbkdf2) *)
Definition b64dec_std_trail : bytes -> option bytes := b64dec_gen (b64_val false) true true.
(* URL_SAFE_NO_PAD, URL_SAFE *)
Definition b64dec_url_nopad : bytes -> option bytes := b64dec_gen (b64_val true) false false.
Definition b64dec_url : bytes -> option bytes := b64dec_gen (b64_val true) true false.

Fixpoint b64enc_gen (sym : N -> N) (pad : bool) (b : bytes) : bytes :=
  match b with
  | [] => []
  | [b0] => sym (b0 / 4) :: sym ((b0 mod 4) * 16) :: (if pad then [61; 61] else [])
  | [b0; b1] => sym (b0 / 4) :: sym ((b0 mod 4) * 16 + b1 / 16) :: sym ((b1 mod 16) * 4)
                :: (if pad then [61] else [])
  | b0 :: b1 :: b2 :: r =>
      sym (b0 / 4) :: sym ((b0 mod 4) * 16 + b1 / 16) :: sym ((b1 mod 16) * 4 + b2 / 64)
      :: sym (b2 mod 64) :: b64enc_gen sym pad r
  end.
Definition b64enc_std : bytes -> bytes := b64enc_gen (b64_sym false) true.
Definition b64enc_url_nopad : bytes -> bytes := b64enc_gen (b64_sym true) false.
(* passlib "ab64": standard alphabet with '.' for '+', no padding *)
Definition ab64enc (b : bytes) : bytes :=
  map (fun c => if c =? 43 then 46 else c) (b64enc_gen (b64_sym false) false b).

(* ------------------------------------------------------------------ hex *)
Definition hex_val (c : N) : option N :=
  if (48 <=? c) && (c <=? 57) then Some (c - 48)
  else if (97 <=? c) && (c <=? 102) then Some (c - 87)
  else if (65 <=? c) && (c <=? 70) then Some (c - 55) else None.
Fixpoint hexdec (s : bytes) : option bytes :=
  match s with
  | [] => Some []
  | a :: b :: r =>
      match hex_val a, hex_val b, hexdec r with
      | Some x, Some y, Some t => Some (16 * x + y :: t)
      | _, _, _ => None
      end
  | _ => None
  end.
Definition hex_sym (upper : bool) (v : N) : N :=
  if v <? 10 then v + 48 else if upper then v + 55 else v + 87.
Definition hexenc (upper : bool) (b : bytes) : bytes :=
  flat_map (fun x => [hex_sym upper (x / 16); hex_sym upper (x mod 16)]) b.

(* ------------------------------------------------------------------ crypt(3) hash64, little-endian groups *)
Definition h64_sym (v : N) : N :=
  if v <? 12 then v + 46 else if v <? 38 then v + 53 else v + 59.
Definition h64_val (c : N) : option N :=
  if (46 <=? c) && (c <=? 57) then Some (c - 46)
  else if (65 <=? c) && (c <=? 90) then Some (c - 53)
  else if (97 <=? c) && (c <=? 122) then Some (c - 59) else None.

(* 3 bytes -> 4 symbols, low 6 bits first; a final group of 1 (2) bytes gives 2 (3) symbols *)
Fixpoint h64enc (b : bytes) : bytes :=
  match b with
  | [] => []
  | [b0] => [h64_sym (b0 mod 64); h64_sym (b0 / 64)]
  | [b0; b1] => [h64_sym (b0 mod 64); h64_sym (b0 / 64 + (b1 mod 16) * 4); h64_sym (b1 / 16)]
  | b0 :: b1 :: b2 :: r =>
      h64_sym (b0 mod 64) :: h64_sym (b0 / 64 + (b1 mod 16) * 4)
      :: h64_sym (b1 / 16 + (b2 mod 4) * 16) :: h64_sym (b2 / 4) :: h64enc r
  end.

(* base64ct's Base64ShaCrypt::decode: strict (alphabet, no single trailing symbol, the unused
   bits of the last symbol must be zero) *)
Fixpoint h64dec (s : bytes) : option bytes :=
  match s with
  | [] => Some []
  | [_] => None
  | [c0; c1] =>
      match h64_val c0, h64_val c1 with
      | Some v0, Some v1 => if v1 <? 4 then Some [v0 + (v1 mod 4) * 64] else None
      | _, _ => None
      end
  | [c0; c1; c2] =>
      match h64_val c0, h64_val c1, h64_val c2 with
      | Some v0, Some v1, Some v2 =>
          if v2 <? 16 then Some [v0 + (v1 mod 4) * 64; v1 / 4 + (v2 mod 16) * 16] else None
      | _, _, _ => None
      end
  | c0 :: c1 :: c2 :: c3 :: r =>
      match h64_val c0, h64_val c1, h64_val c2, h64_val c3, h64dec r with
      | Some v0, Some v1, Some v2, Some v3, Some t =>
          Some (v0 + (v1 mod 4) * 64 :: v1 / 4 + (v2 mod 16) * 16 :: v2 / 16 + v3 * 4 :: t)
      | _, _, _, _, _ => None
      end
  end.

(* ------------------------------------------------------------------ decimal numbers *)
(* Rust <uN as FromStr>: optional '+', at least one digit, value <= max *)
Definition is_digit (c : N) : bool := (48 <=? c) && (c <=? 57).
Definition dec_value (ds : bytes) : N := fold_left (fun acc c => acc * 10 + (c - 48)) ds 0.
Definition parse_uint (max : N) (s : bytes) : option N :=
  let ds := match s with 43 :: r => r | _ => s end in
  match ds with
  | [] => None
  | _ => if forallb is_digit ds
         then (if dec_value ds <=? max then Some (dec_value ds) else None)
         else None
  end.
Definition U32_MAX : N := 4294967295.
Definition U64_MAX : N := 18446744073709551615.

(* decimal printing (canonical: no sign, no leading zeros) *)
Fixpoint print_dec_fuel (fuel : nat) (n : N) (acc : bytes) : bytes :=
  match fuel with
  | O => acc
  | S f => let acc' := (48 + n mod 10) :: acc in
           if n / 10 =? 0 then acc' else print_dec_fuel f (n / 10) acc'
  end.
Definition print_dec (n : N) : bytes := print_dec_fuel 40 n [].

(* ------------------------------------------------------------------ strings *)
Fixpoint starts_with (p s : bytes) : bool :=
  match p, s with
  | [], _ => true
  | x :: p', y :: s' => (x =? y) && starts_with p' s'
  | _, [] => false
  end.
Fixpoint strip_prefix (p s : bytes) : option bytes :=
  match p, s with
  | [], _ => Some s
  | x :: p', y :: s' => if x =? y then strip_prefix p' s' else None
  | _, [] => None
  end.
(* str::split(sep): always at least one piece *)
Fixpoint split_on (sep : N) (s : bytes) : list bytes :=
  match s with
  | [] => [[]]
  | c :: r =>
      if c =? sep then [] :: split_on sep r
      else match split_on sep r with
           | h :: t => (c :: h) :: t
           | [] => [[c]]
           end
  end.
(* str::split_once(sep) *)
Fixpoint split_once (sep : N) (s : bytes) : option (bytes * bytes) :=
  match s with
  | [] => None
  | c :: r =>
      if c =? sep then Some ([], r)
      else match split_once sep r with
           | Some (a, b) => Some (c :: a, b)
           | None => None
           end
  end.
Definition ascii_lower (c : N) : N := if (65 <=? c) && (c <=? 90) then c + 32 else c.

(* ------------------------------------------------------------------ UTF-8 -> UTF-16LE *)
(* Decodes well-formed UTF-8 (a Rust &str always is) and emits the UTF-16LE bytes
   (`encode_utf16` + `to_le_bytes`).  Ill-formed tails are dropped (unreachable from Rust). *)
Definition utf16_unit (u : N) : bytes := [u mod 256; u / 256].
Definition utf16_of_cp (cp : N) : bytes :=
  if cp <? 65536 then utf16_unit cp
  else let v := cp - 65536 in utf16_unit (55296 + v / 1024) ++ utf16_unit (56320 + v mod 1024).
Fixpoint utf16le_fuel (fuel : nat) (s : bytes) : bytes :=
  match fuel with
  | O => []
  | S f =>
      match s with
      | [] => []
      | a :: r =>
          if a <? 128 then utf16_of_cp a ++ utf16le_fuel f r
          else if a <? 224 then
            match r with
            | b :: r' => utf16_of_cp ((a - 192) * 64 + (b - 128)) ++ utf16le_fuel f r'
            | _ => []
            end
          else if a <? 240 then
            match r with
            | b :: c :: r' =>
                utf16_of_cp ((a - 224) * 4096 + (b - 128) * 64 + (c - 128)) ++ utf16le_fuel f r'
            | _ => []
            end
          else
            match r with
            | b :: c :: d :: r' =>
                utf16_of_cp ((a - 240) * 262144 + (b - 128) * 4096 + (c - 128) * 64 + (d - 128))
                ++ utf16le_fuel f r'
            | _ => []
            end
      end
  end.
Definition utf16le (s : bytes) : bytes := utf16le_fuel (length s) s.

(* ------------------------------------------------------------------ md5-crypt *)
(* [n] bytes taken cyclically from [d] (d non-empty) *)
Definition cycle_take (n : nat) (d : bytes) : bytes :=
  firstn n (concat (repeat d (S (n / length d)))).

(* the "bit" bytes: for each binary digit of the length, low first *)
Fixpoint len_bits_fuel (fuel : nat) (n : N) : list bool :=
  match fuel with
  | O => []
  | S f => if n =? 0 then [] else N.odd n :: len_bits_fuel f (n / 2)
  end.
Definition len_bits (n : N) : list bool := len_bits_fuel 64 n.

Definition md5crypt_round (pw salt : bytes) (r : N) (h : bytes) : bytes :=
  md5 ((if r mod 2 =? 1 then pw else h) ++
       (if 0 <? r mod 3 then salt else []) ++
       (if 0 <? r mod 7 then pw else []) ++
       (if r mod 2 =? 0 then pw else h)).

Fixpoint rounds_from {A} (f : N -> A -> A) (n : nat) (r : N) (x : A) : A :=
  match n with
  | O => x
  | S n' => rounds_from f n' (r + 1) (f r x)
  end.

Definition MD5_TRANSPOSE : list nat := [12;6;0;13;7;1;14;8;2;15;9;3;5;10;4;11]%nat.

(* transcription of crypt_md5.rs do_md5_crypt (the whole [salt] is used, whatever its length) *)
Definition md5crypt (pw salt : bytes) : bytes :=
  let hash_b := md5 (pw ++ salt ++ pw) in
  let a0 := pw ++ [36; 49; 36] ++ salt ++ cycle_take (length pw) hash_b ++
            map (fun odd : bool => if odd then 0 else hd 0 pw) (len_bits (blen pw)) in
  let hash_a := rounds_from (md5crypt_round pw salt) 1000 0 (md5 a0) in
  h64enc (map (fun t => nth t hash_a 0) MD5_TRANSPOSE).

(* ------------------------------------------------------------------ sha256/512-crypt (Drepper) *)
Definition MAP_SHA256 : list nat :=
  [20;10;0; 11;1;21; 2;22;12; 23;13;3; 14;4;24; 5;25;15; 26;16;6; 17;7;27; 8;28;18; 29;19;9;
   30;31]%nat.
Definition MAP_SHA512 : list nat :=
  [42;21;0; 1;43;22; 23;2;44; 45;24;3; 4;46;25; 26;5;47; 48;27;6; 7;49;28; 29;8;50; 51;30;9;
   10;52;31; 32;11;53; 54;33;12; 13;55;34; 35;14;56; 57;36;15; 16;58;37; 38;17;59; 60;39;18;
   19;61;40; 41;20;62; 63]%nat.

Definition shacrypt_round (p_vec s_vec : bytes) (H : bytes -> bytes) (i : N) (c : bytes) : bytes :=
  H ((if i mod 2 =? 1 then p_vec else c) ++
     (if 0 <? i mod 3 then s_vec else []) ++
     (if 0 <? i mod 7 then p_vec else []) ++
     (if i mod 2 =? 1 then c else p_vec)).

(* the raw digest; [salt] is truncated to 16 bytes; [rounds] is not range-checked here *)
Definition shacrypt_raw (H : bytes -> bytes) (pw salt0 : bytes) (rounds : nat) : bytes :=
  let salt := firstn 16 salt0 in
  let digest_b := H (pw ++ salt ++ pw) in
  let digest_a :=
    H (pw ++ salt ++ cycle_take (length pw) digest_b ++
       flat_map (fun odd : bool => if odd then digest_b else pw) (len_bits (blen pw))) in
  let dp := H (concat (repeat pw (length pw))) in
  let p_vec := cycle_take (length pw) dp in
  let ds := H (concat (repeat salt (16 + N.to_nat (hd 0 digest_a)))) in
  let s_vec := cycle_take (length salt) ds in
  rounds_from (shacrypt_round p_vec s_vec H) rounds 0 digest_a.

Definition ROUNDS_MIN : N := 1000.
Definition ROUNDS_MAX : N := 999999999.
Definition ROUNDS_DEFAULT : N := 5000.
