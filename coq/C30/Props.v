(* KV.C30.Props — property theorems only. *)
From Coq Require Import String List Arith NArith Bool.
Import ListNotations.
Require Import KV.C29.Hash KV.C30.Prim KV.C30.Model KV.C30.Proofs.
Open Scope N_scope.

(* THE PROPERTY.  For every supported format ([gen]: generated Argon2id and PBKDF2, Django,
   OpenLDAP PBKDF2 x4, {SHA}/{SSHA}/{SHA256}/{SSHA256}/{SHA512}/{SSHA512}, ipaNTHash,
   sambaNTPassword, md5-crypt, sha256-crypt, sha512-crypt), every parameter choice in the
   format's domain (salt, cost, rounds, spelling of the scheme), every cleartext pw0 and every
   candidate pw of ANY length: on the value an independent implementation stores for pw0
   ([print_stored g d0], d0 the key it derives), kanidm's import + verify answers Ok(b) where b is
   the independent implementation's verdict (derive the candidate's key with the same
   parameters and compare).  The Argon2id primitive is an oracle constrained by [oracle_len]. *)
Definition C30_full_statement : Prop := full_statement.

(* It is FALSE for the code under check: Password::verify_ctx refuses every candidate longer than
   PW_MAX_LENGTH_CHECK = 512 bytes before looking at the hash, so a {SHA} hash of a 513-byte
   cleartext is not accepted for that very cleartext (witness evaluated by vm_compute; confirmed
   on the real code by the harness cases `long-right`). *)
Theorem C30_refuted : ~ C30_full_statement.
Proof. exact full_statement_refuted. Qed.

(* Outside that class the statement is PROVED for the formats of [proved_fmt]: DbPasswordV1
   ARGON2ID (versions 0x10/0x13) and PBKDF2, {SHA}/{SHA256}/{SHA512}, {SSHA}/{SSHA256}/{SSHA512}
   (both spellings), sambaNTPassword (both hex cases) and md5-crypt (salts of at most 8 hash64
   characters) — unbounded cleartexts/salts/costs, candidates of at most 512 bytes.
   `_partial`: for Django, the four OpenLDAP PBKDF2 schemes, ipaNTHash and sha256/512-crypt the
   same equation is NOT proved (decimal / ab64 / URL-safe / hash64 printing and parsing are only
   executed): for those it rests on the differential run and the vectors of Witness.v. *)
Theorem C30_accepts_iff_independent_partial : forall argon g pw0 d0 pw,
  oracle_len argon ->
  wf g = true -> proved_fmt g = true -> blen pw <= PW_MAX_LENGTH_CHECK ->
  digest argon g pw0 = Some d0 ->
  model_outcome argon (print_stored g d0) pw = OVer (VOk (indep_accepts argon g pw0 pw)).
Proof. exact roundtrip_proved. Qed.

(* The excluded class exactly: any candidate over 512 bytes is answered Ok(false), whatever is
   stored (all formats, also the non-proved ones). *)
Theorem C30_long_cleartext_rejected : forall argon k pw,
  PW_MAX_LENGTH_CHECK < blen pw -> verify argon k pw = VOk false.
Proof. exact verify_long. Qed.

(* No prefix or truncated comparison in any variant: a candidate is accepted only if it is at most
   512 bytes long and the stored key equals, byte for byte and in its full length, the key the
   variant's algorithm derives from the candidate (derived to the stored key's length for
   PBKDF2/Argon2id). *)
Theorem C30_verify_full_equality : forall argon k pw,
  is_sha_crypt k = false -> verify argon k pw = VOk true ->
  blen pw <= PW_MAX_LENGTH_CHECK /\ expected_key argon k pw = Some (stored_key k).
Proof. exact verify_full_equality. Qed.

(* sha256/512-crypt: acceptance means that the '$'-structure and rounds were valid, the hash
   field decoded strictly, and the whole 32/64-byte digest (in crypt(3) order) equals the decoded
   field zero-padded to the digest length. *)
Theorem C30_sha_crypt_full_equality : forall is512 pw hv,
  sha_check is512 pw hv = VOk true ->
  exists salt r d, sha_prepare is512 hv = SCCompare salt r d /\
    map (fun t => nth t (shacrypt_raw (if is512 then sha512 else sha256) pw salt (N.to_nat r)) 0)
        (if is512 then MAP_SHA512 else MAP_SHA256)
    = firstn (if is512 then 64 else 32)%nat (d ++ repeat 0 (if is512 then 64 else 32)%nat).
Proof. exact sha_check_full_equality. Qed.

(* DEFECT FOUND BY THIS CHECK on the originally pinned tree, fixed by /repo a666989: importing
   {crypt}$5$rounds=1000$saltsalt$*** succeeded and every later verify PANICKED (sha-crypt's
   decode_sha256 unwraps the decode error); the fixed code answers Ok(false); $6$ never panicked. *)
Theorem C30_prefix_sha256_crypt_panics :
  let hv := str "$5$rounds=1000$saltsalt$***" in
  sha_check_gen false false (str "password") hv = VPanic /\
  sha_check_gen true false (str "password") hv = VOk false /\
  sha_check_gen false true (str "password") (str "$6$rounds=1000$saltsalt$***") = VOk false.
Proof. exact prefix_panics. Qed.

(* The fix only removes behaviour: what the fixed sha-crypt check accepts, the pre-fix check
   accepted; and both are the same function on sha512-crypt and on every sha256-crypt string
   whose last '$'-field is a canonical 43-character hash. *)
Theorem C30_fix_only_restricts : forall is512 pw hv,
  sha_check_gen true is512 pw hv = VOk true -> sha_check_gen false is512 pw hv = VOk true.
Proof. exact fix_only_restricts. Qed.
Theorem C30_fix_same_on_canonical : forall is512 pw hv,
  is512 = true \/ sha256_field_ok hv = true ->
  sha_check_gen true is512 pw hv = sha_check_gen false is512 pw hv.
Proof. exact fix_same_on_canonical. Qed.

(* The padded base64 decoders kanidm uses (STANDARD, URL_SAFE; with or without trailing-bit
   tolerance) invert the standard encoder on every byte string; likewise hex in both cases. *)
Theorem C30_base64_decode_encode : forall url trail b, Bytes b ->
  b64dec_gen (b64_val url) true trail (b64enc_gen (b64_sym url) true b) = Some b.
Proof. exact b64_roundtrip. Qed.
Theorem C30_hex_decode_encode : forall up b, Bytes b -> hexdec (hexenc up b) = Some b.
Proof. exact hex_roundtrip. Qed.

(* PBKDF2 yields exactly the requested number of bytes (so comparing with a stored key of that
   length is a comparison of the whole derived key). *)
Theorem C30_pbkdf2_length : forall pw salt c dklen, length (pbkdf2_sha256 pw salt c dklen) = dklen.
Proof. exact pbkdf2_sha256_length. Qed.

(* pcheck means what it should: on a generated case, the recorded answer for every candidate is
   Ok(the independent verdict), the parameters are in the format's domain and the stored value
   is what the Gallina generator prints. *)
Theorem C30_pcheck_sound : forall c g pw0,
  cgen c = Some (g, pw0) -> pcheck c = true ->
  wf g = true /\
  exists d0, digest (oracle_of (coracle c)) g pw0 = Some d0 /\ cstored c = print_stored g d0 /\
    forall pw o, In (pw, o) (catt c) -> o = OVer (VOk (indep_accepts (oracle_of (coracle c)) g pw0 pw)).
Proof. exact pcheck_sound. Qed.

(* Bridge (`_partial`: proved formats only): if the implementation agreed with the model on a
   well-generated case of a proved format whose candidates are all at most 512 bytes, the property
   holds on the implementation's recorded answers. *)
Theorem C30_agree_implies_property_partial : forall c,
  oracle_len (oracle_of (coracle c)) ->
  case_proved c = true -> well_generated c = true -> all_short c = true ->
  (cgen c = None -> no_panic_recorded c = true) ->
  agree c = true -> pcheck c = true.
Proof. exact agree_implies_pcheck. Qed.
