(* KV.C30.Witness — vectors from INDEPENDENT implementations (RFCs, glibc/libxcrypt crypt(3) via
   perl, Python hashlib, kanidm's own unit tests), non-vacuity and refutation witnesses. *)
From Coq Require Import String List Arith NArith Bool.
Import ListNotations.
Require Import KV.C29.Hash KV.C30.Prim KV.C30.Model KV.C30.Proofs.
Open Scope N_scope.

Definition na : argon_oracle := fun _ _ _ _ _ _ _ => None.
Definition ok (s pw : string) : outcome := model_outcome na (SStr (str s)) (str pw).

(* RFC 1321 / RFC 1320 test suites, the NT hash of "password" *)
Example C30_witness_md5_md4_vectors :
  md5 (str "") = hex "d41d8cd98f00b204e9800998ecf8427e" /\
  md5 (str "message digest") = hex "f96b697d7cb7938d525a2f31aaf161d0" /\
  md5 (str "12345678901234567890123456789012345678901234567890123456789012345678901234567890")
    = hex "57edf4a22be3c955ac49da2e2107b67a" /\
  md4 (str "") = hex "31d6cfe0d16ae931b73c59d7e0c089c0" /\
  md4 (str "message digest") = hex "d9130a8164549fe818874806e1c7014b" /\
  md4 (str "12345678901234567890123456789012345678901234567890123456789012345678901234567890")
    = hex "e33b4ddc9c38f2199c3e7b164fcc0536" /\
  md4 (utf16le (str "password")) = hex "8846f7eaee8fb117ad06bdd830b7586c".
Proof. vm_compute. repeat split; reflexivity. Qed.

(* RFC 6070 (c = 1, 2), RFC 7914 section 11 style SHA-256 value, Python hashlib values *)
Example C30_witness_pbkdf2_vectors :
  pbkdf2_sha1 (str "password") (str "salt") 1 20 = hex "0c60c80f961f0e71f3a9b524af6012062fe037a6" /\
  pbkdf2_sha1 (str "password") (str "salt") 2 20 = hex "ea6c014dc72d6f8ccd1ed92ace1d41f0d8de8957" /\
  pbkdf2_sha256 (str "password") (str "salt") 2 32
    = hex "ae4d0c95af6b46d32d0adff928f06dd02a303f8ef3c251dfd6e2d85a95474c43" /\
  pbkdf2_sha1 (str "pw") (hex "000102030405060708090a0b0c0d0e0f") 2 20
    = hex "820d79bc16855a91640cc65c4086dda62eaa465e" /\
  pbkdf2_sha512 (hex "d0bfd0b0d180d0bed0bbd18c") [] 1 64
    = hex "0afa6e05b53320a67f071830563fcb045643be660292ec99c689d458b5f631c993b3822ed426ce4c30044e5c62c37156f1e65003fbaacd52d8bbde3b2e897fe1".
Proof. vm_compute. repeat split; reflexivity. Qed.

(* the generators reproduce hashes written by other implementations: kanidm's unit-test vectors
   ({SHA}, {SSHA}, {SSHA256} from 389-ds, ipaNTHash, sambaNTPassword), a Django-format value
   from Python hashlib, glibc md5-crypt *)
Example C30_witness_generators_match_foreign_hashes :
  gen_stored na (GSha 1 true) (str "password") = Some (SStr (str "{SHA}W6ph5Mm5Pz8GgiULbPgzG37mj9g=")) /\
  gen_stored na (GSsha 1 true (hex "ba4c24c9b6754e09")) (str "password")
    = Some (SStr (str "{SSHA}EyzbBiP4u4zxOrLpKTORI/RX3HC6TCTJtnVOCQ==")) /\
  gen_stored na (GSsha 256 false (hex "f93b272e1c557f19")) (str "password")
    = Some (SStr (str "{ssha256}luYWfFJOZgxySTsJXHgIaCYww4yMpu6yest69j/wO5n5OycuHFV/GQ==")) /\
  gen_stored na GNtIpa (str "password") = Some (SStr (str "ipaNTHash: iEb36u6PsRetBr3YMLdYbA")) /\
  gen_stored na (GNtSamba true) (str "password")
    = Some (SStr (str "sambaNTPassword: 8846F7EAEE8FB117AD06BDD830B7586C")) /\
  gen_stored na (GDjango 3 (str "NaCl")) (str "pw")
    = Some (SStr (str "pbkdf2_sha256$3$NaCl$PYTJl79YdukHK5UBeH5J1J+x0YL+7KnQyPqbJDL53wI=")) /\
  gen_stored na (GCryptMd5 (str "zaRIAsoe")) (str "password")
    = Some (SStr (str "{crypt}$1$zaRIAsoe$7887GzjDTrst0XbDPpF5m.")) /\
  gen_stored na (GCryptMd5 (str "ab")) (hex "c3a931") = Some (SStr (str "{crypt}$1$ab$x4LZSWOyKHcX38STs.dY5.")).
Proof. vm_compute. repeat split; reflexivity. Qed.

(* glibc/libxcrypt sha256-crypt and sha512-crypt outputs (perl crypt()), 1000 rounds: generated
   identically, accepted for the right cleartext, refused for a near miss *)
Example C30_witness_sha_crypt_glibc :
  gen_stored na (GCryptSha false (Some 1000) (str "saltsalt")) (str "pw")
    = Some (SStr (str "{crypt}$5$rounds=1000$saltsalt$eNI.02a9Kos9UxzxjTLpNZ6kYHkRe9Z8OsGkDDoW/X2")) /\
  ok "{crypt}$5$rounds=1000$saltsalt$eNI.02a9Kos9UxzxjTLpNZ6kYHkRe9Z8OsGkDDoW/X2" "pw" = OVer (VOk true) /\
  ok "{crypt}$5$rounds=1000$saltsalt$eNI.02a9Kos9UxzxjTLpNZ6kYHkRe9Z8OsGkDDoW/X2" "pW" = OVer (VOk false) /\
  ok "{crypt}$6$rounds=1000$0123456789abcdef$LwYrp0dytePz8s1UdnvoGm/ASyRvsneLplUOwyM2Hos8x11ngA8sin6ZsL9eQ9SuA7LShVD3nk.mWd7sFTWHT." "abc"
    = OVer (VOk true).
Proof. vm_compute. repeat split; reflexivity. Qed.

(* non-vacuity of C30_accepts_iff_independent_partial / C30_agree_implies_property_partial:
   parameters in the domain, a proved format, a short candidate, and both verdicts occur *)
Example C30_witness_partial_hypotheses :
  let g := GSsha 256 true (hex "0102030405060708") in
  wf g = true /\ proved_fmt g = true /\
  (exists d0, digest na g (str "pässwörd") = Some d0) /\
  indep_accepts na g (str "pässwörd") (str "pässwörd") = true /\
  indep_accepts na g (str "pässwörd") (str "passwörd") = false /\
  wf (GCryptMd5 (str "zaRIAsoe")) = true /\ proved_fmt (GCryptMd5 (str "zaRIAsoe")) = true.
Proof. vm_compute. repeat split; try reflexivity. eexists; reflexivity. Qed.

(* C30_refuted's witness: the 513-byte cleartext is refused by the model of kanidm and accepted by
   the independent verdict; at exactly 512 bytes both accept *)
Example C30_witness_refuted :
  model_outcome no_argon (print_stored (GSha 1 true) (sha_of 1 long_pw)) long_pw = OVer (VOk false) /\
  indep_accepts no_argon (GSha 1 true) long_pw long_pw = true /\
  model_outcome no_argon (print_stored (GSha 1 true) (sha_of 1 (repeat 97 512))) (repeat 97 512)
    = OVer (VOk true).
Proof. vm_compute. repeat split; reflexivity. Qed.

(* C30_long_cleartext_rejected / C30_verify_full_equality hypotheses are met *)
Example C30_witness_verify_hypotheses :
  PW_MAX_LENGTH_CHECK < blen long_pw /\
  verify na (KSsha1 (hex "ba4c24c9b6754e09") (hex "132cdb0623f8bb8cf13ab2e9293391")) (str "password") = VOk false /\
  verify na (KSha1 (sha1 (str "password"))) (str "password") = VOk true /\
  is_sha_crypt (KSha1 (sha1 (str "password"))) = false.
Proof. vm_compute. repeat split; reflexivity. Qed.

(* after /repo a666989 a {crypt}$5$ string with an undecodable / non-canonical / over-long hash
   field is answered Ok(false) (before: PANIC, see C30_prefix_sha256_crypt_panics); non-vacuity of
   C30_fix_same_on_canonical: a glibc hash has a canonical field *)
Example C30_witness_sha256_crypt_no_panic :
  ok "{crypt}$5$rounds=1000$saltsalt$***" "password" = OVer (VOk false) /\
  ok "{crypt}$5$saltsalt$aaaaaaaaaaaaaaaaaaaaaaaaaaaaaaaaaaaaaaaaaaz" "password" = OVer (VOk false) /\
  ok "{crypt}$6$rounds=1000$saltsalt$***" "password" = OVer (VOk false) /\
  sha_check_gen false false (str "password") (str "$5$saltsalt$aaaaaaaaaaaaaaaaaaaaaaaaaaaaaaaaaaaaaaaaaaz") = VPanic /\
  sha256_field_ok (str "$5$rounds=1000$saltsalt$eNI.02a9Kos9UxzxjTLpNZ6kYHkRe9Z8OsGkDDoW/X2") = true /\
  sha256_field_ok (str "$5$rounds=1000$saltsalt$***") = false.
Proof. vm_compute. repeat split; reflexivity. Qed.

(* Leniency outside the property's domain (no independent implementation writes such strings):
   kanidm hashes md5-crypt with the WHOLE salt field, glibc with its first 8 characters, so the
   string below (9-character salt) is accepted by kanidm although crypt(3) would print
   $1$12345678$7y7mHQRucjgVYVF1mZqKC1 for it *)
Example C30_witness_md5_crypt_overlong_salt :
  let h := md5crypt (str "x") (str "123456789") in
  model_outcome na (SStr (str "{crypt}$1$123456789$" ++ h)) (str "x") = OVer (VOk true) /\
  beqb h (str "7y7mHQRucjgVYVF1mZqKC1") = false /\
  md5crypt (str "x") (str "12345678") = str "7y7mHQRucjgVYVF1mZqKC1" /\
  wf (GCryptMd5 (str "123456789")) = false.
Proof. vm_compute. repeat split; reflexivity. Qed.
