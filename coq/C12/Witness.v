(* KV.C12.Witness — non-vacuity: concrete non-trivial values meet the hypotheses of the
   implication theorems, and the refutation witnesses. *)
From Coq Require Import List NArith Bool.
Import ListNotations.
Require Import KV.C12.Model KV.C12.Proofs.
Open Scope N_scope.

(* C12_password_roundtrip_partial / C12_verify_stable_partial: an SSHA512 and an ARGON2ID password *)
Example C12_witness_password :
  let k1 := K_SSHA512 [1; 2; 3] [200; 201; 202; 203] in
  let k2 := K_ARGON2ID 65536 2 1 19 [9; 9] [7; 7; 7] in
  ktag k1 <> TAG_CRYPT_SHA512 /\ ktag k2 <> TAG_CRYPT_SHA512 /\
  reload k1 = Some k1 /\ reload k2 = Some k2.
Proof. vm_compute. repeat split; discriminate. Qed.

(* the refutation witness: "$6$" comes back under the CRYPT_SHA256 constructor and, with
   primitives that tell the two crypt flavours apart, verifies differently *)
Example C12_witness_refuted_password :
  reload (K_CRYPT_SHA512 [36; 54; 36; 97]) = Some (K_CRYPT_SHA256 [36; 54; 36; 97]) /\
  verify toy_oracle (K_CRYPT_SHA512 [36; 54; 36; 97]) [112; 119] = Some true /\
  verify toy_oracle (K_CRYPT_SHA256 [36; 54; 36; 97]) [112; 119] = Some false.
Proof. vm_compute. repeat split. Qed.

(* C12_load_store_partial *)
Example C12_witness_load_store :
  dtag (D_PBKDF2_SHA1 10000 [1] [2; 3]) <> TAG_CRYPT_SHA512 /\
  option_map db_of_kdf (kdf_of_db (D_CRYPT_SHA512 [36])) = Some (D_CRYPT_SHA256 [36]).
Proof. vm_compute. split; [discriminate | reflexivity]. Qed.

(* C12_valueset_dispatch_partial and its refutation witness *)
Example C12_witness_valueset :
  VK_Credential <> VK_JwsKeyRs256 /\ VK_Credential <> VK_Other /\
  vs_reload VK_Credential = Some VK_Credential /\ vs_reload VK_Session = Some VK_Session /\
  vs_reload VK_JwsKeyRs256 = None /\ vs_reload_with dispatch_fixed VK_JwsKeyRs256 = Some VK_JwsKeyRs256.
Proof. vm_compute. repeat split; discriminate. Qed.

(* C12_db_entry_roundtrip: uuid + a credential + an emptied attribute *)
Definition w_attrs : list aval :=
  [ mkaval 0 10 VK_Uuid [] false (Some 10) true;
    mkaval 3 11 VK_Credential [1] false (Some 11) false;
    mkaval 5 12 VK_Utf8 [] true (Some 12) false;
    mkaval 8 13 VK_Session [] false (Some 13) false ].
Definition w_changes : list (N * cid) := [(0, (5, 1)); (3, (9, 2)); (5, (9, 2)); (7, (2, 1)); (8, (12, 1))].
Lemma w_values_ok : values_ok w_attrs.
Proof.
  intros a Ha He. unfold w_attrs in Ha. cbn [In] in Ha.
  destruct Ha as [<-|[<-|[<-|[<-|[]]]]]; try reflexivity; discriminate He.
Qed.
Example C12_witness_db :
  values_ok w_attrs /\ has_uuid w_attrs = true /\
  db_trip (Live (5, 1) w_changes) w_attrs = EOut (Live (5, 1) w_changes) [(0, 10); (3, 11); (8, 13)] /\
  (* an emptied Json valueset is still stored (DbValueSetV2::len counts it as 1) *)
  db_trip (Tomb (1, 1)) [mkaval 0 10 VK_Uuid [] false (Some 10) true; mkaval 4 30 VK_Json [] true (Some 30) false]
    = EOut (Tomb (1, 1)) [(0, 10); (4, 30)].
Proof. split; [exact w_values_ok|]. vm_compute. repeat split. Qed.

(* C12_refresh_roundtrip / C12_incremental_roundtrip: attribute 8 is not replicated, 7 was purged,
   5 is empty; the window of server 1 is (4, 12], server 2 is not requested *)
Example C12_witness_replication :
  strictly_sorted (map fst w_changes) = true /\
  refresh_trip [0; 3; 5; 7] [] (Live (5, 1) w_changes) w_attrs =
    EOut (Live (5, 1) [(0, (5, 1)); (3, (9, 2)); (5, (9, 2)); (7, (2, 1))]) [(0, 10); (3, 11)] /\
  incr_trip [0; 3; 5; 7; 8] [(1, (4, 12))] (Live (5, 1) w_changes) w_attrs =
    EOut (Live (5, 1) [(0, (5, 1)); (8, (12, 1))]) [(0, 10); (8, 13)].
Proof. vm_compute. repeat split. Qed.

(* the error branches are reachable: a value that does not load, a missing uuid *)
Example C12_witness_errors :
  db_trip (Tomb (1, 1)) [mkaval 0 10 VK_Uuid [] false (Some 10) true; mkaval 4 20 VK_JwsKeyRs256 [] false None false] = EErr /\
  db_trip (Tomb (1, 1)) [mkaval 4 21 VK_Utf8 [] false (Some 21) false] = EErr /\
  refresh_trip [4] [] (Live (1, 1) [(4, (2, 1))]) [mkaval 4 20 VK_JwsKeyRs256 [] false None false] = EErr.
Proof. vm_compute. repeat split. Qed.

(* agree / pcheck / known on hand-written cases of each kind *)
Example C12_witness_cases :
  agree (CPw 14 (D_CRYPT_SHA512 [36]) 13 (D_CRYPT_SHA256 [36]) false [1] [0]) = true /\
  pcheck (CPw 14 (D_CRYPT_SHA512 [36]) 13 (D_CRYPT_SHA256 [36]) false [1] [0]) = false /\
  known (CPw 14 (D_CRYPT_SHA512 [36]) 13 (D_CRYPT_SHA256 [36]) false [1] [0]) = true /\
  agree (CVs VK_JwsKeyRs256 [] T_JR None false false false) = true /\
  known (CVs VK_JwsKeyRs256 [] T_JR None false false false) = true /\
  agree (CVs VK_Credential [14] T_CR (Some VK_Credential) false false false) = true /\
  pcheck (CVs VK_Credential [2] T_CR (Some VK_Credential) true true true) = true /\
  known (CVs VK_Credential [2] T_CR (Some VK_Credential) true true true) = false.
Proof. vm_compute. repeat split. Qed.
