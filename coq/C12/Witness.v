(* KV.C12.Witness — non-vacuity: concrete non-trivial values meet the hypotheses of the
   implication theorems, and the refutation witnesses. *)
From Coq Require Import List NArith Bool.
Import ListNotations.
Require Import KV.C12.Model KV.C12.Proofs.
Open Scope N_scope.

(* passwords of several KDFs, including CRYPT_SHA512, read back as themselves *)
Example C12_witness_password :
  let k1 := K_SSHA512 [1; 2; 3] [200; 201; 202; 203] in
  let k2 := K_ARGON2ID 65536 2 1 19 [9; 9] [7; 7; 7] in
  let k3 := K_CRYPT_SHA512 [36; 54; 36; 97] in
  reload k1 = Some k1 /\ reload k2 = Some k2 /\ reload k3 = Some k3 /\
  verify toy_oracle k3 [112; 119] = Some true.
Proof. vm_compute. repeat split. Qed.

(* the pre-fix witness: "$6$" came back under the CRYPT_SHA256 constructor and, with primitives
   that tell the two crypt flavours apart, verified differently *)
Example C12_witness_prefix_password :
  reload_prefix (K_CRYPT_SHA512 [36; 54; 36; 97]) = Some (K_CRYPT_SHA256 [36; 54; 36; 97]) /\
  verify toy_oracle (K_CRYPT_SHA512 [36; 54; 36; 97]) [112; 119] = Some true /\
  verify toy_oracle (K_CRYPT_SHA256 [36; 54; 36; 97]) [112; 119] = Some false /\
  N.of_nat (length [112; 119]) <= PW_MAX_LENGTH_CHECK.
Proof. vm_compute. repeat split; discriminate. Qed.

Example C12_witness_load_store :
  option_map db_of_kdf (kdf_of_db (D_CRYPT_SHA512 [36])) = Some (D_CRYPT_SHA512 [36]) /\
  option_map db_of_kdf (kdf_of_db_prefix (D_CRYPT_SHA512 [36])) = Some (D_CRYPT_SHA256 [36]).
Proof. vm_compute. split; reflexivity. Qed.

Example C12_witness_valueset :
  VK_Credential <> VK_Other /\
  vs_reload VK_Credential = Some VK_Credential /\ vs_reload VK_Session = Some VK_Session /\
  vs_reload VK_JwsKeyRs256 = Some VK_JwsKeyRs256 /\
  vs_reload_with dispatch_prefix VK_JwsKeyRs256 = None.
Proof. vm_compute. repeat split; discriminate. Qed.

(* message expiry: a whole-second time meets the hypothesis of C12_message_roundtrip_partial; a
   time with a sub-second part is the refutation witness (moves earlier by 0.21 s) *)
Example C12_witness_message :
  7283001201000000000 mod NS = 0 /\ msg_time_reload 7283001201000000000 = 7283001201000000000 /\
  msg_time_reload 7283001201210000000 = 7283001201000000000 /\
  known (CMsg 7283001201210000000 7283001201000000000) = true /\
  agree (CMsg 7283001201210000000 7283001201000000000) = true /\
  pcheck (CMsg 7283001201210000000 7283001201000000000) = false.
Proof. vm_compute. repeat split. Qed.

(* C12_db_entry_roundtrip: uuid + a credential + an emptied attribute *)
Definition w_attrs : list aval :=
  [ mkaval 0 10 VK_Uuid [] false (Some 10) true;
    mkaval 3 11 VK_Credential [1] false (Some 11) false;
    mkaval 5 12 VK_Utf8 [] true (Some 12) false;
    mkaval 8 13 VK_Session [] false (Some 13) false ].
Definition w_changes : list (N * cid) := [(0, (5, 1)); (3, (9, 2)); (5, (9, 2)); (7, (2, 1)); (8, (12, 1))].
Lemma w_values_ok : values_ok w_attrs.
Proof.
  intros a Ha He. unfold w_attrs in Ha. cbn [In] in Ha.
  destruct Ha as [<-|[<-|[<-|[<-|[]]]]]; try reflexivity; discriminate He.
Qed.
Example C12_witness_db :
  values_ok w_attrs /\ has_uuid w_attrs = true /\
  db_trip (Live (5, 1) w_changes) w_attrs = EOut (Live (5, 1) w_changes) [(0, 10); (3, 11); (8, 13)] /\
  (* an emptied Json valueset is still stored (DbValueSetV2::len counts it as 1) *)
  db_trip (Tomb (1, 1)) [mkaval 0 10 VK_Uuid [] false (Some 10) true; mkaval 4 30 VK_Json [] true (Some 30) false]
    = EOut (Tomb (1, 1)) [(0, 10); (4, 30)].
Proof. split; [exact w_values_ok|]. vm_compute. repeat split. Qed.

(* C12_refresh_roundtrip / C12_incremental_roundtrip: attribute 8 is not replicated, 7 was purged,
   5 is empty; the window of server 1 is (4, 12], server 2 is not requested *)
Example C12_witness_replication :
  strictly_sorted (map fst w_changes) = true /\
  refresh_trip [0; 3; 5; 7] [] (Live (5, 1) w_changes) w_attrs =
    EOut (Live (5, 1) [(0, (5, 1)); (3, (9, 2)); (5, (9, 2)); (7, (2, 1))]) [(0, 10); (3, 11)] /\
  incr_trip [0; 3; 5; 7; 8] [(1, (4, 12))] (Live (5, 1) w_changes) w_attrs =
    EOut (Live (5, 1) [(0, (5, 1)); (8, (12, 1))]) [(0, 10); (8, 13)].
Proof. vm_compute. repeat split. Qed.

(* the error branches are reachable: a value that does not load, a missing uuid *)
Example C12_witness_errors :
  db_trip (Tomb (1, 1)) [mkaval 0 10 VK_Uuid [] false (Some 10) true; mkaval 4 20 VK_Image [] false None false] = EErr /\
  db_trip (Tomb (1, 1)) [mkaval 4 21 VK_Utf8 [] false (Some 21) false] = EErr /\
  refresh_trip [4] [] (Live (1, 1) [(4, (2, 1))]) [mkaval 4 20 VK_Image [] false None false] = EErr.
Proof. vm_compute. repeat split. Qed.

(* agree / pcheck / known on hand-written cases: a regression of either repaired defect is a
   disagreement AND an unexcused property failure *)
Example C12_witness_cases :
  agree (CPw 14 (D_CRYPT_SHA512 [36]) 13 (D_CRYPT_SHA256 [36]) false [1] [0]) = false /\
  pcheck (CPw 14 (D_CRYPT_SHA512 [36]) 13 (D_CRYPT_SHA256 [36]) false [1] [0]) = false /\
  known (CPw 14 (D_CRYPT_SHA512 [36]) 13 (D_CRYPT_SHA256 [36]) false [1] [0]) = false /\
  agree (CPw 14 (D_CRYPT_SHA512 [36]) 14 (D_CRYPT_SHA512 [36]) true [1] [1]) = true /\
  pcheck (CPw 14 (D_CRYPT_SHA512 [36]) 14 (D_CRYPT_SHA512 [36]) true [1] [1]) = true /\
  pcheck (CVs VK_JwsKeyRs256 [] T_JR None false false false) = false /\
  known (CVs VK_JwsKeyRs256 [] T_JR None false false false) = false /\
  agree (CVs VK_JwsKeyRs256 [] T_JR (Some VK_JwsKeyRs256) true true true) = true /\
  pcheck (CVs VK_Credential [14] T_CR (Some VK_Credential) true true true) = true /\
  known (CVs VK_Message [100] T_MS (Some VK_Message) false true true) = true /\
  agree (CVs VK_Message [100] T_MS (Some VK_Message) false true true) = true /\
  known (CVs VK_Message [] T_MS (Some VK_Message) false true true) = false.
Proof. vm_compute. repeat split. Qed.
