(* KV.C12.Props — property theorems only.
   C12: every stored / replicated value and entry reads back as an equivalent value with
   identical behaviour; a password verifies the same cleartexts after reload as before. *)
From Coq Require Import List NArith Bool.
Import ListNotations.
Require Import KV.C12.Model KV.C12.Proofs.
Open Scope N_scope.

(* ================================================================== FULL STATEMENT *)

(* The full sentence on the model of the current (repaired, /repo ef762e7) code: every password of
   every KDF, with any parameters / salt / hash, reads back as itself and verifies identically;
   every valueset type reads back as its own type. No class is excluded. *)
Definition C12_full_statement : Prop :=
  (forall k, reload k = Some k) /\
  (forall o k pw k', reload k = Some k' -> verify o k' pw = verify o k pw) /\
  (forall k, k <> VK_Other -> vs_reload k = Some k).
Theorem C12_full_statement_holds : C12_full_statement.
Proof. split; [exact reload_ok | split; [exact verify_stable | exact vs_reload_ok]]. Qed.

(* ================================================================== passwords (Part A) *)

(* every password reads back as exactly the same password *)
Theorem C12_password_roundtrip : forall k, reload k = Some k.
Proof. exact reload_ok. Qed.

(* ... and verifies exactly the same cleartexts (same Ok/Err, same answer), whatever the hash
   primitives compute *)
Theorem C12_verify_stable : forall o k pw k',
  reload k = Some k' -> verify o k' pw = verify o k pw.
Proof. exact verify_stable. Qed.

(* the stored form is reproduced by load-then-store (a backup taken after a restore is equal) *)
Theorem C12_load_store : forall d, option_map db_of_kdf (kdf_of_db d) = Some d.
Proof. intros d. destruct (load_store d) as [k [E [E1 _]]]. rewrite E. cbn. rewrite E1. reflexivity. Qed.

(* storing is injective: two different passwords never share a stored form *)
Theorem C12_store_injective : forall a b, db_of_kdf a = db_of_kdf b -> a = b.
Proof. exact db_of_kdf_inj. Qed.

(* THE REPAIRED DEFECT (a), documented on the pre-fix transcription kdf_of_db_prefix
   (libs/crypto lib.rs:487 was `CRYPT_SHA512 {h} => Kdf::CRYPT_SHA256 {h}`; witness confirmed on
   the pre-fix code: import `{crypt}$6$aXn8azL8DXUyuMvj$9aJJ...` verified "password" before the
   round trip and not after): the statement was false, exactly for CRYPT_SHA512, where the
   reloaded password was checked by the SHA256-crypt routine. *)
Theorem C12_prefix_refuted_password : ~ (forall k, reload_prefix k = Some k).
Proof. exact prefix_pw_refuted. Qed.
Theorem C12_prefix_refuted_behaviour :
  ~ (forall o k pw k', reload_prefix k = Some k' -> verify o k' pw = verify o k pw).
Proof. exact prefix_verify_refuted. Qed.
Theorem C12_prefix_defect_exact : forall o h pw,
  N.of_nat (length pw) <= PW_MAX_LENGTH_CHECK ->
  reload_prefix (K_CRYPT_SHA512 h) = Some (K_CRYPT_SHA256 h) /\
  option_map (fun k' => verify o k' pw) (reload_prefix (K_CRYPT_SHA512 h)) = Some (Some (o_sha256_check o h pw)) /\
  verify o (K_CRYPT_SHA512 h) pw = Some (o_sha512_check o h pw) /\
  (forall k, ktag k <> TAG_CRYPT_SHA512 -> reload_prefix k = Some k).
Proof.
  intros o h pw Hl. destruct (prefix_verify_sha512 o h pw Hl) as [H1 H2].
  split; [reflexivity | split; [exact H1 | split; [exact H2 | exact prefix_reload_other]]].
Qed.

(* ================================================================== valueset types (Part B) *)

(* every valueset type writes a variant that the loader hands back to the same type *)
Theorem C12_valueset_dispatch : forall k, k <> VK_Other -> vs_reload k = Some k.
Proof. exact vs_reload_ok. Qed.

(* a load never turns a valueset into one of another type: it is the same type or an error *)
Theorem C12_valueset_never_other_type : forall k k', vs_reload k = Some k' -> k' = k.
Proof. exact vs_reload_only_self. Qed.

(* no two types share a stored variant; every variant goes to the type that writes it; the only
   refused variants are the three retired ones *)
Theorem C12_tags_distinct : forall a b, tag_of a = tag_of b -> a = b.
Proof. exact tag_of_inj. Qed.
Theorem C12_dispatch_sound : forall t k, dispatch t = Some k -> t = tag_of k.
Proof. exact dispatch_sound. Qed.
Theorem C12_dispatch_refused : forall t,
  dispatch t = None <-> (t = T_PN \/ t = T_TE \/ t = T_EK \/ t = T_Other).
Proof. exact dispatch_refused. Qed.

(* THE REPAIRED DEFECT (b), documented on the pre-fix transcription dispatch_prefix
   (valueset/mod.rs:1049 was `JwsKeyRs256(set) => ValueSetJwsKeyEs256::from_dbvs2(&set)`; witness
   confirmed on the pre-fix code: every JwsKeyRs256 valueset failed to load with
   InvalidValueState and from_dbentry returned None for an entry holding one). *)
Theorem C12_prefix_refuted_valueset :
  ~ (forall k, k <> VK_Other -> vs_reload_with dispatch_prefix k = Some k).
Proof. exact prefix_vs_refuted. Qed.
Theorem C12_prefix_valueset_defect_exact :
  vs_reload_with dispatch_prefix VK_JwsKeyRs256 = None /\
  (forall k, k <> VK_JwsKeyRs256 -> k <> VK_Other -> vs_reload_with dispatch_prefix k = Some k).
Proof. split; [reflexivity | exact prefix_vs_other]. Qed.

(* ================================================================== message expiry (Part D) *)
(* KNOWN FINDING class=message-subsecond-expiry. A queued CredentialResetV1 message stores its
   expiry in whole seconds. Full sentence for this encoding: *)
Definition C12_message_full_statement : Prop := forall t, msg_time_reload t = t.
Theorem C12_message_refuted : ~ C12_message_full_statement.
Proof. exact msg_refuted. Qed.
(* PROVED PART: exact iff the expiry has no sub-second part (KnownClass = the others) *)
Theorem C12_message_roundtrip_partial : forall t, t mod NS = 0 -> msg_time_reload t = t.
Proof. intros t H. apply msg_reload_exact. exact H. Qed.
Theorem C12_message_loss_iff : forall t, msg_time_reload t = t <-> t mod NS = 0.
Proof. exact msg_reload_exact. Qed.
(* inside the class the expiry only moves earlier, by less than one second, and the reloaded
   message stores to the same bytes again *)
Theorem C12_message_loss_bounded : forall t, msg_time_reload t <= t /\ t < msg_time_reload t + NS.
Proof. exact msg_reload_le. Qed.
Theorem C12_message_store_stable : forall t, msg_time_store (msg_time_reload t) = msg_time_store t.
Proof. exact msg_store_idem. Qed.

(* ================================================================== entries (Part C) *)
(* For entries of ANY number of attributes and change records. `values_ok attrs` = every
   non-empty value of the entry reads back as itself (Parts A/B and the per-value runs). *)

(* Database / backup: an entry with exactly one uuid comes back with the same change state and
   exactly its stored attributes, each with an equal value. *)
Theorem C12_db_entry_roundtrip : forall st attrs,
  values_ok attrs -> has_uuid attrs = true ->
  db_trip st attrs = EOut st (ids (stored attrs)).
Proof. exact db_trip_ok. Qed.

(* ... an entry is refused only if one of its values fails to load or it has no single uuid, and
   in every case the outcome is the one the sentence asks for. *)
Theorem C12_db_entry_errors : forall st attrs, db_trip st attrs = EErr ->
  (exists a, In a attrs /\ db_empty a = false /\ a_back a = None) \/ has_uuid attrs = false.
Proof. exact db_trip_err. Qed.
Theorem C12_db_entry_meets_spec : forall st attrs,
  values_ok attrs -> db_spec st attrs (db_trip st attrs) = true.
Proof. exact db_spec_ok. Qed.

(* A whole database / backup (any list of entries) is restored entry by entry. *)
Theorem C12_backup_roundtrip : forall (db : list (estate * list aval)),
  (forall e, In e db -> values_ok (snd e) /\ has_uuid (snd e) = true) ->
  map (fun e => db_trip (fst e) (snd e)) db = map (fun e => EOut (fst e) (ids (stored (snd e)))) db.
Proof.
  intros db H. apply map_ext_in. intros e He. destruct (H e He) as [Hv Hu].
  exact (db_trip_ok (fst e) (snd e) Hv Hu).
Qed.

(* Refresh replication: the receiver gets the creation cid, exactly the change records of
   replicated attributes, and for each of them the sender's current non-empty value, equal. *)
Theorem C12_refresh_roundtrip : forall repl tomb a changes attrs,
  values_ok attrs -> strictly_sorted (map fst changes) = true ->
  refresh_trip repl tomb (Live a changes) attrs =
    EOut (Live a (filter (sel_refresh repl) changes)) (ids (sent_all attrs (filter (sel_refresh repl) changes))) /\
  repl_spec (sel_refresh repl) tomb (Live a changes) attrs (refresh_trip repl tomb (Live a changes) attrs) = true.
Proof.
  intros repl tomb a changes attrs Hv Hs. rewrite refresh_is_live_trip, (live_trip_ok _ a changes attrs Hv).
  split; [reflexivity | apply live_spec_ok; exact Hs].
Qed.

(* Incremental replication: the same for the change records inside the requested window
   (ts_min < ts <= ts_max of the record's server). *)
Theorem C12_incremental_roundtrip : forall repl ranges a changes attrs,
  values_ok attrs -> strictly_sorted (map fst changes) = true ->
  incr_trip repl ranges (Live a changes) attrs =
    EOut (Live a (filter (sel_incr repl ranges) changes))
         (ids (sent_all attrs (filter (sel_incr repl ranges) changes))) /\
  repl_spec (sel_incr repl ranges) [] (Live a changes) attrs (incr_trip repl ranges (Live a changes) attrs) = true.
Proof.
  intros repl ranges a changes attrs Hv Hs. rewrite incr_is_live_trip, (live_trip_ok _ a changes attrs Hv).
  split; [reflexivity | apply live_spec_ok; exact Hs].
Qed.

(* Replication of a live entry fails only if a value that has to be sent fails to load. *)
Theorem C12_replication_errors : forall repl tomb ranges a changes attrs,
  (refresh_trip repl tomb (Live a changes) attrs = EErr \/ incr_trip repl ranges (Live a changes) attrs = EErr) ->
  exists c x, In c changes /\ find_attr (fst c) attrs = Some x /\ a_empty x = false /\ a_back x = None.
Proof.
  intros repl tomb ranges a changes attrs [H|H].
  - rewrite refresh_is_live_trip in H. apply live_trip_err in H as [c [x [Hc [_ [Hf [He Hn]]]]]].
    exists c, x. repeat split; assumption.
  - rewrite incr_is_live_trip in H. apply live_trip_err in H as [c [x [Hc [_ [Hf [He Hn]]]]]].
    exists c, x. repeat split; assumption.
Qed.

(* Tombstones: the deletion cid is preserved in both encodings (refresh re-creates the three
   tombstone attributes, incremental sends none). *)
Theorem C12_tombstone_roundtrip : forall repl tomb ranges a attrs,
  refresh_trip repl tomb (Tomb a) attrs = EOut (Tomb a) tomb /\
  incr_trip repl ranges (Tomb a) attrs = EOut (Tomb a) [].
Proof. intros. split; reflexivity. Qed.

(* ================================================================== bridge to the implementation *)
(* If the real code agreed with the model on a recorded case (a run reports zero
   disagreements), the property holds of the real code's own output on that case. *)

(* passwords: all of the sentence except the recorded verify vectors (which are compared
   directly by pcheck) follows *)
Theorem C12_agree_implies_property_password : forall kt d kt2 d2 eq vb va,
  agree (CPw kt d kt2 d2 eq vb va) = true -> pcheck_pw_struct kt d kt2 d2 eq = true.
Proof. exact bridge_pw. Qed.
Theorem C12_agree_implies_property_load : forall d kt2 d2,
  agree (CLoad d kt2 d2) = true -> pcheck (CLoad d kt2 d2) = true.
Proof. exact bridge_load. Qed.
Theorem C12_agree_implies_property_message : forall t t2,
  agree (CMsg t t2) = true -> known (CMsg t t2) = false -> pcheck (CMsg t t2) = true.
Proof. exact bridge_msg. Qed.
(* valuesets: same type, equal, and stores to the same bytes *)
Theorem C12_agree_implies_property_valueset_partial : forall k pw tag res same restore obs,
  agree (CVs k pw tag res same restore obs) = true -> k <> VK_Other ->
  known (CVs k pw tag res same restore obs) = false ->
  res = Some k /\ same = true /\ restore = true.
Proof. intros k pw tag res same restore obs H Ho Hk. exact (bridge_vs k pw tag res same restore obs H Ho Hk). Qed.
(* entries *)
Theorem C12_agree_implies_property_db : forall st attrs out,
  agree (CDb st attrs out) = true -> values_ok attrs -> pcheck (CDb st attrs out) = true.
Proof.
  intros st attrs out H Hv. cbn [agree] in H. apply eout_eqb_eq in H. subst out.
  cbn [pcheck]. exact (db_spec_ok st attrs Hv).
Qed.
Theorem C12_agree_implies_property_refresh : forall repl tomb st attrs out,
  agree (CRefresh repl tomb st attrs out) = true -> values_ok attrs ->
  (forall a changes, st = Live a changes -> strictly_sorted (map fst changes) = true) ->
  pcheck (CRefresh repl tomb st attrs out) = true.
Proof.
  intros repl tomb st attrs out H Hv Hs. cbn [agree] in H. apply eout_eqb_eq in H. subst out. cbn [pcheck].
  destruct st as [a changes|a].
  - exact (proj2 (C12_refresh_roundtrip repl tomb a changes attrs Hv (Hs a changes eq_refl))).
  - apply tomb_spec_ok.
Qed.
Theorem C12_agree_implies_property_incremental : forall repl ranges st attrs out,
  agree (CIncr repl ranges st attrs out) = true -> values_ok attrs ->
  (forall a changes, st = Live a changes -> strictly_sorted (map fst changes) = true) ->
  pcheck (CIncr repl ranges st attrs out) = true.
Proof.
  intros repl ranges st attrs out H Hv Hs. cbn [agree] in H. apply eout_eqb_eq in H. subst out. cbn [pcheck].
  destruct st as [a changes|a].
  - exact (proj2 (C12_incremental_roundtrip repl ranges a changes attrs Hv (Hs a changes eq_refl))).
  - apply tomb_spec_ok.
Qed.
