(* KV.C12.Props — property theorems only.
   C12: every stored / replicated value and entry reads back as an equivalent value with
   identical behaviour; a password verifies the same cleartexts after reload as before. *)
From Coq Require Import List NArith Bool.
Import ListNotations.
Require Import KV.C12.Model KV.C12.Proofs.
Open Scope N_scope.

(* ================================================================== FULL STATEMENT and refutation *)

(* The full sentence on the model: every password, every valueset type and (given that) every
   entry frame reads back unchanged. *)
Definition C12_full_statement : Prop :=
  (forall k, reload k = Some k) /\
  (forall o k pw k', reload k = Some k' -> verify o k' pw = verify o k pw) /\
  (forall k, k <> VK_Other -> vs_reload k = Some k).

(* REFUTED on the faithful transcription of the code (both witnesses are confirmed on the real
   code by the harness): a CRYPT_SHA512 password comes back as CRYPT_SHA256 (libs/crypto
   lib.rs:487) and a JwsKeyRs256 valueset cannot be loaded at all (valueset/mod.rs:1049). *)
Theorem C12_refuted : ~ C12_full_statement.
Proof. intros [H _]. exact (pw_refuted H). Qed.
Theorem C12_refuted_behaviour : ~ (forall o k pw k', reload k = Some k' -> verify o k' pw = verify o k pw).
Proof. exact verify_refuted. Qed.
Theorem C12_refuted_valueset : ~ (forall k, k <> VK_Other -> vs_reload k = Some k).
Proof. exact vs_refuted. Qed.

(* ================================================================== passwords (Part A) *)

(* PROVED PART: every password whose KDF is not CRYPT_SHA512 (any parameters, salts and hashes of
   any length) reads back as exactly the same password. *)
Theorem C12_password_roundtrip_partial : forall k,
  ktag k <> TAG_CRYPT_SHA512 -> reload k = Some k.
Proof. exact reload_ok. Qed.

(* ... and therefore verifies exactly the same cleartexts (same Ok/Err, same answer), whatever
   the hash primitives compute. *)
Theorem C12_verify_stable_partial : forall o k pw,
  ktag k <> TAG_CRYPT_SHA512 ->
  option_map (fun k' => verify o k' pw) (reload k) = Some (verify o k pw).
Proof. exact verify_stable. Qed.

(* Loading never fails, and the constructor that comes back is a function of the stored one. *)
Theorem C12_reload_total : forall k, exists k', reload k = Some k' /\ ktag k' = ktag_after_reload (ktag k).
Proof.
  intros k. destruct (reload_total k) as [k' H]. exists k'. split; [exact H | exact (reload_tag k k' H)].
Qed.

(* The excluded class, exactly: the reloaded password is checked with the SHA256-crypt routine
   against the "$6$" string, the original with the SHA512-crypt routine. *)
Theorem C12_crypt_sha512_after_reload : forall o h pw,
  N.of_nat (length pw) <= PW_MAX_LENGTH_CHECK ->
  option_map (fun k' => verify o k' pw) (reload (K_CRYPT_SHA512 h)) = Some (Some (o_sha256_check o h pw)) /\
  verify o (K_CRYPT_SHA512 h) pw = Some (o_sha512_check o h pw).
Proof. exact verify_sha512_after_reload. Qed.

(* The stored form is reproduced by load-then-store (a backup taken after a restore is equal),
   for every stored password outside the class. *)
Theorem C12_load_store_partial : forall d,
  dtag d <> TAG_CRYPT_SHA512 -> option_map db_of_kdf (kdf_of_db d) = Some d.
Proof. intros d H. destruct (load_store d H) as [k [E [E1 _]]]. rewrite E. cbn. rewrite E1. reflexivity. Qed.

(* Storing is injective: two different passwords never share a stored form. *)
Theorem C12_store_injective : forall a b, db_of_kdf a = db_of_kdf b -> a = b.
Proof. exact db_of_kdf_inj. Qed.

(* THE PROPOSED FIX (fixes/C12.patch, first hunk) satisfies the full password sentence. *)
Theorem C12_password_fixed_roundtrip : forall k, kdf_of_db_fixed (db_of_kdf k) = Some k.
Proof. exact fixed_roundtrip. Qed.
Theorem C12_password_fixed_load_store : forall d, option_map db_of_kdf (kdf_of_db_fixed d) = Some d.
Proof. exact fixed_store_roundtrip. Qed.

(* ================================================================== valueset types (Part B) *)

(* PROVED PART: every valueset type except JwsKeyRs256 writes a variant that the loader hands
   back to the same type. *)
Theorem C12_valueset_dispatch_partial : forall k,
  k <> VK_JwsKeyRs256 -> k <> VK_Other -> vs_reload k = Some k.
Proof. exact vs_reload_ok. Qed.

(* a load never turns a valueset into one of another type: it is the same type or an error *)
Theorem C12_valueset_never_other_type : forall k k', vs_reload k = Some k' -> k' = k.
Proof. exact vs_reload_only_self. Qed.

(* no two types share a stored variant; every variant goes to the type that writes it (JR apart);
   the only refused variants are the three retired ones *)
Theorem C12_tags_distinct : forall a b, tag_of a = tag_of b -> a = b.
Proof. exact tag_of_inj. Qed.
Theorem C12_dispatch_sound : forall t k,
  dispatch t = Some k -> t = tag_of k \/ (t = T_JR /\ k = VK_JwsKeyEs256).
Proof. exact dispatch_sound. Qed.
Theorem C12_dispatch_refused : forall t,
  dispatch t = None <-> (t = T_PN \/ t = T_TE \/ t = T_EK \/ t = T_Other).
Proof. exact dispatch_refused. Qed.

(* THE PROPOSED FIX (fixes/C12.patch, second hunk) satisfies the full dispatch sentence. *)
Theorem C12_valueset_fixed : forall k, k <> VK_Other -> vs_reload_with dispatch_fixed k = Some k.
Proof. exact vs_fixed. Qed.

(* ================================================================== entries (Part C) *)
(* For entries of ANY number of attributes and change records. `values_ok attrs` = every
   non-empty value of the entry reads back as itself (Parts A/B and the per-value runs). *)

(* Database / backup: an entry with exactly one uuid comes back with the same change state and
   exactly its stored attributes, each with an equal value. *)
Theorem C12_db_entry_roundtrip : forall st attrs,
  values_ok attrs -> has_uuid attrs = true ->
  db_trip st attrs = EOut st (ids (stored attrs)).
Proof. exact db_trip_ok. Qed.

(* ... an entry is refused only if one of its values fails to load or it has no single uuid, and
   in every case the outcome is the one the sentence asks for. *)
Theorem C12_db_entry_errors : forall st attrs, db_trip st attrs = EErr ->
  (exists a, In a attrs /\ db_empty a = false /\ a_back a = None) \/ has_uuid attrs = false.
Proof. exact db_trip_err. Qed.
Theorem C12_db_entry_meets_spec : forall st attrs,
  values_ok attrs -> db_spec st attrs (db_trip st attrs) = true.
Proof. exact db_spec_ok. Qed.

(* A whole database / backup (any list of entries) is restored entry by entry. *)
Theorem C12_backup_roundtrip : forall (db : list (estate * list aval)),
  (forall e, In e db -> values_ok (snd e) /\ has_uuid (snd e) = true) ->
  map (fun e => db_trip (fst e) (snd e)) db = map (fun e => EOut (fst e) (ids (stored (snd e)))) db.
Proof.
  intros db H. apply map_ext_in. intros e He. destruct (H e He) as [Hv Hu].
  exact (db_trip_ok (fst e) (snd e) Hv Hu).
Qed.

(* Refresh replication: the receiver gets the creation cid, exactly the change records of
   replicated attributes, and for each of them the sender's current non-empty value, equal. *)
Theorem C12_refresh_roundtrip : forall repl tomb a changes attrs,
  values_ok attrs -> strictly_sorted (map fst changes) = true ->
  refresh_trip repl tomb (Live a changes) attrs =
    EOut (Live a (filter (sel_refresh repl) changes)) (ids (sent_all attrs (filter (sel_refresh repl) changes))) /\
  repl_spec (sel_refresh repl) tomb (Live a changes) attrs (refresh_trip repl tomb (Live a changes) attrs) = true.
Proof.
  intros repl tomb a changes attrs Hv Hs. rewrite refresh_is_live_trip, (live_trip_ok _ a changes attrs Hv).
  split; [reflexivity | apply live_spec_ok; exact Hs].
Qed.

(* Incremental replication: the same for the change records inside the requested window
   (ts_min < ts <= ts_max of the record's server). *)
Theorem C12_incremental_roundtrip : forall repl ranges a changes attrs,
  values_ok attrs -> strictly_sorted (map fst changes) = true ->
  incr_trip repl ranges (Live a changes) attrs =
    EOut (Live a (filter (sel_incr repl ranges) changes))
         (ids (sent_all attrs (filter (sel_incr repl ranges) changes))) /\
  repl_spec (sel_incr repl ranges) [] (Live a changes) attrs (incr_trip repl ranges (Live a changes) attrs) = true.
Proof.
  intros repl ranges a changes attrs Hv Hs. rewrite incr_is_live_trip, (live_trip_ok _ a changes attrs Hv).
  split; [reflexivity | apply live_spec_ok; exact Hs].
Qed.

(* Replication of a live entry fails only if a value that has to be sent fails to load. *)
Theorem C12_replication_errors : forall repl tomb ranges a changes attrs,
  (refresh_trip repl tomb (Live a changes) attrs = EErr \/ incr_trip repl ranges (Live a changes) attrs = EErr) ->
  exists c x, In c changes /\ find_attr (fst c) attrs = Some x /\ a_empty x = false /\ a_back x = None.
Proof.
  intros repl tomb ranges a changes attrs [H|H].
  - rewrite refresh_is_live_trip in H. apply live_trip_err in H as [c [x [Hc [_ [Hf [He Hn]]]]]].
    exists c, x. repeat split; assumption.
  - rewrite incr_is_live_trip in H. apply live_trip_err in H as [c [x [Hc [_ [Hf [He Hn]]]]]].
    exists c, x. repeat split; assumption.
Qed.

(* Tombstones: the deletion cid is preserved in both encodings (refresh re-creates the three
   tombstone attributes, incremental sends none). *)
Theorem C12_tombstone_roundtrip : forall repl tomb ranges a attrs,
  refresh_trip repl tomb (Tomb a) attrs = EOut (Tomb a) tomb /\
  incr_trip repl ranges (Tomb a) attrs = EOut (Tomb a) [].
Proof. intros. split; reflexivity. Qed.

(* ================================================================== bridge to the implementation *)
(* If the real code agreed with the model on a recorded case (a run reports zero
   disagreements), the property holds of the real code's own output on that case. *)

(* passwords: all of the sentence except the recorded verify vectors (which are compared
   directly by pcheck) follows, outside the known class *)
Theorem C12_agree_implies_property_password : forall kt d kt2 d2 eq vb va,
  agree (CPw kt d kt2 d2 eq vb va) = true -> known (CPw kt d kt2 d2 eq vb va) = false ->
  pcheck_pw_struct kt d kt2 d2 eq = true.
Proof.
  intros kt d kt2 d2 eq vb va H Hk. apply (bridge_pw kt d kt2 d2 eq vb va H).
  intros E. cbn [known] in Hk. rewrite E in Hk. discriminate Hk.
Qed.
Theorem C12_agree_implies_property_load : forall d kt2 d2,
  agree (CLoad d kt2 d2) = true -> known (CLoad d kt2 d2) = false -> pcheck (CLoad d kt2 d2) = true.
Proof.
  intros d kt2 d2 H Hk. apply (bridge_load d kt2 d2 H).
  intros E. cbn [known] in Hk. rewrite E in Hk. discriminate Hk.
Qed.
(* valuesets: same type, equal, and stores to the same bytes *)
Theorem C12_agree_implies_property_valueset_partial : forall k pw tag res same restore obs,
  agree (CVs k pw tag res same restore obs) = true -> k <> VK_Other ->
  known (CVs k pw tag res same restore obs) = false ->
  res = Some k /\ same = true /\ restore = true.
Proof. intros k pw tag res same restore obs H Ho Hk. exact (bridge_vs k pw tag res same restore obs H Ho Hk). Qed.
(* entries *)
Theorem C12_agree_implies_property_db : forall st attrs out,
  agree (CDb st attrs out) = true -> values_ok attrs -> pcheck (CDb st attrs out) = true.
Proof.
  intros st attrs out H Hv. cbn [agree] in H. apply eout_eqb_eq in H. subst out.
  cbn [pcheck]. exact (db_spec_ok st attrs Hv).
Qed.
Theorem C12_agree_implies_property_refresh : forall repl tomb st attrs out,
  agree (CRefresh repl tomb st attrs out) = true -> values_ok attrs ->
  (forall a changes, st = Live a changes -> strictly_sorted (map fst changes) = true) ->
  pcheck (CRefresh repl tomb st attrs out) = true.
Proof.
  intros repl tomb st attrs out H Hv Hs. cbn [agree] in H. apply eout_eqb_eq in H. subst out. cbn [pcheck].
  destruct st as [a changes|a].
  - exact (proj2 (C12_refresh_roundtrip repl tomb a changes attrs Hv (Hs a changes eq_refl))).
  - apply tomb_spec_ok.
Qed.
Theorem C12_agree_implies_property_incremental : forall repl ranges st attrs out,
  agree (CIncr repl ranges st attrs out) = true -> values_ok attrs ->
  (forall a changes, st = Live a changes -> strictly_sorted (map fst changes) = true) ->
  pcheck (CIncr repl ranges st attrs out) = true.
Proof.
  intros repl ranges st attrs out H Hv Hs. cbn [agree] in H. apply eout_eqb_eq in H. subst out. cbn [pcheck].
  destruct st as [a changes|a].
  - exact (proj2 (C12_incremental_roundtrip repl ranges a changes attrs Hv (Hs a changes eq_refl))).
  - apply tomb_spec_ok.
Qed.
